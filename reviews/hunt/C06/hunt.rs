// Adversarial hunt for property C06: all views of a sparse matrix agree, CSC stays well-formed.
// Public API only. Independent oracle: a dense Vec<Option<T>> reference matrix.

use ohsl::{Complex, Matrix, Number, One, Sparse, Vector, Zero};
use std::fmt::Debug;
use std::ops::{Add, AddAssign, Div, DivAssign, Mul, MulAssign, Neg, Sub, SubAssign};
use std::sync::atomic::{AtomicUsize, Ordering};

static CASES: AtomicUsize = AtomicUsize::new(0);

// ---------------------------------------------------------------- generator
struct Rng(u64);
impl Rng {
    fn new(seed: u64) -> Self { Rng(seed.wrapping_mul(0x9E3779B97F4A7C15) | 1) }
    fn next(&mut self) -> u64 {
        let mut x = self.0;
        x ^= x << 13; x ^= x >> 7; x ^= x << 17;
        self.0 = x;
        x.wrapping_mul(0x2545F4914F6CDD1D)
    }
    fn below(&mut self, n: usize) -> usize { if n == 0 { 0 } else { (self.next() >> 11) as usize % n } }
    fn shuffle<U>(&mut self, v: &mut [U]) {
        for i in (1..v.len()).rev() { let j = self.below(i + 1); v.swap(i, j); }
    }
}

// ---------------------------------------------------------------- exact rational on i128
fn gcd(a: i128, b: i128) -> i128 { let (mut a, mut b) = (a.abs(), b.abs()); while b != 0 { let t = a % b; a = b; b = t; } a }
#[derive(Clone, Copy, Debug, PartialEq)]
struct Q { n: i128, d: i128 }
impl Q {
    fn new(n: i128, d: i128) -> Q {
        assert!(d != 0);
        let g = gcd(n, d); let g = if g == 0 { 1 } else { g };
        let s = if d < 0 { -1 } else { 1 };
        Q { n: s * n / g, d: s * d / g }
    }
}
impl Add for Q { type Output = Q; fn add(self, o: Q) -> Q { Q::new(self.n * o.d + o.n * self.d, self.d * o.d) } }
impl Sub for Q { type Output = Q; fn sub(self, o: Q) -> Q { Q::new(self.n * o.d - o.n * self.d, self.d * o.d) } }
impl Mul for Q { type Output = Q; fn mul(self, o: Q) -> Q { Q::new(self.n * o.n, self.d * o.d) } }
impl Div for Q { type Output = Q; fn div(self, o: Q) -> Q { Q::new(self.n * o.d, self.d * o.n) } }
impl Neg for Q { type Output = Q; fn neg(self) -> Q { Q { n: -self.n, d: self.d } } }
impl AddAssign for Q { fn add_assign(&mut self, o: Q) { *self = *self + o; } }
impl SubAssign for Q { fn sub_assign(&mut self, o: Q) { *self = *self - o; } }
impl MulAssign for Q { fn mul_assign(&mut self, o: Q) { *self = *self * o; } }
impl DivAssign for Q { fn div_assign(&mut self, o: Q) { *self = *self / o; } }
impl Zero for Q { fn zero() -> Q { Q { n: 0, d: 1 } } }
impl One for Q { fn one() -> Q { Q { n: 1, d: 1 } } }
impl Number for Q {}

// ---------------------------------------------------------------- element type abstraction for the test
trait Elem: Copy + Number + Debug {
    fn from_int(k: i64) -> Self;          // an "entry value" derived from an integer tag
    fn scalers() -> Vec<Self>;            // scale factors that keep everything exact / finite
    fn same(a: &Self, b: &Self) -> bool { a == b }
}
impl Elem for f64 {
    fn from_int(k: i64) -> f64 {
        // mix of integers, powers of two, fractions, signed zeros
        match k.rem_euclid(7) {
            0 => k as f64,
            1 => (k as f64) * 0.5,
            2 => 2f64.powi((k % 40) as i32),
            3 => -(k as f64) / 3.0,
            4 => if k % 2 == 0 { 0.0 } else { -0.0 },
            5 => 1.0 + (k as f64) * f64::EPSILON,
            _ => (k as f64) * 1e-3,
        }
    }
    fn scalers() -> Vec<f64> { vec![0.0, -0.0, 1.0, -1.0, 2.0, 0.5, 3.0, -0.1, 1e3] }
    fn same(a: &f64, b: &f64) -> bool { a.to_bits() == b.to_bits() }
}
impl Elem for i64 {
    fn from_int(k: i64) -> i64 { if k % 5 == 0 { 0 } else { k % 11 - 5 } }
    fn scalers() -> Vec<i64> { vec![0, 1, -1, 2, 3] }
}
impl Elem for Q {
    fn from_int(k: i64) -> Q { Q::new((k % 13 - 6) as i128, (k.rem_euclid(5) + 1) as i128) }
    fn scalers() -> Vec<Q> { vec![Q::new(0, 1), Q::new(1, 1), Q::new(-1, 1), Q::new(2, 3), Q::new(-3, 2)] }
}
impl Elem for Complex<f64> {
    fn from_int(k: i64) -> Self {
        match k.rem_euclid(4) {
            0 => Complex::new(k as f64, 0.0),
            1 => Complex::new(0.0, k as f64),
            2 => Complex::new(k as f64 * 0.5, -(k as f64) * 0.25),
            _ => Complex::new(0.0, 0.0),
        }
    }
    fn scalers() -> Vec<Self> {
        vec![Complex::new(0.0, 0.0), Complex::new(1.0, 0.0), Complex::new(0.0, 1.0), Complex::new(-1.0, 0.0),
             Complex::new(2.0, -0.5), Complex::new(0.0, -2.0)]
    }
    fn same(a: &Self, b: &Self) -> bool { a.real.to_bits() == b.real.to_bits() && a.imag.to_bits() == b.imag.to_bits()
        || (a == b) }
}

// ---------------------------------------------------------------- reference matrix
#[derive(Clone, Debug)]
struct Ref<T> { rows: usize, cols: usize, e: Vec<Option<T>> } // row-major
impl<T: Elem> Ref<T> {
    fn new(rows: usize, cols: usize) -> Self { Ref { rows, cols, e: vec![None; rows * cols] } }
    fn set(&mut self, r: usize, c: usize, v: T) { assert!(r < self.rows && c < self.cols); self.e[r * self.cols + c] = Some(v); }
    fn get(&self, r: usize, c: usize) -> Option<T> { self.e[r * self.cols + c] }
    fn count(&self) -> usize { self.e.iter().filter(|x| x.is_some()).count() }
    fn scale(&mut self, s: T) { for x in self.e.iter_mut() { if let Some(v) = x { *x = Some(*v * s); } } }
    fn transpose(&self) -> Self {
        let mut t = Ref::new(self.cols, self.rows);
        for r in 0..self.rows { for c in 0..self.cols { if let Some(v) = self.get(r, c) { t.set(c, r, v); } } }
        t
    }
    fn triplets(&self) -> Vec<(usize, usize, T)> {
        let mut t = vec![];
        for r in 0..self.rows { for c in 0..self.cols { if let Some(v) = self.get(r, c) { t.push((r, c, v)); } } }
        t
    }
}

fn opt_same<T: Elem>(a: &Option<T>, b: &Option<T>) -> bool {
    match (a, b) { (None, None) => true, (Some(x), Some(y)) => T::same(x, y), _ => false }
}

// ---------------------------------------------------------------- the check of the property itself
fn check<T: Elem>(s: &Sparse<T>, m: &Ref<T>, ctx: &dyn Fn() -> String) {
    CASES.fetch_add(1, Ordering::Relaxed);
    macro_rules! fail { ($($a:tt)*) => { panic!("{} :: {}\n sparse: rows={} cols={} nonzero={} val={:?} row_index={:?} col_start={:?}\n ref={:?}",
        format!($($a)*), ctx(), s.rows, s.cols, s.nonzero, s.val, s.row_index, s.col_start, m.triplets()) } }
    // shape
    if s.rows != m.rows || s.cols != m.cols { fail!("shape mismatch"); }
    // well-formedness
    if s.col_start.len() != s.cols + 1 { fail!("col_start length {} != cols+1", s.col_start.len()); }
    if s.col_start[0] != 0 { fail!("col_start[0] != 0"); }
    for j in 0..s.cols { if s.col_start[j] > s.col_start[j + 1] { fail!("col_start not rising at {}", j); } }
    if s.col_start[s.cols] != s.nonzero { fail!("col_start last != nonzero"); }
    if s.val.len() != s.nonzero { fail!("val.len {} != nonzero", s.val.len()); }
    if s.row_index.len() != s.nonzero { fail!("row_index.len {} != nonzero", s.row_index.len()); }
    for &r in &s.row_index { if r >= s.rows { fail!("row index {} out of range", r); } }
    if s.nonzero != m.count() { fail!("nonzero {} != reference count {}", s.nonzero, m.count()); }
    // no duplicate position in the structure
    let mut seen = vec![false; s.rows * s.cols];
    for j in 0..s.cols { for k in s.col_start[j]..s.col_start[j + 1] {
        let p = s.row_index[k] * s.cols + j;
        if seen[p] { fail!("duplicate structural entry ({},{})", s.row_index[k], j); }
        seen[p] = true;
    } }
    // view 1: get
    for r in 0..s.rows { for c in 0..s.cols {
        let g = s.get(r, c);
        if !opt_same(&g, &m.get(r, c)) { fail!("get({},{}) = {:?}, reference {:?}", r, c, g, m.get(r, c)); }
    } }
    // view 2: triplets
    let t = s.to_triplets();
    if t.len() != s.nonzero { fail!("to_triplets length {}", t.len()); }
    let mut tm: Ref<T> = Ref::new(s.rows, s.cols);
    let mut lastc = 0;
    for &(r, c, v) in &t {
        if r >= s.rows || c >= s.cols { fail!("triplet out of range ({},{})", r, c); }
        if c < lastc { fail!("triplets not column ordered"); }
        lastc = c;
        if tm.get(r, c).is_some() { fail!("duplicate triplet ({},{})", r, c); }
        tm.set(r, c, v);
    }
    for r in 0..s.rows { for c in 0..s.cols {
        if !opt_same(&tm.get(r, c), &m.get(r, c)) { fail!("triplet view differs at ({},{})", r, c); }
    } }
    // view 3: dense
    let d: Matrix<T> = s.to_dense();
    if d.rows() != s.rows || d.cols() != s.cols { fail!("dense shape {}x{}", d.rows(), d.cols()); }
    for r in 0..s.rows { for c in 0..s.cols {
        let want = m.get(r, c).unwrap_or(T::zero());
        if !T::same(&d[(r, c)], &want) { fail!("dense({},{}) = {:?}, want {:?}", r, c, d[(r, c)], want); }
    } }
    // view 4: column index expansion
    let ci: Vector<usize> = s.col_index();
    if ci.size() != s.nonzero { fail!("col_index size {} != nonzero", ci.size()); }
    for j in 0..s.cols { for k in s.col_start[j]..s.col_start[j + 1] {
        if ci[k] != j { fail!("col_index[{}] = {} want {}", k, ci[k], j); }
    } }
    for k in 0..s.nonzero {
        if !opt_same(&Some(s.val[k]), &m.get(s.row_index[k], ci[k])) { fail!("(row_index,col_index,val)[{}] not in reference", k); }
        if t[k].0 != s.row_index[k] || t[k].1 != ci[k] || !T::same(&t[k].2, &s.val[k]) { fail!("triplet {} disagrees with raw arrays", k); }
    }
    // col_start_from_index round trip
    let cs = s.col_start_from_index(&ci);
    if cs != s.col_start { fail!("col_start_from_index(col_index) = {:?}", cs); }
}

// side check (exact types only): multiply / transpose_multiply describe the same matrix
fn check_products<T: Elem>(s: &Sparse<T>, m: &Ref<T>, rng: &mut Rng) {
    let x: Vec<T> = (0..m.cols).map(|_| T::from_int(rng.below(50) as i64 + 1)).collect();
    let y: Vec<T> = (0..m.rows).map(|_| T::from_int(rng.below(50) as i64 + 1)).collect();
    let ax = s.multiply(&Vector::create(x.clone()));
    let aty = s.transpose_multiply(&Vector::create(y.clone()));
    assert_eq!(ax.size(), m.rows); assert_eq!(aty.size(), m.cols);
    for r in 0..m.rows {
        let mut acc = T::zero();
        for c in 0..m.cols { if let Some(v) = m.get(r, c) { acc += v * x[c]; } }
        assert!(ax[r] == acc, "multiply row {} {:?} vs {:?}", r, ax[r], acc);
    }
    for c in 0..m.cols {
        let mut acc = T::zero();
        for r in 0..m.rows { if let Some(v) = m.get(r, c) { acc += v * y[r]; } }
        assert!(aty[c] == acc, "transpose_multiply col {} {:?} vs {:?}", c, aty[c], acc);
    }
}

// ---------------------------------------------------------------- builders
fn build_triplets<T: Elem>(m: &Ref<T>, order: &[(usize, usize, T)]) -> Sparse<T> {
    let mut t = order.to_vec();
    let s = Sparse::from_triplets(m.rows, m.cols, &mut t);
    assert!(t.is_empty(), "from_triplets should drain");
    s
}

// raw CSC arrays; mode 0: rows ascending in each column, 1: descending, 2: shuffled
fn build_vecs<T: Elem>(m: &Ref<T>, mode: usize, rng: &mut Rng) -> Sparse<T> {
    let mut val = vec![]; let mut ri = vec![]; let mut cs = vec![0usize];
    for c in 0..m.cols {
        let mut col: Vec<(usize, T)> = (0..m.rows).filter_map(|r| m.get(r, c).map(|v| (r, v))).collect();
        match mode { 1 => col.reverse(), 2 => rng.shuffle(&mut col), _ => {} }
        for (r, v) in col { ri.push(r); val.push(v); }
        cs.push(val.len());
    }
    Sparse::from_vecs(m.rows, m.cols, val, ri, cs)
}

fn permutations(n: usize) -> Vec<Vec<usize>> {
    fn rec(k: usize, a: &mut Vec<usize>, out: &mut Vec<Vec<usize>>) {
        if k == a.len() { out.push(a.clone()); return; }
        for i in k..a.len() { a.swap(k, i); rec(k + 1, a, out); a.swap(k, i); }
    }
    let mut a: Vec<usize> = (0..n).collect(); let mut out = vec![]; rec(0, &mut a, &mut out); out
}

fn ref_from_mask<T: Elem>(rows: usize, cols: usize, mask: u64, tag: i64) -> Ref<T> {
    let mut m = Ref::new(rows, cols);
    for p in 0..rows * cols { if mask >> p & 1 == 1 { m.set(p / cols, p % cols, T::from_int(tag + 3 * p as i64 + 1)); } }
    m
}

// ---------------------------------------------------------------- 1. exhaustive small shapes, every permutation
fn exhaustive<T: Elem>(maxdim: usize, max_perm_n: usize) {
    let mut rng = Rng::new(11);
    let perms: Vec<Vec<Vec<usize>>> = (0..=max_perm_n).map(permutations).collect();
    for rows in 0..=maxdim { for cols in 0..=maxdim {
        let cells = rows * cols;
        for mask in 0u64..(1u64 << cells) {
            let m: Ref<T> = ref_from_mask(rows, cols, mask, mask as i64);
            let base = m.triplets();
            let n = base.len();
            let ctx_base = |s: String| format!("exhaustive {}x{} mask={:#b} {}", rows, cols, mask, s);
            if n <= max_perm_n {
                for p in &perms[n] {
                    let order: Vec<_> = p.iter().map(|&i| base[i]).collect();
                    let s = build_triplets(&m, &order);
                    check(&s, &m, &|| ctx_base(format!("order={:?}", order)));
                }
            } else {
                for _ in 0..40 {
                    let mut order = base.clone(); rng.shuffle(&mut order);
                    let s = build_triplets(&m, &order);
                    check(&s, &m, &|| ctx_base(format!("order={:?}", order)));
                }
            }
            for mode in 0..3 {
                let s = build_vecs(&m, mode, &mut rng);
                check(&s, &m, &|| ctx_base(format!("from_vecs mode {}", mode)));
                let t = s.transpose();
                check(&t, &m.transpose(), &|| ctx_base(format!("from_vecs mode {} transposed", mode)));
                let tt = t.transpose();
                check(&tt, &m, &|| ctx_base(format!("from_vecs mode {} transposed twice", mode)));
            }
        }
    } }
}

#[test] fn exhaustive_f64() { exhaustive::<f64>(3, 6); }
#[test] fn exhaustive_i64() { exhaustive::<i64>(3, 5); }
#[test] fn exhaustive_q() { exhaustive::<Q>(3, 4); }
#[test] fn exhaustive_cmplx() { exhaustive::<Complex<f64>>(3, 4); }

// 2x4, 4x2, 1x8, 8x1, 4x4 (all 65536 patterns, a few orders each)
#[test]
fn exhaustive_rectangular_i64() {
    let mut rng = Rng::new(5);
    for &(rows, cols) in &[(2usize, 4usize), (4, 2), (1, 8), (8, 1), (2, 5), (5, 2), (4, 4), (3, 4), (4, 3), (2, 8), (8, 2)] {
        let cells = rows * cols;
        for mask in 0u64..(1u64 << cells) {
            let m: Ref<i64> = ref_from_mask(rows, cols, mask, 7);
            let base = m.triplets();
            for k in 0..3 {
                let mut order = base.clone();
                match k { 0 => {}, 1 => order.reverse(), _ => rng.shuffle(&mut order) }
                let s = build_triplets(&m, &order);
                check(&s, &m, &|| format!("rect {}x{} mask={:#b} order={:?}", rows, cols, mask, order));
                if k == 2 {
                    let t = s.transpose();
                    check(&t, &m.transpose(), &|| format!("rect {}x{} mask={:#b} transposed", rows, cols, mask));
                }
            }
        }
    }
}

// ---------------------------------------------------------------- 2. structured + random patterns up to 8x8
fn structured_masks(rows: usize, cols: usize, rng: &mut Rng) -> Vec<Vec<bool>> {
    let cells = rows * cols;
    let mut out: Vec<Vec<bool>> = vec![];
    let mk = |f: &dyn Fn(usize, usize) -> bool| -> Vec<bool> { (0..cells).map(|p| f(p / cols, p % cols)).collect() };
    out.push(mk(&|_, _| false));
    out.push(mk(&|_, _| true));
    out.push(mk(&|r, c| r == c));
    out.push(mk(&|r, c| r + c + 1 == cols));               // anti-diagonal
    out.push(mk(&|r, c| r <= c));                          // upper
    out.push(mk(&|r, c| r >= c));                          // lower
    out.push(mk(&|r, c| (r as isize - c as isize).abs() <= 1)); // tridiagonal
    out.push(mk(&|_, c| c == 0));                          // only first column
    out.push(mk(&|_, c| c + 1 == cols));                   // only last column
    out.push(mk(&|_, c| c != 0));                          // first column empty
    out.push(mk(&|_, c| c + 1 != cols));                   // last column empty
    out.push(mk(&|_, c| c != 0 && c + 1 != cols));         // both ends empty
    out.push(mk(&|r, _| r == 0));
    out.push(mk(&|r, _| r + 1 == rows));
    out.push(mk(&|r, _| r != 0));
    out.push(mk(&|r, _| r + 1 != rows));
    out.push(mk(&|_, c| c % 2 == 0));
    out.push(mk(&|_, c| c % 2 == 1));
    out.push(mk(&|r, c| (r + c) % 2 == 0));
    out.push(mk(&|r, c| r + 1 == rows && c + 1 == cols));  // single last element
    out.push(mk(&|r, c| r == 0 && c == 0));
    out.push(mk(&|r, c| r + 1 == rows && c == 0));
    out.push(mk(&|r, c| r == 0 && c + 1 == cols));
    // random permutation pattern
    if rows == cols { let mut p: Vec<usize> = (0..rows).collect(); rng.shuffle(&mut p); out.push(mk(&|r, c| p[r] == c)); }
    // random densities
    for dens in [1usize, 2, 5, 8, 9] { for _ in 0..3 {
        out.push((0..cells).map(|_| rng.below(10) < dens).collect());
    } }
    // random with some empty columns / rows
    for _ in 0..4 {
        let ec: Vec<bool> = (0..cols).map(|_| rng.below(3) == 0).collect();
        let er: Vec<bool> = (0..rows).map(|_| rng.below(3) == 0).collect();
        out.push((0..cells).map(|p| !er[p / cols] && !ec[p % cols] && rng.below(3) != 0).collect());
    }
    out
}

fn structured<T: Elem>(seed: u64, orders: usize) {
    let mut rng = Rng::new(seed);
    for rows in 0..=8usize { for cols in 0..=8usize {
        for (pi, pat) in structured_masks(rows, cols, &mut rng).into_iter().enumerate() {
            let mut m: Ref<T> = Ref::new(rows, cols);
            for p in 0..rows * cols { if pat[p] { m.set(p / cols, p % cols, T::from_int(rng.below(200) as i64 + 1)); } }
            let base = m.triplets();
            for k in 0..orders {
                let mut order = base.clone();
                match k {
                    0 => {}                                           // row-major
                    1 => order.reverse(),
                    2 => order.sort_by_key(|t| (t.1, t.0)),           // column-major sorted
                    3 => order.sort_by_key(|t| (usize::MAX - t.1, t.0)), // columns descending
                    4 => order.sort_by_key(|t| (t.1, usize::MAX - t.0)), // rows descending within column
                    _ => rng.shuffle(&mut order),
                }
                let s = build_triplets(&m, &order);
                check(&s, &m, &|| format!("structured {}x{} pat#{} order={:?}", rows, cols, pi, order));
                if k % 4 == 1 {
                    let t = s.transpose();
                    check(&t, &m.transpose(), &|| format!("structured {}x{} pat#{} order#{} transposed", rows, cols, pi, k));
                    check_products(&s, &m, &mut rng);
                    check_products(&t, &m.transpose(), &mut rng);
                }
            }
            for mode in 0..3 {
                let s = build_vecs(&m, mode, &mut rng);
                check(&s, &m, &|| format!("structured {}x{} pat#{} from_vecs mode {}", rows, cols, pi, mode));
            }
        }
    } }
}
#[test] fn structured_i64() { structured::<i64>(101, 12); }
#[test] fn structured_q() { structured::<Q>(102, 8); }
#[test] fn structured_f64() {
    // f64 products are not exact in general, so run without check_products: use a wrapper via orders that never hit k%4==1? simpler: dedicated loop
    let mut rng = Rng::new(103);
    for rows in 0..=8usize { for cols in 0..=8usize {
        for (pi, pat) in structured_masks(rows, cols, &mut rng).into_iter().enumerate() {
            let mut m: Ref<f64> = Ref::new(rows, cols);
            for p in 0..rows * cols { if pat[p] { m.set(p / cols, p % cols, f64::from_int(rng.below(2000) as i64 - 1000)); } }
            let base = m.triplets();
            for k in 0..8 {
                let mut order = base.clone();
                if k == 1 { order.reverse(); } else if k > 1 { rng.shuffle(&mut order); }
                let s = build_triplets(&m, &order);
                check(&s, &m, &|| format!("structured f64 {}x{} pat#{} order={:?}", rows, cols, pi, order));
                let t = s.transpose();
                check(&t, &m.transpose(), &|| format!("structured f64 {}x{} pat#{} transposed", rows, cols, pi));
            }
        }
    } }
}
#[test] fn structured_cmplx() {
    let mut rng = Rng::new(104);
    for rows in 0..=8usize { for cols in 0..=8usize {
        for (pi, pat) in structured_masks(rows, cols, &mut rng).into_iter().enumerate() {
            let mut m: Ref<Complex<f64>> = Ref::new(rows, cols);
            for p in 0..rows * cols { if pat[p] { m.set(p / cols, p % cols, Complex::<f64>::from_int(rng.below(2000) as i64 - 1000)); } }
            let base = m.triplets();
            for k in 0..4 {
                let mut order = base.clone();
                if k == 1 { order.reverse(); } else if k > 1 { rng.shuffle(&mut order); }
                let s = build_triplets(&m, &order);
                check(&s, &m, &|| format!("structured cmplx {}x{} pat#{} order={:?}", rows, cols, pi, order));
                let t = s.transpose();
                check(&t, &m.transpose(), &|| format!("structured cmplx {}x{} pat#{} transposed", rows, cols, pi));
            }
        }
    } }
}

// ---------------------------------------------------------------- 3. histories
#[derive(Clone, Debug)]
enum Op<T> { Insert(usize, usize, T), Scale(T), Transpose }

fn run_history<T: Elem>(rows: usize, cols: usize, start: &Ref<T>, start_mode: usize, ops: &[Op<T>], rng: &mut Rng, exact: bool) {
    let mut m = start.clone();
    let mut s = match start_mode {
        0 => { let mut o = m.triplets(); rng.shuffle(&mut o); build_triplets(&m, &o) }
        m_ => build_vecs(&m, m_ - 1, rng),
    };
    let _ = (rows, cols);
    let ctx0 = format!("history start={:?} mode={} ", start.triplets(), start_mode);
    check(&s, &m, &|| format!("{} step 0", ctx0));
    for (i, op) in ops.iter().enumerate() {
        match op {
            Op::Insert(r, c, v) => { s.insert(*r, *c, *v); m.set(*r, *c, *v); }
            Op::Scale(v) => { s.scale(v); m.scale(*v); }
            Op::Transpose => { s = s.transpose(); m = m.transpose(); }
        }
        check(&s, &m, &|| format!("{} after step {} of ops={:?}", ctx0, i + 1, &ops[..=i]));
        if exact && i % 5 == 4 { check_products(&s, &m, rng); }
    }
}

fn gen_ops<T: Elem>(rows: usize, cols: usize, len: usize, flavour: usize, rng: &mut Rng) -> Vec<Op<T>> {
    let sc = T::scalers();
    let (mut r, mut c) = (rows, cols);
    let mut ops = vec![];
    let mut last: Option<(usize, usize)> = None;
    for i in 0..len {
        let can_insert = r > 0 && c > 0;
        let pick = rng.below(10);
        let kind = match flavour {
            0 => if pick < 7 { 0 } else if pick < 8 { 1 } else { 2 },          // mostly inserts
            1 => if pick < 4 { 0 } else if pick < 6 { 1 } else { 2 },          // many transposes
            2 => if pick < 5 { 3 } else if pick < 8 { 0 } else { 2 },          // repeated overwrite of the same slot
            3 => 0,                                                             // inserts only: fill to full
            _ => if pick < 3 { 0 } else if pick < 8 { 1 } else { 2 },          // many scales
        };
        let v = T::from_int(rng.below(300) as i64 + i as i64);
        match kind {
            0 if can_insert => {
                let (rr, cc) = match rng.below(8) {
                    0 => (0, 0), 1 => (r - 1, c - 1), 2 => (0, c - 1), 3 => (r - 1, 0),
                    _ => (rng.below(r), rng.below(c)),
                };
                last = Some((rr, cc));
                ops.push(Op::Insert(rr, cc, v));
            }
            3 if can_insert => {
                let (rr, cc) = match last { Some((a, b)) if a < r && b < c => (a, b), _ => (rng.below(r), rng.below(c)) };
                last = Some((rr, cc));
                ops.push(Op::Insert(rr, cc, v));
            }
            1 => ops.push(Op::Scale(sc[rng.below(sc.len())])),
            _ => { ops.push(Op::Transpose); std::mem::swap(&mut r, &mut c); last = last.map(|(a, b)| (b, a)); }
        }
    }
    ops
}

fn histories<T: Elem>(seed: u64, reps: usize, exact: bool) {
    let mut rng = Rng::new(seed);
    for rows in 0..=8usize { for cols in 0..=8usize {
        for rep in 0..reps {
            let mut start: Ref<T> = Ref::new(rows, cols);
            let dens = [0usize, 0, 2, 5, 10][rep % 5];
            for p in 0..rows * cols { if rng.below(10) < dens { start.set(p / cols, p % cols, T::from_int(rng.below(100) as i64 + 1)); } }
            let len = if rep % 7 == 3 { rows * cols * 3 + 4 } else { 4 + rng.below(20) };
            let flavour = rep % 5;
            let ops = gen_ops::<T>(rows, cols, len, flavour, &mut rng);
            run_history(rows, cols, &start, rep % 4, &ops, &mut rng, exact);
        }
    } }
}
#[test] fn histories_i64() { histories::<i64>(201, 60, true); }
#[test] fn histories_q() { histories::<Q>(202, 30, false); }
#[test] fn histories_f64() { histories::<f64>(203, 60, false); }
#[test] fn histories_cmplx() { histories::<Complex<f64>>(204, 30, false); }

// exhaustive short histories on tiny shapes: every sequence of length <= 4 over a small alphabet
#[test]
fn histories_exhaustive_tiny() {
    let mut rng = Rng::new(301);
    for &(rows, cols) in &[(1usize, 1usize), (1, 2), (2, 1), (2, 2), (1, 3), (3, 1), (2, 3), (0, 2), (2, 0), (0, 0)] {
        // alphabet depends on current shape, so generate by recursion
        fn rec(depth: usize, r: usize, c: usize, cur: &mut Vec<Op<i64>>, out: &mut Vec<Vec<Op<i64>>>, maxd: usize) {
            out.push(cur.clone());
            if depth == maxd { return; }
            for rr in 0..r { for cc in 0..c {
                cur.push(Op::Insert(rr, cc, (depth as i64 + 1) * 10 + (rr * c + cc) as i64)); rec(depth + 1, r, c, cur, out, maxd); cur.pop();
            } }
            cur.push(Op::Scale(-2)); rec(depth + 1, r, c, cur, out, maxd); cur.pop();
            cur.push(Op::Transpose); rec(depth + 1, c, r, cur, out, maxd); cur.pop();
        }
        let maxd = if rows * cols >= 6 { 3 } else { 4 };
        let mut all = vec![]; rec(0, rows, cols, &mut vec![], &mut all, maxd);
        let cells = rows * cols;
        let masks: Vec<u64> = if cells <= 4 { (0..(1u64 << cells)).collect() } else { vec![0, 1, (1 << cells) - 1, 0b101010 & ((1 << cells) - 1)] };
        for &mask in &masks {
            let start: Ref<i64> = ref_from_mask(rows, cols, mask, 2);
            for ops in &all {
                // only check final states of maximal sequences fully; run_history checks every step anyway
                if ops.len() == maxd { run_history(rows, cols, &start, (mask as usize) % 4, ops, &mut rng, true); }
            }
        }
    }
}

// fill an 8x8 (and other shapes) completely by inserts in assorted orders, from empty
#[test]
fn fill_by_inserts() {
    let mut rng = Rng::new(401);
    for &(rows, cols) in &[(8usize, 8usize), (8, 1), (1, 8), (7, 8), (8, 7), (5, 3), (2, 2), (1, 1)] {
        for order_kind in 0..6 {
            let mut pos: Vec<(usize, usize)> = (0..rows * cols).map(|p| (p / cols, p % cols)).collect();
            match order_kind {
                0 => {}
                1 => pos.reverse(),
                2 => pos.sort_by_key(|p| (p.1, p.0)),
                3 => pos.sort_by_key(|p| (usize::MAX - p.1, usize::MAX - p.0)),
                _ => rng.shuffle(&mut pos),
            }
            let mut m: Ref<f64> = Ref::new(rows, cols);
            let mut s: Sparse<f64> = if order_kind % 2 == 0 { Sparse::from_triplets(rows, cols, &mut vec![]) }
                                     else { Sparse::from_vecs(rows, cols, vec![], vec![], vec![0; cols + 1]) };
            check(&s, &m, &|| format!("fill {}x{} kind {} empty", rows, cols, order_kind));
            for (i, &(r, c)) in pos.iter().enumerate() {
                let v = (i as f64 + 1.0) * 0.25;
                s.insert(r, c, v); m.set(r, c, v);
                check(&s, &m, &|| format!("fill {}x{} kind {} after {} inserts pos={:?}", rows, cols, order_kind, i + 1, &pos[..=i]));
                if i % 9 == 4 { s.insert(r, c, -v); m.set(r, c, -v); check(&s, &m, &|| format!("fill overwrite")); }
                if i % 13 == 7 { s.scale(&2.0); m.scale(2.0); check(&s, &m, &|| format!("fill scale")); }
            }
        }
    }
}

#[test]
fn zz_report() {
    // not a count of everything (tests run in parallel) – the other tests print through this when run with --test-threads=1
    println!("cases so far: {}", CASES.load(Ordering::Relaxed));
}

// oracle sanity: the checker must reject a sparse matrix that differs from the reference (value, position, structure)
#[test] #[should_panic(expected = "get(")]
fn oracle_rejects_wrong_value() {
    let mut m: Ref<i64> = Ref::new(2, 3); m.set(1, 2, 5); m.set(0, 0, 1);
    let s = build_triplets(&m, &m.triplets());
    m.set(1, 2, 6);
    check(&s, &m, &|| "sanity".to_string());
}
#[test] #[should_panic(expected = "nonzero")]
fn oracle_rejects_missing_entry() {
    let mut m: Ref<i64> = Ref::new(2, 3); m.set(1, 2, 5); m.set(0, 0, 1);
    let s = build_triplets(&m, &m.triplets());
    m.set(1, 1, 6);
    check(&s, &m, &|| "sanity".to_string());
}
#[test] #[should_panic(expected = "col_start")]
fn oracle_rejects_malformed_structure() {
    let mut m: Ref<i64> = Ref::new(2, 2); m.set(0, 0, 1); m.set(1, 1, 2);
    let s = Sparse::from_vecs(2, 2, vec![1, 2], vec![0, 1], vec![0, 2, 1, 2]);
    check(&s, &m, &|| "sanity".to_string());
}
