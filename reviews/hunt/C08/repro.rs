// Reproducers for the findings of the C08 hunt (each test FAILS on the current code).
use ohsl::sparse::Sparse;
use ohsl::vector::Vector;

fn norm2(v: &[f64]) -> f64 { v.iter().map(|x| x * x).sum::<f64>().sqrt() }

/// true relative residual ||b - A x|| / ||b|| from an independent dense copy of A
fn true_rel(dense: &[&[f64]], b: &[f64], x: &[f64]) -> f64 {
    let r: Vec<f64> = (0..b.len()).map(|i| b[i] - dense[i].iter().zip(x).map(|(a, y)| a * y).sum::<f64>()).collect();
    norm2(&r) / norm2(b)
}

/// QMR answers Ok(3) for tol = 1e-12 on a 3x3 0/1 matrix with condition number ~ 5, but the x it leaves has a true
/// relative residual of 1.5625e-2 (= 2^-6): wrong by ten orders of magnitude, with every iterate of norm < 1.8.
/// The initial guess (two entries of -2^-48) makes the Lanczos quantity ep = q.Ap tiny but not zero, the solver does
/// not stop on its breakdown tests, and the s / d recurrences lose all coherence with r and x.
#[test]
fn qmr_ok_but_residual_1e10_times_tol() {
    let dense: [&[f64]; 3] = [&[0.0, 1.0, 1.0], &[1.0, 1.0, 0.0], &[1.0, 0.0, 0.0]];
    let mut t = vec![(0, 1, 1.0), (0, 2, 1.0), (1, 0, 1.0), (1, 1, 1.0), (2, 0, 1.0)];
    let a = Sparse::<f64>::from_triplets(3, 3, &mut t);
    let b = Vector::create(vec![0.0, 0.0, 1.0]);
    let e = -3.552713678800501e-15; // -2^-48
    let x0 = vec![e, e, 0.0];
    let tol = 1e-12;
    // every iterate stays O(1)
    let mut largest: f64 = 0.0;
    for k in 1..=3 { let mut xk = Vector::create(x0.clone()); let _ = a.solve_qmr(&b, &mut xk, k, tol); largest = largest.max(norm2(&xk.vec)); }
    let mut x = Vector::create(x0.clone());
    let res = a.solve_qmr(&b, &mut x, 50, tol);
    let rel = true_rel(&dense, &b.vec, &x.vec);
    println!("result {:?}  x = {:?}  true relative residual {:e}  largest iterate {:e}", res, x.vec, rel, largest);
    if res.is_ok() {
        assert!(largest < 10.0);
        // exact solution is (1, -1, 1); allow a million times the tolerance
        assert!(rel <= 1e6 * tol, "QMR reported Ok({}) for tol {:e} but ||b - A x|| / ||b|| = {:e}, x = {:?}", res.unwrap(), tol, rel, x.vec);
    }
}

/// the same mechanism with a ZERO initial guess: the tiny entries are in the right-hand side instead; Ok(6), true
/// relative residual 3.125e-2 for tol = 1e-12, x = (1, -1, 1.03125) instead of (1, -1, 1)
#[test]
fn qmr_ok_but_residual_wrong_zero_guess() {
    let dense: [&[f64]; 3] = [&[0.0, 1.0, 1.0], &[1.0, 1.0, 0.0], &[1.0, 0.0, 0.0]];
    let mut t = vec![(0, 1, 1.0), (0, 2, 1.0), (1, 0, 1.0), (1, 1, 1.0), (2, 0, 1.0)];
    let a = Sparse::<f64>::from_triplets(3, 3, &mut t);
    let b = Vector::create(vec![1.7763568394002505e-15, 5.820766091346741e-11, 1.0]); // 2^-49, 2^-34, 1
    let tol = 1e-12;
    let mut x = Vector::create(vec![0.0; 3]);
    let res = a.solve_qmr(&b, &mut x, 50, tol);
    let rel = true_rel(&dense, &b.vec, &x.vec);
    println!("result {:?}  x = {:?}  true relative residual {:e}", res, x.vec, rel);
    if res.is_ok() {
        assert!(rel <= 1e6 * tol, "QMR reported Ok({}) for tol {:e} but ||b - A x|| / ||b|| = {:e}, x = {:?}", res.unwrap(), tol, rel, x.vec);
    }
}

/// BiCGSTAB answers Ok(35) for tol = 1e-10 on a singular 3x3 integer system (empty second column, inconsistent
/// right-hand side) from a zero guess, and leaves x = [5.33.., NaN, -0.66..]: not finite (and not a solution).
#[test]
fn bicgstab_ok_with_nan_in_x() {
    let mut t = vec![(0, 0, -3.0), (0, 2, 2.0), (1, 0, -3.0), (1, 2, 3.0), (2, 2, -3.0)];
    let a = Sparse::<f64>::from_triplets(3, 3, &mut t);
    let b = Vector::create(vec![1.0, -1.0, 2.0]);
    let mut x = Vector::create(vec![0.0; 3]);
    let res = a.solve_bicgstab(&b, &mut x, 1000, 1e-10);
    println!("result {:?}  x = {:?}", res, x.vec);
    if res.is_ok() {
        assert!(x.vec.iter().all(|v| v.is_finite()), "BiCGSTAB reported Ok({}) but x = {:?}", res.unwrap(), x.vec);
    }
}
