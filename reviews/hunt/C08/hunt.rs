// Adversarial hunt for property C08:
//   whenever CG / BiCG (itol 1, 2) / BiCGSTAB / QMR answers Ok(it):
//     - x is finite,
//     - ||b - A x|| / ||b|| <= tol up to the rounding drift of the residual recurrence
//       ( ~ eps * it * ||A|| * max ||x_k|| / ||b|| ),
//     - it <= max_iter;
//   with max_iter == 0 x is left untouched (bitwise).
// Oracle: an independent dense copy of A (built from the triplets by this file), residual in
// double-double arithmetic, norms with scaling.
use ohsl::sparse::Sparse;
use ohsl::vector::Vector;
use std::panic::{catch_unwind, AssertUnwindSafe};

// ------------------------------------------------------------------ generator
struct Rng(u64);
impl Rng {
    fn new(seed: u64) -> Self { Rng(seed.wrapping_mul(0x9E3779B97F4A7C15) ^ 0xD1B54A32D192ED03) }
    fn next(&mut self) -> u64 {
        let mut x = self.0;
        x ^= x >> 12; x ^= x << 25; x ^= x >> 27;
        self.0 = x;
        x.wrapping_mul(0x2545F4914F6CDD1D)
    }
    fn unif(&mut self) -> f64 { (self.next() >> 11) as f64 / (1u64 << 53) as f64 }
    fn sym(&mut self) -> f64 { 2.0 * self.unif() - 1.0 }
    fn below(&mut self, n: usize) -> usize { if n == 0 { 0 } else { (self.next() % n as u64) as usize } }
    fn coin(&mut self, p: f64) -> bool { self.unif() < p }
    fn pow2(&mut self, lo: i32, hi: i32) -> f64 { let e = lo + self.below((hi - lo + 1) as usize) as i32; 2f64.powi(e) }
    fn small_int(&mut self, m: i64) -> f64 { (self.below((2 * m + 1) as usize) as i64 - m) as f64 }
}

// ------------------------------------------------------------------ double-double helpers
#[inline] fn two_sum(a: f64, b: f64) -> (f64, f64) { let s = a + b; let bb = s - a; (s, (a - (s - bb)) + (b - bb)) }
#[inline] fn two_prod(a: f64, b: f64) -> (f64, f64) { let p = a * b; (p, a.mul_add(b, -p)) }
#[inline] fn dd_add(h: f64, l: f64, x: f64, y: f64) -> (f64, f64) {
    let (s, e) = two_sum(h, x);
    let e = e + (l + y);
    let (s2, e2) = two_sum(s, e);
    (s2, e2)
}
fn norm2(v: &[f64]) -> f64 {
    let mut m = 0.0f64;
    for &x in v { if !x.is_finite() { return f64::NAN; } if x.abs() > m { m = x.abs(); } }
    if m == 0.0 { return 0.0; }
    // scale by a power of two
    let e = m.log2().floor() as i32;
    let sc = 2f64.powi(-e.clamp(-1000, 1000));
    let mut s = 0.0;
    for &x in v { let y = x * sc; s += y * y; }
    s.sqrt() / sc
}

// ------------------------------------------------------------------ systems
#[derive(Clone)]
struct Sys {
    n: usize,
    trip: Vec<(usize, usize, f64)>,
    dense: Vec<f64>, // row-major; duplicates summed (this is what multiply does)
    kind: &'static str,
    xtrue: Option<Vec<f64>>,
}
impl Sys {
    fn from_trip(n: usize, trip: Vec<(usize, usize, f64)>, kind: &'static str) -> Sys {
        let mut dense = vec![0.0; n * n];
        for &(i, j, v) in &trip { dense[i * n + j] += v; }
        Sys { n, trip, dense, kind, xtrue: None }
    }
    fn from_dense(n: usize, d: &[f64], kind: &'static str) -> Sys {
        let mut trip = vec![];
        for i in 0..n { for j in 0..n { if d[i * n + j] != 0.0 { trip.push((i, j, d[i * n + j])); } } }
        Sys::from_trip(n, trip, kind)
    }
    fn sparse(&self, rng: &mut Rng) -> Sparse<f64> {
        let mut t = self.trip.clone();
        // random order of the triplets: from_triplets sorts by column only
        for i in (1..t.len()).rev() { let j = rng.below(i + 1); t.swap(i, j); }
        Sparse::<f64>::from_triplets(self.n, self.n, &mut t)
    }
    fn mul(&self, x: &[f64]) -> Vec<f64> {
        let n = self.n;
        (0..n).map(|i| { let mut s = 0.0; for j in 0..n { s += self.dense[i * n + j] * x[j]; } s }).collect()
    }
    fn residual(&self, b: &[f64], x: &[f64]) -> Vec<f64> {
        let n = self.n;
        let mut r = vec![0.0; n];
        for i in 0..n {
            let (mut h, mut l) = (b[i], 0.0);
            for j in 0..n {
                let a = self.dense[i * n + j];
                if a == 0.0 { continue; }
                let (p, e) = two_prod(-a, x[j]);
                let t = dd_add(h, l, p, e); h = t.0; l = t.1;
            }
            r[i] = h + l;
        }
        r
    }
    fn norm_f(&self) -> f64 { norm2(&self.dense) }
}

fn gen_system(rng: &mut Rng, kind: usize, n: usize) -> Sys {
    let mut d = vec![0.0; n * n];
    let name: &'static str;
    match kind {
        0 => { name = "spd-laplace";
            let s = rng.pow2(-10, 10);
            for i in 0..n { d[i * n + i] = 2.0 * s; if i + 1 < n { d[i * n + i + 1] = -s; d[(i + 1) * n + i] = -s; } } }
        1 => { name = "spd-diagdom";
            let dens = rng.unif() * 0.3;
            for i in 0..n { for j in 0..i { if rng.coin(dens) { let v = rng.sym(); d[i * n + j] = v; d[j * n + i] = v; } } }
            for i in 0..n { let mut s = 0.0; for j in 0..n { if j != i { s += d[i * n + j].abs(); } } d[i * n + i] = s + 0.1 + rng.unif(); } }
        2 => { name = "spd-btb";
            let dens = 0.05 + rng.unif() * 0.4;
            let mut bm = vec![0.0; n * n];
            for v in bm.iter_mut() { if rng.coin(dens) { *v = rng.sym(); } }
            let shift = if rng.coin(0.3) { 0.0 } else { 10f64.powf(-12.0 * rng.unif()) };
            for i in 0..n { for j in 0..n { let mut s = 0.0; for k in 0..n { s += bm[k * n + i] * bm[k * n + j]; } d[i * n + j] = s; } d[i * n + i] += shift; }
            for i in 0..n { for j in 0..i { d[i * n + j] = d[j * n + i]; } } }
        3 => { name = "spd-spectrum";
            // diagonal with prescribed spectrum, then a few Givens rotations (symmetric similarity)
            let cond = 10f64.powf(rng.unif() * 12.0);
            let clustered = rng.coin(0.4);
            for i in 0..n {
                let t = if n > 1 { i as f64 / (n - 1) as f64 } else { 0.0 };
                let mut ev = cond.powf(-t);
                if clustered { ev = if i % 3 == 0 { 1.0 } else if i % 3 == 1 { 1.0 / cond } else { ev }; }
                d[i * n + i] = ev;
            }
            let rots = if n >= 2 { rng.below(2 * n) } else { 0 };
            for _ in 0..rots {
                let p = rng.below(n); let mut q = rng.below(n); if p == q { q = (p + 1) % n; }
                let th = rng.sym() * 3.14; let (c, s) = (th.cos(), th.sin());
                for k in 0..n { let a = d[p * n + k]; let b = d[q * n + k]; d[p * n + k] = c * a - s * b; d[q * n + k] = s * a + c * b; }
                for k in 0..n { let a = d[k * n + p]; let b = d[k * n + q]; d[k * n + p] = c * a - s * b; d[k * n + q] = s * a + c * b; }
            }
            for i in 0..n { for j in 0..i { let v = 0.5 * (d[i * n + j] + d[j * n + i]); d[i * n + j] = v; d[j * n + i] = v; } } }
        4 => { name = "spd-hilbert";
            for i in 0..n { for j in 0..n { d[i * n + j] = 1.0 / ((i + j + 1) as f64); } } }
        5 => { name = "nonsym-diagdom";
            let dens = rng.unif() * 0.3;
            for i in 0..n { for j in 0..n { if i != j && rng.coin(dens) { d[i * n + j] = rng.sym(); } } }
            for i in 0..n { let mut s = 0.0; for j in 0..n { if j != i { s += d[i * n + j].abs(); } }
                d[i * n + i] = (s + 0.1 + rng.unif()) * if rng.coin(0.2) { -1.0 } else { 1.0 }; } }
        6 => { name = "nonsym-random";
            let dens = 0.05 + rng.unif() * 0.6;
            for v in d.iter_mut() { if rng.coin(dens) { *v = rng.sym(); } } }
        7 => { name = "convdiff";
            let pe = rng.sym() * 3.0; let s = rng.pow2(-6, 6);
            for i in 0..n { d[i * n + i] = 2.0 * s; if i + 1 < n { d[i * n + i + 1] = (-1.0 + pe) * s; d[(i + 1) * n + i] = (-1.0 - pe) * s; } } }
        8 => { name = "permutation";
            let mut p: Vec<usize> = (0..n).collect();
            for i in (1..n).rev() { let j = rng.below(i + 1); p.swap(i, j); }
            let scaled = rng.coin(0.5);
            for i in 0..n { d[i * n + p[i]] = if scaled { rng.pow2(-8, 8) * if rng.coin(0.5) { -1.0 } else { 1.0 } } else { 1.0 }; } }
        9 => { name = "triangular";
            let jordan = rng.coin(0.4); let lam = if rng.coin(0.3) { 1.0 } else { rng.sym() * 2.0 };
            for i in 0..n { for j in i..n {
                if jordan { if j == i { d[i * n + j] = lam; } else if j == i + 1 { d[i * n + j] = 1.0; } }
                else if j == i { d[i * n + j] = 0.5 + rng.unif(); } else if rng.coin(0.3) { d[i * n + j] = rng.sym() * 2.0; } } }
            if rng.coin(0.5) { // lower instead
                let mut t = vec![0.0; n * n]; for i in 0..n { for j in 0..n { t[j * n + i] = d[i * n + j]; } } d = t; } }
        10 => { name = "skew+aI";
            let dens = 0.1 + rng.unif() * 0.5;
            for i in 0..n { for j in 0..i { if rng.coin(dens) { let v = rng.sym(); d[i * n + j] = v; d[j * n + i] = -v; } } }
            let a = match rng.below(4) { 0 => 0.0, 1 => 1.0, 2 => rng.pow2(-20, 0), _ => rng.sym() };
            for i in 0..n { d[i * n + i] = a; } }
        11 => { name = "sym-indefinite";
            let mode = rng.below(3);
            if mode == 0 { // +-1 diagonal, rotated
                for i in 0..n { d[i * n + i] = if rng.coin(0.5) { 1.0 + rng.unif() } else { -1.0 - rng.unif() }; }
                let rots = if n >= 2 { rng.below(n + 1) } else { 0 };
                for _ in 0..rots {
                    let p = rng.below(n); let mut q = rng.below(n); if p == q { q = (p + 1) % n; }
                    let th = rng.sym() * 3.14; let (c, s) = (th.cos(), th.sin());
                    for k in 0..n { let a = d[p * n + k]; let b = d[q * n + k]; d[p * n + k] = c * a - s * b; d[q * n + k] = s * a + c * b; }
                    for k in 0..n { let a = d[k * n + p]; let b = d[k * n + q]; d[k * n + p] = c * a - s * b; d[k * n + q] = s * a + c * b; }
                }
                for i in 0..n { for j in 0..i { let v = 0.5 * (d[i * n + j] + d[j * n + i]); d[i * n + j] = v; d[j * n + i] = v; } }
            } else if mode == 1 { // exchange blocks [[0,1],[1,0]]
                let mut i = 0; while i + 1 < n { d[i * n + i + 1] = 1.0; d[(i + 1) * n + i] = 1.0; i += 2; } if n % 2 == 1 { d[n * n - 1] = 1.0; }
            } else { // random symmetric
                let dens = 0.1 + rng.unif() * 0.5;
                for i in 0..n { for j in 0..=i { if rng.coin(dens) { let v = rng.sym(); d[i * n + j] = v; d[j * n + i] = v; } } }
            } }
        12 => { name = "singular";
            let kk = [1usize, 5, 6, 0][rng.below(4)]; let base = gen_system(rng, kk, n);
            d = base.dense.clone();
            if n > 0 { match rng.below(5) {
                0 => { let r = rng.below(n); for j in 0..n { d[r * n + j] = 0.0; } }
                1 => { let c = rng.below(n); for i in 0..n { d[i * n + c] = 0.0; } }
                2 => { let r = rng.below(n); let s = (r + 1) % n; for j in 0..n { d[r * n + j] = d[s * n + j]; } }
                3 => { for v in d.iter_mut() { *v = 0.0; } }
                _ => { // rank one u v^T
                    let u: Vec<f64> = (0..n).map(|_| rng.sym()).collect(); let v: Vec<f64> = (0..n).map(|_| rng.sym()).collect();
                    for i in 0..n { for j in 0..n { d[i * n + j] = u[i] * v[j]; } } }
            } } }
        13 => { name = "scalar-identity";
            let s = match rng.below(4) { 0 => 1.0, 1 => -1.0, 2 => rng.pow2(-30, 30), _ => rng.sym() * 10.0 };
            for i in 0..n { d[i * n + i] = s; } }
        14 => { name = "graded";
            let kk = [1usize, 5, 0, 7, 3][rng.below(5)]; let base = gen_system(rng, kk, n);
            d = base.dense.clone();
            let sym = rng.coin(0.5); let span = 1 + rng.below(20) as i32;
            let d1: Vec<f64> = (0..n).map(|_| rng.pow2(-span, span)).collect();
            let d2: Vec<f64> = if sym { d1.clone() } else { (0..n).map(|_| rng.pow2(-span, span)).collect() };
            for i in 0..n { for j in 0..n { d[i * n + j] *= d1[i] * d2[j]; } } }
        15 => { name = "small-integer";
            let dens = 0.2 + rng.unif() * 0.8; let m = 1 + rng.below(3) as i64;
            let sym = rng.coin(0.4);
            for i in 0..n { for j in 0..n { if rng.coin(dens) { d[i * n + j] = rng.small_int(m); } } }
            if sym { for i in 0..n { for j in 0..i { d[i * n + j] = d[j * n + i]; } } } }
        _ => { name = "nearly-singular";
            // well conditioned + one tiny singular direction
            let kk = [1usize, 5][rng.below(2)]; let base = gen_system(rng, kk, n);
            d = base.dense.clone();
            if n > 0 { let r = rng.below(n); let e = 10f64.powf(-4.0 - 12.0 * rng.unif()); for j in 0..n { d[r * n + j] *= e; } } }
    }
    let mut s = Sys::from_dense(n, &d, name);
    // structural variations of the storage: explicit zeros, duplicates (summed by multiply), split entries
    if n > 0 && rng.coin(0.15) {
        // every position is touched at most once, and cancelling pairs only where the entry is zero, so that
        // the value of the entry (the sum of its duplicates) does not depend on the order of summation
        let extra = 1 + rng.below(n);
        let mut touched = std::collections::HashSet::new();
        for _ in 0..extra {
            let (i, j) = (rng.below(n), rng.below(n));
            if !touched.insert((i, j)) { continue; }
            let base_zero = s.dense[i * n + j] == 0.0;
            match rng.below(3) {
                1 if base_zero => { let v = rng.sym(); s.trip.push((i, j, v)); s.trip.push((i, j, -v)); }
                2 => { let v = rng.sym() * 0.01; s.trip.push((i, j, v)); }
                _ => s.trip.push((i, j, 0.0)),
            }
        }
        s = Sys::from_trip(n, s.trip.clone(), name);
    }
    s
}

fn gen_rhs(rng: &mut Rng, s: &mut Sys) -> Vec<f64> {
    let n = s.n;
    let mode = rng.below(10);
    let b: Vec<f64> = match mode {
        0 => vec![0.0; n],
        1 => (0..n).map(|_| rng.sym()).collect(),
        2 | 3 | 4 => { let xt: Vec<f64> = (0..n).map(|_| if rng.coin(0.1) { 0.0 } else { rng.sym() }).collect(); let b = s.mul(&xt); s.xtrue = Some(xt); b }
        5 => { let mut b = vec![0.0; n]; if n > 0 { let k = [0, n - 1, rng.below(n)][rng.below(3)]; b[k] = 1.0; } b }
        6 => vec![1.0; n],
        7 => (0..n).map(|_| rng.small_int(3)).collect(),
        8 => { let sc = rng.pow2(-60, 60); (0..n).map(|_| rng.sym() * sc).collect() }
        _ => { let xt: Vec<f64> = (0..n).map(|_| rng.small_int(4)).collect(); let b = s.mul(&xt); s.xtrue = Some(xt); b }
    };
    b
}

fn gen_guess(rng: &mut Rng, s: &Sys, b: &[f64], tol: f64) -> Vec<f64> {
    let n = s.n;
    let nb = norm2(b); let na = s.norm_f();
    match rng.below(12) {
        0 | 1 | 2 => vec![0.0; n],
        3 => (0..n).map(|_| rng.sym()).collect(),
        4 => { if let Some(xt) = &s.xtrue { xt.clone() } else { vec![0.0; n] } }
        5 | 6 | 7 => { // exact solution perturbed so that the initial residual straddles the tolerance
            if let Some(xt) = &s.xtrue {
                let f = [0.01, 0.3, 0.9, 1.0, 1.1, 3.0, 100.0, 1e4][rng.below(8)];
                let del = if na > 0.0 { f * tol * (if nb > 0.0 { nb } else { 1.0 }) / na } else { f * tol };
                let one = rng.coin(0.3); let k = rng.below(n.max(1));
                xt.iter().enumerate().map(|(i, &v)| v + if one { if i == k { del } else { 0.0 } } else { del * rng.sym() }).collect()
            } else { (0..n).map(|_| rng.sym() * tol).collect() } }
        8 => { let sc = 10f64.powf(rng.unif() * 12.0); (0..n).map(|_| rng.sym() * sc).collect() }
        9 => b.to_vec(),
        10 => vec![1.0; n],
        _ => (0..n).map(|_| if rng.coin(0.5) { -0.0 } else { 0.0 }).collect(),
    }
}

fn gen_tol(rng: &mut Rng) -> f64 {
    match rng.below(6) {
        0 => 1e-12,
        1 => 1e-2,
        2 => [1e-10, 1e-8, 1e-6, 1e-4, 1e-3][rng.below(5)],
        _ => 10f64.powf(-2.0 - 10.0 * rng.unif()),
    }
}
fn gen_budget(rng: &mut Rng, n: usize) -> usize {
    match rng.below(12) {
        0 => 0, 1 => 1, 2 => 2, 3 => 3, 4 => n, 5 => n + 1, 6 => 2 * n, 7 => 5 * n + 5, 8 => 300, 9 => 1000,
        _ => rng.below(100),
    }
}

// ------------------------------------------------------------------ running the solvers
const SOLVERS: [&str; 5] = ["cg", "bicg1", "bicg2", "bicgstab", "qmr"];
fn run(sp: &Sparse<f64>, which: usize, b: &[f64], x: &mut Vector<f64>, budget: usize, tol: f64) -> Result<usize, f64> {
    let bv = Vector::create(b.to_vec());
    match which {
        0 => sp.solve_cg(&bv, x, budget, tol),
        1 => sp.solve_bicg(&bv, x, budget, tol, 1),
        2 => sp.solve_bicg(&bv, x, budget, tol, 2),
        3 => sp.solve_bicgstab(&bv, x, budget, tol),
        _ => sp.solve_qmr(&bv, x, budget, tol),
    }
}

#[derive(Default)]
struct Stats { runs: u64, ok: u64, ok0: u64, err: u64, panics: u64, over_tol: u64, max_units: f64, replay: u64, per_solver_ok: [u64; 5], per_solver_units: [f64; 5], worst: String, worst_fail_units: f64, worst_fail: String }

const EPS: f64 = 2.220446049250313e-16;
const K_ALLOW: f64 = 1000.0; // generous constant in front of the drift unit
const REPLAY_AT: f64 = 20.0; // above this many units (with only x0 and the final x known) every iterate is observed

/// returns Some(message) on a clear failure
fn check_case(s: &Sys, sp: &Sparse<f64>, which: usize, b: &[f64], x0: &[f64], budget: usize, tol: f64, st: &mut Stats) -> Option<String> {
    st.runs += 1;
    let mut x = Vector::create(x0.to_vec());
    let res = catch_unwind(AssertUnwindSafe(|| run(sp, which, b, &mut x, budget, tol)));
    let ctx = |msg: String| -> String {
        format!("{} solver={} kind={} n={} budget={} tol={:e}\n  trip={:?}\n  b={:?}\n  x0={:?}", msg, SOLVERS[which], s.kind, s.n, budget, tol, s.trip, b, x0)
    };
    let res = match res { Ok(r) => r, Err(_) => { st.panics += 1; return Some(ctx("PANIC".into())); } };
    if budget == 0 {
        for i in 0..s.n { if x.vec[i].to_bits() != x0[i].to_bits() { return Some(ctx(format!("budget 0 but x[{}] changed {:e} -> {:e}", i, x0[i], x.vec[i]))); } }
    }
    if x.vec.len() != s.n { return Some(ctx(format!("x changed length to {}", x.vec.len()))); }
    match res {
        Err(_) => { st.err += 1; None }
        Ok(it) => {
            st.ok += 1; st.per_solver_ok[which] += 1; if it == 0 { st.ok0 += 1; }
            if it > budget { return Some(ctx(format!("Ok({}) exceeds budget", it))); }
            if it == 0 { for i in 0..s.n { if x.vec[i].to_bits() != x0[i].to_bits() { return Some(ctx("Ok(0) but x changed".into())); } } }
            if x.vec.iter().any(|v| !v.is_finite()) { return Some(ctx(format!("Ok({}) with non-finite x = {:?}", it, x.vec))); }
            let r = s.residual(b, &x.vec);
            let nr = norm2(&r); let nb = norm2(b);
            let nbe = if nb == 0.0 { 1.0 } else { nb };
            let rel = nr / nbe;
            if !(rel <= tol * (1.0 + 1e-9)) {
                st.over_tol += 1;
                let na = s.norm_f();
                let mut mx = norm2(x0).max(norm2(&x.vec));
                let unit = |mx: f64| EPS * (it as f64 + 1.0) * (na * mx + nb) / nbe;
                let mut units = (rel - tol) / unit(mx);
                if !(units <= REPLAY_AT) {
                    // replay with smaller budgets to observe every iterate (sampled if the run was very long)
                    st.replay += 1;
                    let step = 1 + it / 300;
                    let mut k = 1;
                    while k < it {
                        let mut xk = Vector::create(x0.to_vec());
                        let _ = run(sp, which, b, &mut xk, k, tol);
                        let nk = norm2(&xk.vec);
                        if nk.is_finite() && nk > mx { mx = nk; }
                        k += step;
                    }
                    units = (rel - tol) / unit(mx);
                }
                if units > st.per_solver_units[which] || units.is_nan() { st.per_solver_units[which] = units; }
                if units > st.max_units || units.is_nan() {
                    st.max_units = units;
                    st.worst = format!("solver={} kind={} n={} it={} tol={:e} rel={:e} units={:.3} maxx={:e} normA={:e} nb={:e}", SOLVERS[which], s.kind, s.n, it, tol, rel, units, mx, na, nb);
                }
                if !(units <= K_ALLOW) {
                    let m = ctx(format!("Ok({}) true rel residual {:e} tol {:e} units {:.3e} max|x_k|={:e}", it, rel, tol, units, mx));
                    if units > st.worst_fail_units || units.is_nan() { st.worst_fail_units = units; st.worst_fail = m; }
                    return Some(ctx(format!("Ok({}) but true rel residual {:e} > tol {:e}; excess = {:.1} drift units (eps*(it+1)*(|A|_F*max|x_k|+|b|)/|b| = {:e}), max|x_k|={:e}", it, rel, tol, units, unit(mx), mx)));
                }
            }
            None
        }
    }
}

fn report(name: &str, st: &Stats, fails: &[String]) {
    println!("[{}] runs={} ok={} (ok0={}) err={} panics={} over_tol(within drift)={} replays={} max_units={:.3} ok per solver={:?} max drift units per solver={:?}", name, st.runs, st.ok, st.ok0, st.err, st.panics, st.over_tol, st.replay, st.max_units, st.per_solver_ok, st.per_solver_units);
    if !st.worst.is_empty() { println!("[{}] worst: {}", name, st.worst); }
    for f in fails.iter().take(8) { println!("FAIL: {}", f); }
    if !st.worst_fail.is_empty() { println!("WORST FAIL: {}", st.worst_fail); }
    assert!(fails.is_empty(), "{} failures in {}", fails.len(), name);
}

fn pick_n(rng: &mut Rng) -> usize {
    match rng.below(10) { 0 => rng.below(3), 1 => 1 + rng.below(4), 2 => 60, 3 => 59, 4 | 5 => 2 + rng.below(10), _ => 1 + rng.below(60) }
}

fn random_stream(seed: u64, cases: usize, kinds: &[usize], name: &str) {
    let mut rng = Rng::new(seed);
    let mut st = Stats::default(); let mut fails = vec![];
    for _ in 0..cases {
        let n = pick_n(&mut rng);
        let kind = kinds[rng.below(kinds.len())];
        let n = if kind == 4 { n.min(14) } else { n };
        let mut s = gen_system(&mut rng, kind, n);
        let b = gen_rhs(&mut rng, &mut s);
        let sp = s.sparse(&mut rng);
        // several (guess, tol, budget) per system
        for _ in 0..3 {
            let tol = gen_tol(&mut rng);
            let x0 = gen_guess(&mut rng, &s, &b, tol);
            let budget = gen_budget(&mut rng, n);
            for w in 0..5 {
                if let Some(f) = check_case(&s, &sp, w, &b, &x0, budget, tol, &mut st) { if fails.len() < 50 { fails.push(f); } }
            }
        }
    }
    report(name, &st, &fails);
}

#[test] fn stream_spd() { random_stream(1, 6000, &[0, 1, 2, 3, 4], "spd"); }
#[test] fn stream_nonsym() { random_stream(2, 6000, &[5, 6, 7, 8, 9, 10], "nonsym"); }
#[test] fn stream_indef_singular() { random_stream(3, 6000, &[11, 12, 13, 16], "indef-singular"); }
#[test] fn stream_graded_integer() { random_stream(4, 6000, &[14, 15], "graded-integer"); }
#[test] fn stream_all() { random_stream(5, 8000, &[0, 1, 2, 3, 4, 5, 6, 7, 8, 9, 10, 11, 12, 13, 14, 15, 16], "all"); }

// small orders, many cases: exact breakdowns are frequent with small integers
#[test] fn stream_tiny_integer() {
    let mut rng = Rng::new(77);
    let mut st = Stats::default(); let mut fails = vec![];
    for _ in 0..40000 {
        let n = 1 + rng.below(4);
        let mut s = gen_system(&mut rng, 15, n);
        let b = if rng.coin(0.5) { (0..n).map(|_| rng.small_int(2)).collect::<Vec<f64>>() } else { gen_rhs(&mut rng, &mut s) };
        let sp = s.sparse(&mut rng);
        let tol = gen_tol(&mut rng);
        let x0: Vec<f64> = if rng.coin(0.5) { vec![0.0; n] } else { (0..n).map(|_| rng.small_int(2)).collect() };
        let budget = rng.below(8);
        for w in 0..5 { if let Some(f) = check_case(&s, &sp, w, &b, &x0, budget, tol, &mut st) { if fails.len() < 50 { fails.push(f); } } }
    }
    report("tiny-integer", &st, &fails);
}

// exhaustive: all 2x2 matrices with entries in -2..=2, b in {-1,0,1}^2, x0 in {0, (1,-1)}, budgets 0..=3
#[test] fn exhaustive_2x2() {
    let mut st = Stats::default(); let mut fails = vec![]; let mut rng = Rng::new(9);
    let vals = [-2.0, -1.0, 0.0, 1.0, 2.0];
    for a in vals { for bb in vals { for c in vals { for dd in vals {
        let s = Sys::from_dense(2, &[a, bb, c, dd], "exh2");
        let sp = s.sparse(&mut rng);
        for b0 in [-1.0, 0.0, 1.0] { for b1 in [-1.0, 0.0, 1.0] {
            for x0 in [[0.0, 0.0], [1.0, -1.0]] { for budget in 0..=3usize { for tol in [1e-12, 1e-2] {
                for w in 0..5 { if let Some(f) = check_case(&s, &sp, w, &[b0, b1], &x0, budget, tol, &mut st) { if fails.len() < 50 { fails.push(f); } } }
            } } }
        } }
    } } } }
    report("exhaustive-2x2", &st, &fails);
}

// exhaustive: all 3x3 matrices with entries in {-1,0,1}, a few b, x0 = 0, budgets {1,3,4}
#[test] fn exhaustive_3x3() {
    let mut st = Stats::default(); let mut fails = vec![]; let mut rng = Rng::new(10);
    for code in 0..19683usize {
        let mut d = [0.0; 9]; let mut c = code;
        for k in 0..9 { d[k] = (c % 3) as f64 - 1.0; c /= 3; }
        let s = Sys::from_dense(3, &d, "exh3");
        let sp = s.sparse(&mut rng);
        for b in [[1.0, 0.0, 0.0], [1.0, 1.0, 1.0], [1.0, -2.0, 3.0]] {
            for budget in [1usize, 3, 4] {
                for w in 0..5 { if let Some(f) = check_case(&s, &sp, w, &b, &[0.0; 3], budget, 1e-10, &mut st) { if fails.len() < 50 { fails.push(f); } } }
            }
        }
    }
    report("exhaustive-3x3", &st, &fails);
}

// histories: restart the solver on its own output again and again (every initial guess, including
// the ones a previous call produced), with varying budgets / tolerances
#[test] fn restart_histories() {
    let mut rng = Rng::new(321);
    let mut st = Stats::default(); let mut fails = vec![];
    for _ in 0..3000 {
        let n = pick_n(&mut rng);
        let kind = rng.below(17); let n = if kind == 4 { n.min(14) } else { n };
        let mut s = gen_system(&mut rng, kind, n);
        let b = gen_rhs(&mut rng, &mut s);
        let sp = s.sparse(&mut rng);
        for w in 0..5 {
            let mut x: Vec<f64> = vec![0.0; n];
            for _ in 0..8 {
                let tol = gen_tol(&mut rng);
                let budget = [0usize, 1, 2, 3, 5, 8, n][rng.below(7)];
                if let Some(f) = check_case(&s, &sp, w, &b, &x, budget, tol, &mut st) { if fails.len() < 50 { fails.push(f); } }
                // advance the state
                let mut xv = Vector::create(x.clone());
                let _ = catch_unwind(AssertUnwindSafe(|| run(&sp, w, &b, &mut xv, budget, tol)));
                if xv.vec.iter().all(|v| v.is_finite()) { x = xv.vec.clone(); } else { break; }
            }
        }
    }
    report("restart-histories", &st, &fails);
}

// boundaries: order 0 and 1, huge budgets on trivially convergent systems, tolerance met with equality
#[test] fn boundaries() {
    let mut st = Stats::default(); let mut fails = vec![]; let mut rng = Rng::new(5);
    // order 0
    let s0 = Sys::from_dense(0, &[], "order0");
    let sp0 = s0.sparse(&mut rng);
    for w in 0..5 { for budget in [0usize, 1, 7] { if let Some(f) = check_case(&s0, &sp0, w, &[], &[], budget, 1e-8, &mut st) { fails.push(f); } } }
    // order 1
    for a in [0.0, 1.0, -1.0, 3.0, 1e-30, 1e30, -0.5] { for b in [0.0, 1.0, -2.0, 1e-20, 1e20] { for x0 in [0.0, 1.0, -7.5, 1e10] {
        let s = Sys::from_dense(1, &[a], "order1"); let sp = s.sparse(&mut rng);
        for w in 0..5 { for budget in [0usize, 1, 2, 10] { for tol in [1e-12, 1e-7, 1e-2] {
            if let Some(f) = check_case(&s, &sp, w, &[b], &[x0], budget, tol, &mut st) { fails.push(f); } } } }
    } } }
    // huge budgets, identity-like systems (converge in one step)
    for n in [1usize, 2, 17, 60] {
        let mut d = vec![0.0; n * n]; for i in 0..n { d[i * n + i] = 4.0; }
        let s = Sys::from_dense(n, &d, "4I"); let sp = s.sparse(&mut rng);
        let b: Vec<f64> = (0..n).map(|i| (i as f64) - 3.0).collect();
        for w in 0..5 { for budget in [usize::MAX, usize::MAX - 1, 1usize << 40] {
            if let Some(f) = check_case(&s, &sp, w, &b, &vec![0.0; n], budget, 1e-12, &mut st) { fails.push(f); } } }
    }
    // tolerance met with equality by the initial guess: A = I, b = e1 * 1, x0 = (1 - tol) e1 ... residual exactly representable cases
    for &tol in &[0.0078125f64, 0.00390625, 9.5367431640625e-07, 1.8189894035458565e-12] { // powers of two within [1e-12, 1e-2]
        for n in [1usize, 2, 5] {
            let mut d = vec![0.0; n * n]; for i in 0..n { d[i * n + i] = 1.0; }
            let s = Sys::from_dense(n, &d, "I-equality"); let sp = s.sparse(&mut rng);
            let mut b = vec![0.0; n]; b[0] = 1.0;
            for f in [1.0, 2.0, 0.5, 1.0 + 2.0 * EPS, 1.0 - EPS] {
                let mut x0 = vec![0.0; n]; x0[0] = 1.0 - tol * f; // residual = tol * f exactly (for f = 1, 2, .5)
                for w in 0..5 { for budget in [0usize, 1, 2] {
                    if let Some(fl) = check_case(&s, &sp, w, &b, &x0, budget, tol, &mut st) { fails.push(fl); } } }
            }
        }
    }
    report("boundaries", &st, &fails);
}

// drift stress: ill-conditioned / large-guess / long-run systems where the recurrence and the true residual
// can part company; the check includes the drift allowance, the statistics show how much of it is used
#[test] fn drift_stress() {
    let mut rng = Rng::new(4242);
    let mut st = Stats::default(); let mut fails = vec![];
    for _ in 0..6000 {
        let n = 2 + rng.below(59);
        let kind = [2usize, 3, 4, 14, 16, 6, 10, 11][rng.below(8)]; let n = if kind == 4 { n.min(14) } else { n };
        let mut s = gen_system(&mut rng, kind, n);
        let b = gen_rhs(&mut rng, &mut s);
        let sp = s.sparse(&mut rng);
        for _ in 0..2 {
            let tol = [1e-12, 1e-11, 1e-10, 1e-9][rng.below(4)];
            let x0: Vec<f64> = match rng.below(3) { 0 => vec![0.0; n], 1 => { let sc = 10f64.powf(rng.unif() * 8.0); (0..n).map(|_| rng.sym() * sc).collect() }, _ => gen_guess(&mut rng, &s, &b, tol) };
            let budget = [1000usize, 3000, 10 * n][rng.below(3)];
            for w in 0..5 { if let Some(f) = check_case(&s, &sp, w, &b, &x0, budget, tol, &mut st) { if fails.len() < 50 { fails.push(f); } } }
        }
    }
    report("drift-stress", &st, &fails);
}

// strict check on well-conditioned systems with modest guesses: the drift must be negligible there
#[test] fn well_conditioned_strict() {
    let mut rng = Rng::new(99);
    let mut ok = 0u64; let mut worst = 0.0f64; let mut runs = 0u64;
    for _ in 0..8000 {
        let n = 1 + rng.below(60);
        let kind = [0usize, 1, 5][rng.below(3)]; // (convection-diffusion with |Pe| > 1 is far from normal - BiCG iterates reach 1e14 there - and a tiny multiple of I plus stray 0.01 entries is not well conditioned either)
        let mut s = gen_system(&mut rng, kind, n);
        let b = gen_rhs(&mut rng, &mut s);
        let sp = s.sparse(&mut rng);
        let tol = gen_tol(&mut rng);
        let x0: Vec<f64> = if rng.coin(0.5) { vec![0.0; n] } else { (0..n).map(|_| rng.sym()).collect() };
        let nb = norm2(&b); let nbe = if nb == 0.0 { 1.0 } else { nb };
        let na = s.norm_f();
        for w in 0..5 {
            runs += 1;
            let mut x = Vector::create(x0.clone());
            let budget = 10 * n + 20;
            if let Ok(it) = run(&sp, w, &b, &mut x, budget, tol) {
                ok += 1;
                assert!(it <= budget);
                assert!(x.vec.iter().all(|v| v.is_finite()));
                let rel = norm2(&s.residual(&b, &x.vec)) / nbe;
                // scale-aware "negligible": 1e-13 * (|A| |x| + |b|) / |b|
                let slack = 1e-13 * (na * norm2(&x.vec).max(norm2(&x0)) + nb) / nbe;
                let ex = (rel - tol) / slack; if ex > worst { worst = ex; }
                assert!(rel <= tol + slack, "well-conditioned strict: solver={} kind={} n={} it={} rel={:e} tol={:e} slack={:e}\ntrip={:?}\nb={:?}\nx0={:?}", SOLVERS[w], s.kind, n, it, rel, tol, slack, s.trip, b, x0);
            }
        }
    }
    println!("[well-conditioned-strict] runs={} ok={} worst (rel-tol)/slack={:.4}", runs, ok, worst);
}

// near-breakdown guesses: small integer systems (where exact Lanczos / CG breakdowns are common with x0 = 0) started
// from guesses that differ from 0 (or from an integer vector) by a few tiny powers of two: the breakdown quantity is
// then tiny but not zero, the solver goes on, and the recurrence residual may lose track of b - A x
#[test] fn near_breakdown_guesses() {
    let mut rng = Rng::new(2024);
    let mut st = Stats::default(); let mut fails = vec![];
    for _ in 0..30000 {
        let n = 2 + rng.below(5);
        let mut s = gen_system(&mut rng, 15, n);
        s = Sys::from_dense(n, &s.dense.clone(), "near-breakdown"); // plain storage
        let b: Vec<f64> = if rng.coin(0.5) { let k = rng.below(n); (0..n).map(|i| if i == k { 1.0 } else { 0.0 }).collect() } else { (0..n).map(|_| rng.small_int(2)).collect() };
        let sp = s.sparse(&mut rng);
        for _ in 0..2 {
            let tol = [1e-12, 1e-10, 1e-8, 1e-6, 1e-4][rng.below(5)];
            let mut x0: Vec<f64> = if rng.coin(0.7) { vec![0.0; n] } else { (0..n).map(|_| rng.small_int(1)).collect() };
            let nz = 1 + rng.below(2);
            for _ in 0..nz { let k = rng.below(n); x0[k] += rng.pow2(-50, -20) * if rng.coin(0.5) { -1.0 } else { 1.0 }; }
            let budget = [n, 2 * n, 50][rng.below(3)];
            for w in 0..5 { if let Some(f) = check_case(&s, &sp, w, &b, &x0, budget, tol, &mut st) { if fails.len() < 50 { fails.push(f); } } }
        }
    }
    report("near-breakdown-guesses", &st, &fails);
}

// singular systems with an empty column (a free unknown that no residual sees) and / or an empty row, long budgets
#[test] fn singular_free_column() {
    let mut rng = Rng::new(777);
    let mut st = Stats::default(); let mut fails = vec![];
    for case in 0..40000 {
        let n = 2 + rng.below(6);
        let integer = case % 2 == 0;
        let dens = 0.3 + 0.7 * rng.unif();
        let free = rng.below(n); let zero_row = if rng.coin(0.3) { rng.below(n) } else { n };
        let mut d = vec![0.0; n * n];
        for i in 0..n { for j in 0..n { if j != free && i != zero_row && rng.coin(dens) { d[i * n + j] = if integer { rng.small_int(3) } else { rng.sym() }; } } }
        let mut s = Sys::from_dense(n, &d, "free-column");
        let b: Vec<f64> = match rng.below(3) {
            0 => { let xt: Vec<f64> = (0..n).map(|_| rng.small_int(2)).collect(); let b = s.mul(&xt); s.xtrue = Some(xt); b } // consistent
            1 => (0..n).map(|_| rng.small_int(2)).collect(),
            _ => (0..n).map(|_| rng.sym()).collect(),
        };
        let sp = s.sparse(&mut rng);
        let tol = gen_tol(&mut rng);
        let x0: Vec<f64> = if rng.coin(0.6) { vec![0.0; n] } else { (0..n).map(|_| rng.sym()).collect() };
        let budget = [100usize, 400, 1000][rng.below(3)];
        for w in 0..5 { if let Some(f) = check_case(&s, &sp, w, &b, &x0, budget, tol, &mut st) { if fails.len() < 50 { fails.push(f); } } }
    }
    report("singular-free-column", &st, &fails);
}

// long runs on small singular / nonsingular integer systems from a zero guess (budget 1000): an unknown whose column is
// empty is invisible to every residual, so its search-direction component can grow without bound
#[test] fn integer_long_budget() {
    let mut rng = Rng::new(31337);
    let mut st = Stats::default(); let mut fails = vec![];
    for case in 0..400000 {
        let n = 2 + rng.below(5);
        let m = 1 + rng.below(3) as i64;
        let dens = 0.3 + 0.7 * rng.unif();
        let free = if case % 3 == 0 { rng.below(n) } else { n };
        let mut d = vec![0.0; n * n];
        for i in 0..n { for j in 0..n { if j != free && rng.coin(dens) { d[i * n + j] = rng.small_int(m); } } }
        let s = Sys::from_dense(n, &d, "integer-long");
        if s.trip.is_empty() { continue; }
        let b: Vec<f64> = if case % 2 == 0 { let k = rng.below(n); (0..n).map(|i| if i == k { 1.0 } else { 0.0 }).collect() } else { (0..n).map(|_| rng.small_int(2)).collect() };
        let sp = s.sparse(&mut rng);
        let tol = [1e-4, 1e-8, 1e-12][rng.below(3)];
        // BiCGSTAB always, the others on a third of the systems
        let ws: &[usize] = if case % 3 == 1 { &[0, 1, 2, 3, 4] } else { &[3] };
        for &w in ws { if let Some(f) = check_case(&s, &sp, w, &b, &vec![0.0; n], 1000, tol, &mut st) { if fails.len() < 50 { fails.push(f); } } }
    }
    report("integer-long-budget", &st, &fails);
}

// the findings of this hunt, as fixed cases
#[test] fn known_findings() {
    let mut rng = Rng::new(1);
    let mut st = Stats::default(); let mut fails = vec![];
    let e = 2f64.powi(-48);
    // QMR, 3x3 0/1 matrix (cond ~ 5), tiny guess: Ok(3) with true relative residual 2^-6
    let s = Sys::from_trip(3, vec![(0, 1, 1.0), (0, 2, 1.0), (1, 0, 1.0), (1, 1, 1.0), (2, 0, 1.0)], "qmr-3x3");
    let sp = Sparse::<f64>::from_triplets(3, 3, &mut s.trip.clone());
    for w in 0..5 {
        if let Some(f) = check_case(&s, &sp, w, &[0.0, 0.0, 1.0], &[-e, -e, 0.0], 50, 1e-12, &mut st) { fails.push(f); }
        if let Some(f) = check_case(&s, &sp, w, &[2f64.powi(-49), 2f64.powi(-34), 1.0], &[0.0; 3], 50, 1e-12, &mut st) { fails.push(f); }
    }
    // BiCGSTAB, singular integer systems with an empty column: Ok with NaN in x
    for (trip, b, tol) in [
        (vec![(0usize, 0usize, -3.0), (0, 2, 2.0), (1, 0, -3.0), (1, 2, 3.0), (2, 2, -3.0)], [1.0, -1.0, 2.0], 1e-10),
        (vec![(0, 2, 3.0), (1, 0, 1.0), (1, 2, -2.0), (2, 2, -1.0)], [-2.0, -1.0, -1.0], 1e-10),
        (vec![(0, 0, 1.0), (0, 1, 1.0), (1, 0, 1.0), (1, 1, 1.0), (2, 1, 1.0)], [-1.0, 2.0, -2.0], 1e-12),
    ] {
        let s = Sys::from_trip(3, trip, "bicgstab-free-column");
        let sp = Sparse::<f64>::from_triplets(3, 3, &mut s.trip.clone());
        for w in 0..5 { if let Some(f) = check_case(&s, &sp, w, &b, &[0.0; 3], 1000, tol, &mut st) { fails.push(f); } }
    }
    let _ = rng.next();
    report("known-findings", &st, &fails);
}

// SIDE REMARK (outside the intended domain: underflow / overflow of ||b||^2): printed, not asserted
#[test] fn side_remark_extreme_magnitudes() {
    let mut rng = Rng::new(1);
    for &(sc, tol) in &[(1e-170f64, 1e-8f64), (1e-163, 1e-8), (1e-160, 1e-8), (1e160, 1e-12), (1e155, 1e-12)] {
        let n = 3;
        let d = [4.0, 1.0, 0.0, 1.0, 3.0, 1.0, 0.0, 1.0, 5.0];
        let s = Sys::from_dense(n, &d, "side"); let sp = s.sparse(&mut rng);
        let b = [1.0 * sc, 2.0 * sc, -1.0 * sc];
        for w in 0..5 {
            let mut x = Vector::create(vec![0.0; n]);
            let r = run(&sp, w, &b, &mut x, 50, tol);
            let rel = norm2(&s.residual(&b, &x.vec)) / norm2(&b);
            println!("[side] scale={:e} tol={:e} solver={} -> {:?} x={:?} true rel residual={:e}", sc, tol, SOLVERS[w], r, x.vec, rel);
        }
    }
}
