// Adversarial property hunt for C09: iterative sparse solvers (CG, BiCG, BiCGSTAB, QMR).
// Public API only. Independent oracle: own dense Gauss-Jordan inverse + refinement, residuals,
// cross-check with Matrix::solve_basic.
#![allow(dead_code)]
use ohsl::{Matrix, Sparse, Vector};
use std::collections::BTreeMap;
use std::panic::{catch_unwind, AssertUnwindSafe};

// ---------------------------------------------------------------- rng
struct Rng(u64);
impl Rng {
    fn new(seed: u64) -> Self { Rng(seed.wrapping_mul(0x9E3779B97F4A7C15) | 1) }
    fn next(&mut self) -> u64 {
        let mut x = self.0;
        x ^= x >> 12; x ^= x << 25; x ^= x >> 27;
        self.0 = x;
        x.wrapping_mul(0x2545F4914F6CDD1D)
    }
    fn unif(&mut self) -> f64 { (self.next() >> 11) as f64 / (1u64 << 53) as f64 }
    fn sym(&mut self) -> f64 { 2.0 * self.unif() - 1.0 }
    fn below(&mut self, n: usize) -> usize { (self.next() % (n as u64)) as usize }
    fn range(&mut self, lo: usize, hi: usize) -> usize { lo + self.below(hi - lo + 1) }
    fn coin(&mut self, p: f64) -> bool { self.unif() < p }
    fn pick<T: Copy>(&mut self, v: &[T]) -> T { v[self.below(v.len())] }
    fn shuffle<T>(&mut self, v: &mut Vec<T>) {
        for i in (1..v.len()).rev() { let j = self.below(i + 1); v.swap(i, j); }
    }
}

// ---------------------------------------------------------------- dense helpers
type Dense = Vec<Vec<f64>>;
fn zeros(n: usize) -> Dense { vec![vec![0.0; n]; n] }
fn matvec(a: &Dense, x: &[f64]) -> Vec<f64> {
    a.iter().map(|row| { let mut s = 0.0; for j in 0..x.len() { s += row[j] * x[j]; } s }).collect()
}
fn norm2(x: &[f64]) -> f64 {
    let m = x.iter().fold(0.0f64, |m, v| m.max(v.abs()));
    if m == 0.0 || !m.is_finite() { return m; }
    let s: f64 = x.iter().map(|v| (v / m) * (v / m)).sum();
    m * s.sqrt()
}
fn norm_inf_mat(a: &Dense) -> f64 { a.iter().map(|r| r.iter().map(|v| v.abs()).sum::<f64>()).fold(0.0, f64::max) }
fn norm_1_mat(a: &Dense) -> f64 {
    let n = a.len(); let mut m = 0.0f64;
    for j in 0..n { let mut s = 0.0; for i in 0..n { s += a[i][j].abs(); } m = m.max(s); }
    m
}
fn inverse(a: &Dense) -> Option<Dense> {
    let n = a.len();
    let mut m = a.clone();
    let mut inv = zeros(n);
    for i in 0..n { inv[i][i] = 1.0; }
    for k in 0..n {
        let mut p = k; let mut best = m[k][k].abs();
        for i in k + 1..n { if m[i][k].abs() > best { best = m[i][k].abs(); p = i; } }
        if best == 0.0 { return None; }
        m.swap(k, p); inv.swap(k, p);
        let d = m[k][k];
        for j in 0..n { m[k][j] /= d; inv[k][j] /= d; }
        for i in 0..n {
            if i != k {
                let f = m[i][k];
                if f != 0.0 {
                    for j in 0..n { let a = m[k][j]; m[i][j] -= f * a; let b = inv[k][j]; inv[i][j] -= f * b; }
                }
            }
        }
    }
    Some(inv)
}
// reference solution with two refinement steps
fn ref_solve(a: &Dense, ainv: &Dense, b: &[f64]) -> Vec<f64> {
    let mut x = matvec(ainv, b);
    for _ in 0..2 {
        let ax = matvec(a, &x);
        let r: Vec<f64> = (0..b.len()).map(|i| b[i] - ax[i]).collect();
        let dx = matvec(ainv, &r);
        for i in 0..x.len() { x[i] += dx[i]; }
    }
    x
}

// ---------------------------------------------------------------- systems
#[derive(Clone)]
struct Sys { n: usize, trip: Vec<(usize, usize, f64)>, class: String }
impl Sys {
    fn from_dense(a: &Dense, class: &str) -> Sys {
        let n = a.len(); let mut trip = vec![];
        for i in 0..n { for j in 0..n { if a[i][j] != 0.0 { trip.push((i, j, a[i][j])); } } }
        Sys { n, trip, class: class.to_string() }
    }
    fn dense(&self) -> Dense { let mut d = zeros(self.n); for &(i, j, v) in &self.trip { d[i][j] = v; } d }
    fn sparse(&self) -> Sparse<f64> { let mut t = self.trip.clone(); Sparse::from_triplets(self.n, self.n, &mut t) }
    // vary triplet order / add explicit zeros
    fn reorder(&mut self, rng: &mut Rng) {
        match rng.below(5) {
            0 => rng.shuffle(&mut self.trip),
            1 => self.trip.sort_by(|a, b| (a.0, a.1).cmp(&(b.0, b.1))),
            2 => self.trip.sort_by(|a, b| (b.1, b.0).cmp(&(a.1, a.0))),
            3 => self.trip.reverse(),
            _ => {}
        }
        if rng.coin(0.15) && self.n > 1 {
            // explicit structural zeros at unused positions
            let d = self.dense();
            let mut used = vec![vec![false; self.n]; self.n];
            for &(i, j, _) in &self.trip { used[i][j] = true; }
            for _ in 0..rng.range(1, 3) {
                let i = rng.below(self.n); let j = rng.below(self.n);
                if !used[i][j] && d[i][j] == 0.0 { used[i][j] = true; let pos = rng.below(self.trip.len() + 1); self.trip.insert(pos, (i, j, 0.0)); }
            }
        }
    }
}

fn offmag(rng: &mut Rng, mode: usize) -> f64 {
    match mode {
        0 => rng.sym(),
        1 => { let s = if rng.coin(0.5) { 1.0 } else { -1.0 }; s * 10f64.powf(-3.0 * rng.unif()) }
        2 => { let s = if rng.coin(0.5) { 1.0 } else { -1.0 }; s * (1 << rng.below(4)) as f64 * 0.25 } // powers of two
        3 => if rng.coin(0.5) { 1.0 } else { -1.0 },
        4 => -rng.unif(),  // all negative (M-matrix like)
        _ => rng.unif(),   // all positive
    }
}

fn gen_spd_dd(rng: &mut Rng, n: usize) -> Sys {
    let density = rng.pick(&[0.02, 0.05, 0.1, 0.3, 0.6, 1.0]);
    let margin = rng.pick(&[1.001, 1.01, 1.1, 1.5, 3.0]);
    let mode = rng.below(6);
    let mut a = zeros(n);
    for i in 0..n { for j in i + 1..n { if rng.coin(density) { let v = offmag(rng, mode); a[i][j] = v; a[j][i] = v; } } }
    for i in 0..n {
        let s: f64 = (0..n).filter(|&j| j != i).map(|j| a[i][j].abs()).sum();
        a[i][i] = if s == 0.0 { 0.5 + 2.0 * rng.unif() } else { margin * s };
    }
    Sys::from_dense(&a, "spd-dd")
}
fn gen_spd_btb(rng: &mut Rng, n: usize) -> Sys {
    let per_row = rng.range(1, 4) as f64;
    let density = (per_row / n as f64).min(1.0);
    let mut b = zeros(n);
    for i in 0..n { for j in 0..n { if rng.coin(density) { b[i][j] = rng.sym(); } } }
    let delta = rng.pick(&[0.01, 0.1, 1.0]);
    let mut a = zeros(n);
    for i in 0..n { for j in 0..=i {
        let mut s = 0.0; for k in 0..n { s += b[k][i] * b[k][j]; }
        if i == j { s += delta; }
        a[i][j] = s; a[j][i] = s;
    } }
    Sys::from_dense(&a, "spd-btb")
}
fn gen_spd_tridiag(rng: &mut Rng, n: usize) -> Sys {
    let s = rng.pick(&[0.0, 0.01, 0.1, 1.0]);
    let sc = rng.pick(&[1.0, 0.125, 1024.0, 3.7]);
    let mut a = zeros(n);
    for i in 0..n { a[i][i] = (2.0 + s) * sc; if i + 1 < n { a[i][i + 1] = -sc; a[i + 1][i] = -sc; } }
    Sys::from_dense(&a, "spd-tridiag")
}
fn eig_dist(rng: &mut Rng, n: usize) -> Vec<f64> {
    let k = rng.pick(&[1.0, 2.0, 10.0, 100.0, 1000.0, 5000.0]);
    match rng.below(5) {
        0 => (0..n).map(|_| 1.0 + (k - 1.0) * rng.unif()).collect(),
        1 => (0..n).map(|i| k.powf(if n > 1 { i as f64 / (n - 1) as f64 } else { 0.0 })).collect(),
        2 => (0..n).map(|_| if rng.coin(0.5) { 1.0 + 1e-9 * rng.unif() } else { k * (1.0 + 1e-9 * rng.unif()) }).collect(),
        3 => { let vals = [1.0, (k).sqrt(), k]; (0..n).map(|_| vals[rng.below(3)]).collect() }
        _ => (0..n).map(|i| if i == 0 { 1.0 } else { k * (1.0 - 0.01 * rng.unif()) }).collect(), // one outlier
    }
}
fn gen_spd_eig(rng: &mut Rng, n: usize) -> Sys {
    let e = eig_dist(rng, n);
    let mut a = zeros(n);
    for i in 0..n { a[i][i] = e[i]; }
    let rot = if n >= 2 { rng.below(3 * n + 1) } else { 0 };
    for _ in 0..rot {
        let p = rng.below(n); let mut q = rng.below(n); if p == q { q = (p + 1) % n; }
        let th = 6.283185307179586 * rng.unif(); let (s, c) = th.sin_cos();
        for j in 0..n { let (x, y) = (a[p][j], a[q][j]); a[p][j] = c * x - s * y; a[q][j] = s * x + c * y; }
        for i in 0..n { let (x, y) = (a[i][p], a[i][q]); a[i][p] = c * x - s * y; a[i][q] = s * x + c * y; }
    }
    for i in 0..n { for j in 0..i { let v = 0.5 * (a[i][j] + a[j][i]); let v = if v.abs() < 1e-300 { 0.0 } else { v }; a[i][j] = v; a[j][i] = v; } }
    Sys::from_dense(&a, "spd-eig")
}
fn gen_spd_diag(rng: &mut Rng, n: usize) -> Sys {
    let e = eig_dist(rng, n);
    let mut a = zeros(n);
    for i in 0..n { a[i][i] = e[i]; }
    Sys::from_dense(&a, "spd-diag")
}
fn gen_spd_arrow(rng: &mut Rng, n: usize) -> Sys {
    // arrow / block patterns, permuted
    let mut a = zeros(n);
    let hub = rng.below(n);
    for j in 0..n { if j != hub { let v = rng.sym(); a[hub][j] = v; a[j][hub] = v; } }
    for i in 0..n { let s: f64 = (0..n).filter(|&j| j != i).map(|j| a[i][j].abs()).sum(); a[i][i] = 1.05 * s + 0.1 + rng.unif(); }
    Sys::from_dense(&a, "spd-arrow")
}
fn gen_spd(rng: &mut Rng, n: usize) -> Sys {
    match rng.below(8) {
        0 | 1 => gen_spd_dd(rng, n),
        2 => gen_spd_btb(rng, n),
        3 => gen_spd_tridiag(rng, n),
        4 | 5 => gen_spd_eig(rng, n),
        6 => gen_spd_diag(rng, n),
        _ => gen_spd_arrow(rng, n),
    }
}

// strictly diagonally dominant families -------------------------------------------------
// dom: 0 = row, 1 = column, 2 = both ; neg_diag: allow negative diagonal entries
fn gen_sdd(rng: &mut Rng, n: usize, dom: usize, neg_diag: bool) -> Sys {
    let density = rng.pick(&[0.02, 0.05, 0.1, 0.3, 0.6, 1.0]);
    let margin = rng.pick(&[1.001, 1.01, 1.1, 1.5, 3.0]);
    let mode = rng.below(6);
    let shape = rng.below(6); // 0 general, 1 upper, 2 lower, 3 skew, 4 banded, 5 general
    let bw = rng.range(1, 3);
    let mut a = zeros(n);
    for i in 0..n { for j in 0..n {
        if i == j { continue; }
        let allowed = match shape { 1 => j > i, 2 => j < i, 3 => j > i, 4 => (i as isize - j as isize).unsigned_abs() <= bw, _ => true };
        if allowed && rng.coin(if shape == 4 { 0.9 } else { density }) {
            let v = offmag(rng, mode);
            a[i][j] = v;
            if shape == 3 { a[j][i] = -v; }
        }
    } }
    let rowscale = rng.below(3); // 0 none, 1 mild (x1..10), 2 strong (x1..100)
    if rowscale > 0 && dom != 2 {
        for i in 0..n { let s = 10f64.powf(rowscale as f64 * rng.unif()); for j in 0..n { a[i][j] *= s; } }
    }
    for i in 0..n {
        let rs: f64 = (0..n).filter(|&j| j != i).map(|j| a[i][j].abs()).sum();
        let cs: f64 = (0..n).filter(|&j| j != i).map(|j| a[j][i].abs()).sum();
        let s = match dom { 0 => rs, 1 => cs, _ => rs.max(cs) };
        let mut d = if s == 0.0 { 0.5 + 2.0 * rng.unif() } else { margin * s };
        if neg_diag && rng.coin(0.5) { d = -d; }
        a[i][i] = d;
    }
    let name = format!("sdd-{}{}", ["row", "col", "both"][dom], if neg_diag { "-mixdiag" } else { "" });
    Sys::from_dense(&a, &name)
}
fn gen_sdd_cyclic(rng: &mut Rng, n: usize, neg_diag: bool) -> Sys {
    let mut a = zeros(n);
    let d = 1.0 + rng.unif(); let c = d * rng.pick(&[0.1, 0.5, 0.9, 0.99]) * if rng.coin(0.5) { 1.0 } else { -1.0 };
    let shift = if n > 1 { rng.range(1, n - 1) } else { 0 };
    for i in 0..n { a[i][i] = if neg_diag && rng.coin(0.5) { -d } else { d }; if n > 1 { a[i][(i + shift) % n] = c; } }
    Sys::from_dense(&a, if neg_diag { "sdd-cyclic-mixdiag" } else { "sdd-cyclic" })
}
fn is_sdd_row(a: &Dense) -> bool { let n = a.len(); (0..n).all(|i| a[i][i].abs() > (0..n).filter(|&j| j != i).map(|j| a[i][j].abs()).sum::<f64>()) }
fn is_sdd_col(a: &Dense) -> bool { let n = a.len(); (0..n).all(|i| a[i][i].abs() > (0..n).filter(|&j| j != i).map(|j| a[j][i].abs()).sum::<f64>()) }
fn is_sym(a: &Dense) -> bool { let n = a.len(); (0..n).all(|i| (0..n).all(|j| a[i][j] == a[j][i])) }

// ---------------------------------------------------------------- solvers
#[derive(Clone, Copy, PartialEq, Eq, PartialOrd, Ord, Debug)]
enum Solver { Cg, Bicg1, Bicg2, Bicgstab, Qmr }
const NONSYM: [Solver; 4] = [Solver::Bicg1, Solver::Bicg2, Solver::Bicgstab, Solver::Qmr];
const ALL: [Solver; 5] = [Solver::Cg, Solver::Bicg1, Solver::Bicg2, Solver::Bicgstab, Solver::Qmr];

fn run(s: Solver, a: &Sparse<f64>, b: &Vector<f64>, x: &mut Vector<f64>, maxit: usize, tol: f64) -> Result<Result<usize, f64>, ()> {
    catch_unwind(AssertUnwindSafe(|| match s {
        Solver::Cg => a.solve_cg(b, x, maxit, tol),
        Solver::Bicg1 => a.solve_bicg(b, x, maxit, tol, 1),
        Solver::Bicg2 => a.solve_bicg(b, x, maxit, tol, 2),
        Solver::Bicgstab => a.solve_bicgstab(b, x, maxit, tol),
        Solver::Qmr => a.solve_qmr(b, x, maxit, tol),
    })).map_err(|_| ())
}

#[derive(Default)]
struct Stats {
    cases: usize,
    fails: BTreeMap<String, (usize, Vec<String>)>,
    max_ratio: BTreeMap<String, f64>,
    slow: BTreeMap<String, usize>,
}
impl Stats {
    fn fail(&mut self, key: String, detail: impl FnOnce() -> String) {
        let e = self.fails.entry(key).or_insert((0, vec![]));
        e.0 += 1;
        if e.1.len() < 2 { e.1.push(detail()); }
    }
    fn report(&self, name: &str) -> usize {
        println!("==== {}: cases {}", name, self.cases);
        for (k, v) in &self.max_ratio { println!("   max iters/n  {:<40} {:.2}   (> 2n+5: {})", k, v, self.slow.get(k).unwrap_or(&0)); }
        let mut total = 0;
        for (k, (c, d)) in &self.fails { total += c; println!(" FAIL {:<60} x{}", k, c); for s in d { println!("      {}", s); } }
        total
    }
}

fn fmt_sys(sys: &Sys, b: &[f64], x0: &[f64], tol: f64) -> String {
    if sys.n <= 6 { format!("n={} trip={:?} b={:?} x0={:?} tol={:e}", sys.n, sys.trip, b, x0, tol) }
    else { format!("n={} nnz={} tol={:e} (large)", sys.n, sys.trip.len(), tol) }
}

struct Ctx<'a> { sys: &'a Sys, sp: &'a Sparse<f64>, a: &'a Dense, ainv: &'a Dense, cond: f64, ainv_norm: f64 }

// run one (b, x0, tol) against the listed solvers and check the property
fn check(ctx: &Ctx, b: &[f64], x0: &[f64], tol: f64, guess_kind: &str, rhs_kind: &str, solvers: &[Solver], st: &mut Stats) {
    let n = ctx.sys.n;
    let xref = ref_solve(ctx.a, ctx.ainv, b);
    let nref = norm2(&xref);
    let nb = norm2(b);
    let nx0 = norm2(x0);
    let bv = Vector::create(b.to_vec());
    let maxit = 10 * n + 20;
    for &s in solvers {
        st.cases += 1;
        let mut x = Vector::create(x0.to_vec());
        let res = run(s, ctx.sp, &bv, &mut x, maxit, tol);
        let key = |kind: &str| format!("{:?}/{}/{}/{}: {}", s, ctx.sys.class, rhs_kind, guess_kind, kind);
        let finite = x.vec.iter().all(|v| v.is_finite());
        match res {
            Err(()) => { st.fail(key("PANIC"), || fmt_sys(ctx.sys, b, x0, tol)); continue; }
            Ok(Err(e)) => {
                st.fail(key(if finite { "no-convergence(Err)" } else { "Err+nonfinite-x" }), || format!("err={:e} cond={:.1} {}", e, ctx.cond, fmt_sys(ctx.sys, b, x0, tol)));
                continue;
            }
            Ok(Ok(it)) => {
                if !finite { st.fail(key("Ok-but-nonfinite-x"), || fmt_sys(ctx.sys, b, x0, tol)); continue; }
                let kk = format!("{:?}/{}", s, ctx.sys.class);
                let ratio = it as f64 / n as f64;
                let e = st.max_ratio.entry(kk.clone()).or_insert(0.0); if ratio > *e { *e = ratio; }
                if it > 2 * n + 5 { *st.slow.entry(kk).or_insert(0) += 1; }
                // accuracy against dense solution
                let d: Vec<f64> = (0..n).map(|i| x[i] - xref[i]).collect();
                let err = norm2(&d);
                let floor = 1e4 * f64::EPSILON * ctx.cond * (nref + nx0);
                let bound = if nb == 0.0 { 100.0 * tol * ctx.ainv_norm * (n as f64).sqrt() + floor } else { 100.0 * tol * ctx.cond * nref + floor };
                if !(err <= bound) {
                    st.fail(key("inaccurate"), || format!("err={:e} bound={:e} it={} cond={:.1} {}", err, bound, it, ctx.cond, fmt_sys(ctx.sys, b, x0, tol)));
                }
                // true residual check (independent of xref)
                let ax = matvec(ctx.a, &x.vec);
                let r: Vec<f64> = (0..n).map(|i| b[i] - ax[i]).collect();
                let rn = norm2(&r);
                let rb = if nb == 0.0 { 1.0 } else { nb };
                let anorm = norm_inf_mat(ctx.a);
                if !(rn <= 100.0 * tol * rb + 1e4 * f64::EPSILON * anorm * (nref + nx0 + norm2(&x.vec))) {
                    st.fail(key("true-residual-large"), || format!("rn/|b|={:e} it={} cond={:.1} {}", rn / rb, it, ctx.cond, fmt_sys(ctx.sys, b, x0, tol)));
                }
                if guess_kind == "exact" || guess_kind == "dense-solution" || (guess_kind == "zero" && nb == 0.0) {
                    if it != 0 { st.fail(key("solved-start-not-accepted-at-0"), || format!("it={} {}", it, fmt_sys(ctx.sys, b, x0, tol))); }
                    if (0..n).any(|i| x[i].to_bits() != x0[i].to_bits()) { st.fail(key("correct-x-modified"), || fmt_sys(ctx.sys, b, x0, tol)); }
                }
            }
        }
    }
}

const TOLS: [f64; 7] = [1e-12, 1e-11, 1e-10, 1e-8, 1e-6, 1e-4, 1e-3];

thread_local! { static LAST_KIND: std::cell::Cell<usize> = std::cell::Cell::new(0); }
const KIND_NAMES: [&str; 6] = ["uniform", "ones", "alternating", "unitvec", "smallint", "mixedmag"];
fn last_kind() -> &'static str { KIND_NAMES[LAST_KIND.with(|k| k.get())] }
fn rand_vec(rng: &mut Rng, n: usize) -> Vec<f64> {
    let kind = rng.below(6);
    LAST_KIND.with(|k| k.set(kind));
    match kind {
        0 => (0..n).map(|_| rng.sym()).collect(),
        1 => vec![1.0; n],
        2 => (0..n).map(|i| if i % 2 == 0 { 1.0 } else { -1.0 }).collect(),
        3 => { let mut v = vec![0.0; n]; let k = rng.below(n); v[k] = if rng.coin(0.5) { 1.0 } else { -1.0 }; v } // unit vector
        4 => (0..n).map(|_| (rng.below(9) as f64) - 4.0).collect(), // small integers (may be zero vector)
        _ => (0..n).map(|_| rng.sym() * 10f64.powf(3.0 * rng.sym())).collect(), // mixed magnitudes
    }
}

// full battery on one system
fn battery(rng: &mut Rng, sys: &mut Sys, solvers: &[Solver], st: &mut Stats, skipped: &mut usize, cond_cap: f64) {
    sys.reorder(rng);
    let a = sys.dense();
    let ainv = match inverse(&a) { Some(i) => i, None => { *skipped += 1; return; } };
    let ainv_norm = norm_inf_mat(&ainv);
    let cond = (norm_inf_mat(&a) * ainv_norm).max(norm_1_mat(&a) * norm_1_mat(&ainv));
    if !(cond <= cond_cap) { *skipped += 1; return; }
    let sp = sys.sparse();
    // sanity: sparse agrees with dense
    let dd = sp.to_dense();
    for i in 0..sys.n { for j in 0..sys.n { assert_eq!(dd[(i, j)].to_bits(), (a[i][j] + 0.0).to_bits(), "to_dense mismatch"); } }
    let ctx = Ctx { sys, sp: &sp, a: &a, ainv: &ainv, cond, ainv_norm };
    let n = sys.n;
    // 1. generic rhs, zero guess
    let b = rand_vec(rng, n);
    let tol = rng.pick(&TOLS);
    if norm2(&b) != 0.0 { check(&ctx, &b, &vec![0.0; n], tol, "zero", last_kind(), solvers, st); }
    // 2. scaled rhs, zero guess
    let sc = 10f64.powi(rng.range(0, 200) as i32 - 100);
    let bs: Vec<f64> = rand_vec(rng, n).iter().map(|v| v * sc).collect();
    if norm2(&bs) != 0.0 { check(&ctx, &bs, &vec![0.0; n], rng.pick(&TOLS), "zero", &format!("scaled1e+-100*{}", last_kind()), solvers, st); }
    // 3. random guess
    let b3 = rand_vec(rng, n);
    let k3 = last_kind();
    if norm2(&b3) != 0.0 {
        let xr = ref_solve(&a, &ainv, &b3);
        let m = norm2(&xr).max(1e-300);
        let g: Vec<f64> = (0..n).map(|_| rng.sym() * m * rng.pick(&[0.01, 1.0, 10.0])).collect();
        check(&ctx, &b3, &g, rng.pick(&TOLS), "random", k3, solvers, st);
        // 3b. dense solution (floating-point-correct x) as a guess: must be accepted untouched
        let mut dm = Matrix::<f64>::new(n, n, 0.0);
        for i in 0..n { for j in 0..n { dm[(i, j)] = a[i][j]; } }
        let xd = dm.solve_basic(&Vector::create(b3.clone()));
        let diff: Vec<f64> = (0..n).map(|i| xd[i] - xr[i]).collect();
        if !(norm2(&diff) <= 1e4 * f64::EPSILON * cond * m) { st.fail(format!("oracle/{}: solve_basic disagrees with own reference", sys.class), || format!("{:e}", norm2(&diff) / m)); }
        check(&ctx, &b3, &xd.vec, rng.pick(&TOLS), "dense-solution", k3, solvers, st);
        // 3c. near-exact guess (perturbed relative 1e-6): should converge quickly and stay accurate
        let g2: Vec<f64> = (0..n).map(|i| xr[i] * (1.0 + 1e-6 * rng.sym())).collect();
        check(&ctx, &b3, &g2, rng.pick(&TOLS), "near-exact", k3, solvers, st);
    }
    // 4. exact guess: integer x, dyadic-ish A*x computed; only use when A*x is exact (check via residual in the solver's own order == 0)
    {
        let xe: Vec<f64> = (0..n).map(|_| (rng.below(9) as f64) - 4.0).collect();
        let be = sp.multiply(&Vector::create(xe.clone())).vec; // same accumulation order as the solvers' residual => r == 0 exactly
        let sc = 2f64.powi(rng.range(0, 60) as i32 - 30);
        let xe2: Vec<f64> = xe.iter().map(|v| v * sc).collect();
        let be2: Vec<f64> = be.iter().map(|v| v * sc).collect();
        check(&ctx, &be2, &xe2, rng.pick(&TOLS), "exact", if norm2(&be2) == 0.0 { "zero" } else { "A*x" }, solvers, st);
    }
    // 5. zero rhs, zero guess
    check(&ctx, &vec![0.0; n], &vec![0.0; n], rng.pick(&TOLS), "zero", "zero", solvers, st);
    // 6. zero rhs, random guess (absolute tolerance since ||b|| = 0 is replaced by 1)
    let g: Vec<f64> = (0..n).map(|_| rng.sym()).collect();
    check(&ctx, &vec![0.0; n], &g, rng.pick(&TOLS), "random", "zero", solvers, st);
}

fn pick_n(rng: &mut Rng) -> usize {
    match rng.below(10) {
        0 => 1, 1 => 2, 2 => 3,
        3 | 4 => rng.range(4, 12),
        5 | 6 => rng.range(13, 30),
        7 | 8 => rng.range(31, 59),
        _ => 60,
    }
}

const COND_CAP: f64 = 1.0e4;

#[test]
fn spd_all_solvers() {
    // SPD systems: CG is claimed; the other three are run as a side observation only on the
    // SPD matrices that are also strictly diagonally dominant (class spd-dd / spd-arrow).
    let mut rng = Rng::new(101);
    let mut st = Stats::default(); let mut skipped = 0;
    for _ in 0..9000 {
        let n = pick_n(&mut rng);
        let mut sys = gen_spd(&mut rng, n);
        let a = sys.dense();
        let solvers: &[Solver] = if is_sdd_row(&a) { &ALL } else { &[Solver::Cg] };
        battery(&mut rng, &mut sys, solvers, &mut st, &mut skipped, COND_CAP);
    }
    let f = st.report("spd_all_solvers"); println!("skipped (cond cap / singular): {}", skipped);
    assert_eq!(f, 0);
}

#[test]
fn sdd_posdiag_both_dominant() {
    let mut rng = Rng::new(202);
    let mut st = Stats::default(); let mut skipped = 0;
    for k in 0..5000 {
        let n = pick_n(&mut rng);
        let mut sys = if k % 10 == 9 { gen_sdd_cyclic(&mut rng, n, false) } else { gen_sdd(&mut rng, n, 2, false) };
        battery(&mut rng, &mut sys, &NONSYM, &mut st, &mut skipped, COND_CAP);
    }
    let f = st.report("sdd_posdiag_both_dominant"); println!("skipped: {}", skipped);
    assert_eq!(f, 0);
}

#[test]
fn sdd_posdiag_row_or_col_dominant() {
    let mut rng = Rng::new(303);
    let mut st = Stats::default(); let mut skipped = 0;
    for k in 0..5000 {
        let n = pick_n(&mut rng);
        let mut sys = gen_sdd(&mut rng, n, k % 2, false);
        battery(&mut rng, &mut sys, &NONSYM, &mut st, &mut skipped, COND_CAP);
    }
    let f = st.report("sdd_posdiag_row_or_col_dominant"); println!("skipped: {}", skipped);
    assert_eq!(f, 0);
}

#[test]
fn sdd_mixed_sign_diagonal() {
    let mut rng = Rng::new(404);
    let mut st = Stats::default(); let mut skipped = 0;
    for k in 0..3000 {
        let n = pick_n(&mut rng);
        let mut sys = if k % 10 == 9 { gen_sdd_cyclic(&mut rng, n, true) } else { gen_sdd(&mut rng, n, k % 3, true) };
        battery(&mut rng, &mut sys, &NONSYM, &mut st, &mut skipped, COND_CAP);
    }
    let f = st.report("sdd_mixed_sign_diagonal"); println!("skipped: {}", skipped);
    assert_eq!(f, 0);
}

// small exact systems: integer / dyadic data where exact Lanczos breakdowns (0 denominators) can actually occur
#[test]
fn small_integer_enumeration() {
    let mut st = Stats::default(); let mut skipped = 0;
    let mut rng = Rng::new(505);
    // n = 2 exhaustive over a small grid, positive diagonal, row- and column-dominant (both)
    for a11 in 1..=4i32 { for a22 in 1..=4i32 { for a12 in -3..=3i32 { for a21 in -3..=3i32 {
        let both = a12.abs() < a11 && a21.abs() < a22 && a21.abs() < a11 && a12.abs() < a22;
        let row = a12.abs() < a11 && a21.abs() < a22;
        if !row { continue; }
        let mut trip = vec![(0, 0, a11 as f64), (1, 1, a22 as f64)];
        if a12 != 0 { trip.push((0, 1, a12 as f64)); }
        if a21 != 0 { trip.push((1, 0, a21 as f64)); }
        let sys = Sys { n: 2, trip, class: (if both { "int2-both" } else { "int2-row" }).to_string() };
        let a = sys.dense(); let ainv = inverse(&a).unwrap(); let ainv_norm = norm_inf_mat(&ainv);
        let cond = norm_inf_mat(&a) * ainv_norm; let sp = sys.sparse();
        let ctx = Ctx { sys: &sys, sp: &sp, a: &a, ainv: &ainv, cond, ainv_norm };
        for b1 in -3..=3i32 { for b2 in -3..=3i32 {
            if b1 == 0 && b2 == 0 { continue; }
            let solvers: &[Solver] = if is_sym(&a) && a11 * a22 > a12 * a21 { &ALL } else { &NONSYM };
            check(&ctx, &[b1 as f64, b2 as f64], &[0.0, 0.0], 1e-10, "zero", "int", solvers, &mut st);
        } }
    } } } }
    // n = 3..5 random small integers, both-dominant, positive diagonal
    for _ in 0..40000 {
        let n = rng.range(3, 5);
        let mut a = zeros(n);
        for i in 0..n { for j in 0..n { if i != j && rng.coin(0.6) { a[i][j] = (rng.below(5) as f64) - 2.0; } } }
        let dom = rng.below(2);
        for i in 0..n {
            let rs: f64 = (0..n).filter(|&j| j != i).map(|j| a[i][j].abs()).sum();
            let cs: f64 = (0..n).filter(|&j| j != i).map(|j| a[j][i].abs()).sum();
            a[i][i] = (if dom == 0 { rs.max(cs) } else { rs }) + 1.0 + rng.below(2) as f64;
        }
        let mut sys = Sys::from_dense(&a, if dom == 0 { "int345-both" } else { "int345-row" });
        sys.reorder(&mut rng);
        let ainv = inverse(&a).unwrap(); let ainv_norm = norm_inf_mat(&ainv);
        let cond = norm_inf_mat(&a) * ainv_norm; let sp = sys.sparse();
        let ctx = Ctx { sys: &sys, sp: &sp, a: &a, ainv: &ainv, cond, ainv_norm };
        let b: Vec<f64> = (0..n).map(|_| (rng.below(7) as f64) - 3.0).collect();
        if norm2(&b) == 0.0 { continue; }
        check(&ctx, &b, &vec![0.0; n], 1e-10, "zero", "int", &NONSYM, &mut st);
    }
    let f = st.report("small_integer_enumeration"); println!("skipped: {}", skipped); skipped += 0; let _ = skipped;
    assert_eq!(f, 0);
}

// Targeted: row-dominant (positive diagonal) matrices whose symmetric part is indefinite; choose b with b^T A b == 0
// (exact, dyadic data) or ~ 0 (bisection) so that the very first Lanczos-type denominator vanishes.
#[test]
fn targeted_first_step_breakdown() {
    let mut st = Stats::default();
    let mut rng = Rng::new(606);
    // exact family n=2: A=[[a11,a12],[a21,a22]], b=(1,-t), a11 - (a12+a21) t + a22 t^2 = 0
    {
        let sys = Sys { n: 2, trip: vec![(0, 0, 1.0), (0, 1, 0.5), (1, 0, 9.5), (1, 1, 16.0)], class: "row-dom-2x2-exact".into() };
        let a = sys.dense(); let ainv = inverse(&a).unwrap(); let ainv_norm = norm_inf_mat(&ainv);
        let cond = norm_inf_mat(&a) * ainv_norm; let sp = sys.sparse();
        println!("2x2 exact: cond_inf = {}", cond);
        let ctx = Ctx { sys: &sys, sp: &sp, a: &a, ainv: &ainv, cond, ainv_norm };
        for &t in &[0.5, 0.125] { check(&ctx, &[1.0, -t], &[0.0, 0.0], 1e-8, "zero", "bAb=0", &NONSYM, &mut st); }
    }
    // general n: bisection
    let mut tried = 0;
    for _ in 0..20000 {
        let n = rng.range(2, 30);
        let dm = rng.below(2); let mut sys = gen_sdd(&mut rng, n, dm, false);
        sys.class = "row/col-dom-bisect".into();
        let a = sys.dense();
        let ainv = match inverse(&a) { Some(i) => i, None => continue };
        let ainv_norm = norm_inf_mat(&ainv);
        let cond = (norm_inf_mat(&a) * ainv_norm).max(norm_1_mat(&a) * norm_1_mat(&ainv));
        if cond > COND_CAP { continue; }
        let q = |v: &[f64]| -> f64 { let av = matvec(&a, v); (0..n).map(|i| v[i] * av[i]).sum() };
        // find a negative direction by random search
        let mut neg: Option<Vec<f64>> = None;
        for _ in 0..30 { let v: Vec<f64> = (0..n).map(|_| rng.sym() * 10f64.powf(2.0 * rng.sym())).collect(); if q(&v) < 0.0 { neg = Some(v); break; } }
        let w = match neg { Some(w) => w, None => continue };
        let u: Vec<f64> = vec![1.0; n]; // q(u) > 0 for row dominant? not always for column; check
        if !(q(&u) > 0.0) { continue; }
        let (mut lo, mut hi) = (0.0f64, 1.0f64);
        for _ in 0..200 { let mid = 0.5 * (lo + hi); let v: Vec<f64> = (0..n).map(|i| u[i] + mid * (w[i] - u[i])).collect(); if q(&v) > 0.0 { lo = mid; } else { hi = mid; } }
        let b: Vec<f64> = (0..n).map(|i| u[i] + lo * (w[i] - u[i])).collect();
        tried += 1;
        let sp = sys.sparse();
        let ctx = Ctx { sys: &sys, sp: &sp, a: &a, ainv: &ainv, cond, ainv_norm };
        check(&ctx, &b, &vec![0.0; n], rng.pick(&TOLS), "zero", "bAb~0", &NONSYM, &mut st);
    }
    println!("bisect systems tried: {}", tried);
    let f = st.report("targeted_first_step_breakdown");
    assert_eq!(f, 0);
}

// rhs scale extremes (side remark territory: squares under/overflow)
#[test]
fn rhs_scale_extremes() {
    let mut st = Stats::default();
    let mut rng = Rng::new(707);
    for &e in &[-300i32, -200, -160, -150, -120, 120, 150, 153, 160, 200, 300] {
        for _ in 0..20 {
            let n = rng.range(1, 20);
            let mut sys = gen_spd_dd(&mut rng, n);
            sys.class = format!("spd-dd@1e{}", e);
            let a = sys.dense(); let ainv = inverse(&a).unwrap(); let ainv_norm = norm_inf_mat(&ainv);
            let cond = norm_inf_mat(&a) * ainv_norm; let sp = sys.sparse();
            let ctx = Ctx { sys: &sys, sp: &sp, a: &a, ainv: &ainv, cond, ainv_norm };
            let b: Vec<f64> = (0..n).map(|_| (0.5 + rng.unif()) * 10f64.powi(e)).collect();
            check(&ctx, &b, &vec![0.0; n], 1e-8, "zero", "extreme", &ALL, &mut st);
        }
    }
    let f = st.report("rhs_scale_extremes");
    assert_eq!(f, 0);
}

// Natural structured systems with point sources: upwind bidiagonal, convection-diffusion tridiagonal, triangular, cyclic
#[test]
fn structured_point_sources() {
    let mut st = Stats::default();
    let mut rng = Rng::new(808);
    for n in 2..=60usize {
        for variant in 0..6 {
            let mut a = zeros(n);
            let name;
            match variant {
                0 => { name = "upwind-lower-bidiag"; for i in 0..n { a[i][i] = 2.0; if i > 0 { a[i][i - 1] = -1.0; } } }
                1 => { name = "upwind-upper-bidiag"; for i in 0..n { a[i][i] = 2.0; if i + 1 < n { a[i][i + 1] = -1.0; } } }
                2 => { name = "convdiff-tridiag"; for i in 0..n { a[i][i] = 2.5; if i > 0 { a[i][i - 1] = -1.5; } if i + 1 < n { a[i][i + 1] = -0.5; } } }
                3 => { name = "cyclic-shift"; for i in 0..n { a[i][i] = 2.0; a[i][(i + 1) % n] = -1.0; } }
                4 => { name = "dense-upper-tri"; for i in 0..n { for j in i + 1..n { a[i][j] = rng.sym(); } } for i in 0..n { let rs: f64 = (0..n).filter(|&j| j != i).map(|j| a[i][j].abs()).sum(); let cs: f64 = (0..n).filter(|&j| j != i).map(|j| a[j][i].abs()).sum(); a[i][i] = 1.1 * rs.max(cs) + 0.5; } }
                _ => { name = "block-diag-2"; for i in 0..n { a[i][i] = 3.0; } for i in (0..n - 1).step_by(2) { a[i][i + 1] = 1.0; a[i + 1][i] = -2.0; } }
            }
            let sys = Sys::from_dense(&a, name);
            let ainv = inverse(&a).unwrap(); let ainv_norm = norm_inf_mat(&ainv);
            let cond = (norm_inf_mat(&a) * ainv_norm).max(norm_1_mat(&a) * norm_1_mat(&ainv));
            if cond > COND_CAP { continue; }
            assert!(is_sdd_row(&a));
            let sp = sys.sparse();
            let ctx = Ctx { sys: &sys, sp: &sp, a: &a, ainv: &ainv, cond, ainv_norm };
            for k in [0, n / 2, n - 1] {
                let mut b = vec![0.0; n]; b[k] = 1.0;
                check(&ctx, &b, &vec![0.0; n], 1e-8, "zero", "unitvec", &NONSYM, &mut st);
            }
            check(&ctx, &vec![1.0; n], &vec![0.0; n], 1e-8, "zero", "ones", &NONSYM, &mut st);
            let b: Vec<f64> = (0..n).map(|_| rng.sym()).collect();
            check(&ctx, &b, &vec![0.0; n], 1e-8, "zero", "uniform", &NONSYM, &mut st);
        }
    }
    let f = st.report("structured_point_sources");
    assert_eq!(f, 0);
}
