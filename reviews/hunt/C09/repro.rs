// C09 repro: each test asserts the property (success within 10n+20 iterations, finite x, agreement with the
// exact solution) and FAILS on the current code.
use ohsl::{Sparse, Vector};

fn sparse(n: usize, trip: &[(usize, usize, f64)]) -> Sparse<f64> {
    let mut t = trip.to_vec();
    Sparse::from_triplets(n, n, &mut t)
}
fn assert_solved(name: &str, res: Result<usize, f64>, x: &Vector<f64>, exact: &[f64], tol_x: f64) {
    println!("{}: result {:?}, x = {:?}, exact = {:?}", name, res, x.vec, exact);
    assert!(x.vec.iter().all(|v| v.is_finite()), "{}: x is not finite: {:?} (result {:?})", name, x.vec, res);
    assert!(res.is_ok(), "{}: solver did not report success: {:?}, x = {:?}", name, res, x.vec);
    let err = (0..exact.len()).map(|i| (x[i] - exact[i]).abs()).fold(0.0, f64::max);
    let scale = exact.iter().fold(0.0f64, |m, v| m.max(v.abs()));
    assert!(err <= tol_x * scale, "{}: reported Ok({:?}) but x = {:?} differs from exact {:?} by {:e}", name, res, x.vec, exact, err);
}

// upwind (lower bidiagonal) matrix [[2,0,0],[-1,2,0],[0,-1,2]]: strictly row- and column-dominant, cond_inf = 2.6
const UPWIND3: [(usize, usize, f64); 5] = [(0, 0, 2.0), (1, 0, -1.0), (1, 1, 2.0), (2, 1, -1.0), (2, 2, 2.0)];

#[test]
fn bicg_upwind3_point_source_gives_nan() {
    let a = sparse(3, &UPWIND3);
    let b = Vector::create(vec![1.0, 0.0, 0.0]);
    for itol in [1, 2] {
        let mut x = Vector::create(vec![0.0; 3]);
        let res = a.solve_bicg(&b, &mut x, 50, 1e-8, itol);
        assert_solved("bicg upwind3 b=e1", res, &x, &[0.5, 0.25, 0.125], 1e-6);
    }
}

#[test]
fn qmr_upwind3_point_source_gives_up() {
    let a = sparse(3, &UPWIND3);
    let b = Vector::create(vec![1.0, 0.0, 0.0]);
    let mut x = Vector::create(vec![0.0; 3]);
    let res = a.solve_qmr(&b, &mut x, 50, 1e-8);
    assert_solved("qmr upwind3 b=e1", res, &x, &[0.5, 0.25, 0.125], 1e-6);
}

#[test]
fn bicgstab_upwind3_point_source_gives_up() {
    let a = sparse(3, &UPWIND3);
    let b = Vector::create(vec![1.0, 0.0, 0.0]);
    let mut x = Vector::create(vec![0.0; 3]);
    let res = a.solve_bicgstab(&b, &mut x, 50, 1e-8);
    assert_solved("bicgstab upwind3 b=e1", res, &x, &[0.5, 0.25, 0.125], 1e-6);
}

#[test]
fn bicg_upper_triangular_2x2_gives_nan() {
    // A = [[2,-1],[0,2]], b = (0,-3): b is an eigenvector of A^T, the shadow residual vanishes after one step
    let a = sparse(2, &[(0, 0, 2.0), (1, 1, 2.0), (0, 1, -1.0)]);
    let b = Vector::create(vec![0.0, -3.0]);
    let mut x = Vector::create(vec![0.0; 2]);
    let res = a.solve_bicg(&b, &mut x, 40, 1e-10, 1);
    assert_solved("bicg 2x2", res, &x, &[-0.75, -1.5], 1e-8);
}

#[test]
fn qmr_upper_triangular_2x2_gives_up() {
    let a = sparse(2, &[(0, 0, 2.0), (1, 1, 2.0), (0, 1, -1.0)]);
    let b = Vector::create(vec![0.0, -3.0]);
    let mut x = Vector::create(vec![0.0; 2]);
    let res = a.solve_qmr(&b, &mut x, 40, 1e-10);
    assert_solved("qmr 2x2", res, &x, &[-0.75, -1.5], 1e-8);
}

#[test]
fn bicgstab_reports_ok_with_wrong_answer_3x3() {
    // A = [[4,0,1],[0,1,0],[-2,0,4]] strictly row- and column-dominant, cond_inf = 6; exact x = (-4/9, -3, -2/9)
    let a = sparse(3, &[(0, 0, 4.0), (0, 2, 1.0), (1, 1, 1.0), (2, 0, -2.0), (2, 2, 4.0)]);
    let b = Vector::create(vec![-2.0, -3.0, 0.0]);
    let mut x = Vector::create(vec![0.0; 3]);
    let res = a.solve_bicgstab(&b, &mut x, 50, 1e-10);
    assert_solved("bicgstab 3x3", res, &x, &[-4.0 / 9.0, -3.0, -2.0 / 9.0], 1e-6);
}

fn upwind(n: usize) -> (Sparse<f64>, Vector<f64>, Vec<f64>) {
    // upwind bidiagonal (2 on the diagonal, -1 below), b = ones; exact x_i = 1 - 2^-(i+1)
    let mut trip = vec![];
    for i in 0..n { trip.push((i, i, 2.0)); if i > 0 { trip.push((i, i - 1, -1.0)); } }
    let mut exact = vec![0.0; n];
    for i in 0..n { exact[i] = (1.0 + if i > 0 { exact[i - 1] } else { 0.0 }) / 2.0; }
    (sparse(n, &trip), Vector::create(vec![1.0; n]), exact)
}

#[test]
fn bicg_upwind8_ones_rhs_no_convergence() {
    let (a, b, exact) = upwind(8);
    let mut x = Vector::create(vec![0.0; 8]);
    let r = a.solve_bicg(&b, &mut x, 10 * 8 + 20, 1e-8, 1);
    assert_solved("bicg upwind8 ones", r, &x, &exact, 1e-6);
}

#[test]
fn qmr_upwind8_ones_rhs_no_convergence() {
    let (a, b, exact) = upwind(8);
    let mut x = Vector::create(vec![0.0; 8]);
    let r = a.solve_qmr(&b, &mut x, 10 * 8 + 20, 1e-8);
    assert_solved("qmr upwind8 ones", r, &x, &exact, 1e-6);
}

// A = [[1,0.5],[9.5,16]] strictly row-dominant (not column-dominant), cond_inf = 37.4; b = (1,-0.5) has b^T A b = 0 exactly.
// exact solution: det = 11.25 ; x = (16.25, -10) / 11.25
const ROWDOM2: [(usize, usize, f64); 4] = [(0, 0, 1.0), (0, 1, 0.5), (1, 0, 9.5), (1, 1, 16.0)];
const ROWDOM2_EXACT: [f64; 2] = [16.25 / 11.25, -10.0 / 11.25];

#[test]
fn bicgstab_row_dominant_2x2_first_step_breakdown_gives_nan() {
    let a = sparse(2, &ROWDOM2);
    let b = Vector::create(vec![1.0, -0.5]);
    let mut x = Vector::create(vec![0.0; 2]);
    let r = a.solve_bicgstab(&b, &mut x, 40, 1e-8);
    assert_solved("bicgstab rowdom 2x2", r, &x, &ROWDOM2_EXACT, 1e-6);
}

#[test]
fn bicg_row_dominant_2x2_first_step_breakdown_gives_nan() {
    let a = sparse(2, &ROWDOM2);
    let b = Vector::create(vec![1.0, -0.5]);
    let mut x = Vector::create(vec![0.0; 2]);
    let r = a.solve_bicg(&b, &mut x, 40, 1e-8, 1);
    assert_solved("bicg rowdom 2x2", r, &x, &ROWDOM2_EXACT, 1e-6);
}

#[test]
fn qmr_row_dominant_2x2_first_step_breakdown_gives_up() {
    let a = sparse(2, &ROWDOM2);
    let b = Vector::create(vec![1.0, -0.5]);
    let mut x = Vector::create(vec![0.0; 2]);
    let r = a.solve_qmr(&b, &mut x, 40, 1e-8);
    assert_solved("qmr rowdom 2x2", r, &x, &ROWDOM2_EXACT, 1e-6);
}
