// Adversarial property hunt for C19 (meshes: storage, interpolation, quadrature, file round trip).
// Public API only. Own xorshift generator, exact dyadic (i128) oracle.

use ohsl::{Complex, Matrix, Mesh1D, Mesh2D, Number, Vector};
use std::sync::atomic::{AtomicU64, Ordering};

static CASES: AtomicU64 = AtomicU64::new(0);
fn tick(n: u64) {
    CASES.fetch_add(n, Ordering::Relaxed);
}

// ---------------------------------------------------------------- rng
struct Rng(u64);
impl Rng {
    fn new(seed: u64) -> Self {
        Rng(seed.wrapping_mul(0x9E3779B97F4A7C15) | 1)
    }
    fn next(&mut self) -> u64 {
        let mut x = self.0;
        x ^= x >> 12;
        x ^= x << 25;
        x ^= x >> 27;
        self.0 = x;
        x.wrapping_mul(0x2545F4914F6CDD1D)
    }
    fn below(&mut self, n: u64) -> u64 {
        self.next() % n
    }
    fn range(&mut self, lo: i64, hi: i64) -> i64 {
        lo + (self.below((hi - lo + 1) as u64) as i64)
    }
    fn unit(&mut self) -> f64 {
        (self.next() >> 11) as f64 / (1u64 << 53) as f64
    }
}

// ---------------------------------------------------------------- dyadic grids
// A grid is a strictly increasing list of integers k_i with coordinate k_i * 2^-m.
#[derive(Clone, Debug)]
struct Grid {
    k: Vec<i128>,
    m: u32,
}
impl Grid {
    fn x(&self, i: usize) -> f64 {
        self.k[i] as f64 / (1u64 << self.m) as f64
    }
    fn xs(&self) -> Vec<f64> {
        (0..self.k.len()).map(|i| self.x(i)).collect()
    }
    fn n(&self) -> usize {
        self.k.len()
    }
}

// spacing >= 1e-3 : with m <= 9 every positive integer step qualifies (2^-9 = 0.00195).
fn gen_grid(r: &mut Rng, n: usize) -> Grid {
    let class = r.below(9);
    let m: u32 = match class {
        0 => 0,
        1 => 9,
        _ => r.below(10) as u32,
    };
    let start: i128 = match r.below(6) {
        0 => 0,
        1 => -(r.below(1 << 12) as i128),
        2 => r.below(1 << 12) as i128,
        3 => -((n as i128) * 8), // straddles zero
        4 => (1i128 << 30) + r.below(1000) as i128,
        _ => -(1i128 << 28) - r.below(1000) as i128,
    };
    let mut k = vec![start];
    for i in 1..n {
        let step: i128 = match class {
            0 => 1 + r.below(7) as i128,                    // integer nodes
            1 => 1 + r.below(3) as i128,                    // finest allowed spacing
            2 => 1i128 << r.below(12),                      // powers of two only
            3 => 1i128 << (i as u32 % 11),                  // geometric stretching
            4 => 1i128 << (10 - (i as u32 % 11)),           // geometric shrinking
            5 => if r.below(2) == 0 { 1 } else { 1 << 14 }, // mixed magnitudes
            6 => 3 * (1 + r.below(5) as i128),              // non power-of-two multiples
            7 => 1 + r.below(1 << 10) as i128,              // arbitrary odd/even
            _ => 1 + (i as i128 * i as i128) % 17,          // quadratic pattern
        };
        let last = *k.last().unwrap();
        k.push(last + step);
    }
    // make sure the grid is not uniform when n >= 3 (the property speaks of non-uniform grids; uniform is a
    // sub-case anyway, but we want the non-uniform branch exercised)
    if n >= 3 && k.windows(2).all(|w| w[1] - w[0] == k[1] - k[0]) {
        let d = k[1] - k[0];
        let nn = k.len();
        k[nn - 1] += d;
    }
    Grid { k, m }
}

fn gen_data(r: &mut Rng, n: usize) -> Vec<i64> {
    let class = r.below(11);
    (0..n)
        .map(|i| match class {
            0 => 0,
            1 => 1,
            2 => if i % 2 == 0 { 1 } else { -1 },
            3 => i as i64,
            4 => (n - i) as i64,
            5 => r.range(-1, 1),
            6 => r.range(-1_000_000, 1_000_000),
            7 => 1i64 << r.below(20),
            8 => if i == 0 || i + 1 == n { r.range(-1000, 1000) } else { 0 },
            10 => r.range(-(1i64 << 50), 1i64 << 50),
            _ => r.range(-1000, 1000),
        })
        .collect()
}

fn close(a: f64, b: f64, scale: f64, rel: f64) -> bool {
    a.is_finite() && (a - b).abs() <= rel * scale.max(1.0e-300)
}

fn pow2(e: u32) -> f64 {
    (2.0f64).powi(e as i32)
}

fn i128_to_f64_exact(v: i128) -> Option<f64> {
    let f = v as f64;
    if f as i128 == v && v.unsigned_abs() < (1u128 << 100) {
        Some(f)
    } else {
        None
    }
}

// ---------------------------------------------------------------- generic storage checks
trait FromI: Sized {
    fn from_i(a: i64, b: i64) -> Self;
}
impl FromI for f64 {
    fn from_i(a: i64, _b: i64) -> f64 {
        a as f64
    }
}
impl FromI for i64 {
    fn from_i(a: i64, _b: i64) -> i64 {
        a
    }
}
impl FromI for i32 {
    fn from_i(a: i64, _b: i64) -> i32 {
        a as i32
    }
}
impl FromI for Complex<f64> {
    fn from_i(a: i64, b: i64) -> Self {
        Complex::new(a as f64, b as f64)
    }
}

fn veq<T: PartialEq>(v: &Vector<T>, s: &[T]) -> bool {
    v.size() == s.len() && (0..s.len()).all(|i| v[i] == s[i])
}

fn check_views_1d<T: Clone + Number + Copy + std::fmt::Debug>(
    mesh: &Mesh1D<T, f64>,
    xs: &[f64],
    shadow: &[Vec<T>],
    nv: usize,
    ctx: &str,
) {
    assert_eq!(mesh.nnodes(), xs.len(), "{ctx}: nnodes");
    assert_eq!(mesh.nvars(), nv, "{ctx}: nvars");
    let nodes = mesh.nodes();
    assert_eq!(nodes.size(), xs.len(), "{ctx}: nodes size");
    for i in 0..xs.len() {
        assert_eq!(mesh.coord(i), xs[i], "{ctx}: coord {i}");
        assert_eq!(nodes[i], xs[i], "{ctx}: nodes()[{i}]");
        let g = mesh.get_nodes_vars(i);
        assert!(veq(&g, &shadow[i]), "{ctx}: get_nodes_vars({i}) = {:?} expected {:?}", g, shadow[i]);
        assert!(veq(&mesh[i], &shadow[i]), "{ctx}: index {i}");
        for v in 0..nv {
            assert!(mesh[i][v] == shadow[i][v], "{ctx}: index {i},{v}");
        }
    }
}

fn history_1d<T: Clone + Number + Copy + std::fmt::Debug + FromI>(r: &mut Rng, steps: usize) {
    let n = r.range(2, 12) as usize;
    let nv = r.range(1, 4) as usize;
    let g = gen_grid(r, n);
    let xs = g.xs();
    let mut mesh = Mesh1D::<T, f64>::new(Vector::create(xs.clone()), nv);
    let mut shadow: Vec<Vec<T>> = vec![vec![T::zero(); nv]; n];
    check_views_1d(&mesh, &xs, &shadow, nv, "fresh");
    for s in 0..steps {
        let node = match r.below(4) {
            0 => 0,
            1 => n - 1,
            _ => r.below(n as u64) as usize,
        };
        match r.below(4) {
            0 => {
                let v: Vec<T> = (0..nv).map(|_| T::from_i(r.range(-999, 999), r.range(-9, 9))).collect();
                mesh.set_nodes_vars(node, Vector::create(v.clone()));
                shadow[node] = v;
            }
            1 => {
                let var = r.below(nv as u64) as usize;
                let val = T::from_i(r.range(-999, 999), r.range(-9, 9));
                mesh[node][var] = val;
                shadow[node][var] = val;
            }
            2 => {
                let v: Vec<T> = (0..nv).map(|_| T::from_i(r.range(-999, 999), r.range(-9, 9))).collect();
                mesh[node] = Vector::create(v.clone());
                shadow[node] = v;
            }
            _ => {
                // copy one node's vector to another through the getter (aliasing check)
                let other = r.below(n as u64) as usize;
                let got = mesh.get_nodes_vars(other);
                mesh.set_nodes_vars(node, got);
                shadow[node] = shadow[other].clone();
                // mutate a fresh copy: must not write through
                let mut c = mesh.get_nodes_vars(node);
                c[0] = T::from_i(123456, 1);
            }
        }
        check_views_1d(&mesh, &xs, &shadow, nv, &format!("step {s}"));
        tick(1);
    }
}

fn check_views_2d<T: Clone + Number + Copy + std::fmt::Debug>(
    mesh: &Mesh2D<T>,
    xs: &[f64],
    ys: &[f64],
    shadow: &[Vec<Vec<T>>], // [i][j][v]
    nv: usize,
    ctx: &str,
) {
    let (nx, ny) = (xs.len(), ys.len());
    assert_eq!(mesh.nnodes(), (nx, ny), "{ctx}: nnodes");
    assert_eq!(mesh.nvars(), nv, "{ctx}: nvars");
    let xn = mesh.xnodes();
    let yn = mesh.ynodes();
    assert!(veq(&xn, xs), "{ctx}: xnodes");
    assert!(veq(&yn, ys), "{ctx}: ynodes");
    for i in 0..nx {
        for j in 0..ny {
            assert_eq!(mesh.coord(i, j), (xs[i], ys[j]), "{ctx}: coord");
            let g = mesh.get_nodes_vars(i, j);
            assert!(veq(&g, &shadow[i][j]), "{ctx}: get_nodes_vars({i},{j}) = {:?} expected {:?}", g, shadow[i][j]);
            assert!(veq(&mesh[(i, j)], &shadow[i][j]), "{ctx}: index ({i},{j})");
        }
    }
    for i in 0..nx {
        let cs = mesh.cross_section_xnode(i);
        assert_eq!(cs.nnodes(), ny, "{ctx}: xsec nnodes");
        assert_eq!(cs.nvars(), nv, "{ctx}: xsec nvars");
        assert!(veq(&cs.nodes(), ys), "{ctx}: xsec nodes");
        for j in 0..ny {
            assert_eq!(cs.coord(j), ys[j]);
            assert!(veq(&cs.get_nodes_vars(j), &shadow[i][j]), "{ctx}: xsec({i}) node {j}");
            assert!(veq(&cs[j], &shadow[i][j]), "{ctx}: xsec({i}) index {j}");
        }
    }
    for j in 0..ny {
        let cs = mesh.cross_section_ynode(j);
        assert_eq!(cs.nnodes(), nx, "{ctx}: ysec nnodes");
        assert_eq!(cs.nvars(), nv, "{ctx}: ysec nvars");
        assert!(veq(&cs.nodes(), xs), "{ctx}: ysec nodes");
        for i in 0..nx {
            assert_eq!(cs.coord(i), xs[i]);
            assert!(veq(&cs.get_nodes_vars(i), &shadow[i][j]), "{ctx}: ysec({j}) node {i}");
            assert!(veq(&cs[i], &shadow[i][j]), "{ctx}: ysec({j}) index {i}");
        }
    }
    for v in 0..nv {
        let m: Matrix<T> = mesh.var_as_matrix(v);
        assert_eq!(m.rows(), nx, "{ctx}: matrix rows");
        assert_eq!(m.cols(), ny, "{ctx}: matrix cols");
        assert_eq!(m.numel(), nx * ny, "{ctx}: matrix numel");
        for i in 0..nx {
            for j in 0..ny {
                assert!(m[(i, j)] == shadow[i][j][v], "{ctx}: var_as_matrix({v})[({i},{j})]");
            }
        }
    }
}

fn history_2d<T: Clone + Number + Copy + std::fmt::Debug + FromI + 'static>(r: &mut Rng, steps: usize, small: bool) {
    let hi = if small { 4 } else { 12 };
    let nx = r.range(2, hi) as usize;
    let ny = r.range(2, hi) as usize;
    let nv = r.range(1, 4) as usize;
    let gx = gen_grid(r, nx);
    let gy = gen_grid(r, ny);
    let (xs, ys) = (gx.xs(), gy.xs());
    let mut mesh = Mesh2D::<T>::new(Vector::create(xs.clone()), Vector::create(ys.clone()), nv);
    let mut shadow: Vec<Vec<Vec<T>>> = vec![vec![vec![T::zero(); nv]; ny]; nx];
    check_views_2d(&mesh, &xs, &ys, &shadow, nv, "fresh");
    for s in 0..steps {
        let i = match r.below(4) {
            0 => 0,
            1 => nx - 1,
            _ => r.below(nx as u64) as usize,
        };
        let j = match r.below(4) {
            0 => 0,
            1 => ny - 1,
            _ => r.below(ny as u64) as usize,
        };
        match r.below(12) {
            0..=2 => {
                let v: Vec<T> = (0..nv).map(|_| T::from_i(r.range(-999, 999), r.range(-9, 9))).collect();
                mesh.set_nodes_vars(i, j, Vector::create(v.clone()));
                shadow[i][j] = v;
            }
            3..=5 => {
                let var = r.below(nv as u64) as usize;
                let val = T::from_i(r.range(-999, 999), r.range(-9, 9));
                mesh[(i, j)][var] = val;
                shadow[i][j][var] = val;
            }
            6..=7 => {
                let v: Vec<T> = (0..nv).map(|_| T::from_i(r.range(-999, 999), r.range(-9, 9))).collect();
                mesh[(i, j)] = Vector::create(v.clone());
                shadow[i][j] = v;
            }
            8 => {
                let val = T::from_i(r.range(-999, 999), r.range(-9, 9));
                mesh.assign(val);
                for a in 0..nx {
                    for b in 0..ny {
                        for v in 0..nv {
                            shadow[a][b][v] = val;
                        }
                    }
                }
            }
            9 => {
                // apply a function that encodes which node it was called for (index of x, index of y)
                let var = r.below(nv as u64) as usize;
                let xs2 = xs.clone();
                let ys2 = ys.clone();
                let c = r.range(-50, 50);
                let f = move |x: f64, y: f64| -> T {
                    let a = xs2.iter().position(|&q| q == x).expect("apply called with a non-node x") as i64;
                    let b = ys2.iter().position(|&q| q == y).expect("apply called with a non-node y") as i64;
                    T::from_i(a * 100 + b + c, a - b)
                };
                mesh.apply(&f, var);
                for a in 0..nx {
                    for b in 0..ny {
                        shadow[a][b][var] = T::from_i(a as i64 * 100 + b as i64 + c, a as i64 - b as i64);
                    }
                }
            }
            10 => {
                // mutate cross sections / matrix copies: the mesh must not change
                let mut cs = mesh.cross_section_xnode(i);
                cs[0][0] = T::from_i(777777, 7);
                let mut cs2 = mesh.cross_section_ynode(j);
                cs2.set_nodes_vars(0, Vector::create(vec![T::from_i(888888, 8); nv]));
                let mut m = mesh.var_as_matrix(0);
                m[(i, j)] = T::from_i(999999, 9);
            }
            _ => {
                // transposing copy through the getter
                let a = r.below(nx as u64) as usize;
                let b = r.below(ny as u64) as usize;
                let got = mesh.get_nodes_vars(a, b);
                mesh.set_nodes_vars(i, j, got);
                shadow[i][j] = shadow[a][b].clone();
            }
        }
        check_views_2d(&mesh, &xs, &ys, &shadow, nv, &format!("step {s} ({nx}x{ny}x{nv})"));
        tick(1);
    }
}

#[test]
fn storage_histories_1d() {
    let mut r = Rng::new(11);
    for _ in 0..1500 {
        history_1d::<f64>(&mut r, 40);
        history_1d::<Complex<f64>>(&mut r, 40);
        history_1d::<i64>(&mut r, 40);
        history_1d::<i32>(&mut r, 40);
    }
}

#[test]
fn storage_histories_2d() {
    let mut r = Rng::new(12);
    for it in 0..400 {
        let small = it % 2 == 0;
        history_2d::<f64>(&mut r, 30, small);
        history_2d::<Complex<f64>>(&mut r, 30, small);
        history_2d::<i64>(&mut r, 30, small);
    }
}

// exhaustive over all shapes 2..12 x 2..12 with a node-encoding fill: index arithmetic
#[test]
fn storage_all_shapes_2d() {
    for nx in 2..=12usize {
        for ny in 2..=12usize {
            for nv in 1..=4usize {
                let mut r = Rng::new((nx * 1000 + ny * 10 + nv) as u64);
                let gx = gen_grid(&mut r, nx);
                let gy = gen_grid(&mut r, ny);
                let (xs, ys) = (gx.xs(), gy.xs());
                for mode in 0..3 {
                    let mut mesh = Mesh2D::<f64>::new(Vector::create(xs.clone()), Vector::create(ys.clone()), nv);
                    let mut shadow = vec![vec![vec![0.0f64; nv]; ny]; nx];
                    // fill order: row-major, column-major, reverse
                    let mut order: Vec<(usize, usize)> = Vec::new();
                    match mode {
                        0 => for i in 0..nx { for j in 0..ny { order.push((i, j)); } },
                        1 => for j in 0..ny { for i in 0..nx { order.push((i, j)); } },
                        _ => for i in (0..nx).rev() { for j in (0..ny).rev() { order.push((i, j)); } },
                    }
                    for (c, &(i, j)) in order.iter().enumerate() {
                        let v: Vec<f64> = (0..nv).map(|q| (i * 10000 + j * 100 + q) as f64).collect();
                        if c % 2 == 0 {
                            mesh.set_nodes_vars(i, j, Vector::create(v.clone()));
                        } else {
                            for q in 0..nv {
                                mesh[(i, j)][q] = v[q];
                            }
                        }
                        shadow[i][j] = v;
                        if nx * ny <= 16 {
                            check_views_2d(&mesh, &xs, &ys, &shadow, nv, "fill");
                        }
                    }
                    check_views_2d(&mesh, &xs, &ys, &shadow, nv, "filled");
                    tick(1);
                }
            }
        }
    }
}

// ---------------------------------------------------------------- interpolation
fn build_1d(g: &Grid, data: &[Vec<i64>]) -> Mesh1D<f64, f64> {
    // data[v][i]
    let nv = data.len();
    let mut mesh = Mesh1D::<f64, f64>::new(Vector::create(g.xs()), nv);
    for i in 0..g.n() {
        for v in 0..nv {
            mesh[i][v] = data[v][i] as f64;
        }
    }
    mesh
}

static INEXACT_NODE: AtomicU64 = AtomicU64::new(0);
static INEXACT_MID: AtomicU64 = AtomicU64::new(0);
static MAXREL: AtomicU64 = AtomicU64::new(0);
fn note_rel(e: f64) {
    MAXREL.fetch_max(e.to_bits(), Ordering::Relaxed);
}

fn check_interp(g: &Grid, data: &[Vec<i64>], mesh: &Mesh1D<f64, f64>, r: &mut Rng) {
    let n = g.n();
    let nv = data.len();
    let xs = g.xs();
    // at the nodes
    for i in 0..n {
        let got = mesh.get_interpolated_vars(xs[i]);
        assert_eq!(got.size(), nv);
        for v in 0..nv {
            let e = data[v][i] as f64;
            let scale = if i > 0 { e.abs().max((data[v][i - 1] as f64).abs()) } else { e.abs() };
            if got[v] != e {
                INEXACT_NODE.fetch_add(1, Ordering::Relaxed);
                note_rel((got[v] - e).abs() / scale.max(1.0));
            }
            assert!(
                close(got[v], e, scale.max(1.0), 1e-13),
                "node interpolation: grid {:?} data {:?} node {i} var {v}: got {} expected {}",
                g, data[v], got[v], e
            );
        }
        tick(1);
    }
    // mid cells and interior points
    for i in 0..n - 1 {
        let dxk = g.k[i + 1] - g.k[i];
        // mid point is exactly representable: (k_i + k_{i+1}) / 2^(m+1)
        let xm = (g.k[i] + g.k[i + 1]) as f64 / pow2(g.m + 1);
        assert!(xm > xs[i] && xm < xs[i + 1]);
        let got = mesh.get_interpolated_vars(xm);
        for v in 0..nv {
            let (l, rr) = (data[v][i], data[v][i + 1]);
            let e = (l + rr) as f64 / 2.0;
            let scale = (l.abs().max(rr.abs())) as f64;
            if got[v] != e {
                INEXACT_MID.fetch_add(1, Ordering::Relaxed);
                note_rel((got[v] - e).abs() / scale.max(1.0));
            }
            assert!(
                close(got[v], e, scale.max(1.0), 1e-13),
                "mid-cell interpolation: grid {:?} data {:?} cell {i} var {v}: got {} expected {}",
                g, data[v], got[v], e
            );
        }
        tick(1);
        // arbitrary interior positions, >= 1e-6 from all nodes
        let dx = xs[i + 1] - xs[i];
        let mut cands: Vec<f64> = vec![
            xs[i] + 1.0e-6,
            xs[i + 1] - 1.0e-6,
            xs[i] + 1.0000001e-6,
            xs[i + 1] - 1.0000001e-6,
            xs[i] + 2.0e-6,
            xs[i] + dx / 3.0,
            xs[i] + dx * 0.999,
            xs[i] + dx * 0.001,
        ];
        for _ in 0..4 {
            cands.push(xs[i] + dx * r.unit());
        }
        let _ = dxk;
        for &x in &cands {
            if !(x > xs[i] && x < xs[i + 1]) {
                continue;
            }
            if xs.iter().any(|&q| (q - x).abs() < 1.0e-6) {
                continue;
            }
            let got = mesh.get_interpolated_vars(x);
            for v in 0..nv {
                let (l, rr) = (data[v][i] as f64, data[v][i + 1] as f64);
                // independent formula: convex combination
                let t = (x - xs[i]) / dx;
                let e = l * (1.0 - t) + rr * t;
                let scale = l.abs().max(rr.abs());
                assert!(
                    close(got[v], e, scale.max(1.0), 1e-12),
                    "interior interpolation: grid {:?} data {:?} cell {i} x {:e} var {v}: got {} expected {}",
                    g, data[v], x, got[v], e
                );
                // must lie between the neighbours (up to rounding)
                let (lo, hi) = if l < rr { (l, rr) } else { (rr, l) };
                assert!(got[v] >= lo - 1e-9 * scale.max(1.0) && got[v] <= hi + 1e-9 * scale.max(1.0));
            }
            tick(1);
        }
    }
}

#[test]
fn interpolation_random() {
    let mut r = Rng::new(21);
    for it in 0..12000 {
        let n = match it % 6 {
            0 => 2,
            1 => 3,
            2 => 12,
            _ => r.range(2, 12) as usize,
        };
        let nv = r.range(1, 4) as usize;
        let g = gen_grid(&mut r, n);
        let data: Vec<Vec<i64>> = (0..nv).map(|_| gen_data(&mut r, n)).collect();
        let mesh = build_1d(&g, &data);
        check_interp(&g, &data, &mesh, &mut r);
    }
    eprintln!(
        "interpolation: inexact-at-node {} inexact-at-mid {} max rel err {:e}",
        INEXACT_NODE.load(Ordering::Relaxed),
        INEXACT_MID.load(Ordering::Relaxed),
        f64::from_bits(MAXREL.load(Ordering::Relaxed))
    );
}

// linear data: interpolant must be the line everywhere
#[test]
fn interpolation_linear_data() {
    let mut r = Rng::new(22);
    for _ in 0..4000 {
        let n = r.range(2, 12) as usize;
        let g = gen_grid(&mut r, n);
        if g.k.iter().any(|k| k.abs() > (1 << 20)) {
            continue;
        }
        let a = r.range(-100, 100);
        let b = r.range(-20, 20) * (1i64 << g.m); // integer valued at every node
        let d: Vec<i64> = (0..n).map(|i| a + ((b as i128 * g.k[i]) >> g.m) as i64).collect();
        let mesh = build_1d(&g, &[d.clone()]);
        let xs = g.xs();
        for _ in 0..20 {
            let x = xs[0] + (xs[n - 1] - xs[0]) * r.unit();
            if xs.iter().any(|&q| (q - x).abs() < 1.0e-6) {
                continue;
            }
            let got = mesh.get_interpolated_vars(x)[0];
            let e = a as f64 + b as f64 * x;
            let scale = (a as f64).abs() + (b as f64 * x).abs();
            assert!(close(got, e, scale.max(1.0), 1e-12), "linear data: grid {:?} a {a} b {b} x {x:e} got {got} exp {e}", g);
            tick(1);
        }
    }
}

// ---------------------------------------------------------------- quadrature 1-D
#[test]
fn trapezium_1d() {
    let mut r = Rng::new(31);
    for it in 0..40000 {
        let n = match it % 5 {
            0 => 2,
            1 => 12,
            _ => r.range(2, 12) as usize,
        };
        let nv = r.range(1, 4) as usize;
        let g = gen_grid(&mut r, n);
        let data: Vec<Vec<i64>> = (0..nv).map(|_| gen_data(&mut r, n)).collect();
        let mesh = build_1d(&g, &data);
        for v in 0..nv {
            // exact: sum dx_k (f_i + f_{i+1}) / 2^(m+1)
            let mut num: i128 = 0;
            for i in 0..n - 1 {
                num += (g.k[i + 1] - g.k[i]) * (data[v][i] + data[v][i + 1]) as i128;
            }
            let got = mesh.trapezium(v);
            let mut absnum: i128 = 0;
            for i in 0..n - 1 {
                absnum += (g.k[i + 1] - g.k[i]) * ((data[v][i] + data[v][i + 1]) as i128).abs();
            }
            let e = num as f64 / pow2(g.m + 1);
            let scale = absnum as f64 / pow2(g.m + 1);
            if absnum < (1i128 << 52) {
                assert!(got == e, "trapezium exact: grid {:?} data {:?}: got {} expected {}", g, data[v], got, e);
            } else {
                assert!(close(got, e, scale, 1e-13), "trapezium: grid {:?} data {:?}: got {} expected {}", g, data[v], got, e);
            }
            tick(1);
        }
    }
}

#[test]
fn trapezium_1d_linear_exact() {
    let mut r = Rng::new(32);
    for _ in 0..30000 {
        let n = r.range(2, 12) as usize;
        let g = gen_grid(&mut r, n);
        if g.k.iter().any(|k| k.abs() > (1 << 20)) {
            continue;
        }
        let a = r.range(-100, 100) as i128;
        let bb = r.range(-20, 20) as i128; // slope b = bb * 2^m  => f(k 2^-m) = a + bb k
        let d: Vec<i64> = (0..n).map(|i| (a + bb * g.k[i]) as i64).collect();
        let mesh = build_1d(&g, &[d.clone()]);
        let got = mesh.trapezium(0);
        // integral of a + b x from x0 to x1 = a (x1-x0) + b (x1^2 - x0^2)/2
        // x = k 2^-m ; b = bb 2^m : = [ 2 a (k1-k0) + bb (k1^2-k0^2) ] / 2^(m+1)
        let (k0, k1) = (g.k[0], g.k[n - 1]);
        let num = 2 * a * (k1 - k0) + bb * (k1 * k1 - k0 * k0);
        let e = i128_to_f64_exact(num).unwrap() / pow2(g.m + 1);
        assert!(got == e, "linear integrand: grid {:?} a {a} bb {bb}: got {got} expected {e}", g);
        tick(1);
    }
}

// ---------------------------------------------------------------- quadrature 2-D
fn build_2d(gx: &Grid, gy: &Grid, data: &[Vec<Vec<i64>>]) -> Mesh2D<f64> {
    // data[v][i][j]
    let nv = data.len();
    let mut mesh = Mesh2D::<f64>::new(Vector::create(gx.xs()), Vector::create(gy.xs()), nv);
    for i in 0..gx.n() {
        for j in 0..gy.n() {
            for v in 0..nv {
                mesh[(i, j)][v] = data[v][i][j] as f64;
            }
        }
    }
    mesh
}

#[test]
fn trapezium_2d() {
    let mut r = Rng::new(41);
    for it in 0..12000 {
        let (nx, ny) = match it % 6 {
            0 => (2, 2),
            1 => (2, 12),
            2 => (12, 2),
            3 => (12, 12),
            _ => (r.range(2, 12) as usize, r.range(2, 12) as usize),
        };
        let nv = r.range(1, 4) as usize;
        let gx = gen_grid(&mut r, nx);
        let gy = gen_grid(&mut r, ny);
        let data: Vec<Vec<Vec<i64>>> = (0..nv)
            .map(|_| {
                let cls = r.below(4);
                (0..nx)
                    .map(|i| {
                        if cls == 0 {
                            // only one row non-zero / row dependent
                            (0..ny).map(|j| if i == 0 { j as i64 + 1 } else { 0 }).collect()
                        } else if cls == 1 {
                            (0..ny).map(|j| (i * 13 + j) as i64).collect()
                        } else {
                            gen_data(&mut r, ny).into_iter().map(|q| q.clamp(-100000, 100000)).collect()
                        }
                    })
                    .collect()
            })
            .collect();
        let mesh = build_2d(&gx, &gy, &data);
        for v in 0..nv {
            let mut num: i128 = 0;
            let mut absnum: i128 = 0;
            let mut num2: i128 = 0;
            for i in 0..nx - 1 {
                for j in 0..ny - 1 {
                    let w = (gx.k[i + 1] - gx.k[i]) * (gy.k[j + 1] - gy.k[j]);
                    let d = &data[v];
                    let s = (d[i][j] + d[i + 1][j] + d[i][j + 1] + d[i + 1][j + 1]) as i128;
                    let s2 = (d[i][j] as i128).pow(2)
                        + (d[i + 1][j] as i128).pow(2)
                        + (d[i][j + 1] as i128).pow(2)
                        + (d[i + 1][j + 1] as i128).pow(2);
                    num += w * s;
                    absnum += w * s.abs();
                    num2 += w * s2;
                }
            }
            let den = pow2(gx.m + gy.m + 2);
            let got = mesh.trapezium(v);
            let e = num as f64 / den;
            if absnum < (1i128 << 52) {
                assert!(got == e, "2-D trapezium exact: gx {:?} gy {:?} data {:?}: got {} expected {}", gx, gy, data[v], got, e);
            } else {
                assert!(close(got, e, absnum as f64 / den, 1e-13), "2-D trapezium: gx {:?} gy {:?}: got {} expected {}", gx, gy, got, e);
            }
            let got2 = mesh.square_trapezium(v);
            let e2 = num2 as f64 / den;
            if num2 < (1i128 << 52) {
                assert!(got2 == e2, "2-D square_trapezium exact: gx {:?} gy {:?} data {:?}: got {} expected {}", gx, gy, data[v], got2, e2);
            } else {
                assert!(close(got2, e2, e2, 1e-13), "2-D square_trapezium: gx {:?} gy {:?}: got {} expected {}", gx, gy, got2, e2);
            }
            // 2-D trapezium must agree with iterated 1-D trapezium of cross-sections
            let mut inner = Vec::new();
            for i in 0..nx {
                inner.push(mesh.cross_section_xnode(i).trapezium(v));
            }
            let mut outer = 0.0;
            let xs = gx.xs();
            for i in 0..nx - 1 {
                outer += 0.5 * (xs[i + 1] - xs[i]) * (inner[i] + inner[i + 1]);
            }
            assert!(close(outer, e, (absnum as f64 / den).max(1.0), 1e-12), "iterated trapezium mismatch {outer} vs {e}");
            tick(2);
        }
    }
}

#[test]
fn trapezium_2d_bilinear_exact() {
    let mut r = Rng::new(42);
    for _ in 0..12000 {
        let nx = r.range(2, 12) as usize;
        let ny = r.range(2, 12) as usize;
        let gx = gen_grid(&mut r, nx);
        let gy = gen_grid(&mut r, ny);
        if gx.k.iter().chain(gy.k.iter()).any(|k| k.abs() > (1 << 16)) {
            continue;
        }
        // f(x,y) = a + b x + c y + d x y with b = B 2^mx, c = C 2^my, d = D 2^(mx+my): integer at nodes
        let (a, b, c, d) = (
            r.range(-50, 50) as i128,
            r.range(-9, 9) as i128,
            r.range(-9, 9) as i128,
            r.range(-5, 5) as i128,
        );
        let f = |kx: i128, ky: i128| a + b * kx + c * ky + d * kx * ky;
        let data: Vec<Vec<i64>> = (0..nx).map(|i| (0..ny).map(|j| f(gx.k[i], gy.k[j]) as i64).collect()).collect();
        let mesh = build_2d(&gx, &gy, &[data.clone()]);
        // also through apply
        let mut mesh_b = Mesh2D::<f64>::new(Vector::create(gx.xs()), Vector::create(gy.xs()), 2);
        let (sx, sy) = (pow2(gx.m), pow2(gy.m));
        let (af, bf, cf, df) = (a as f64, b as f64 * sx, c as f64 * sy, d as f64 * sx * sy);
        mesh_b.apply(&|x, y| af + bf * x + cf * y + df * x * y, 1);
        let (x0, x1, y0, y1) = (gx.k[0], gx.k[nx - 1], gy.k[0], gy.k[ny - 1]);
        let (lx, ly) = (x1 - x0, y1 - y0);
        let (qx, qy) = (x1 * x1 - x0 * x0, y1 * y1 - y0 * y0);
        // integral * 2^(mx+my) * 4
        let num = 4 * a * lx * ly + 2 * b * qx * ly + 2 * c * lx * qy + d * qx * qy;
        let e = num as f64 / pow2(gx.m + gy.m + 2);
        let got = mesh.trapezium(0);
        assert!(close(got, e, e.abs().max(1.0), 1e-13), "bilinear integrand: gx {:?} gy {:?} abcd {a} {b} {c} {d}: got {got} expected {e}", gx, gy);
        let got_b = mesh_b.trapezium(1);
        assert!(close(got_b, e, e.abs().max(1.0), 1e-12), "bilinear integrand via apply: got {got_b} expected {e}");
        assert_eq!(mesh_b.trapezium(0), 0.0);
        for i in 0..nx {
            for j in 0..ny {
                assert_eq!(mesh_b[(i, j)][1], data[i][j] as f64, "apply value at ({i},{j})");
                assert_eq!(mesh_b[(i, j)][0], 0.0);
            }
        }
        tick(2);
    }
}

// ---------------------------------------------------------------- file round trip
fn tmpfile(tag: &str, id: u64) -> String {
    let mut p = std::env::temp_dir();
    p.push(format!("c19_hunt_{}_{}_{}.dat", std::process::id(), tag, id));
    p.to_string_lossy().into_owned()
}

#[test]
fn file_round_trip() {
    let mut r = Rng::new(51);
    for it in 0..6000u64 {
        let n = match it % 5 {
            0 => 2,
            1 => 12,
            _ => r.range(2, 12) as usize,
        };
        let nv = r.range(1, 4) as usize;
        let g = gen_grid(&mut r, n);
        let data: Vec<Vec<i64>> = (0..nv).map(|_| gen_data(&mut r, n)).collect();
        let mesh = build_1d(&g, &data);
        let prec = match r.below(6) {
            0 => 0usize,
            1 => 1,
            2 => 3,
            3 => 9,
            4 => 17,
            _ => r.below(20) as usize,
        };
        let fname = tmpfile("rt", it % 8);
        mesh.output(&fname, prec);
        // target mesh: same nvars, different history (fewer / more / equal nodes, junk contents)
        let n2 = match r.below(4) {
            0 => n,
            1 => 2,
            2 => 12,
            _ => r.range(2, 12) as usize,
        };
        let g2 = gen_grid(&mut r, n2);
        let mut target = Mesh1D::<f64, f64>::new(Vector::create(g2.xs()), nv);
        for i in 0..n2 {
            for v in 0..nv {
                target[i][v] = 4242.0 + i as f64;
            }
        }
        target.read(&fname);
        assert_eq!(target.nnodes(), n, "round trip: nnodes (prec {prec}, n {n}, n2 {n2})");
        assert_eq!(target.nvars(), nv);
        let tol = 0.5 * 10f64.powi(-(prec as i32)) * (1.0 + 1e-9);
        let xs = g.xs();
        for i in 0..n {
            let slack = xs[i].abs() * 2.3e-16;
            assert!(
                (target.coord(i) - xs[i]).abs() <= tol + slack,
                "round trip node {i}: {} vs {} prec {prec}", target.coord(i), xs[i]
            );
            assert!((target.nodes()[i] - xs[i]).abs() <= tol + slack);
            let gv = target.get_nodes_vars(i);
            assert_eq!(gv.size(), nv);
            for v in 0..nv {
                // integers print exactly at any precision
                assert_eq!(target[i][v], data[v][i] as f64, "round trip var {v} node {i} prec {prec}");
                assert_eq!(gv[v], data[v][i] as f64);
            }
        }
        // with enough digits the dyadic nodes (m <= 9 => at most 9 decimals) are reproduced exactly
        if prec >= 9 {
            for i in 0..n {
                assert_eq!(target.coord(i), xs[i], "exact node round trip, prec {prec}");
            }
            // and the rebuilt mesh behaves identically
            for v in 0..nv {
                assert_eq!(target.trapezium(v), mesh.trapezium(v));
            }
            let xm = 0.5 * (xs[0] + xs[1]);
            let a = target.get_interpolated_vars(xm);
            let b = mesh.get_interpolated_vars(xm);
            for v in 0..nv {
                assert_eq!(a[v], b[v]);
            }
        }
        // history: write again from the rebuilt mesh, read into the original: fixed point
        let fname2 = tmpfile("rt2", it % 8);
        target.output(&fname2, prec);
        let mut again = Mesh1D::<f64, f64>::new(Vector::create(vec![0.0, 1.0]), nv);
        again.read(&fname2);
        assert_eq!(again.nnodes(), n);
        for i in 0..n {
            assert!((again.coord(i) - target.coord(i)).abs() <= tol + xs[i].abs() * 2.3e-16);
            for v in 0..nv {
                assert_eq!(again[i][v], target[i][v]);
            }
        }
        // node writes after a read still land where they should
        let node = r.below(n as u64) as usize;
        again.set_nodes_vars(node, Vector::create(vec![5.0; nv]));
        for i in 0..n {
            for v in 0..nv {
                let e = if i == node { 5.0 } else { data[v][i] as f64 };
                assert_eq!(again[i][v], e);
                assert_eq!(again.get_nodes_vars(i)[v], e);
            }
        }
        tick(3);
    }
    for id in 0..8 {
        let _ = std::fs::remove_file(tmpfile("rt", id));
        let _ = std::fs::remove_file(tmpfile("rt2", id));
    }
}

// ---------------------------------------------------------------- interpolation on the mesh after histories
#[test]
fn interpolation_after_writes() {
    let mut r = Rng::new(61);
    for _ in 0..3000 {
        let n = r.range(2, 12) as usize;
        let nv = r.range(1, 4) as usize;
        let g = gen_grid(&mut r, n);
        let mut data: Vec<Vec<i64>> = (0..nv).map(|_| gen_data(&mut r, n)).collect();
        let mut mesh = build_1d(&g, &data);
        for _ in 0..5 {
            let node = r.below(n as u64) as usize;
            let nvv: Vec<i64> = (0..nv).map(|_| r.range(-1000, 1000)).collect();
            mesh.set_nodes_vars(node, Vector::create(nvv.iter().map(|&q| q as f64).collect()));
            for v in 0..nv {
                data[v][node] = nvv[v];
            }
            check_interp(&g, &data, &mesh, &mut r);
        }
    }
}

// 2-D text output (side check of one more read-only access path): j outer, i inner, "x y v0 v1 .."
#[test]
fn output_2d_layout() {
    let mut r = Rng::new(71);
    for it in 0..1500u64 {
        let nx = r.range(2, 12) as usize;
        let ny = r.range(2, 12) as usize;
        let nv = r.range(1, 4) as usize;
        let gx = gen_grid(&mut r, nx);
        let gy = gen_grid(&mut r, ny);
        let data: Vec<Vec<Vec<i64>>> = (0..nv)
            .map(|_| (0..nx).map(|_| gen_data(&mut r, ny).into_iter().map(|q| q.clamp(-100000, 100000)).collect()).collect())
            .collect();
        let mesh = build_2d(&gx, &gy, &data);
        let fname = tmpfile("o2", it % 4);
        mesh.output(&fname, 10);
        let txt = std::fs::read_to_string(&fname).unwrap();
        let toks: Vec<f64> = txt.split_whitespace().map(|t| t.parse().unwrap()).collect();
        assert_eq!(toks.len(), nx * ny * (nv + 2));
        let (xs, ys) = (gx.xs(), gy.xs());
        let mut p = 0;
        for j in 0..ny {
            for i in 0..nx {
                assert_eq!(toks[p], xs[i]);
                assert_eq!(toks[p + 1], ys[j]);
                for v in 0..nv {
                    assert_eq!(toks[p + 2 + v], data[v][i][j] as f64);
                }
                p += nv + 2;
            }
        }
        let var = r.below(nv as u64) as usize;
        mesh.output_var(&fname, var, 10);
        let txt = std::fs::read_to_string(&fname).unwrap();
        let toks: Vec<f64> = txt.split_whitespace().map(|t| t.parse().unwrap()).collect();
        assert_eq!(toks.len(), nx * ny * 3);
        let mut p = 0;
        for j in 0..ny {
            for i in 0..nx {
                assert_eq!(toks[p], xs[i]);
                assert_eq!(toks[p + 1], ys[j]);
                assert_eq!(toks[p + 2], data[var][i][j] as f64);
                p += 3;
            }
        }
        tick(2);
    }
    for id in 0..4 {
        let _ = std::fs::remove_file(tmpfile("o2", id));
    }
}

// integer node type: storage only
#[test]
fn storage_integer_nodes_1d() {
    let mut r = Rng::new(81);
    for _ in 0..3000 {
        let n = r.range(2, 12) as usize;
        let nv = r.range(1, 4) as usize;
        let g = gen_grid(&mut r, n);
        let ks: Vec<i64> = g.k.iter().map(|&k| k as i64).collect();
        let mut mesh = Mesh1D::<i64, i64>::new(Vector::create(ks.clone()), nv);
        let mut shadow = vec![vec![0i64; nv]; n];
        for _ in 0..20 {
            let node = r.below(n as u64) as usize;
            let var = r.below(nv as u64) as usize;
            if r.below(2) == 0 {
                let val = r.range(-99, 99);
                mesh[node][var] = val;
                shadow[node][var] = val;
            } else {
                let v: Vec<i64> = (0..nv).map(|_| r.range(-99, 99)).collect();
                mesh.set_nodes_vars(node, Vector::create(v.clone()));
                shadow[node] = v;
            }
            assert_eq!(mesh.nnodes(), n);
            for i in 0..n {
                assert_eq!(mesh.coord(i), ks[i]);
                assert_eq!(mesh.nodes()[i], ks[i]);
                assert!(veq(&mesh.get_nodes_vars(i), &shadow[i]));
                assert!(veq(&mesh[i], &shadow[i]));
            }
            tick(1);
        }
    }
}

// Side remark search (NOT a finding): smallest data for which the value returned exactly at the LAST node differs
// from the stored one (the last node is evaluated as left + (right-left)/dx*dx).
#[test]
fn zz_remark_last_node_rounding() {
    let mut best: Option<(f64, i64, i64, f64)> = None;
    for kk in [3i64, 5, 6, 7, 9, 11, 13] {
        let dx = kk as f64 / 512.0;
        for l in -40i64..=40 {
            for rr in -40i64..=40 {
                let mut mesh = Mesh1D::<f64, f64>::new(Vector::create(vec![0.0, dx]), 1);
                mesh[0][0] = l as f64;
                mesh[1][0] = rr as f64;
                let got = mesh.get_interpolated_vars(dx)[0];
                if got != rr as f64 {
                    let cost = (l.abs() + rr.abs()) as f64;
                    if best.map_or(true, |b| cost < (b.1.abs() + b.2.abs()) as f64) {
                        best = Some((dx, l, rr, got));
                    }
                }
            }
        }
    }
    eprintln!("remark: last-node rounding example (dx, left, right, got) = {:?}", best);
}

#[test]
fn zz_report() {
    // not a guarantee of ordering; just prints whatever has been counted so far
    eprintln!("cases so far: {}", CASES.load(Ordering::Relaxed));
}
