// Adversarial property hunt for C04: a banded matrix behaves exactly like the dense matrix with the same band.
// Public API only. Own exact rational type, own generators, own dense oracles.
#![allow(clippy::needless_range_loop)]

use ohsl::{Banded, Complex, Number, One, Signed, Vector, Zero};
use std::cell::Cell;
use std::fmt::Debug;
use std::ops::{Add, AddAssign, Div, DivAssign, Mul, MulAssign, Neg, Sub, SubAssign};
use std::panic::{catch_unwind, AssertUnwindSafe};

// ---------------------------------------------------------------------------------------------
// exact rationals on i128 (overflow sets a thread-local flag; the case is then discarded)
// ---------------------------------------------------------------------------------------------
thread_local! { static OVF: Cell<bool> = Cell::new(false); }
fn ovf() {
    OVF.with(|c| c.set(true));
}
fn take_ovf() -> bool {
    OVF.with(|c| c.replace(false))
}

#[derive(Clone, Copy, Debug)]
struct Q {
    n: i128,
    d: i128,
}
fn gcd(a: i128, b: i128) -> i128 {
    let (mut a, mut b) = (a.abs(), b.abs());
    while b != 0 {
        let t = a % b;
        a = b;
        b = t;
    }
    a
}
impl Q {
    fn new(n: i128, d: i128) -> Q {
        if d == 0 {
            panic!("Q: division by zero");
        }
        if n == i128::MIN || d == i128::MIN {
            ovf();
            return Q { n: 0, d: 1 };
        }
        let g = gcd(n, d);
        let (mut n, mut d) = (n / g, d / g);
        if d < 0 {
            n = -n;
            d = -d;
        }
        Q { n, d }
    }
    fn int(n: i128) -> Q {
        Q { n, d: 1 }
    }
    fn bad() -> Q {
        ovf();
        Q { n: 0, d: 1 }
    }
    fn to_f64(self) -> f64 {
        self.n as f64 / self.d as f64
    }
}
impl PartialEq for Q {
    fn eq(&self, o: &Q) -> bool {
        self.n == o.n && self.d == o.d
    }
}
impl PartialOrd for Q {
    fn partial_cmp(&self, o: &Q) -> Option<std::cmp::Ordering> {
        match (self.n.checked_mul(o.d), o.n.checked_mul(self.d)) {
            (Some(a), Some(b)) => a.partial_cmp(&b),
            _ => {
                ovf();
                Some(std::cmp::Ordering::Equal)
            }
        }
    }
}
impl Add for Q {
    type Output = Q;
    fn add(self, o: Q) -> Q {
        let g = gcd(self.d, o.d);
        let a = self.n.checked_mul(o.d / g);
        let b = o.n.checked_mul(self.d / g);
        let d = (self.d / g).checked_mul(o.d);
        match (a, b, d) {
            (Some(a), Some(b), Some(d)) => match a.checked_add(b) {
                Some(n) => Q::new(n, d),
                None => Q::bad(),
            },
            _ => Q::bad(),
        }
    }
}
impl Neg for Q {
    type Output = Q;
    fn neg(self) -> Q {
        Q { n: -self.n, d: self.d }
    }
}
impl Sub for Q {
    type Output = Q;
    fn sub(self, o: Q) -> Q {
        self + (-o)
    }
}
impl Mul for Q {
    type Output = Q;
    fn mul(self, o: Q) -> Q {
        if self.n == 0 || o.n == 0 {
            return Q::int(0);
        }
        let g1 = gcd(self.n, o.d);
        let g2 = gcd(o.n, self.d);
        let n = (self.n / g1).checked_mul(o.n / g2);
        let d = (self.d / g2).checked_mul(o.d / g1);
        match (n, d) {
            (Some(n), Some(d)) => Q::new(n, d),
            _ => Q::bad(),
        }
    }
}
impl Div for Q {
    type Output = Q;
    fn div(self, o: Q) -> Q {
        if o.n == 0 {
            panic!("Q: division by zero");
        }
        let r = if o.n < 0 { Q { n: -o.d, d: -o.n } } else { Q { n: o.d, d: o.n } };
        self * r
    }
}
impl AddAssign for Q {
    fn add_assign(&mut self, o: Q) {
        *self = *self + o;
    }
}
impl SubAssign for Q {
    fn sub_assign(&mut self, o: Q) {
        *self = *self - o;
    }
}
impl MulAssign for Q {
    fn mul_assign(&mut self, o: Q) {
        *self = *self * o;
    }
}
impl DivAssign for Q {
    fn div_assign(&mut self, o: Q) {
        *self = *self / o;
    }
}
impl Zero for Q {
    fn zero() -> Q {
        Q::int(0)
    }
}
impl One for Q {
    fn one() -> Q {
        Q::int(1)
    }
}
impl Number for Q {}
impl Signed for Q {
    fn abs(&self) -> Q {
        Q { n: self.n.abs(), d: self.d }
    }
}

// ---------------------------------------------------------------------------------------------
// generator
// ---------------------------------------------------------------------------------------------
struct Rng(u64);
impl Rng {
    fn next(&mut self) -> u64 {
        let mut x = self.0;
        x ^= x >> 12;
        x ^= x << 25;
        x ^= x >> 27;
        self.0 = x;
        x.wrapping_mul(0x2545F4914F6CDD1D)
    }
    fn below(&mut self, n: u64) -> u64 {
        (self.next() >> 11) % n
    }
    fn range(&mut self, lo: i64, hi: i64) -> i64 {
        lo + self.below((hi - lo + 1) as u64) as i64
    }
    fn nz(&mut self, lo: i64, hi: i64) -> i64 {
        loop {
            let v = self.range(lo, hi);
            if v != 0 {
                return v;
            }
        }
    }
    fn sign(&mut self) -> i64 {
        if self.below(2) == 0 {
            1
        } else {
            -1
        }
    }
}

// scalar spec: p/q * 2^e
#[derive(Clone, Copy, Debug, PartialEq)]
struct S1 {
    p: i64,
    q: i64,
    e: i32,
}
impl S1 {
    fn int(p: i64) -> S1 {
        S1 { p, q: 1, e: 0 }
    }
    fn pow2(p: i64, e: i32) -> S1 {
        S1 { p, q: 1, e }
    }
    fn is_int(&self) -> bool {
        self.q == 1 && self.e == 0
    }
    fn f(&self) -> f64 {
        (self.p as f64 / self.q as f64) * 2f64.powi(self.e)
    }
}
// entry spec: sel 0: (a,0)   1: (0,a)   2: (a,b)     (real types always use a)
#[derive(Clone, Copy, Debug, PartialEq)]
struct S {
    a: S1,
    b: S1,
    sel: u8,
}
impl S {
    fn real(a: S1) -> S {
        S { a, b: S1::int(0), sel: 0 }
    }
}

trait Elem: Copy + Number + Signed + PartialOrd + Debug + 'static {
    const EXACT: bool;
    const NAME: &'static str;
    fn mk(s: S) -> Self;
    fn mag(&self) -> f64;
    fn finite(&self) -> bool;
    fn nan() -> Option<Self>;
}
impl Elem for Q {
    const EXACT: bool = true;
    const NAME: &'static str = "Q";
    fn mk(s: S) -> Q {
        let mut a = s.a;
        if a.e == -53 {
            a = S1 { p: a.p % 997, q: 64, e: 0 };
        } else if a.e.abs() > 12 {
            // keep "tiny"/"huge" entries representable through a 10-step elimination on i128
            a.e = a.e.signum() * (8 + a.e.abs() / 40).min(16);
        }
        if a.e >= 0 {
            if a.e > 60 {
                return Q::bad();
            }
            Q::new((a.p as i128) << a.e, a.q as i128)
        } else {
            if a.e < -60 {
                return Q::bad();
            }
            Q::new(a.p as i128, (a.q as i128) << (-a.e))
        }
    }
    fn mag(&self) -> f64 {
        self.to_f64().abs()
    }
    fn finite(&self) -> bool {
        true
    }
    fn nan() -> Option<Q> {
        None
    }
}
impl Elem for f64 {
    const EXACT: bool = false;
    const NAME: &'static str = "f64";
    fn mk(s: S) -> f64 {
        s.a.f()
    }
    fn mag(&self) -> f64 {
        f64::abs(*self)
    }
    fn finite(&self) -> bool {
        self.is_finite()
    }
    fn nan() -> Option<f64> {
        Some(f64::NAN)
    }
}
type C = Complex<f64>;
impl Elem for C {
    const EXACT: bool = false;
    const NAME: &'static str = "Complex<f64>";
    fn mk(mut s: S) -> C {
        s.a.e = s.a.e.clamp(-100, 100);
        s.b.e = s.b.e.clamp(-100, 100);
        match s.sel {
            0 => C::new(s.a.f(), 0.0),
            1 => C::new(0.0, s.a.f()),
            _ => C::new(s.a.f(), s.b.f()),
        }
    }
    fn mag(&self) -> f64 {
        self.real.hypot(self.imag)
    }
    fn finite(&self) -> bool {
        self.real.is_finite() && self.imag.is_finite()
    }
    fn nan() -> Option<C> {
        Some(C::new(f64::NAN, f64::NAN))
    }
}

// ---------------------------------------------------------------------------------------------
// matrix specs
// ---------------------------------------------------------------------------------------------
#[derive(Clone, Debug)]
struct MSpec {
    n: usize,
    m1: usize,
    m2: usize,
    a: Vec<Vec<S>>, // n x n, out-of-band entries ignored
    pad: S,
    x: Vec<S>,
    rhs: Vec<S>,
    class: usize,
}
fn in_band(i: usize, j: usize, m1: usize, m2: usize) -> bool {
    !(j > i + m2 || i > j + m1)
}

const NCLASS: usize = 14;

fn gen_real(class: usize, r: &mut Rng, n: usize, m1: usize, m2: usize) -> Vec<Vec<S1>> {
    let z = S1::int(0);
    let mut a = vec![vec![z; n]; n];
    let tiny_e: i32 = [-20, -40, -60, -100, -30, -300, -480][r.below(7) as usize];
    let zp = r.below(3);
    for i in 0..n {
        for j in 0..n {
            if !in_band(i, j, m1, m2) {
                // garbage outside the band in the spec: must be ignored by the builder
                continue;
            }
            let v = match class {
                0 => S1::int(r.range(-5, 5)),
                1 => {
                    if r.below(3) <= zp {
                        z
                    } else {
                        S1::int(r.range(-5, 5))
                    }
                }
                2 => S1::int(r.sign()),
                3 => {
                    if i == j {
                        S1::int(-r.range(1, 5))
                    } else {
                        S1::int(r.range(0, 5))
                    }
                }
                4 => {
                    if i == j {
                        z
                    } else if i == j + 1 || j == i + 1 {
                        S1::int(r.nz(-5, 5))
                    } else if r.below(2) == 0 {
                        z
                    } else {
                        S1::int(r.range(-3, 3))
                    }
                }
                5 => {
                    if i > j {
                        if i == j + 1 || r.below(2) == 0 {
                            S1::pow2(r.range(1, 3), tiny_e)
                        } else {
                            z
                        }
                    } else if i == j {
                        match r.below(3) {
                            0 => z,
                            1 => S1::pow2(r.sign(), tiny_e - 3),
                            _ => S1::int(r.range(-2, 2)),
                        }
                    } else {
                        S1::int(r.range(-4, 4))
                    }
                }
                6 => {
                    if i == j + m1 && m1 > 0 {
                        S1::int(r.sign() * r.range(8, 9))
                    } else {
                        S1::int(r.range(-2, 2))
                    }
                }
                7 => { let w = if n % 2 == 0 { 20 } else { 45 }; S1::pow2(r.sign() * r.range(1, 3), r.range(-w, w) as i32) }
                8 => {
                    if r.below(2) == 0 {
                        // full 53-bit mantissa in (-1,1)
                        S1 { p: r.sign() * (r.below(1u64 << 53) as i64), q: 1, e: -53 }
                    } else {
                        S1 { p: r.range(-9, 9), q: r.range(1, 2), e: 0 }
                    }
                }
                9 => z, // filled below (signed permutation)
                10 => z, // filled below (Toeplitz)
                11 => {
                    if i == j {
                        S1::int(1)
                    } else if i > j {
                        S1::int(-1)
                    } else if j == (i + m2).min(n - 1) {
                        S1::int(1)
                    } else {
                        z
                    }
                }
                12 => {
                    if i == j {
                        S1::int(-(2 * (m1 + m2) as i64 * 3 + r.range(1, 3)))
                    } else {
                        S1::int(r.range(-3, 3))
                    }
                }
                13 => {
                    // clustered / repeated values, exact ties between diagonal and sub-diagonals
                    let base = 1 + (i as i64 % 2);
                    S1::int(r.sign() * base)
                }
                _ => unreachable!(),
            };
            a[i][j] = v;
        }
    }
    if class == 9 {
        // signed permutation that stays within the band: disjoint transpositions (i, i+d)
        let mut used = vec![false; n];
        let mut perm: Vec<usize> = (0..n).collect();
        let dmax = m1.min(m2);
        for i in 0..n {
            if used[i] || dmax == 0 {
                continue;
            }
            let d = 1 + r.below(dmax as u64) as usize;
            if i + d < n && !used[i + d] && r.below(3) != 0 {
                perm.swap(i, i + d);
                used[i] = true;
                used[i + d] = true;
            }
        }
        for i in 0..n {
            a[i][perm[i]] = S1::int(r.nz(-5, 5));
        }
        // optionally some noise strictly above
        if r.below(2) == 0 {
            for i in 0..n {
                for j in i + 1..n {
                    if in_band(i, j, m1, m2) && a[i][j] == z && r.below(3) == 0 {
                        a[i][j] = S1::int(r.range(-2, 2));
                    }
                }
            }
        }
    }
    if class == 10 {
        let mut bands = vec![0i64; m1 + m2 + 1];
        for b in bands.iter_mut() {
            *b = r.range(-4, 4);
        }
        if m1 == m2 && r.below(2) == 0 {
            for k in 0..m1 {
                bands[m1 + m2 - k] = bands[k];
            }
        }
        for i in 0..n {
            for j in 0..n {
                if in_band(i, j, m1, m2) {
                    a[i][j] = S1::int(bands[m1 + j - i]);
                }
            }
        }
    }
    a
}

fn gen_spec(class: usize, r: &mut Rng, n: usize, m1: usize, m2: usize) -> MSpec {
    let ra = gen_real(class, r, n, m1, m2);
    let rb = gen_real(class, r, n, m1, m2);
    let mode = r.below(4);
    let mut a = vec![vec![S::real(S1::int(0)); n]; n];
    for i in 0..n {
        for j in 0..n {
            let sel = match mode {
                0 => 0,
                1 => 1,
                2 => 2,
                _ => r.below(2) as u8,
            };
            a[i][j] = S { a: ra[i][j], b: rb[i][j], sel };
            if !in_band(i, j, m1, m2) {
                // poison the out-of-band spec: builder must never look at it
                a[i][j] = S::real(S1::int(99));
            }
        }
    }
    let pad = match r.below(5) {
        0 => S::real(S1::int(0)),
        1 => S { a: S1::int(r.nz(-9, 9)), b: S1::int(r.range(-9, 9)), sel: 2 },
        2 => S::real(S1::int(12345)),
        3 => S { a: S1::pow2(r.sign(), 40), b: S1::pow2(1, 40), sel: 2 },
        _ => S { a: S1::pow2(r.sign(), -40), b: S1::int(1), sel: 2 },
    };
    let vecs = |r: &mut Rng| -> Vec<S> {
        let k = r.below(4);
        (0..n)
            .map(|i| {
                let a = match k {
                    0 => S1::int(r.range(-5, 5)),
                    1 => S1::int(if i == 0 { 1 } else { 0 }),
                    2 => S1 { p: r.range(-9, 9), q: r.range(1, 2), e: 0 },
                    _ => S1::int(if i + 1 == n { r.nz(-3, 3) } else { r.range(-1, 1) }),
                };
                S { a, b: S1::int(r.range(-3, 3)), sel: if r.below(2) == 0 { 0 } else { 2 } }
            })
            .collect()
    };
    let x = vecs(r);
    let rhs = vecs(r);
    MSpec { n, m1, m2, a, pad, x, rhs, class }
}

fn env_seed() -> u64 {
    std::env::var("HUNT_SEED").ok().and_then(|s| s.parse::<u64>().ok()).map(|v| v.wrapping_mul(0x9E3779B97F4A7C15)).unwrap_or(0)
}
fn selftest() -> u32 {
    std::env::var("HUNT_SELFTEST").ok().and_then(|s| s.parse::<u32>().ok()).unwrap_or(0)
}
fn build<T: Elem>(ms: &MSpec, pad: T, how: u64) -> (Banded<T>, Vec<Vec<T>>) {
    let (b, mut d) = build0::<T>(ms, pad, how);
    // harness self-test: a deliberately wrong dense model must be noticed
    match selftest() {
        1 => { let n = ms.n; d[n - 1][n - 1] = -d[n - 1][n - 1]; }
        2 => { if ms.n > 1 && ms.m1 > 0 { let t = d[1][0]; d[1][0] = t + t; } }
        _ => {}
    }
    (b, d)
}
fn build0<T: Elem>(ms: &MSpec, pad: T, how: u64) -> (Banded<T>, Vec<Vec<T>>) {
    let (n, m1, m2) = (ms.n, ms.m1, ms.m2);
    let mut b = Banded::<T>::new(n, m1, m2, pad);
    let mut d = vec![vec![T::zero(); n]; n];
    if how == 1 {
        // go through fill_band first (fills whole compact columns, then overwritten)
        for k in -(m1 as isize)..=(m2 as isize) {
            b.fill_band(k, pad);
        }
    }
    if how == 2 {
        // build through resize from empty, then re-pad via fill
        b = Banded::<T>::empty();
        b.resize(n, m1, m2);
        b.fill(pad);
    }
    let order_rev = how == 3;
    for ii in 0..n {
        let i = if order_rev { n - 1 - ii } else { ii };
        for j in 0..n {
            if in_band(i, j, m1, m2) {
                let v = T::mk(ms.a[i][j]);
                b[(i, j)] = v;
                d[i][j] = v;
            }
        }
    }
    (b, d)
}

// ---------------------------------------------------------------------------------------------
// oracles
// ---------------------------------------------------------------------------------------------
// dense Gaussian elimination with row exchanges by magnitude, written independently
fn dense_ge<T: Elem>(a: &[Vec<T>], b: &[T]) -> (T, Option<Vec<T>>) {
    let n = a.len();
    let mut m: Vec<Vec<T>> = a.to_vec();
    let mut x: Vec<T> = b.to_vec();
    let mut det = T::one();
    let mut singular = false;
    for k in 0..n {
        let mut p = k;
        let mut best = m[k][k].mag();
        for i in k + 1..n {
            let g = m[i][k].mag();
            if g > best {
                best = g;
                p = i;
            }
        }
        if m[p][k] == T::zero() {
            // try any nonzero (for exact types mag may underflow to 0.0 in f64)
            let mut found = false;
            for i in k..n {
                if m[i][k] != T::zero() {
                    p = i;
                    found = true;
                    break;
                }
            }
            if !found {
                singular = true;
                break;
            }
        }
        if p != k {
            m.swap(p, k);
            x.swap(p, k);
            det = -det;
        }
        let piv = m[k][k];
        det = det * piv;
        for i in k + 1..n {
            if m[i][k] == T::zero() {
                continue;
            }
            let f = m[i][k] / piv;
            for j in k..n {
                let t = m[k][j];
                m[i][j] = m[i][j] - f * t;
            }
            let t = x[k];
            x[i] = x[i] - f * t;
        }
    }
    if singular {
        return (T::zero(), None);
    }
    for k in (0..n).rev() {
        let mut s = x[k];
        for j in k + 1..n {
            s = s - m[k][j] * x[j];
        }
        x[k] = s / m[k][k];
    }
    (det, Some(x))
}

// fraction-free (Bareiss) determinant of an integer matrix
fn bareiss(a: &[Vec<i128>]) -> i128 {
    let n = a.len();
    let mut m: Vec<Vec<i128>> = a.to_vec();
    let mut sign = 1i128;
    let mut prev = 1i128;
    for k in 0..n.saturating_sub(1) {
        if m[k][k] == 0 {
            let mut p = None;
            for i in k + 1..n {
                if m[i][k] != 0 {
                    p = Some(i);
                    break;
                }
            }
            match p {
                None => return 0,
                Some(i) => {
                    m.swap(i, k);
                    sign = -sign;
                }
            }
        }
        for i in k + 1..n {
            for j in k + 1..n {
                m[i][j] = (m[i][j] * m[k][k] - m[i][k] * m[k][j]) / prev;
            }
        }
        prev = m[k][k];
    }
    sign * m[n - 1][n - 1]
}

fn int_matrix(ms: &MSpec) -> Option<Vec<Vec<i128>>> {
    // integer view of the REAL part (what real element types see)
    let n = ms.n;
    let mut m = vec![vec![0i128; n]; n];
    for i in 0..n {
        for j in 0..n {
            if in_band(i, j, ms.m1, ms.m2) {
                if !ms.a[i][j].a.is_int() {
                    return None;
                }
                m[i][j] = ms.a[i][j].a.p as i128;
            }
        }
    }
    Some(m)
}

fn matvec_dense<T: Elem>(d: &[Vec<T>], x: &[T]) -> Vec<T> {
    let n = d.len();
    (0..n)
        .map(|i| {
            let mut s = T::zero();
            for j in 0..n {
                s = s + d[i][j] * x[j];
            }
            s
        })
        .collect()
}
fn norm_inf_mat<T: Elem>(d: &[Vec<T>]) -> f64 {
    d.iter().map(|r| r.iter().map(|v| v.mag()).sum::<f64>()).fold(0.0, f64::max)
}
fn norm_inf<T: Elem>(v: &[T]) -> f64 {
    v.iter().map(|v| v.mag()).fold(0.0, f64::max)
}
fn hadamard<T: Elem>(d: &[Vec<T>]) -> f64 {
    d.iter().map(|r| r.iter().map(|v| v.mag() * v.mag()).sum::<f64>().sqrt()).product()
}
fn backward_error<T: Elem>(d: &[Vec<T>], x: &[T], b: &[T]) -> f64 {
    if x.iter().any(|v| !v.finite()) {
        return f64::INFINITY;
    }
    let ax = matvec_dense(d, x);
    let r: Vec<T> = (0..b.len()).map(|i| ax[i] - b[i]).collect();
    let den = norm_inf_mat(d) * norm_inf(x) + norm_inf(b);
    if den == 0.0 {
        return if norm_inf(&r) == 0.0 { 0.0 } else { f64::INFINITY };
    }
    norm_inf(&r) / den
}
fn to_vec<T: Copy>(v: &Vector<T>) -> Vec<T> {
    (0..v.size()).map(|i| v[i]).collect()
}

// ---------------------------------------------------------------------------------------------
// the views
// ---------------------------------------------------------------------------------------------
#[derive(Default, Debug)]
struct Stats {
    cases: u64,
    views: u64,
    skipped_ovf: u64,
    solves: u64,
    singular: u64,
    max_be: f64,
    max_be_ref: f64,
    max_det_rel: f64,
    oob_checked: u64,
}

const BE_TOL: f64 = 1e-10;
const DET_TOL: f64 = 1e-10;

#[allow(clippy::too_many_arguments)]
fn views<T: Elem>(
    b: &Banded<T>,
    d: &[Vec<T>],
    m1: usize,
    m2: usize,
    x: &[T],
    rhs: &[T],
    int_det: Option<i128>,
    out: &mut Vec<String>,
    st: &mut Stats,
    tag: &str,
) {
    let n = d.len();
    st.views += 1;
    if b.size() != n || b.size_below() != m1 || b.size_above() != m2 {
        out.push(format!("{tag}: shape ({},{},{}) != ({n},{m1},{m2})", b.size(), b.size_below(), b.size_above()));
        return;
    }
    if b.compact().rows() != n || b.compact().cols() != m1 + m2 + 1 {
        out.push(format!("{tag}: compact shape wrong"));
        return;
    }
    // element access
    for i in 0..n {
        for j in 0..n {
            if in_band(i, j, m1, m2) {
                let v = b[(i, j)];
                if v != d[i][j] {
                    out.push(format!("{tag}: element ({i},{j}) = {:?}, dense {:?}", v, d[i][j]));
                }
            }
        }
    }
    // product (both forms)
    let xv = Vector::create(x.to_vec());
    let y1 = to_vec(&(b * &xv));
    let y2 = to_vec(&(b.clone() * xv.clone()));
    let yd = matvec_dense(d, x);
    if format!("{:?}", y1) != format!("{:?}", y2) {
        out.push(format!("{tag}: &B*&x {:?} differs from B*x {:?}", y1, y2));
    }
    if y1.len() != n {
        out.push(format!("{tag}: product has wrong size {}", y1.len()));
    } else {
        for i in 0..n {
            if T::EXACT {
                if y1[i] != yd[i] {
                    out.push(format!("{tag}: product row {i}: {:?} dense {:?}", y1[i], yd[i]));
                }
            } else {
                let scale: f64 = (0..n).map(|j| d[i][j].mag() * x[j].mag()).sum();
                let diff = (y1[i] - yd[i]).mag();
                if !(diff <= 1e-13 * scale) {
                    out.push(format!("{tag}: product row {i}: {:?} dense {:?} (scale {scale:e})", y1[i], yd[i]));
                }
            }
        }
    }
    // determinant
    let (det_ref, x_ref) = dense_ge(d, rhs);
    let det = b.det();
    if T::EXACT {
        if det != det_ref {
            out.push(format!("{tag}: det {:?} dense {:?}", det, det_ref));
        }
        if let Some(e) = int_det {
            if let Ok(e64) = i64::try_from(e) {
                if det != T::mk(S::real(S1::int(e64))) {
                    out.push(format!("{tag}: det {:?} bareiss {}", det, e));
                }
            }
        }
    } else {
        let h = hadamard(d);
        let diff = (det - det_ref).mag();
        if !(diff <= DET_TOL * h) {
            out.push(format!("{tag}: det {:?} dense {:?} hadamard {h:e}", det, det_ref));
        }
        if let Some(e) = int_det {
            if let Ok(e64) = i64::try_from(e) {
                let dd = (det - T::mk(S::real(S1::int(e64)))).mag();
                if !(dd <= DET_TOL * h) {
                    out.push(format!("{tag}: det {:?} exact {}", det, e));
                }
            }
        }
        if det_ref.mag() > 0.0 && h.is_finite() {
            let rel = diff / det_ref.mag();
            if rel.is_finite() && rel > st.max_det_rel && det_ref.mag() > 1e-6 * h {
                st.max_det_rel = rel;
            }
        }
    }
    // solve
    let nonsingular = match int_det {
        Some(e) if T::NAME != "Complex<f64>" => e != 0,
        _ => {
            if T::EXACT {
                x_ref.is_some()
            } else {
                match &x_ref {
                    Some(xr) => backward_error(d, xr, rhs) <= 1e-12,
                    None => false,
                }
            }
        }
    };
    if !nonsingular {
        st.singular += 1;
        return;
    }
    st.solves += 1;
    let bv = Vector::create(rhs.to_vec());
    let xs = to_vec(&b.solve(&bv));
    if xs.len() != n {
        out.push(format!("{tag}: solution has wrong size"));
        return;
    }
    if T::EXACT {
        let ax = matvec_dense(d, &xs);
        for i in 0..n {
            if ax[i] != rhs[i] {
                out.push(format!("{tag}: solve residual row {i}: A x = {:?}, b = {:?}; x = {:?}", ax[i], rhs[i], xs));
                break;
            }
        }
        if let Some(xr) = &x_ref {
            for i in 0..n {
                if xs[i] != xr[i] {
                    out.push(format!("{tag}: solution differs from dense: {:?} vs {:?}", xs, xr));
                    break;
                }
            }
        } else {
            out.push(format!("{tag}: oracle says singular but exact det nonzero?"));
        }
    } else {
        let be = backward_error(d, &xs, rhs);
        if let Some(xr) = &x_ref {
            let ber = backward_error(d, xr, rhs);
            if ber > st.max_be_ref {
                st.max_be_ref = ber;
            }
            if ber <= 1e-12 || int_det.is_some() {
                if be.is_finite() && be > st.max_be {
                    st.max_be = be;
                }
                if !(be <= BE_TOL) {
                    out.push(format!("{tag}: backward error {be:e} (dense reference {ber:e}); x = {:?}", xs));
                }
            }
        }
    }
}

static HOOK: std::sync::Once = std::sync::Once::new();
fn silence() {
    HOOK.call_once(|| std::panic::set_hook(Box::new(|_| {})));
}
fn payload(e: Box<dyn std::any::Any + Send>) -> String {
    if let Some(s) = e.downcast_ref::<&str>() {
        s.to_string()
    } else if let Some(s) = e.downcast_ref::<String>() {
        s.clone()
    } else {
        "?".into()
    }
}

fn describe<T: Elem>(ms: &MSpec, d: &[Vec<T>]) -> String {
    format!(
        "[{} n={} m1={} m2={} class={} pad={:?} dense={:?} x={:?} rhs={:?}]",
        T::NAME,
        ms.n,
        ms.m1,
        ms.m2,
        ms.class,
        T::mk(ms.pad),
        d,
        ms.x.iter().map(|s| T::mk(*s)).collect::<Vec<_>>(),
        ms.rhs.iter().map(|s| T::mk(*s)).collect::<Vec<_>>()
    )
}

fn run_case<T: Elem>(ms: &MSpec, how: u64, st: &mut Stats, fails: &mut Vec<String>, deep: bool) {
    take_ovf();
    st.cases += 1;
    let mut local: Vec<String> = Vec::new();
    let mut desc = String::new();
    let res = catch_unwind(AssertUnwindSafe(|| {
        let pad = T::mk(ms.pad);
        let (b, d) = build::<T>(ms, pad, how);
        desc = describe::<T>(ms, &d);
        let x: Vec<T> = ms.x.iter().map(|s| T::mk(*s)).collect();
        let rhs: Vec<T> = ms.rhs.iter().map(|s| T::mk(*s)).collect();
        let idet = if T::NAME == "Complex<f64>" {
            // only valid if every entry is purely real
            if ms.a.iter().enumerate().all(|(i, r)| r.iter().enumerate().all(|(j, s)| !in_band(i, j, ms.m1, ms.m2) || s.sel == 0)) {
                int_matrix(ms).map(|m| bareiss(&m))
            } else {
                None
            }
        } else {
            int_matrix(ms).map(|m| bareiss(&m))
        };
        views(&b, &d, ms.m1, ms.m2, &x, &rhs, idet, &mut local, st, "plain");

        // padding independence: same band, other padding => identical results (bit for bit)
        let pad2 = T::mk(S { a: S1::int(-7), b: S1::int(3), sel: 2 });
        let (b2, _) = build::<T>(ms, pad2, (how + 1) % 4);
        let xv = Vector::create(x.clone());
        let bv = Vector::create(rhs.clone());
        let same = |u: String, v: String, what: &str, local: &mut Vec<String>| {
            if u != v {
                local.push(format!("padding influences {what}: {u} vs {v}"));
            }
        };
        same(format!("{:?}", to_vec(&(&b * &xv))), format!("{:?}", to_vec(&(&b2 * &xv))), "product", &mut local);
        same(format!("{:?}", b.det()), format!("{:?}", b2.det()), "det", &mut local);
        let (dr, xr) = dense_ge(&d, &rhs);
        if dr != T::zero() && xr.is_some() {
            same(format!("{:?}", to_vec(&b.solve(&bv))), format!("{:?}", to_vec(&b2.solve(&bv))), "solve", &mut local);
        }
        if deep {
            arith::<T>(ms, &b, &d, &x, &rhs, &mut local, st);
        }
    }));
    let o = take_ovf();
    if o {
        st.skipped_ovf += 1;
        return;
    }
    if let Err(e) = res {
        local.push(format!("PANIC: {}", payload(e)));
    }
    for l in local {
        if fails.len() < 60 {
            fails.push(format!("{l}\n      {desc} how={how}"));
        } else {
            fails.push(String::new());
        }
    }
}

// all arithmetic forms against the dense model
fn arith<T: Elem>(ms: &MSpec, b1: &Banded<T>, d1: &[Vec<T>], x: &[T], rhs: &[T], out: &mut Vec<String>, st: &mut Stats) {
    let (n, m1, m2) = (ms.n, ms.m1, ms.m2);
    // second operand: transposed-ish reshuffle of the same values, other padding
    let mut ms2 = ms.clone();
    for i in 0..n {
        for j in 0..n {
            if in_band(i, j, m1, m2) {
                let (ii, jj) = (n - 1 - i, n - 1 - j);
                ms2.a[i][j] = if in_band(ii, jj, m1, m2) { ms.a[ii][jj] } else { S::real(S1::int((i + 2 * j) as i64 % 5 - 2)) };
                if (i + 2 * j) % 3 == 0 {
                    // break the 180-degree rotation symmetry: A - rot(A) is exactly singular for odd n
                    let mut e = ms2.a[i][j];
                    if e.a.q == 1 && e.a.e == 0 { e.a.p += 1 + (i as i64 % 2); } else { e.a = S1::int(1 + (j as i64 % 3)); }
                    ms2.a[i][j] = e;
                }
            }
        }
    }
    let pad2 = T::mk(S { a: S1::int(5), b: S1::int(-1), sel: 2 });
    let (b2, d2) = build::<T>(&ms2, pad2, 0);
    let s = T::mk(S { a: S1 { p: -3, q: 2, e: 0 }, b: S1::int(1), sel: 2 });
    let c = T::mk(S { a: S1 { p: 5, q: 2, e: 0 }, b: S1::int(-2), sel: 2 });

    let map2 = |f: &dyn Fn(T, T) -> T| -> Vec<Vec<T>> {
        (0..n)
            .map(|i| (0..n).map(|j| if in_band(i, j, m1, m2) { f(d1[i][j], d2[i][j]) } else { T::zero() }).collect())
            .collect()
    };
    let check = |name: &str, r: &Banded<T>, e: Vec<Vec<T>>, out: &mut Vec<String>, st: &mut Stats| {
        views(r, &e, m1, m2, x, rhs, None, out, st, name);
    };
    check("-&B", &(-b1), map2(&|a, _| -a), out, st);
    check("-B", &(-(b1.clone())), map2(&|a, _| -a), out, st);
    check("&A+&B", &(b1 + &b2), map2(&|a, b| a + b), out, st);
    check("A+B", &(b1.clone() + b2.clone()), map2(&|a, b| a + b), out, st);
    check("&A-&B", &(b1 - &b2), map2(&|a, b| a - b), out, st);
    check("A-B", &(b1.clone() - b2.clone()), map2(&|a, b| a - b), out, st);
    check("&A+&A", &(b1 + b1), map2(&|a, _| a + a), out, st);
    check("&A-&A", &(b1 - b1), map2(&|a, _| a - a), out, st);
    check("&A*s", &(b1 * s), map2(&|a, _| a * s), out, st);
    check("A*s", &(b1.clone() * s), map2(&|a, _| a * s), out, st);
    check("&A/s", &(b1 / s), map2(&|a, _| a / s), out, st);
    check("A/s", &(b1.clone() / s), map2(&|a, _| a / s), out, st);
    let mut t = b1.clone();
    t += &b2;
    check("A+=&B", &t, map2(&|mut a, b| { a += b; a }), out, st);
    let mut t = b1.clone();
    t += b2.clone();
    check("A+=B", &t, map2(&|mut a, b| { a += b; a }), out, st);
    let mut t = b1.clone();
    t -= &b2;
    check("A-=&B", &t, map2(&|mut a, b| { a -= b; a }), out, st);
    let mut t = b1.clone();
    t -= b2.clone();
    check("A-=B", &t, map2(&|mut a, b| { a -= b; a }), out, st);
    let mut t = b1.clone();
    t *= s;
    check("A*=s", &t, map2(&|mut a, _| { a *= s; a }), out, st);
    let mut t = b1.clone();
    t /= s;
    check("A/=s", &t, map2(&|mut a, _| { a /= s; a }), out, st);
    let mut t = b1.clone();
    t += c;
    check("A+=c", &t, map2(&|mut a, _| { a += c; a }), out, st);
    let mut t = b1.clone();
    t -= c;
    check("A-=c", &t, map2(&|mut a, _| { a -= c; a }), out, st);
    // the operands are untouched by the by-reference forms
    check("A after", b1, d1.to_vec(), out, st);
    check("B after", &b2, d2, out, st);
}

// out-of-band access inside the matrix: must be rejected (panic) or read as zero, never garbage
fn oob<T: Elem>(ms: &MSpec, st: &mut Stats, fails: &mut Vec<String>) {
    let pad = T::mk(S { a: S1::int(7), b: S1::int(7), sel: 2 });
    let (b, _) = build::<T>(ms, pad, 0);
    for i in 0..ms.n {
        for j in 0..ms.n {
            if !in_band(i, j, ms.m1, ms.m2) {
                st.oob_checked += 1;
                let r = catch_unwind(AssertUnwindSafe(|| b[(i, j)]));
                if let Ok(v) = r {
                    if v != T::zero() {
                        fails.push(format!("out-of-band read ({i},{j}) of n={} m1={} m2={} returned {:?}", ms.n, ms.m1, ms.m2, v));
                    }
                }
                let mut bm = b.clone();
                let r = catch_unwind(AssertUnwindSafe(|| {
                    bm[(i, j)] = pad;
                }));
                if r.is_ok() {
                    fails.push(format!("out-of-band write ({i},{j}) of n={} m1={} m2={} accepted", ms.n, ms.m1, ms.m2));
                }
            }
        }
    }
    // fill_band outside the band is rejected
    let mut bm = b.clone();
    if catch_unwind(AssertUnwindSafe(|| bm.fill_band(ms.m2 as isize + 1, pad))).is_ok() {
        fails.push(format!("fill_band(m2+1) accepted n={} m1={} m2={}", ms.n, ms.m1, ms.m2));
    }
    let mut bm = b.clone();
    if catch_unwind(AssertUnwindSafe(|| bm.fill_band(-(ms.m1 as isize) - 1, pad))).is_ok() {
        fails.push(format!("fill_band(-m1-1) accepted n={} m1={} m2={}", ms.n, ms.m1, ms.m2));
    }
}

fn finish(name: &str, st: &Stats, fails: &[String]) {
    println!("{name}: {:?}", st);
    let shown: Vec<&String> = fails.iter().filter(|s| !s.is_empty()).collect();
    for f in shown.iter().take(40) {
        println!("FAIL {f}");
    }
    assert!(fails.is_empty(), "{name}: {} failures", fails.len());
}

fn main_sweep<T: Elem>(seed: u64, reps: usize) {
    silence();
    let mut r = Rng((seed ^ env_seed().rotate_left(17)) | 1);
    let mut st = Stats::default();
    let mut fails = Vec::new();
    for n in 1..=10usize {
        for m1 in 0..n {
            for m2 in 0..n {
                for class in 0..NCLASS {
                    for rep in 0..reps {
                        let ms = gen_spec(class, &mut r, n, m1, m2);
                        let how = r.below(4);
                        run_case::<T>(&ms, how, &mut st, &mut fails, rep == 0);
                        if rep == 0 && class == 0 {
                            oob::<T>(&ms, &mut st, &mut fails);
                        }
                    }
                }
            }
        }
    }
    finish(T::NAME, &st, &fails);
}

#[test]
fn sweep_q() {
    main_sweep::<Q>(0x9E3779B97F4A7C15, 24);
}
#[test]
fn sweep_f64() {
    main_sweep::<f64>(0xD1B54A32D192ED03, 24);
}
#[test]
fn sweep_cplx() {
    main_sweep::<C>(0x94D049BB133111EB, 24);
}

// ---------------------------------------------------------------------------------------------
// exhaustive small matrices over {-1,0,1}
// ---------------------------------------------------------------------------------------------
fn exhaustive<T: Elem>(sel: u8) {
    silence();
    let mut st = Stats::default();
    let mut fails = Vec::new();
    for n in 1..=4usize {
        for m1 in 0..n {
            for m2 in 0..n {
                let slots: Vec<(usize, usize)> = (0..n).flat_map(|i| (0..n).map(move |j| (i, j))).filter(|&(i, j)| in_band(i, j, m1, m2)).collect();
                if slots.len() > 10 {
                    continue;
                }
                let total = 3u64.pow(slots.len() as u32);
                for code in 0..total {
                    let mut a = vec![vec![S::real(S1::int(0)); n]; n];
                    let mut c = code;
                    for &(i, j) in &slots {
                        a[i][j] = S { a: S1::int((c % 3) as i64 - 1), b: S1::int(0), sel };
                        c /= 3;
                    }
                    let vec_of = |k: u64| -> Vec<S> { (0..n).map(|i| S::real(S1::int(((code / 7 + k + 3 * i as u64) % 5) as i64 - 2))).collect() };
                    let mut rhs = vec_of(1);
                    rhs[n - 1] = S::real(S1::int(1));
                    let ms = MSpec { n, m1, m2, a, pad: S::real(S1::int(if code % 2 == 0 { 9 } else { -4 })), x: vec_of(0), rhs, class: 100 };
                    run_case::<T>(&ms, code % 4, &mut st, &mut fails, false);
                }
            }
        }
    }
    finish(&format!("exhaustive {}", T::NAME), &st, &fails);
}
#[test]
fn exhaustive_q() {
    exhaustive::<Q>(0);
}
#[test]
fn exhaustive_f64() {
    exhaustive::<f64>(0);
}
#[test]
fn exhaustive_cplx_imag() {
    exhaustive::<C>(1);
}

// ---------------------------------------------------------------------------------------------
// histories: many edits on ONE object, every view after every step
// ---------------------------------------------------------------------------------------------
fn history<T: Elem>(seed: u64, per_cfg: usize, steps: usize) {
    silence();
    let mut r = Rng((seed ^ env_seed().rotate_left(17)) | 1);
    let mut st = Stats::default();
    let mut fails: Vec<String> = Vec::new();
    for n0 in 1..=10usize {
        for m10 in 0..n0 {
            for m20 in 0..n0 {
                for _ in 0..per_cfg {
                    take_ovf();
                    let class = r.below(NCLASS as u64) as usize;
                    let ms = gen_spec(class, &mut r, n0, m10, m20);
                    let mut log: Vec<String> = vec![];
                    let mut local: Vec<String> = vec![];
                    let res = catch_unwind(AssertUnwindSafe(|| {
                        let (mut n, mut m1, mut m2) = (n0, m10, m20);
                        let (mut b, mut d) = build::<T>(&ms, T::mk(ms.pad), r.below(4));
                        let small = |r: &mut Rng| T::mk(S { a: S1 { p: r.range(-6, 6), q: r.range(1, 2), e: 0 }, b: S1::int(r.range(-2, 2)), sel: if r.below(2) == 0 { 0 } else { 2 } });
                        let nzs = |r: &mut Rng| T::mk(S { a: S1 { p: r.nz(-3, 3), q: r.range(1, 2), e: 0 }, b: S1::int(r.range(-1, 1)), sel: if r.below(2) == 0 { 0 } else { 2 } });
                        for step in 0..steps {
                            let op = r.below(20);
                            match op {
                                0..=3 => {
                                    // single entry edit, favouring corners and first/last rows
                                    let (i, j) = loop {
                                        let i = match r.below(4) { 0 => 0, 1 => n - 1, _ => r.below(n as u64) as usize };
                                        let j = match r.below(4) { 0 => 0, 1 => n - 1, _ => r.below(n as u64) as usize };
                                        if in_band(i, j, m1, m2) { break (i, j); }
                                    };
                                    let v = small(&mut r);
                                    b[(i, j)] = v;
                                    d[i][j] = v;
                                    log.push(format!("set({i},{j})={:?}", v));
                                }
                                4 => {
                                    let k = r.range(-(m1 as i64), m2 as i64) as isize;
                                    let v = small(&mut r);
                                    b.fill_band(k, v);
                                    for i in 0..n { for j in 0..n { if j as isize - i as isize == k { d[i][j] = v; } } }
                                    log.push(format!("fill_band({k},{:?})", v));
                                }
                                5 => {
                                    let v = nzs(&mut r);
                                    b.fill(v);
                                    for i in 0..n { for j in 0..n { if in_band(i, j, m1, m2) { d[i][j] = v; } } }
                                    log.push(format!("fill({:?})", v));
                                }
                                6 => {
                                    let c = small(&mut r);
                                    b += c;
                                    for i in 0..n { for j in 0..n { if in_band(i, j, m1, m2) { d[i][j] += c; } } }
                                    log.push(format!("+= const {:?}", c));
                                }
                                7 => {
                                    let c = small(&mut r);
                                    b -= c;
                                    for i in 0..n { for j in 0..n { if in_band(i, j, m1, m2) { d[i][j] -= c; } } }
                                    log.push(format!("-= const {:?}", c));
                                }
                                8 => {
                                    let s = nzs(&mut r);
                                    if r.below(2) == 0 {
                                        b *= s;
                                        for i in 0..n { for j in 0..n { if in_band(i, j, m1, m2) { d[i][j] *= s; } } }
                                    } else {
                                        b = &b * s;
                                        for i in 0..n { for j in 0..n { if in_band(i, j, m1, m2) { d[i][j] = d[i][j] * s; } } }
                                    }
                                    log.push(format!("*= {:?}", s));
                                }
                                9 => {
                                    let s = nzs(&mut r);
                                    if r.below(2) == 0 {
                                        b /= s;
                                        for i in 0..n { for j in 0..n { if in_band(i, j, m1, m2) { d[i][j] /= s; } } }
                                    } else {
                                        b = b.clone() / s;
                                        for i in 0..n { for j in 0..n { if in_band(i, j, m1, m2) { d[i][j] = d[i][j] / s; } } }
                                    }
                                    log.push(format!("/= {:?}", s));
                                }
                                10..=13 => {
                                    let cl = r.below(NCLASS as u64) as usize;
                                    let mut o = gen_spec(cl, &mut r, n, m1, m2);
                                    if T::EXACT || true {
                                        // keep magnitudes tame in long histories
                                        for row in o.a.iter_mut() { for s in row.iter_mut() { if s.a.e != 0 { s.a = S1::int(s.a.p % 7); } if s.b.e != 0 { s.b = S1::int(s.b.p % 7); } } }
                                    }
                                    let (ob, od) = build::<T>(&o, T::mk(o.pad), r.below(4));
                                    let form = r.below(4);
                                    let plus = op < 12;
                                    match (plus, form) {
                                        (true, 0) => b += &ob,
                                        (true, 1) => b += ob.clone(),
                                        (true, 2) => b = &b + &ob,
                                        (true, _) => b = b.clone() + ob.clone(),
                                        (false, 0) => b -= &ob,
                                        (false, 1) => b -= ob.clone(),
                                        (false, 2) => b = &b - &ob,
                                        (false, _) => b = b.clone() - ob.clone(),
                                    }
                                    for i in 0..n { for j in 0..n { if in_band(i, j, m1, m2) { d[i][j] = if plus { d[i][j] + od[i][j] } else { d[i][j] - od[i][j] }; } } }
                                    log.push(format!("{} other(form {form})", if plus { "+" } else { "-" }));
                                }
                                14 => {
                                    if r.below(2) == 0 { b = -&b; } else { b = -b; }
                                    for i in 0..n { for j in 0..n { if in_band(i, j, m1, m2) { d[i][j] = -d[i][j]; } } }
                                    log.push("neg".into());
                                }
                                15 | 16 => {
                                    // resize, then every in-band entry is assigned afresh (left-over slots become padding)
                                    let nn = 1 + r.below(10) as usize;
                                    let a1 = r.below(nn as u64) as usize;
                                    let a2 = r.below(nn as u64) as usize;
                                    b.resize(nn, a1, a2);
                                    n = nn; m1 = a1; m2 = a2;
                                    let cl = r.below(NCLASS as u64) as usize;
                                    let mut o = gen_spec(cl, &mut r, n, m1, m2);
                                    for row in o.a.iter_mut() { for s in row.iter_mut() { s.a.e = s.a.e.clamp(-40, 40); s.b.e = s.b.e.clamp(-40, 40); } }
                                    d = vec![vec![T::zero(); n]; n];
                                    for i in 0..n { for j in 0..n { if in_band(i, j, m1, m2) { let v = T::mk(o.a[i][j]); b[(i, j)] = v; d[i][j] = v; } } }
                                    log.push(format!("resize({n},{m1},{m2}) + reassign {:?}", d));
                                }
                                17 => {
                                    let c2 = b.clone();
                                    if c2 != b { local.push("clone != original".into()); }
                                    b = c2;
                                    log.push("clone".into());
                                }
                                _ => {
                                    // reads only: product / det / solve must not change the object
                                    let xv = Vector::create((0..n).map(|_| small(&mut r)).collect::<Vec<T>>());
                                    let before = format!("{:?}", b);
                                    let _ = &b * &xv;
                                    let _ = b.det();
                                    if format!("{:?}", b) != before { local.push("read-only call changed the object".into()); }
                                    log.push("reads".into());
                                }
                            }
                            let x: Vec<T> = (0..n).map(|_| small(&mut r)).collect();
                            let rhs: Vec<T> = (0..n).map(|_| small(&mut r)).collect();
                            let before = local.len();
                            views(&b, &d, m1, m2, &x, &rhs, None, &mut local, &mut st, &format!("step {step}"));
                            if local.len() > before || OVF.with(|c| c.get()) {
                                break;
                            }
                        }
                    }));
                    st.cases += 1;
                    if take_ovf() {
                        st.skipped_ovf += 1;
                        continue;
                    }
                    if let Err(e) = res {
                        local.push(format!("PANIC: {}", payload(e)));
                    }
                    for l in local {
                        if fails.len() < 40 {
                            fails.push(format!("{l}\n   start n={n0} m1={m10} m2={m20} class={class} {} \n   log={:?}", T::NAME, log));
                        } else {
                            fails.push(String::new());
                        }
                    }
                }
            }
        }
    }
    finish(&format!("history {}", T::NAME), &st, &fails);
}
#[test]
fn history_q() {
    history::<Q>(0xA5A5A5A55A5A5A5A, 6, 10);
}
#[test]
fn history_f64() {
    history::<f64>(0x123456789ABCDEF1, 6, 14);
}
#[test]
fn history_cplx() {
    history::<C>(0xFEDCBA9876543211, 6, 14);
}

// ---------------------------------------------------------------------------------------------
// extreme (finite) padding must not leak: padding 1e300 / tiny, and as a side check NaN padding
// ---------------------------------------------------------------------------------------------
fn padding_extreme<T: Elem>(seed: u64) -> (u64, Vec<String>, Vec<String>) {
    silence();
    let mut r = Rng((seed ^ env_seed().rotate_left(17)) | 1);
    let mut fails = vec![];
    let mut nan_fails = vec![];
    let mut cases = 0;
    for n in 1..=10usize {
        for m1 in 0..n {
            for m2 in 0..n {
                for class in [0usize, 3, 4, 5, 6, 9] {
                    let ms = gen_spec(class, &mut r, n, m1, m2);
                    let x: Vec<T> = ms.x.iter().map(|s| T::mk(*s)).collect();
                    let rhs: Vec<T> = ms.rhs.iter().map(|s| T::mk(*s)).collect();
                    let xv = Vector::create(x);
                    let bv = Vector::create(rhs.clone());
                    let (b0, d) = build::<T>(&ms, T::zero(), 0);
                    let (_, xr) = dense_ge(&d, &rhs);
                    let solvable = xr.is_some();
                    let r0 = (format!("{:?}", to_vec(&(&b0 * &xv))), format!("{:?}", b0.det()), if solvable { format!("{:?}", to_vec(&b0.solve(&bv))) } else { String::new() });
                    let mut pads: Vec<(T, bool)> = vec![
                        (T::mk(S::real(S1::pow2(1, 1000))), false),
                        (T::mk(S::real(S1::pow2(-1, 1020))), false),
                        (T::mk(S::real(S1::pow2(1, -1000))), false),
                    ];
                    if let Some(nan) = T::nan() {
                        pads.push((nan, true));
                    }
                    for (p, is_nan) in pads {
                        cases += 1;
                        let (b1, _) = build::<T>(&ms, p, r.below(2));
                        let r1 = (format!("{:?}", to_vec(&(&b1 * &xv))), format!("{:?}", b1.det()), if solvable { format!("{:?}", to_vec(&b1.solve(&bv))) } else { String::new() });
                        if r0 != r1 {
                            let msg = format!("{} n={n} m1={m1} m2={m2} class={class} pad={:?}: {:?} vs {:?}   dense={:?} rhs={:?}", T::NAME, p, r0, r1, d, rhs);
                            if is_nan { nan_fails.push(msg) } else { fails.push(msg) }
                        }
                    }
                }
            }
        }
    }
    (cases, fails, nan_fails)
}
#[test]
fn padding_extreme_all() {
    let (c1, f1, n1) = padding_extreme::<f64>(77);
    let (c2, f2, n2) = padding_extreme::<C>(78);
    println!("padding_extreme cases {}", c1 + c2);
    for f in f1.iter().chain(f2.iter()).take(10) {
        println!("FAIL {f}");
    }
    for f in n1.iter().chain(n2.iter()).take(5) {
        println!("SIDE (NaN padding) {f}");
    }
    println!("NaN padding side failures: {}", n1.len() + n2.len());
    assert!(f1.is_empty() && f2.is_empty());
}
