// Adversarial property hunt for C13: Complex arithmetic is exact field arithmetic; operator
// variants / ordering agree.  Public API only.
#![allow(clippy::all)]
use core::ops::{Add, AddAssign, Div, DivAssign, Mul, MulAssign, Neg, Sub, SubAssign};
use ohsl::{Complex, Number, One, Signed, Zero};
use std::cmp::Ordering;
use std::sync::atomic::{AtomicU64, Ordering as AO};

static CASES: AtomicU64 = AtomicU64::new(0);
fn tick(n: u64) {
    CASES.fetch_add(n, AO::Relaxed);
}

// ------------------------------------------------------------------ PRNG
struct Rng(u64);
impl Rng {
    fn next(&mut self) -> u64 {
        let mut x = self.0;
        x ^= x << 13;
        x ^= x >> 7;
        x ^= x << 17;
        self.0 = x;
        x.wrapping_mul(0x2545F4914F6CDD1D)
    }
    fn below(&mut self, n: u64) -> u64 {
        self.next() % n
    }
    fn range(&mut self, lo: i64, hi: i64) -> i64 {
        lo + (self.below((hi - lo + 1) as u64) as i64)
    }
}

// ------------------------------------------------------------------ exact rationals on i128
fn gcd(mut a: i128, mut b: i128) -> i128 {
    a = a.abs();
    b = b.abs();
    while b != 0 {
        let t = a % b;
        a = b;
        b = t;
    }
    a
}
#[derive(Clone, Copy, Debug, PartialEq)]
struct Q {
    n: i128,
    d: i128,
}
impl Q {
    fn new(n: i128, d: i128) -> Q {
        assert!(d != 0, "Q: zero denominator");
        let g = gcd(n, d);
        let (mut n, mut d) = if g == 0 { (0, 1) } else { (n / g, d / g) };
        if d < 0 {
            n = -n;
            d = -d;
        }
        Q { n, d }
    }
    fn int(n: i128) -> Q {
        Q { n, d: 1 }
    }
    fn is_zero(&self) -> bool {
        self.n == 0
    }
}
fn cm(a: i128, b: i128) -> i128 {
    a.checked_mul(b).expect("Q overflow (test harness)")
}
fn ca(a: i128, b: i128) -> i128 {
    a.checked_add(b).expect("Q overflow (test harness)")
}
impl Add for Q {
    type Output = Q;
    fn add(self, o: Q) -> Q {
        let g = gcd(self.d, o.d); // both > 0
        let (l, r) = (o.d / g, self.d / g);
        Q::new(ca(cm(self.n, l), cm(o.n, r)), cm(self.d, l))
    }
}
impl Sub for Q {
    type Output = Q;
    fn sub(self, o: Q) -> Q {
        self + (-o)
    }
}
impl Mul for Q {
    type Output = Q;
    fn mul(self, o: Q) -> Q {
        if self.n == 0 || o.n == 0 {
            return Q::int(0);
        }
        let g1 = gcd(self.n, o.d);
        let g2 = gcd(o.n, self.d);
        Q::new(cm(self.n / g1, o.n / g2), cm(self.d / g2, o.d / g1))
    }
}
impl Div for Q {
    type Output = Q;
    fn div(self, o: Q) -> Q {
        assert!(o.n != 0, "Q: division by zero");
        self * Q::new(o.d, o.n)
    }
}
impl Neg for Q {
    type Output = Q;
    fn neg(self) -> Q {
        Q { n: -self.n, d: self.d }
    }
}
impl AddAssign for Q {
    fn add_assign(&mut self, o: Q) {
        *self = *self + o;
    }
}
impl SubAssign for Q {
    fn sub_assign(&mut self, o: Q) {
        *self = *self - o;
    }
}
impl MulAssign for Q {
    fn mul_assign(&mut self, o: Q) {
        *self = *self * o;
    }
}
impl DivAssign for Q {
    fn div_assign(&mut self, o: Q) {
        *self = *self / o;
    }
}
impl Zero for Q {
    fn zero() -> Q {
        Q::int(0)
    }
}
impl One for Q {
    fn one() -> Q {
        Q::int(1)
    }
}
impl Number for Q {}
impl Signed for Q {
    fn abs(&self) -> Q {
        Q { n: self.n.abs(), d: self.d }
    }
}
impl PartialOrd for Q {
    fn partial_cmp(&self, o: &Q) -> Option<Ordering> {
        Some(cm(self.n, o.d).cmp(&cm(o.n, self.d)))
    }
}

type CQ = Complex<Q>;
fn cq(a: Q, b: Q) -> CQ {
    Complex::new(a, b)
}

// independent reference formulae (written on bare pairs of Q)
fn ref_mul(a: Q, b: Q, c: Q, d: Q) -> (Q, Q) {
    // Gauss / Karatsuba three-multiplication form, deliberately different from the source
    let k1 = c * (a + b);
    let k2 = a * (d - c);
    let k3 = b * (c + d);
    (k1 - k3, k1 + k2)
}
fn ref_div(a: Q, b: Q, c: Q, d: Q) -> (Q, Q) {
    // z / w = z * (1/w), 1/w = conj(w)/|w|^2 computed first
    let n = c * c + d * d;
    let (ic, id) = (c / n, (-d) / n);
    ref_mul(a, b, ic, id)
}

fn check_pair_q(a: Q, b: Q, c: Q, d: Q) {
    let z = cq(a, b);
    let w = cq(c, d);
    // binary forms
    let s = z.clone() + w.clone();
    assert!(s.real == a + c && s.imag == b + d, "add {:?} {:?}", z, w);
    let t = z.clone() - w.clone();
    assert!(t.real == a - c && t.imag == b - d, "sub {:?} {:?}", z, w);
    let p = z.clone() * w.clone();
    let (pr, pi) = ref_mul(a, b, c, d);
    assert!(p.real == pr && p.imag == pi, "mul {:?} {:?} -> {:?}", z, w, p);
    let p2 = w.clone() * z.clone();
    assert!(p2 == p, "mul commut {:?} {:?}", z, w);
    // assignment forms
    let mut m = z.clone();
    m += w.clone();
    assert!(m == s && m.real == s.real && m.imag == s.imag, "+= {:?} {:?}", z, w);
    let mut m = z.clone();
    m -= w.clone();
    assert!(m.real == t.real && m.imag == t.imag, "-= {:?} {:?}", z, w);
    let mut m = z.clone();
    m *= w.clone();
    assert!(m.real == p.real && m.imag == p.imag, "*= {:?} {:?} -> {:?} vs {:?}", z, w, m, p);
    if !(c.is_zero() && d.is_zero()) {
        let q = z.clone() / w.clone();
        let (qr, qi) = ref_div(a, b, c, d);
        assert!(q.real == qr && q.imag == qi, "div {:?} {:?} -> {:?}", z, w, q);
        // defining identity q*w == z with the reference product
        let (br, bi) = ref_mul(q.real, q.imag, c, d);
        assert!(br == a && bi == b, "div identity {:?} {:?}", z, w);
        let mut m = z.clone();
        m /= w.clone();
        assert!(m.real == q.real && m.imag == q.imag, "/= {:?} {:?} -> {:?} vs {:?}", z, w, m, q);
        // (z*w)/w == z
        let back = p.clone() / w.clone();
        assert!(back == z, "(z*w)/w {:?} {:?}", z, w);
    }
    // negation, conjugation, squared modulus
    let n = -z.clone();
    assert!(n.real == Q::int(0) - a && n.imag == Q::int(0) - b);
    assert!((n.clone() + z.clone()) == CQ::zero());
    let cj = z.conj();
    assert!(cj.real == a && cj.imag == Q::int(0) - b);
    assert!(z.abs_sqr() == a * a + b * b);
    let zz = z.clone() * cj.clone();
    assert!(zz.real == z.abs_sqr() && zz.imag == Q::int(0), "z*conj z {:?}", z);
    // conj is a ring homomorphism
    assert!((z.clone() * w.clone()).conj() == z.conj() * w.conj());
    assert!((z.clone() + w.clone()).conj() == z.conj() + w.conj());
    // |zw|^2 = |z|^2 |w|^2
    assert!(p.abs_sqr() == z.abs_sqr() * w.abs_sqr());
    // mixed real-scalar forms, scalar r = c (and d)
    for r in [c, d] {
        let x = z.clone() + r;
        assert!(x.real == a + r && x.imag == b);
        let y = z.clone() - r;
        assert!(y.real == a - r && y.imag == b);
        let u = z.clone() * r;
        assert!(u.real == a * r && u.imag == b * r);
        assert!(u == z.clone() * cq(r, Q::int(0)), "scalar mul vs complex mul");
        let mut m = z.clone();
        m += r;
        assert!(m.real == x.real && m.imag == x.imag);
        let mut m = z.clone();
        m -= r;
        assert!(m.real == y.real && m.imag == y.imag);
        let mut m = z.clone();
        m *= r;
        assert!(m.real == u.real && m.imag == u.imag);
        if !r.is_zero() {
            let v = z.clone() / r;
            assert!(v.real == a / r && v.imag == b / r);
            assert!(v == z.clone() / cq(r, Q::int(0)), "scalar div vs complex div");
            let mut m = z.clone();
            m /= r;
            assert!(m.real == v.real && m.imag == v.imag);
        }
    }
    // identities
    assert!(z.clone() + CQ::zero() == z && CQ::zero() + z.clone() == z);
    assert!(z.clone() - CQ::zero() == z);
    assert!(z.clone() * CQ::one() == z && CQ::one() * z.clone() == z);
    assert!(z.clone() / CQ::one() == z);
    assert!(z.clone() * CQ::zero() == CQ::zero());
    let mut m = z.clone();
    m += CQ::zero();
    m *= CQ::one();
    m /= CQ::one();
    m -= CQ::zero();
    assert!(m == z);
    // aliasing-like: square and self-quotient in place
    let mut m = z.clone();
    m *= z.clone();
    let (sr, si) = (a * a - b * b, Q::int(2) * a * b);
    assert!(m.real == sr && m.imag == si, "square in place {:?}", z);
    if !(a.is_zero() && b.is_zero()) {
        let mut m = z.clone();
        m /= z.clone();
        assert!(m == CQ::one(), "z/=z {:?}", z);
    }
    // order / equality consistency on the pair
    check_order_pair(&z, &w, a, b, c, d);
}

fn check_order_pair<T: Clone + Number + PartialOrd + std::fmt::Debug>(z: &Complex<T>, w: &Complex<T>, a: T, b: T, c: T, d: T) {
    let lex = if a != c { a.partial_cmp(&c).unwrap() } else { b.partial_cmp(&d).unwrap() };
    let pc = z.partial_cmp(w);
    assert_eq!(pc, Some(lex), "partial_cmp {:?} {:?}", z, w);
    let lt = z < w;
    let gt = z > w;
    let eq = z == w;
    let ne = z != w;
    assert_eq!(eq, !ne);
    assert_eq!(eq, a == c && b == d);
    assert_eq!(lt as u8 + gt as u8 + eq as u8, 1, "trichotomy {:?} {:?}", z, w);
    assert_eq!(z <= w, lt || eq);
    assert_eq!(z >= w, gt || eq);
    assert_eq!(eq, pc == Some(Ordering::Equal));
    assert_eq!(w.partial_cmp(z), pc.map(|o| o.reverse()));
    assert_eq!(w > z, lt);
    assert_eq!(w < z, gt);
    assert_eq!(w == z, eq);
}

fn small_q_set(maxn: i128, maxd: i128) -> Vec<Q> {
    let mut v: Vec<Q> = Vec::new();
    for d in 1..=maxd {
        for n in -maxn..=maxn {
            let q = Q::new(n, d);
            if !v.contains(&q) {
                v.push(q);
            }
        }
    }
    v
}

#[test]
fn q_exhaustive_small_pairs() {
    let s = small_q_set(3, 3); // 0, +-1, +-2, +-3, halves, thirds
    let mut n = 0u64;
    for &a in &s {
        for &b in &s {
            for &c in &s {
                for &d in &s {
                    check_pair_q(a, b, c, d);
                    n += 1;
                }
            }
        }
    }
    tick(n);
    println!("q_exhaustive_small_pairs: {} pairs", n);
}

fn rand_q(r: &mut Rng, mag: i64, den: i64) -> Q {
    match r.below(12) {
        0 => Q::int(0),
        1 => Q::int(1),
        2 => Q::int(-1),
        3 => Q::int(r.range(-mag, mag) as i128),
        4 => Q::new(1, r.range(1, den) as i128),
        5 => Q::new(1i128 << r.below(5), 1i128 << r.below(5)),
        _ => Q::new(r.range(-mag, mag) as i128, r.range(1, den) as i128),
    }
}

#[test]
fn q_random_pairs() {
    let mut r = Rng(0x9E3779B97F4A7C15);
    let n = 150_000;
    for i in 0..n {
        let (mag, den) = match i % 3 {
            0 => (20, 20),
            1 => (300, 60),
            _ => (5000, 4),
        };
        let a = rand_q(&mut r, mag, den);
        let b = rand_q(&mut r, mag, den);
        let (c, d) = match r.below(8) {
            0 => (a, b),                                  // w == z
            1 => (a, Q::int(0) - b),                      // w == conj z
            2 => (b, a),                                  // swapped
            3 => (Q::int(0) - b, a),                      // i z
            _ => (rand_q(&mut r, mag, den), rand_q(&mut r, mag, den)),
        };
        check_pair_q(a, b, c, d);
    }
    tick(n);
}

#[test]
fn q_triples_field_axioms_and_histories() {
    let mut r = Rng(0xDEADBEEFCAFEF00D);
    let n = 100_000;
    for _ in 0..n {
        let mut g = |r: &mut Rng| cq(rand_q(r, 12, 6), rand_q(r, 12, 6));
        let (x, y, z) = (g(&mut r), g(&mut r), g(&mut r));
        // associativity / distributivity
        assert!((x.clone() + y.clone()) + z.clone() == x.clone() + (y.clone() + z.clone()));
        assert!((x.clone() * y.clone()) * z.clone() == x.clone() * (y.clone() * z.clone()));
        assert!(x.clone() * (y.clone() + z.clone()) == x.clone() * y.clone() + x.clone() * z.clone());
        assert!((x.clone() - y.clone()) * z.clone() == x.clone() * z.clone() - y.clone() * z.clone());
        let znz = !(z.real.is_zero() && z.imag.is_zero());
        let ynz = !(y.real.is_zero() && y.imag.is_zero());
        if znz {
            assert!((x.clone() + y.clone()) / z.clone() == x.clone() / z.clone() + y.clone() / z.clone());
            if ynz {
                // x/(y*z) == (x/y)/z ; x/(y/z) == x*z/y
                assert!(x.clone() / (y.clone() * z.clone()) == (x.clone() / y.clone()) / z.clone());
                assert!(x.clone() / (y.clone() / z.clone()) == (x.clone() * z.clone()) / y.clone());
            }
        }
        // history on ONE object with the reference pair tracked alongside
        let mut m = x.clone();
        let (mut ra, mut rb) = (x.real, x.imag);
        for step in 0..4 {
            let w = if step % 2 == 0 { y.clone() } else { z.clone() };
            let (c, d) = (w.real, w.imag);
            match r.below(8) {
                0 => {
                    m += w.clone();
                    ra = ra + c;
                    rb = rb + d;
                }
                1 => {
                    m -= w.clone();
                    ra = ra - c;
                    rb = rb - d;
                }
                2 => {
                    m *= w.clone();
                    let t = ref_mul(ra, rb, c, d);
                    ra = t.0;
                    rb = t.1;
                }
                3 => {
                    if c.is_zero() && d.is_zero() {
                        continue;
                    }
                    m /= w.clone();
                    let t = ref_div(ra, rb, c, d);
                    ra = t.0;
                    rb = t.1;
                }
                4 => {
                    m += c;
                    ra = ra + c;
                }
                5 => {
                    m -= d;
                    ra = ra - d;
                }
                6 => {
                    m *= c;
                    ra = ra * c;
                    rb = rb * c;
                }
                _ => {
                    if d.is_zero() {
                        continue;
                    }
                    m /= d;
                    ra = ra / d;
                    rb = rb / d;
                }
            }
            assert!(m.real == ra && m.imag == rb, "history diverged: {:?} vs ({:?},{:?})", m, ra, rb);
            assert!(m.conj().imag == Q::int(0) - rb && m.abs_sqr() == ra * ra + rb * rb);
        }
    }
    tick(n);
}

#[test]
fn q_order_transitive_exhaustive() {
    // all complex numbers over a small value set; every triple
    let s = small_q_set(2, 2); // -2,-1,0,1,2,+-1/2, +-3/2 ...
    let mut zs: Vec<CQ> = Vec::new();
    for &a in &s {
        for &b in &s {
            zs.push(cq(a, b));
        }
    }
    let k = zs.len();
    let mut lt = vec![false; k * k];
    let mut eq = vec![false; k * k];
    for i in 0..k {
        for j in 0..k {
            lt[i * k + j] = zs[i] < zs[j];
            eq[i * k + j] = zs[i] == zs[j];
            check_order_pair(&zs[i], &zs[j], zs[i].real, zs[i].imag, zs[j].real, zs[j].imag);
            assert_eq!(eq[i * k + j], i == j);
        }
    }
    let mut n = 0u64;
    for i in 0..k {
        for j in 0..k {
            if !lt[i * k + j] {
                continue;
            }
            for l in 0..k {
                if lt[j * k + l] {
                    assert!(lt[i * k + l], "transitivity {:?} {:?} {:?}", zs[i], zs[j], zs[l]);
                }
                n += 1;
            }
        }
    }
    // sorting by partial_cmp yields the lexicographic order on (real, imag)
    let mut sorted = zs.clone();
    sorted.sort_by(|a, b| a.partial_cmp(b).unwrap());
    for p in sorted.windows(2) {
        assert!(p[0].real < p[1].real || (p[0].real == p[1].real && p[0].imag < p[1].imag));
    }
    tick(n);
    println!("q_order_transitive_exhaustive: {} values, {} triples", k, n);
}

// ------------------------------------------------------------------ exact dyadic numbers for f64 oracles
#[derive(Clone, Debug)]
struct Big {
    neg: bool,
    mag: Vec<u32>, // little endian, no high zero limbs, zero == empty
}
fn trim(v: &mut Vec<u32>) {
    while let Some(&0) = v.last() {
        v.pop();
    }
}
fn cmp_mag(a: &[u32], b: &[u32]) -> Ordering {
    if a.len() != b.len() {
        return a.len().cmp(&b.len());
    }
    for i in (0..a.len()).rev() {
        if a[i] != b[i] {
            return a[i].cmp(&b[i]);
        }
    }
    Ordering::Equal
}
fn add_mag(a: &[u32], b: &[u32]) -> Vec<u32> {
    let (a, b) = if a.len() >= b.len() { (a, b) } else { (b, a) };
    let mut out = Vec::with_capacity(a.len() + 1);
    let mut carry = 0u64;
    for i in 0..a.len() {
        let s = a[i] as u64 + if i < b.len() { b[i] as u64 } else { 0 } + carry;
        out.push(s as u32);
        carry = s >> 32;
    }
    if carry > 0 {
        out.push(carry as u32);
    }
    out
}
fn sub_mag(a: &[u32], b: &[u32]) -> Vec<u32> {
    // a >= b
    let mut out = Vec::with_capacity(a.len());
    let mut borrow = 0i64;
    for i in 0..a.len() {
        let mut s = a[i] as i64 - if i < b.len() { b[i] as i64 } else { 0 } - borrow;
        if s < 0 {
            s += 1 << 32;
            borrow = 1;
        } else {
            borrow = 0;
        }
        out.push(s as u32);
    }
    assert_eq!(borrow, 0);
    trim(&mut out);
    out
}
impl Big {
    fn zero() -> Big {
        Big { neg: false, mag: vec![] }
    }
    fn from_u64(x: u64, neg: bool) -> Big {
        let mut mag = vec![x as u32, (x >> 32) as u32];
        trim(&mut mag);
        let neg = neg && !mag.is_empty();
        Big { neg, mag }
    }
    fn is_zero(&self) -> bool {
        self.mag.is_empty()
    }
    fn shl(&self, bits: u64) -> Big {
        if self.is_zero() {
            return Big::zero();
        }
        let limbs = (bits / 32) as usize;
        let sh = (bits % 32) as u32;
        let mut mag = vec![0u32; limbs];
        if sh == 0 {
            mag.extend_from_slice(&self.mag);
        } else {
            let mut carry = 0u32;
            for &w in &self.mag {
                mag.push((w << sh) | carry);
                carry = w >> (32 - sh);
            }
            if carry > 0 {
                mag.push(carry);
            }
        }
        Big { neg: self.neg, mag }
    }
    fn add(&self, o: &Big) -> Big {
        if self.neg == o.neg {
            let mag = add_mag(&self.mag, &o.mag);
            Big { neg: self.neg && !mag.is_empty(), mag }
        } else {
            match cmp_mag(&self.mag, &o.mag) {
                Ordering::Equal => Big::zero(),
                Ordering::Greater => Big { neg: self.neg, mag: sub_mag(&self.mag, &o.mag) },
                Ordering::Less => Big { neg: o.neg, mag: sub_mag(&o.mag, &self.mag) },
            }
        }
    }
    fn negate(&self) -> Big {
        Big { neg: !self.neg && !self.is_zero(), mag: self.mag.clone() }
    }
    fn mul(&self, o: &Big) -> Big {
        if self.is_zero() || o.is_zero() {
            return Big::zero();
        }
        let mut out = vec![0u32; self.mag.len() + o.mag.len()];
        for (i, &x) in self.mag.iter().enumerate() {
            let mut carry = 0u64;
            for (j, &y) in o.mag.iter().enumerate() {
                let t = out[i + j] as u64 + (x as u64) * (y as u64) + carry;
                out[i + j] = t as u32;
                carry = t >> 32;
            }
            let mut k = i + o.mag.len();
            while carry > 0 {
                let t = out[k] as u64 + carry;
                out[k] = t as u32;
                carry = t >> 32;
                k += 1;
            }
        }
        trim(&mut out);
        Big { neg: self.neg != o.neg, mag: out }
    }
    fn bits(&self) -> u64 {
        if self.is_zero() {
            0
        } else {
            (self.mag.len() as u64 - 1) * 32 + (32 - self.mag.last().unwrap().leading_zeros() as u64)
        }
    }
}
/// value = m * 2^e
#[derive(Clone, Debug)]
struct Dy {
    m: Big,
    e: i64,
}
impl Dy {
    fn from_f64(x: f64) -> Dy {
        assert!(x.is_finite());
        let b = x.to_bits();
        let neg = (b >> 63) == 1;
        let ef = ((b >> 52) & 0x7ff) as i64;
        let frac = b & ((1u64 << 52) - 1);
        let (m, e) = if ef == 0 { (frac, -1074) } else { (frac | (1u64 << 52), ef - 1075) };
        Dy { m: Big::from_u64(m, neg), e }
    }
    fn int(k: i64) -> Dy {
        Dy { m: Big::from_u64(k.unsigned_abs(), k < 0), e: 0 }
    }
    fn add(&self, o: &Dy) -> Dy {
        if self.m.is_zero() {
            return o.clone();
        }
        if o.m.is_zero() {
            return self.clone();
        }
        let e = self.e.min(o.e);
        let a = self.m.shl((self.e - e) as u64);
        let b = o.m.shl((o.e - e) as u64);
        Dy { m: a.add(&b), e }
    }
    fn neg(&self) -> Dy {
        Dy { m: self.m.negate(), e: self.e }
    }
    fn sub(&self, o: &Dy) -> Dy {
        self.add(&o.neg())
    }
    fn mul(&self, o: &Dy) -> Dy {
        Dy { m: self.m.mul(&o.m), e: self.e + o.e }
    }
    fn abs(&self) -> Dy {
        Dy { m: Big { neg: false, mag: self.m.mag.clone() }, e: self.e }
    }
    fn scale2(&self, k: i64) -> Dy {
        Dy { m: self.m.clone(), e: self.e + k }
    }
    fn is_zero(&self) -> bool {
        self.m.is_zero()
    }
    fn cmp(&self, o: &Dy) -> Ordering {
        let d = self.sub(o);
        if d.m.is_zero() {
            Ordering::Equal
        } else if d.m.neg {
            Ordering::Less
        } else {
            Ordering::Greater
        }
    }
    fn le(&self, o: &Dy) -> bool {
        self.cmp(o) != Ordering::Greater
    }
    fn max(&self, o: &Dy) -> Dy {
        if self.le(o) {
            o.clone()
        } else {
            self.clone()
        }
    }
    /// log2 |value| (approx), -inf for zero
    fn log2(&self) -> f64 {
        if self.m.is_zero() {
            return f64::NEG_INFINITY;
        }
        let n = self.m.mag.len();
        let mut top = 0f64;
        let take = n.min(3);
        for i in 0..take {
            top = top * 4294967296.0 + self.m.mag[n - 1 - i] as f64;
        }
        top.log2() + 32.0 * ((n - take) as f64) + self.e as f64
    }
}
/// error of the computed component x against exact num/den, in units of 2^-52 * scale/|den|
fn err_units(x: f64, num: &Dy, den: &Dy, scale: &Dy) -> f64 {
    let d = Dy::from_f64(x).mul(den).sub(num).abs();
    if d.is_zero() {
        return 0.0;
    }
    if scale.is_zero() {
        return f64::INFINITY;
    }
    (d.log2() - scale.abs().log2() + 52.0).exp2()
}
fn err_le(x: f64, num: &Dy, den: &Dy, scale: &Dy, k: i64) -> bool {
    // |x*den - num| <= k * 2^-52 * |scale|     (exact comparison)
    let d = Dy::from_f64(x).mul(den).sub(num).abs();
    d.le(&scale.abs().mul(&Dy::int(k)).scale2(-52))
}

#[test]
fn dyadic_selfcheck() {
    // the oracle itself: compare with i128 arithmetic on small exact values
    let mut r = Rng(77);
    for _ in 0..20000 {
        let a = r.range(-1 << 30, 1 << 30);
        let b = r.range(-1 << 30, 1 << 30);
        let sa = r.range(-30, 30);
        let x = (a as f64) * (sa as f64).exp2();
        let y = b as f64;
        let dx = Dy::from_f64(x);
        let dy = Dy::from_f64(y);
        // x*y and x+y in i128 scaled by 2^30
        let ai = (a as i128) << (sa + 30);
        let bi = (b as i128) << 30;
        let sum = dx.add(&dy).scale2(30);
        let prod = dx.mul(&dy).scale2(30);
        let chk = |d: &Dy, want: i128| {
            let w = Dy { m: Big::from_u64((want.unsigned_abs() & ((1u128 << 64) - 1)) as u64, want < 0), e: 0 }
                .add(&Dy { m: Big::from_u64((want.unsigned_abs() >> 64) as u64, want < 0), e: 64 });
            assert_eq!(d.cmp(&w), Ordering::Equal, "{:?} vs {}", d, want);
        };
        chk(&sum, ai + bi);
        chk(&prod, ((a as i128) * (b as i128)) << (sa + 30));
        assert_eq!(dx.cmp(&dy), x.partial_cmp(&y).unwrap());
    }
    assert!((Dy::from_f64(3.0e100).log2() - 3.0e100f64.log2()).abs() < 1e-9);
    assert!((Dy::from_f64(-3.0e-100).log2() - 3.0e-100f64.log2()).abs() < 1e-9);
    assert_eq!(Dy::from_f64(5e-324).mul(&Dy::from_f64(2.0)).cmp(&Dy::from_f64(1e-323)), Ordering::Equal);
}

// ------------------------------------------------------------------ f64 generators inside 1e-100 .. 1e100 (or zero)
const LO: f64 = 1e-100;
const HI: f64 = 1e100;
fn clampdom(x: f64) -> f64 {
    if x == 0.0 {
        return x;
    }
    let a = x.abs();
    let a = if a < LO { LO } else if a > HI { HI } else { a };
    a.copysign(x)
}
fn rand_mant(r: &mut Rng) -> f64 {
    // in [1,2)
    match r.below(8) {
        0 => 1.0,
        1 => 1.0 + f64::EPSILON,
        2 => 2.0 - f64::EPSILON,
        3 => 1.5,
        4 => f64::from_bits(0x3ff0000000000000 | (r.next() & 0xfffff00000000)), // few bits
        _ => f64::from_bits(0x3ff0000000000000 | (r.next() >> 12)),
    }
}
fn rand_f(r: &mut Rng, emin: i64, emax: i64) -> f64 {
    let sgn = if r.below(2) == 0 { 1.0 } else { -1.0 };
    let v = match r.below(24) {
        0 => 0.0,
        1 => -0.0,
        2 => 1.0,
        3 => HI,
        4 => LO,
        5 => (r.range(1, 20) as f64),
        6 => 1.0 / 3.0,
        7 => 0.1,
        8 => (r.range(emin, emax) as f64).exp2(),
        _ => rand_mant(r) * (r.range(emin, emax) as f64).exp2(),
    };
    clampdom(sgn * v)
}
fn rand_nz(r: &mut Rng, emin: i64, emax: i64) -> f64 {
    loop {
        let x = rand_f(r, emin, emax);
        if x != 0.0 {
            return x;
        }
    }
}
fn bits(z: Complex<f64>) -> (u64, u64) {
    (z.real.to_bits(), z.imag.to_bits())
}
fn in_dom(x: f64) -> bool {
    x == 0.0 || (x.abs() >= LO && x.abs() <= HI)
}

struct Worst {
    norm: f64,
    comp: f64,
    comp_case: String,
    norm_case: String,
    comp_bad: u64,
}

/// checks every f64 claim on the pair; returns normwise worst error; records componentwise errors
fn check_pair_f(a: f64, b: f64, c: f64, d: f64, wst: &mut Worst) {
    assert!(in_dom(a) && in_dom(b) && in_dom(c) && in_dom(d));
    let z = Complex::new(a, b);
    let w = Complex::new(c, d);
    let (da, db, dc, dd) = (Dy::from_f64(a), Dy::from_f64(b), Dy::from_f64(c), Dy::from_f64(d));
    let one = Dy::int(1);
    let fin = |x: Complex<f64>, what: &str| {
        assert!(x.real.is_finite() && x.imag.is_finite(), "non-finite {} for {:?} {:?}: {:?}", what, z, w, x);
    };
    // ---- add / sub : correctly rounded per component
    let s = z + w;
    let t = z - w;
    fin(s, "add");
    fin(t, "sub");
    for (x, ex) in [
        (s.real, da.add(&dc)),
        (s.imag, db.add(&dd)),
        (t.real, da.sub(&dc)),
        (t.imag, db.sub(&dd)),
    ] {
        assert!(err_le(x, &ex, &one, &ex, 1), "add/sub not correctly rounded {:?} {:?}", z, w);
    }
    // ---- mul
    let p = z * w;
    fin(p, "mul");
    let pr = da.mul(&dc).sub(&db.mul(&dd));
    let pi = da.mul(&dd).add(&db.mul(&dc));
    let pscale = pr.abs().max(&pi.abs());
    let mut record = |x: f64, num: &Dy, den: &Dy, scale: &Dy, what: &str, wst: &mut Worst| {
        let en = err_units(x, num, den, scale);
        if en > wst.norm {
            wst.norm = en;
            wst.norm_case = format!("{} z=({:e},{:e}) w=({:e},{:e})", what, a, b, c, d);
        }
        let ec = err_units(x, num, den, num);
        if ec > 64.0 {
            wst.comp_bad += 1;
        }
        if ec > wst.comp {
            wst.comp = ec;
            wst.comp_case = format!(
                "{} z=({:e},{:e}) w=({:e},{:e}) bits z=({:#x},{:#x}) w=({:#x},{:#x}) got {:e}",
                what, a, b, c, d, a.to_bits(), b.to_bits(), c.to_bits(), d.to_bits(), x
            );
        }
    };
    for (x, num, what) in [(p.real, &pr, "mul.re"), (p.imag, &pi, "mul.im")] {
        assert!(err_le(x, num, &one, &pscale, 16), "mul normwise error {} {:?} {:?} -> {:?}", what, z, w, p);
        record(x, num, &one, &pscale, what, wst);
    }
    // ---- div
    let wnz = c != 0.0 || d != 0.0;
    let mut q = Complex::new(0.0, 0.0);
    if wnz {
        q = z / w;
        fin(q, "div");
        let den = dc.mul(&dc).add(&dd.mul(&dd));
        let qr = da.mul(&dc).add(&db.mul(&dd));
        let qi = db.mul(&dc).sub(&da.mul(&dd));
        let qscale = qr.abs().max(&qi.abs());
        for (x, num, what) in [(q.real, &qr, "div.re"), (q.imag, &qi, "div.im")] {
            assert!(err_le(x, num, &den, &qscale, 32), "div normwise error {} {:?} {:?} -> {:?}", what, z, w, q);
            record(x, num, &den, &qscale, what, wst);
        }
    }
    // ---- assignment forms: bit-identical to binary forms
    let mut m = z;
    m += w;
    assert_eq!(bits(m), bits(s), "+= bits {:?} {:?}", z, w);
    let mut m = z;
    m -= w;
    assert_eq!(bits(m), bits(t), "-= bits {:?} {:?}", z, w);
    let mut m = z;
    m *= w;
    assert_eq!(bits(m), bits(p), "*= bits {:?} {:?}: {:?} vs {:?}", z, w, m, p);
    if wnz {
        let mut m = z;
        m /= w;
        assert_eq!(bits(m), bits(q), "/= bits {:?} {:?}: {:?} vs {:?}", z, w, m, q);
    }
    // self-aliased
    let mut m = z;
    m *= z;
    assert_eq!(bits(m), bits(z * z));
    if a != 0.0 || b != 0.0 {
        let mut m = z;
        m /= z;
        assert_eq!(bits(m), bits(z / z));
    }
    // ---- mixed real forms, scalar r in {c, d}
    for r in [c, d] {
        let dr = Dy::from_f64(r);
        let x = z + r;
        let y = z - r;
        let u = z * r;
        let ul = r * z;
        fin(x, "add r");
        fin(y, "sub r");
        fin(u, "mul r");
        assert_eq!(bits(u), bits(ul), "r*z vs z*r {:?} {}", z, r);
        assert_eq!(x.imag.to_bits(), b.to_bits());
        assert_eq!(y.imag.to_bits(), b.to_bits());
        let ex = da.add(&dr);
        assert!(err_le(x.real, &ex, &one, &ex, 1));
        let ey = da.sub(&dr);
        assert!(err_le(y.real, &ey, &one, &ey, 1));
        let (eur, eui) = (da.mul(&dr), db.mul(&dr));
        assert!(err_le(u.real, &eur, &one, &eur, 1) && err_le(u.imag, &eui, &one, &eui, 1), "z*r {:?} {}", z, r);
        let mut m = z;
        m += r;
        assert_eq!(bits(m), bits(x));
        let mut m = z;
        m -= r;
        assert_eq!(bits(m), bits(y));
        let mut m = z;
        m *= r;
        assert_eq!(bits(m), bits(u));
        if r != 0.0 {
            let v = z / r;
            fin(v, "div r");
            assert!(err_le(v.real, &da, &dr, &da, 1) && err_le(v.imag, &db, &dr, &db, 1), "z/r {:?} {}", z, r);
            let mut m = z;
            m /= r;
            assert_eq!(bits(m), bits(v));
        }
    }
    // ---- neg / conj / abs_sqr / abs / arg / Signed::abs
    let n = -z;
    assert!(n.real == -a && n.imag == -b);
    let cj = z.conj();
    assert!(cj.real.to_bits() == a.to_bits() && cj.imag == -b);
    let sq = z.abs_sqr();
    assert!(sq.is_finite());
    let esq = da.mul(&da).add(&db.mul(&db));
    assert!(err_le(sq, &esq, &one, &esq, 2), "abs_sqr {:?} -> {:e}", z, sq);
    let ab = z.abs();
    if a == 0.0 && b == 0.0 {
        assert!(ab == 0.0 && sq == 0.0);
    } else {
        assert!(sq > 0.0 && ab > 0.0);
        let lo = Dy::from_f64(f64::from_bits(ab.to_bits() - 4));
        let hi = Dy::from_f64(f64::from_bits(ab.to_bits() + 4));
        assert!(lo.mul(&lo).le(&esq) && esq.le(&hi.mul(&hi)), "abs {:?} -> {:e}", z, ab);
    }
    let sa = Signed::abs(&z);
    assert!(sa.real.to_bits() == ab.to_bits() && sa.imag == 0.0);
    let ar = z.arg();
    assert!(ar == b.atan2(a) && ar.abs() <= std::f64::consts::PI);
    if b == 0.0 && a > 0.0 {
        assert!(ar == 0.0);
    }
    if a == 0.0 && b > 0.0 {
        assert!(ar == std::f64::consts::FRAC_PI_2);
    }
    // ---- identities (value equality)
    let (z0, z1) = (Complex::<f64>::zero(), Complex::<f64>::one());
    assert!(z + z0 == z && z0 + z == z && z - z0 == z);
    assert!(z * z1 == z && z1 * z == z && z / z1 == z, "one identity {:?}", z);
    let mut m = z;
    m += z0;
    m *= z1;
    m /= z1;
    m -= z0;
    assert!(m == z);
    assert!(z * z0 == z0);
    // ---- order consistency
    check_order_pair(&z, &w, a, b, c, d);
}

fn new_worst() -> Worst {
    Worst { norm: 0.0, comp: 0.0, comp_case: String::new(), norm_case: String::new(), comp_bad: 0 }
}

#[test]
fn f64_random_pairs_full_range() {
    let mut r = Rng(0x1234567887654321);
    let mut w = new_worst();
    let n = 120_000;
    for i in 0..n {
        let (emin, emax) = match i % 4 {
            0 => (-332, 332),
            1 => (-4, 4),
            2 => (-332, -300),
            _ => (300, 332),
        };
        let a = rand_f(&mut r, emin, emax);
        let b = rand_f(&mut r, emin, emax);
        let c = rand_f(&mut r, emin, emax);
        let d = rand_f(&mut r, emin, emax);
        check_pair_f(a, b, c, d, &mut w);
    }
    tick(n);
    println!("f64_random_pairs_full_range: worst normwise {:.2} units [{}]", w.norm, w.norm_case);
    println!("   worst componentwise {:.3e} units [{}], >64 units: {}", w.comp, w.comp_case, w.comp_bad);
}

#[test]
fn f64_structured_pairs() {
    // exhaustive over a grid of special values
    let vals: Vec<f64> = vec![
        0.0, -0.0, 1.0, -1.0, 2.0, 0.5, 3.0, 1.0 / 3.0, 0.1, 1.0 + f64::EPSILON, 1.0 - f64::EPSILON / 2.0, HI, -HI, LO,
        -LO, 1e50, 1e-50, 1.5e100 / 2.0, 7e-100,
    ];
    let mut w = new_worst();
    let mut n = 0u64;
    for &a in &vals {
        for &b in &vals {
            for &c in &vals {
                for &d in &vals {
                    check_pair_f(a, b, c, d, &mut w);
                    n += 1;
                }
            }
        }
    }
    tick(n);
    println!("f64_structured_pairs: {} pairs, worst normwise {:.2} [{}]", n, w.norm, w.norm_case);
    println!("   worst componentwise {:.3e} [{}], >64 units: {}", w.comp, w.comp_case, w.comp_bad);
}

/// Componentwise reading of "to a few ulps": cancellation in ac-bd (product) and ac+bd / bc-ad (quotient).
/// Returns the worst case; does not assert (the assertion lives in `f64_componentwise_few_ulps`).
fn cancellation_hunt(n: u64, w: &mut Worst) {
    let mut r = Rng(0xABCDEF0123456789);
    for i in 0..n {
        let (emin, emax) = if i % 2 == 0 { (-3, 3) } else { (-160, 160) };
        let a = rand_nz(&mut r, emin, emax);
        let c = rand_nz(&mut r, emin, emax);
        let b = rand_nz(&mut r, emin, emax);
        // choose d so that a*c ~ b*d  (product real part cancels) or a*c ~ -b*d (quotient real part cancels)
        let mut d = a * c / b;
        if i % 4 >= 2 {
            d = -d;
        }
        if !in_dom(d) || d == 0.0 {
            continue;
        }
        match i % 3 {
            0 => check_pair_f(a, b, c, d, w),
            1 => check_pair_f(b, a, c, d, w), // imaginary parts cancel instead
            _ => check_pair_f(a, b, d, c, w),
        }
    }
}

#[test]
fn f64_cancellation_normwise_ok() {
    let mut w = new_worst();
    cancellation_hunt(60_000, &mut w);
    tick(60_000);
    println!("f64_cancellation: worst normwise {:.2} [{}]", w.norm, w.norm_case);
    println!("   worst componentwise {:.3e} [{}], >64 units: {}", w.comp, w.comp_case, w.comp_bad);
}

/// FINDING (componentwise reading only): this test FAILS on the current code.
#[test]
fn f64_componentwise_few_ulps() {
    let mut w = new_worst();
    cancellation_hunt(60_000, &mut w);
    assert!(
        w.comp <= 64.0,
        "component of a product/quotient wrong by {:.3e} ulps ({} cases > 64 ulps); worst: {}",
        w.comp,
        w.comp_bad,
        w.comp_case
    );
}

#[test]
fn f64_order_transitive_exhaustive() {
    let vals: Vec<f64> = vec![-HI, -1.0, -LO, -0.0, 0.0, LO, 1.0, 1.0 + f64::EPSILON, 2.0, HI];
    let mut zs: Vec<Complex<f64>> = Vec::new();
    for &a in &vals {
        for &b in &vals {
            zs.push(Complex::new(a, b));
        }
    }
    let k = zs.len();
    let mut n = 0u64;
    for i in 0..k {
        for j in 0..k {
            check_order_pair(&zs[i], &zs[j], zs[i].real, zs[i].imag, zs[j].real, zs[j].imag);
            for l in 0..k {
                let (x, y, z) = (zs[i], zs[j], zs[l]);
                if x < y && y < z {
                    assert!(x < z);
                }
                if x <= y && y <= z {
                    assert!(x <= z);
                }
                if x == y && y == z {
                    assert!(x == z);
                }
                if x == y && y < z {
                    assert!(x < z, "eq/lt compat {:?} {:?} {:?}", x, y, z);
                }
                if x < y && y == z {
                    assert!(x < z);
                }
                n += 1;
            }
        }
    }
    tick(n);
    // random triples too
    let mut r = Rng(4242);
    for _ in 0..100_000 {
        let mut g = |r: &mut Rng| {
            let pick = |r: &mut Rng| if r.below(2) == 0 { vals[r.below(vals.len() as u64) as usize] } else { rand_f(r, -332, 332) };
            Complex::new(pick(r), pick(r))
        };
        let (x, y, z) = (g(&mut r), g(&mut r), g(&mut r));
        check_order_pair(&x, &y, x.real, x.imag, y.real, y.imag);
        if x < y && y < z {
            assert!(x < z);
        }
        if x > y && y > z {
            assert!(x > z);
        }
    }
    tick(100_000);
}

#[test]
fn f64_triples_and_histories() {
    // field axioms up to rounding (normwise) on triples; histories: assignment chain == binary chain, bitwise
    let mut r = Rng(0x5151515151515151);
    let n = 100_000;
    for i in 0..n {
        let (emin, emax) = if i % 2 == 0 { (-30, 30) } else { (-100, 100) };
        let g = |r: &mut Rng| Complex::new(rand_f(r, emin, emax), rand_f(r, emin, emax));
        let (x, y, z) = (g(&mut r), g(&mut r), g(&mut r));
        let mut m = x;
        let mut f = x;
        for step in 0..6 {
            let w = if step % 2 == 0 { y } else { z };
            match r.below(8) {
                0 => {
                    m += w;
                    f = f + w;
                }
                1 => {
                    m -= w;
                    f = f - w;
                }
                2 => {
                    m *= w;
                    f = f * w;
                }
                3 => {
                    if w.real == 0.0 && w.imag == 0.0 {
                        continue;
                    }
                    m /= w;
                    f = f / w;
                }
                4 => {
                    m += w.real;
                    f = f + w.real;
                }
                5 => {
                    m -= w.imag;
                    f = f - w.imag;
                }
                6 => {
                    m *= w.real;
                    f = w.real * f;
                }
                _ => {
                    if w.imag == 0.0 {
                        continue;
                    }
                    m /= w.imag;
                    f = f / w.imag;
                }
            }
            assert_eq!(bits(m), bits(f), "history step {} diverged", step);
            if !(f.real.is_finite() && f.imag.is_finite()) {
                break; // left the non-overflowing range; nothing more is claimed
            }
        }
        let sc = x.abs() * y.abs() * z.abs();
        let lim = |v: f64| v == 0.0 || (v.abs() > 1e-45 && v.abs() < 1e45);
        if !(sc.is_finite() && sc > 1e-280 && sc < 1e280 && [x, y, z].iter().all(|c| lim(c.real) && lim(c.imag) && lim(c.abs()))) {
            continue; // products of three (and the naive abs() used by this check) would leave the safe range
        }
        // (x*y)*z vs x*(y*z) normwise
        let l = (x * y) * z;
        let rr = x * (y * z);
        let dn = (l - rr).abs();
        let sc = x.abs() * y.abs() * z.abs();
        assert!(dn <= 64.0 * f64::EPSILON * sc, "assoc {:?} {:?} {:?}: {:e} vs {:e}", x, y, z, dn, sc);
        // x*(y+z) vs x*y + x*z
        let l = x * (y + z);
        let rr = x * y + x * z;
        let dn = (l - rr).abs();
        let sc = x.abs() * (y.abs() + z.abs());
        assert!(dn <= 64.0 * f64::EPSILON * sc, "distrib");
        // (x/y)*y ~ x
        if y.real != 0.0 || y.imag != 0.0 {
            let l = (x / y) * y;
            assert!((l - x).abs() <= 64.0 * f64::EPSILON * x.abs(), "div-mul roundtrip {:?} {:?}", x, y);
        }
    }
    tick(n);
}

#[test]
fn zz_report_cases() {
    // runs last alphabetically only by luck; the count is informative, use --test-threads=1 for an exact figure
    println!("cases so far: {}", CASES.load(AO::Relaxed));
}
