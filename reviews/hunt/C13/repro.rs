// Repro for C13 (componentwise reading of "to a few ulps over f64"): catastrophic cancellation in the
// real/imaginary part of a complex product or quotient.  Normwise (relative to |result|) the results are fine.
use ohsl::Complex;

/// exact value of x*y - u*v for doubles whose products do not over/underflow, when the two rounded
/// products are within a factor two of each other (Sterbenz) and the residual sum is representable
fn exact_diff_of_products(x: f64, y: f64, u: f64, v: f64) -> f64 {
    let p1 = x * y;
    let e1 = x.mul_add(y, -p1); // exact rounding error of p1
    let p2 = u * v;
    let e2 = u.mul_add(v, -p2);
    (p1 - p2) + (e1 - e2)
}

#[test]
fn c13_product_real_part_lost_by_cancellation() {
    // (3 + i) * (fl(1/3) + i);  fl(1/3) = 6004799503160661 * 2^-54, so 3*fl(1/3) = 1 - 2^-54 exactly
    let t = 1.0f64 / 3.0;
    assert_eq!(t.to_bits(), 0x3fd5555555555555);
    assert_eq!(3u128 * 6004799503160661u128, (1u128 << 54) - 1);
    let exact_real = -(2.0f64.powi(-54)); // 3*t - 1*1
    assert_eq!(exact_diff_of_products(3.0, t, 1.0, 1.0), exact_real);
    let p = Complex::new(3.0, 1.0) * Complex::new(t, 1.0);
    // "a few ulps" componentwise would need |p.real - exact| <= k * 2^-52 * |exact|
    let err_ulps = (p.real - exact_real).abs() / (f64::EPSILON * exact_real.abs());
    assert!(err_ulps <= 64.0, "real part {:e}, exact {:e}: {:.3e} ulps off", p.real, exact_real, err_ulps);
}

#[test]
fn c13_product_real_part_wrong_by_factor_eight() {
    // (0.3 + 0.7i) * (3.5 + 1.5i): computed real part 2.22e-16, exact (for these doubles) 2.78e-17
    let (a, b, c, d) = (0.3f64, 0.7f64, 3.5f64, 1.5f64);
    let exact_real = exact_diff_of_products(a, c, b, d);
    let p = Complex::new(a, b) * Complex::new(c, d);
    let mut m = Complex::new(a, b);
    m *= Complex::new(c, d);
    assert_eq!(m.real.to_bits(), p.real.to_bits());
    let err_ulps = (p.real - exact_real).abs() / (f64::EPSILON * exact_real.abs());
    assert!(err_ulps <= 64.0, "real part {:e}, exact {:e}: {:.3e} ulps off", p.real, exact_real, err_ulps);
}

#[test]
fn c13_quotient_real_part_lost_by_cancellation() {
    // (3 + i) / (fl(1/3) - i): real numerator 3*t + 1*(-1) = -2^-54 exactly, denominator t^2 + 1 ~ 1.111
    let t = 1.0f64 / 3.0;
    let q = Complex::new(3.0, 1.0) / Complex::new(t, -1.0);
    let exact_real = -(2.0f64.powi(-54)) / (t * t + 1.0); // correct to ~1e-16 relative, ~ -4.996e-17
    let err_ulps = (q.real - exact_real).abs() / (f64::EPSILON * exact_real.abs());
    assert!(err_ulps <= 64.0, "real part {:e}, exact {:e}: {:.3e} ulps off", q.real, exact_real, err_ulps);
}
