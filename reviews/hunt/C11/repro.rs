// Reproductions for the C11 hunt: each test fails (panics inside the library) on the current code.
// Common root cause: eval() and derivative() call self.degree().unwrap(), which is Err for a polynomial
// with no coefficients -- and such polynomials are produced by the library itself (derivative of a
// constant, empty * p, empty + empty).
use ohsl::Polynomial;

// Derivative order degree+1 (named by the property) of 1 + 2x + 3x^2 at x = 2: the value is 0.
#[test]
fn derivative_at_order_degree_plus_one() {
    let p = Polynomial::<f64>::new(vec![1.0, 2.0, 3.0]);
    assert_eq!(p.derivative_n(3).size(), 0); // the zero polynomial, represented as the empty one
    assert_eq!(p.derivative_at(2.0, 2), 6.0); // fine
    assert_eq!(p.derivative_at(2.0, 3), 0.0); // panics: called `Result::unwrap()` on an `Err` value
}

// Same with a constant: first derivative of 5 evaluated anywhere is 0.
#[test]
fn derivative_at_of_constant() {
    let c = Polynomial::<f64>::new(vec![5.0]);
    assert_eq!(c.derivative_at(7.0, 1), 0.0); // panics
}

// The value of a product at a point equals the product of the operands' values; the empty polynomial acts as zero.
#[test]
fn eval_of_empty_product_and_sum() {
    let e = Polynomial::<f64>::empty();
    let p = Polynomial::<f64>::new(vec![1.0, 2.0, 3.0]);
    let prod = &e * &p; // empty
    assert_eq!(prod.size(), 0);
    assert_eq!(prod.eval(2.0), 0.0 * p.eval(2.0)); // panics
    assert_eq!((&e + &e).eval(2.0), 0.0); // panics as well
}

// Differentiation is linear, also when one operand is the empty (zero) polynomial.
#[test]
fn derivative_of_empty_polynomial() {
    let e = Polynomial::<f64>::empty();
    let p = Polynomial::<f64>::new(vec![1.0, 2.0, 3.0]);
    let lhs = (&e + &p).derivative(); // 2 + 6x
    let rhs = &e.derivative() + &p.derivative(); // panics in e.derivative()
    assert_eq!(lhs.size(), rhs.size());
    for i in 0..lhs.size() {
        assert_eq!(lhs[i], rhs[i]);
    }
}
