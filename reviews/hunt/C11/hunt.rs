// Property hunt for C11: polynomial arithmetic, evaluation and differentiation obey ring and calculus laws.
// Independent oracle: coefficient lists over exact Gaussian rationals (i128 numerator / denominator).
use ohsl::{Complex, Number, One, Polynomial, Signed, Zero};
use std::ops::{Add, AddAssign, Div, DivAssign, Mul, MulAssign, Neg, Sub, SubAssign};
use std::panic::{catch_unwind, AssertUnwindSafe};

// ---------------------------------------------------------------- exact rationals
fn gcd(a: i128, b: i128) -> i128 {
    let (mut a, mut b) = (a.abs(), b.abs());
    while b != 0 {
        let t = a % b;
        a = b;
        b = t;
    }
    a
}

#[derive(Clone, Copy, Debug, PartialEq, Eq)]
pub struct Rat {
    n: i128,
    d: i128,
}

impl Rat {
    fn new(n: i128, d: i128) -> Rat {
        assert!(d != 0, "RAT zero denominator");
        let g = gcd(n, d);
        let (mut n, mut d) = if g == 0 { (0, 1) } else { (n / g, d / g) };
        if d < 0 {
            n = -n;
            d = -d;
        }
        Rat { n, d }
    }
    fn int(n: i128) -> Rat {
        Rat { n, d: 1 }
    }
}
const OVF: &str = "RAT OVERFLOW (oracle range exceeded)";
impl Add for Rat {
    type Output = Rat;
    fn add(self, o: Rat) -> Rat {
        let g = gcd(self.d, o.d);
        let l = (self.d / g).checked_mul(o.d).expect(OVF);
        let x = self.n.checked_mul(l / self.d).expect(OVF);
        let y = o.n.checked_mul(l / o.d).expect(OVF);
        Rat::new(x.checked_add(y).expect(OVF), l)
    }
}
impl Neg for Rat {
    type Output = Rat;
    fn neg(self) -> Rat {
        Rat { n: -self.n, d: self.d }
    }
}
impl Sub for Rat {
    type Output = Rat;
    fn sub(self, o: Rat) -> Rat {
        self + (-o)
    }
}
impl Mul for Rat {
    type Output = Rat;
    fn mul(self, o: Rat) -> Rat {
        let g1 = gcd(self.n, o.d).max(1);
        let g2 = gcd(o.n, self.d).max(1);
        let n = (self.n / g1).checked_mul(o.n / g2).expect(OVF);
        let d = (self.d / g2).checked_mul(o.d / g1).expect(OVF);
        Rat::new(n, d)
    }
}
impl Div for Rat {
    type Output = Rat;
    fn div(self, o: Rat) -> Rat {
        assert!(o.n != 0, "RAT division by zero");
        self * Rat::new(o.d, o.n)
    }
}
impl AddAssign for Rat {
    fn add_assign(&mut self, o: Rat) {
        *self = *self + o;
    }
}
impl SubAssign for Rat {
    fn sub_assign(&mut self, o: Rat) {
        *self = *self - o;
    }
}
impl MulAssign for Rat {
    fn mul_assign(&mut self, o: Rat) {
        *self = *self * o;
    }
}
impl DivAssign for Rat {
    fn div_assign(&mut self, o: Rat) {
        *self = *self / o;
    }
}
impl Zero for Rat {
    fn zero() -> Rat {
        Rat::int(0)
    }
}
impl One for Rat {
    fn one() -> Rat {
        Rat::int(1)
    }
}
impl Number for Rat {}
impl Signed for Rat {
    fn abs(&self) -> Rat {
        Rat { n: self.n.abs(), d: self.d }
    }
}

// ---------------------------------------------------------------- model scalar: Gaussian rational
#[derive(Clone, Copy, Debug, PartialEq, Eq)]
struct G {
    re: Rat,
    im: Rat,
}
impl G {
    fn new(re: Rat, im: Rat) -> G {
        G { re, im }
    }
    fn real(re: Rat) -> G {
        G { re, im: Rat::int(0) }
    }
    fn int(n: i128) -> G {
        G::real(Rat::int(n))
    }
    fn zero() -> G {
        G::int(0)
    }
    fn add(self, o: G) -> G {
        G::new(self.re + o.re, self.im + o.im)
    }
    fn sub(self, o: G) -> G {
        G::new(self.re - o.re, self.im - o.im)
    }
    fn neg(self) -> G {
        G::new(-self.re, -self.im)
    }
    fn mul(self, o: G) -> G {
        G::new(self.re * o.re - self.im * o.im, self.re * o.im + self.im * o.re)
    }
    fn is_zero(self) -> bool {
        self.re.n == 0 && self.im.n == 0
    }
}

// exact f64 <-> Rat
fn f2r(x: f64) -> Rat {
    assert!(x.is_finite(), "non-finite f64 {x}");
    if x == 0.0 {
        return Rat::int(0);
    }
    let bits = x.to_bits();
    let sign: i128 = if bits >> 63 == 1 { -1 } else { 1 };
    let e = ((bits >> 52) & 0x7ff) as i32;
    let frac = (bits & ((1u64 << 52) - 1)) as i128;
    let (mut m, mut ex) = if e == 0 { (frac, -1074) } else { (frac | (1i128 << 52), e - 1075) };
    while m % 2 == 0 {
        m /= 2;
        ex += 1;
    }
    assert!(ex > -100 && ex < 70, "f64 {x} outside the oracle range");
    if ex >= 0 {
        Rat::new(sign * m * (1i128 << ex), 1)
    } else {
        Rat::new(sign * m, 1i128 << (-ex))
    }
}
fn r2f(r: Rat) -> f64 {
    let v = (r.n as f64) / (r.d as f64);
    assert_eq!(f2r(v), r, "generator produced a non-representable f64");
    v
}

trait El: Copy + Number + Signed + std::fmt::Debug + 'static {
    const NAME: &'static str;
    const MAXDER_PRODUCT: usize;
    fn from_g(g: G) -> Self;
    fn to_g(self) -> G;
    fn gen_coef(r: &mut Rng, class: usize) -> G;
    fn points() -> Vec<G>;
}
impl El for Rat {
    const NAME: &'static str = "Rat";
    const MAXDER_PRODUCT: usize = 17;
    fn from_g(g: G) -> Rat {
        assert!(g.im.n == 0);
        g.re
    }
    fn to_g(self) -> G {
        G::real(self)
    }
    fn gen_coef(r: &mut Rng, class: usize) -> G {
        const DEN: [i128; 9] = [1, 2, 3, 4, 5, 6, 8, 10, 12];
        match class % 4 {
            0 => G::real(Rat::new(r.range(-20, 20), DEN[r.below(9)])),
            1 => G::int(r.range(-9, 9)),
            2 => G::real(Rat::new([1, -1, 1, -1, 0][r.below(5)], DEN[r.below(9)])),
            _ => G::real(Rat::new(r.range(-3, 3), [1, 2, 4, 8][r.below(4)])),
        }
    }
    fn points() -> Vec<G> {
        let mut v = vec![];
        for (p, q) in [(0, 1), (1, 1), (-1, 1), (2, 1), (-3, 1), (9, 1), (1, 2), (-1, 3), (5, 4), (-7, 5), (9, 7), (-2, 7), (3, 5)] {
            v.push(G::real(Rat::new(p, q)));
        }
        v
    }
}
impl El for f64 {
    const NAME: &'static str = "f64";
    const MAXDER_PRODUCT: usize = 8;
    fn from_g(g: G) -> f64 {
        assert!(g.im.n == 0);
        r2f(g.re)
    }
    fn to_g(self) -> G {
        G::real(f2r(self))
    }
    fn gen_coef(r: &mut Rng, class: usize) -> G {
        match class % 5 {
            0 => G::int(r.range(-16, 16)),
            1 => G::int(r.range(-3, 3)),
            2 => G::int([1, -1][r.below(2)]),
            3 => G::real(Rat::new(r.range(-16, 16), 8)), // dyadic fractions: still exactly representable
            _ => G::int([1, -1][r.below(2)] * (1i128 << r.below(7))),
        }
    }
    fn points() -> Vec<G> {
        let mut v = vec![];
        for (p, q) in [(0, 1), (1, 1), (-1, 1), (2, 1), (-2, 1), (3, 1), (-3, 1), (1, 2), (-1, 2), (3, 2), (-3, 2), (1, 4), (-1, 4)] {
            v.push(G::real(Rat::new(p, q)));
        }
        v
    }
}
impl El for Complex<f64> {
    const NAME: &'static str = "Complex<f64>";
    const MAXDER_PRODUCT: usize = 8;
    fn from_g(g: G) -> Complex<f64> {
        Complex::new(r2f(g.re), r2f(g.im))
    }
    fn to_g(self) -> G {
        G::new(f2r(self.real), f2r(self.imag))
    }
    fn gen_coef(r: &mut Rng, class: usize) -> G {
        match class % 7 {
            6 => G::new(Rat::new(r.range(-9, 9), 4), Rat::new(r.range(-9, 9), 4)), // dyadic fractions
            0 => G::new(Rat::int(r.range(-9, 9)), Rat::int(r.range(-9, 9))),
            1 => G::new(Rat::int(r.range(-9, 9)), Rat::int(0)),
            2 => G::new(Rat::int(0), Rat::int(r.range(-9, 9))),
            3 => [G::int(1), G::int(-1), G::new(Rat::int(0), Rat::int(1)), G::new(Rat::int(0), Rat::int(-1))][r.below(4)],
            4 => {
                let m = Rat::int([1, -1][r.below(2)] * (1i128 << r.below(7)));
                if r.below(2) == 0 { G::new(m, Rat::int(0)) } else { G::new(Rat::int(0), m) }
            }
            _ => G::new(Rat::int(r.range(-2, 2)), Rat::int(r.range(-2, 2))),
        }
    }
    fn points() -> Vec<G> {
        let mut v = vec![];
        for (a, b, q) in [
            (0, 0, 1), (1, 0, 1), (-1, 0, 1), (0, 1, 1), (0, -1, 1), (1, 1, 1), (-1, 2, 1), (2, -2, 1), (2, 0, 1), (0, -2, 1),
            (1, 1, 2), (-1, 1, 2), (3, 0, 2), (0, 3, 2), (1, -2, 2), (1, 0, 4), (-1, 1, 4),
        ] {
            v.push(G::new(Rat::new(a, q), Rat::new(b, q)));
        }
        v
    }
}

// ---------------------------------------------------------------- generator
struct Rng(u64);
impl Rng {
    fn next(&mut self) -> u64 {
        let mut x = self.0;
        x ^= x << 13;
        x ^= x >> 7;
        x ^= x << 17;
        self.0 = x;
        x.wrapping_mul(0x2545F4914F6CDD1D)
    }
    fn below(&mut self, n: usize) -> usize {
        ((self.next() >> 33) % n as u64) as usize
    }
    fn range(&mut self, lo: i128, hi: i128) -> i128 {
        lo + self.below((hi - lo + 1) as usize) as i128
    }
}

const NSHAPES: usize = 12;
fn gen_list<T: El>(r: &mut Rng, len: usize, shape: usize, class: usize) -> Vec<G> {
    let mut v: Vec<G> = (0..len).map(|_| T::gen_coef(r, class)).collect();
    if len == 0 {
        return v;
    }
    match shape % NSHAPES {
        0 => {}
        1 => v[len - 1] = G::zero(), // leading zero
        2 => v[0] = G::zero(),       // zero constant term
        3 => {
            for x in v.iter_mut() {
                *x = G::zero();
            }
        } // zero polynomial of this length
        4 => {
            let k = r.below(len);
            for (i, x) in v.iter_mut().enumerate() {
                if i != k {
                    *x = G::zero();
                }
            }
        } // monomial
        5 => {
            let c = v[0];
            for x in v.iter_mut() {
                *x = c;
            }
        } // repeated value
        6 => {
            for i in (len / 2)..len {
                v[i] = G::zero();
            }
        } // several leading zeros
        7 => {
            for i in 0..len {
                if i % 2 == 1 {
                    v[i] = G::zero();
                }
            }
        } // even
        8 => {
            for i in 0..len {
                if i % 2 == 0 {
                    v[i] = G::zero();
                }
            }
        } // odd
        9 => {
            for i in 0..len {
                if r.below(2) == 0 {
                    v[i] = G::zero();
                }
            }
        } // sparse
        10 => {
            let c = v[0];
            for (i, x) in v.iter_mut().enumerate() {
                *x = if i % 2 == 0 { c } else { c.neg() };
            }
        } // alternating
        _ => {
            for i in 0..len {
                v[i] = v[i].add(G::int(i as i128)); // trending
            }
        }
    }
    v
}

// ---------------------------------------------------------------- model on coefficient lists
fn m_add(a: &[G], b: &[G]) -> Vec<G> {
    if a.is_empty() {
        return b.to_vec();
    }
    if b.is_empty() {
        return a.to_vec();
    }
    let n = a.len().max(b.len());
    (0..n).map(|i| a.get(i).copied().unwrap_or(G::zero()).add(b.get(i).copied().unwrap_or(G::zero()))).collect()
}
fn m_neg(a: &[G]) -> Vec<G> {
    a.iter().map(|x| x.neg()).collect()
}
fn m_sub(a: &[G], b: &[G]) -> Vec<G> {
    m_add(a, &m_neg(b))
}
fn m_mul(a: &[G], b: &[G]) -> Vec<G> {
    if a.is_empty() || b.is_empty() {
        return vec![];
    }
    let mut out = vec![G::zero(); a.len() + b.len() - 1];
    for k in 0..out.len() {
        // textbook: c_k = sum_{i+j=k} a_i b_j
        let mut s = G::zero();
        for i in 0..=k {
            if i < a.len() && k - i < b.len() {
                s = s.add(a[i].mul(b[k - i]));
            }
        }
        out[k] = s;
    }
    out
}
fn m_scale(a: &[G], s: G) -> Vec<G> {
    a.iter().map(|x| x.mul(s)).collect()
}
fn m_eval(a: &[G], x: G) -> G {
    // explicit powers, not Horner; empty list is the zero polynomial
    let mut pw = G::int(1);
    let mut s = G::zero();
    for c in a {
        s = s.add(c.mul(pw));
        pw = pw.mul(x);
    }
    s
}
fn m_der_n(a: &[G], n: usize) -> Vec<G> {
    // k-th coefficient of the n-th derivative: (k+n)!/k! a_{k+n}
    if a.len() <= n {
        return vec![];
    }
    (0..a.len() - n)
        .map(|k| {
            let mut f: i128 = 1;
            for j in 1..=n {
                f *= (k + j) as i128;
            }
            a[k + n].mul(G::int(f))
        })
        .collect()
}

fn mk<T: El>(a: &[G]) -> Polynomial<T> {
    if a.is_empty() {
        Polynomial::<T>::empty()
    } else {
        Polynomial::<T>::new(a.iter().map(|g| T::from_g(*g)).collect())
    }
}
fn read<T: El>(p: &Polynomial<T>) -> Vec<G> {
    // through the public read-only views: size(), degree(), index operator
    let n = p.size();
    match p.degree() {
        Ok(d) => assert_eq!(d + 1, n, "degree() inconsistent with size()"),
        Err(_) => assert_eq!(n, 0, "degree() is Err for a non-empty polynomial"),
    }
    (0..n).map(|i| p[i].to_g()).collect()
}

macro_rules! ck {
    ($lhs:expr, $rhs:expr, $($arg:tt)*) => {
        let (l, r) = (&$lhs, &$rhs);
        if l != r {
            return Err(format!("{}: got {:?} expected {:?}", format!($($arg)*), l, r));
        }
    };
}

fn ev<T: El>(p: &Polynomial<T>, x: G) -> G {
    p.eval(T::from_g(x)).to_g()
}

// Evaluate the library polynomial, treating an empty one as zero (eval panics on it; counted separately)
fn ev0<T: El>(p: &Polynomial<T>, x: G) -> G {
    if p.size() == 0 { G::zero() } else { ev(p, x) }
}

fn check_pair<T: El>(a: &[G], b: &[G], s: G, xs: &[G], checks: &mut u64) -> Result<(), String> {
    let pa = mk::<T>(a);
    let pb = mk::<T>(b);
    ck!(read(&pa), a.to_vec(), "constructor a");
    ck!(read(&pb), b.to_vec(), "constructor b");

    // ---- every operator form
    let sum_r = &pa + &pb;
    let sum_v = pa.clone() + pb.clone();
    let dif_r = &pa - &pb;
    let dif_v = pa.clone() - pb.clone();
    let prd_r = &pa * &pb;
    let prd_v = pa.clone() * pb.clone();
    let neg_r = -&pa;
    let neg_v = -pa.clone();
    let scl_r = &pa * T::from_g(s);
    let scl_v = pa.clone() * T::from_g(s);
    // operands untouched by the by-reference forms
    ck!(read(&pa), a.to_vec(), "operand a after by-ref ops");
    ck!(read(&pb), b.to_vec(), "operand b after by-ref ops");

    let (ms, md, mp, mn, mc) = (m_add(a, b), m_sub(a, b), m_mul(a, b), m_neg(a), m_scale(a, s));
    ck!(read(&sum_r), ms, "&a + &b");
    ck!(read(&sum_v), ms, "a + b");
    ck!(read(&dif_r), md, "&a - &b");
    ck!(read(&dif_v), md, "a - b");
    ck!(read(&prd_r), mp, "&a * &b");
    ck!(read(&prd_v), mp, "a * b");
    ck!(read(&neg_r), mn, "-&a");
    ck!(read(&neg_v), mn, "-a");
    ck!(read(&scl_r), mc, "&a * s");
    ck!(read(&scl_v), mc, "a * s");
    *checks += 10;

    // degrees combine as expected
    if !a.is_empty() && !b.is_empty() {
        ck!(sum_r.degree(), Ok(a.len().max(b.len()) - 1), "deg(a+b)");
        ck!(dif_r.degree(), Ok(a.len().max(b.len()) - 1), "deg(a-b)");
        ck!(prd_r.degree(), Ok(a.len() + b.len() - 2), "deg(a*b)");
    } else {
        ck!(prd_r.degree().is_err(), true, "empty * p is empty");
        ck!(prd_r.size(), 0, "empty * p is empty");
        if a.is_empty() && !b.is_empty() {
            ck!(sum_r.degree(), Ok(b.len() - 1), "deg(empty+b)");
            ck!(dif_r.degree(), Ok(b.len() - 1), "deg(empty-b)");
        }
        if b.is_empty() && !a.is_empty() {
            ck!(sum_r.degree(), Ok(a.len() - 1), "deg(a+empty)");
            ck!(dif_r.degree(), Ok(a.len() - 1), "deg(a-empty)");
        }
    }

    // commutativity and a few ring identities at the coefficient level
    ck!(read(&(&pb + &pa)), ms, "&b + &a");
    ck!(read(&(&pb * &pa)), mp, "&b * &a");
    ck!(read(&(&pb - &pa)), m_neg(&md), "&b - &a == -(a - b)");
    ck!(read(&(&sum_r - &pb)), m_sub(&ms, b), "(a+b)-b");
    ck!(read(&(&pa + &neg_r)), m_add(a, &mn), "a + (-a)");
    if !(&pa + &neg_r).is_zero() {
        return Err("a + (-a) is not zero".into());
    }
    if !(&pa - &pa).is_zero() {
        return Err("a - a is not zero".into());
    }
    // distributivity: a*(a+b) == a*a + a*b (values; lengths may legitimately differ only through empties)
    {
        let lhs = &pa * &sum_r;
        let rhs = &(&pa * &pa) + &prd_r;
        ck!(read(&lhs), m_mul(a, &ms), "a*(a+b)");
        ck!(read(&rhs), m_add(&m_mul(a, a), &mp), "a*a + a*b");
        for &x in xs.iter().take(4) {
            ck!(ev0(&lhs, x), ev0(&rhs, x), "distributivity value at {:?}", x);
        }
    }
    *checks += 8;

    // ---- evaluation is a ring homomorphism
    for &x in xs {
        let va = m_eval(a, x);
        let vb = m_eval(b, x);
        if !a.is_empty() {
            ck!(ev(&pa, x), va, "eval a at {:?}", x);
            ck!(ev(&neg_r, x), va.neg(), "eval -a at {:?}", x);
            ck!(ev(&scl_r, x), va.mul(s), "eval a*s at {:?}", x);
            *checks += 3;
        }
        if !b.is_empty() {
            ck!(ev(&pb, x), vb, "eval b at {:?}", x);
        }
        if sum_r.size() > 0 {
            ck!(ev(&sum_r, x), va.add(vb), "eval a+b at {:?}", x);
            ck!(ev(&dif_r, x), va.sub(vb), "eval a-b at {:?}", x);
            // against the library's own values of the operands
            ck!(ev(&sum_r, x), ev0(&pa, x).add(ev0(&pb, x)), "eval(a+b) = eval a + eval b at {:?}", x);
            ck!(ev(&dif_r, x), ev0(&pa, x).sub(ev0(&pb, x)), "eval(a-b) = eval a - eval b at {:?}", x);
            *checks += 4;
        }
        if prd_r.size() > 0 {
            ck!(ev(&prd_r, x), va.mul(vb), "eval a*b at {:?}", x);
            ck!(ev(&prd_r, x), ev(&pa, x).mul(ev(&pb, x)), "eval(a*b) = eval a * eval b at {:?}", x);
            *checks += 2;
        }
    }

    // ---- differentiation
    for (p, l, name) in [(&pa, a, "a"), (&pb, b, "b")] {
        if l.is_empty() {
            continue;
        }
        let deg = l.len() - 1;
        ck!(read(&p.derivative()), m_der_n(l, 1), "{}.derivative()", name);
        let mut it = p.clone();
        for n in 0..=deg + 1 {
            let dn = p.derivative_n(n);
            let mdn = m_der_n(l, n);
            ck!(read(&dn), mdn, "{}.derivative_n({})", name, n);
            ck!(read(&it), mdn, "{} differentiated {} times step by step", name, n);
            ck!(dn.size(), l.len() - n.min(l.len()), "size of derivative_n({})", n);
            if n <= deg {
                for &x in xs.iter() {
                    ck!(p.derivative_at(T::from_g(x), n).to_g(), m_eval(&mdn, x), "{}.derivative_at({:?}, {})", name, x, n);
                    *checks += 1;
                }
                it = it.derivative();
            } else if !dn.is_zero() {
                return Err(format!("{}.derivative_n(deg+1) is not zero", name));
            }
            *checks += 3;
        }
        ck!(read(p), l.to_vec(), "operand after differentiation");
    }
    // linearity and product rule (operands non-empty: derivative() of the empty polynomial panics; counted separately)
    if !a.is_empty() {
        ck!(read(&scl_r.derivative()), m_scale(&m_der_n(a, 1), s), "(s a)'");
        ck!(read(&scl_r.derivative()), read(&(&pa.derivative() * T::from_g(s))), "(s a)' == s a'");
        ck!(read(&neg_r.derivative()), read(&(-&pa.derivative())), "(-a)' == -(a')");
    }
    if !a.is_empty() && !b.is_empty() {
        let (da, db) = (pa.derivative(), pb.derivative());
        ck!(read(&sum_r.derivative()), read(&(&da + &db)), "(a+b)' == a' + b'");
        ck!(read(&dif_r.derivative()), read(&(&da - &db)), "(a-b)' == a' - b'");
        ck!(read(&sum_r.derivative()), m_der_n(&ms, 1), "(a+b)'");
        ck!(read(&dif_r.derivative()), m_der_n(&md, 1), "(a-b)'");
        let lhs = prd_r.derivative();
        let rhs = &(&da * &pb) + &(&pa * &db);
        ck!(read(&lhs), read(&rhs), "(ab)' == a'b + ab'");
        ck!(read(&lhs), m_der_n(&mp, 1), "(ab)'");
        ck!(read(&lhs), m_add(&m_mul(&m_der_n(a, 1), b), &m_mul(a, &m_der_n(b, 1))), "(ab)' vs model product rule");
        // higher derivatives of sums and products (linearity of derivative_n, Leibniz via the model)
        let top = (mp.len()).min(T::MAXDER_PRODUCT);
        for n in 0..=top {
            ck!(read(&prd_r.derivative_n(n)), m_der_n(&mp, n), "(ab)^({})", n);
            if n <= ms.len() {
                ck!(read(&sum_r.derivative_n(n)), m_add(&m_der_n(a, n), &m_der_n(b, n)), "(a+b)^({}) == a^({}) + b^({})", n, n, n);
            }
            *checks += 2;
        }
        // second-order Leibniz with library operations only
        if a.len() >= 3 && b.len() >= 3 {
            let two = T::one() + T::one();
            let l2 = prd_r.derivative_n(2);
            let r2 = &(&(&pa.derivative_n(2) * &pb) + &(&(&da * &db) * two)) + &(&pa * &pb.derivative_n(2));
            ck!(read(&l2), read(&r2), "(ab)'' == a''b + 2a'b' + ab''");
        }
        *checks += 8;
    }
    Ok(())
}

fn run_type<T: El>(seed: u64, iters: usize) -> (u64, u64, Vec<String>) {
    let mut r = Rng(seed);
    let xs_all = T::points();
    let mut fails = vec![];
    let mut cases = 0u64;
    let mut checks = 0u64;
    for it in 0..iters {
        // all 100 length pairs are cycled through; shapes and classes vary independently
        let la = it % 10;
        let lb = (it / 10) % 10;
        let (sa, sb) = (r.below(NSHAPES), r.below(NSHAPES));
        let (ca, cb) = (r.below(420), r.below(420));
        let a = gen_list::<T>(&mut r, la, sa, ca);
        let b = match r.below(12) {
            0 => a.clone(),       // b == a
            1 => m_neg(&a),       // b == -a (full cancellation)
            2 if la > 0 => {
                // cancels the leading term only, same length
                let mut b = gen_list::<T>(&mut r, la, 0, ca);
                b[la - 1] = a[la - 1].neg();
                b
            }
            _ => gen_list::<T>(&mut r, lb, sb, cb),
        };
        let s = match r.below(6) {
            0 => G::zero(),
            1 => G::int(1),
            2 => G::int(-1),
            _ => { let c = r.below(420); T::gen_coef(&mut r, c) }
        };
        // a rotating window of evaluation points (all points are visited many times over the run)
        let k = r.below(xs_all.len());
        let xs: Vec<G> = (0..5).map(|j| xs_all[(k + j * 3) % xs_all.len()]).collect();
        cases += 1;
        let res = catch_unwind(AssertUnwindSafe(|| check_pair::<T>(&a, &b, s, &xs, &mut checks)));
        let msg = match res {
            Ok(Ok(())) => continue,
            Ok(Err(m)) => m,
            Err(e) => format!(
                "PANIC: {}",
                e.downcast_ref::<String>().cloned().or_else(|| e.downcast_ref::<&str>().map(|s| s.to_string())).unwrap_or_default()
            ),
        };
        if fails.len() < 10 {
            fails.push(format!("[{}] a={:?}\n b={:?}\n s={:?}\n {}", T::NAME, a, b, s, msg));
        }
    }
    (cases, checks, fails)
}

fn report(name: &str, res: (u64, u64, Vec<String>)) {
    println!("{name}: {} pairs, {} individual comparisons, {} failures", res.0, res.1, res.2.len());
    for f in &res.2 {
        println!("FAIL {f}");
    }
    assert!(res.2.is_empty(), "{} failures", res.2.len());
}

const ITERS: usize = 120_000;

#[test]
fn hunt_rat() {
    std::panic::set_hook(Box::new(|_| {}));
    report("Rat", run_type::<Rat>(0x9E3779B97F4A7C15, ITERS));
}
#[test]
fn hunt_f64() {
    std::panic::set_hook(Box::new(|_| {}));
    report("f64", run_type::<f64>(0xD1B54A32D192ED03, ITERS));
}
#[test]
fn hunt_complex() {
    std::panic::set_hook(Box::new(|_| {}));
    report("Complex<f64>", run_type::<Complex<f64>>(0x2545F4914F6CDD1D, ITERS));
}

// ---------------------------------------------------------------- exhaustive small cases
// all pairs of lists over {-1,0,1} (f64) of length 0..=3, every point in -2..=2: 121 x 121 pairs
#[test]
fn exhaustive_tiny_f64() {
    std::panic::set_hook(Box::new(|_| {}));
    let mut lists: Vec<Vec<G>> = vec![vec![]];
    for len in 1..=4usize {
        let n = 3usize.pow(len as u32);
        for mut k in 0..n {
            let mut v = vec![];
            for _ in 0..len {
                v.push(G::int((k % 3) as i128 - 1));
                k /= 3;
            }
            lists.push(v);
        }
    }
    let xs: Vec<G> = vec![G::int(-2), G::int(0), G::int(1), G::real(Rat::new(1, 2)), G::int(3)];
    let mut checks = 0;
    let mut n = 0u64;
    for a in &lists {
        for b in &lists {
            for s in [G::int(0), G::int(-2)] {
                n += 1;
                let r = catch_unwind(AssertUnwindSafe(|| check_pair::<f64>(a, b, s, &xs, &mut checks)));
                match r {
                    Ok(Ok(())) => {}
                    Ok(Err(m)) => panic!("a={a:?} b={b:?} s={s:?}: {m}"),
                    Err(_) => panic!("a={a:?} b={b:?} s={s:?}: library panicked"),
                }
            }
        }
    }
    println!("exhaustive tiny f64: {n} cases, {checks} comparisons");
}

// ---------------------------------------------------------------- associativity / distributivity over triples (coefficients only)
fn triples<T: El>(seed: u64, iters: usize) {
    let mut r = Rng(seed);
    for it in 0..iters {
        let (la, lb, lc) = (it % 7, (it / 7) % 7, (it / 49) % 7);
        let (s1, s2, s3) = (r.below(NSHAPES), r.below(NSHAPES), r.below(NSHAPES));
        let a = gen_list::<T>(&mut r, la, s1, 1);
        let b = gen_list::<T>(&mut r, lb, s2, 1);
        let c = gen_list::<T>(&mut r, lc, s3, 1);
        let (pa, pb, pc) = (mk::<T>(&a), mk::<T>(&b), mk::<T>(&c));
        assert_eq!(read(&(&(&pa + &pb) + &pc)), read(&(&pa + &(&pb + &pc))), "assoc + {a:?} {b:?} {c:?}");
        assert_eq!(read(&(&(&pa * &pb) * &pc)), read(&(&pa * &(&pb * &pc))), "assoc * {a:?} {b:?} {c:?}");
        assert_eq!(read(&(&(&pa * &pb) * &pc)), m_mul(&m_mul(&a, &b), &c), "triple product {a:?} {b:?} {c:?}");
        // distributivity: exact coefficient equality when b, c non-empty or both empty; otherwise value equality
        let lhs = read(&(&pa * &(&pb + &pc)));
        let rhs = read(&(&(&pa * &pb) + &(&pa * &pc)));
        assert_eq!(lhs, m_mul(&a, &m_add(&b, &c)));
        assert_eq!(rhs, m_add(&m_mul(&a, &b), &m_mul(&a, &c)));
        for x in T::points().into_iter().take(5) {
            assert_eq!(m_eval(&lhs, x), m_eval(&rhs, x), "distributivity {a:?} {b:?} {c:?}");
        }
        let lhs = read(&(&pa * &(&pb - &pc)));
        let rhs = read(&(&(&pa * &pb) - &(&pa * &pc)));
        for x in T::points().into_iter().take(5) {
            assert_eq!(m_eval(&lhs, x), m_eval(&rhs, x), "distributivity(-) {a:?} {b:?} {c:?}");
        }
    }
}
#[test]
fn triples_all_types() {
    triples::<Rat>(11, 30_000);
    triples::<f64>(12, 30_000);
    triples::<Complex<f64>>(13, 30_000);
}

// ---------------------------------------------------------------- constructors, index-mut / coeffs() edits, trim, is_zero
#[test]
fn constructors_and_edits() {
    let mut r = Rng(77);
    for _ in 0..20_000 {
        let v: Vec<G> = (0..4).map(|_| f64::gen_coef(&mut r, 0)).collect();
        let f: Vec<f64> = v.iter().map(|g| f64::from_g(*g)).collect();
        let q = Polynomial::quadratic(f[0], f[1], f[2]);
        assert_eq!(read(&q), vec![v[2], v[1], v[0]]);
        let c = Polynomial::cubic(f[0], f[1], f[2], f[3]);
        assert_eq!(read(&c), vec![v[3], v[2], v[1], v[0]]);
        let x = G::int(r.range(-3, 3));
        assert_eq!(ev(&c, x), m_eval(&[v[3], v[2], v[1], v[0]], x));
        // a history of edits on one object; every read-only view after each step
        let len = r.below(9) + 1;
        let sh = r.below(NSHAPES);
        let mut m = gen_list::<f64>(&mut r, len, sh, 0);
        let mut p = mk::<f64>(&m);
        for _ in 0..6 {
            match r.below(4) {
                0 => {
                    let i = r.below(m.len());
                    let g = f64::gen_coef(&mut r, 1);
                    p[i] = f64::from_g(g);
                    m[i] = g;
                }
                1 if m.len() < 9 => {
                    let g = f64::gen_coef(&mut r, 1);
                    p.coeffs().push(f64::from_g(g));
                    m.push(g);
                }
                2 if m.len() > 1 => {
                    p.coeffs().pop();
                    m.pop();
                }
                _ => {
                    p.trim();
                    while m.len() > 1 && m[m.len() - 1].is_zero() {
                        m.pop();
                    }
                }
            }
            assert_eq!(read(&p), m);
            assert_eq!(p.is_zero(), m.iter().all(|g| g.is_zero()));
            assert_eq!(ev(&p, x), m_eval(&m, x));
            assert_eq!(read(&p.derivative()), m_der_n(&m, 1));
            assert_eq!(read(&(&p + &c)), m_add(&m, &[v[3], v[2], v[1], v[0]]));
            assert_eq!(read(&(&p * &q)), m_mul(&m, &[v[2], v[1], v[0]]));
        }
    }
    assert!(Polynomial::<f64>::empty().is_zero());
    assert!(Polynomial::<Rat>::empty().is_zero());
}

// ---------------------------------------------------------------- behaviour on empty results (value claimed: the zero polynomial)
#[test]
fn empty_polynomial_value_and_derivative() {
    std::panic::set_hook(Box::new(|_| {}));
    let mut bad = vec![];
    let e = Polynomial::<f64>::empty();
    let p = Polynomial::<f64>::new(vec![1.0, 2.0, 3.0]);
    let c = Polynomial::<f64>::new(vec![5.0]);
    if catch_unwind(AssertUnwindSafe(|| (&e * &p).eval(2.0))).map(|v| v == 0.0).ok() != Some(true) {
        bad.push("(empty * p).eval(2.0) does not give 0");
    }
    if catch_unwind(AssertUnwindSafe(|| (&e + &e).eval(2.0))).map(|v| v == 0.0).ok() != Some(true) {
        bad.push("(empty + empty).eval(2.0) does not give 0");
    }
    if catch_unwind(AssertUnwindSafe(|| c.derivative_at(2.0, 1))).map(|v| v == 0.0).ok() != Some(true) {
        bad.push("[5].derivative_at(2.0, 1) (order degree+1) does not give 0");
    }
    if catch_unwind(AssertUnwindSafe(|| p.derivative_at(2.0, 3))).map(|v| v == 0.0).ok() != Some(true) {
        bad.push("[1,2,3].derivative_at(2.0, 3) (order degree+1) does not give 0");
    }
    if catch_unwind(AssertUnwindSafe(|| e.derivative().size())).map(|v| v == 0).ok() != Some(true) {
        bad.push("empty.derivative() is not the empty/zero polynomial");
    }
    if catch_unwind(AssertUnwindSafe(|| e.derivative_n(0).size())).map(|v| v == 0).ok() != Some(true) {
        bad.push("empty.derivative_n(0) is not the empty/zero polynomial");
    }
    if catch_unwind(AssertUnwindSafe(|| (&(&e + &p).derivative() - &(&e.derivative() + &p.derivative())).is_zero())).ok() != Some(true) {
        bad.push("(empty + p)' == empty' + p' cannot be formed");
    }
    for b in &bad {
        println!("EMPTY: {b}");
    }
    assert!(bad.is_empty(), "{} empty-polynomial cases fail", bad.len());
}
