// C15 reproductions: each test FAILS on the current code.
//   cargo test --offline --release --test repro      (all six fail)
//   cargo test --offline --test repro                (debug: empty_find_returns_out_of_range_index passes,
//                                                     because there find() panics on the usize underflow instead)
use ohsl::complex::Complex;
use ohsl::vector::Vector;

/// sum of no elements is 0 by definition; sum() computes sum_slice(0, size()-1) and panics
/// ("attempt to subtract with overflow" in debug, "Vector range error." in release).
#[test]
fn empty_sum_panics() {
    let v = Vector::<f64>::empty();
    assert_eq!(v.sum(), 0.0);
}

/// product of no elements is 1 by definition; product() panics the same way.
#[test]
fn empty_product_panics() {
    let v = Vector::<f64>::empty();
    assert_eq!(v.product(), 1.0);
}

/// inf-norm of the empty vector is 0 (norm_1, norm_2, norm_p all return 0 there); norm_inf() indexes vec[0] and panics,
/// so "inf-norm <= 2-norm <= 1-norm" cannot even be evaluated for length 0.
#[test]
fn empty_norm_inf_panics_f64() {
    let v = Vector::<f64>::empty();
    assert_eq!(v.norm_1(), 0.0);
    assert_eq!(v.norm_2(), 0.0);
    assert!(v.norm_inf() <= v.norm_2());
}

#[test]
fn empty_norm_inf_panics_cmplx() {
    let v = Vector::<Complex<f64>>::empty();
    assert_eq!(v.norm_inf(), 0.0);
}

/// find = "first match, else last index". On the empty vector there is no last index: release builds return
/// usize::MAX (size()-1 wraps), debug builds panic. The answer depends on the build profile and, in release,
/// is an index outside the vector.
#[test]
fn empty_find_returns_out_of_range_index() {
    let v = Vector::<f64>::empty();
    let r = std::panic::catch_unwind(|| v.find(1.0));
    if let Ok(k) = r {
        assert!(k < v.size(), "find on the empty vector returned index {k}, size is {}", v.size());
    }
}

/// LOWER CONFIDENCE (intermediate underflow / overflow of the powers; inputs and exact results are ordinary f64):
/// "non-negativity ... and inf-norm <= 2-norm <= 1-norm for all data".
#[test]
fn norm_underflow_overflow_breaks_ordering() {
    let v = Vector::<f64>::create(vec![1e-170]);
    assert!(v.norm_inf() <= v.norm_2(), "inf-norm {:e} > 2-norm {:e}", v.norm_inf(), v.norm_2()); // 1e-170 > 0
    let v = Vector::<f64>::create(vec![1e-45]);
    assert!(v.norm_inf() <= v.norm_p(8.0), "inf-norm {:e} > 8-norm {:e}", v.norm_inf(), v.norm_p(8.0)); // 1e-45 > 0
    let v = Vector::<f64>::create(vec![1e40]);
    assert!(v.norm_p(8.0) <= v.norm_1(), "8-norm {:e} > 1-norm {:e}", v.norm_p(8.0), v.norm_1()); // inf > 1e40
    let v = Vector::<f64>::create(vec![1e155]);
    assert!(v.norm_2() <= v.norm_1(), "2-norm {:e} > 1-norm {:e}", v.norm_2(), v.norm_1()); // inf > 1e155
}
