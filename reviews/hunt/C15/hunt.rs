// C15 hunt: independent adversarial property test (single file; run with
//   cargo test --offline --release --test hunt -- --nocapture
// The four tests empty::empty_* FAIL on the current code (see findings.json); everything else passes.
// Independent adversarial property hunt for C15 (Vector arithmetic, reductions, norms, edits).
#![allow(dead_code, unused_imports, unused_macros, clippy::all)]
use core::ops::{Add, AddAssign, Div, DivAssign, Mul, MulAssign, Neg, Sub, SubAssign};
use ohsl::complex::Complex;
use ohsl::traits::{Number, One, Signed, Zero};
use ohsl::vector::Vector;
use std::cell::Cell;
use std::cmp::Ordering;
use std::sync::atomic::{AtomicU64, Ordering as AO};
use std::sync::Once;

mod common {
    use core::ops::{Add, AddAssign, Div, DivAssign, Mul, MulAssign, Neg, Sub, SubAssign};
    use ohsl::complex::Complex;
    use ohsl::traits::{Number, One, Signed, Zero};
    use std::cell::Cell;
    use std::cmp::Ordering;
    use std::sync::atomic::{AtomicU64, Ordering as AO};
    use std::sync::Once;

    pub static CASES: AtomicU64 = AtomicU64::new(0);
    pub fn tick(n: u64) {
        CASES.fetch_add(n, AO::Relaxed);
    }
    pub fn report(name: &str, local: u64) {
        println!("[hunt] {name}: {local} cases (global so far {})", CASES.load(AO::Relaxed));
    }

    thread_local! { static QUIET: Cell<bool> = Cell::new(false); }
    static HOOK: Once = Once::new();
    fn install_hook() {
        HOOK.call_once(|| {
            let prev = std::panic::take_hook();
            std::panic::set_hook(Box::new(move |info| {
                if !QUIET.with(|q| q.get()) {
                    prev(info);
                }
            }));
        });
    }
    /// Run f; Some(result) if it returned, None if it panicked (silently).
    pub fn try_run<R>(f: impl FnOnce() -> R) -> Option<R> {
        install_hook();
        QUIET.with(|q| q.set(true));
        let r = std::panic::catch_unwind(std::panic::AssertUnwindSafe(f));
        QUIET.with(|q| q.set(false));
        r.ok()
    }

    /// failure collector
    pub struct Fails {
        pub v: Vec<String>,
        pub n: u64,
    }
    impl Fails {
        pub fn new() -> Self {
            Fails { v: Vec::new(), n: 0 }
        }
        pub fn add(&mut self, s: String) {
            self.n += 1;
            if self.v.len() < 12 {
                self.v.push(s);
            }
        }
        pub fn finish(self, name: &str) {
            if self.n > 0 {
                panic!("{name}: {} failures; first:\n{}", self.n, self.v.join("\n"));
            }
        }
    }
    #[macro_export]
    macro_rules! chk {
        ($f:expr, $c:expr, $($a:tt)*) => { if !($c) { $f.add(format!($($a)*)); } };
    }

    // ---------------------------------------------------------------- RNG
    pub struct Rng(pub u64);
    impl Rng {
        pub fn new(seed: u64) -> Self {
            let mut r = Rng(seed ^ 0x9E3779B97F4A7C15);
            for _ in 0..4 {
                r.next();
            }
            r
        }
        pub fn next(&mut self) -> u64 {
            let mut x = self.0;
            x ^= x >> 12;
            x ^= x << 25;
            x ^= x >> 27;
            self.0 = x;
            x.wrapping_mul(0x2545F4914F6CDD1D)
        }
        pub fn below(&mut self, n: u64) -> u64 {
            if n == 0 {
                0
            } else {
                (self.next() >> 11) % n
            }
        }
        pub fn range(&mut self, lo: i64, hi: i64) -> i64 {
            lo + self.below((hi - lo + 1) as u64) as i64
        }
        pub fn unit(&mut self) -> f64 {
            (self.next() >> 11) as f64 / (1u64 << 53) as f64
        }
        pub fn coin(&mut self) -> bool {
            self.next() & (1 << 40) != 0
        }
        pub fn pick<'a, T>(&mut self, xs: &'a [T]) -> &'a T {
            &xs[self.below(xs.len() as u64) as usize]
        }
    }

    // ---------------------------------------------------------------- exact rationals on i128
    #[derive(Clone, Copy, Debug, PartialEq, Eq, Hash)]
    pub struct Rat {
        pub n: i128,
        pub d: i128,
    }
    fn gcd(a: i128, b: i128) -> i128 {
        let (mut a, mut b) = (a.abs(), b.abs());
        while b != 0 {
            let t = a % b;
            a = b;
            b = t;
        }
        a
    }
    impl Rat {
        pub fn new(n: i128, d: i128) -> Rat {
            assert!(d != 0, "Rat: zero denominator");
            let g = gcd(n, d);
            let (mut n, mut d) = if g == 0 { (0, 1) } else { (n / g, d / g) };
            if d < 0 {
                n = -n;
                d = -d;
            }
            Rat { n, d }
        }
        pub fn int(n: i128) -> Rat {
            Rat { n, d: 1 }
        }
        pub fn to_f64(self) -> f64 {
            self.n as f64 / self.d as f64
        }
        pub fn is_zero(self) -> bool {
            self.n == 0
        }
    }
    fn cm(a: i128, b: i128) -> i128 {
        a.checked_mul(b).expect("Rat overflow (mul)")
    }
    fn ca(a: i128, b: i128) -> i128 {
        a.checked_add(b).expect("Rat overflow (add)")
    }
    impl Add for Rat {
        type Output = Rat;
        fn add(self, o: Rat) -> Rat {
            let g = gcd(self.d, o.d);
            let l = cm(self.d / g, o.d);
            Rat::new(ca(cm(self.n, o.d / g), cm(o.n, self.d / g)), l)
        }
    }
    impl Neg for Rat {
        type Output = Rat;
        fn neg(self) -> Rat {
            Rat { n: -self.n, d: self.d }
        }
    }
    impl Sub for Rat {
        type Output = Rat;
        fn sub(self, o: Rat) -> Rat {
            self + (-o)
        }
    }
    impl Mul for Rat {
        type Output = Rat;
        fn mul(self, o: Rat) -> Rat {
            let g1 = gcd(self.n, o.d).max(1);
            let g2 = gcd(o.n, self.d).max(1);
            Rat::new(cm(self.n / g1, o.n / g2), cm(self.d / g2, o.d / g1))
        }
    }
    impl Div for Rat {
        type Output = Rat;
        fn div(self, o: Rat) -> Rat {
            assert!(o.n != 0, "Rat: division by zero");
            self * Rat::new(o.d, o.n)
        }
    }
    impl AddAssign for Rat {
        fn add_assign(&mut self, o: Rat) {
            *self = *self + o;
        }
    }
    impl SubAssign for Rat {
        fn sub_assign(&mut self, o: Rat) {
            *self = *self - o;
        }
    }
    impl MulAssign for Rat {
        fn mul_assign(&mut self, o: Rat) {
            *self = *self * o;
        }
    }
    impl DivAssign for Rat {
        fn div_assign(&mut self, o: Rat) {
            *self = *self / o;
        }
    }
    impl Zero for Rat {
        fn zero() -> Rat {
            Rat { n: 0, d: 1 }
        }
    }
    impl One for Rat {
        fn one() -> Rat {
            Rat { n: 1, d: 1 }
        }
    }
    impl Number for Rat {}
    impl Signed for Rat {
        fn abs(&self) -> Rat {
            Rat { n: self.n.abs(), d: self.d }
        }
    }
    impl Default for Rat {
        fn default() -> Rat {
            Rat { n: 0, d: 1 }
        }
    }
    impl PartialOrd for Rat {
        fn partial_cmp(&self, o: &Rat) -> Option<Ordering> {
            Some(self.cmp(o))
        }
    }
    impl Ord for Rat {
        fn cmp(&self, o: &Rat) -> Ordering {
            cm(self.n, o.d).cmp(&cm(o.n, self.d))
        }
    }

    // ---------------------------------------------------------------- generators
    pub const DENS: [i128; 8] = [1, 2, 3, 4, 5, 6, 8, 12];

    pub fn rat_small(r: &mut Rng) -> Rat {
        match r.below(8) {
            0 => Rat::int(0),
            1 => Rat::int(if r.coin() { 1 } else { -1 }),
            2 => Rat::int(r.range(-9, 9) as i128),
            3 => Rat::int(1i128 << r.below(10)),
            _ => Rat::new(r.range(-200, 200) as i128, *r.pick(&DENS)),
        }
    }
    /// rationals safe for long products (|num|,|den| <= 3)
    pub fn rat_prod(r: &mut Rng) -> Rat {
        const S: [(i128, i128); 9] = [(1, 1), (2, 1), (3, 1), (1, 2), (1, 3), (2, 3), (3, 2), (1, 1), (0, 1)];
        let (n, d) = *r.pick(&S);
        let x = Rat::new(n, d);
        if r.coin() {
            -x
        } else {
            x
        }
    }
    pub fn shape<T: Clone>(r: &mut Rng, n: usize, mut g: impl FnMut(&mut Rng) -> T, zero: T, cmp: Option<&dyn Fn(&T, &T) -> Ordering>) -> Vec<T> {
        let mut v: Vec<T> = (0..n).map(|_| g(r)).collect();
        if n == 0 {
            return v;
        }
        match r.below(10) {
            0 => {
                // all equal
                let x = v[0].clone();
                for e in v.iter_mut() {
                    *e = x.clone();
                }
            }
            1 => v[0] = zero.clone(),
            2 => v[n - 1] = zero.clone(),
            3 => {
                for e in v.iter_mut() {
                    *e = zero.clone();
                }
            }
            4 => {
                if let Some(c) = cmp {
                    v.sort_by(|a, b| c(a, b));
                }
            }
            5 => {
                if let Some(c) = cmp {
                    v.sort_by(|a, b| c(b, a));
                }
            }
            6 => {
                // few distinct values (clusters)
                let k = 1 + r.below(3) as usize;
                for i in k..n {
                    v[i] = v[r.below(k as u64) as usize].clone();
                }
            }
            7 => {
                let i = r.below(n as u64) as usize;
                v[i] = zero.clone();
            }
            _ => {}
        }
        v
    }
    pub fn rat_vec(r: &mut Rng, n: usize) -> Vec<Rat> {
        shape(r, n, rat_small, Rat::int(0), Some(&|a: &Rat, b: &Rat| a.cmp(b)))
    }

    /// exactly representable f64: small dyadic rationals k * 2^-s, |k| < 2^20, s in 0..=10
    pub fn dy(r: &mut Rng) -> f64 {
        match r.below(8) {
            0 => 0.0,
            1 => {
                if r.coin() {
                    1.0
                } else {
                    -1.0
                }
            }
            2 => r.range(-9, 9) as f64,
            3 => (1u64 << r.below(20)) as f64 * if r.coin() { 1.0 } else { -1.0 },
            4 => -0.0,
            _ => r.range(-(1 << 20), 1 << 20) as f64 / (1u64 << r.below(11)) as f64,
        }
    }
    pub fn dy_vec(r: &mut Rng, n: usize) -> Vec<f64> {
        shape(r, n, dy, 0.0, Some(&|a: &f64, b: &f64| a.partial_cmp(b).unwrap()))
    }
    pub fn f2rat(x: f64) -> Rat {
        // x = k * 2^-30 exactly for our dyadic data (and for products of two of them with 2^-60)
        let k = x * (1u64 << 60) as f64;
        assert!(k == k.trunc() && k.abs() < 1e37, "f2rat: not dyadic enough: {x}");
        Rat::new(k as i128, 1i128 << 60)
    }
    /// general finite f64 with exponent in [-emax, emax]
    pub fn gen_f(r: &mut Rng, emax: i32) -> f64 {
        let m = 1.0 + r.unit();
        let e = r.range(-(emax as i64), emax as i64) as i32;
        let s = if r.coin() { 1.0 } else { -1.0 };
        s * m * (2.0f64).powi(e)
    }
    pub fn gen_vec(r: &mut Rng, n: usize, emax: i32) -> Vec<f64> {
        let mode = r.below(4);
        let e = match mode {
            0 => 0,
            1 => 3,
            _ => emax,
        };
        shape(r, n, |r| gen_f(r, e), 0.0, Some(&|a: &f64, b: &f64| a.partial_cmp(b).unwrap()))
    }

    pub type C = Complex<f64>;
    pub fn cdy(r: &mut Rng) -> C {
        match r.below(6) {
            0 => C::new(dy(r), 0.0),
            1 => C::new(0.0, dy(r)),
            _ => C::new(dy(r), dy(r)),
        }
    }
    pub fn cdy_vec(r: &mut Rng, n: usize) -> Vec<C> {
        shape(r, n, cdy, C::new(0.0, 0.0), None)
    }
    /// small gaussian integers (for products / exact abs)
    pub fn cint(r: &mut Rng, m: i64) -> C {
        match r.below(6) {
            0 => C::new(r.range(-m, m) as f64, 0.0),
            1 => C::new(0.0, r.range(-m, m) as f64),
            _ => C::new(r.range(-m, m) as f64, r.range(-m, m) as f64),
        }
    }
    pub fn cbits(a: &C) -> (u64, u64) {
        (a.real.to_bits(), a.imag.to_bits())
    }
    pub fn ceq_bits(a: &[C], b: &[C]) -> bool {
        a.len() == b.len() && a.iter().zip(b).all(|(x, y)| cbits(x) == cbits(y))
    }
    pub fn feq_bits(a: &[f64], b: &[f64]) -> bool {
        a.len() == b.len() && a.iter().zip(b).all(|(x, y)| x.to_bits() == y.to_bits())
    }
}
use common::*;

mod arith {
    use super::common::*;
    use crate::chk;
    use core::ops::Neg;
    use ohsl::complex::Complex;
    use ohsl::traits::{Number, One, Signed, Zero};
    use ohsl::vector::Vector;
    use std::fmt::Debug;

    fn mk<T: Clone>(v: &[T]) -> Vector<T> {
        Vector::create(v.to_vec())
    }

    /// every operator form against an element-wise model written with plain iterators
    fn arith_all<T>(v: &[T], w: &[T], s: T, s_nonzero: bool, eq: &dyn Fn(&[T], &[T]) -> bool, f: &mut Fails, tag: &str) -> u64
    where
        T: Copy + Number + Debug + Neg<Output = T>,
    {
        let n = v.len();
        assert_eq!(n, w.len());
        let mut c = 0u64;
        let add: Vec<T> = v.iter().zip(w).map(|(a, b)| *a + *b).collect();
        let sub: Vec<T> = v.iter().zip(w).map(|(a, b)| *a - *b).collect();
        let neg: Vec<T> = v.iter().map(|a| -*a).collect();
        let muls: Vec<T> = v.iter().map(|a| *a * s).collect();
        let adds: Vec<T> = v.iter().map(|a| *a + s).collect();
        let subs: Vec<T> = v.iter().map(|a| *a - s).collect();
        let (a, b) = (mk(v), mk(w));
        // + three forms
        let r = &a + &b;
        chk!(f, eq(&r.vec, &add), "{tag} &v+&w: v={v:?} w={w:?} got {:?}", r.vec);
        chk!(f, eq(&a.vec, v) && eq(&b.vec, w), "{tag} &v+&w changed operands");
        let r = a.clone() + &b;
        chk!(f, eq(&r.vec, &add), "{tag} v+&w: v={v:?} w={w:?} got {:?}", r.vec);
        let r = a.clone() + b.clone();
        chk!(f, eq(&r.vec, &add), "{tag} v+w: v={v:?} w={w:?} got {:?}", r.vec);
        // - three forms
        let r = &a - &b;
        chk!(f, eq(&r.vec, &sub), "{tag} &v-&w: v={v:?} w={w:?} got {:?}", r.vec);
        let r = a.clone() - &b;
        chk!(f, eq(&r.vec, &sub), "{tag} v-&w: v={v:?} w={w:?} got {:?}", r.vec);
        let r = a.clone() - b.clone();
        chk!(f, eq(&r.vec, &sub), "{tag} v-w: v={v:?} w={w:?} got {:?}", r.vec);
        // neg
        let r = -a.clone();
        chk!(f, eq(&r.vec, &neg), "{tag} -v: v={v:?} got {:?}", r.vec);
        // scalar
        let r = a.clone() * s;
        chk!(f, eq(&r.vec, &muls), "{tag} v*s: v={v:?} s={s:?} got {:?}", r.vec);
        // op=
        let mut r = a.clone();
        r += b.clone();
        chk!(f, eq(&r.vec, &add), "{tag} v+=w: v={v:?} w={w:?} got {:?}", r.vec);
        let mut r = a.clone();
        r -= b.clone();
        chk!(f, eq(&r.vec, &sub), "{tag} v-=w: v={v:?} w={w:?} got {:?}", r.vec);
        let mut r = a.clone();
        r += s;
        chk!(f, eq(&r.vec, &adds), "{tag} v+=s: v={v:?} s={s:?} got {:?}", r.vec);
        let mut r = a.clone();
        r -= s;
        chk!(f, eq(&r.vec, &subs), "{tag} v-=s: v={v:?} s={s:?} got {:?}", r.vec);
        let mut r = a.clone();
        r *= s;
        chk!(f, eq(&r.vec, &muls), "{tag} v*=s: v={v:?} s={s:?} got {:?}", r.vec);
        c += 13;
        if s_nonzero {
            let divs: Vec<T> = v.iter().map(|a| *a / s).collect();
            let r = a.clone() / s;
            chk!(f, eq(&r.vec, &divs), "{tag} v/s: v={v:?} s={s:?} got {:?}", r.vec);
            let mut r = a.clone();
            r /= s;
            chk!(f, eq(&r.vec, &divs), "{tag} v/=s: v={v:?} s={s:?} got {:?}", r.vec);
            c += 2;
        }
        // sizes of results
        chk!(f, (&a + &b).size() == n, "{tag} size of sum");
        c
    }

    /// size mismatch must be rejected by every binary vector form (and leave op= target untouched)
    fn mismatch<T>(v: &[T], w: &[T], f: &mut Fails, tag: &str) -> u64
    where
        T: Copy + Number + Debug + PartialEq,
    {
        assert!(v.len() != w.len());
        let (a, b) = (mk(v), mk(w));
        chk!(f, try_run(|| &a + &b).is_none(), "{tag} &v+&w accepted sizes {} {}", v.len(), w.len());
        chk!(f, try_run(|| a.clone() + &b).is_none(), "{tag} v+&w accepted sizes {} {}", v.len(), w.len());
        chk!(f, try_run(|| a.clone() + b.clone()).is_none(), "{tag} v+w accepted sizes {} {}", v.len(), w.len());
        chk!(f, try_run(|| &a - &b).is_none(), "{tag} &v-&w accepted sizes {} {}", v.len(), w.len());
        chk!(f, try_run(|| a.clone() - &b).is_none(), "{tag} v-&w accepted sizes {} {}", v.len(), w.len());
        chk!(f, try_run(|| a.clone() - b.clone()).is_none(), "{tag} v-w accepted sizes {} {}", v.len(), w.len());
        chk!(f, try_run(|| a.dot(&b)).is_none(), "{tag} dot accepted sizes {} {}", v.len(), w.len());
        let mut t = a.clone();
        let ok = try_run(|| {
            t += b.clone();
        })
        .is_none();
        chk!(f, ok && t.vec == v, "{tag} v+=w mismatch: rejected={ok} target changed={}", t.vec != v);
        let mut t = a.clone();
        let ok = try_run(|| {
            t -= b.clone();
        })
        .is_none();
        chk!(f, ok && t.vec == v, "{tag} v-=w mismatch: rejected={ok} target changed={}", t.vec != v);
        9
    }

    #[test]
    fn arith_rat() {
        let mut f = Fails::new();
        let mut r = Rng::new(101);
        let mut c = 0u64;
        for rep in 0..400 {
            for n in 0..=64usize {
                let v = rat_vec(&mut r, n);
                let w = rat_vec(&mut r, n);
                let s = if rep % 7 == 0 { Rat::int(0) } else { rat_small(&mut r) };
                c += arith_all(&v, &w, s, !s.is_zero(), &|a, b| a == b, &mut f, "rat");
            }
        }
        for _ in 0..3000 {
            let n = r.below(65) as usize;
            let mut m = r.below(65) as usize;
            if m == n {
                m = (n + 1) % 65;
            }
            let v = rat_vec(&mut r, n);
            let w = rat_vec(&mut r, m);
            c += mismatch(&v, &w, &mut f, "rat");
        }
        // boundary pairs (0,1) (1,0) (63,64) (64,63) (0,64)
        for (n, m) in [(0usize, 1usize), (1, 0), (63, 64), (64, 63), (0, 64), (64, 0), (1, 2)] {
            let v = rat_vec(&mut r, n);
            let w = rat_vec(&mut r, m);
            c += mismatch(&v, &w, &mut f, "rat-b");
        }
        tick(c);
        report("arith_rat", c);
        f.finish("arith_rat");
    }

    #[test]
    fn arith_f64() {
        let mut f = Fails::new();
        let mut r = Rng::new(202);
        let mut c = 0u64;
        for rep in 0..300 {
            for n in 0..=64usize {
                // (a) exactly representable data: results must be the exact rational results
                let v = dy_vec(&mut r, n);
                let w = dy_vec(&mut r, n);
                let s = if rep % 5 == 0 { (1u64 << r.below(8)) as f64 } else { dy(&mut r) };
                c += arith_all(&v, &w, s, s != 0.0, &|a, b| a == b, &mut f, "f64-dy");
                let (a, b) = (mk(&v), mk(&w));
                let ex_add: Vec<Rat> = v.iter().zip(&w).map(|(x, y)| f2rat(*x) + f2rat(*y)).collect();
                let ex_sub: Vec<Rat> = v.iter().zip(&w).map(|(x, y)| f2rat(*x) - f2rat(*y)).collect();
                let ex_mul: Vec<Rat> = v.iter().map(|x| f2rat(*x) * f2rat(s)).collect();
                let g: Vec<Rat> = (&a + &b).vec.iter().map(|x| f2rat(*x)).collect();
                chk!(f, g == ex_add, "f64 exact add v={v:?} w={w:?}");
                let g: Vec<Rat> = (&a - &b).vec.iter().map(|x| f2rat(*x)).collect();
                chk!(f, g == ex_sub, "f64 exact sub v={v:?} w={w:?}");
                let g: Vec<Rat> = (a.clone() * s).vec.iter().map(|x| f2rat(*x)).collect();
                chk!(f, g == ex_mul, "f64 exact mul v={v:?} s={s:?}");
                let g: Vec<Rat> = (s * a.clone()).vec.iter().map(|x| f2rat(*x)).collect();
                chk!(f, g == ex_mul, "f64 exact s*v v={v:?} s={s:?}");
                c += 4;
                // (b) general data: bit-for-bit the IEEE element-wise result
                let v = gen_vec(&mut r, n, 200);
                let w = gen_vec(&mut r, n, 200);
                let s = gen_f(&mut r, 100);
                c += arith_all(&v, &w, s, true, &|a, b| feq_bits(a, b), &mut f, "f64-gen");
                let lm: Vec<f64> = v.iter().map(|x| s * *x).collect();
                chk!(f, feq_bits(&(s * mk(&v)).vec, &lm), "f64 s*v bits v={v:?} s={s:?}");
                c += 1;
            }
        }
        for _ in 0..2000 {
            let n = r.below(65) as usize;
            let mut m = r.below(65) as usize;
            if m == n {
                m = (n + 1) % 65;
            }
            c += mismatch(&dy_vec(&mut r, n), &dy_vec(&mut r, m), &mut f, "f64");
        }
        tick(c);
        report("arith_f64", c);
        f.finish("arith_f64");
    }

    #[test]
    fn arith_cmplx() {
        let mut f = Fails::new();
        let mut r = Rng::new(303);
        let mut c = 0u64;
        // my own complex formulas (definitions) in exact rational arithmetic on dyadic data
        let cr = |z: &C| (f2rat(z.real), f2rat(z.imag));
        for rep in 0..200 {
            for n in 0..=64usize {
                let v = cdy_vec(&mut r, n);
                let w = cdy_vec(&mut r, n);
                let s = match rep % 6 {
                    0 => C::new(1.0, 0.0),
                    1 => C::new(0.0, 1.0),
                    2 => C::new(0.0, -1.0),
                    3 => C::new(2.0, 0.0),
                    _ => C::new(r.range(-64, 64) as f64 / 8.0, r.range(-64, 64) as f64 / 8.0),
                };
                let nz = s.real != 0.0 || s.imag != 0.0;
                // divisions by a general complex scalar are not exact in f64 -> only check exactness for +,-,*
                c += arith_all(&v, &w, s, false, &|a, b| a == b, &mut f, "cx-dy");
                let (a, b) = (mk(&v), mk(&w));
                let got = &a + &b;
                for i in 0..n {
                    let (x, y) = (cr(&v[i]), cr(&w[i]));
                    chk!(f, cr(&got.vec[i]) == (x.0 + y.0, x.1 + y.1), "cx exact add i={i} v={:?} w={:?}", v[i], w[i]);
                }
                let got = &a - &b;
                for i in 0..n {
                    let (x, y) = (cr(&v[i]), cr(&w[i]));
                    chk!(f, cr(&got.vec[i]) == (x.0 - y.0, x.1 - y.1), "cx exact sub i={i} v={:?} w={:?}", v[i], w[i]);
                }
                // multiplication by complex scalar: (ac-bd, ad+bc); keep magnitudes so that f64 is exact
                let vs: Vec<C> = (0..n).map(|_| cint(&mut r, 1000)).collect();
                let a2 = mk(&vs);
                let got = a2.clone() * s;
                let mut got2 = a2.clone();
                got2 *= s;
                let (sr, si) = cr(&s);
                for i in 0..n {
                    let (x, y) = cr(&vs[i]);
                    let e = (x * sr - y * si, x * si + y * sr);
                    chk!(f, cr(&got.vec[i]) == e, "cx exact v*s i={i} v={:?} s={s:?} got {:?}", vs[i], got.vec[i]);
                    chk!(f, cr(&got2.vec[i]) == e, "cx exact v*=s i={i} v={:?} s={s:?} got {:?}", vs[i], got2.vec[i]);
                }
                // division by power-of-two real / by +-i is exact
                if nz && rep % 6 < 4 {
                    let got = a2.clone() / s;
                    let mut got2 = a2.clone();
                    got2 /= s;
                    let den = sr * sr + si * si;
                    for i in 0..n {
                        let (x, y) = cr(&vs[i]);
                        let e = ((x * sr + y * si) / den, (y * sr - x * si) / den);
                        chk!(f, cr(&got.vec[i]) == e, "cx exact v/s i={i} v={:?} s={s:?} got {:?}", vs[i], got.vec[i]);
                        chk!(f, cr(&got2.vec[i]) == e, "cx exact v/=s i={i} v={:?} s={s:?} got {:?}", vs[i], got2.vec[i]);
                    }
                }
                c += 6;
                // general data: agreement between operator forms bit for bit, and with element-wise Complex ops
                let v: Vec<C> = (0..n).map(|_| C::new(gen_f(&mut r, 100), gen_f(&mut r, 100))).collect();
                let w: Vec<C> = (0..n).map(|_| C::new(gen_f(&mut r, 100), gen_f(&mut r, 100))).collect();
                let s = C::new(gen_f(&mut r, 50), gen_f(&mut r, 50));
                c += arith_all(&v, &w, s, false, &|a, b| ceq_bits(a, b), &mut f, "cx-gen");
                // v/s and v/=s on general data: relative agreement with own formula
                let q = mk(&v) / s;
                let mut q2 = mk(&v);
                q2 /= s;
                let den = s.real * s.real + s.imag * s.imag;
                for i in 0..n {
                    let e = C::new((v[i].real * s.real + v[i].imag * s.imag) / den, (v[i].imag * s.real - v[i].real * s.imag) / den);
                    let sc = e.real.abs().max(e.imag.abs());
                    for g in [&q.vec[i], &q2.vec[i]] {
                        let d = (g.real - e.real).abs().max((g.imag - e.imag).abs());
                        chk!(f, d <= 1e-13 * sc, "cx v/s general i={i} v={:?} s={s:?} got {g:?} expected {e:?}", v[i]);
                    }
                }
                c += 2;
            }
        }
        for _ in 0..2000 {
            let n = r.below(65) as usize;
            let mut m = r.below(65) as usize;
            if m == n {
                m = (n + 1) % 65;
            }
            c += mismatch(&cdy_vec(&mut r, n), &cdy_vec(&mut r, m), &mut f, "cx");
        }
        tick(c);
        report("arith_cmplx", c);
        f.finish("arith_cmplx");
    }

    /// Complex<Rat>: the forms that exist without Copy
    #[test]
    fn arith_cmplx_rat() {
        type CR = Complex<Rat>;
        let mut f = Fails::new();
        let mut r = Rng::new(404);
        let mut c = 0u64;
        let g = |r: &mut Rng| CR::new(rat_small(r), rat_small(r));
        for _ in 0..60 {
            for n in 0..=64usize {
                let v: Vec<CR> = (0..n).map(|_| g(&mut r)).collect();
                let w: Vec<CR> = (0..n).map(|_| g(&mut r)).collect();
                let mut s = g(&mut r);
                if s.real.is_zero() && s.imag.is_zero() {
                    s = CR::new(Rat::int(0), Rat::int(1));
                }
                let a = Vector::create(v.clone());
                let mul = |x: &CR, y: &CR| CR::new(x.real * y.real - x.imag * y.imag, x.real * y.imag + x.imag * y.real);
                let div = |x: &CR, y: &CR| {
                    let d = y.real * y.real + y.imag * y.imag;
                    CR::new((x.real * y.real + x.imag * y.imag) / d, (x.imag * y.real - x.real * y.imag) / d)
                };
                let e: Vec<CR> = v.iter().map(|x| mul(x, &s)).collect();
                chk!(f, (a.clone() * s.clone()).vec == e, "cr v*s v={v:?} s={s:?}");
                let mut t = a.clone();
                t *= s.clone();
                chk!(f, t.vec == e, "cr v*=s v={v:?} s={s:?}");
                let e: Vec<CR> = v.iter().map(|x| div(x, &s)).collect();
                chk!(f, (a.clone() / s.clone()).vec == e, "cr v/s v={v:?} s={s:?}");
                let mut t = a.clone();
                t /= s.clone();
                chk!(f, t.vec == e, "cr v/=s v={v:?} s={s:?}");
                let e: Vec<CR> = v.iter().zip(&w).map(|(x, y)| CR::new(x.real + y.real, x.imag + y.imag)).collect();
                let mut t = a.clone();
                t += Vector::create(w.clone());
                chk!(f, t.vec == e, "cr v+=w");
                let e: Vec<CR> = v.iter().zip(&w).map(|(x, y)| CR::new(x.real - y.real, x.imag - y.imag)).collect();
                let mut t = a.clone();
                t -= Vector::create(w.clone());
                chk!(f, t.vec == e, "cr v-=w");
                let e: Vec<CR> = v.iter().map(|x| CR::new(x.real + s.real, x.imag + s.imag)).collect();
                let mut t = a.clone();
                t += s.clone();
                chk!(f, t.vec == e, "cr v+=s");
                let e: Vec<CR> = v.iter().map(|x| CR::new(x.real - s.real, x.imag - s.imag)).collect();
                let mut t = a.clone();
                t -= s.clone();
                chk!(f, t.vec == e, "cr v-=s");
                let e: Vec<CR> = v.iter().map(|x| CR::new(x.real, -x.imag)).collect();
                chk!(f, a.conj().vec == e, "cr conj");
                let e: Vec<Rat> = v.iter().map(|x| x.real).collect();
                chk!(f, a.real().vec == e, "cr real");
                let e: Vec<CR> = v.iter().map(|x| CR::new(-x.real, -x.imag)).collect();
                chk!(f, (-a.clone()).vec == e, "cr neg");
                c += 11;
            }
        }
        tick(c);
        report("arith_cmplx_rat", c);
        f.finish("arith_cmplx_rat");
    }
}
mod reduce {
    use super::common::*;
    use crate::chk;
    use ohsl::complex::Complex;
    use ohsl::traits::{Number, One, Signed, Zero};
    use ohsl::vector::Vector;

    fn mk<T: Clone>(v: &[T]) -> Vector<T> {
        Vector::create(v.to_vec())
    }

    #[test]
    fn reduce_rat() {
        let mut f = Fails::new();
        let mut r = Rng::new(11);
        let mut c = 0u64;
        for _ in 0..40 {
            for n in 1..=64usize {
                let v = rat_vec(&mut r, n);
                let w = rat_vec(&mut r, n);
                let a = mk(&v);
                let b = mk(&w);
                // dot
                let e = v.iter().zip(&w).fold(Rat::int(0), |s, (x, y)| s + *x * *y);
                chk!(f, a.dot(&b) == e, "rat dot v={v:?} w={w:?}");
                chk!(f, b.dot(&a) == e, "rat dot symmetric v={v:?} w={w:?}");
                // prefix sums for an independent oracle of all ranges
                let mut pre = vec![Rat::int(0); n + 1];
                for i in 0..n {
                    pre[i + 1] = pre[i] + v[i];
                }
                chk!(f, a.sum() == pre[n], "rat sum v={v:?}");
                for s in 0..n {
                    for e in s..n {
                        let got = a.sum_slice(s, e);
                        chk!(f, got == pre[e + 1] - pre[s], "rat sum_slice({s},{e}) v={v:?} got {got:?}");
                        c += 1;
                    }
                }
                // products on product-safe data
                let p: Vec<Rat> = shape(&mut r, n, rat_prod, Rat::int(0), None);
                let ap = mk(&p);
                for s in 0..n {
                    let mut acc = Rat::int(1);
                    for e in s..n {
                        acc = acc * p[e];
                        let got = ap.product_slice(s, e);
                        chk!(f, got == acc, "rat product_slice({s},{e}) v={p:?} got {got:?}");
                        c += 1;
                    }
                    if s == 0 {
                        chk!(f, ap.product() == acc, "rat product v={p:?}");
                    }
                }
                // abs / norm_1
                let e: Vec<Rat> = v.iter().map(|x| if x.n < 0 { Rat::new(-x.n, x.d) } else { *x }).collect();
                chk!(f, a.abs().vec == e, "rat abs v={v:?}");
                chk!(f, a.norm_1() == e.iter().fold(Rat::int(0), |s, x| s + *x), "rat norm_1 v={v:?}");
                chk!(f, a.vec == v, "rat views changed the vector");
                // range rejections
                let s = r.below(n as u64) as usize;
                chk!(f, try_run(|| a.sum_slice(s, n)).is_none(), "rat sum_slice end==n accepted");
                chk!(f, try_run(|| a.sum_slice(n, n)).is_none(), "rat sum_slice start==n accepted");
                chk!(f, try_run(|| a.product_slice(s, n)).is_none(), "rat product_slice end==n accepted");
                chk!(f, try_run(|| a.product_slice(n, n + 3)).is_none(), "rat product_slice start==n accepted");
                if s > 0 {
                    chk!(f, try_run(|| a.sum_slice(s, s - 1)).is_none(), "rat sum_slice start>end accepted");
                    chk!(f, try_run(|| a.product_slice(s, s - 1)).is_none(), "rat product_slice start>end accepted");
                }
                chk!(f, try_run(|| a.sum_slice(s, usize::MAX)).is_none(), "rat sum_slice end=MAX accepted");
                chk!(f, try_run(|| a.sum_slice(usize::MAX, usize::MAX)).is_none(), "rat sum_slice MAX,MAX accepted");
                c += 12;
            }
        }
        tick(c);
        report("reduce_rat", c);
        f.finish("reduce_rat");
    }

    #[test]
    fn reduce_f64() {
        let mut f = Fails::new();
        let mut r = Rng::new(12);
        let mut c = 0u64;
        for _ in 0..40 {
            for n in 1..=64usize {
                let v = dy_vec(&mut r, n);
                // integer second operand keeps every partial sum below 2^53 units: the f64 dot is then exact
                let w: Vec<f64> = shape(&mut r, n, |r| r.range(-64, 64) as f64, 0.0, None);
                let (a, b) = (mk(&v), mk(&w));
                let e = v.iter().zip(&w).fold(Rat::int(0), |s, (x, y)| s + f2rat(*x) * f2rat(*y));
                chk!(f, f2rat(a.dot(&b)) == e, "f64 dot exact v={v:?} w={w:?} got {}", a.dot(&b));
                chk!(f, f2rat(a.dot_f64(&b)) == e, "f64 dot_f64 exact v={v:?} w={w:?} got {}", a.dot_f64(&b));
                let mut pre = vec![Rat::int(0); n + 1];
                for i in 0..n {
                    pre[i + 1] = pre[i] + f2rat(v[i]);
                }
                chk!(f, f2rat(a.sum()) == pre[n], "f64 sum v={v:?}");
                for s in 0..n {
                    for e in s..n {
                        let got = a.sum_slice(s, e);
                        chk!(f, f2rat(got) == pre[e + 1] - pre[s], "f64 sum_slice({s},{e}) v={v:?} got {got:?}");
                        c += 1;
                    }
                }
                // products: small integers / powers of two so that everything stays exact (|product| < 2^53)
                let p: Vec<f64> = (0..n)
                    .map(|_| match r.below(12) {
                        0 => 3.0,
                        1 => -3.0,
                        2 => 0.5,
                        3 => -0.5,
                        4 => 2.0,
                        5 => -2.0,
                        6 => -1.0,
                        7 => {
                            if n < 8 {
                                0.0
                            } else {
                                1.0
                            }
                        }
                        _ => 1.0,
                    })
                    .collect();
                let ap = mk(&p);
                for s in 0..n {
                    let mut acc = Rat::int(1);
                    let mut ok = true;
                    for e in s..n {
                        acc = acc * f2rat(p[e]);
                        if acc.n.abs() >= (1i128 << 50) || acc.d >= (1i128 << 50) {
                            ok = false;
                        }
                        if ok {
                            let got = ap.product_slice(s, e);
                            chk!(f, f2rat(got) == acc, "f64 product_slice({s},{e}) v={p:?} got {got:?}");
                            c += 1;
                            if s == 0 && e == n - 1 {
                                chk!(f, f2rat(ap.product()) == acc, "f64 product v={p:?}");
                            }
                        }
                    }
                }
                let e: Vec<f64> = v.iter().map(|x| if *x < 0.0 { -*x } else { *x }).collect();
                chk!(f, a.abs().vec == e, "f64 abs v={v:?}");
                chk!(f, a.abs().vec.iter().all(|x| *x >= 0.0), "f64 abs negative entry v={v:?}");
                let e1 = v.iter().fold(Rat::int(0), |s, x| s + f2rat(x.abs()));
                chk!(f, f2rat(a.norm_1()) == e1, "f64 norm_1 exact v={v:?}");
                let s = r.below(n as u64) as usize;
                chk!(f, try_run(|| a.sum_slice(s, n)).is_none(), "f64 sum_slice end==n accepted");
                chk!(f, try_run(|| a.product_slice(s, n)).is_none(), "f64 product_slice end==n accepted");
                if s > 0 {
                    chk!(f, try_run(|| a.sum_slice(s, s - 1)).is_none(), "f64 sum_slice start>end accepted");
                }
                c += 9;
            }
        }
        tick(c);
        report("reduce_f64", c);
        f.finish("reduce_f64");
    }

    #[test]
    fn reduce_cmplx() {
        let mut f = Fails::new();
        let mut r = Rng::new(13);
        let mut c = 0u64;
        let cr = |z: &C| (f2rat(z.real), f2rat(z.imag));
        let z0 = (Rat::int(0), Rat::int(0));
        for _ in 0..30 {
            for n in 1..=64usize {
                let v = cdy_vec(&mut r, n);
                let w: Vec<C> = (0..n).map(|_| cint(&mut r, 500)).collect();
                let (a, b) = (mk(&v), mk(&w));
                // dot (no conjugation: sum v_i * w_i)
                let e = v.iter().zip(&w).fold(z0, |s, (x, y)| {
                    let (x, y) = (cr(x), cr(y));
                    (s.0 + x.0 * y.0 - x.1 * y.1, s.1 + x.0 * y.1 + x.1 * y.0)
                });
                chk!(f, cr(&a.dot(&b)) == e, "cx dot v={v:?} w={w:?} got {:?}", a.dot(&b));
                let mut pre = vec![z0; n + 1];
                for i in 0..n {
                    let x = cr(&v[i]);
                    pre[i + 1] = (pre[i].0 + x.0, pre[i].1 + x.1);
                }
                chk!(f, cr(&a.sum()) == pre[n], "cx sum v={v:?}");
                for s in 0..n {
                    for e in s..n {
                        let got = a.sum_slice(s, e);
                        chk!(f, cr(&got) == (pre[e + 1].0 - pre[s].0, pre[e + 1].1 - pre[s].1), "cx sum_slice({s},{e}) v={v:?} got {got:?}");
                        c += 1;
                    }
                }
                // products of units and small gaussian integers while exact
                let p: Vec<C> = (0..n)
                    .map(|_| match r.below(10) {
                        0 => C::new(0.0, 1.0),
                        1 => C::new(0.0, -1.0),
                        2 => C::new(-1.0, 0.0),
                        3 => C::new(1.0, 1.0),
                        4 => C::new(1.0, -1.0),
                        5 => C::new(2.0, 1.0),
                        6 => C::new(0.5, 0.0),
                        _ => C::new(1.0, 0.0),
                    })
                    .collect();
                let ap = mk(&p);
                for s in 0..n {
                    let mut acc = (Rat::int(1), Rat::int(0));
                    for e in s..n {
                        let y = cr(&p[e]);
                        acc = (acc.0 * y.0 - acc.1 * y.1, acc.0 * y.1 + acc.1 * y.0);
                        if acc.0.n.abs().max(acc.1.n.abs()) >= (1i128 << 45) || acc.0.d.max(acc.1.d) >= (1i128 << 45) {
                            break;
                        }
                        let got = ap.product_slice(s, e);
                        chk!(f, cr(&got) == acc, "cx product_slice({s},{e}) v={p:?} got {got:?}");
                        c += 1;
                        if s == 0 && e == n - 1 {
                            chk!(f, cr(&ap.product()) == acc, "cx product v={p:?}");
                        }
                    }
                }
                // conj / real
                let e: Vec<C> = v.iter().map(|z| C::new(z.real, -z.imag)).collect();
                chk!(f, ceq_bits(&a.conj().vec, &e), "cx conj v={v:?}");
                chk!(f, ceq_bits(&a.conj().conj().vec, &v), "cx conj conj v={v:?}");
                let e: Vec<f64> = v.iter().map(|z| z.real).collect();
                chk!(f, feq_bits(&a.real().vec, &e), "cx real v={v:?}");
                // abs / norm_1 / norm_inf on pythagorean data (exact moduli)
                const PY: [(f64, f64, f64); 6] = [(3.0, 4.0, 5.0), (5.0, 12.0, 13.0), (8.0, 15.0, 17.0), (7.0, 24.0, 25.0), (0.0, 1.0, 1.0), (0.0, 0.0, 0.0)];
                let mut q = Vec::new();
                let mut md = Vec::new();
                for _ in 0..n {
                    let (x, y, h) = *r.pick(&PY);
                    let sc = (2.0f64).powi(r.range(-8, 8) as i32);
                    let (x, y) = if r.coin() { (x, y) } else { (y, x) };
                    let (x, y) = (if r.coin() { x } else { -x }, if r.coin() { y } else { -y });
                    q.push(C::new(x * sc, y * sc));
                    md.push(h * sc);
                }
                let aq = mk(&q);
                let ab = aq.abs();
                for i in 0..n {
                    chk!(f, ab.vec[i].real == md[i] && ab.vec[i].imag == 0.0, "cx abs i={i} z={:?} got {:?}", q[i], ab.vec[i]);
                }
                let n1 = aq.norm_1();
                let e1 = md.iter().fold(Rat::int(0), |s, x| s + f2rat(*x));
                chk!(f, f2rat(n1.real) == e1 && n1.imag == 0.0, "cx norm_1 q={q:?} got {n1:?}");
                let ei = md.iter().cloned().fold(0.0, f64::max);
                chk!(f, aq.norm_inf() == ei, "cx norm_inf q={q:?} got {}", aq.norm_inf());
                chk!(f, try_run(|| a.sum_slice(0, n)).is_none(), "cx sum_slice end==n accepted");
                chk!(f, try_run(|| a.product_slice(n, n)).is_none(), "cx product_slice start==n accepted");
                c += 10;
            }
        }
        tick(c);
        report("reduce_cmplx", c);
        f.finish("reduce_cmplx");
    }
}
mod norms {
    use super::common::*;
    use crate::chk;
    use ohsl::complex::Complex;
    use ohsl::traits::{Number, One, Signed, Zero};
    use ohsl::vector::Vector;

    fn mk<T: Clone>(v: &[T]) -> Vector<T> {
        Vector::create(v.to_vec())
    }
    fn shuffle<T>(r: &mut Rng, v: &mut Vec<T>) {
        for i in (1..v.len()).rev() {
            let j = r.below(i as u64 + 1) as usize;
            v.swap(i, j);
        }
    }

    /// reference p-norm by scaling with the maximum (different algorithm, no over/underflow)
    fn ref_p(v: &[f64], p: f64) -> f64 {
        let m = v.iter().fold(0.0f64, |m, x| m.max(x.abs()));
        if m == 0.0 {
            return 0.0;
        }
        // sum small to large for accuracy
        let mut t: Vec<f64> = v.iter().map(|x| (x.abs() / m).powf(p)).collect();
        t.sort_by(|a, b| a.partial_cmp(b).unwrap());
        let s: f64 = t.iter().sum();
        m * s.powf(1.0 / p)
    }
    fn rel(a: f64, b: f64) -> f64 {
        if a == b {
            0.0
        } else {
            (a - b).abs() / a.abs().max(b.abs())
        }
    }

    #[test]
    fn norms_exact() {
        let mut f = Fails::new();
        let mut r = Rng::new(21);
        let mut c = 0u64;
        // tuples with integer euclidean length
        let base: Vec<(Vec<f64>, f64)> = vec![
            (vec![3.0, 4.0], 5.0),
            (vec![5.0, 12.0], 13.0),
            (vec![1.0, 2.0, 2.0], 3.0),
            (vec![2.0, 3.0, 6.0], 7.0),
            (vec![1.0, 4.0, 8.0], 9.0),
            (vec![2.0, 6.0, 9.0], 11.0),
            (vec![1.0, 1.0, 1.0, 1.0], 2.0),
            (vec![1.0, 2.0, 4.0, 10.0], 11.0),
            (vec![2.0, 4.0, 5.0, 6.0], 9.0),
            (vec![7.0], 7.0),
            (vec![0.0], 0.0),
            (vec![1.0; 9], 3.0),
            (vec![1.0; 16], 4.0),
            (vec![3.0; 25], 15.0),
            (vec![5.0; 36], 30.0),
            (vec![1.0; 49], 7.0),
            (vec![7.0; 64], 56.0),
        ];
        for _ in 0..20000 {
            let (b, len) = r.pick(&base).clone();
            let sc = (2.0f64).powi(r.range(-40, 40) as i32);
            let mut v: Vec<f64> = b.iter().map(|x| x * sc * if r.coin() { 1.0 } else { -1.0 }).collect();
            let zeros = r.below((65 - v.len()) as u64) as usize;
            for _ in 0..zeros {
                v.push(if r.coin() { 0.0 } else { -0.0 });
            }
            shuffle(&mut r, &mut v);
            let a = mk(&v);
            chk!(f, a.norm_2() == len * sc, "norm_2 exact v={v:?} got {:e} expected {:e}", a.norm_2(), len * sc);
            chk!(f, a.norm_p(2.0) == len * sc || rel(a.norm_p(2.0), len * sc) < 1e-15, "norm_p(2) exact v={v:?} got {:e}", a.norm_p(2.0));
            let e1: f64 = b.iter().sum::<f64>() * sc;
            chk!(f, a.norm_1() == e1, "norm_1 exact v={v:?} got {:e} expected {e1:e}", a.norm_1());
            chk!(f, rel(a.norm_p(1.0), e1) < 1e-15, "norm_p(1) exact v={v:?} got {:e} expected {e1:e}", a.norm_p(1.0));
            let ei = b.iter().cloned().fold(0.0, f64::max) * sc;
            chk!(f, a.norm_inf() == ei, "norm_inf exact v={v:?}");
            c += 5;
        }
        // inf-norm is a maximum: exact on every data set, first/last position, ties, negative maximum
        for _ in 0..20000 {
            let n = 1 + r.below(64) as usize;
            let mut v = gen_vec(&mut r, n, 300);
            if r.coin() {
                let i = *r.pick(&[0usize, n - 1, n / 2]);
                v[i] = -1e301;
            }
            let e = v.iter().fold(0.0f64, |m, x| m.max(x.abs()));
            let a = mk(&v);
            chk!(f, a.norm_inf() == e, "norm_inf v={v:?} got {:e}", a.norm_inf());
            c += 1;
        }
        tick(c);
        report("norms_exact", c);
        f.finish("norms_exact");
    }

    #[test]
    fn norms_laws_f64() {
        let mut f = Fails::new();
        let mut r = Rng::new(22);
        let mut c = 0u64;
        let tol = 1e-13;
        let ps = [1.0, 1.0 + 1e-9, 1.25, 1.5, 2.0, 2.5, 3.0, 3.3333333333333335, 4.0, 5.0, 6.5, 7.0, 8.0 - 1e-9, 8.0];
        for rep in 0..1500 {
            for n in 1..=64usize {
                let em = *r.pick(&[0, 1, 10, 55]);
                let mut v = gen_vec(&mut r, n, em);
                let w = gen_vec(&mut r, n, em);
                if rep % 11 == 0 {
                    // exactly representable small data as well
                    v = dy_vec(&mut r, n);
                }
                let s = gen_f(&mut r, 5);
                let (a, b) = (mk(&v), mk(&w));
                let (n1, n2, ni) = (a.norm_1(), a.norm_2(), a.norm_inf());
                chk!(f, n1 >= 0.0 && n2 >= 0.0 && ni >= 0.0 && n1.is_finite() && n2.is_finite(), "nonneg/finite v={v:?} {n1} {n2} {ni}");
                chk!(f, ni <= n2 * (1.0 + tol) && n2 <= n1 * (1.0 + tol), "inf<=2<=1 v={v:?}: inf={ni:e} two={n2:e} one={n1:e}");
                let allzero = v.iter().all(|x| *x == 0.0);
                chk!(f, (n1 == 0.0) == allzero && (n2 == 0.0) == allzero && (ni == 0.0) == allzero, "definiteness v={v:?} {n1} {n2} {ni}");
                // against the scaled reference
                chk!(f, rel(n2, ref_p(&v, 2.0)) <= tol, "norm_2 vs reference v={v:?} got {n2:e} ref {:e}", ref_p(&v, 2.0));
                chk!(f, rel(n1, ref_p(&v, 1.0)) <= tol, "norm_1 vs reference v={v:?} got {n1:e}");
                // homogeneity
                let sa = a.clone() * s;
                chk!(f, rel(sa.norm_1(), s.abs() * n1) <= tol, "homog 1 v={v:?} s={s:e}");
                chk!(f, rel(sa.norm_2(), s.abs() * n2) <= tol, "homog 2 v={v:?} s={s:e}");
                chk!(f, rel(sa.norm_inf(), s.abs() * ni) <= tol, "homog inf v={v:?} s={s:e}");
                // exact homogeneity for powers of two and sign flips
                let t = (2.0f64).powi(r.range(-20, 20) as i32) * if r.coin() { 1.0 } else { -1.0 };
                let ta = a.clone() * t;
                chk!(f, ta.norm_1() == t.abs() * n1 && ta.norm_2() == t.abs() * n2 && ta.norm_inf() == t.abs() * ni, "homog pow2 v={v:?} t={t:e}");
                // triangle
                let ab = &a + &b;
                chk!(f, ab.norm_1() <= (n1 + b.norm_1()) * (1.0 + tol), "triangle 1 v={v:?} w={w:?}");
                chk!(f, ab.norm_2() <= (n2 + b.norm_2()) * (1.0 + tol), "triangle 2 v={v:?} w={w:?}");
                chk!(f, ab.norm_inf() <= (ni + b.norm_inf()) * (1.0 + tol), "triangle inf v={v:?} w={w:?}");
                c += 12;
                // p-norms
                let mut prev = f64::INFINITY;
                for &p in ps.iter() {
                    let np = a.norm_p(p);
                    chk!(f, np >= 0.0 && np.is_finite(), "norm_p nonneg/finite p={p} v={v:?} got {np}");
                    chk!(f, rel(np, ref_p(&v, p)) <= 1e-12, "norm_p vs ref p={p} v={v:?} got {np:e} ref {:e}", ref_p(&v, p));
                    chk!(f, np <= prev * (1.0 + 1e-12), "norm_p not decreasing in p: p={p} v={v:?} got {np:e} prev {prev:e}");
                    chk!(f, ni <= np * (1.0 + 1e-12) && np <= n1 * (1.0 + 1e-12), "inf<=p<=1 p={p} v={v:?}: {ni:e} {np:e} {n1:e}");
                    chk!(f, rel(sa.norm_p(p), s.abs() * np) <= 1e-12, "homog p={p} v={v:?} s={s:e}");
                    chk!(f, ab.norm_p(p) <= (np + b.norm_p(p)) * (1.0 + 1e-12), "triangle p={p} v={v:?} w={w:?}");
                    prev = np;
                    c += 6;
                }
                chk!(f, rel(a.norm_p(1.0), n1) <= 1e-14, "norm_p(1) vs norm_1 v={v:?}: {:e} {n1:e}", a.norm_p(1.0));
                chk!(f, rel(a.norm_p(2.0), n2) <= 1e-14, "norm_p(2) vs norm_2 v={v:?}: {:e} {n2:e}", a.norm_p(2.0));
                if n == 1 {
                    for &p in ps.iter() {
                        chk!(f, rel(a.norm_p(p), v[0].abs()) <= 1e-14, "n=1 norm_p p={p} v={v:?}");
                    }
                    chk!(f, rel(n2, v[0].abs()) <= 1e-15 && n1 == v[0].abs() && ni == v[0].abs(), "n=1 norms v={v:?}");
                }
            }
        }
        tick(c);
        report("norms_laws_f64", c);
        f.finish("norms_laws_f64");
    }

    /// informational: extreme magnitudes (overflow / underflow of squares and p-th powers) -- outside the domain, only counted
    #[test]
    fn norms_extreme_info() {
        let mut r = Rng::new(23);
        let (mut bad2, mut badp, mut tot) = (0u64, 0u64, 0u64);
        let mut ex2 = String::new();
        for _ in 0..20000 {
            let n = 1 + r.below(64) as usize;
            let v = gen_vec(&mut r, n, 1000);
            let a = mk(&v);
            let (n1, n2, ni) = (a.norm_1(), a.norm_2(), a.norm_inf());
            tot += 1;
            if !(ni <= n2 * (1.0 + 1e-13) && n2 <= n1 * (1.0 + 1e-13)) {
                bad2 += 1;
                if ex2.is_empty() && n <= 2 {
                    ex2 = format!("v={v:?} inf={ni:e} two={n2:e} one={n1:e}");
                }
            }
            let np = a.norm_p(8.0);
            if !(ni <= np * (1.0 + 1e-12) && np <= n1 * (1.0 + 1e-12)) {
                badp += 1;
            }
        }
        println!("[hunt] norms_extreme_info (side remark, exponents up to 2^+-1000): inf<=2<=1 violated {bad2}/{tot}, with p=8 {badp}/{tot}; e.g. {ex2}");
        tick(tot);
    }

    #[test]
    fn norms_laws_cmplx() {
        let mut f = Fails::new();
        let mut r = Rng::new(24);
        let mut c = 0u64;
        let tol = 1e-13;
        for _ in 0..600 {
            for n in 1..=64usize {
                let em = *r.pick(&[0, 1, 10, 100]);
                let g = |r: &mut Rng| match r.below(6) {
                    0 => C::new(gen_f(r, em), 0.0),
                    1 => C::new(0.0, gen_f(r, em)),
                    2 => C::new(0.0, 0.0),
                    _ => C::new(gen_f(r, em), gen_f(r, em)),
                };
                let v: Vec<C> = (0..n).map(|_| g(&mut r)).collect();
                let w: Vec<C> = (0..n).map(|_| g(&mut r)).collect();
                let s = C::new(gen_f(&mut r, 3), gen_f(&mut r, 3));
                let (a, b) = (mk(&v), mk(&w));
                let md: Vec<f64> = v.iter().map(|z| z.real.hypot(z.imag)).collect();
                let n1 = a.norm_1();
                let ni = a.norm_inf();
                let e1: f64 = md.iter().sum();
                let ei = md.iter().cloned().fold(0.0, f64::max);
                chk!(f, n1.imag == 0.0 && n1.real >= 0.0 && rel(n1.real, e1) <= tol, "cx norm_1 v={v:?} got {n1:?} ref {e1:e}");
                chk!(f, ni >= 0.0 && rel(ni, ei) <= tol, "cx norm_inf v={v:?} got {ni:e} ref {ei:e}");
                chk!(f, ni <= n1.real * (1.0 + tol), "cx inf<=1 v={v:?}");
                let ab = a.abs();
                for i in 0..n {
                    chk!(f, ab.vec[i].imag == 0.0 && rel(ab.vec[i].real, md[i]) <= 1e-15 * 4.0, "cx abs i={i} z={:?} got {:?}", v[i], ab.vec[i]);
                }
                let sm = s.real.hypot(s.imag);
                let sa = a.clone() * s;
                chk!(f, rel(sa.norm_1().real, sm * n1.real) <= tol, "cx homog 1 v={v:?} s={s:?}");
                chk!(f, rel(sa.norm_inf(), sm * ni) <= tol, "cx homog inf v={v:?} s={s:?}");
                let t = &a + &b;
                chk!(f, t.norm_1().real <= (n1.real + b.norm_1().real) * (1.0 + tol), "cx triangle 1 v={v:?} w={w:?}");
                chk!(f, t.norm_inf() <= (ni + b.norm_inf()) * (1.0 + tol), "cx triangle inf v={v:?} w={w:?}");
                // conj leaves norms unchanged exactly
                let cj = a.conj();
                chk!(f, cj.norm_inf() == ni && cj.norm_1().real == n1.real, "cx conj changes norms v={v:?}");
                c += 9;
            }
        }
        tick(c);
        report("norms_laws_cmplx", c);
        f.finish("norms_laws_cmplx");
    }

    /// integer data: every power and every partial sum is exactly representable, so the 2-norm must be the correctly
    /// rounded square root of the exact integer sum of squares; p = 3, 4 within a few ulps of cbrt / sqrt(sqrt)
    #[test]
    fn norms_integer_data() {
        let mut f = Fails::new();
        let mut r = Rng::new(25);
        let mut c = 0u64;
        for _ in 0..3000 {
            for n in 1..=64usize {
                let m = *r.pick(&[1i64, 3, 10, 100, 1000]);
                let v: Vec<f64> = shape(&mut r, n, |r| r.range(-m, m) as f64, 0.0, Some(&|a: &f64, b: &f64| a.partial_cmp(b).unwrap()));
                let a = mk(&v);
                let s1: i128 = v.iter().map(|x| (*x as i128).abs()).sum();
                let s2: i128 = v.iter().map(|x| (*x as i128).pow(2)).sum();
                let s3: i128 = v.iter().map(|x| (*x as i128).abs().pow(3)).sum();
                let s4: i128 = v.iter().map(|x| (*x as i128).pow(4)).sum();
                chk!(f, a.norm_1() == s1 as f64, "int norm_1 v={v:?}");
                chk!(f, a.norm_2().to_bits() == (s2 as f64).sqrt().to_bits(), "int norm_2 v={v:?} got {:e} expected {:e}", a.norm_2(), (s2 as f64).sqrt());
                chk!(f, rel(a.norm_p(2.0), (s2 as f64).sqrt()) <= 4.0 * f64::EPSILON, "int norm_p(2) v={v:?}");
                chk!(f, rel(a.norm_p(3.0), (s3 as f64).cbrt()) <= 4.0 * f64::EPSILON, "int norm_p(3) v={v:?} got {:e} expected {:e}", a.norm_p(3.0), (s3 as f64).cbrt());
                chk!(f, rel(a.norm_p(4.0), (s4 as f64).sqrt().sqrt()) <= 4.0 * f64::EPSILON, "int norm_p(4) v={v:?}");
                chk!(f, rel(a.norm_p(1.0), s1 as f64) <= 2.0 * f64::EPSILON, "int norm_p(1) v={v:?}");
                c += 6;
            }
        }
        tick(c);
        report("norms_integer_data", c);
        f.finish("norms_integer_data");
    }
}
mod edit {
    use super::common::*;
    use crate::chk;
    use ohsl::complex::Complex;
    use ohsl::traits::{Number, One, Signed, Zero};
    use ohsl::vector::Vector;
    use std::fmt::Debug;

    fn mk<T: Clone>(v: &[T]) -> Vector<T> {
        Vector::create(v.to_vec())
    }

    /// definition of find: first index holding the value, else the last index
    fn model_find<T: PartialEq>(m: &[T], x: &T) -> usize {
        for i in 0..m.len() {
            if m[i] == *x {
                return i;
            }
        }
        m.len() - 1
    }

    #[test]
    fn sort_find() {
        let mut f = Fails::new();
        let mut r = Rng::new(31);
        let mut c = 0u64;
        for _ in 0..600 {
            for n in 1..=64usize {
                // rationals: sort()
                let v = rat_vec(&mut r, n);
                let mut a = mk(&v);
                a.sort();
                // independent oracle: insertion sort
                let mut e = v.clone();
                for i in 1..n {
                    let mut j = i;
                    while j > 0 && e[j - 1] > e[j] {
                        e.swap(j - 1, j);
                        j -= 1;
                    }
                }
                chk!(f, a.vec == e, "rat sort v={v:?} got {:?}", a.vec);
                let mut a2 = mk(&v);
                a2.sort_by(|x, y| y.cmp(x));
                e.reverse();
                chk!(f, a2.vec == e, "rat sort_by desc v={v:?} got {:?}", a2.vec);
                // find: every element, plus absent values
                let a = mk(&v);
                for i in 0..n {
                    let k = a.find(v[i]);
                    chk!(f, k == model_find(&v, &v[i]) && k <= i && v[k] == v[i], "rat find present v={v:?} x={:?} got {k}", v[i]);
                }
                let absent = Rat::new(1, 7);
                chk!(f, a.find(absent) == n - 1, "rat find absent v={v:?} got {}", a.find(absent));
                c += 3 + n as u64;
                // f64: sort_by, find with +-0 and duplicates
                let v = dy_vec(&mut r, n);
                let mut a = mk(&v);
                a.sort_by(|x, y| x.partial_cmp(y).unwrap());
                chk!(f, a.vec.windows(2).all(|w| w[0] <= w[1]), "f64 sort_by not sorted v={v:?} got {:?}", a.vec);
                let mut m1: Vec<u64> = v.iter().map(|x| (x + 0.0).to_bits()).collect();
                let mut m2: Vec<u64> = a.vec.iter().map(|x| (x + 0.0).to_bits()).collect();
                m1.sort();
                m2.sort();
                chk!(f, m1 == m2, "f64 sort_by not a permutation v={v:?} got {:?}", a.vec);
                let a = mk(&v);
                for i in 0..n {
                    let k = a.find(v[i]);
                    chk!(f, k == model_find(&v, &v[i]), "f64 find present v={v:?} x={:?} got {k}", v[i]);
                }
                chk!(f, a.find(0.3) == n - 1, "f64 find absent v={v:?}");
                chk!(f, a.find(0.0) == model_find(&v, &0.0) && a.find(-0.0) == model_find(&v, &0.0), "f64 find zero v={v:?}");
                // complex find
                let v = cdy_vec(&mut r, n);
                let a = mk(&v);
                for i in 0..n {
                    let k = a.find(v[i]);
                    chk!(f, k == model_find(&v, &v[i]), "cx find present v={v:?} x={:?} got {k}", v[i]);
                }
                chk!(f, a.find(C::new(0.3, 0.0)) == n - 1, "cx find absent v={v:?}");
                // same real part, different imaginary part must not match
                let z = C::new(v[n - 1].real, v[n - 1].imag + 0.375);
                chk!(f, a.find(z) == model_find(&v, &z), "cx find near miss v={v:?} z={z:?}");
                c += 6 + 2 * n as u64;
            }
        }
        tick(c);
        report("sort_find", c);
        f.finish("sort_find");
    }

    // ------------------------------------------------------------------ histories
    fn views<T>(a: &Vector<T>, m: &[T], f: &mut Fails, hist: &dyn Fn() -> String, eq: &dyn Fn(&T, &T) -> bool)
    where
        T: Clone + Debug + PartialEq,
    {
        let ok = a.size() == m.len() && a.vec.len() == m.len() && a.vec.iter().zip(m).all(|(x, y)| eq(x, y));
        chk!(f, ok, "state differs from list model: got {:?} model {m:?} after {}", a.vec, hist());
        if !ok {
            return;
        }
        for i in 0..m.len() {
            chk!(f, eq(&a[i], &m[i]), "index view differs at {i} after {}", hist());
        }
        chk!(f, try_run(|| a[m.len()].clone()).is_none(), "index == size accepted after {}", hist());
        chk!(f, format!("{a:?}") == format!("{m:?}") && format!("{a}") == format!("{m:?}"), "Debug/Display view differs after {}", hist());
        let b = a.clone();
        chk!(f, b.vec.len() == m.len() && b.vec.iter().zip(m).all(|(x, y)| eq(x, y)), "clone differs after {}", hist());
    }

    #[derive(Clone, Debug)]
    enum Op<T> {
        Push(T),
        PushFront(T),
        Insert(usize, T),
        Pop,
        Swap(usize, usize),
        Resize(usize),
        Assign(T),
        Clear,
        Sort,
        Find(T),
        IndexSet(usize, T),
    }

    fn gen_op<T: Clone>(r: &mut Rng, len: usize, g: &mut dyn FnMut(&mut Rng) -> T, cur: &[T]) -> Op<T> {
        let val = |r: &mut Rng, g: &mut dyn FnMut(&mut Rng) -> T| {
            if !cur.is_empty() && r.below(3) == 0 {
                cur[r.below(cur.len() as u64) as usize].clone()
            } else {
                g(r)
            }
        };
        // positions: mostly valid, boundaries favoured, sometimes just outside
        let pos = |r: &mut Rng, hi: usize| -> usize {
            match r.below(8) {
                0 => 0,
                1 => hi,
                2 => hi + 1,
                3 => hi.saturating_sub(1),
                _ => r.below(hi as u64 + 1) as usize,
            }
        };
        match r.below(24) {
            0..=4 => Op::Push(val(r, g)),
            5..=7 => Op::PushFront(val(r, g)),
            8..=10 => Op::Insert(pos(r, len), val(r, g)),
            11..=13 => Op::Pop,
            14..=15 => Op::Swap(pos(r, len.saturating_sub(1)), pos(r, len.saturating_sub(1))),
            16..=17 => Op::Resize(match r.below(6) {
                0 => 0,
                1 => len,
                2 => len + 1,
                3 => len.saturating_sub(1),
                4 => 64,
                _ => r.below(65) as usize,
            }),
            18 => Op::Assign(val(r, g)),
            19 => {
                if r.below(4) == 0 {
                    Op::Clear
                } else {
                    Op::Pop
                }
            }
            20 => Op::Sort,
            21..=22 => Op::Find(val(r, g)),
            _ => Op::IndexSet(pos(r, len.saturating_sub(1)), val(r, g)),
        }
    }

    /// apply to the list model; None = the operation is undefined on this state (a rejection is expected, state unchanged)
    fn model_apply<T: Clone + PartialEq>(m: &mut Vec<T>, op: &Op<T>, zero: &T, sorter: &dyn Fn(&mut Vec<T>)) -> Option<Option<usize>> {
        match op {
            Op::Push(x) => m.push(x.clone()),
            Op::PushFront(x) => {
                let mut n = vec![x.clone()];
                n.extend(m.iter().cloned());
                *m = n;
            }
            Op::Insert(p, x) => {
                if *p > m.len() {
                    return None;
                }
                let mut n: Vec<T> = m[..*p].to_vec();
                n.push(x.clone());
                n.extend(m[*p..].iter().cloned());
                *m = n;
            }
            Op::Pop => {
                if m.is_empty() {
                    return None;
                }
                let l = m.len() - 1;
                m.truncate(l);
            }
            Op::Swap(i, j) => {
                if *i >= m.len() || *j >= m.len() {
                    return None;
                }
                let t = m[*i].clone();
                m[*i] = m[*j].clone();
                m[*j] = t;
            }
            Op::Resize(k) => {
                while m.len() > *k {
                    let l = m.len() - 1;
                    m.truncate(l);
                }
                while m.len() < *k {
                    m.push(zero.clone());
                }
            }
            Op::Assign(x) => {
                for e in m.iter_mut() {
                    *e = x.clone();
                }
            }
            Op::Clear => *m = Vec::new(),
            Op::Sort => sorter(m),
            Op::Find(x) => {
                if m.is_empty() {
                    return None; // no "last index" exists: handled separately (see empty.rs)
                }
                return Some(Some(model_find(m, x)));
            }
            Op::IndexSet(i, x) => {
                if *i >= m.len() {
                    return None;
                }
                m[*i] = x.clone();
            }
        }
        Some(None)
    }

    macro_rules! history_test {
        ($name:ident, $t:ty, $seed:expr, $gen:expr, $zero:expr, $eq:expr, $sorter:expr, $apply_sort:expr, $apply_resize:expr, $reps:expr) => {
            #[test]
            fn $name() {
                let mut f = Fails::new();
                let mut r = Rng::new($seed);
                let mut c = 0u64;
                let zero: $t = $zero;
                let eq = $eq;
                for rep in 0..$reps {
                    let n0 = match rep % 5 {
                        0 => 0,
                        1 => 1,
                        2 => 64,
                        _ => r.below(65) as usize,
                    };
                    let mut g = $gen;
                    let init: Vec<$t> = (0..n0).map(|_| g(&mut r)).collect();
                    let mut a: Vector<$t> = match rep % 3 {
                        0 => Vector::create(init.clone()),
                        1 => {
                            let mut a = Vector::<$t>::empty();
                            for x in init.iter() {
                                a.push(x.clone());
                            }
                            a
                        }
                        _ => {
                            let mut a = Vector::<$t>::new(n0, zero.clone());
                            for i in 0..n0 {
                                a[i] = init[i].clone();
                            }
                            a
                        }
                    };
                    let mut m = init.clone();
                    let mut hist: Vec<Op<$t>> = Vec::new();
                    let steps = 20 + r.below(60) as usize;
                    for _ in 0..steps {
                        let mut op = gen_op(&mut r, m.len(), &mut g, &m);
                        // keep inside the quantified sizes 0..64
                        let grows = matches!(op, Op::Push(_) | Op::PushFront(_) | Op::Insert(_, _));
                        if grows && m.len() >= 64 {
                            op = Op::Pop;
                        }
                        hist.push(op.clone());
                        let before = m.clone();
                        let exp = model_apply(&mut m, &op, &zero, &$sorter);
                        let h = || format!("init={init:?} ops={hist:?}");
                        let mut found: Option<usize> = None;
                        let mut popped: Option<$t> = None;
                        let done = try_run(|| match &op {
                            Op::Push(x) => a.push(x.clone()),
                            Op::PushFront(x) => a.push_front(x.clone()),
                            Op::Insert(p, x) => a.insert(*p, x.clone()),
                            Op::Pop => popped = Some(a.pop()),
                            Op::Swap(i, j) => a.swap(*i, *j),
                            Op::Resize(k) => ($apply_resize)(&mut a, *k, &zero),
                            Op::Assign(x) => a.assign(x.clone()),
                            Op::Clear => a.clear(),
                            Op::Sort => ($apply_sort)(&mut a),
                            Op::Find(x) => found = Some(a.find(x.clone())),
                            Op::IndexSet(i, x) => a[*i] = x.clone(),
                        })
                        .is_some();
                        match exp {
                            None => {
                                if let Op::Find(_) = op {
                                    // find on an empty vector: recorded by empty.rs, state must be unchanged whatever happens
                                } else {
                                    chk!(f, !done, "undefined operation accepted: {:?} on len {} after {}", op, before.len(), h());
                                }
                                m = before.clone();
                            }
                            Some(fi) => {
                                chk!(f, done, "operation rejected: {:?} on len {} after {}", op, before.len(), h());
                                if let Some(k) = fi {
                                    chk!(f, found == Some(k), "find gave {found:?}, definition {k} after {}", h());
                                }
                                if let Op::Pop = op {
                                    let e = before[before.len() - 1].clone();
                                    chk!(f, popped.as_ref().map(|p| eq(p, &e)) == Some(true), "pop returned {popped:?}, expected {e:?} after {}", h());
                                }
                            }
                        }
                        if let Op::Sort = op {
                            // an unstable sort may order +0.0 / -0.0 (equal keys) either way: adopt the library's choice
                            if a.vec.len() == m.len() && a.vec.iter().zip(m.iter()).all(|(x, y)| eq(x, y)) {
                                m = a.vec.clone();
                            }
                        }
                        views(&a, &m, &mut f, &h, &eq);
                        c += 1;
                        if f.n > 0 {
                            break;
                        }
                    }
                    if f.n > 20 {
                        break;
                    }
                }
                tick(c);
                report(stringify!($name), c);
                f.finish(stringify!($name));
            }
        };
    }

    fn ins_sort<T: Clone>(m: &mut Vec<T>, gt: &dyn Fn(&T, &T) -> bool) {
        for i in 1..m.len() {
            let mut j = i;
            while j > 0 && gt(&m[j - 1], &m[j]) {
                m.swap(j - 1, j);
                j -= 1;
            }
        }
    }

    history_test!(
        history_rat,
        Rat,
        41,
        |r: &mut Rng| rat_small(r),
        Rat::int(0),
        |a: &Rat, b: &Rat| a == b,
        |m: &mut Vec<Rat>| ins_sort(m, &|a, b| a > b),
        |a: &mut Vector<Rat>| a.sort(),
        |a: &mut Vector<Rat>, k: usize, _z: &Rat| a.resize(k),
        4000
    );

    // f64: sort via sort_by(partial_cmp); model elements compared with == (so +0 / -0 are interchangeable under sort)
    history_test!(
        history_f64,
        f64,
        42,
        |r: &mut Rng| dy(r),
        0.0,
        |a: &f64, b: &f64| a == b,
        |m: &mut Vec<f64>| ins_sort(m, &|a, b| a > b),
        |a: &mut Vector<f64>| a.sort_by(|x, y| x.partial_cmp(y).unwrap()),
        |a: &mut Vector<f64>, k: usize, _z: &f64| a.resize(k),
        4000
    );

    // Complex<f64>: no Default (resize emulated by push/pop of zero through the public API), sort via sort_by on the
    // lexicographic partial order of the crate
    history_test!(
        history_cmplx,
        C,
        43,
        |r: &mut Rng| cdy(r),
        C::new(0.0, 0.0),
        |a: &C, b: &C| a == b,
        |m: &mut Vec<C>| ins_sort(m, &|a, b| (a.real, a.imag) > (b.real, b.imag)),
        |a: &mut Vector<C>| a.sort_by(|x, y| x.partial_cmp(y).unwrap()),
        |a: &mut Vector<C>, k: usize, z: &C| {
            while a.size() > k {
                a.pop();
            }
            while a.size() < k {
                a.push(z.clone());
            }
        },
        3000
    );
}
mod seq {
    use super::common::*;
    use crate::chk;
    use ohsl::vector::Vector;

    fn endpoint(r: &mut Rng) -> f64 {
        match r.below(12) {
            0 => 0.0,
            1 => 1.0,
            2 => -1.0,
            3 => r.range(-100, 100) as f64,
            4 => 0.1 * r.range(-100, 100) as f64,
            5 => gen_f(r, 60),
            6 => gen_f(r, 300),
            7 => std::f64::consts::PI * r.range(-8, 8) as f64,
            8 => (1u64 << r.below(53)) as f64,
            9 => 1.0 / r.range(1, 1000) as f64,
            _ => gen_f(r, 8),
        }
    }

    fn monotone(v: &[f64], up: bool) -> Option<usize> {
        for i in 1..v.len() {
            if (up && v[i] < v[i - 1]) || (!up && v[i] > v[i - 1]) {
                return Some(i);
            }
        }
        None
    }

    fn check_seq(v: &[f64], a: f64, b: f64, n: usize, f: &mut Fails, tag: &str) {
        chk!(f, v.len() == n, "{tag}: length {} instead of {n}", v.len());
        if v.len() != n {
            return;
        }
        chk!(f, v[0].to_bits() == (a + 0.0).to_bits() || v[0] == a, "{tag}: first {:e} != a {a:e}", v[0]);
        let scale = a.abs().max(b.abs());
        chk!(f, (v[n - 1] - b).abs() <= 4.0 * f64::EPSILON * scale, "{tag}: last {:e} vs b {b:e} (diff {:e})", v[n - 1], v[n - 1] - b);
        chk!(f, v.iter().all(|x| x.is_finite()), "{tag}: non-finite entry");
        if let Some(i) = monotone(v, b >= a) {
            f.add(format!("{tag}: not monotone at i={i}: {:e} then {:e}", v[i - 1], v[i]));
        }
        // all points inside [a,b] up to rounding
        let (lo, hi) = if a <= b { (a, b) } else { (b, a) };
        let slack = 4.0 * f64::EPSILON * scale;
        chk!(f, v.iter().all(|x| *x >= lo - slack && *x <= hi + slack), "{tag}: point outside [a,b]");
    }

    #[test]
    fn linspace_all() {
        let mut f = Fails::new();
        let mut r = Rng::new(51);
        let mut c = 0u64;
        for rep in 0..6000 {
            for n in 2..=64usize {
                let mut a = endpoint(&mut r);
                let mut b = endpoint(&mut r);
                match rep % 9 {
                    0 => b = a,                                  // degenerate interval
                    1 => b = a + a.abs() * f64::EPSILON * r.below(200) as f64, // a few ulps apart
                    2 => b = -a,
                    3 => {
                        a = 0.0;
                    }
                    4 => {
                        b = 0.0;
                    }
                    _ => {}
                }
                let v = Vector::<f64>::linspace(a, b, n);
                let tag = format!("linspace({a:e},{b:e},{n})");
                check_seq(&v.vec, a, b, n, &mut f, &tag);
                // definition: uniform spacing -> compare with a + (b-a) i/(n-1) computed another way
                let sc = a.abs().max(b.abs());
                for i in 0..n {
                    let t = i as f64 / (n - 1) as f64;
                    let e = a * (1.0 - t) + b * t;
                    chk!(f, (v[i] - e).abs() <= 8.0 * f64::EPSILON * sc, "{tag}: i={i} got {:e} expected {e:e}", v[i]);
                }
                c += 1;
            }
        }
        // exactly representable grids are exact: integers with (b-a) divisible by n-1, dyadic steps
        for _ in 0..40000 {
            let n = 2 + r.below(63) as usize;
            let a = r.range(-1000, 1000) as f64 / 16.0;
            let k = r.range(-64, 64) as f64 / 32.0; // step
            let b = a + k * (n - 1) as f64;
            let v = Vector::<f64>::linspace(a, b, n);
            for i in 0..n {
                chk!(f, v[i] == a + k * i as f64, "linspace exact grid a={a} b={b} n={n} i={i} got {:e}", v[i]);
            }
            c += 1;
        }
        tick(c);
        report("linspace_all", c);
        f.finish("linspace_all");
    }

    #[test]
    fn powspace_all() {
        let mut f = Fails::new();
        let mut r = Rng::new(52);
        let mut c = 0u64;
        for rep in 0..5000 {
            for n in 2..=64usize {
                let mut a = endpoint(&mut r);
                let mut b = endpoint(&mut r);
                match rep % 9 {
                    0 => b = a,
                    1 => b = a + a.abs() * f64::EPSILON * r.below(200) as f64,
                    2 => b = -a,
                    3 => a = 0.0,
                    4 => b = 0.0,
                    _ => {}
                }
                let p = match r.below(8) {
                    0 => 1.0,
                    1 => 2.0,
                    2 => 8.0,
                    3 => 3.0,
                    4 => 1.0 + r.unit() * 1e-6,
                    _ => 1.0 + 7.0 * r.unit(),
                };
                let v = Vector::<f64>::powspace(a, b, n, p);
                let tag = format!("powspace({a:e},{b:e},{n},{p:e})");
                check_seq(&v.vec, a, b, n, &mut f, &tag);
                let sc = a.abs().max(b.abs());
                for i in 0..n {
                    let t = (i as f64 / (n - 1) as f64).powf(p);
                    let e = a * (1.0 - t) + b * t;
                    chk!(f, (v[i] - e).abs() <= 16.0 * f64::EPSILON * sc, "{tag}: i={i} got {:e} expected {e:e}", v[i]);
                }
                if p == 1.0 {
                    let l = Vector::<f64>::linspace(a, b, n);
                    for i in 0..n {
                        chk!(f, (v[i] - l[i]).abs() <= 8.0 * f64::EPSILON * sc, "{tag}: p=1 differs from linspace at {i}");
                    }
                }
                c += 1;
            }
        }
        // exact: p=2 / p=3 on [0, (n-1)^p] gives perfect powers
        for n in 2..=64usize {
            for p in [1.0, 2.0, 3.0] {
                let b = ((n - 1) as f64).powf(p);
                let v = Vector::<f64>::powspace(0.0, b, n, p);
                for i in 0..n {
                    let e = (i as f64).powf(p);
                    chk!(f, (v[i] - e).abs() <= 2.0 * f64::EPSILON * e, "powspace perfect powers n={n} p={p} i={i} got {:e}", v[i]);
                }
                c += 1;
            }
        }
        // side remark (outside p in [1,8]): exponents in (0,1)
        let mut bad = 0;
        for _ in 0..20000 {
            let n = 2 + r.below(63) as usize;
            let (a, b) = (endpoint(&mut r), endpoint(&mut r));
            let p = 0.05 + 0.95 * r.unit();
            let v = Vector::<f64>::powspace(a, b, n, p);
            let mut g = Fails::new();
            check_seq(&v.vec, a, b, n, &mut g, "side");
            if g.n > 0 {
                bad += 1;
            }
            c += 1;
        }
        println!("[hunt] powspace side remark: exponents in (0,1): {bad} / 20000 sequences violate the clause");
        tick(c);
        report("powspace_all", c);
        f.finish("powspace_all");
    }

    #[test]
    fn random_vec() {
        let mut f = Fails::new();
        let mut c = 0;
        for n in 0..=64usize {
            for _ in 0..50 {
                let v = Vector::<f64>::random(n);
                chk!(f, v.size() == n && v.vec.iter().all(|x| *x >= 0.0 && *x < 1.0), "random({n}) out of [0,1) or wrong size");
                c += 1;
            }
        }
        tick(c);
        f.finish("random_vec");
    }

    #[test]
    fn constructors() {
        let mut f = Fails::new();
        let mut c = 0;
        for n in 0..=64usize {
            let z = Vector::<Rat>::zeros(n);
            let o = Vector::<Rat>::ones(n);
            let k = Vector::<Rat>::new(n, Rat::new(3, 7));
            chk!(f, z.vec == vec![Rat::int(0); n] && o.vec == vec![Rat::int(1); n] && k.vec == vec![Rat::new(3, 7); n], "constructors n={n}");
            chk!(f, z.size() == n && o.size() == n && k.size() == n, "constructor sizes n={n}");
            let zf = Vector::<f64>::zeros(n);
            let of = Vector::<f64>::ones(n);
            chk!(f, zf.vec == vec![0.0; n] && of.vec == vec![1.0; n], "f64 constructors n={n}");
            let zc = Vector::<C>::zeros(n);
            let oc = Vector::<C>::ones(n);
            chk!(f, zc.vec == vec![C::new(0.0, 0.0); n] && oc.vec == vec![C::new(1.0, 0.0); n], "cx constructors n={n}");
            chk!(f, (n == 0) == (z == Vector::<Rat>::empty()), "empty() equality n={n}");
            c += 5;
        }
        tick(c);
        f.finish("constructors");
    }
}
mod empty {
    // Length 0 and length 1: every routine named by the property ("all vectors of length 0..64").
    use super::common::*;
    use crate::chk;
    use ohsl::complex::Complex;
    use ohsl::traits::{Number, One, Signed, Zero};
    use ohsl::vector::Vector;

    fn show<R: std::fmt::Debug>(name: &str, r: Option<R>) -> String {
        match r {
            Some(x) => format!("{name} -> value {x:?}"),
            None => format!("{name} -> PANIC"),
        }
    }

    /// prints what every routine does on the empty vector (informational, never fails)
    #[test]
    fn empty_probe() {
        let e = Vector::<f64>::empty();
        let er = Vector::<Rat>::empty();
        let ec = Vector::<C>::empty();
        println!("[hunt] debug_assertions = {}", cfg!(debug_assertions));
        println!("[hunt] {}", show("f64 sum()", try_run(|| e.sum())));
        println!("[hunt] {}", show("f64 product()", try_run(|| e.product())));
        println!("[hunt] {}", show("f64 norm_1()", try_run(|| e.norm_1())));
        println!("[hunt] {}", show("f64 norm_2()", try_run(|| e.norm_2())));
        println!("[hunt] {}", show("f64 norm_p(3)", try_run(|| e.norm_p(3.0))));
        println!("[hunt] {}", show("f64 norm_inf()", try_run(|| e.norm_inf())));
        println!("[hunt] {}", show("f64 find(1.0)", try_run(|| e.find(1.0))));
        println!("[hunt] {}", show("f64 dot", try_run(|| e.dot(&e))));
        println!("[hunt] {}", show("f64 dot_f64", try_run(|| e.dot_f64(&e))));
        println!("[hunt] {}", show("f64 abs", try_run(|| e.abs())));
        println!("[hunt] {}", show("rat sum()", try_run(|| er.sum())));
        println!("[hunt] {}", show("rat product()", try_run(|| er.product())));
        println!("[hunt] {}", show("rat find", try_run(|| er.find(Rat::int(1)))));
        println!("[hunt] {}", show("rat norm_1", try_run(|| er.norm_1())));
        println!("[hunt] {}", show("cx sum()", try_run(|| ec.sum())));
        println!("[hunt] {}", show("cx norm_inf()", try_run(|| ec.norm_inf())));
        println!("[hunt] {}", show("cx norm_1()", try_run(|| ec.norm_1())));
        println!("[hunt] {}", show("cx find", try_run(|| ec.find(C::new(1.0, 0.0)))));
        println!("[hunt] {}", show("linspace(0,1,0)", try_run(|| Vector::<f64>::linspace(0.0, 1.0, 0))));
        println!("[hunt] {}", show("linspace(0,1,1)", try_run(|| Vector::<f64>::linspace(0.0, 1.0, 1))));
        println!("[hunt] {}", show("powspace(0,1,1,2)", try_run(|| Vector::<f64>::powspace(0.0, 1.0, 1, 2.0))));
    }

    /// what works on length 0 must match the definitions (empty sums are 0, element-wise maps give empty vectors)
    #[test]
    fn empty_ok_parts() {
        let mut f = Fails::new();
        let e = Vector::<f64>::empty();
        let er = Vector::<Rat>::empty();
        let ec = Vector::<C>::empty();
        chk!(f, e.norm_1() == 0.0 && e.norm_2() == 0.0 && e.norm_p(1.0) == 0.0 && e.norm_p(8.0) == 0.0 && e.norm_p(2.5) == 0.0, "empty norms");
        chk!(f, er.norm_1() == Rat::int(0) && er.dot(&er) == Rat::int(0), "empty rat norm_1/dot");
        chk!(f, e.dot(&e) == 0.0 && e.dot_f64(&e) == 0.0, "empty dot");
        chk!(f, ec.dot(&ec) == C::new(0.0, 0.0) && ec.norm_1() == C::new(0.0, 0.0), "empty cx dot/norm_1");
        chk!(f, e.abs().size() == 0 && er.abs().size() == 0 && ec.conj().size() == 0 && ec.real().size() == 0, "empty maps");
        chk!(f, (&e + &e).size() == 0 && (&e - &e).size() == 0 && (e.clone() * 2.0).size() == 0 && (2.0 * e.clone()).size() == 0 && (-e.clone()).size() == 0, "empty arithmetic");
        let mut t = er.clone();
        t += er.clone();
        t -= er.clone();
        t += Rat::int(1);
        t *= Rat::int(2);
        t /= Rat::int(2);
        t.assign(Rat::int(3));
        t.sort();
        t.resize(0);
        t.clear();
        chk!(f, t.size() == 0 && t == er, "empty op= / assign / sort / resize / clear");
        chk!(f, try_run(|| er.clone().pop()).is_none(), "pop on empty accepted");
        chk!(f, try_run(|| er.sum_slice(0, 0)).is_none() && try_run(|| er.product_slice(0, 0)).is_none(), "slice (0,0) on empty accepted");
        chk!(f, try_run(|| {
            let mut t = er.clone();
            t.swap(0, 0)
        })
        .is_none(), "swap(0,0) on empty accepted");
        chk!(f, format!("{e:?}") == "[]" && format!("{e}") == "[]", "empty Debug/Display");
        tick(12);
        f.finish("empty_ok_parts");
    }

    // ---- the candidates: definitions give a value on the empty vector (empty sum = 0, empty product = 1,
    // ---- max over nothing of |x| = 0 so that inf-norm <= 2-norm <= 1-norm reads 0 <= 0 <= 0)
    #[test]
    fn empty_sum_is_zero() {
        let r = try_run(|| Vector::<Rat>::empty().sum());
        assert_eq!(r, Some(Rat::int(0)), "sum() of the empty vector: None = panic");
    }
    #[test]
    fn empty_product_is_one() {
        let r = try_run(|| Vector::<Rat>::empty().product());
        assert_eq!(r, Some(Rat::int(1)), "product() of the empty vector: None = panic");
    }
    #[test]
    fn empty_norm_inf_is_zero() {
        let r = try_run(|| Vector::<f64>::empty().norm_inf());
        assert_eq!(r, Some(0.0), "norm_inf() of the empty f64 vector: None = panic");
        let r = try_run(|| Vector::<C>::empty().norm_inf());
        assert_eq!(r, Some(0.0), "norm_inf() of the empty complex vector: None = panic");
    }
    #[test]
    fn empty_find_has_no_index() {
        // "first match, else last index": an empty vector has no last index; a returned index must at least be < size
        // or the call must be rejected in every build profile. Observed: debug panics (usize underflow),
        // release returns usize::MAX.
        let r = try_run(|| Vector::<Rat>::empty().find(Rat::int(1)));
        assert!(r.is_none(), "find on the empty vector returned index {r:?} (size is 0)");
    }
}
