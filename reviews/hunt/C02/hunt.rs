// Adversarial property hunt for C02:
//   determinant == exact determinant (sign, zero for singular), A*inv(A) = inv(A)*A = I,
//   exactly over an exact type (own rational on i128), to rounding accuracy over f64 / Complex<f64>,
//   and the matrix is left intact.
// Oracles (all independent of the LU under test):
//   * exact determinant by Laplace expansion with subset memoisation (division free) over i128 integers,
//     Gaussian integers and the own rational type;
//   * inverse checked by own naive matrix products against the identity (both sides);
//   * bitwise comparison of the matrix against a copy taken before the call.
use ohsl::{Complex, Matrix, Number, One, Signed, Zero};
use std::cell::Cell;
use std::cmp::Ordering;
use std::ops::{Add, AddAssign, Div, DivAssign, Mul, MulAssign, Neg, Sub, SubAssign};
use std::sync::atomic::{AtomicU64, Ordering as AO};

static CASES: AtomicU64 = AtomicU64::new(0);
fn count(n: u64) {
    CASES.fetch_add(n, AO::Relaxed);
}

// ---------------------------------------------------------------- rng
struct Rng(u64);
impl Rng {
    fn new(seed: u64) -> Self {
        Rng(seed.wrapping_mul(0x9E3779B97F4A7C15) | 1)
    }
    fn next(&mut self) -> u64 {
        let mut x = self.0;
        x ^= x << 13;
        x ^= x >> 7;
        x ^= x << 17;
        self.0 = x;
        x.wrapping_mul(0x2545F4914F6CDD1D)
    }
    fn below(&mut self, n: u64) -> u64 {
        (self.next() >> 11) % n
    }
    fn range(&mut self, lo: i64, hi: i64) -> i64 {
        lo + self.below((hi - lo + 1) as u64) as i64
    }
    fn chance(&mut self, num: u64, den: u64) -> bool {
        self.below(den) < num
    }
    fn perm(&mut self, n: usize) -> Vec<usize> {
        let mut p: Vec<usize> = (0..n).collect();
        for i in (1..n).rev() {
            let j = self.below(i as u64 + 1) as usize;
            p.swap(i, j);
        }
        p
    }
}

// ---------------------------------------------------------------- exact rational on i128
thread_local! { static OVF: Cell<bool> = Cell::new(false); }
fn ovf_set() {
    OVF.with(|c| c.set(true));
}
fn ovf_take() -> bool {
    OVF.with(|c| c.replace(false))
}

fn gcd(a: i128, b: i128) -> i128 {
    let (mut a, mut b) = (a.abs(), b.abs());
    while b != 0 {
        let t = a % b;
        a = b;
        b = t;
    }
    a
}

#[derive(Clone, Copy, Debug)]
struct Rat {
    n: i128,
    d: i128,
}
impl Rat {
    fn new(n: i128, d: i128) -> Rat {
        if d == 0 {
            panic!("Rat: division by zero");
        }
        let g = gcd(n, d);
        let (mut n, mut d) = if g == 0 { (0, 1) } else { (n / g, d / g) };
        if d < 0 {
            n = -n;
            d = -d;
        }
        Rat { n, d }
    }
    fn int(n: i128) -> Rat {
        Rat { n, d: 1 }
    }
}
fn cm(a: i128, b: i128) -> i128 {
    match a.checked_mul(b) {
        Some(v) => v,
        None => {
            ovf_set();
            0
        }
    }
}
fn ca(a: i128, b: i128) -> i128 {
    match a.checked_add(b) {
        Some(v) => v,
        None => {
            ovf_set();
            0
        }
    }
}
impl PartialEq for Rat {
    fn eq(&self, o: &Rat) -> bool {
        self.n == o.n && self.d == o.d
    }
}
impl PartialOrd for Rat {
    fn partial_cmp(&self, o: &Rat) -> Option<Ordering> {
        Some(cm(self.n, o.d).cmp(&cm(o.n, self.d)))
    }
}
impl Add for Rat {
    type Output = Rat;
    fn add(self, o: Rat) -> Rat {
        let g = gcd(self.d, o.d);
        let (da, db) = (self.d / g, o.d / g);
        Rat::new(ca(cm(self.n, db), cm(o.n, da)), cm(cm(da, db), g).max(1))
    }
}
impl Neg for Rat {
    type Output = Rat;
    fn neg(self) -> Rat {
        Rat { n: -self.n, d: self.d }
    }
}
impl Sub for Rat {
    type Output = Rat;
    fn sub(self, o: Rat) -> Rat {
        self + (-o)
    }
}
impl Mul for Rat {
    type Output = Rat;
    fn mul(self, o: Rat) -> Rat {
        let g1 = gcd(self.n, o.d).max(1);
        let g2 = gcd(o.n, self.d).max(1);
        Rat::new(cm(self.n / g1, o.n / g2), cm(self.d / g2, o.d / g1).max(1))
    }
}
impl Div for Rat {
    type Output = Rat;
    fn div(self, o: Rat) -> Rat {
        if o.n == 0 {
            panic!("Rat: division by zero");
        }
        self * Rat::new(o.d, o.n)
    }
}
impl AddAssign for Rat {
    fn add_assign(&mut self, o: Rat) {
        *self = *self + o;
    }
}
impl SubAssign for Rat {
    fn sub_assign(&mut self, o: Rat) {
        *self = *self - o;
    }
}
impl MulAssign for Rat {
    fn mul_assign(&mut self, o: Rat) {
        *self = *self * o;
    }
}
impl DivAssign for Rat {
    fn div_assign(&mut self, o: Rat) {
        *self = *self / o;
    }
}
impl Zero for Rat {
    fn zero() -> Rat {
        Rat::int(0)
    }
}
impl One for Rat {
    fn one() -> Rat {
        Rat::int(1)
    }
}
impl Number for Rat {}
impl Signed for Rat {
    fn abs(&self) -> Rat {
        Rat { n: self.n.abs(), d: self.d }
    }
}

// ---------------------------------------------------------------- exact determinants (division free, subset DP)
fn det_generic<E: Copy>(
    a: &Vec<Vec<E>>,
    zero: E,
    one: E,
    add: &dyn Fn(E, E) -> E,
    sub: &dyn Fn(E, E) -> E,
    mul: &dyn Fn(E, E) -> E,
) -> E {
    let n = a.len();
    // f[mask] = det of the submatrix made of the LAST popcount(mask) rows and the columns in mask
    let full = 1usize << n;
    let mut f: Vec<E> = vec![zero; full];
    f[0] = one;
    for mask in 1..full {
        let k = (mask as u32).count_ones() as usize;
        let row = n - k;
        let mut acc = zero;
        let mut pos = 0;
        for j in 0..n {
            if mask & (1 << j) != 0 {
                let term = mul(a[row][j], f[mask & !(1 << j)]);
                if pos % 2 == 0 {
                    acc = add(acc, term);
                } else {
                    acc = sub(acc, term);
                }
                pos += 1;
            }
        }
        f[mask] = acc;
    }
    f[full - 1]
}
fn det_int(a: &Vec<Vec<i128>>) -> i128 {
    det_generic(a, 0i128, 1i128, &|x, y| x + y, &|x, y| x - y, &|x, y| x * y)
}
type G = (i128, i128);
fn det_gauss(a: &Vec<Vec<G>>) -> G {
    det_generic(
        a,
        (0, 0),
        (1, 0),
        &|x, y| (x.0 + y.0, x.1 + y.1),
        &|x, y| (x.0 - y.0, x.1 - y.1),
        &|x, y| (x.0 * y.0 - x.1 * y.1, x.0 * y.1 + x.1 * y.0),
    )
}
fn det_rat(a: &Vec<Vec<Rat>>) -> Rat {
    det_generic(a, Rat::int(0), Rat::int(1), &|x, y| x + y, &|x, y| x - y, &|x, y| x * y)
}
// second, fully independent oracle: Leibniz sum over all permutations (used on a sample to validate the DP)
fn det_leibniz(a: &Vec<Vec<i128>>) -> i128 {
    fn rec(a: &Vec<Vec<i128>>, row: usize, used: &mut Vec<bool>, inv: usize, prod: i128, acc: &mut i128) {
        let n = a.len();
        if row == n {
            if inv % 2 == 0 {
                *acc += prod
            } else {
                *acc -= prod
            }
            return;
        }
        for j in 0..n {
            if !used[j] {
                if a[row][j] == 0 {
                    continue;
                }
                let more = (j + 1..n).filter(|&c| used[c]).count();
                used[j] = true;
                rec(a, row + 1, used, inv + more, prod * a[row][j], acc);
                used[j] = false;
            }
        }
    }
    let mut acc = 0;
    let mut used = vec![false; a.len()];
    rec(a, 0, &mut used, 0, 1, &mut acc);
    acc
}

// ---------------------------------------------------------------- integer matrix generators
const NCLASS: usize = 34;
fn gen_int(rng: &mut Rng, n: usize, class: usize) -> Vec<Vec<i64>> {
    let mut a = vec![vec![0i64; n]; n];
    let r = [1i64, 2, 3, 9, 100, 1000][rng.below(6) as usize];
    let dense = |rng: &mut Rng, a: &mut Vec<Vec<i64>>, r: i64| {
        for i in 0..n {
            for j in 0..n {
                a[i][j] = rng.range(-r, r);
            }
        }
    };
    let nz = |rng: &mut Rng, r: i64| -> i64 {
        let v = rng.range(1, r);
        if rng.chance(1, 2) {
            v
        } else {
            -v
        }
    };
    match class {
        0 => dense(rng, &mut a, r),
        1 => dense(rng, &mut a, 1),
        2 => {
            // sparse pattern
            let p = 1 + rng.below(6);
            for i in 0..n {
                for j in 0..n {
                    if rng.chance(p, 8) {
                        a[i][j] = nz(rng, r);
                    }
                }
            }
        }
        3 => {
            // sparse with full nonzero diagonal
            let p = 1 + rng.below(4);
            for i in 0..n {
                for j in 0..n {
                    if i == j || rng.chance(p, 8) {
                        a[i][j] = nz(rng, r);
                    }
                }
            }
        }
        4 => {
            // signed / scaled permutation
            let p = rng.perm(n);
            for i in 0..n {
                a[i][p[i]] = nz(rng, r);
            }
        }
        5 => {
            // pure permutation
            let p = rng.perm(n);
            for i in 0..n {
                a[i][p[i]] = 1;
            }
        }
        6 => {
            // permutation with power of two weights
            let p = rng.perm(n);
            for i in 0..n {
                a[i][p[i]] = (1i64 << rng.below(10)) * if rng.chance(1, 2) { 1 } else { -1 };
            }
        }
        7 => {
            // upper triangular
            for i in 0..n {
                for j in i..n {
                    a[i][j] = rng.range(-r, r);
                }
                a[i][i] = nz(rng, r);
            }
        }
        8 => {
            // lower triangular
            for i in 0..n {
                for j in 0..=i {
                    a[i][j] = rng.range(-r, r);
                }
                a[i][i] = nz(rng, r);
            }
        }
        9 => {
            // triangular with a zero somewhere on the diagonal (singular)
            let up = rng.chance(1, 2);
            for i in 0..n {
                for j in 0..n {
                    if (up && j >= i) || (!up && j <= i) {
                        a[i][j] = nz(rng, r);
                    }
                }
            }
            let z = rng.below(n as u64) as usize;
            a[z][z] = 0;
        }
        10 => {
            // zero row
            dense(rng, &mut a, r);
            let z = rng.below(n as u64) as usize;
            for j in 0..n {
                a[z][j] = 0;
            }
        }
        11 => {
            // zero column
            dense(rng, &mut a, r);
            let z = rng.below(n as u64) as usize;
            for i in 0..n {
                a[i][z] = 0;
            }
        }
        12 => {
            // rank deficient: product of n x k and k x n
            let k = rng.below(n as u64) as usize; // 0..n-1
            let rr = 1 + rng.below(5) as i64;
            let b: Vec<Vec<i64>> = (0..n).map(|_| (0..k).map(|_| rng.range(-rr, rr)).collect()).collect();
            let c: Vec<Vec<i64>> = (0..k).map(|_| (0..n).map(|_| rng.range(-rr, rr)).collect()).collect();
            for i in 0..n {
                for j in 0..n {
                    a[i][j] = (0..k).map(|t| b[i][t] * c[t][j]).sum();
                }
            }
        }
        13 => {
            // duplicated / proportional rows
            dense(rng, &mut a, r.min(100));
            if n >= 2 {
                let i1 = rng.below(n as u64) as usize;
                let mut i2 = rng.below(n as u64) as usize;
                if i2 == i1 {
                    i2 = (i1 + 1) % n;
                }
                let f = rng.range(-3, 3);
                for j in 0..n {
                    a[i2][j] = f * a[i1][j];
                }
            } else {
                a[0][0] = 0;
            }
        }
        14 => {
            // duplicated / proportional columns
            dense(rng, &mut a, r.min(100));
            if n >= 2 {
                let j1 = rng.below(n as u64) as usize;
                let mut j2 = rng.below(n as u64) as usize;
                if j2 == j1 {
                    j2 = (j1 + 1) % n;
                }
                let f = rng.range(-3, 3);
                for i in 0..n {
                    a[i][j2] = f * a[i][j1];
                }
            } else {
                a[0][0] = 0;
            }
        }
        15 => {
            // one row is the sum of the others
            dense(rng, &mut a, r.min(100));
            if n >= 2 {
                let z = rng.below(n as u64) as usize;
                for j in 0..n {
                    a[z][j] = (0..n).filter(|&i| i != z).map(|i| a[i][j]).sum();
                }
            } else {
                a[0][0] = 0;
            }
        }
        16 => {
            // banded
            let w = rng.below(3) as i64 + 1;
            for i in 0..n {
                for j in 0..n {
                    if (i as i64 - j as i64).abs() <= w {
                        a[i][j] = rng.range(-r, r);
                    }
                }
            }
        }
        17 => {
            // tridiagonal with constant bands (classic -1 2 -1 etc.)
            let (l, d, u) = (rng.range(-3, 3), rng.range(-3, 3), rng.range(-3, 3));
            for i in 0..n {
                a[i][i] = d;
                if i + 1 < n {
                    a[i][i + 1] = u;
                    a[i + 1][i] = l;
                }
            }
        }
        18 => {
            // symmetric
            for i in 0..n {
                for j in i..n {
                    let v = rng.range(-r, r);
                    a[i][j] = v;
                    a[j][i] = v;
                }
            }
        }
        19 => {
            // skew symmetric (singular for odd n)
            for i in 0..n {
                for j in i + 1..n {
                    let v = rng.range(-r, r);
                    a[i][j] = v;
                    a[j][i] = -v;
                }
            }
        }
        20 => {
            // anti-diagonal / reversal (floor(n/2) exchanges)
            for i in 0..n {
                a[i][n - 1 - i] = nz(rng, r);
            }
            if rng.chance(1, 2) {
                for i in 0..n {
                    for j in 0..n {
                        if i + j > n - 1 {
                            a[i][j] = rng.range(-r, r);
                        }
                    }
                }
            }
        }
        21 => {
            // cyclic shift (n-1 exchanges) up or down
            let up = rng.chance(1, 2);
            for i in 0..n {
                let j = if up { (i + 1) % n } else { (i + n - 1) % n };
                a[i][j] = nz(rng, r);
            }
        }
        22 => {
            // an exchange needed at every step: |subdiagonal| dominates
            for i in 0..n {
                for j in 0..n {
                    a[i][j] = rng.range(-2, 2);
                }
            }
            for i in 0..n {
                a[(i + 1) % n][i] = nz(rng, 5) * 10;
            }
        }
        23 => {
            // zero leading entry / zero diagonal
            dense(rng, &mut a, r);
            for i in 0..n {
                a[i][i] = 0;
            }
        }
        24 => {
            // ties: all entries +-c
            let c = nz(rng, r).abs();
            for i in 0..n {
                for j in 0..n {
                    a[i][j] = if rng.chance(1, 2) { c } else { -c };
                }
            }
        }
        25 => {
            // Wilkinson growth matrix, possibly row-permuted
            for i in 0..n {
                a[i][i] = 1;
                for j in 0..i {
                    a[i][j] = -1;
                }
                a[i][n - 1] = 1;
            }
            if rng.chance(1, 2) {
                let p = rng.perm(n);
                let b = a.clone();
                for i in 0..n {
                    a[i] = b[p[i]].clone();
                }
            }
        }
        26 => {
            // P * L * U with |L| small compared with the pivots: prescribed exchanges
            let mut l = vec![vec![0i64; n]; n];
            let mut u = vec![vec![0i64; n]; n];
            for i in 0..n {
                l[i][i] = 1;
                for j in 0..i {
                    l[i][j] = rng.range(-1, 1);
                }
                for j in i..n {
                    u[i][j] = rng.range(-3, 3);
                }
                u[i][i] = nz(rng, 3);
            }
            let p = rng.perm(n);
            for i in 0..n {
                for j in 0..n {
                    a[p[i]][j] = (0..n).map(|t| l[i][t] * u[t][j]).sum();
                }
            }
        }
        27 => {
            // upper Hessenberg
            for i in 0..n {
                for j in 0..n {
                    if j + 1 >= i {
                        a[i][j] = rng.range(-r, r);
                    }
                }
            }
        }
        28 => {
            // block diagonal of 1x1 and 2x2 blocks, some singular
            let mut i = 0;
            while i < n {
                if i + 1 < n && rng.chance(2, 3) {
                    a[i][i] = rng.range(-r, r);
                    a[i][i + 1] = rng.range(-r, r);
                    a[i + 1][i] = rng.range(-r, r);
                    a[i + 1][i + 1] = rng.range(-r, r);
                    i += 2;
                } else {
                    a[i][i] = rng.range(-r, r);
                    i += 1;
                }
            }
        }
        29 => {
            // identity plus rank one / constant matrix
            let c = rng.range(-r, r);
            let d = rng.range(-r, r);
            for i in 0..n {
                for j in 0..n {
                    a[i][j] = c + if i == j { d } else { 0 };
                }
            }
        }
        30 => {
            // zero matrix / single entry
            if rng.chance(1, 2) {
                let i = rng.below(n as u64) as usize;
                let j = rng.below(n as u64) as usize;
                a[i][j] = nz(rng, r);
            }
        }
        31 => {
            // diagonal with repeated / clustered values, powers of two
            for i in 0..n {
                a[i][i] = match rng.below(4) {
                    0 => 1,
                    1 => -1,
                    2 => 1 << rng.below(10),
                    _ => nz(rng, r),
                };
            }
        }
        32 => {
            // Vandermonde on small integer nodes (repeated nodes -> singular)
            let nodes: Vec<i64> = (0..n).map(|_| rng.range(-3, 3)).collect();
            for i in 0..n {
                let mut p = 1i64;
                for j in 0..n {
                    a[i][j] = p;
                    p *= nodes[i];
                }
            }
        }
        33 => {
            // first column zero below some row: sub-column zero only at a later stage (rank drop in the middle)
            dense(rng, &mut a, r.min(9));
            if n >= 3 {
                // make columns c and c+1 identical below the top c rows => zero sub-column appears at stage c+1
                let c = rng.below(n as u64 - 1) as usize;
                for i in 0..n {
                    a[i][c + 1] = a[i][c];
                }
                for i in 0..c.min(n) {
                    a[i][c + 1] = rng.range(-9, 9);
                }
            }
        }
        _ => unreachable!(),
    }
    a
}

fn to128(a: &Vec<Vec<i64>>) -> Vec<Vec<i128>> {
    a.iter().map(|r| r.iter().map(|&v| v as i128).collect()).collect()
}

// ---------------------------------------------------------------- rational checks
fn rat_matrix(a: &Vec<Vec<Rat>>) -> Matrix<Rat> {
    let n = a.len();
    let mut m = Matrix::<Rat>::new(n, n, Rat::int(0));
    for i in 0..n {
        for j in 0..n {
            m[(i, j)] = a[i][j];
        }
    }
    m
}

/// returns false when the case had to be discarded because of i128 overflow
fn check_rat(a: &Vec<Vec<Rat>>, tag: &str) -> bool {
    let n = a.len();
    ovf_take();
    let exact = det_rat(a);
    if ovf_take() {
        return false;
    }
    let m = rat_matrix(a);
    let before = m.clone();
    let d = m.determinant();
    if ovf_take() {
        return false;
    }
    assert!(m == before, "[{}] determinant modified the matrix {:?}", tag, a);
    assert!(m.rows() == n && m.cols() == n);
    assert!(d == exact, "[{}] rational determinant {:?} != exact {:?} for {:?}", tag, d, exact, a);
    if exact.n != 0 {
        let x = m.inverse();
        if ovf_take() {
            return false;
        }
        assert!(m == before, "[{}] inverse modified the matrix {:?}", tag, a);
        assert!(x.rows() == n && x.cols() == n, "[{}] inverse has wrong shape", tag);
        for i in 0..n {
            for j in 0..n {
                let mut r = Rat::int(0);
                let mut l = Rat::int(0);
                for k in 0..n {
                    r = r + a[i][k] * x[(k, j)];
                    l = l + x[(i, k)] * a[k][j];
                }
                if ovf_take() {
                    return false;
                }
                let e = if i == j { Rat::int(1) } else { Rat::int(0) };
                assert!(r == e, "[{}] (A*inv)[{},{}] = {:?} for {:?}", tag, i, j, r, a);
                assert!(l == e, "[{}] (inv*A)[{},{}] = {:?} for {:?}", tag, i, j, l, a);
            }
        }
        // the crate's own product, by reference and by value
        let p1 = &m * &x;
        let p2 = x.clone() * m.clone();
        if ovf_take() {
            return false;
        }
        let eye = Matrix::<Rat>::eye(n);
        assert!(p1 == eye && p2 == eye, "[{}] crate product with inverse is not I for {:?}", tag, a);
        // det(inv) = 1/det
        let di = x.determinant();
        if !ovf_take() {
            assert!(di * exact == Rat::int(1), "[{}] det(inv)*det != 1 for {:?}", tag, a);
        }
    }
    true
}

fn int_to_rat(a: &Vec<Vec<i64>>) -> Vec<Vec<Rat>> {
    a.iter().map(|r| r.iter().map(|&v| Rat::int(v as i128)).collect()).collect()
}

#[test]
fn dp_oracle_agrees_with_leibniz() {
    let mut rng = Rng::new(77);
    for it in 0..6000 {
        let n = 1 + (it % 7);
        let class = rng.below(NCLASS as u64) as usize;
        let a = to128(&gen_int(&mut rng, n, class));
        assert_eq!(det_int(&a), det_leibniz(&a), "oracles disagree on {:?}", a);
    }
    // 8x8 sample
    for _ in 0..40 {
        let class = rng.below(NCLASS as u64) as usize;
        let a = to128(&gen_int(&mut rng, 8, class));
        assert_eq!(det_int(&a), det_leibniz(&a));
    }
}

#[test]
fn rat_exhaustive_small() {
    let mut cnt = 0u64;
    // all 1x1 in -5..5, all 2x2 in -3..3, all 3x3 in {-1,0,1}
    for v in -5i64..=5 {
        assert!(check_rat(&int_to_rat(&vec![vec![v]]), "1x1"));
        cnt += 1;
    }
    for code in 0..7u32.pow(4) {
        let mut c = code;
        let mut a = vec![vec![0i64; 2]; 2];
        for i in 0..2 {
            for j in 0..2 {
                a[i][j] = (c % 7) as i64 - 3;
                c /= 7;
            }
        }
        assert!(check_rat(&int_to_rat(&a), "2x2"));
        cnt += 1;
    }
    for code in 0..3u32.pow(9) {
        let mut c = code;
        let mut a = vec![vec![0i64; 3]; 3];
        for i in 0..3 {
            for j in 0..3 {
                a[i][j] = (c % 3) as i64 - 1;
                c /= 3;
            }
        }
        assert!(check_rat(&int_to_rat(&a), "3x3"));
        cnt += 1;
    }
    // all 4x4 0/1 matrices
    for code in 0..(1u32 << 16) {
        let mut a = vec![vec![0i64; 4]; 4];
        for i in 0..4 {
            for j in 0..4 {
                a[i][j] = ((code >> (4 * i + j)) & 1) as i64;
            }
        }
        assert!(check_rat(&int_to_rat(&a), "4x4"));
        cnt += 1;
    }
    count(cnt);
    println!("rat_exhaustive_small: {} cases", cnt);
}

#[test]
fn rat_all_permutations_signed() {
    // every permutation matrix of order 1..7 (all parities), plus signed/scaled variants
    let mut cnt = 0u64;
    fn heap(k: usize, p: &mut Vec<usize>, out: &mut Vec<Vec<usize>>) {
        if k <= 1 {
            out.push(p.clone());
            return;
        }
        for i in 0..k {
            heap(k - 1, p, out);
            if k % 2 == 0 {
                p.swap(i, k - 1);
            } else {
                p.swap(0, k - 1);
            }
        }
    }
    let mut rng = Rng::new(5);
    for n in 1..=7usize {
        let mut out = vec![];
        heap(n, &mut (0..n).collect(), &mut out);
        for p in out {
            let mut a = vec![vec![0i64; n]; n];
            for i in 0..n {
                a[i][p[i]] = 1;
            }
            // parity by cycle count
            let mut seen = vec![false; n];
            let mut cyc = 0;
            for i in 0..n {
                if !seen[i] {
                    cyc += 1;
                    let mut j = i;
                    while !seen[j] {
                        seen[j] = true;
                        j = p[j];
                    }
                }
            }
            let sign: i128 = if (n - cyc) % 2 == 0 { 1 } else { -1 };
            let m = rat_matrix(&int_to_rat(&a));
            assert!(m.determinant() == Rat::int(sign), "permutation {:?}", p);
            assert!(check_rat(&int_to_rat(&a), "perm"));
            let mf = f_matrix(&a.iter().map(|r| r.iter().map(|&v| v as f64).collect()).collect());
            assert!(mf.determinant() == sign as f64, "f64 permutation {:?}", p);
            let mut b = a.clone();
            for i in 0..n {
                b[i][p[i]] = rng.range(1, 9) * if rng.chance(1, 2) { 1 } else { -1 };
            }
            assert!(check_rat(&int_to_rat(&b), "signed perm"));
            cnt += 2;
        }
    }
    count(cnt);
    println!("rat_all_permutations_signed: {} cases", cnt);
}

#[test]
fn rat_random_classes() {
    let mut rng = Rng::new(20260927);
    let mut done = 0u64;
    let mut skipped = 0u64;
    let mut singular = 0u64;
    for it in 0..260_000u64 {
        let n = 1 + (it % 8) as usize;
        let class = (it / 8) as usize % NCLASS;
        let mut a = gen_int(&mut rng, n, class);
        // keep numbers small for large orders so that i128 rationals do not overflow
        let cap: i64 = match n {
            1..=4 => 1000,
            5 => 100,
            6 => 20,
            7 => 9,
            _ => 5,
        };
        for row in a.iter_mut() {
            for v in row.iter_mut() {
                if v.abs() > cap {
                    *v %= cap + 1;
                }
            }
        }
        let mut ar = int_to_rat(&a);
        // a third of the cases: genuinely rational entries (row / column scaling and random denominators)
        match it % 3 {
            1 => {
                for i in 0..n {
                    let d = rng.range(1, 6) as i128;
                    for j in 0..n {
                        ar[i][j] = ar[i][j] * Rat::new(1, d);
                    }
                }
                for j in 0..n {
                    let d = Rat::new(rng.range(1, 5) as i128, rng.range(1, 5) as i128);
                    for i in 0..n {
                        ar[i][j] = ar[i][j] * d;
                    }
                }
            }
            2 if n <= 5 => {
                for i in 0..n {
                    for j in 0..n {
                        if ar[i][j].n != 0 {
                            ar[i][j] = Rat::new(ar[i][j].n, rng.range(1, 4) as i128);
                        }
                    }
                }
            }
            _ => {}
        }
        if det_int(&to128(&a)) == 0 {
            singular += 1;
        }
        if check_rat(&ar, &format!("class {} n {}", class, n)) {
            done += 1;
        } else {
            skipped += 1;
        }
    }
    // Hilbert and Cauchy-like matrices
    for n in 1..=6usize {
        let a: Vec<Vec<Rat>> = (0..n).map(|i| (0..n).map(|j| Rat::new(1, (i + j + 1) as i128)).collect()).collect();
        if check_rat(&a, "hilbert") {
            done += 1;
        } else {
            skipped += 1;
        }
    }
    count(done);
    println!("rat_random_classes: {} checked, {} discarded for i128 overflow, {} singular (integer stage)", done, skipped, singular);
    assert!(skipped * 10 < done, "too many discarded cases");
}

// ---------------------------------------------------------------- f64 checks
fn f_matrix(a: &Vec<Vec<f64>>) -> Matrix<f64> {
    let n = a.len();
    let mut m = Matrix::<f64>::new(n, n, 0.0);
    for i in 0..n {
        for j in 0..n {
            m[(i, j)] = a[i][j];
        }
    }
    m
}
fn bits_eq_f(m: &Matrix<f64>, a: &Vec<Vec<f64>>) -> bool {
    let n = a.len();
    if m.rows() != n || m.cols() != n {
        return false;
    }
    for i in 0..n {
        for j in 0..n {
            if m[(i, j)].to_bits() != a[i][j].to_bits() {
                return false;
            }
        }
    }
    true
}

const DET_TOL: f64 = 1e-10;
const RES_TOL: f64 = 1e-11;

struct Stats {
    max_det_ratio: f64,
    max_res_ratio: f64,
    max_left_ratio: f64,
    nonfinite_inverse: u64,
}

/// a: the f64 matrix. exact_det: exact determinant (as f64, correctly rounded up to 1 ulp); singular: exact
fn check_f64(a: &Vec<Vec<f64>>, exact_det: f64, singular: bool, st: &mut Stats, tag: &str) {
    let n = a.len();
    let m = f_matrix(a);
    let d = m.determinant();
    assert!(bits_eq_f(&m, a), "[{}] determinant modified the matrix {:?}", tag, a);
    let colsum: Vec<f64> = (0..n).map(|j| (0..n).map(|i| a[i][j].abs()).sum()).collect();
    let colmax: Vec<f64> = (0..n).map(|j| (0..n).map(|i| a[i][j].abs()).fold(0.0, f64::max)).collect();
    let scale: f64 = colsum.iter().product();
    assert!(d.is_finite(), "[{}] determinant not finite ({}) for {:?}", tag, d, a);
    let err = (d - exact_det).abs();
    if scale > 0.0 {
        st.max_det_ratio = st.max_det_ratio.max(err / scale);
    }
    assert!(
        err <= DET_TOL * scale + exact_det.abs() * 1e-14,
        "[{}] determinant {:e} vs exact {:e} (err {:e}, scale {:e}) for {:?}",
        tag, d, exact_det, err, scale, a
    );
    if singular && scale == 0.0 {
        assert!(d == 0.0, "[{}] determinant of a matrix with a zero column is {}", tag, d);
    }
    if !singular {
        // sign must be right whenever the determinant is well above the rounding level
        if exact_det.abs() > 1e3 * DET_TOL * scale {
            assert!(d.signum() == exact_det.signum(), "[{}] wrong sign {:e} vs {:e} for {:?}", tag, d, exact_det, a);
        }
        let x = m.inverse();
        assert!(bits_eq_f(&m, a), "[{}] inverse modified the matrix {:?}", tag, a);
        assert!(x.rows() == n && x.cols() == n, "[{}] wrong inverse shape", tag);
        let mut finite = true;
        for i in 0..n {
            for j in 0..n {
                if !x[(i, j)].is_finite() {
                    finite = false;
                }
            }
        }
        if !finite {
            // only acceptable if the matrix is numerically singular: |det| at the rounding level
            st.nonfinite_inverse += 1;
            assert!(
                exact_det.abs() <= 1e4 * DET_TOL * scale,
                "[{}] non finite inverse of a well conditioned matrix {:?}",
                tag, a
            );
            return;
        }
        // right residual bound per entry: RES_TOL * sum_k colmax_k |x_kj|
        let mut rb = vec![vec![0.0f64; n]; n];
        for j in 0..n {
            let b: f64 = (0..n).map(|k| colmax[k] * x[(k, j)].abs()).sum();
            for i in 0..n {
                rb[i][j] = RES_TOL * b + 1e-15;
            }
        }
        for i in 0..n {
            for j in 0..n {
                let mut r = 0.0;
                for k in 0..n {
                    r += a[i][k] * x[(k, j)];
                }
                let e = if i == j { 1.0 } else { 0.0 };
                let ratio = (r - e).abs() / rb[i][j];
                st.max_res_ratio = st.max_res_ratio.max(ratio);
                assert!(
                    ratio <= 1.0,
                    "[{}] (A*inv)[{},{}] = {:e}, bound {:e} for {:?}",
                    tag, i, j, r, rb[i][j], a
                );
            }
        }
        // left residual: |X A - I| <= |X| R |A| (+ product rounding)
        for i in 0..n {
            for j in 0..n {
                let mut l = 0.0;
                let mut bound = 0.0;
                for k in 0..n {
                    l += x[(i, k)] * a[k][j];
                    bound += 1e-14 * (x[(i, k)] * a[k][j]).abs();
                    for t in 0..n {
                        bound += x[(i, k)].abs() * rb[k][t] * a[t][j].abs();
                    }
                }
                bound += 1e-15;
                let e = if i == j { 1.0 } else { 0.0 };
                let ratio = (l - e).abs() / bound;
                st.max_left_ratio = st.max_left_ratio.max(ratio);
                assert!(
                    ratio <= 1.0,
                    "[{}] (inv*A)[{},{}] = {:e}, bound {:e} for {:?}",
                    tag, i, j, l, bound, a
                );
            }
        }
    }
}

fn pow2(e: i32) -> f64 {
    2.0f64.powi(e)
}

#[test]
fn f64_classes() {
    let mut rng = Rng::new(424242);
    let mut st = Stats { max_det_ratio: 0.0, max_res_ratio: 0.0, max_left_ratio: 0.0, nonfinite_inverse: 0 };
    let mut cnt = 0u64;
    let mut exact_identity_checks = 0u64;
    for it in 0..300_000u64 {
        let n = 1 + (it % 8) as usize;
        let class = (it / 8) as usize % NCLASS;
        let ai = gen_int(&mut rng, n, class);
        let dint = det_int(&to128(&ai));
        let mode = (it / (8 * NCLASS as u64)) % 4;
        let mut a: Vec<Vec<f64>> = ai.iter().map(|r| r.iter().map(|&v| v as f64).collect()).collect();
        let mut exact = dint as f64;
        match mode {
            0 => {}
            1 => {
                // exact power-of-two row and column scaling: mixed magnitudes
                let span = [1, 4, 20, 40][rng.below(4) as usize];
                let mut s = 0i32;
                let re: Vec<i32> = (0..n).map(|_| rng.range(-span, span) as i32).collect();
                let ce: Vec<i32> = (0..n).map(|_| rng.range(-span, span) as i32).collect();
                for i in 0..n {
                    s += re[i] + ce[i];
                    for j in 0..n {
                        a[i][j] *= pow2(re[i] + ce[j]);
                    }
                }
                exact *= pow2(s);
            }
            2 => {
                // inexact entries k/d
                let d = [3.0, 7.0, 10.0, 1000.0][rng.below(4) as usize];
                for i in 0..n {
                    for j in 0..n {
                        a[i][j] /= d;
                    }
                }
                exact /= d.powi(n as i32);
            }
            _ => {
                // global scaling by a power of two, including very small / large but far from over/underflow
                let e = rng.range(-30, 30) as i32;
                for i in 0..n {
                    for j in 0..n {
                        a[i][j] *= pow2(e);
                    }
                }
                exact *= pow2(e * n as i32);
            }
        }
        check_f64(&a, exact, dint == 0, &mut st, &format!("class {} n {} mode {}", class, n, mode));
        cnt += 1;
        // pure permutations and permutations weighted by powers of two: the float result must be exact
        if mode == 0 && (5..=6).contains(&class) {
            let d = f_matrix(&a).determinant();
            assert!(d == dint as f64, "exactly representable case: {} vs {} for {:?}", d, dint, a);
            exact_identity_checks += 1;
        }
    }
    count(cnt);
    println!(
        "f64_classes: {} cases; max det err/scale {:e}; max right residual / bound {:e}; max left residual / bound {:e}; non finite inverses {}; exact {}",
        cnt, st.max_det_ratio, st.max_res_ratio, st.max_left_ratio, st.nonfinite_inverse, exact_identity_checks
    );
}

#[test]
fn f64_exhaustive_small() {
    let mut st = Stats { max_det_ratio: 0.0, max_res_ratio: 0.0, max_left_ratio: 0.0, nonfinite_inverse: 0 };
    let mut cnt = 0u64;
    for code in 0..3u32.pow(9) {
        let mut c = code;
        let mut a = vec![vec![0i64; 3]; 3];
        for i in 0..3 {
            for j in 0..3 {
                a[i][j] = (c % 3) as i64 - 1;
                c /= 3;
            }
        }
        let d = det_int(&to128(&a));
        let af: Vec<Vec<f64>> = a.iter().map(|r| r.iter().map(|&v| v as f64).collect()).collect();
        check_f64(&af, d as f64, d == 0, &mut st, "3x3");
        // small integers: everything is exact or nearly so; a singular matrix must give |det| tiny
        let got = f_matrix(&af).determinant();
        assert!((got - d as f64).abs() < 1e-13, "3x3 {:?}: {} vs {}", a, got, d);
        cnt += 1;
    }
    for code in 0..(1u32 << 16) {
        let mut a = vec![vec![0i64; 4]; 4];
        for i in 0..4 {
            for j in 0..4 {
                a[i][j] = ((code >> (4 * i + j)) & 1) as i64;
            }
        }
        let d = det_int(&to128(&a));
        let af: Vec<Vec<f64>> = a.iter().map(|r| r.iter().map(|&v| v as f64).collect()).collect();
        check_f64(&af, d as f64, d == 0, &mut st, "4x4");
        let got = f_matrix(&af).determinant();
        assert!((got - d as f64).abs() < 1e-13, "4x4 {:?}: {} vs {}", a, got, d);
        cnt += 1;
    }
    for code in 0..7u32.pow(4) {
        let mut c = code;
        let mut a = vec![vec![0i64; 2]; 2];
        for i in 0..2 {
            for j in 0..2 {
                a[i][j] = (c % 7) as i64 - 3;
                c /= 7;
            }
        }
        let d = det_int(&to128(&a));
        let af: Vec<Vec<f64>> = a.iter().map(|r| r.iter().map(|&v| v as f64).collect()).collect();
        check_f64(&af, d as f64, d == 0, &mut st, "2x2");
        cnt += 1;
    }
    count(cnt);
    println!("f64_exhaustive_small: {} cases; ratios {:e} {:e} {:e}", cnt, st.max_det_ratio, st.max_res_ratio, st.max_left_ratio);
}

#[test]
fn f64_general_reals_vs_rational_oracle() {
    // general (non-integer) doubles with few mantissa bits so that the exact rational oracle still fits:
    // entries k / 2^m, |k| < 2^12, plus special values +-1, powers of two, +-0.0
    let mut rng = Rng::new(99);
    let mut st = Stats { max_det_ratio: 0.0, max_res_ratio: 0.0, max_left_ratio: 0.0, nonfinite_inverse: 0 };
    let mut cnt = 0u64;
    for it in 0..60_000u64 {
        let n = 1 + (it % 8) as usize;
        let mut ai = vec![vec![0i64; n]; n];
        let mut sh = vec![vec![0i32; n]; n];
        let mut a = vec![vec![0.0f64; n]; n];
        // common shift per entry must be folded into an integer matrix: use one global denominator 2^12
        for i in 0..n {
            for j in 0..n {
                let k = match rng.below(8) {
                    0 => 0,
                    1 => 4096,
                    2 => -4096,
                    3 => 1 << rng.below(13),
                    _ => rng.range(-4095, 4095),
                };
                ai[i][j] = k;
                sh[i][j] = 12;
                a[i][j] = k as f64 / 4096.0;
                if k == 0 && rng.chance(1, 2) {
                    a[i][j] = -0.0;
                }
            }
        }
        let d = det_int(&to128(&ai));
        let exact = d as f64 * pow2(-12 * n as i32);
        check_f64(&a, exact, d == 0, &mut st, "dyadic");
        cnt += 1;
    }
    count(cnt);
    println!("f64_general_reals: {} cases; ratios {:e} {:e} {:e}", cnt, st.max_det_ratio, st.max_res_ratio, st.max_left_ratio);
}

#[test]
fn f64_identities_on_uniform_reals() {
    // full-mantissa random reals: no exact oracle, so use identities with generous tolerances:
    // det(A^T) = det(A), det(row swap) = -det(A), det(c * row) = c det(A), det(A) det(inv A) = 1
    let mut rng = Rng::new(31337);
    let mut cnt = 0u64;
    for it in 0..40_000u64 {
        let n = 1 + (it % 8) as usize;
        let mut a = vec![vec![0.0f64; n]; n];
        for i in 0..n {
            for j in 0..n {
                a[i][j] = (rng.next() >> 11) as f64 / (1u64 << 53) as f64 * 2.0 - 1.0;
            }
            a[i][i] += if it % 2 == 0 { 2.0 } else { 0.0 };
        }
        let m = f_matrix(&a);
        let d = m.determinant();
        let colsum: f64 = (0..n).map(|j| (0..n).map(|i| a[i][j].abs()).sum::<f64>()).product();
        let rowsum: f64 = (0..n).map(|i| (0..n).map(|j| a[i][j].abs()).sum::<f64>()).product();
        let tol = 1e-10 * colsum.max(rowsum);
        let dt = m.transpose().determinant();
        assert!((d - dt).abs() <= tol, "transpose: {:e} vs {:e} for {:?}", d, dt, a);
        if n >= 2 {
            let i1 = rng.below(n as u64) as usize;
            let i2 = (i1 + 1 + rng.below(n as u64 - 1) as usize) % n;
            let mut b = a.clone();
            b.swap(i1, i2);
            let ds = f_matrix(&b).determinant();
            assert!((d + ds).abs() <= tol, "row swap: {:e} vs {:e} for {:?}", d, ds, a);
            let mut c = a.clone();
            for j in 0..n {
                c[i1][j] *= -4.0;
            }
            let dc = f_matrix(&c).determinant();
            assert!((dc + 4.0 * d).abs() <= 4.0 * tol, "row scale: {:e} vs {:e}", dc, d);
        }
        if it % 2 == 0 {
            // diagonally dominant-ish: well conditioned
            let x = m.inverse();
            assert!(bits_eq_f(&m, &a));
            let di = x.determinant();
            assert!((d * di - 1.0).abs() < 1e-8, "det*det(inv) = {:e}", d * di);
            for i in 0..n {
                for j in 0..n {
                    let mut r = 0.0;
                    let mut l = 0.0;
                    for k in 0..n {
                        r += a[i][k] * x[(k, j)];
                        l += x[(i, k)] * a[k][j];
                    }
                    let e = if i == j { 1.0 } else { 0.0 };
                    assert!((r - e).abs() < 1e-9 && (l - e).abs() < 1e-9, "residual {:e} {:e} for {:?}", r - e, l - e, a);
                }
            }
        }
        cnt += 1;
    }
    count(cnt);
}

// ---------------------------------------------------------------- Complex<f64> checks
type C = Complex<f64>;
fn c_matrix(a: &Vec<Vec<C>>) -> Matrix<C> {
    let n = a.len();
    let mut m = Matrix::<C>::new(n, n, C::new(0.0, 0.0));
    for i in 0..n {
        for j in 0..n {
            m[(i, j)] = a[i][j];
        }
    }
    m
}
fn bits_eq_c(m: &Matrix<C>, a: &Vec<Vec<C>>) -> bool {
    let n = a.len();
    if m.rows() != n || m.cols() != n {
        return false;
    }
    for i in 0..n {
        for j in 0..n {
            if m[(i, j)].real.to_bits() != a[i][j].real.to_bits() || m[(i, j)].imag.to_bits() != a[i][j].imag.to_bits() {
                return false;
            }
        }
    }
    true
}
fn cabs(z: C) -> f64 {
    z.real.hypot(z.imag)
}
fn cmul(a: C, b: C) -> C {
    C::new(a.real * b.real - a.imag * b.imag, a.real * b.imag + a.imag * b.real)
}

fn check_cplx(a: &Vec<Vec<C>>, exact: C, singular: bool, st: &mut Stats, tag: &str) {
    let n = a.len();
    let m = c_matrix(a);
    let d = m.determinant();
    assert!(bits_eq_c(&m, a), "[{}] determinant modified the matrix", tag);
    let colsum: Vec<f64> = (0..n).map(|j| (0..n).map(|i| cabs(a[i][j])).sum()).collect();
    let colmax: Vec<f64> = (0..n).map(|j| (0..n).map(|i| cabs(a[i][j])).fold(0.0, f64::max)).collect();
    let scale: f64 = colsum.iter().product();
    assert!(d.real.is_finite() && d.imag.is_finite(), "[{}] determinant not finite {:?} for {:?}", tag, d, a);
    let err = cabs(C::new(d.real - exact.real, d.imag - exact.imag));
    if scale > 0.0 {
        st.max_det_ratio = st.max_det_ratio.max(err / scale);
    }
    assert!(
        err <= DET_TOL * scale + cabs(exact) * 1e-14,
        "[{}] determinant {:?} vs exact {:?} (err {:e}, scale {:e}) for {:?}",
        tag, d, exact, err, scale, a
    );
    if singular && scale == 0.0 {
        assert!(d.real == 0.0 && d.imag == 0.0);
    }
    if !singular {
        let x = m.inverse();
        assert!(bits_eq_c(&m, a), "[{}] inverse modified the matrix", tag);
        assert!(x.rows() == n && x.cols() == n);
        let mut finite = true;
        for i in 0..n {
            for j in 0..n {
                if !(x[(i, j)].real.is_finite() && x[(i, j)].imag.is_finite()) {
                    finite = false;
                }
            }
        }
        if !finite {
            st.nonfinite_inverse += 1;
            assert!(cabs(exact) <= 1e4 * DET_TOL * scale, "[{}] non finite inverse of a well conditioned matrix {:?}", tag, a);
            return;
        }
        let mut rb = vec![vec![0.0f64; n]; n];
        for j in 0..n {
            let b: f64 = (0..n).map(|k| colmax[k] * cabs(x[(k, j)])).sum();
            for i in 0..n {
                rb[i][j] = RES_TOL * b + 1e-15;
            }
        }
        for i in 0..n {
            for j in 0..n {
                let mut r = C::new(0.0, 0.0);
                let mut l = C::new(0.0, 0.0);
                let mut lb = 1e-15;
                for k in 0..n {
                    let p = cmul(a[i][k], x[(k, j)]);
                    r = C::new(r.real + p.real, r.imag + p.imag);
                    let q = cmul(x[(i, k)], a[k][j]);
                    l = C::new(l.real + q.real, l.imag + q.imag);
                    lb += 1e-14 * cabs(q);
                    for t in 0..n {
                        lb += cabs(x[(i, k)]) * rb[k][t] * cabs(a[t][j]);
                    }
                }
                let e = if i == j { 1.0 } else { 0.0 };
                let rr = cabs(C::new(r.real - e, r.imag)) / rb[i][j];
                let lr = cabs(C::new(l.real - e, l.imag)) / lb;
                st.max_res_ratio = st.max_res_ratio.max(rr);
                st.max_left_ratio = st.max_left_ratio.max(lr);
                assert!(rr <= 1.0, "[{}] (A*inv)[{},{}] = {:?}, bound {:e} for {:?}", tag, i, j, r, rb[i][j], a);
                assert!(lr <= 1.0, "[{}] (inv*A)[{},{}] = {:?}, bound {:e} for {:?}", tag, i, j, l, lb, a);
            }
        }
    }
}

#[test]
fn complex_classes() {
    let mut rng = Rng::new(777);
    let mut st = Stats { max_det_ratio: 0.0, max_res_ratio: 0.0, max_left_ratio: 0.0, nonfinite_inverse: 0 };
    let mut cnt = 0u64;
    for it in 0..250_000u64 {
        let n = 1 + (it % 8) as usize;
        let class = (it / 8) as usize % NCLASS;
        let kind = (it / (8 * NCLASS as u64)) % 6;
        let re = gen_int(&mut rng, n, class);
        // Gaussian integer matrix
        let mut g: Vec<Vec<G>> = vec![vec![(0, 0); n]; n];
        match kind {
            0 => {
                // purely real
                for i in 0..n {
                    for j in 0..n {
                        g[i][j] = (re[i][j] as i128, 0);
                    }
                }
            }
            1 => {
                // purely imaginary
                for i in 0..n {
                    for j in 0..n {
                        g[i][j] = (0, re[i][j] as i128);
                    }
                }
            }
            2 => {
                // same pattern, each entry times a random unit 1, i, -1, -i (all moduli preserved: ties in |.|)
                for i in 0..n {
                    for j in 0..n {
                        let v = re[i][j] as i128;
                        g[i][j] = match rng.below(4) {
                            0 => (v, 0),
                            1 => (0, v),
                            2 => (-v, 0),
                            _ => (0, -v),
                        };
                    }
                }
            }
            3 => {
                // independent imaginary part of the same structural class
                let im = gen_int(&mut rng, n, class);
                for i in 0..n {
                    for j in 0..n {
                        g[i][j] = (re[i][j] as i128, im[i][j] as i128);
                    }
                }
            }
            4 => {
                // structure * (p + q i) per row: keeps singularity / rank structure
                for i in 0..n {
                    let (p, q) = (rng.range(-3, 3) as i128, rng.range(1, 3) as i128);
                    for j in 0..n {
                        let v = re[i][j] as i128;
                        g[i][j] = (v * p, v * q);
                    }
                }
            }
            _ => {
                // Pythagorean ties: entries among 5, 3+4i, 4+3i, -5i, ... times the pattern's sign
                let tri: [G; 6] = [(5, 0), (3, 4), (4, 3), (0, -5), (-3, 4), (-4, -3)];
                for i in 0..n {
                    for j in 0..n {
                        let s = re[i][j].signum() as i128;
                        let t = tri[rng.below(6) as usize];
                        g[i][j] = (s * t.0, s * t.1);
                    }
                }
            }
        }
        let dg = det_gauss(&g);
        let singular = dg == (0, 0);
        let mut a: Vec<Vec<C>> = g.iter().map(|r| r.iter().map(|z| C::new(z.0 as f64, z.1 as f64)).collect()).collect();
        let mut exact = C::new(dg.0 as f64, dg.1 as f64);
        if it % 3 == 1 {
            let span = [1, 4, 20, 40][rng.below(4) as usize];
            let mut s = 0i32;
            let rexp: Vec<i32> = (0..n).map(|_| rng.range(-span, span) as i32).collect();
            let cexp: Vec<i32> = (0..n).map(|_| rng.range(-span, span) as i32).collect();
            for i in 0..n {
                s += rexp[i] + cexp[i];
                for j in 0..n {
                    let f = pow2(rexp[i] + cexp[j]);
                    a[i][j] = C::new(a[i][j].real * f, a[i][j].imag * f);
                }
            }
            exact = C::new(exact.real * pow2(s), exact.imag * pow2(s));
        } else if it % 3 == 2 {
            let d = [3.0, 7.0, 10.0][rng.below(3) as usize];
            for i in 0..n {
                for j in 0..n {
                    a[i][j] = C::new(a[i][j].real / d, a[i][j].imag / d);
                }
            }
            let f = d.powi(n as i32);
            exact = C::new(exact.real / f, exact.imag / f);
        }
        check_cplx(&a, exact, singular, &mut st, &format!("class {} n {} kind {}", class, n, kind));
        cnt += 1;
    }
    count(cnt);
    println!(
        "complex_classes: {} cases; max det err/scale {:e}; right {:e}; left {:e}; non finite inverses {}",
        cnt, st.max_det_ratio, st.max_res_ratio, st.max_left_ratio, st.nonfinite_inverse
    );
}

#[test]
fn complex_exhaustive_small() {
    // all 2x2 with entries in {0, 1, -1, i, -i}, all 3x3 with entries in {0, 1, i}
    let units: [G; 5] = [(0, 0), (1, 0), (-1, 0), (0, 1), (0, -1)];
    let mut st = Stats { max_det_ratio: 0.0, max_res_ratio: 0.0, max_left_ratio: 0.0, nonfinite_inverse: 0 };
    let mut cnt = 0u64;
    for code in 0..5u32.pow(4) {
        let mut c = code;
        let mut g = vec![vec![(0i128, 0i128); 2]; 2];
        for i in 0..2 {
            for j in 0..2 {
                g[i][j] = units[(c % 5) as usize];
                c /= 5;
            }
        }
        let dg = det_gauss(&g);
        let a: Vec<Vec<C>> = g.iter().map(|r| r.iter().map(|z| C::new(z.0 as f64, z.1 as f64)).collect()).collect();
        check_cplx(&a, C::new(dg.0 as f64, dg.1 as f64), dg == (0, 0), &mut st, "c2x2");
        let d = c_matrix(&a).determinant();
        assert!(d.real == dg.0 as f64 && d.imag == dg.1 as f64, "c2x2 exact {:?} vs {:?} for {:?}", d, dg, a);
        cnt += 1;
    }
    for code in 0..3u32.pow(9) {
        let mut c = code;
        let mut g = vec![vec![(0i128, 0i128); 3]; 3];
        for i in 0..3 {
            for j in 0..3 {
                g[i][j] = [(0, 0), (1, 0), (0, 1)][(c % 3) as usize];
                c /= 3;
            }
        }
        let dg = det_gauss(&g);
        let a: Vec<Vec<C>> = g.iter().map(|r| r.iter().map(|z| C::new(z.0 as f64, z.1 as f64)).collect()).collect();
        check_cplx(&a, C::new(dg.0 as f64, dg.1 as f64), dg == (0, 0), &mut st, "c3x3");
        let d = c_matrix(&a).determinant();
        assert!(
            (d.real - dg.0 as f64).abs() < 1e-13 && (d.imag - dg.1 as f64).abs() < 1e-13,
            "c3x3 {:?} vs {:?} for {:?}",
            d, dg, a
        );
        cnt += 1;
    }
    count(cnt);
    println!("complex_exhaustive_small: {} cases; ratios {:e} {:e} {:e}", cnt, st.max_det_ratio, st.max_res_ratio, st.max_left_ratio);
}

// ---------------------------------------------------------------- repeated calls on ONE object
#[test]
fn repeated_calls_do_not_depend_on_history() {
    let mut rng = Rng::new(1234);
    let mut cnt = 0u64;
    for it in 0..20_000u64 {
        let n = 1 + (it % 8) as usize;
        let class = rng.below(NCLASS as u64) as usize;
        let ai = gen_int(&mut rng, n, class);
        let a: Vec<Vec<f64>> = ai.iter().map(|r| r.iter().map(|&v| v as f64 / 3.0).collect()).collect();
        let m = f_matrix(&a);
        let d1 = m.determinant();
        let nonsing = det_int(&to128(&ai)) != 0;
        let x1 = if nonsing { Some(m.inverse()) } else { None };
        let d2 = m.determinant();
        assert!(d1.to_bits() == d2.to_bits());
        if let Some(x1) = x1 {
            let x2 = m.inverse();
            for i in 0..n {
                for j in 0..n {
                    let (p, q) = (x1[(i, j)], x2[(i, j)]);
                    assert!(p.to_bits() == q.to_bits() || (p.is_nan() && q.is_nan()));
                }
            }
        }
        assert!(bits_eq_f(&m, &a));
        cnt += 1;
    }
    count(cnt);
}

#[test]
fn zz_total() {
    // printed with --nocapture when run last (single threaded); informative only
    println!("cases so far: {}", CASES.load(AO::Relaxed));
}
