#!/bin/bash
# Build the framework from files on disk only (offline).
set -e
cd "$(dirname "$0")"
export CARGO_NET_OFFLINE=true
python3 verif.py setup
