#!/usr/bin/env python3
"""Mutation regression for the checker itself (not a registered check):
for every kept change /verif/seeded/<id>/patch.diff: apply it to /repo, run the quick check of its
property (meta.json "property", or the "also" list), record what the check reported in
meta.json ("detected", "detected_leg", "detected_line"), restore /repo.
Prints one table row per change; exits 1 if some change goes unnoticed or /repo is left dirty.

usage: tools_seed_all.py [name-prefix …]
"""
import json, os, re, subprocess, sys
ROOT = os.path.dirname(os.path.abspath(__file__))
SEEDS = os.path.join(ROOT, "seeded")
REPO = "/repo"


def sh(cmd, **kw):
    return subprocess.run(cmd, shell=isinstance(cmd, str), stdout=subprocess.PIPE, stderr=subprocess.STDOUT, text=True, **kw)


def main():
    pref = sys.argv[1:]
    names = sorted(d for d in os.listdir(SEEDS) if os.path.isfile(os.path.join(SEEDS, d, "patch.diff")))
    if pref:
        names = [n for n in names if any(n.startswith(p) for p in pref)]
    if sh(["git", "-C", REPO, "status", "--porcelain"]).stdout.strip():
        print("refusing to run: /repo has uncommitted changes"); return 2
    missed = 0
    rows = []
    for n in names:
        d = os.path.join(SEEDS, n)
        meta = json.load(open(os.path.join(d, "meta.json")))
        props = [meta["property"]] + list(meta.get("also", []))
        obsolete = bool(meta.get("obsolete"))
        a = sh(["git", "-C", REPO, "apply", os.path.join(d, "patch.diff")])
        if a.returncode != 0:
            rows.append((n, props[0], "PATCH DOES NOT APPLY", "")); missed += 1; continue
        try:
            res = []
            for p in props:
                env = dict(os.environ); env.update(meta.get("env", {}))
                r = sh([sys.executable, os.path.join(ROOT, "verif.py"), "check", p, "--tier", "quick"], env=env)
                lines = r.stdout.splitlines()
                viol = [l for l in lines if l.startswith("VIOLATION")]
                summ = [l for l in lines if l.startswith(p + " [")]
                if viol:
                    v = viol[0]
                    leg = "oracle" if "-oracle" in v else ("proof" if "-proof" in v else ("non-termination" if "-nontermination" in v else "correspondence"))
                    if "-oracle-search" in v: leg = "oracle (extended search)"
                    kind = "no-failing-input-found" if v.rstrip().endswith("no-failing-input-found") else "failing input"
                    res.append((p, True, leg, kind, (summ[0] if summ else "")[:300]))
                else:
                    res.append((p, False, "-", "-", (summ[0] if summ else (lines[-1] if lines else ""))[:300]))
        finally:
            sh(["git", "-C", REPO, "checkout", "--", "."])
        best = [x for x in res if x[1] and x[3] == "failing input"] or [x for x in res if x[1]] or res
        b = best[0]
        meta["detected"] = ("VIOLATION with a failing input" if b[1] and b[3] == "failing input" else
                            "VIOLATION no-failing-input-found" if b[1] else "NOT DETECTED")
        meta["detected_by"] = f"{b[0]} quick check, {b[2]} leg" if b[1] else None
        meta["detected_line"] = b[4]
        json.dump(meta, open(os.path.join(d, "meta.json"), "w"), indent=1)
        if obsolete:
            meta["detected"] = ("OBSOLETE (harmless on the current tree), reported: " + meta["detected"]) if b[1] else "OBSOLETE (harmless on the current tree): rightly not reported"
            json.dump(meta, open(os.path.join(d, "meta.json"), "w"), indent=1)
            if b[1]: missed += 1      # an alarm on a harmless change would be a false alarm
        elif not b[1]: missed += 1
        rows.append((n, b[0], meta["detected"], b[2]))
        print(f"{n:60s} {b[0]} {meta['detected']:34s} {b[2]}", flush=True)
    dirty = sh(["git", "-C", REPO, "status", "--porcelain"]).stdout.strip()
    print(f"\n{len(rows)} changes, {missed} not detected; /repo {'DIRTY' if dirty else 'clean'}")
    with open(os.path.join(SEEDS, "RESULTS.md"), "w") as f:
        f.write("Detection of every kept change by the quick checks (written by tools_seed_all.py from the meta.json files).\n\n")
        f.write("| change | property | result | by |\n|---|---|---|---|\n")
        for n in sorted(os.listdir(SEEDS)):
            mp = os.path.join(SEEDS, n, "meta.json")
            if os.path.isfile(mp):
                m = json.load(open(mp))
                f.write(f"| {n} | {m.get('property')} | {m.get('detected', 'not run')} | {m.get('detected_by') or '-'} |\n")
    return 1 if (missed or dirty) else 0


if __name__ == "__main__":
    sys.exit(main())
