#!/usr/bin/env python3
"""Classification of the suite-passing mutants that no quick check reports (mutation/results.jsonl ->
mutation/SURVIVORS.md).  The rules encode the reading of each surviving mutant; anything not covered lands in
'Z. unclassified' and must be looked at."""
import json, os
ROOT = os.path.dirname(os.path.abspath(__file__))
recs = [json.loads(l) for l in open(os.path.join(ROOT, "mutation", "results.jsonl"))]
surv = [r for r in recs if r.get("status") == "SURVIVED" and r.get("suite_pass")]

DISPLAY = [("banded.rs", 236, 252), ("polynomial/mod.rs", 138, 182), ("matrix/mod.rs", 68, 118), ("tridiagonal.rs", 216, 242), ("vector/mod.rs", 70, 102)]
NOTES = {
 ('src/matrix/solve.rs', 'fwd0'): 'equivalent: the i = 0 pass of the forward substitution has an empty inner loop',
 ('src/banded.rs', 112): 'equivalent: the pivot search additionally compares the current row with itself',
 ('src/banded.rs', 85): 'observationally equivalent: an out-of-range band is still rejected (same panic class) by the band test of the index operator on the first write',
 ('src/banded.rs', 182): 'equivalent: swap(k, j) = swap(j, k)',
 ('src/vector/operations.rs', 31): 'equivalent: swap(i, j) = swap(j, i)',
 ('src/tridiagonal.rs', 130): 'equivalent: f[0] = 1, so main[0] / f[0] = main[0] * f[0] bit for bit',
 ('src/tridiagonal.rs', 175): 'equivalent: the padded entry c_temp[n-1] is never read',
 ('src/mesh1d.rs', 115): 'equivalent: i = 0 is a node token, the variable loop ignores it',
 ('src/sparse.rs', 69): 'equivalent: the vector is replaced by col_start_from_index before it is read',
 ('src/sparse.rs', 79): 'guard against a malformed col_start (only reachable through from_vecs with inconsistent arrays: outside the claim)',
 ('src/sparse.rs', 96): 'guard against a malformed col_start (outside the claim)',
 ('src/sparse.rs', 275): 'guard against a malformed col_start (outside the claim)',
 ('src/sparse.rs', 342): 'equivalent: with the identity preconditioner z = r, both error measures coincide',
 ('src/sparse.rs', 408): 'NOT REACHED by the generators: error value returned by BiCGSTAB on an exact breakdown rho = 0 after the first iteration (needs an exactly orthogonal residual); a gap of the correspondence, recorded',
 ('src/sparse.rs', 566): 'equivalent: in the first QMR iteration the extra terms multiply zero vectors',
 ('src/sparse.rs', 602): 'equivalent: in the first QMR iteration the extra terms multiply zero vectors',
 ('src/polynomial/mod.rs', 219): 'equivalent: sgn = ±1, so x * sgn = x / sgn bit for bit',
 ('src/polynomial/mod.rs', 244): 'differs only on the exact tie Re(conj(d1)·sqrt) = 0, where both signs are valid: values may be permuted, all are roots',
 ('src/polynomial/mod.rs', 291): 'snapping threshold of the imaginary part (2 eps → 3 eps, ≤ → <): changes results only within 3 eps',
 ('src/polynomial/mod.rs', 319): 'equivalent: the iteration count written through the out-parameter is never used',
 ('src/polynomial/mod.rs', 345): 'NOT REACHED by the generators: Laguerre fallback step when both denominators vanish; recorded',
 ('src/polynomial/mod.rs', 351): 'differs only when exactly one component of the step is non-finite; recorded',
 ('src/polynomial/arithmetic.rs', 185): 'equivalent: the iteration cap is unreachable (proved: polydiv_terminates), so the counter is irrelevant',
 ('src/polynomial/arithmetic.rs', 186): 'unreachable iteration cap (proved: polydiv_terminates)',
 ('src/matrix/operations.rs', 181): 'equivalent on a tie (cols = rows)',
}

def cat(r):
    f, l, op, old = r['file'], r['line'], r['op'], r['old']
    for fn, a, b in DISPLAY:
        if f.endswith(fn) and a <= l <= b: return 'A. text of Display / Debug impls and error messages (no property speaks about them)', None
    if 'Err("' in old: return 'A. text of Display / Debug impls and error messages (no property speaks about them)', None
    if op == 'zero->one' and ('new(' in old or 'vec![' in old or 'push' in old or 'let mut d' in old):
        return 'B. equivalent: initial value of storage that is overwritten before it is read', None
    if op in ('le->lt', 'lt->le', 'gt->ge', 'ge->gt') and ('tol' in old or 'MAX' in old):
        return 'C. differs only on an exact tie with the tolerance (|dx| = tol, resid = tol: measure zero, and tol = 0 is outside the stated tolerance ranges) or at an unreachable iteration cap', None
    if op in ('lt->le', 'le->lt', 'gt->ge') and ('result <' in old or 'degree <' in old or 'cols <' in old or 'nodes[' in old):
        return 'D. equivalent: comparison inside a maximum / minimum, or a tie that another branch of the same test covers', None
    if op == 'drop-abs' and 'powf' in old:
        return 'E. equivalent: powf(|x|, 2.0) = powf(x, 2.0) bit for bit', None
    if op in ('rows->cols', 'cols->rows'):
        if f.endswith('matrix/solve.rs') or f.endswith('sparse.rs'):
            return 'G. equivalent: rows / cols exchanged in code that runs only on square matrices (the squareness guard, or an equivalent size guard one call deeper with the same panic class, has already passed)', None
        if f.endswith('matrix/operations.rs'):
            return 'G. equivalent: rows / cols exchanged in code that runs only on square matrices (the squareness guard, or an equivalent size guard one call deeper with the same panic class, has already passed)', 'square branch of transpose_in_place / a capacity hint'
    if op in ('float-x2', 'float-half', 'int+1'):
        INIT = [('sparse.rs', 323, 326), ('sparse.rs', 344, 344), ('sparse.rs', 387, 397), ('sparse.rs', 454, 458), ('sparse.rs', 509, 509), ('sparse.rs', 527, 531),
                ('sparse.rs', 549, 549), ('sparse.rs', 24, 24), ('sparse.rs', 69, 69), ('sparse.rs', 82, 82), ('banded.rs', 152, 152), ('banded.rs', 173, 173),
                ('matrix/arithmetic.rs', 120, 120), ('matrix/functions.rs', 72, 72), ('matrix/functions.rs', 94, 94), ('vector/vec_f64.rs', 9, 9), ('vector/vec_f64.rs', 21, 21),
                ('vector/vec_f64.rs', 64, 64), ('mesh1d.rs', 106, 106), ('tridiagonal.rs', 128, 128), ('polynomial/mod.rs', 279, 279)]
        for fn, a, b in INIT:
            if f.endswith(fn) and a <= l <= b:
                return 'H. equivalent: initial value (or spare capacity) of a work vector / solver scalar that is overwritten before its first use', None
        if f.endswith('sparse.rs') and l in (408, 435, 552, 553, 576, 579, 598):
            return 'I. exact-breakdown test of an iterative solver (`x == 0.0` for an inner product or norm): differs only when that quantity is exactly 0 (or exactly the mutated value) — NOT REACHED by the generators, recorded', None
        if f.endswith('mesh1d.rs') and l in (73, 74):
            return 'F. analysed individually', 'width of the node-snapping window of the interpolation: only positions within 2e-7 of a node are affected, outside the claimed positions (>= 1e-6 from every node)'
        if f.endswith('polynomial/mod.rs') and l == 237: return 'F. analysed individually', 'equivalent: in the triple-root branch all three values are equal'
        if f.endswith('polynomial/mod.rs') and l == 316: return 'F. analysed individually', 'table of fractional Laguerre steps: entry 0 is never used, the others only when an iteration cycles (every 10th step)'
        if f.endswith('polynomial/arithmetic.rs') and l in (171, 172, 185): return 'F. analysed individually', NOTES[('src/polynomial/arithmetic.rs', 186)]
        if f.endswith('traits.rs'): return 'F. analysed individually', 'equivalent: abs of an integer compares with 1 instead of 0, which differs only for 0 = -0'
        if f.endswith('sparse.rs') and l == 342: return 'F. analysed individually', NOTES[('src/sparse.rs', 342)]
    if f.endswith('matrix/solve.rs') and op == 'range0->1':
        return 'F. analysed individually', NOTES[('src/matrix/solve.rs', 'fwd0')]
    n = NOTES.get((f, l))
    if n: return 'F. analysed individually', n
    return 'Z. unclassified', None

cats = {}
for r in surv:
    c, n = cat(r)
    cats.setdefault(c, []).append((r, n))
comp = [r for r in recs if r.get('status') != 'no-compile']
sp = [r for r in comp if r.get('suite_pass')]
with open(os.path.join(ROOT, 'mutation', 'SURVIVORS.md'), 'w') as f:
    f.write("# Suite-passing mutants that no quick check notices — classification\n\n")
    f.write(f"{len(recs)} mutants run (38 operators, three batches), {len(comp)} compile, {len(sp)} pass the crate's own 236 tests; of these "
            f"{len(sp) - len(surv)} are reported by a quick check ({sum(1 for r in sp if r.get('detected_with_input'))} with a failing input) "
            f"and {len(surv)} are not. Each of the {len(surv)} is accounted for below (tools_mutation_classify.py).\n\n")
    for c in sorted(cats):
        f.write(f"## {c} — {len(cats[c])}\n\n")
        for r, n in sorted(cats[c], key=lambda x: (x[0]['file'], x[0]['line'])):
            f.write(f"* {r['file']}:{r['line']} {r['op']}: `{r['old'][:110]}`" + (f" — {n}" if n else "") + "\n")
        f.write("\n")
print({k[:2]: len(v) for k, v in cats.items()})
for r, n in cats.get('Z. unclassified', []): print(r['file'], r['line'], r['op'], r['old'][:100])
