#!/usr/bin/env python3
"""Quietness regression for the checker itself (not a registered check): for every kept HARMLESS rewrite
/verif/harmless/<id>/{a,b}.diff (the property still holds with it): apply it to /repo, run the quick check of its
property, restore /repo, and classify the outcome:

  quiet                       exit 0, no VIOLATION line                       (expected for bit-preserving rewrites)
  no-failing-input-found      the model / a proof no longer corresponds, the search found no input on which the
                              property fails                                  (the outcome the brief prescribes for a
                                                                               legitimate, observable change)
  FALSE ALARM                 VIOLATION with a failing input although the property holds: the oracle demands more than
                              the property states -> the machinery has to be corrected

Exits 1 if some rewrite produces a FALSE ALARM or /repo is left dirty.

usage: tools_harmless.py [name-prefix ...]
"""
import json, os, subprocess, sys
ROOT = os.path.dirname(os.path.abspath(__file__))
DIR = os.path.join(ROOT, "harmless")
REPO = "/repo"


def sh(cmd, **kw):
    return subprocess.run(cmd, stdout=subprocess.PIPE, stderr=subprocess.STDOUT, text=True, **kw)


def main():
    pref = sys.argv[1:]
    names = sorted(d for d in os.listdir(DIR) if os.path.isfile(os.path.join(DIR, d, "meta.json")))
    if pref:
        names = [n for n in names if any(n.startswith(p) for p in pref)]
    if sh(["git", "-C", REPO, "status", "--porcelain"]).stdout.strip():
        print("refusing to run: /repo has uncommitted changes"); return 2
    bad = 0
    rows = []
    for n in names:
        d = os.path.join(DIR, n)
        meta = json.load(open(os.path.join(d, "meta.json")))
        props = [meta["property"]] + list(meta.get("also", []))
        for which in ("a", "b"):
            pf = os.path.join(d, which + ".diff")
            if not os.path.isfile(pf):
                continue
            if sh(["git", "-C", REPO, "apply", pf]).returncode != 0:
                rows.append((n, which, props[0], "PATCH DOES NOT APPLY", "")); bad += 1; continue
            try:
                verdicts = []
                for p in props:
                    r = sh([sys.executable, os.path.join(ROOT, "verif.py"), "check", p, "--tier", "quick"])
                    lines = r.stdout.splitlines()
                    viol = [l for l in lines if l.startswith("VIOLATION")]
                    summ = [l for l in lines if l.startswith(p + " [")]
                    if not viol and r.returncode == 0:
                        verdicts.append((p, "quiet", (summ[0] if summ else "")[:240]))
                    elif viol and viol[0].rstrip().endswith("no-failing-input-found"):
                        verdicts.append((p, "no-failing-input-found", (summ[0] if summ else "")[:240]))
                    else:
                        verdicts.append((p, "FALSE ALARM", (viol[0] if viol else (lines[-1] if lines else ""))[:240]))
            finally:
                sh(["git", "-C", REPO, "checkout", "--", "."])
            worst = sorted(verdicts, key=lambda v: {"quiet": 0, "no-failing-input-found": 1, "FALSE ALARM": 2}[v[1]])[-1]
            meta.setdefault("outcome", {})[which] = {"verdict": worst[1], "property": worst[0], "line": worst[2]}
            if worst[1] == "FALSE ALARM":
                bad += 1
            rows.append((n, which, worst[0], worst[1], worst[2]))
        json.dump(meta, open(os.path.join(d, "meta.json"), "w"), indent=1)
    for r in rows:
        print(f"{r[0]:<40} {r[1]} {r[2]} {r[3]:<24} {r[4]}")
    dirty = sh(["git", "-C", REPO, "status", "--porcelain"]).stdout.strip()
    print(f"\n{len(rows)} rewrites, {bad} false alarms; /repo {'DIRTY' if dirty else 'clean'}")
    return 1 if bad or dirty else 0


if __name__ == "__main__":
    sys.exit(main())
