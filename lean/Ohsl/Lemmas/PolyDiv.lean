/-
  Ohsl.Lemmas.PolyDiv — helper lemmas for property C12 (polynomial long division,
  model: Ohsl/Model/Poly.lean `divStep`, `divLoop`, `polydiv`).

  Part S (any scalar type, arbitrary operations): sizes of `add`, `sub`, `mul`, `trim`; closed form
  of one division step; the size of the remainder drops in every step.
  Part E (field): `toPoly`, the interpretation of a coefficient array as a Mathlib polynomial, and
  its compatibility with `add`, `sub`, `mul` (convolution), `setIfInBounds`, `trim`.
-/
import Ohsl.Model.Poly
import Ohsl.Lemmas.MatIdx
import Ohsl.Lemmas.Alg
import Mathlib.Algebra.Polynomial.Basic
import Mathlib.Algebra.Polynomial.Coeff
import Mathlib.Algebra.Polynomial.Degree.Defs
import Mathlib.Algebra.Polynomial.FieldDivision
import Mathlib.Algebra.BigOperators.Ring.Finset
import Mathlib.Tactic.Ring
set_option linter.unusedSectionVars false
set_option linter.unusedVariables false
namespace Ohsl.PolyDiv
open Ohsl Ohsl.Poly

section Structural
variable {K : Type} [Add K] [Sub K] [Mul K] [Neg K] [Zero K] [One K] [BEq K] [ScalarExt K]

/-! ### sizes -/

theorem add_size_pos (p q : Array K) (hq : q.size ≠ 0) : (add p q).size ≠ 0 := by
  unfold add
  by_cases hp : p.size = 0
  · simp [hp, hq]
  · simp only [hp, hq, if_false, Array.size_ofFn]; omega

theorem sub_size (p q : Array K) (hp : p.size ≠ 0) (hq : q.size ≠ 0) :
    (sub p q).size = max p.size q.size := by
  simp [sub, hp, hq]

theorem foldl_size_inv {β : Type} (f : Array K → β → Array K) (hf : ∀ a b, (f a b).size = a.size) :
    ∀ (l : List β) (a : Array K), (l.foldl f a).size = a.size
  | [], a => rfl
  | x :: l, a => by simp [List.foldl_cons, foldl_size_inv f hf l, hf]

theorem mul_size (p q : Array K) (hp : p.size ≠ 0) (hq : q.size ≠ 0) :
    (mul p q).size = p.size + q.size - 1 := by
  unfold mul
  simp only [hp, hq, if_false]
  rw [foldl_size_inv]
  · simp
  · intro a i
    rw [foldl_size_inv]
    intro a j
    simp

/-! ### trim -/

/-- the array computed by `trim` on a non-empty input -/
def trimA (p : Array K) : Array K := (trimList p.toList.reverse).reverse.toArray

theorem trim_ok (p : Array K) (h : p.size ≠ 0) : trim p = .ok (trimA p) := by
  simp [trim, h, trimA]

theorem trimList_length_le : ∀ l : List K, (trimList l).length ≤ l.length
  | [] => by simp [trimList]
  | [c] => by simp [trimList]
  | c :: d :: cs => by
    unfold trimList
    split
    · have := trimList_length_le (d :: cs); simp at this ⊢; omega
    · simp

theorem trimList_length_pos : ∀ l : List K, l ≠ [] → 1 ≤ (trimList l).length
  | [], h => absurd rfl h
  | [c], _ => by simp [trimList]
  | c :: d :: cs, _ => by
    unfold trimList
    split
    · exact trimList_length_pos (d :: cs) (by simp)
    · simp

theorem trimA_size_le (p : Array K) : (trimA p).size ≤ p.size := by
  have := trimList_length_le p.toList.reverse
  simpa [trimA] using this

theorem trimA_size_pos (p : Array K) (h : p.size ≠ 0) : 1 ≤ (trimA p).size := by
  have := trimList_length_pos p.toList.reverse (by
    intro h'; apply h; simpa using congrArg List.length h')
  simpa [trimA] using this

/-- a leading coefficient that tests `== 0` is removed (unless it is the only coefficient) -/
theorem trimA_size_lt (p : Array K) (h2 : 2 ≤ p.size) (hl : (p[p.size - 1]?.getD 0 == (0 : K)) = true) :
    (trimA p).size ≤ p.size - 1 := by
  obtain ⟨l⟩ := p
  simp only [List.size_toArray] at h2
  simp only [trimA, List.size_toArray, List.length_reverse]
  have hrev : ∃ c d cs, l.reverse = c :: d :: cs := by
    match h : l.reverse with
    | [] => have := congrArg List.length h; simp only [List.length_reverse, List.length_nil] at this; omega
    | [c] => have := congrArg List.length h; simp only [List.length_reverse, List.length_cons, List.length_nil] at this; omega
    | c :: d :: cs => exact ⟨c, d, cs, rfl⟩
  obtain ⟨c, d, cs, hcs⟩ := hrev
  have hlen : l.length = cs.length + 2 := by
    have := congrArg List.length hcs; simpa using this
  have hc : l[l.length - 1]? = some c := by
    have : l = (c :: d :: cs).reverse := by rw [← hcs, List.reverse_reverse]
    rw [this]; simp
  simp only [List.size_toArray, List.getElem?_toArray, hc, Option.getD_some] at hl
  rw [hcs]
  unfold trimList
  simp only [hl, if_true]
  have := trimList_length_le (d :: cs)
  simp at this; omega

/-! ### one division step in closed form -/

/-- the monomial `c · x^k` -/
def stepT (k : Nat) (c : K) : Array K := (Array.replicate (k + 1) (0 : K)).setIfInBounds k c

/-- quotient after one step (before trimming) -/
def stepQ0 (v q r : Array K) (c : K) : Array K := add q (stepT (r.size - 1 - (v.size - 1)) c)
/-- remainder after one step, leading coefficient zeroed (before trimming) -/
def stepR0 (v r : Array K) (c : K) : Array K :=
  (sub r (mul (stepT (r.size - 1 - (v.size - 1)) c) v)).setIfInBounds (r.size - 1) 0

@[simp] theorem stepT_size (k : Nat) (c : K) : (stepT k c).size = k + 1 := by simp [stepT]

theorem stepMul_size (v r : Array K) (c : K) (hv : 1 ≤ v.size) (hr : v.size ≤ r.size) :
    (mul (stepT (r.size - 1 - (v.size - 1)) c) v).size = r.size := by
  rw [mul_size _ _ (by simp) (by omega), stepT_size]; omega

theorem stepSub_size (v r : Array K) (c : K) (hv : 1 ≤ v.size) (hr : v.size ≤ r.size) :
    (sub r (mul (stepT (r.size - 1 - (v.size - 1)) c) v)).size = r.size := by
  rw [sub_size _ _ (by omega) (by rw [stepMul_size v r c hv hr]; omega), stepMul_size v r c hv hr]
  simp

theorem stepR0_size (v r : Array K) (c : K) (hv : 1 ≤ v.size) (hr : v.size ≤ r.size) :
    (stepR0 v r c).size = r.size := by
  simp [stepR0, stepSub_size v r c hv hr]

theorem stepQ0_size_pos (v q r : Array K) (c : K) : (stepQ0 v q r c).size ≠ 0 :=
  add_size_pos _ _ (by simp)

/-- `divStep` in closed form: the only fallible operation is the division of the leading
    coefficients -/
theorem divStep_eq (v q r : Array K) (hv : 1 ≤ v.size) (hr : v.size ≤ r.size) :
    divStep v q r =
      (divM (r[r.size - 1]'(by omega)) (v[v.size - 1]'(by omega))).bind
        (fun c => .ok (trimA (stepQ0 v q r c), trimA (stepR0 v r c))) := by
  unfold divStep
  have h1 : usub r.size 1 = .ok (r.size - 1) := by unfold usub; rw [if_pos (by omega)]
  have h2 : usub v.size 1 = .ok (v.size - 1) := by unfold usub; rw [if_pos (by omega)]
  have h3 : usub (r.size - 1) (v.size - 1) = .ok (r.size - 1 - (v.size - 1)) := by
    unfold usub; rw [if_pos (by omega)]
  have h4 : aget r (r.size - 1) = .ok (r[r.size - 1]'(by omega)) := Mat.aget_ok (by omega)
  have h5 : aget v (v.size - 1) = .ok (v[v.size - 1]'(by omega)) := Mat.aget_ok (by omega)
  simp only [h1, h2, h3, h4, h5, bind, Except.bind, pure, Except.pure]
  cases hd : divM (r[r.size - 1]'(by omega)) (v[v.size - 1]'(by omega)) with
  | error e => rfl
  | ok c =>
    have hs := stepSub_size v r c hv hr
    simp only [stepT] at hs
    have h6 : usub (sub r (mul ((Array.replicate (r.size - 1 - (v.size - 1) + 1) (0 : K)).setIfInBounds
        (r.size - 1 - (v.size - 1)) c) v)).size 1 = .ok (r.size - 1) := by
      rw [hs]; exact h1
    simp only [h6]
    rw [Mat.aset_ok _ (by rw [hs]; omega)]
    simp only []
    have h7 := trim_ok (stepR0 v r c) (by rw [stepR0_size v r c hv hr]; omega)
    have h8 := trim_ok (stepQ0 v q r c) (stepQ0_size_pos v q r c)
    simp only [stepR0, stepQ0, stepT] at h7 h8
    simp only [h7, h8, stepR0, stepQ0, stepT]

theorem stepR0_lead (v r : Array K) (c : K) (hv : 1 ≤ v.size) (hr : v.size ≤ r.size) :
    (stepR0 v r c)[(stepR0 v r c).size - 1]?.getD 0 = (0 : K) := by
  rw [stepR0_size v r c hv hr]
  simp [stepR0, stepSub_size v r c hv hr]

/-- the new remainder is strictly shorter (or stays a single coefficient) -/
theorem stepR_size_le (v r : Array K) (c : K) (h00 : ((0 : K) == 0) = true)
    (hv : 1 ≤ v.size) (hr : v.size ≤ r.size) :
    (trimA (stepR0 v r c)).size ≤ max 1 (r.size - 1) := by
  by_cases h2 : 2 ≤ r.size
  · have := trimA_size_lt (stepR0 v r c) (by rw [stepR0_size v r c hv hr]; exact h2)
      (by rw [stepR0_lead v r c hv hr]; exact h00)
    rw [stepR0_size v r c hv hr] at this
    omega
  · have := trimA_size_le (stepR0 v r c)
    rw [stepR0_size v r c hv hr] at this
    omega

/-- a remainder of size one becomes the zero polynomial `[0]` -/
theorem stepR_single (v r : Array K) (c : K) (hv : 1 ≤ v.size) (hr : v.size ≤ r.size)
    (h1 : r.size = 1) : trimA (stepR0 v r c) = #[(0 : K)] := by
  have hs := stepR0_size v r c hv hr
  have hl := stepR0_lead v r c hv hr
  rw [hs] at hl
  generalize stepR0 v r c = a at hs hl
  obtain ⟨l⟩ := a
  simp only [List.size_toArray] at hs
  match l, hs, hl with
  | [x], _, hl =>
    simp [h1] at hl
    simp [trimA, trimList, hl]
  | [], hs, _ => simp [h1] at hs
  | _ :: _ :: _, hs, _ => simp [h1] at hs

end Structural

/-! ## Part E: interpretation as Mathlib polynomials -/
section Exact
open Polynomial

/-- coefficient array (lowest degree first) ↦ `Σ_i C cs[i] * X^i` -/
noncomputable def toPoly {K : Type} [Semiring K] (cs : Array K) : Polynomial K :=
  ∑ i ∈ Finset.range cs.size, C (cs[i]?.getD 0) * X ^ i

theorem coeff_toPoly {K : Type} [Semiring K] (cs : Array K) (k : Nat) :
    (toPoly cs).coeff k = cs[k]?.getD 0 := by
  unfold toPoly
  simp only [finsetSum_coeff, coeff_C_mul_X_pow]
  rw [Finset.sum_ite_eq (Finset.range cs.size) k]
  by_cases h : k < cs.size
  · simp [h]
  · simp [h]

theorem toPoly_ext {K : Type} [Semiring K] {a b : Array K}
    (h : ∀ k : Nat, a[k]?.getD 0 = b[k]?.getD 0) : toPoly a = toPoly b := by
  ext k; rw [coeff_toPoly, coeff_toPoly, h]

@[simp] theorem toPoly_empty {K : Type} [Semiring K] : toPoly (#[] : Array K) = 0 := by
  simp [toPoly]

theorem toPoly_of_size_zero {K : Type} [Semiring K] (a : Array K) (h : a.size = 0) : toPoly a = 0 := by
  simp [toPoly, h]

theorem toPoly_replicate_zero {K : Type} [Semiring K] (n : Nat) :
    toPoly (Array.replicate n (0 : K)) = 0 := by
  ext k; rw [coeff_toPoly]; simp only [Array.getElem?_replicate]; split <;> rfl

theorem list_range_map_sum {M : Type} [AddCommMonoid M] (f : Nat → M) (n : Nat) :
    ((List.range n).map f).sum = ∑ i ∈ Finset.range n, f i := by
  induction n with
  | zero => simp
  | succ n ih => rw [List.range_succ, List.map_append, List.sum_append, ih, Finset.sum_range_succ]; simp

/-- folding a list of "add a polynomial" updates -/
theorem foldl_toPoly {K β : Type} [Semiring K] (F : Array K → β → Array K) (P : β → Polynomial K)
    (n : Nat) : ∀ (l : List β) (acc : Array K), acc.size = n →
      (∀ acc b, b ∈ l → acc.size = n → (F acc b).size = n ∧ toPoly (F acc b) = toPoly acc + P b) →
      (l.foldl F acc).size = n ∧ toPoly (l.foldl F acc) = toPoly acc + (l.map P).sum
  | [], acc, h, _ => by simp [h]
  | b :: l, acc, h, hF => by
    obtain ⟨h1, h2⟩ := hF acc b (by simp) h
    obtain ⟨h3, h4⟩ := foldl_toPoly F P n l (F acc b) h1
      (fun acc b' hb' => hF acc b' (List.mem_cons_of_mem _ hb'))
    refine ⟨by simpa using h3, ?_⟩
    simp only [List.foldl_cons, List.map_cons, List.sum_cons]
    rw [h4, h2, add_assoc]

theorem toPoly_modify {K : Type} [Semiring K] (acc : Array K) (k : Nat) (x : K) (h : k < acc.size) :
    toPoly (acc.modify k (fun c => c + x)) = toPoly acc + C x * X ^ k := by
  ext j
  rw [coeff_add, coeff_toPoly, coeff_toPoly, coeff_C_mul_X_pow, Array.getElem?_modify]
  by_cases hj : k = j
  · subst hj; simp [h]
  · have hj' : ¬ j = k := fun e => hj e.symm
    simp [hj, hj']

theorem degree_toPoly_lt {K : Type} [Semiring K] (cs : Array K) :
    (toPoly cs).degree < (cs.size : WithBot ℕ) :=
  (degree_lt_iff_coeff_zero _ _).2 (fun m hm => by
    rw [coeff_toPoly, Array.getElem?_eq_none hm]; rfl)

theorem le_degree_toPoly {K : Type} [Semiring K] (v : Array K) (hlead : v[v.size - 1]?.getD 0 ≠ 0) :
    ((v.size - 1 : ℕ) : WithBot ℕ) ≤ (toPoly v).degree :=
  le_degree_of_ne_zero (by rwa [coeff_toPoly])

/-- uniqueness of Euclidean division in `K[X]` -/
theorem div_mod_unique {K : Type} [Field K] (u v q r : Polynomial K) (hv : v ≠ 0)
    (h : u = q * v + r) (hd : r.degree < v.degree) : q = u / v ∧ r = u % v := by
  have hr : u % v = r := by
    rw [h, Polynomial.add_mod, EuclideanDomain.mod_eq_zero.2 (dvd_mul_left v q), zero_add, (mod_eq_self_iff hv).2 hd]
  have := EuclideanDomain.div_add_mod u v
  rw [hr] at this
  have h2 : v * (u / v) = v * q := by
    have : v * (u / v) + r = v * q + r := by rw [this, h]; ring
    exact add_right_cancel this
  exact ⟨(mul_left_cancel₀ hv h2).symm, hr.symm⟩

end Exact

section ExactField
open Polynomial
variable {K : Type} [Field K] [LinearOrder K]
attribute [local instance] Ohsl.Alg.scalarExt

theorem toPoly_mul (p q : Array K) : toPoly (mul p q) = toPoly p * toPoly q := by
  unfold mul
  by_cases hp : p.size = 0
  · simp [hp, toPoly_of_size_zero p hp]
  by_cases hq : q.size = 0
  · simp [hp, hq, toPoly_of_size_zero q hq]
  simp only [hp, hq, if_false]
  have inner : ∀ (acc : Array K) (i : Nat), i ∈ List.range p.size → acc.size = p.size + q.size - 1 →
      ((List.range q.size).foldl (fun acc j =>
        acc.modify (i + j) (fun c => c + (p[i]?.getD 0) * (q[j]?.getD 0))) acc).size = p.size + q.size - 1 ∧
      toPoly ((List.range q.size).foldl (fun acc j =>
        acc.modify (i + j) (fun c => c + (p[i]?.getD 0) * (q[j]?.getD 0))) acc) =
        toPoly acc + ∑ j ∈ Finset.range q.size, C ((p[i]?.getD 0) * (q[j]?.getD 0)) * X ^ (i + j) := by
    intro acc i hi hacc
    rw [← list_range_map_sum]
    refine foldl_toPoly (fun acc j => acc.modify (i + j) (fun c => c + (p[i]?.getD 0) * (q[j]?.getD 0)))
      (fun j => C ((p[i]?.getD 0) * (q[j]?.getD 0)) * X ^ (i + j)) _ _ acc hacc ?_
    intro acc j hj hacc
    refine ⟨by simpa using hacc, ?_⟩
    rw [toPoly_modify]
    simp only [List.mem_range] at hi hj
    omega
  obtain ⟨_, h⟩ := foldl_toPoly (fun acc i => (List.range q.size).foldl (fun acc j =>
        acc.modify (i + j) (fun c => c + (p[i]?.getD 0) * (q[j]?.getD 0))) acc)
      (fun i => ∑ j ∈ Finset.range q.size, C ((p[i]?.getD 0) * (q[j]?.getD 0)) * X ^ (i + j))
      (p.size + q.size - 1) (List.range p.size) (Array.replicate (p.size + q.size - 1) (0 : K))
      (by simp) (fun acc i hi hacc => inner acc i hi hacc)
  rw [h, toPoly_replicate_zero, zero_add, list_range_map_sum]
  unfold toPoly
  rw [Finset.sum_mul_sum]
  refine Finset.sum_congr rfl (fun i _ => Finset.sum_congr rfl (fun j _ => ?_))
  rw [C_mul, pow_add]
  ring

theorem getD_add (p q : Array K) (k : Nat) :
    (add p q)[k]?.getD 0 = p[k]?.getD 0 + q[k]?.getD 0 := by
  unfold add
  by_cases hp : p.size = 0
  · have : p[k]? = none := by simp [hp]
    simp [hp]
  by_cases hq : q.size = 0
  · have : q[k]? = none := by simp [hq]
    simp [hp, hq]
  simp only [hp, hq, if_false]
  by_cases hk : k < max p.size q.size
  · rw [Array.getElem?_eq_getElem (by simpa using hk)]
    simp only [Array.getElem_ofFn, Option.getD_some]
    cases p[k]? <;> cases q[k]? <;> simp
  · have h1 : p[k]? = none := by simp; omega
    have h2 : q[k]? = none := by simp; omega
    rw [Array.getElem?_eq_none (by simpa using hk), h1, h2]; simp

theorem getD_sub (p q : Array K) (k : Nat) :
    (sub p q)[k]?.getD 0 = p[k]?.getD 0 - q[k]?.getD 0 := by
  unfold sub
  by_cases hp : p.size = 0
  · have : p[k]? = none := by simp [hp]
    simp only [hp, if_true, this, neg]
    cases h : q[k]? <;> simp [h]
  by_cases hq : q.size = 0
  · have : q[k]? = none := by simp [hq]
    simp [hp, hq]
  simp only [hp, hq, if_false]
  by_cases hk : k < max p.size q.size
  · rw [Array.getElem?_eq_getElem (by simpa using hk)]
    simp only [Array.getElem_ofFn, Option.getD_some]
    cases p[k]? <;> cases q[k]? <;> simp
  · have h1 : p[k]? = none := by simp; omega
    have h2 : q[k]? = none := by simp; omega
    rw [Array.getElem?_eq_none (by simpa using hk), h1, h2]; simp

theorem toPoly_add (p q : Array K) : toPoly (add p q) = toPoly p + toPoly q := by
  ext k; rw [coeff_add, coeff_toPoly, coeff_toPoly, coeff_toPoly, getD_add]

theorem toPoly_sub (p q : Array K) : toPoly (sub p q) = toPoly p - toPoly q := by
  ext k; rw [coeff_sub, coeff_toPoly, coeff_toPoly, coeff_toPoly, getD_sub]

theorem toPoly_stepT (k : Nat) (c : K) : toPoly (stepT k c) = C c * X ^ k := by
  ext j
  rw [coeff_toPoly, coeff_C_mul_X_pow, stepT, Array.getElem?_setIfInBounds]
  by_cases hj : k = j
  · subst hj; simp
  · have hj' : ¬ j = k := fun e => hj e.symm
    simp only [hj, hj', if_false, Array.getElem?_replicate]
    split <;> rfl

/-- trimming only removes zeros -/
theorem trimList_spec : ∀ l : List K, ∃ n, l = List.replicate n (0 : K) ++ trimList l
  | [] => ⟨0, by simp [trimList]⟩
  | [c] => ⟨0, by simp [trimList]⟩
  | c :: d :: cs => by
    unfold trimList
    split
    · rename_i h
      have hc : c = 0 := by simpa using h
      obtain ⟨n, hn⟩ := trimList_spec (d :: cs)
      refine ⟨n + 1, ?_⟩
      rw [List.replicate_succ, List.cons_append, ← hn, hc]
    · exact ⟨0, by simp⟩

theorem toPoly_trimA (p : Array K) : toPoly (trimA p) = toPoly p := by
  obtain ⟨n, hn⟩ := trimList_spec p.toList.reverse
  have h : p.toList = (trimA p).toList ++ List.replicate n (0 : K) := by
    have := congrArg List.reverse hn
    simpa [trimA] using this
  apply toPoly_ext
  intro k
  rw [← Array.getElem?_toList, ← Array.getElem?_toList (xs := p), h, List.getElem?_append]
  split
  · rfl
  · rename_i hk
    rw [List.getElem?_eq_none (by omega)]
    rw [List.getElem?_replicate]
    split <;> rfl

theorem toPoly_isZero (p : Array K) (h : isZero p = true) : toPoly p = 0 := by
  ext k
  rw [coeff_toPoly, coeff_zero]
  unfold isZero at h
  rw [Array.all_eq_true] at h
  by_cases hk : k < p.size
  · have := h k hk
    simpa [hk] using this
  · simp [Array.getElem?_eq_none (Nat.le_of_not_lt hk)]

/-- one step preserves `q·v + r` -/
theorem toPoly_stepQ0 (v q r : Array K) (c : K) :
    toPoly (stepQ0 v q r c) = toPoly q + C c * X ^ (r.size - 1 - (v.size - 1)) := by
  rw [stepQ0, toPoly_add, toPoly_stepT]

theorem toPoly_stepR0 (v r : Array K) (hv : 1 ≤ v.size) (hr : v.size ≤ r.size)
    (hlv : v[v.size - 1]'(by omega) ≠ 0) :
    toPoly (stepR0 v r (r[r.size - 1]'(by omega) / v[v.size - 1]'(by omega))) =
      toPoly r - C (r[r.size - 1]'(by omega) / v[v.size - 1]'(by omega)) *
        X ^ (r.size - 1 - (v.size - 1)) * toPoly v := by
  set c := r[r.size - 1]'(by omega) / v[v.size - 1]'(by omega) with hc
  rw [← toPoly_stepT, ← toPoly_mul, ← toPoly_sub]
  apply toPoly_ext
  intro j
  rw [stepR0, Array.getElem?_setIfInBounds]
  by_cases hj : r.size - 1 = j
  · subst hj
    rw [if_pos rfl, if_pos (by rw [stepSub_size v r c hv hr]; omega)]
    rw [← coeff_toPoly, toPoly_sub, toPoly_mul, toPoly_stepT, coeff_sub, mul_assoc, coeff_C_mul,
      coeff_X_pow_mul', if_pos (by omega), coeff_toPoly, coeff_toPoly]
    have e : r.size - 1 - (r.size - 1 - (v.size - 1)) = v.size - 1 := by omega
    rw [e, Array.getElem?_eq_getElem (by omega), Array.getElem?_eq_getElem (by omega)]
    simp only [Option.getD_some, hc]
    rw [div_mul_cancel₀ _ hlv, sub_self]
  · rw [if_neg hj]

end ExactField
end Ohsl.PolyDiv
