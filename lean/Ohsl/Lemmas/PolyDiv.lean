/-
  Ohsl.Lemmas.PolyDiv — helper lemmas for property C12 (polynomial long division,
  model: Ohsl/Model/Poly.lean `divStep`, `divLoop`, `polydiv`).

  Part S (any scalar type, arbitrary operations): sizes of `add`, `sub`, `mul`, `trim`; closed form
  of one division step; the size of the remainder drops in every step.
  Part E (field): `toPoly`, the interpretation of a coefficient array as a Mathlib polynomial, and
  its compatibility with `add`, `sub`, `mul` (convolution), `setIfInBounds`, `trim`.
-/
import Ohsl.Model.Poly
import Ohsl.Lemmas.MatIdx
set_option linter.unusedSectionVars false
set_option linter.unusedVariables false
namespace Ohsl.PolyDiv
open Ohsl Ohsl.Poly

section Structural
variable {K : Type} [Add K] [Sub K] [Mul K] [Neg K] [Zero K] [One K] [BEq K] [ScalarExt K]

/-! ### sizes -/

theorem add_size_pos (p q : Array K) (hq : q.size ≠ 0) : (add p q).size ≠ 0 := by
  unfold add
  by_cases hp : p.size = 0
  · simp [hp, hq]
  · simp only [hp, hq, if_false, Array.size_ofFn]; omega

theorem sub_size (p q : Array K) (hp : p.size ≠ 0) (hq : q.size ≠ 0) :
    (sub p q).size = max p.size q.size := by
  simp [sub, hp, hq]

theorem foldl_size_inv {β : Type} (f : Array K → β → Array K) (hf : ∀ a b, (f a b).size = a.size) :
    ∀ (l : List β) (a : Array K), (l.foldl f a).size = a.size
  | [], a => rfl
  | x :: l, a => by simp [List.foldl_cons, foldl_size_inv f hf l, hf]

theorem mul_size (p q : Array K) (hp : p.size ≠ 0) (hq : q.size ≠ 0) :
    (mul p q).size = p.size + q.size - 1 := by
  unfold mul
  simp only [hp, hq, if_false]
  rw [foldl_size_inv]
  · simp
  · intro a i
    rw [foldl_size_inv]
    intro a j
    simp

/-! ### trim -/

/-- the array computed by `trim` on a non-empty input -/
def trimA (p : Array K) : Array K := (trimList p.toList.reverse).reverse.toArray

theorem trim_ok (p : Array K) (h : p.size ≠ 0) : trim p = .ok (trimA p) := by
  simp [trim, h, trimA]

theorem trimList_length_le : ∀ l : List K, (trimList l).length ≤ l.length
  | [] => by simp [trimList]
  | [c] => by simp [trimList]
  | c :: d :: cs => by
    unfold trimList
    split
    · have := trimList_length_le (d :: cs); simp at this ⊢; omega
    · simp

theorem trimList_length_pos : ∀ l : List K, l ≠ [] → 1 ≤ (trimList l).length
  | [], h => absurd rfl h
  | [c], _ => by simp [trimList]
  | c :: d :: cs, _ => by
    unfold trimList
    split
    · exact trimList_length_pos (d :: cs) (by simp)
    · simp

theorem trimA_size_le (p : Array K) : (trimA p).size ≤ p.size := by
  have := trimList_length_le p.toList.reverse
  simpa [trimA] using this

theorem trimA_size_pos (p : Array K) (h : p.size ≠ 0) : 1 ≤ (trimA p).size := by
  have := trimList_length_pos p.toList.reverse (by
    intro h'; apply h; simpa using congrArg List.length h')
  simpa [trimA] using this

/-- a leading coefficient that tests `== 0` is removed (unless it is the only coefficient) -/
theorem trimA_size_lt (p : Array K) (h2 : 2 ≤ p.size) (hl : (p[p.size - 1]?.getD 0 == (0 : K)) = true) :
    (trimA p).size ≤ p.size - 1 := by
  obtain ⟨l⟩ := p
  simp only [List.size_toArray] at h2
  simp only [trimA, List.size_toArray, List.length_reverse]
  have hrev : ∃ c d cs, l.reverse = c :: d :: cs := by
    match h : l.reverse with
    | [] => have := congrArg List.length h; simp only [List.length_reverse, List.length_nil] at this; omega
    | [c] => have := congrArg List.length h; simp only [List.length_reverse, List.length_cons, List.length_nil] at this; omega
    | c :: d :: cs => exact ⟨c, d, cs, rfl⟩
  obtain ⟨c, d, cs, hcs⟩ := hrev
  have hlen : l.length = cs.length + 2 := by
    have := congrArg List.length hcs; simpa using this
  have hc : l[l.length - 1]? = some c := by
    have : l = (c :: d :: cs).reverse := by rw [← hcs, List.reverse_reverse]
    rw [this]; simp
  simp only [List.size_toArray, List.getElem?_toArray, hc, Option.getD_some] at hl
  rw [hcs]
  unfold trimList
  simp only [hl, if_true]
  have := trimList_length_le (d :: cs)
  simp at this; omega

/-! ### one division step in closed form -/

/-- the monomial `c · x^k` -/
def stepT (k : Nat) (c : K) : Array K := (Array.replicate (k + 1) (0 : K)).setIfInBounds k c

/-- quotient after one step (before trimming) -/
def stepQ0 (v q r : Array K) (c : K) : Array K := add q (stepT (r.size - 1 - (v.size - 1)) c)
/-- remainder after one step, leading coefficient zeroed (before trimming) -/
def stepR0 (v r : Array K) (c : K) : Array K :=
  (sub r (mul (stepT (r.size - 1 - (v.size - 1)) c) v)).setIfInBounds (r.size - 1) 0

@[simp] theorem stepT_size (k : Nat) (c : K) : (stepT k c).size = k + 1 := by simp [stepT]

theorem stepMul_size (v r : Array K) (c : K) (hv : 1 ≤ v.size) (hr : v.size ≤ r.size) :
    (mul (stepT (r.size - 1 - (v.size - 1)) c) v).size = r.size := by
  rw [mul_size _ _ (by simp) (by omega), stepT_size]; omega

theorem stepSub_size (v r : Array K) (c : K) (hv : 1 ≤ v.size) (hr : v.size ≤ r.size) :
    (sub r (mul (stepT (r.size - 1 - (v.size - 1)) c) v)).size = r.size := by
  rw [sub_size _ _ (by omega) (by rw [stepMul_size v r c hv hr]; omega), stepMul_size v r c hv hr]
  simp

theorem stepR0_size (v r : Array K) (c : K) (hv : 1 ≤ v.size) (hr : v.size ≤ r.size) :
    (stepR0 v r c).size = r.size := by
  simp [stepR0, stepSub_size v r c hv hr]

theorem stepQ0_size_pos (v q r : Array K) (c : K) : (stepQ0 v q r c).size ≠ 0 :=
  add_size_pos _ _ (by simp)

/-- `divStep` in closed form: the only fallible operation is the division of the leading
    coefficients -/
theorem divStep_eq (v q r : Array K) (hv : 1 ≤ v.size) (hr : v.size ≤ r.size) :
    divStep v q r =
      (divM (r[r.size - 1]'(by omega)) (v[v.size - 1]'(by omega))).bind
        (fun c => .ok (trimA (stepQ0 v q r c), trimA (stepR0 v r c))) := by
  unfold divStep
  have h1 : usub r.size 1 = .ok (r.size - 1) := by unfold usub; rw [if_pos (by omega)]
  have h2 : usub v.size 1 = .ok (v.size - 1) := by unfold usub; rw [if_pos (by omega)]
  have h3 : usub (r.size - 1) (v.size - 1) = .ok (r.size - 1 - (v.size - 1)) := by
    unfold usub; rw [if_pos (by omega)]
  have h4 : aget r (r.size - 1) = .ok (r[r.size - 1]'(by omega)) := Mat.aget_ok (by omega)
  have h5 : aget v (v.size - 1) = .ok (v[v.size - 1]'(by omega)) := Mat.aget_ok (by omega)
  simp only [h1, h2, h3, h4, h5, bind, Except.bind, pure, Except.pure]
  cases hd : divM (r[r.size - 1]'(by omega)) (v[v.size - 1]'(by omega)) with
  | error e => rfl
  | ok c =>
    have hs := stepSub_size v r c hv hr
    simp only [stepT] at hs
    have h6 : usub (sub r (mul ((Array.replicate (r.size - 1 - (v.size - 1) + 1) (0 : K)).setIfInBounds
        (r.size - 1 - (v.size - 1)) c) v)).size 1 = .ok (r.size - 1) := by
      rw [hs]; exact h1
    simp only [h6]
    rw [Mat.aset_ok _ (by rw [hs]; omega)]
    simp only []
    have h7 := trim_ok (stepR0 v r c) (by rw [stepR0_size v r c hv hr]; omega)
    have h8 := trim_ok (stepQ0 v q r c) (stepQ0_size_pos v q r c)
    simp only [stepR0, stepQ0, stepT] at h7 h8
    simp only [h7, h8, stepR0, stepQ0, stepT]

theorem stepR0_lead (v r : Array K) (c : K) (hv : 1 ≤ v.size) (hr : v.size ≤ r.size) :
    (stepR0 v r c)[(stepR0 v r c).size - 1]?.getD 0 = (0 : K) := by
  rw [stepR0_size v r c hv hr]
  simp [stepR0, stepSub_size v r c hv hr]

/-- the new remainder is strictly shorter (or stays a single coefficient) -/
theorem stepR_size_le (v r : Array K) (c : K) (h00 : ((0 : K) == 0) = true)
    (hv : 1 ≤ v.size) (hr : v.size ≤ r.size) :
    (trimA (stepR0 v r c)).size ≤ max 1 (r.size - 1) := by
  by_cases h2 : 2 ≤ r.size
  · have := trimA_size_lt (stepR0 v r c) (by rw [stepR0_size v r c hv hr]; exact h2)
      (by rw [stepR0_lead v r c hv hr]; exact h00)
    rw [stepR0_size v r c hv hr] at this
    omega
  · have := trimA_size_le (stepR0 v r c)
    rw [stepR0_size v r c hv hr] at this
    omega

/-- a remainder of size one becomes the zero polynomial `[0]` -/
theorem stepR_single (v r : Array K) (c : K) (hv : 1 ≤ v.size) (hr : v.size ≤ r.size)
    (h1 : r.size = 1) : trimA (stepR0 v r c) = #[(0 : K)] := by
  have hs := stepR0_size v r c hv hr
  have hl := stepR0_lead v r c hv hr
  rw [hs] at hl
  generalize stepR0 v r c = a at hs hl
  obtain ⟨l⟩ := a
  simp only [List.size_toArray] at hs
  match l, hs, hl with
  | [x], _, hl =>
    simp [h1] at hl
    simp [trimA, trimList, hl]
  | [], hs, _ => simp [h1] at hs
  | _ :: _ :: _, hs, _ => simp [h1] at hs

end Structural
end Ohsl.PolyDiv
