/-
  Ohsl.Lemmas.MatSpec — pointwise descriptions of the dense-matrix model operations
  ("after the loop, entry (i,j) is … and every other entry is unchanged"), proved with the
  loop rule `Mat.forM'_inv`.  Class (S): no law about the scalar operations is used.
  Core Lean only.
-/
import Ohsl.Lemmas.MatIdx
set_option linter.unusedSectionVars false
set_option linter.unusedSimpArgs false
namespace Ohsl

theorem list_mapM_ok {α β : Type} (l : List α) (f : α → Res β) (g : α → β)
    (h : ∀ a ∈ l, f a = .ok (g a)) : l.mapM f = .ok (l.map g) := by
  induction l with
  | nil => rfl
  | cons a l ih =>
    have h1 := h a (by simp)
    have h2 := ih (fun b hb => h b (by simp [hb]))
    simp [List.mapM_cons, h1, h2, bind, Except.bind, pure, Except.pure]

theorem range_toArray_mapM_ok {β : Type} (n : Nat) (f : Nat → Res β) (g : Nat → β)
    (h : ∀ i, i < n → f i = .ok (g i)) :
    (List.range n).toArray.mapM f = .ok ((List.range n).map g).toArray := by
  rw [List.mapM_toArray, list_mapM_ok _ f g (fun a ha => h a (by simpa using ha))]
  rfl

namespace Mat
variable {K : Type}

/-- `m'` has the shape of `m`, is well-formed, and its in-range entries are given by `e` -/
structure Is (m' : Mat K) (r c : Nat) (e : Nat → Nat → K) : Prop where
  wf : m'.WF
  rows : m'.rows = r
  cols : m'.cols = c
  entry : ∀ i j, i < r → j < c → m'.get i j = .ok (e i j)

theorem Is.of_new (r c : Nat) (x : K) : Is (Mat.new r c x) r c (fun _ _ => x) :=
  ⟨new_wf r c x, rfl, rfl, fun _ _ hi hj => new_get x hi hj⟩

/-- writing entry (i,j) of a described matrix -/
theorem Is.set {m : Mat K} {r c : Nat} {e : Nat → Nat → K} (h : Is m r c e) {i j : Nat}
    (hi : i < r) (hj : j < c) (v : K) :
    ∃ m', m.set i j v = .ok m' ∧ Is m' r c (fun a b => if a = i ∧ b = j then v else e a b) := by
  obtain ⟨m', h1, hwf, hr, hc, hget, hoth⟩ :=
    set_spec h.wf (by rw [h.rows]; exact hi) (by rw [h.cols]; exact hj) v
  refine ⟨m', h1, ⟨hwf, by rw [hr, h.rows], by rw [hc, h.cols], ?_⟩⟩
  intro a b ha hb
  by_cases hab : a = i ∧ b = j
  · obtain ⟨rfl, rfl⟩ := hab; simp [hget]
  · simp only [hab, if_false]
    rw [hoth a b (by rw [h.cols]; exact hb) (by omega)]
    exact h.entry a b ha hb

section Generic
variable [Add K] [Sub K] [Mul K] [Neg K] [Zero K] [One K] [BEq K] [ScalarExt K]

/-- `get_col`: defined exactly for `col < cols`; returns the column -/
theorem getCol_spec {m : Mat K} {r c : Nat} {e : Nat → Nat → K} (h : Is m r c e) {col : Nat}
    (hc : col < c) : getCol m col = .ok ((List.range r).map (fun i => e i col)).toArray := by
  have : ¬ m.cols ≤ col := by rw [h.cols]; omega
  simp only [getCol, this, if_false, h.rows]
  apply range_toArray_mapM_ok
  intro i hi
  have := h.entry i col hi hc
  simpa [Mat.get] using this

theorem getCol_rejects (m : Mat K) {col : Nat} (hc : m.cols ≤ col) : getCol m col = .error .range := by
  simp [getCol, hc]

theorem getRow_spec {m : Mat K} {r c : Nat} {e : Nat → Nat → K} (h : Is m r c e) {row : Nat}
    (hr : row < r) : getRow m row = .ok ((List.range c).map (fun j => e row j)).toArray := by
  have : ¬ m.rows ≤ row := by rw [h.rows]; omega
  simp only [getRow, this, if_false, h.cols]
  apply range_toArray_mapM_ok
  intro j hj
  have := h.entry row j hr hj
  simpa [Mat.get, h.cols] using this

theorem getRow_rejects (m : Mat K) {row : Nat} (hr : m.rows ≤ row) : getRow m row = .error .range := by
  simp [getRow, hr]

/-- `set_col`: for a vector of length `rows` and `col < cols` the call succeeds, keeps shape and
    well-formedness, column `col` becomes `v`, and **no other entry changes** -/
theorem setCol_spec {m : Mat K} {r c : Nat} {e : Nat → Nat → K} (h : Is m r c e) {col : Nat}
    (v : Array K) (hv : v.size = r) (hc : col < c) :
    ∃ m', setCol m col v = .ok m' ∧
      Is m' r c (fun i j => if j = col then v[i]?.getD (e i j) else e i j) := by
  have h1 : ¬ v.size ≠ r := by omega
  have h2 : ¬ c ≤ col := by omega
  simp only [setCol, h.rows, h.cols, h1, h2, if_false]
  -- invariant: rows < k of column `col` have been written
  obtain ⟨m', hm', hP⟩ := forM'_inv
    (fun k (s : Mat K) => Is s r c (fun i j => if j = col ∧ i < k then v[i]?.getD (e i j) else e i j))
    0 r m (fun m i => do let x ← aget v i; m.set i col x) (Nat.zero_le _) (by simpa using h) (by
      intro k s _ hk hs
      have hkv : k < v.size := by omega
      obtain ⟨s', hs', hI⟩ := hs.set hk hc v[k]
      refine ⟨s', by simp [aget_ok hkv, hs', bind, Except.bind], ?_⟩
      refine ⟨hI.wf, hI.rows, hI.cols, ?_⟩
      intro a b ha hb
      rw [hI.entry a b ha hb]
      congr 1
      by_cases hab : a = k ∧ b = col
      · obtain ⟨rfl, rfl⟩ := hab; simp [hkv]
      · by_cases hb' : b = col
        · subst hb'
          have : a ≠ k := fun h => hab ⟨h, rfl⟩
          have e1 : (a < k + 1) = (a < k) := by apply propext; omega
          simp [hab, e1, this]
        · simp [hab, hb'])
  refine ⟨m', hm', ⟨hP.wf, hP.rows, hP.cols, ?_⟩⟩
  intro a b ha hb
  rw [hP.entry a b ha hb]
  simp [ha]

/-- the range check compares the column with the number of COLUMNS: any `col ≥ cols` is rejected
    before anything is written (the size check comes first, as in the source) -/
theorem setCol_rejects (m : Mat K) (col : Nat) (v : Array K) (h : v.size ≠ m.rows ∨ m.cols ≤ col) :
    ∃ e, setCol m col v = .error e := by
  unfold setCol
  by_cases h1 : v.size ≠ m.rows
  · exact ⟨.size, by simp [h1]⟩
  · have h2 : m.cols ≤ col := h.resolve_left h1
    exact ⟨.range, by simp [h1, h2]⟩

/-- `multiply` (matrix · vector): defined exactly when `v.size = cols`; component `i` is the
    ordered dot product of row `i` with `v` -/
theorem mulVec_spec {m : Mat K} {r c : Nat} {e : Nat → Nat → K} (h : Is m r c e) (v : Array K)
    (hv : v.size = c) :
    mulVec m v = .ok ((List.range r).map (fun i =>
      (Array.zipWith (· * ·) ((List.range c).map (fun j => e i j)).toArray v).foldl (· + ·) 0)).toArray := by
  have h1 : ¬ v.size ≠ m.cols := by rw [h.cols]; omega
  simp only [mulVec, h1, if_false, h.rows]
  apply range_toArray_mapM_ok
  intro i hi
  simp [getRow_spec h hi, Vec.dot, hv, bind, Except.bind]

theorem mulVec_rejects (m : Mat K) (v : Array K) (h : v.size ≠ m.cols) : mulVec m v = .error .size := by
  simp [mulVec, h]

/-- entry (i, j) of the product as the code computes it: Σ_k a_ik · b_kj accumulated from 0 in
    index order -/
def dotRC (ea eb : Nat → Nat → K) (k : Nat) (i j : Nat) : K :=
  (Array.zipWith (· * ·) ((List.range k).map (fun t => ea i t)).toArray
      ((List.range k).map (fun t => eb t j)).toArray).foldl (· + ·) 0

/-- matrix product: for EVERY conformable pair of shapes `r×k`, `k×c` (wide, tall, empty included)
    the call succeeds with an `r×c` well-formed result whose entries are the ordered sums -/
theorem mul_spec {a b : Mat K} {r k c : Nat} {ea eb : Nat → Nat → K}
    (ha : Is a r k ea) (hb : Is b k c eb) :
    ∃ p, mul a b = .ok p ∧ Is p r c (dotRC ea eb k) := by
  have h1 : ¬ k ≠ k := by simp
  simp only [mul, ha.cols, hb.rows, h1, if_false, ha.rows, hb.cols]
  obtain ⟨p, hp, hP⟩ := forM'_inv
    (fun n (s : Mat K) => Is s r c (fun i j => if j < n then dotRC ea eb k i j else 0))
    0 c (Mat.new r c 0) (fun acc col => do
      let cc ← getCol b col
      let v ← mulVec a cc
      setCol acc col v) (Nat.zero_le _) (by simpa using Is.of_new r c (0 : K)) (by
      intro col s _ hcol hs
      have hv := mulVec_spec ha ((List.range k).map (fun t => eb t col)).toArray (by simp)
      obtain ⟨s', hs', hI⟩ := setCol_spec hs (col := col)
        ((List.range r).map (fun i => (Array.zipWith (· * ·) ((List.range k).map (fun j => ea i j)).toArray
          ((List.range k).map (fun t => eb t col)).toArray).foldl (· + ·) 0)).toArray (by simp) hcol
      refine ⟨s', ?_, ?_⟩
      · simp only [getCol_spec hb hcol, hv, bind, Except.bind]
        exact hs'
      · refine ⟨hI.wf, hI.rows, hI.cols, ?_⟩
        intro i j hi hj
        rw [hI.entry i j hi hj]
        congr 1
        by_cases hjc : j = col
        · subst hjc; simp [hi, dotRC]
        · have e1 : (j < col + 1) = (j < col) := by apply propext; omega
          simp [hjc, e1])
  refine ⟨p, hp, ⟨hP.wf, hP.rows, hP.cols, ?_⟩⟩
  intro i j hi hj
  rw [hP.entry i j hi hj]; simp [hj]

theorem mul_rejects (a b : Mat K) (h : a.cols ≠ b.rows) : mul a b = .error .size := by
  simp [mul, h]

end Generic
end Mat
end Ohsl
