/-
  Ohsl.Lemmas.BandSpec — pointwise specifications of the banded-matrix model
  (`Ohsl/Model/Banded.lean`) against its *dense twin*.

  * `WFb b`       the compact storage is a well-formed `n × (m1+m2+1)` matrix
  * `dense b i j` the dense twin: the compact slot `(i, m1 + j - i)` for in-band, in-matrix
                  `(i,j)`, zero elsewhere
  * (S) `get_spec`, `set_spec`, arithmetic (`add_spec`, …), `fillBand_spec`
  * (S) `mulVec_ordered` : the band-limited loop as an ordered sum over the dense row,
        `mulVec_padding` : padding slots are never read
  * (E) `mulVec_spec`    : the loop equals the dense product `Σ_{j<n} dense b i j * v[j]`
  * `shiftRows_spec`, and the upper-banded case `m1 = 0` of `decompose` / `det` / `solve`.
-/
import Ohsl.Model.Banded
import Ohsl.Lemmas.MatSpec2
import Ohsl.Lemmas.Alg
import Mathlib.Algebra.BigOperators.Group.Finset.Basic
import Mathlib.Algebra.BigOperators.Ring.Finset
import Mathlib.Algebra.BigOperators.Intervals
import Mathlib.Tactic.Ring
set_option linter.unusedSectionVars false
set_option linter.unusedVariables false
set_option linter.unusedSimpArgs false
namespace Ohsl

/-! ### small list / loop facts -/

theorem foldl_congr_mem {α β : Type} (f g : β → α → β) :
    ∀ (l : List α) (a : β), (∀ x ∈ l, ∀ acc, f acc x = g acc x) → l.foldl f a = l.foldl g a
  | [], _, _ => rfl
  | x :: l, a, h => by
    simp only [List.foldl_cons]
    rw [h x (by simp) a]
    exact foldl_congr_mem f g l _ (fun y hy acc => h y (by simp [hy]) acc)

theorem range'_snoc (s n : Nat) : List.range' s (n + 1) = List.range' s n ++ [s + n] := by
  simpa using List.range'_concat (s := s) (n := n) (step := 1)

theorem bind_ok_of {α β : Type} {x : Res α} {g : α → Res β} {Q : β → Prop} (P : α → Prop)
    (hx : ∃ a, x = .ok a ∧ P a) (hg : ∀ a, P a → ∃ b, g a = .ok b ∧ Q b) :
    ∃ b, (x >>= g) = .ok b ∧ Q b := by
  obtain ⟨a, h1, h2⟩ := hx
  rw [h1]; exact hg a h2

theorem usub_ok {a b : Nat} (h : b ≤ a) : usub a b = .ok (a - b) := by simp [usub, h]

theorem bind_eq_ok {α β : Type} {x : Res α} {g : α → Res β} {y : β} (h : (x >>= g) = .ok y) :
    ∃ a, x = .ok a ∧ g a = .ok y := by
  cases x with
  | error e => simp [bind, Except.bind] at h
  | ok a => exact ⟨a, rfl, h⟩

/-- partial-correctness rule for the descending loop `for j in (0..m).rev()` -/
theorem foldlM_rev_ok_inv {σ : Type} (Q : Nat → σ → Prop) (f : σ → Nat → Res σ) :
    ∀ (m : Nat) (s s' : σ), Q m s →
      (∀ j s s1, j < m → Q (j + 1) s → f s j = .ok s1 → Q j s1) →
      (List.range m).reverse.foldlM f s = .ok s' → Q 0 s'
  | 0, s, s', h0, _, h => by
    simp [pure, Except.pure] at h
    subst h; exact h0
  | m + 1, s, s', h0, hstep, h => by
    rw [List.range_succ, List.reverse_append] at h
    simp only [List.reverse_cons, List.reverse_nil, List.nil_append, List.cons_append,
      List.foldlM_cons, bind, Except.bind] at h
    cases h1 : f s m with
    | error e => rw [h1] at h; simp at h
    | ok s1 =>
      rw [h1] at h
      exact foldlM_rev_ok_inv Q f m s1 s' (hstep m s s1 (by omega) h0 h1)
        (fun j s s2 hj hq hf => hstep j s s2 (by omega) hq hf) h

/-- total-correctness rule for the descending loop `for j in (0..m).rev()` -/
theorem foldlM_rev_inv {σ : Type} (Q : Nat → σ → Prop) (f : σ → Nat → Res σ) :
    ∀ (m : Nat) (s : σ), Q m s →
      (∀ j s, j < m → Q (j + 1) s → ∃ s', f s j = .ok s' ∧ Q j s') →
      ∃ s', (List.range m).reverse.foldlM f s = .ok s' ∧ Q 0 s'
  | 0, s, h0, _ => ⟨s, by simp [pure, Except.pure], h0⟩
  | m + 1, s, h0, hstep => by
    obtain ⟨s1, h1, q1⟩ := hstep m s (by omega) h0
    obtain ⟨s', h2, q2⟩ := foldlM_rev_inv Q f m s1 q1
      (fun j s hj hq => hstep j s (by omega) hq)
    refine ⟨s', ?_, q2⟩
    rw [List.range_succ, List.reverse_append]
    simp only [List.reverse_cons, List.reverse_nil, List.nil_append, List.cons_append,
      List.foldlM_cons, h1, bind, Except.bind]
    exact h2

namespace Mat
variable {K : Type}

theorem Is.entryOf_eq [Zero K] {m : Mat K} {r c : Nat} {e : Nat → Nat → K} (h : Is m r c e)
    {i j : Nat} (hi : i < r) (hj : j < c) : entryOf m i j = e i j := by
  have := h.entry i j hi hj
  rw [Mat.get, aget_eq_ok, h.cols] at this
  simp [entryOf, h.cols, this]

/-- any description of a matrix can be replaced by the canonical one -/
theorem Is.canon [Zero K] {m : Mat K} {r c : Nat} {e : Nat → Nat → K} (h : Is m r c e) :
    Is m r c (entryOf m) := by
  refine ⟨h.wf, h.rows, h.cols, ?_⟩
  intro i j hi hj
  rw [h.entry i j hi hj, h.entryOf_eq hi hj]

end Mat

namespace Band
variable {K : Type}
open Mat (forM' Is forM'_inv aget_ok aset_ok aget_eq_ok)

/-- (i,j) lies inside the band -/
def inBand (b : Band K) (i j : Nat) : Prop := j ≤ i + b.m2 ∧ i ≤ j + b.m1

instance (b : Band K) (i j : Nat) : Decidable (inBand b i j) := by
  unfold inBand; infer_instance

/-- the compact storage is a well-formed `n × (m1+m2+1)` matrix -/
def WFb (b : Band K) : Prop := ∃ c, Is b.compact b.n (b.m1 + b.m2 + 1) c

/-- two banded matrices have the same `(n, m1, m2)` -/
def SameShape (a b : Band K) : Prop := a.n = b.n ∧ a.m1 = b.m1 ∧ a.m2 = b.m2

section Z
variable [Zero K]

/-- the dense twin: compact slot `(i, m1 + j - i)` inside the band and the matrix, zero outside -/
def dense (b : Band K) (i j : Nat) : K :=
  if j ≤ i + b.m2 ∧ i ≤ j + b.m1 ∧ i < b.n ∧ j < b.n then
    Mat.entryOf b.compact i (b.m1 + j - i)
  else 0

theorem WFb.is {b : Band K} (h : WFb b) :
    Is b.compact b.n (b.m1 + b.m2 + 1) (Mat.entryOf b.compact) := by
  obtain ⟨c, hc⟩ := h
  exact hc.canon

theorem dense_of_is {b : Band K} {c : Nat → Nat → K} (h : Is b.compact b.n (b.m1 + b.m2 + 1) c)
    {i j : Nat} (hb : inBand b i j) (hi : i < b.n) (hj : j < b.n) :
    dense b i j = c i (b.m1 + j - i) := by
  obtain ⟨h1, h2⟩ := hb
  have hc : j ≤ i + b.m2 ∧ i ≤ j + b.m1 ∧ i < b.n ∧ j < b.n := ⟨h1, h2, hi, hj⟩
  rw [dense, if_pos hc]
  exact h.entryOf_eq hi (by omega)

theorem dense_out {b : Band K} {i j : Nat} (h : ¬ (inBand b i j ∧ i < b.n ∧ j < b.n)) :
    dense b i j = 0 := by
  rw [dense, if_neg]
  unfold inBand at h
  intro hc
  exact h ⟨⟨hc.1, hc.2.1⟩, hc.2.2.1, hc.2.2.2⟩

/-- a banded matrix built from a described compact matrix is well formed, and its dense twin
    reads the description -/
theorem WFb.mk' {n m1 m2 : Nat} {m : Mat K} {c : Nat → Nat → K} (h : Is m n (m1 + m2 + 1) c) :
    WFb (⟨n, m1, m2, m⟩ : Band K) := ⟨c, h⟩

/-! ### index operator -/

/-- reading an in-band, in-matrix entry returns the dense-twin entry -/
theorem get_spec {b : Band K} (h : WFb b) {i j : Nat} (hb : inBand b i j) (hi : i < b.n)
    (hj : j < b.n) : Band.get b i j = .ok (dense b i j) := by
  have hg : ¬ (j > i + b.m2 ∨ i > j + b.m1) := by unfold inBand at hb; omega
  rw [Band.get, if_neg hg, dense_of_is h.is hb hi hj]
  exact h.is.get hi (by unfold inBand at hb; omega)

/-- outside the band the index operator panics -/
theorem get_out_of_band (b : Band K) {i j : Nat} (h : ¬ inBand b i j) :
    Band.get b i j = .error .range := by
  have hg : (j > i + b.m2 ∨ i > j + b.m1) := by unfold inBand at h; omega
  rw [Band.get, if_pos hg]

/-- writing an in-band, in-matrix entry: succeeds, keeps `(n, m1, m2)` and well-formedness, the
    entry is read back, and **every other entry of the dense twin is unchanged** -/
theorem set_spec {b : Band K} (h : WFb b) {i j : Nat} (hb : inBand b i j) (hi : i < b.n)
    (hj : j < b.n) (v : K) :
    ∃ b', Band.set b i j v = .ok b' ∧ WFb b' ∧ SameShape b' b ∧ dense b' i j = v ∧
      ∀ i' j', (i' ≠ i ∨ j' ≠ j) → dense b' i' j' = dense b i' j' := by
  have hg : ¬ (j > i + b.m2 ∨ i > j + b.m1) := by unfold inBand at hb; omega
  have hcol : b.m1 + j - i < b.m1 + b.m2 + 1 := by unfold inBand at hb; omega
  obtain ⟨m', hm', hI⟩ := h.is.set hi hcol v
  refine ⟨{ b with compact := m' }, ?_, ⟨_, hI⟩, ⟨rfl, rfl, rfl⟩, ?_, ?_⟩
  · rw [Band.set, if_neg hg, hm']; rfl
  · have := dense_of_is (b := { b with compact := m' }) hI hb hi hj
    rw [this]; simp
  · intro i' j' hne
    by_cases hc : inBand b i' j' ∧ i' < b.n ∧ j' < b.n
    · obtain ⟨hb', hi', hj'⟩ := hc
      rw [dense_of_is (b := { b with compact := m' }) hI hb' hi' hj', dense_of_is h.is hb' hi' hj']
      have : ¬ (i' = i ∧ b.m1 + j' - i' = b.m1 + j - i) := by
        unfold inBand at hb hb'; omega
      simp only [this, if_false]
    · rw [dense_out (b := { b with compact := m' }) hc, dense_out hc]

/-- outside the band the write panics and nothing is written -/
theorem set_out_of_band (b : Band K) {i j : Nat} (v : K) (h : ¬ inBand b i j) :
    Band.set b i j v = .error .range := by
  have hg : (j > i + b.m2 ∨ i > j + b.m1) := by unfold inBand at h; omega
  rw [Band.set, if_pos hg]

end Z

/-! ### arithmetic: delegation to the compact matrix -/
section Arith
variable [Add K] [Sub K] [Mul K] [Neg K] [Zero K] [One K] [BEq K] [ScalarExt K]

theorem sameShape_true {a b : Band K} (h : SameShape a b) : sameShape a b = true := by
  obtain ⟨h1, h2, h3⟩ := h
  simp [sameShape, h1, h2, h3]

/-- generic lifting: a compact-level entrywise result gives the dense-level entrywise result -/
theorem lift_unary {a : Band K} (ha : WFb a) {m' : Mat K} (g : K → K)
    (hI : Is m' a.n (a.m1 + a.m2 + 1) (fun i j => g (Mat.entryOf a.compact i j))) :
    WFb ({ a with compact := m' } : Band K) ∧ SameShape ({ a with compact := m' } : Band K) a ∧
    ∀ i j, inBand a i j → i < a.n → j < a.n →
      dense ({ a with compact := m' } : Band K) i j = g (dense a i j) := by
  refine ⟨⟨_, hI⟩, ⟨rfl, rfl, rfl⟩, ?_⟩
  intro i j hb hi hj
  rw [dense_of_is (b := { a with compact := m' }) hI hb hi hj, dense_of_is ha.is hb hi hj]

theorem lift_binary {a b : Band K} (ha : WFb a) (hb : WFb b) (hs : SameShape a b) {m' : Mat K}
    (g : K → K → K)
    (hI : Is m' a.n (a.m1 + a.m2 + 1)
      (fun i j => g (Mat.entryOf a.compact i j) (Mat.entryOf b.compact i j))) :
    WFb ({ a with compact := m' } : Band K) ∧ SameShape ({ a with compact := m' } : Band K) a ∧
    ∀ i j, inBand a i j → i < a.n → j < a.n →
      dense ({ a with compact := m' } : Band K) i j = g (dense a i j) (dense b i j) := by
  refine ⟨⟨_, hI⟩, ⟨rfl, rfl, rfl⟩, ?_⟩
  intro i j hib hi hj
  obtain ⟨h1, h2, h3⟩ := hs
  have hib' : inBand b i j := by unfold inBand at *; omega
  rw [dense_of_is (b := { a with compact := m' }) hI hib hi hj, dense_of_is ha.is hib hi hj,
    dense_of_is hb.is hib' (by omega) (by omega), h2]

theorem WFb.is_as {a b : Band K} (hb : WFb b) (hs : SameShape a b) :
    Is b.compact a.n (a.m1 + a.m2 + 1) (Mat.entryOf b.compact) := by
  obtain ⟨h1, h2, h3⟩ := hs
  rw [h1, h2, h3]; exact hb.is

/-- `&a + &b`: entrywise on the band, shape preserved -/
theorem add_spec {a b : Band K} (ha : WFb a) (hb : WFb b) (hs : SameShape a b) :
    ∃ c, Band.add a b = .ok c ∧ WFb c ∧ SameShape c a ∧
      ∀ i j, inBand a i j → i < a.n → j < a.n → dense c i j = dense a i j + dense b i j := by
  obtain ⟨m', hm', hI⟩ := Mat.add_spec ha.is (hb.is_as hs)
  refine ⟨{ a with compact := m' }, ?_, lift_binary ha hb hs (· + ·) hI⟩
  simp only [Band.add, sameShape_true hs, hm']; rfl

/-- `&a - &b` -/
theorem sub_spec {a b : Band K} (ha : WFb a) (hb : WFb b) (hs : SameShape a b) :
    ∃ c, Band.sub' a b = .ok c ∧ WFb c ∧ SameShape c a ∧
      ∀ i j, inBand a i j → i < a.n → j < a.n → dense c i j = dense a i j - dense b i j := by
  obtain ⟨m', hm', hI⟩ := Mat.sub_spec ha.is (hb.is_as hs)
  refine ⟨{ a with compact := m' }, ?_, lift_binary ha hb hs (· - ·) hI⟩
  simp only [Band.sub', sameShape_true hs, hm']; rfl

/-- `-a` -/
theorem neg_spec {a : Band K} (ha : WFb a) :
    ∃ c, Band.neg a = .ok c ∧ WFb c ∧ SameShape c a ∧
      ∀ i j, inBand a i j → i < a.n → j < a.n → dense c i j = - dense a i j := by
  obtain ⟨m', hm', hI⟩ := Mat.neg_spec ha.is
  refine ⟨{ a with compact := m' }, ?_, lift_unary ha (fun x => -x) hI⟩
  simp only [Band.neg, hm']; rfl

/-- `a * s` -/
theorem smul_spec {a : Band K} (ha : WFb a) (s : K) :
    ∃ c, Band.smul a s = .ok c ∧ WFb c ∧ SameShape c a ∧
      ∀ i j, inBand a i j → i < a.n → j < a.n → dense c i j = dense a i j * s := by
  obtain ⟨m', hm', hI⟩ := Mat.smul_spec ha.is s
  refine ⟨{ a with compact := m' }, ?_, lift_unary ha (fun x => x * s) hI⟩
  simp only [Band.smul, hm']; rfl

/-- `a + s` (every band entry) -/
theorem addS_spec {a : Band K} (ha : WFb a) (s : K) :
    ∃ c, Band.addS a s = .ok c ∧ WFb c ∧ SameShape c a ∧
      ∀ i j, inBand a i j → i < a.n → j < a.n → dense c i j = dense a i j + s := by
  obtain ⟨m', hm', hI⟩ := Mat.addS_spec ha.is s
  refine ⟨{ a with compact := m' }, ?_, lift_unary ha (fun x => x + s) hI⟩
  simp only [Band.addS, hm']; rfl

/-- `a - s` -/
theorem subS_spec {a : Band K} (ha : WFb a) (s : K) :
    ∃ c, Band.subS a s = .ok c ∧ WFb c ∧ SameShape c a ∧
      ∀ i j, inBand a i j → i < a.n → j < a.n → dense c i j = dense a i j - s := by
  obtain ⟨m', hm', hI⟩ := Mat.subS_spec ha.is s
  refine ⟨{ a with compact := m' }, ?_, lift_unary ha (fun x => x - s) hI⟩
  simp only [Band.subS, hm']; rfl

/-- `a / s`, provided the scalar division succeeds on every compact slot (the loop also divides
    the padding slots; `q` is the value of the division) -/
theorem sdiv_spec {a : Band K} (ha : WFb a) (s : K) (q : K → K)
    (hq : ∀ i j, i < a.n → j < a.m1 + a.m2 + 1 →
      ScalarExt.divM (Mat.entryOf a.compact i j) s = .ok (q (Mat.entryOf a.compact i j))) :
    ∃ c, Band.sdiv a s = .ok c ∧ WFb c ∧ SameShape c a ∧
      ∀ i j, inBand a i j → i < a.n → j < a.n → dense c i j = q (dense a i j) := by
  obtain ⟨m', hm', hI⟩ := Mat.sdiv_spec ha.is s q hq
  refine ⟨{ a with compact := m' }, ?_, lift_unary ha q hI⟩
  simp only [Band.sdiv, hm']; rfl

/-- `fill_band(band, x)` for `-m1 ≤ band ≤ m2`: sets exactly the entries with `j - i = band` -/
theorem fillBand_spec {b : Band K} (h : WFb b) (band : Int) (x : K)
    (h1 : -(b.m1 : Int) ≤ band) (h2 : band ≤ (b.m2 : Int)) :
    ∃ b', Band.fillBand b band x = .ok b' ∧ WFb b' ∧ SameShape b' b ∧
      ∀ i j, inBand b i j → i < b.n → j < b.n →
        dense b' i j = if (j : Int) - (i : Int) = band then x else dense b i j := by
  have hg : ¬ (band < -(b.m1 : Int) ∨ band > (b.m2 : Int)) := by omega
  have hcol : ((b.m1 : Int) + band).toNat < b.m1 + b.m2 + 1 := by omega
  obtain ⟨m', hm', hI⟩ := Mat.fillCol_spec h.is hcol x
  refine ⟨{ b with compact := m' }, ?_, ⟨_, hI⟩, ⟨rfl, rfl, rfl⟩, ?_⟩
  · rw [Band.fillBand, if_neg hg, hm']; rfl
  · intro i j hb hi hj
    rw [dense_of_is (b := { b with compact := m' }) hI hb hi hj, dense_of_is h.is hb hi hj]
    have : (b.m1 + j - i = ((b.m1 : Int) + band).toNat) ↔ ((j : Int) - (i : Int) = band) := by
      unfold inBand at hb; omega
    simp only [this]

end Arith

/-! ### the product with a vector -/
section MulVec
variable [Add K] [Mul K] [Zero K]

/-- ordered row sum of the dense twin restricted to the band: columns
    `i - m1 ≤ j < min n (i + m2 + 1)` in increasing order, accumulated from `acc` -/
def rowFold (b : Band K) (v : Array K) (i : Nat) (acc : K) (len : Nat) : K :=
  (List.range' (i - b.m1) len).foldl (fun acc j => acc + dense b i j * v[j]?.getD 0) acc

/-- number of in-band, in-matrix columns of row `i` -/
def rowLen (b : Band K) (i : Nat) : Nat := min b.n (i + b.m2 + 1) - (i - b.m1)

/-- the inner loop of the product for row `i` (compact columns `lo .. hi`) -/
theorem row_loop {b : Band K} (h : WFb b) (v res : Array K) (hv : v.size = b.n)
    (hres : res.size = b.n) {i : Nat} (hi : i < b.n) (LO HI : Nat) (k : Int)
    (hk : k = (i : Int) - (b.m1 : Int)) (hLO : LO = b.m1 - i)
    (hHI : HI = min (b.m1 + b.m2 + 1) (b.n + b.m1 - i)) (r0 : K) (hr0 : res[i]? = some r0) :
    ∃ res', forM' LO HI res (fun res j => do
        let a ← b.compact.get i j
        let x ← aget v ((j : Int) + k).toNat
        let r ← aget res i
        aset res i (r + a * x)) = .ok res' ∧ res'.size = b.n ∧
      (∀ a, a ≠ i → res'[a]? = res[a]?) ∧
      res'[i]? = some (rowFold b v i r0 (rowLen b i)) := by
  have hle : LO ≤ HI := by omega
  obtain ⟨res', h1, h2, h3, h4⟩ := forM'_inv
    (fun t (r : Array K) => r.size = b.n ∧ (∀ a, a ≠ i → r[a]? = res[a]?) ∧
      r[i]? = some (rowFold b v i r0 (t - LO)))
    LO HI res (fun res j => do
        let a ← b.compact.get i j
        let x ← aget v ((j : Int) + k).toNat
        let r ← aget res i
        aset res i (r + a * x)) hle
    ⟨hres, fun _ _ => rfl, by simpa [rowFold] using hr0⟩ (by
      intro t r ht1 ht2 ⟨hsz, hfr, hri⟩
      have hti : i < r.size := by omega
      have hjv : ((t : Int) + k).toNat = t + i - b.m1 := by omega
      have hj' : t + i - b.m1 < v.size := by omega
      have hib : inBand b i (t + i - b.m1) := by unfold inBand; omega
      have hcol : b.m1 + (t + i - b.m1) - i = t := by omega
      have hget : b.compact.get i t = .ok (dense b i (t + i - b.m1)) := by
        rw [dense_of_is h.is hib hi (by omega), hcol]
        exact h.is.get hi (by omega)
      have hrv : r[i] = rowFold b v i r0 (t - LO) := by
        have : r[i]? = some r[i] := by simp [hti]
        rw [this] at hri; exact Option.some.inj hri
      refine ⟨r.setIfInBounds i (r[i] + dense b i (t + i - b.m1) * v[t + i - b.m1]), ?_, ?_, ?_, ?_⟩
      · simp only [hget, hjv, Mat.aget_ok hj', Mat.aget_ok hti, Mat.aset_ok _ hti, bind,
          Except.bind]
      · simpa using hsz
      · intro a ha
        rw [Array.getElem?_setIfInBounds, if_neg (fun e => ha e.symm)]
        exact hfr a ha
      · have e1 : t + 1 - LO = (t - LO) + 1 := by omega
        have e2 : i - b.m1 + (t - LO) = t + i - b.m1 := by omega
        rw [Array.getElem?_setIfInBounds, if_pos rfl, if_pos hti, e1, hrv]
        simp only [rowFold, range'_snoc, List.foldl_append, List.foldl_cons, List.foldl_nil, e2]
        simp [hj'])
  refine ⟨res', h1, h2, h3, ?_⟩
  have : HI - LO = rowLen b i := by unfold rowLen; omega
  rw [← this]; exact h4

/-- (S) **the band-limited loop as an ordered sum over the dense row.**  For every well-formed
    banded matrix (any `(n, m1, m2)`: `m1, m2 ≥ n - 1`, `n = 1`, `n = 0` included) and every vector
    of length `n` the product succeeds, has length `n`, and component `i` is the sum of
    `dense b i j * v[j]` over the in-band, in-matrix columns `j` in increasing order. -/
theorem mulVec_ordered {b : Band K} (h : WFb b) (v : Array K) (hv : v.size = b.n) :
    ∃ w, Band.mulVec b v = .ok w ∧ w.size = b.n ∧
      ∀ i, i < b.n → w[i]? = some (rowFold b v i 0 (rowLen b i)) := by
  have hg : ¬ b.n ≠ v.size := by omega
  rw [Band.mulVec, if_neg hg]
  obtain ⟨w, h1, h2, h3, _⟩ := forM'_inv
    (fun t (r : Array K) => r.size = b.n ∧
      (∀ i, i < t → r[i]? = some (rowFold b v i 0 (rowLen b i))) ∧
      (∀ i, t ≤ i → i < b.n → r[i]? = some 0))
    0 b.n (Array.replicate b.n (0 : K))
    (fun res i =>
      forM' (max 0 (-((i : Int) - (b.m1 : Int)))).toNat
        (min ((b.m1 : Int) + (b.m2 : Int) + 1) ((b.n : Int) - ((i : Int) - (b.m1 : Int)))).toNat res
        (fun res j => do
          let a ← b.compact.get i j
          let x ← aget v ((j : Int) + ((i : Int) - (b.m1 : Int))).toNat
          let r ← aget res i
          aset res i (r + a * x)))
    (Nat.zero_le _)
    ⟨by simp, fun _ hi => by omega, fun i _ hi => by simp [hi]⟩ (by
      intro t r _ ht ⟨hsz, hdone, htodo⟩
      obtain ⟨r', g1, g2, g3, g4⟩ := row_loop h v r hv hsz ht
        (max 0 (-((t : Int) - (b.m1 : Int)))).toNat
        (min ((b.m1 : Int) + (b.m2 : Int) + 1) ((b.n : Int) - ((t : Int) - (b.m1 : Int)))).toNat
        ((t : Int) - (b.m1 : Int)) rfl
        (by omega) (by omega) 0 (htodo t (Nat.le_refl _) ht)
      refine ⟨r', g1, g2, ?_, ?_⟩
      · intro i hi
        by_cases hit : i = t
        · subst hit; exact g4
        · rw [g3 i hit]; exact hdone i (by omega)
      · intro i hi1 hi2
        rw [g3 i (by omega)]; exact htodo i (by omega) hi2)
  exact ⟨w, h1, h2, fun i hi => h3 i hi⟩

/-- (S) **padding slots are never read**: two banded matrices of the same shape whose dense
    twins agree on all in-band, in-matrix slots give the same product -/
theorem mulVec_padding {a b : Band K} (ha : WFb a) (hb : WFb b) (hs : SameShape a b)
    (hag : ∀ i j, inBand a i j → i < a.n → j < a.n → dense a i j = dense b i j) (v : Array K) :
    Band.mulVec a v = Band.mulVec b v := by
  obtain ⟨s1, s2, s3⟩ := hs
  by_cases hv : v.size = a.n
  · obtain ⟨w, hw, hwn, hwe⟩ := mulVec_ordered ha v hv
    obtain ⟨w', hw', hwn', hwe'⟩ := mulVec_ordered hb v (by omega)
    rw [hw, hw']
    congr 1
    apply Array.ext_getElem?
    intro i
    by_cases hi : i < a.n
    · rw [hwe i hi, hwe' i (by omega)]
      congr 1
      have hl : rowLen a i = rowLen b i := by unfold rowLen; rw [s1, s2, s3]
      rw [← hl]
      unfold rowFold
      rw [← s2]
      apply foldl_congr_mem
      intro j hj acc
      rw [List.mem_range'_1] at hj
      rw [hag i j (by unfold inBand; unfold rowLen at hj; omega) hi (by unfold rowLen at hj; omega)]
    · have e1 : w[i]? = none := by simp; omega
      have e2 : w'[i]? = none := by simp; omega
      rw [e1, e2]
  · have h1 : a.n ≠ v.size := fun e => hv e.symm
    have h2 : b.n ≠ v.size := by omega
    rw [Band.mulVec, if_pos h1, Band.mulVec, if_pos h2]

end MulVec

/-! ### the product over a commutative semiring: the dense product -/
section MulVecE
variable [CommSemiring K]

theorem foldl_add_eq_sum (f : Nat → K) (s : Nat) : ∀ (len : Nat) (a : K),
    (List.range' s len).foldl (fun acc j => acc + f j) a = a + ∑ j ∈ Finset.Ico s (s + len), f j
  | 0, a => by simp
  | len + 1, a => by
    rw [range'_snoc, List.foldl_append, foldl_add_eq_sum f s len a]
    have : s + (len + 1) = (s + len) + 1 := by omega
    rw [this, Finset.sum_Ico_succ_top (by omega)]
    simp [add_assoc]

/-- the ordered band-limited row sum equals the full dense row sum -/
theorem rowFold_eq_sum (b : Band K) (v : Array K) {i : Nat} (hi : i < b.n) :
    rowFold b v i 0 (rowLen b i) = ∑ j ∈ Finset.range b.n, dense b i j * v[j]?.getD 0 := by
  rw [rowFold, foldl_add_eq_sum (fun j => dense b i j * v[j]?.getD 0), zero_add]
  apply Finset.sum_subset
  · intro j hj
    rw [Finset.mem_Ico] at hj
    rw [Finset.mem_range]
    unfold rowLen at hj; omega
  · intro j hj hnj
    rw [Finset.mem_range] at hj
    rw [Finset.mem_Ico] at hnj
    rw [dense_out, zero_mul]
    unfold inBand rowLen at *; omega

/-- (E) **the band-limited loop equals the dense product**: for a well-formed banded matrix and a
    vector of length `n`, `mulVec` succeeds, the result has length `n`, and
    `w[i] = Σ_{j<n} dense b i j * v[j]` — for every `(n, m1, m2)`. -/
theorem mulVec_spec {b : Band K} (h : WFb b) (v : Array K) (hv : v.size = b.n) :
    ∃ w, Band.mulVec b v = .ok w ∧ w.size = b.n ∧
      ∀ i, i < b.n → w[i]?.getD 0 = ∑ j ∈ Finset.range b.n, dense b i j * v[j]?.getD 0 := by
  obtain ⟨w, hw, hwn, hwe⟩ := mulVec_ordered h v hv
  refine ⟨w, hw, hwn, ?_⟩
  intro i hi
  rw [hwe i hi, Option.getD_some, rowFold_eq_sum b v hi]

end MulVecE

/-! ### `decompose`, first phase: the left shift of the first `m1` rows -/
section Shift
variable [Zero K]

/-- the compact matrix after the first phase of `decompose`: row `i < m1` is shifted left by
    `m1 - i` and zero-filled on the right; the other rows are unchanged -/
def shifted (m1 m2 : Nat) (c : Nat → Nat → K) (i j : Nat) : K :=
  if i < m1 then (if j + (m1 - i) < m1 + m2 + 1 then c i (j + (m1 - i)) else 0) else c i j

theorem shift_copy {au : Mat K} {n mm : Nat} {e : Nat → Nat → K} (h : Is au n mm e)
    {i l : Nat} (hi : i < n) (hl : l ≤ mm) :
    ∃ au', forM' l mm au (fun au j => do
        let x ← au.get i j
        let c ← usub j l
        au.set i c x) = .ok au' ∧
      Is au' n mm (fun a b => if a = i ∧ b + l < mm then e a (b + l) else e a b) := by
  refine forM'_inv
    (fun t (s : Mat K) => Is s n mm (fun a b => if a = i ∧ b + l < t then e a (b + l) else e a b))
    l mm au _ hl (h.congr (fun a b _ _ => by ifs_omega)) ?_
  intro t s ht1 ht2 hs
  have g := hs.get hi ht2
  have hc : ¬ (i = i ∧ t + l < t) := by omega
  rw [if_neg hc] at g
  obtain ⟨s', hs', hI⟩ := hs.set hi (show t - l < mm by omega) (e i t)
  refine ⟨s', by simp only [g, usub_ok ht1, bind, Except.bind]; exact hs', hI.congr ?_⟩
  intro a b _ _
  ifs_omega

theorem shift_fill {au : Mat K} {n mm : Nat} {e : Nat → Nat → K} (h : Is au n mm e)
    {i lo : Nat} (hi : i < n) (hl : lo ≤ mm) :
    ∃ au', forM' lo mm au (fun au j => au.set i j 0) = .ok au' ∧
      Is au' n mm (fun a b => if a = i ∧ lo ≤ b then 0 else e a b) := by
  obtain ⟨au', h1, h2⟩ := forM'_inv
    (fun t (s : Mat K) => Is s n mm (fun a b => if a = i ∧ lo ≤ b ∧ b < t then 0 else e a b))
    lo mm au (fun au j => au.set i j 0) hl (h.congr (fun a b _ _ => by ifs_omega)) (by
    intro t s ht1 ht2 hs
    obtain ⟨s', hs', hI⟩ := hs.set hi ht2 (0 : K)
    exact ⟨s', hs', hI.congr (fun a b _ _ => by ifs_omega)⟩)
  exact ⟨au', h1, h2.congr (fun a b _ hb => by ifs_omega)⟩

/-- (S) **first phase of `decompose`** (`m1 ≤ n`): succeeds, keeps the shape, row `i < m1` is
    shifted left by `m1 - i` and zero-filled on the right, every other row is unchanged -/
theorem shiftRows_spec {au : Mat K} {n m1 m2 : Nat} {c : Nat → Nat → K}
    (h : Is au n (m1 + m2 + 1) c) (hm : m1 ≤ n) :
    ∃ au', shiftRows m1 m2 au = .ok au' ∧ Is au' n (m1 + m2 + 1) (shifted m1 m2 c) := by
  unfold shiftRows
  refine bind_ok_of (fun s => s.2 = m1 - m1 ∧
    Is s.1 n (m1 + m2 + 1) (fun a b => if a < m1 then shifted m1 m2 c a b else c a b)) ?_ ?_
  · refine forM'_inv (fun i (s : Mat K × Nat) => s.2 = m1 - i ∧
      Is s.1 n (m1 + m2 + 1) (fun a b => if a < i then shifted m1 m2 c a b else c a b))
      0 m1 _ _ (Nat.zero_le _) ⟨rfl, h.congr (fun a b _ _ => by simp)⟩ ?_
    intro i s _ hi hs
    obtain ⟨au, l⟩ := s
    obtain ⟨hl, hI⟩ := hs
    simp only at hl hI
    subst hl
    obtain ⟨a1, g1, I1⟩ := shift_copy hI (i := i) (l := m1 - i) (by omega) (by omega)
    have u1 : usub (m1 - i) 1 = .ok (m1 - i - 1) := usub_ok (by omega)
    have u2 : usub (m1 + m2 + 1 - (m1 - i - 1)) 1 = .ok (m1 + m2 + 1 - (m1 - i)) := by
      rw [usub_ok (by omega)]; congr 1; omega
    obtain ⟨a2, g2, I2⟩ := shift_fill I1 (i := i) (lo := m1 + m2 + 1 - (m1 - i))
      (by omega) (by omega)
    refine ⟨(a2, m1 - i - 1), ?_, by simp; omega, ?_⟩
    · simp only [bind, Except.bind, pure, Except.pure] at g1 g2 ⊢
      simp only [g1, u1, u2, g2]
    · refine I2.congr ?_
      intro a b ha hb
      unfold shifted
      ifs_omega
  · intro s hs
    exact ⟨s.1, rfl, hs.2.congr (fun a b _ _ => by unfold shifted; ifs_omega)⟩

/-- without sub-diagonals the first phase does nothing -/
theorem shiftRows_m1_zero (m2 : Nat) (au : Mat K) : shiftRows 0 m2 au = .ok au := by
  simp [shiftRows, Mat.forM', pure, Except.pure, bind, Except.bind]

/-- the shifted compact matrix in terms of the dense twin: after the first phase slot `(i, t)`
    holds the matrix entry `(i, (i - m1) + t)` (row `i` starts at its first in-matrix column) -/
theorem shifted_dense {b : Band K} (h : WFb b) {i t : Nat} (hi : i < b.n)
    (ht : t + (b.m1 - i) < b.m1 + b.m2 + 1) (hn : (i - b.m1) + t < b.n) :
    shifted b.m1 b.m2 (Mat.entryOf b.compact) i t = dense b i ((i - b.m1) + t) := by
  have hib : inBand b i ((i - b.m1) + t) := by unfold inBand; omega
  rw [dense_of_is h.is hib hi hn]
  unfold shifted
  by_cases him : i < b.m1
  · rw [if_pos him, if_pos ht]; congr 1; omega
  · rw [if_neg him]; congr 1; omega

end Shift

/-! ### upper-banded storage (`m1 = 0`): `decompose` does nothing, `det` is the product of the
    diagonal, `solve` is back substitution -/
section Upper
variable [Sub K] [Mul K] [Neg K] [Zero K] [One K] [BEq K] [ScalarExt K]

/-- `decompose` overwrites a pivot that tests equal to zero by the literal zero -/
def fixZero (x : K) : K := if x == 0 then 0 else x

/-- one pivot step of `decompose` when the search window is empty (`l = k`, as for `m1 = 0`) -/
theorem decStep_upper {n mm : Nat} {c : Nat → Nat → K} (s : Dec K) {k : Nat} (hk : k < n) (hmm : 0 < mm)
    (hau : Is s.au n mm c) (hidx : s.index.size = n) :
    ∃ au', decStep n mm (s, k) k = .ok (⟨au', s.al, s.index.setIfInBounds k (k + 1), s.d⟩, k + 1) ∧
      Is au' n mm (fun a b => if a = k ∧ b = 0 then fixZero (c k 0) else c a b) := by
  have g0 := hau.get hk hmm
  have hl : (if k < n then k + 1 else k) = k + 1 := by rw [if_pos hk]
  unfold decStep
  simp only [g0, hl, Mat.forM'_empty _ _ _ _ (Nat.le_refl _), aset_ok _ (show k < s.index.size by omega), bind, Except.bind, pure, Except.pure]
  have hkk : ¬ (k ≠ k) := by simp
  by_cases hz : (c k 0 == 0) = true
  · obtain ⟨v, hv, hI⟩ := hau.set hk hmm (0 : K)
    refine ⟨v, ?_, hI.congr (fun a b _ _ => by simp [fixZero, hz])⟩
    simp only [if_pos hz, hv, if_neg hkk]
  · refine ⟨s.au, ?_, hau.congr (fun a b _ _ => ?_)⟩
    · simp only [if_neg hz, if_neg hkk]
    · by_cases hab : a = k ∧ b = 0
      · obtain ⟨rfl, rfl⟩ := hab
        simp [fixZero, hz]
      · simp only [if_neg hab]

/-- (S) **`decompose` for `m1 = 0`**: no row is exchanged (`index[k] = k + 1`, sign `d = 1`), nothing
    is eliminated (`al` is the empty `n × 0` matrix), and the upper factor is the compact storage
    itself, except that a diagonal slot that tests `== 0` is overwritten by the literal `0`. -/
theorem decompose_upper {b : Band K} (h : WFb b) (hm : b.m1 = 0) :
    ∃ s, decompose b = .ok s ∧
      Is s.au b.n (b.m1 + b.m2 + 1) (fun i j => if j = 0 then fixZero (Mat.entryOf b.compact i 0)
        else Mat.entryOf b.compact i j) ∧
      s.al = Mat.new b.n 0 (0 : K) ∧ s.index.size = b.n ∧ (∀ i, i < b.n → s.index[i]? = some (i + 1)) ∧
      s.d = 1 := by
  have hI := h.is
  obtain ⟨n, m1, m2, cm⟩ := b
  simp only at hm hI ⊢
  subst hm
  unfold decompose
  simp only [shiftRows_m1_zero, bind, Except.bind]
  obtain ⟨sl, hsl, hl, hau, hal, hsz, hix, hd⟩ := forM'_inv
    (fun k (s : Dec K × Nat) => s.2 = k ∧
      Is s.1.au n (0 + m2 + 1) (fun a b => if a < k ∧ b = 0 then fixZero (cm.entryOf a 0)
        else cm.entryOf a b) ∧
      s.1.al = Mat.new n 0 (0 : K) ∧ s.1.index.size = n ∧
      (∀ i, i < k → s.1.index[i]? = some (i + 1)) ∧ s.1.d = 1)
    0 n ((⟨cm, Mat.new n 0 0, Array.replicate n 0, 1⟩ : Dec K), 0) (decStep n (0 + m2 + 1))
    (Nat.zero_le _)
    ⟨rfl, hI.congr (fun a b _ _ => by simp), rfl, by simp, fun i hi => by omega, rfl⟩ (by
      intro k s _ hk ⟨hl, hau, hal, hsz, hix, hd⟩
      obtain ⟨s, l⟩ := s
      simp only at hl hau hal hsz hix hd
      subst hl
      obtain ⟨au', hstep, hI'⟩ := decStep_upper s hk (by omega) hau hsz
      refine ⟨_, hstep, rfl, hI'.congr (fun a b _ _ => by ifs_omega), hal, by simpa using hsz, ?_, hd⟩
      intro i hi
      simp only [Array.getElem?_setIfInBounds]
      by_cases hik : l = i
      · subst hik; simp [hsz, hk]
      · rw [if_neg hik]; exact hix i (by omega))
  refine ⟨sl.1, by rw [hsl]; rfl, hau.congr (fun a b ha _ => by simp [ha]), hal, hsz, hix, hd⟩

/-- (S) for `m1 = 0`, `det` is the ordered product of the (zero-fixed) diagonal -/
theorem det_upper_ordered {b : Band K} (h : WFb b) (hm : b.m1 = 0) :
    det b = .ok ((List.range' 0 b.n).foldl (fun dd i => dd * fixZero (dense b i i)) 1) := by
  obtain ⟨s, hs, hau, _, _, _, hd⟩ := decompose_upper h hm
  unfold det
  simp only [hs, bind, Except.bind, hd]
  obtain ⟨r, hr, hP⟩ := forM'_inv
    (fun k (dd : K) => dd = (List.range' 0 k).foldl (fun dd i => dd * fixZero (dense b i i)) 1)
    0 b.n (1 : K) (fun dd i => do
      let x ← s.au.get i 0
      pure (dd * x)) (Nat.zero_le _) (by simp) (by
      intro k dd _ hk hdd
      have g := hau.get hk (show 0 < b.m1 + b.m2 + 1 by omega)
      have hib : inBand b k k := by unfold inBand; omega
      have hde : dense b k k = Mat.entryOf b.compact k 0 := by
        rw [dense_of_is h.is hib hk hk]; congr 1; omega
      refine ⟨dd * fixZero (dense b k k), ?_, ?_⟩
      · simp only [g, if_true, hde, bind, Except.bind, pure, Except.pure]
      · rw [range'_snoc, List.foldl_append, ← hdd]; simp)
  rw [← hP]; exact hr

/-- the forward-substitution loop of `solve` does nothing when there are no sub-diagonals -/
theorem solve_upper_fwd {b : Band K} (rhs : Array K) (s : Dec K) (hsz : s.index.size = b.n)
    (hix : ∀ i, i < b.n → s.index[i]? = some (i + 1)) (hm : b.m1 = 0) (hr : rhs.size = b.n) :
    forM' 0 b.n (rhs, b.m1) (fun (x, l) k => do
      let ik ← aget s.index k
      let j ← usub ik 1
      let x ← if j ≠ k then Vec.swap x k j else pure x
      let l := if l < b.n then l + 1 else l
      let x ← forM' (k + 1) l x (fun x j => do
        let xk ← aget x k
        let a ← s.al.get k (j - k - 1)
        let xj ← aget x j
        aset x j (xj - a * xk))
      pure (x, l)) = .ok (rhs, b.n) := by
  suffices key : ∃ st, forM' 0 b.n (rhs, b.m1) (fun (x, l) k => do
      let ik ← aget s.index k
      let j ← usub ik 1
      let x ← if j ≠ k then Vec.swap x k j else pure x
      let l := if l < b.n then l + 1 else l
      let x ← forM' (k + 1) l x (fun x j => do
        let xk ← aget x k
        let a ← s.al.get k (j - k - 1)
        let xj ← aget x j
        aset x j (xj - a * xk))
      pure (x, l)) = .ok st ∧ st.1 = rhs ∧ st.2 = b.n by
    obtain ⟨⟨x, l⟩, h1, h2, h3⟩ := key
    simp only at h2 h3
    rw [h1, h2, h3]
  refine forM'_inv (fun k (st : Array K × Nat) => st.1 = rhs ∧ st.2 = k) 0 b.n (rhs, b.m1) _
    (Nat.zero_le _) ⟨rfl, hm⟩ ?_
  intro k st _ hk ⟨e1, e2⟩
  obtain ⟨x, l⟩ := st
  simp only at e1 e2
  subst e1 e2
  have g1 : aget s.index l = .ok (l + 1) := aget_eq_ok.mpr (hix l hk)
  have hkk : ¬ (l ≠ l) := by simp
  refine ⟨(x, l + 1), ?_, rfl, rfl⟩
  simp only [g1, usub_ok (show 1 ≤ l + 1 by omega), Nat.add_sub_cancel, if_neg hkk, if_pos hk,
    Mat.forM'_empty _ _ _ _ (Nat.le_refl _), bind, Except.bind, pure, Except.pure]

end Upper

section UpperLawful
variable [Zero K] [BEq K] [LawfulBEq K]

theorem fixZero_eq (x : K) : fixZero x = x := by
  unfold fixZero
  split
  · rename_i h; exact (beq_iff_eq.mp h).symm
  · rfl

end UpperLawful

/-- over a commutative semiring the dense row of an upper-banded matrix, written with the
    compact slots -/
theorem dense_row_upper {R : Type} [CommSemiring R] {b : Band R} (h : WFb b) (hm : b.m1 = 0)
    {i : Nat} (hi : i < b.n) (X : Nat → R) :
    ∑ j ∈ Finset.range b.n, dense b i j * X j =
      Mat.entryOf b.compact i 0 * X i +
        ∑ k ∈ Finset.Ico 1 (min (b.n - i) (b.m1 + b.m2 + 1)), Mat.entryOf b.compact i k * X (k + i) := by
  have hL : 0 < min (b.n - i) (b.m1 + b.m2 + 1) := by omega
  have e1 : ∑ j ∈ Finset.range b.n, dense b i j * X j =
      ∑ j ∈ Finset.Ico i (i + min (b.n - i) (b.m1 + b.m2 + 1)), dense b i j * X j := by
    symm
    apply Finset.sum_subset
    · intro j hj
      rw [Finset.mem_Ico] at hj
      rw [Finset.mem_range]; omega
    · intro j hj hnj
      rw [Finset.mem_range] at hj
      rw [Finset.mem_Ico] at hnj
      rw [dense_out, zero_mul]
      unfold inBand; omega
  have e2 : ∀ k, k < min (b.n - i) (b.m1 + b.m2 + 1) →
      dense b i (i + k) = Mat.entryOf b.compact i k := by
    intro k hk
    rw [dense_of_is h.is (by unfold inBand; omega) hi (by omega)]
    congr 1; omega
  rw [e1, Finset.sum_Ico_eq_sum_range, Nat.add_sub_cancel_left, Finset.range_eq_Ico,
    Finset.sum_eq_sum_Ico_succ_bot hL, Nat.add_zero]
  have e0 := e2 0 hL
  rw [Nat.add_zero] at e0
  rw [e0]
  congr 1
  apply Finset.sum_congr rfl
  intro k hk
  rw [Finset.mem_Ico] at hk
  rw [e2 k hk.2, Nat.add_comm i k]


section UpperDet
variable [CommRing K] [BEq K] [LawfulBEq K] [ScalarExt K]

theorem foldl_mul_eq_prod (f : Nat → K) : ∀ (n : Nat) (a : K),
    (List.range' 0 n).foldl (fun dd i => dd * f i) a = a * ∏ i ∈ Finset.range n, f i
  | 0, a => by simp
  | n + 1, a => by
    rw [range'_snoc, List.foldl_append, foldl_mul_eq_prod f n a, Finset.prod_range_succ]
    simp [mul_assoc]

/-- (E) for upper-banded storage the determinant is the product of the diagonal -/
theorem det_upper {b : Band K} (h : WFb b) (hm : b.m1 = 0) :
    det b = .ok (∏ i ∈ Finset.range b.n, dense b i i) := by
  rw [det_upper_ordered h hm]
  congr 1
  have : (fun (dd : K) i => dd * fixZero (dense b i i)) = (fun dd i => dd * dense b i i) := by
    funext dd i; rw [fixZero_eq]
  rw [this, foldl_mul_eq_prod, one_mul]

end UpperDet

section UpperE
variable {F : Type} [Field F] [LinearOrder F]
attribute [local instance] Ohsl.Alg.scalarExt

/-- the inner loop of the back substitution -/
theorem back_dum {au : Mat F} {n mm : Nat} {e : Nat → Nat → F} (hau : Is au n mm e) (x : Array F)
    (hx : x.size = n) {i l : Nat} (hi : i < n) (hl1 : 1 ≤ l) (hl : l ≤ mm) (hli : i + l ≤ n) (xi : F) :
    forM' 1 l xi (fun dum k => do
        let a ← au.get i k
        let xk ← aget x (k + i)
        pure (dum - a * xk)) = .ok (xi - ∑ k ∈ Finset.Ico 1 l, e i k * x[k + i]?.getD 0) := by
  obtain ⟨r, h1, h2⟩ := forM'_inv
    (fun t (d : F) => d = xi - ∑ k ∈ Finset.Ico 1 t, e i k * x[k + i]?.getD 0)
    1 l xi (fun dum k => do
        let a ← au.get i k
        let xk ← aget x (k + i)
        pure (dum - a * xk)) hl1 (by simp) (by
      intro t d ht1 ht2 hd
      have hlt : t + i < x.size := by omega
      refine ⟨d - e i t * x[t + i], ?_, ?_⟩
      · simp only [hau.get hi (show t < mm by omega), aget_ok hlt, bind, Except.bind, pure,
          Except.pure]
      · rw [Finset.sum_Ico_succ_top ht1, hd]
        have : x[t + i]?.getD 0 = x[t + i] := by simp [hlt]
        rw [this]; ring)
  rw [h1, h2]

theorem solve_sound_upper {b : Band F} (h : WFb b) (hm : b.m1 = 0) {rhs x : Array F}
    (hs : solve b rhs = .ok x) :
    x.size = b.n ∧ ∀ i, i < b.n →
      ∑ j ∈ Finset.range b.n, dense b i j * x[j]?.getD 0 = rhs[i]?.getD 0 := by
  obtain ⟨s, hdec, hau, _, hsz, hix, _⟩ := decompose_upper h hm
  unfold solve at hs
  by_cases hn : b.n ≠ rhs.size
  · rw [if_pos hn] at hs; cases hs
  rw [if_neg hn] at hs
  have hr : rhs.size = b.n := by omega
  obtain ⟨s', hs1, hs⟩ := bind_eq_ok hs
  rw [hdec] at hs1
  injection hs1 with hs1
  subst hs1
  obtain ⟨st, hs2, hs⟩ := bind_eq_ok hs
  rw [solve_upper_fwd rhs s hsz hix hm hr] at hs2
  injection hs2 with hs2
  subst hs2
  simp only at hs
  obtain ⟨st, hs3, hs⟩ := bind_eq_ok hs
  injection hs with hs
  subst hs
  -- the entry function of the upper factor
  have he : ∀ a k, (if k = 0 then fixZero (b.compact.entryOf a 0) else b.compact.entryOf a k)
      = b.compact.entryOf a k := by
    intro a k; split
    · rename_i hk; rw [hk, fixZero_eq]
    · rfl
  have hau' : Is s.au b.n (b.m1 + b.m2 + 1) (Mat.entryOf b.compact) :=
    hau.congr (fun a k _ _ => he a k)
  have hQ := foldlM_rev_ok_inv
    (fun j (st : Array F × Nat) => st.1.size = b.n ∧ st.2 = min (b.n - j + 1) (b.m1 + b.m2 + 1) ∧
      (∀ a, a < j → st.1[a]? = rhs[a]?) ∧
      ∀ a, j ≤ a → a < b.n →
        Mat.entryOf b.compact a 0 * st.1[a]?.getD 0 +
          ∑ k ∈ Finset.Ico 1 (min (b.n - a) (b.m1 + b.m2 + 1)),
            Mat.entryOf b.compact a k * st.1[k + a]?.getD 0 = rhs[a]?.getD 0)
    _ b.n (rhs, 1) st ⟨hr, by simp, fun _ _ => rfl, fun a h1 h2 => by omega⟩ (by
      intro i st s1 hi ⟨q1, q2, q3, q4⟩ hf
      obtain ⟨x, l⟩ := st
      simp only at q1 q2 q3 q4 hf
      have hix : i < x.size := by omega
      have hl : l = min (b.n - i) (b.m1 + b.m2 + 1) := by omega
      have hdum := back_dum hau' x q1 hi (l := l) (by omega) (by omega) (by omega) x[i]
      have hp := hau'.get hi (show 0 < b.m1 + b.m2 + 1 by omega)
      simp only [bind, Except.bind, pure, Except.pure] at hdum hf
      simp only [aget_ok hix, hdum, hp, Alg.divM_eq] at hf
      by_cases hp0 : Mat.entryOf b.compact i 0 = 0
      · simp [hp0] at hf
      · simp only [hp0, if_false, aset_ok _ hix] at hf
        injection hf with hf
        subst hf
        refine ⟨by simpa using q1, by simp only; split <;> omega, ?_, ?_⟩
        · intro a ha
          simp only [Array.getElem?_setIfInBounds]
          rw [if_neg (by omega)]
          exact q3 a (by omega)
        · intro a ha1 ha2
          simp only [Array.getElem?_setIfInBounds]
          by_cases hai : a = i
          · subst hai
            have hxa : x[a]? = rhs[a]? := q3 a (by omega)
            have e1 : x[a] = rhs[a]?.getD 0 := by
              rw [← hxa]; simp [hix]
            have e2 : ∀ k ∈ Finset.Ico 1 (min (b.n - a) (b.m1 + b.m2 + 1)),
                Mat.entryOf b.compact a k * (if a = k + a then
                  (if a < x.size then some ((x[a] - ∑ k ∈ Finset.Ico 1 l,
                    Mat.entryOf b.compact a k * x[k + a]?.getD 0) / Mat.entryOf b.compact a 0)
                  else none) else x[k + a]?).getD 0
                = Mat.entryOf b.compact a k * x[k + a]?.getD 0 := by
              intro k hk
              rw [Finset.mem_Ico] at hk
              rw [if_neg (by omega)]
            rw [Finset.sum_congr rfl e2, if_pos rfl, if_pos hix, Option.getD_some, hl, e1]
            field_simp
            ring
          · have e2 : ∀ k ∈ Finset.Ico 1 (min (b.n - a) (b.m1 + b.m2 + 1)),
                Mat.entryOf b.compact a k * (if i = k + a then
                  (if i < x.size then some ((x[i] - ∑ k ∈ Finset.Ico 1 l,
                    Mat.entryOf b.compact i k * x[k + i]?.getD 0) / Mat.entryOf b.compact i 0)
                  else none) else x[k + a]?).getD 0
                = Mat.entryOf b.compact a k * x[k + a]?.getD 0 := by
              intro k hk
              rw [if_neg (by omega)]
            rw [Finset.sum_congr rfl e2, if_neg (fun e => hai e.symm)]
            exact q4 a (by omega) ha2) hs3
  obtain ⟨q1, _, _, q4⟩ := hQ
  refine ⟨q1, ?_⟩
  intro i hi
  rw [← q4 i (Nat.zero_le _) hi]
  exact dense_row_upper h hm hi (fun j => st.1[j]?.getD 0)
/-- (E) for upper-banded storage with a nowhere-zero diagonal `solve` succeeds (so the hypothesis
    of `solve_sound_upper` is satisfiable for every such matrix and right-hand side) -/
theorem solve_upper_complete {b : Band F} (h : WFb b) (hm : b.m1 = 0) {rhs : Array F}
    (hr : rhs.size = b.n) (hd : ∀ i, i < b.n → dense b i i ≠ 0) :
    ∃ x, solve b rhs = .ok x ∧ x.size = b.n := by
  obtain ⟨s, hdec, hau, _, hsz, hix, _⟩ := decompose_upper h hm
  have he : ∀ a k, (if k = 0 then fixZero (b.compact.entryOf a 0) else b.compact.entryOf a k)
      = b.compact.entryOf a k := by
    intro a k; split
    · rename_i hk; rw [hk, fixZero_eq]
    · rfl
  have hau' : Is s.au b.n (b.m1 + b.m2 + 1) (Mat.entryOf b.compact) :=
    hau.congr (fun a k _ _ => he a k)
  have hn : ¬ b.n ≠ rhs.size := by omega
  unfold solve
  rw [if_neg hn]
  refine bind_ok_of (fun s' => s' = s) ⟨s, hdec, rfl⟩ ?_
  intro s' hs'
  subst hs'
  refine bind_ok_of (fun st => st = (rhs, b.n)) ⟨_, solve_upper_fwd rhs s' hsz hix hm hr, rfl⟩ ?_
  intro st hst
  subst hst
  simp only
  refine bind_ok_of (fun st => st.1.size = b.n ∧ st.2 = min (b.n - 0 + 1) (b.m1 + b.m2 + 1)) ?_
    (fun st hst => ⟨st.1, rfl, hst.1⟩)
  refine foldlM_rev_inv
    (fun j (st : Array F × Nat) => st.1.size = b.n ∧ st.2 = min (b.n - j + 1) (b.m1 + b.m2 + 1))
    _ b.n (rhs, 1) ⟨hr, by simp⟩ ?_
  intro i st hi ⟨q1, q2⟩
  obtain ⟨x, l⟩ := st
  simp only at q1 q2 ⊢
  have hix : i < x.size := by omega
  have hdum := back_dum hau' x q1 hi (l := l) (by omega) (by omega) (by omega) x[i]
  have hp := hau'.get hi (show 0 < b.m1 + b.m2 + 1 by omega)
  have hp0 : Mat.entryOf b.compact i 0 ≠ 0 := by
    have := hd i hi
    rwa [dense_of_is h.is (by unfold inBand; omega) hi hi, show b.m1 + i - i = 0 by omega] at this
  simp only [bind, Except.bind, pure, Except.pure] at hdum ⊢
  simp only [aget_ok hix, hdum, hp, Alg.divM_eq, if_neg hp0, aset_ok _ hix]
  refine ⟨_, rfl, by simpa using q1, by simp only; split <;> omega⟩

end UpperE

end Band
end Ohsl
