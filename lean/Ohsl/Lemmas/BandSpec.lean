/-
  Ohsl.Lemmas.BandSpec — pointwise specifications of the banded-matrix model
  (`Ohsl/Model/Banded.lean`) against its *dense twin*.

  * `WFb b`       the compact storage is a well-formed `n × (m1+m2+1)` matrix
  * `dense b i j` the dense twin: the compact slot `(i, m1 + j - i)` for in-band, in-matrix
                  `(i,j)`, zero elsewhere
  * (S) `get_spec`, `set_spec`, arithmetic (`add_spec`, …), `fillBand_spec`
  * (S) `mulVec_ordered` : the band-limited loop as an ordered sum over the dense row,
        `mulVec_padding` : padding slots are never read
  * (E) `mulVec_spec`    : the loop equals the dense product `Σ_{j<n} dense b i j * v[j]`
  * (S) `shiftRows_spec` / `shiftRows_rejects` (first phase of `decompose`), and the upper-banded
        case `m1 = 0` of `decompose` / `det` / `solve`
  * (E) section `FullLU`: functional description of `decElim` / `decStep`, the dense twin `twin` of
        the compact working matrix, the replay `fwd` of the recorded exchanges and multipliers,
        the invariant `DecInv` of the pivot loop, both substitution loops, and
        `solve_sound` (every returned vector solves the dense system, any `(n, m1, m2)`),
        `solve_complete` (non-zero computed determinant ⇒ `solve` succeeds)
  * (S) section `Padding`: relational (`RelRes`) lock-step simulation of two runs:
        `decompose_rel`, `det_padding`, `solve_padding`
-/
import Ohsl.Model.Banded
import Ohsl.Lemmas.MatSpec2
import Ohsl.Lemmas.Alg
import Mathlib.Algebra.BigOperators.Group.Finset.Basic
import Mathlib.Algebra.BigOperators.Ring.Finset
import Mathlib.Algebra.BigOperators.Intervals
import Mathlib.Tactic.Ring
import Mathlib.Tactic.FieldSimp
import Mathlib.Tactic.LinearCombination
set_option linter.unusedSectionVars false
set_option linter.unusedVariables false
set_option linter.unusedSimpArgs false
namespace Ohsl

/-! ### small list / loop facts -/

theorem foldl_congr_mem {α β : Type} (f g : β → α → β) :
    ∀ (l : List α) (a : β), (∀ x ∈ l, ∀ acc, f acc x = g acc x) → l.foldl f a = l.foldl g a
  | [], _, _ => rfl
  | x :: l, a, h => by
    simp only [List.foldl_cons]
    rw [h x (by simp) a]
    exact foldl_congr_mem f g l _ (fun y hy acc => h y (by simp [hy]) acc)

theorem range'_snoc (s n : Nat) : List.range' s (n + 1) = List.range' s n ++ [s + n] := by
  simpa using List.range'_concat (s := s) (n := n) (step := 1)

theorem bind_ok_of {α β : Type} {x : Res α} {g : α → Res β} {Q : β → Prop} (P : α → Prop)
    (hx : ∃ a, x = .ok a ∧ P a) (hg : ∀ a, P a → ∃ b, g a = .ok b ∧ Q b) :
    ∃ b, (x >>= g) = .ok b ∧ Q b := by
  obtain ⟨a, h1, h2⟩ := hx
  rw [h1]; exact hg a h2

theorem foldlM_range'_error_at {σ : Type} (P : Nat → σ → Prop) (f : σ → Nat → Res σ) (e : Err) (r : Nat) :
    ∀ (d lo : Nat) (s : σ), P lo s →
      (∀ i s, lo ≤ i → i < lo + d → P i s → ∃ s', f s i = .ok s' ∧ P (i + 1) s') →
      (∀ s, P (lo + d) s → f s (lo + d) = .error e) →
      (List.range' lo (d + 1 + r)).foldlM f s = .error e
  | 0, lo, s, h0, _, hf => by
    have := hf s (by simpa using h0)
    rw [show 0 + 1 + r = r + 1 by omega]
    simp only [List.range', List.foldlM_cons, bind, Except.bind]
    simp at this
    rw [this]
  | d + 1, lo, s, h0, hstep, hf => by
    obtain ⟨s1, h1, p1⟩ := hstep lo s (Nat.le_refl _) (by omega) h0
    rw [show d + 1 + 1 + r = (d + 1 + r) + 1 by omega]
    simp only [List.range', List.foldlM_cons, h1, bind, Except.bind]
    exact foldlM_range'_error_at P f e r d (lo + 1) s1 p1
      (fun i s hi1 hi2 hp => hstep i s (by omega) (by omega) hp)
      (fun s hp => by
        have e1 : lo + 1 + d = lo + (d + 1) := by omega
        rw [e1] at hp ⊢; exact hf s hp)

/-- a loop whose iterations `lo .. mid-1` succeed (invariant `P`) and whose iteration `mid < hi`
    fails, fails with that error -/
theorem Mat.forM'_error_at {σ : Type} (P : Nat → σ → Prop) (lo mid hi : Nat) (s : σ)
    (f : σ → Nat → Res σ) (e : Err) (h1 : lo ≤ mid) (h2 : mid < hi) (h0 : P lo s)
    (hstep : ∀ i s, lo ≤ i → i < mid → P i s → ∃ s', f s i = .ok s' ∧ P (i + 1) s')
    (hfail : ∀ s, P mid s → f s mid = .error e) : Mat.forM' lo hi s f = .error e := by
  unfold Mat.forM'
  have e1 : hi - lo = (mid - lo) + 1 + (hi - mid - 1) := by omega
  rw [e1]
  apply foldlM_range'_error_at P f e _ (mid - lo) lo s h0
  · intro i s hi1 hi2 hp; exact hstep i s hi1 (by omega) hp
  · intro s hp
    have e2 : lo + (mid - lo) = mid := by omega
    rw [e2] at hp ⊢; exact hfail s hp
theorem bind_error {α β : Type} {x : Res α} {g : α → Res β} {e : Err} (h : x = .error e) :
    (x >>= g) = .error e := by rw [h]; rfl

theorem usub_ok {a b : Nat} (h : b ≤ a) : usub a b = .ok (a - b) := by simp [usub, h]

theorem bind_eq_ok {α β : Type} {x : Res α} {g : α → Res β} {y : β} (h : (x >>= g) = .ok y) :
    ∃ a, x = .ok a ∧ g a = .ok y := by
  cases x with
  | error e => simp [bind, Except.bind] at h
  | ok a => exact ⟨a, rfl, h⟩

/-- partial-correctness rule for the descending loop `for j in (0..m).rev()` -/
theorem foldlM_rev_ok_inv {σ : Type} (Q : Nat → σ → Prop) (f : σ → Nat → Res σ) :
    ∀ (m : Nat) (s s' : σ), Q m s →
      (∀ j s s1, j < m → Q (j + 1) s → f s j = .ok s1 → Q j s1) →
      (List.range m).reverse.foldlM f s = .ok s' → Q 0 s'
  | 0, s, s', h0, _, h => by
    simp [pure, Except.pure] at h
    subst h; exact h0
  | m + 1, s, s', h0, hstep, h => by
    rw [List.range_succ, List.reverse_append] at h
    simp only [List.reverse_cons, List.reverse_nil, List.nil_append, List.cons_append,
      List.foldlM_cons, bind, Except.bind] at h
    cases h1 : f s m with
    | error e => rw [h1] at h; simp at h
    | ok s1 =>
      rw [h1] at h
      exact foldlM_rev_ok_inv Q f m s1 s' (hstep m s s1 (by omega) h0 h1)
        (fun j s s2 hj hq hf => hstep j s s2 (by omega) hq hf) h

/-- total-correctness rule for the descending loop `for j in (0..m).rev()` -/
theorem foldlM_rev_inv {σ : Type} (Q : Nat → σ → Prop) (f : σ → Nat → Res σ) :
    ∀ (m : Nat) (s : σ), Q m s →
      (∀ j s, j < m → Q (j + 1) s → ∃ s', f s j = .ok s' ∧ Q j s') →
      ∃ s', (List.range m).reverse.foldlM f s = .ok s' ∧ Q 0 s'
  | 0, s, h0, _ => ⟨s, by simp [pure, Except.pure], h0⟩
  | m + 1, s, h0, hstep => by
    obtain ⟨s1, h1, q1⟩ := hstep m s (by omega) h0
    obtain ⟨s', h2, q2⟩ := foldlM_rev_inv Q f m s1 q1
      (fun j s hj hq => hstep j s (by omega) hq)
    refine ⟨s', ?_, q2⟩
    rw [List.range_succ, List.reverse_append]
    simp only [List.reverse_cons, List.reverse_nil, List.nil_append, List.cons_append,
      List.foldlM_cons, h1, bind, Except.bind]
    exact h2

/-! ### relational reasoning on `Res` (two runs in lock-step) -/

/-- both computations succeed with related values, or both panic with the same class -/
def RelRes {α β : Type} (R : α → β → Prop) : Res α → Res β → Prop
  | .ok a, .ok b => R a b
  | .error e, .error e' => e = e'
  | _, _ => False

theorem RelRes.ok {α β : Type} {R : α → β → Prop} {a : α} {b : β} (h : R a b) :
    RelRes R (.ok a) (.ok b) := h

theorem RelRes.err {α β : Type} {R : α → β → Prop} (e : Err) :
    RelRes R (.error e : Res α) (.error e : Res β) := rfl

theorem RelRes.bind {α β γ δ : Type} {R : α → β → Prop} {Q : γ → δ → Prop} {x : Res α}
    {y : Res β} {f : α → Res γ} {g : β → Res δ} (h : RelRes R x y)
    (hfg : ∀ a b, R a b → RelRes Q (f a) (g b)) : RelRes Q (x >>= f) (y >>= g) := by
  cases x with
  | error e =>
    cases y with
    | error e' => exact h
    | ok b => exact h.elim
  | ok a =>
    cases y with
    | error e' => exact h.elim
    | ok b => exact hfg a b h

theorem RelRes.mono {α β : Type} {R Q : α → β → Prop} {x : Res α} {y : Res β} (h : RelRes R x y)
    (hRQ : ∀ a b, R a b → Q a b) : RelRes Q x y := by
  cases x <;> cases y <;> first | exact h | exact hRQ _ _ h

theorem RelRes.eq {α : Type} {x y : Res α} (h : RelRes (· = ·) x y) : x = y := by
  cases x <;> cases y
  · exact congrArg _ h
  · exact h.elim
  · exact h.elim
  · exact congrArg _ h

theorem RelRes.refl {α : Type} (x : Res α) : RelRes (· = ·) x x := by
  cases x <;> rfl

/-- relational loop rule -/
theorem Mat.forM'_rel {σ τ : Type} (R : Nat → σ → τ → Prop) (lo hi : Nat) (s : σ) (t : τ)
    (f : σ → Nat → Res σ) (g : τ → Nat → Res τ) (hle : lo ≤ hi) (h0 : R lo s t)
    (hstep : ∀ i s t, lo ≤ i → i < hi → R i s t → RelRes (R (i + 1)) (f s i) (g t i)) :
    RelRes (R hi) (Mat.forM' lo hi s f) (Mat.forM' lo hi t g) := by
  unfold Mat.forM'
  have key : ∀ (d lo : Nat) (s : σ) (t : τ), lo + d = hi → R lo s t →
      (∀ i s t, lo ≤ i → i < hi → R i s t → RelRes (R (i + 1)) (f s i) (g t i)) →
      RelRes (R hi) ((List.range' lo d).foldlM f s) ((List.range' lo d).foldlM g t) := by
    intro d
    induction d with
    | zero =>
      intro lo s t e h0 _
      simp only [List.range'_zero, List.foldlM_nil]
      have : lo = hi := by omega
      subst this; exact h0
    | succ d ih =>
      intro lo s t e h0 hs
      simp only [List.range'_succ, List.foldlM_cons]
      exact RelRes.bind (hs lo s t (Nat.le_refl _) (by omega) h0)
        (fun a b hab => ih (lo + 1) a b (by omega) hab
          (fun i s t h1 h2 h3 => hs i s t (by omega) h2 h3))
  exact key (hi - lo) lo s t (by omega) h0 hstep

/-- relational rule for the descending loop -/
theorem foldlM_rev_rel {σ τ : Type} (R : Nat → σ → τ → Prop) (f : σ → Nat → Res σ)
    (g : τ → Nat → Res τ) :
    ∀ (m : Nat) (s : σ) (t : τ), R m s t →
      (∀ j s t, j < m → R (j + 1) s t → RelRes (R j) (f s j) (g t j)) →
      RelRes (R 0) ((List.range m).reverse.foldlM f s) ((List.range m).reverse.foldlM g t)
  | 0, s, t, h0, _ => h0
  | m + 1, s, t, h0, hstep => by
    rw [List.range_succ, List.reverse_append]
    simp only [List.reverse_cons, List.reverse_nil, List.nil_append, List.cons_append,
      List.foldlM_cons]
    exact RelRes.bind (hstep m s t (by omega) h0)
      (fun a b hab => foldlM_rev_rel R f g m a b hab
        (fun j s t hj hr => hstep j s t (by omega) hr))

namespace Mat
variable {K : Type}

theorem Is.entryOf_eq [Zero K] {m : Mat K} {r c : Nat} {e : Nat → Nat → K} (h : Is m r c e)
    {i j : Nat} (hi : i < r) (hj : j < c) : entryOf m i j = e i j := by
  have := h.entry i j hi hj
  rw [Mat.get, aget_eq_ok, h.cols] at this
  simp [entryOf, h.cols, this]

/-- any description of a matrix can be replaced by the canonical one -/
theorem Is.canon [Zero K] {m : Mat K} {r c : Nat} {e : Nat → Nat → K} (h : Is m r c e) :
    Is m r c (entryOf m) := by
  refine ⟨h.wf, h.rows, h.cols, ?_⟩
  intro i j hi hj
  rw [h.entry i j hi hj, h.entryOf_eq hi hj]

end Mat

namespace Band
variable {K : Type}
open Mat (forM' Is forM'_inv aget_ok aset_ok aget_eq_ok)

/-- (i,j) lies inside the band -/
def inBand (b : Band K) (i j : Nat) : Prop := j ≤ i + b.m2 ∧ i ≤ j + b.m1

instance (b : Band K) (i j : Nat) : Decidable (inBand b i j) := by
  unfold inBand; infer_instance

/-- the compact storage is a well-formed `n × (m1+m2+1)` matrix -/
def WFb (b : Band K) : Prop := ∃ c, Is b.compact b.n (b.m1 + b.m2 + 1) c

/-- two banded matrices have the same `(n, m1, m2)` -/
def SameShape (a b : Band K) : Prop := a.n = b.n ∧ a.m1 = b.m1 ∧ a.m2 = b.m2

section Z
variable [Zero K]

/-- the dense twin: compact slot `(i, m1 + j - i)` inside the band and the matrix, zero outside -/
def dense (b : Band K) (i j : Nat) : K :=
  if j ≤ i + b.m2 ∧ i ≤ j + b.m1 ∧ i < b.n ∧ j < b.n then
    Mat.entryOf b.compact i (b.m1 + j - i)
  else 0

theorem WFb.is {b : Band K} (h : WFb b) :
    Is b.compact b.n (b.m1 + b.m2 + 1) (Mat.entryOf b.compact) := by
  obtain ⟨c, hc⟩ := h
  exact hc.canon

theorem dense_of_is {b : Band K} {c : Nat → Nat → K} (h : Is b.compact b.n (b.m1 + b.m2 + 1) c)
    {i j : Nat} (hb : inBand b i j) (hi : i < b.n) (hj : j < b.n) :
    dense b i j = c i (b.m1 + j - i) := by
  obtain ⟨h1, h2⟩ := hb
  have hc : j ≤ i + b.m2 ∧ i ≤ j + b.m1 ∧ i < b.n ∧ j < b.n := ⟨h1, h2, hi, hj⟩
  rw [dense, if_pos hc]
  exact h.entryOf_eq hi (by omega)

theorem dense_out {b : Band K} {i j : Nat} (h : ¬ (inBand b i j ∧ i < b.n ∧ j < b.n)) :
    dense b i j = 0 := by
  rw [dense, if_neg]
  unfold inBand at h
  intro hc
  exact h ⟨⟨hc.1, hc.2.1⟩, hc.2.2.1, hc.2.2.2⟩

/-- a banded matrix built from a described compact matrix is well formed, and its dense twin
    reads the description -/
theorem WFb.mk' {n m1 m2 : Nat} {m : Mat K} {c : Nat → Nat → K} (h : Is m n (m1 + m2 + 1) c) :
    WFb (⟨n, m1, m2, m⟩ : Band K) := ⟨c, h⟩

/-! ### index operator -/

/-- reading an in-band, in-matrix entry returns the dense-twin entry -/
theorem get_spec {b : Band K} (h : WFb b) {i j : Nat} (hb : inBand b i j) (hi : i < b.n)
    (hj : j < b.n) : Band.get b i j = .ok (dense b i j) := by
  have hg : ¬ (j > i + b.m2 ∨ i > j + b.m1) := by unfold inBand at hb; omega
  rw [Band.get, if_neg hg, dense_of_is h.is hb hi hj]
  exact h.is.get hi (by unfold inBand at hb; omega)

/-- outside the band the index operator panics -/
theorem get_out_of_band (b : Band K) {i j : Nat} (h : ¬ inBand b i j) :
    Band.get b i j = .error .range := by
  have hg : (j > i + b.m2 ∨ i > j + b.m1) := by unfold inBand at h; omega
  rw [Band.get, if_pos hg]

/-- writing an in-band, in-matrix entry: succeeds, keeps `(n, m1, m2)` and well-formedness, the
    entry is read back, and **every other entry of the dense twin is unchanged** -/
theorem set_spec {b : Band K} (h : WFb b) {i j : Nat} (hb : inBand b i j) (hi : i < b.n)
    (hj : j < b.n) (v : K) :
    ∃ b', Band.set b i j v = .ok b' ∧ WFb b' ∧ SameShape b' b ∧ dense b' i j = v ∧
      ∀ i' j', (i' ≠ i ∨ j' ≠ j) → dense b' i' j' = dense b i' j' := by
  have hg : ¬ (j > i + b.m2 ∨ i > j + b.m1) := by unfold inBand at hb; omega
  have hcol : b.m1 + j - i < b.m1 + b.m2 + 1 := by unfold inBand at hb; omega
  obtain ⟨m', hm', hI⟩ := h.is.set hi hcol v
  refine ⟨{ b with compact := m' }, ?_, ⟨_, hI⟩, ⟨rfl, rfl, rfl⟩, ?_, ?_⟩
  · rw [Band.set, if_neg hg, hm']; rfl
  · have := dense_of_is (b := { b with compact := m' }) hI hb hi hj
    rw [this]; simp
  · intro i' j' hne
    by_cases hc : inBand b i' j' ∧ i' < b.n ∧ j' < b.n
    · obtain ⟨hb', hi', hj'⟩ := hc
      rw [dense_of_is (b := { b with compact := m' }) hI hb' hi' hj', dense_of_is h.is hb' hi' hj']
      have : ¬ (i' = i ∧ b.m1 + j' - i' = b.m1 + j - i) := by
        unfold inBand at hb hb'; omega
      simp only [this, if_false]
    · rw [dense_out (b := { b with compact := m' }) hc, dense_out hc]

/-- outside the band the write panics and nothing is written -/
theorem set_out_of_band (b : Band K) {i j : Nat} (v : K) (h : ¬ inBand b i j) :
    Band.set b i j v = .error .range := by
  have hg : (j > i + b.m2 ∨ i > j + b.m1) := by unfold inBand at h; omega
  rw [Band.set, if_pos hg]

end Z

/-! ### arithmetic: delegation to the compact matrix -/
section Arith
variable [Add K] [Sub K] [Mul K] [Neg K] [Zero K] [One K] [BEq K] [ScalarExt K]

theorem sameShape_true {a b : Band K} (h : SameShape a b) : sameShape a b = true := by
  obtain ⟨h1, h2, h3⟩ := h
  simp [sameShape, h1, h2, h3]

/-- generic lifting: a compact-level entrywise result gives the dense-level entrywise result -/
theorem lift_unary {a : Band K} (ha : WFb a) {m' : Mat K} (g : K → K)
    (hI : Is m' a.n (a.m1 + a.m2 + 1) (fun i j => g (Mat.entryOf a.compact i j))) :
    WFb ({ a with compact := m' } : Band K) ∧ SameShape ({ a with compact := m' } : Band K) a ∧
    ∀ i j, inBand a i j → i < a.n → j < a.n →
      dense ({ a with compact := m' } : Band K) i j = g (dense a i j) := by
  refine ⟨⟨_, hI⟩, ⟨rfl, rfl, rfl⟩, ?_⟩
  intro i j hb hi hj
  rw [dense_of_is (b := { a with compact := m' }) hI hb hi hj, dense_of_is ha.is hb hi hj]

theorem lift_binary {a b : Band K} (ha : WFb a) (hb : WFb b) (hs : SameShape a b) {m' : Mat K}
    (g : K → K → K)
    (hI : Is m' a.n (a.m1 + a.m2 + 1)
      (fun i j => g (Mat.entryOf a.compact i j) (Mat.entryOf b.compact i j))) :
    WFb ({ a with compact := m' } : Band K) ∧ SameShape ({ a with compact := m' } : Band K) a ∧
    ∀ i j, inBand a i j → i < a.n → j < a.n →
      dense ({ a with compact := m' } : Band K) i j = g (dense a i j) (dense b i j) := by
  refine ⟨⟨_, hI⟩, ⟨rfl, rfl, rfl⟩, ?_⟩
  intro i j hib hi hj
  obtain ⟨h1, h2, h3⟩ := hs
  have hib' : inBand b i j := by unfold inBand at *; omega
  rw [dense_of_is (b := { a with compact := m' }) hI hib hi hj, dense_of_is ha.is hib hi hj,
    dense_of_is hb.is hib' (by omega) (by omega), h2]

theorem WFb.is_as {a b : Band K} (hb : WFb b) (hs : SameShape a b) :
    Is b.compact a.n (a.m1 + a.m2 + 1) (Mat.entryOf b.compact) := by
  obtain ⟨h1, h2, h3⟩ := hs
  rw [h1, h2, h3]; exact hb.is

/-- `&a + &b`: entrywise on the band, shape preserved -/
theorem add_spec {a b : Band K} (ha : WFb a) (hb : WFb b) (hs : SameShape a b) :
    ∃ c, Band.add a b = .ok c ∧ WFb c ∧ SameShape c a ∧
      ∀ i j, inBand a i j → i < a.n → j < a.n → dense c i j = dense a i j + dense b i j := by
  obtain ⟨m', hm', hI⟩ := Mat.add_spec ha.is (hb.is_as hs)
  refine ⟨{ a with compact := m' }, ?_, lift_binary ha hb hs (· + ·) hI⟩
  simp only [Band.add, sameShape_true hs, hm']; rfl

/-- `&a - &b` -/
theorem sub_spec {a b : Band K} (ha : WFb a) (hb : WFb b) (hs : SameShape a b) :
    ∃ c, Band.sub' a b = .ok c ∧ WFb c ∧ SameShape c a ∧
      ∀ i j, inBand a i j → i < a.n → j < a.n → dense c i j = dense a i j - dense b i j := by
  obtain ⟨m', hm', hI⟩ := Mat.sub_spec ha.is (hb.is_as hs)
  refine ⟨{ a with compact := m' }, ?_, lift_binary ha hb hs (· - ·) hI⟩
  simp only [Band.sub', sameShape_true hs, hm']; rfl

/-- `-a` -/
theorem neg_spec {a : Band K} (ha : WFb a) :
    ∃ c, Band.neg a = .ok c ∧ WFb c ∧ SameShape c a ∧
      ∀ i j, inBand a i j → i < a.n → j < a.n → dense c i j = - dense a i j := by
  obtain ⟨m', hm', hI⟩ := Mat.neg_spec ha.is
  refine ⟨{ a with compact := m' }, ?_, lift_unary ha (fun x => -x) hI⟩
  simp only [Band.neg, hm']; rfl

/-- `a * s` -/
theorem smul_spec {a : Band K} (ha : WFb a) (s : K) :
    ∃ c, Band.smul a s = .ok c ∧ WFb c ∧ SameShape c a ∧
      ∀ i j, inBand a i j → i < a.n → j < a.n → dense c i j = dense a i j * s := by
  obtain ⟨m', hm', hI⟩ := Mat.smul_spec ha.is s
  refine ⟨{ a with compact := m' }, ?_, lift_unary ha (fun x => x * s) hI⟩
  simp only [Band.smul, hm']; rfl

/-- `a + s` (every band entry) -/
theorem addS_spec {a : Band K} (ha : WFb a) (s : K) :
    ∃ c, Band.addS a s = .ok c ∧ WFb c ∧ SameShape c a ∧
      ∀ i j, inBand a i j → i < a.n → j < a.n → dense c i j = dense a i j + s := by
  obtain ⟨m', hm', hI⟩ := Mat.addS_spec ha.is s
  refine ⟨{ a with compact := m' }, ?_, lift_unary ha (fun x => x + s) hI⟩
  simp only [Band.addS, hm']; rfl

/-- `a - s` -/
theorem subS_spec {a : Band K} (ha : WFb a) (s : K) :
    ∃ c, Band.subS a s = .ok c ∧ WFb c ∧ SameShape c a ∧
      ∀ i j, inBand a i j → i < a.n → j < a.n → dense c i j = dense a i j - s := by
  obtain ⟨m', hm', hI⟩ := Mat.subS_spec ha.is s
  refine ⟨{ a with compact := m' }, ?_, lift_unary ha (fun x => x - s) hI⟩
  simp only [Band.subS, hm']; rfl

/-- `a / s`, provided the scalar division succeeds on every compact slot (the loop also divides
    the padding slots; `q` is the value of the division) -/
theorem sdiv_spec {a : Band K} (ha : WFb a) (s : K) (q : K → K)
    (hq : ∀ i j, i < a.n → j < a.m1 + a.m2 + 1 →
      ScalarExt.divM (Mat.entryOf a.compact i j) s = .ok (q (Mat.entryOf a.compact i j))) :
    ∃ c, Band.sdiv a s = .ok c ∧ WFb c ∧ SameShape c a ∧
      ∀ i j, inBand a i j → i < a.n → j < a.n → dense c i j = q (dense a i j) := by
  obtain ⟨m', hm', hI⟩ := Mat.sdiv_spec ha.is s q hq
  refine ⟨{ a with compact := m' }, ?_, lift_unary ha q hI⟩
  simp only [Band.sdiv, hm']; rfl

/-- `fill_band(band, x)` for `-m1 ≤ band ≤ m2`: sets exactly the entries with `j - i = band` -/
theorem fillBand_spec {b : Band K} (h : WFb b) (band : Int) (x : K)
    (h1 : -(b.m1 : Int) ≤ band) (h2 : band ≤ (b.m2 : Int)) :
    ∃ b', Band.fillBand b band x = .ok b' ∧ WFb b' ∧ SameShape b' b ∧
      ∀ i j, inBand b i j → i < b.n → j < b.n →
        dense b' i j = if (j : Int) - (i : Int) = band then x else dense b i j := by
  have hg : ¬ (band < -(b.m1 : Int) ∨ band > (b.m2 : Int)) := by omega
  have hcol : ((b.m1 : Int) + band).toNat < b.m1 + b.m2 + 1 := by omega
  obtain ⟨m', hm', hI⟩ := Mat.fillCol_spec h.is hcol x
  refine ⟨{ b with compact := m' }, ?_, ⟨_, hI⟩, ⟨rfl, rfl, rfl⟩, ?_⟩
  · rw [Band.fillBand, if_neg hg, hm']; rfl
  · intro i j hb hi hj
    rw [dense_of_is (b := { b with compact := m' }) hI hb hi hj, dense_of_is h.is hb hi hj]
    have : (b.m1 + j - i = ((b.m1 : Int) + band).toNat) ↔ ((j : Int) - (i : Int) = band) := by
      unfold inBand at hb; omega
    simp only [this]

end Arith

/-! ### the product with a vector -/
section MulVec
variable [Add K] [Mul K] [Zero K]

/-- ordered row sum of the dense twin restricted to the band: columns
    `i - m1 ≤ j < min n (i + m2 + 1)` in increasing order, accumulated from `acc` -/
def rowFold (b : Band K) (v : Array K) (i : Nat) (acc : K) (len : Nat) : K :=
  (List.range' (i - b.m1) len).foldl (fun acc j => acc + dense b i j * v[j]?.getD 0) acc

/-- number of in-band, in-matrix columns of row `i` -/
def rowLen (b : Band K) (i : Nat) : Nat := min b.n (i + b.m2 + 1) - (i - b.m1)

/-- the inner loop of the product for row `i` (compact columns `lo .. hi`) -/
theorem row_loop {b : Band K} (h : WFb b) (v res : Array K) (hv : v.size = b.n)
    (hres : res.size = b.n) {i : Nat} (hi : i < b.n) (LO HI : Nat) (k : Int)
    (hk : k = (i : Int) - (b.m1 : Int)) (hLO : LO = b.m1 - i)
    (hHI : HI = min (b.m1 + b.m2 + 1) (b.n + b.m1 - i)) (r0 : K) (hr0 : res[i]? = some r0) :
    ∃ res', forM' LO HI res (fun res j => do
        let a ← b.compact.get i j
        let x ← aget v ((j : Int) + k).toNat
        let r ← aget res i
        aset res i (r + a * x)) = .ok res' ∧ res'.size = b.n ∧
      (∀ a, a ≠ i → res'[a]? = res[a]?) ∧
      res'[i]? = some (rowFold b v i r0 (rowLen b i)) := by
  have hle : LO ≤ HI := by omega
  obtain ⟨res', h1, h2, h3, h4⟩ := forM'_inv
    (fun t (r : Array K) => r.size = b.n ∧ (∀ a, a ≠ i → r[a]? = res[a]?) ∧
      r[i]? = some (rowFold b v i r0 (t - LO)))
    LO HI res (fun res j => do
        let a ← b.compact.get i j
        let x ← aget v ((j : Int) + k).toNat
        let r ← aget res i
        aset res i (r + a * x)) hle
    ⟨hres, fun _ _ => rfl, by simpa [rowFold] using hr0⟩ (by
      intro t r ht1 ht2 ⟨hsz, hfr, hri⟩
      have hti : i < r.size := by omega
      have hjv : ((t : Int) + k).toNat = t + i - b.m1 := by omega
      have hj' : t + i - b.m1 < v.size := by omega
      have hib : inBand b i (t + i - b.m1) := by unfold inBand; omega
      have hcol : b.m1 + (t + i - b.m1) - i = t := by omega
      have hget : b.compact.get i t = .ok (dense b i (t + i - b.m1)) := by
        rw [dense_of_is h.is hib hi (by omega), hcol]
        exact h.is.get hi (by omega)
      have hrv : r[i] = rowFold b v i r0 (t - LO) := by
        have : r[i]? = some r[i] := by simp [hti]
        rw [this] at hri; exact Option.some.inj hri
      refine ⟨r.setIfInBounds i (r[i] + dense b i (t + i - b.m1) * v[t + i - b.m1]), ?_, ?_, ?_, ?_⟩
      · simp only [hget, hjv, Mat.aget_ok hj', Mat.aget_ok hti, Mat.aset_ok _ hti, bind,
          Except.bind]
      · simpa using hsz
      · intro a ha
        rw [Array.getElem?_setIfInBounds, if_neg (fun e => ha e.symm)]
        exact hfr a ha
      · have e1 : t + 1 - LO = (t - LO) + 1 := by omega
        have e2 : i - b.m1 + (t - LO) = t + i - b.m1 := by omega
        rw [Array.getElem?_setIfInBounds, if_pos rfl, if_pos hti, e1, hrv]
        simp only [rowFold, range'_snoc, List.foldl_append, List.foldl_cons, List.foldl_nil, e2]
        simp [hj'])
  refine ⟨res', h1, h2, h3, ?_⟩
  have : HI - LO = rowLen b i := by unfold rowLen; omega
  rw [← this]; exact h4

/-- (S) **the band-limited loop as an ordered sum over the dense row.**  For every well-formed
    banded matrix (any `(n, m1, m2)`: `m1, m2 ≥ n - 1`, `n = 1`, `n = 0` included) and every vector
    of length `n` the product succeeds, has length `n`, and component `i` is the sum of
    `dense b i j * v[j]` over the in-band, in-matrix columns `j` in increasing order. -/
theorem mulVec_ordered {b : Band K} (h : WFb b) (v : Array K) (hv : v.size = b.n) :
    ∃ w, Band.mulVec b v = .ok w ∧ w.size = b.n ∧
      ∀ i, i < b.n → w[i]? = some (rowFold b v i 0 (rowLen b i)) := by
  have hg : ¬ b.n ≠ v.size := by omega
  rw [Band.mulVec, if_neg hg]
  obtain ⟨w, h1, h2, h3, _⟩ := forM'_inv
    (fun t (r : Array K) => r.size = b.n ∧
      (∀ i, i < t → r[i]? = some (rowFold b v i 0 (rowLen b i))) ∧
      (∀ i, t ≤ i → i < b.n → r[i]? = some 0))
    0 b.n (Array.replicate b.n (0 : K))
    (fun res i =>
      forM' (max 0 (-((i : Int) - (b.m1 : Int)))).toNat
        (min ((b.m1 : Int) + (b.m2 : Int) + 1) ((b.n : Int) - ((i : Int) - (b.m1 : Int)))).toNat res
        (fun res j => do
          let a ← b.compact.get i j
          let x ← aget v ((j : Int) + ((i : Int) - (b.m1 : Int))).toNat
          let r ← aget res i
          aset res i (r + a * x)))
    (Nat.zero_le _)
    ⟨by simp, fun _ hi => by omega, fun i _ hi => by simp [hi]⟩ (by
      intro t r _ ht ⟨hsz, hdone, htodo⟩
      obtain ⟨r', g1, g2, g3, g4⟩ := row_loop h v r hv hsz ht
        (max 0 (-((t : Int) - (b.m1 : Int)))).toNat
        (min ((b.m1 : Int) + (b.m2 : Int) + 1) ((b.n : Int) - ((t : Int) - (b.m1 : Int)))).toNat
        ((t : Int) - (b.m1 : Int)) rfl
        (by omega) (by omega) 0 (htodo t (Nat.le_refl _) ht)
      refine ⟨r', g1, g2, ?_, ?_⟩
      · intro i hi
        by_cases hit : i = t
        · subst hit; exact g4
        · rw [g3 i hit]; exact hdone i (by omega)
      · intro i hi1 hi2
        rw [g3 i (by omega)]; exact htodo i (by omega) hi2)
  exact ⟨w, h1, h2, fun i hi => h3 i hi⟩

/-- (S) **padding slots are never read**: two banded matrices of the same shape whose dense
    twins agree on all in-band, in-matrix slots give the same product -/
theorem mulVec_padding {a b : Band K} (ha : WFb a) (hb : WFb b) (hs : SameShape a b)
    (hag : ∀ i j, inBand a i j → i < a.n → j < a.n → dense a i j = dense b i j) (v : Array K) :
    Band.mulVec a v = Band.mulVec b v := by
  obtain ⟨s1, s2, s3⟩ := hs
  by_cases hv : v.size = a.n
  · obtain ⟨w, hw, hwn, hwe⟩ := mulVec_ordered ha v hv
    obtain ⟨w', hw', hwn', hwe'⟩ := mulVec_ordered hb v (by omega)
    rw [hw, hw']
    congr 1
    apply Array.ext_getElem?
    intro i
    by_cases hi : i < a.n
    · rw [hwe i hi, hwe' i (by omega)]
      congr 1
      have hl : rowLen a i = rowLen b i := by unfold rowLen; rw [s1, s2, s3]
      rw [← hl]
      unfold rowFold
      rw [← s2]
      apply foldl_congr_mem
      intro j hj acc
      rw [List.mem_range'_1] at hj
      rw [hag i j (by unfold inBand; unfold rowLen at hj; omega) hi (by unfold rowLen at hj; omega)]
    · have e1 : w[i]? = none := by simp; omega
      have e2 : w'[i]? = none := by simp; omega
      rw [e1, e2]
  · have h1 : a.n ≠ v.size := fun e => hv e.symm
    have h2 : b.n ≠ v.size := by omega
    rw [Band.mulVec, if_pos h1, Band.mulVec, if_pos h2]

end MulVec

/-! ### the product over a commutative semiring: the dense product -/
section MulVecE
variable [CommSemiring K]

theorem foldl_add_eq_sum (f : Nat → K) (s : Nat) : ∀ (len : Nat) (a : K),
    (List.range' s len).foldl (fun acc j => acc + f j) a = a + ∑ j ∈ Finset.Ico s (s + len), f j
  | 0, a => by simp
  | len + 1, a => by
    rw [range'_snoc, List.foldl_append, foldl_add_eq_sum f s len a]
    have : s + (len + 1) = (s + len) + 1 := by omega
    rw [this, Finset.sum_Ico_succ_top (by omega)]
    simp [add_assoc]

/-- the ordered band-limited row sum equals the full dense row sum -/
theorem rowFold_eq_sum (b : Band K) (v : Array K) {i : Nat} (hi : i < b.n) :
    rowFold b v i 0 (rowLen b i) = ∑ j ∈ Finset.range b.n, dense b i j * v[j]?.getD 0 := by
  rw [rowFold, foldl_add_eq_sum (fun j => dense b i j * v[j]?.getD 0), zero_add]
  apply Finset.sum_subset
  · intro j hj
    rw [Finset.mem_Ico] at hj
    rw [Finset.mem_range]
    unfold rowLen at hj; omega
  · intro j hj hnj
    rw [Finset.mem_range] at hj
    rw [Finset.mem_Ico] at hnj
    rw [dense_out, zero_mul]
    unfold inBand rowLen at *; omega

/-- (E) **the band-limited loop equals the dense product**: for a well-formed banded matrix and a
    vector of length `n`, `mulVec` succeeds, the result has length `n`, and
    `w[i] = Σ_{j<n} dense b i j * v[j]` — for every `(n, m1, m2)`. -/
theorem mulVec_spec {b : Band K} (h : WFb b) (v : Array K) (hv : v.size = b.n) :
    ∃ w, Band.mulVec b v = .ok w ∧ w.size = b.n ∧
      ∀ i, i < b.n → w[i]?.getD 0 = ∑ j ∈ Finset.range b.n, dense b i j * v[j]?.getD 0 := by
  obtain ⟨w, hw, hwn, hwe⟩ := mulVec_ordered h v hv
  refine ⟨w, hw, hwn, ?_⟩
  intro i hi
  rw [hwe i hi, Option.getD_some, rowFold_eq_sum b v hi]

end MulVecE

/-! ### `decompose`, first phase: the left shift of the first `m1` rows -/
section Shift
variable [Zero K]

/-- the compact matrix after the first phase of `decompose`: row `i < m1` is shifted left by
    `m1 - i` and zero-filled on the right; the other rows are unchanged -/
def shifted (m1 m2 : Nat) (c : Nat → Nat → K) (i j : Nat) : K :=
  if i < m1 then (if j + (m1 - i) < m1 + m2 + 1 then c i (j + (m1 - i)) else 0) else c i j

theorem shift_copy {au : Mat K} {n mm : Nat} {e : Nat → Nat → K} (h : Is au n mm e)
    {i l : Nat} (hi : i < n) (hl : l ≤ mm) :
    ∃ au', forM' l mm au (fun au j => do
        let x ← au.get i j
        let c ← usub j l
        au.set i c x) = .ok au' ∧
      Is au' n mm (fun a b => if a = i ∧ b + l < mm then e a (b + l) else e a b) := by
  refine forM'_inv
    (fun t (s : Mat K) => Is s n mm (fun a b => if a = i ∧ b + l < t then e a (b + l) else e a b))
    l mm au _ hl (h.congr (fun a b _ _ => by ifs_omega)) ?_
  intro t s ht1 ht2 hs
  have g := hs.get hi ht2
  have hc : ¬ (i = i ∧ t + l < t) := by omega
  rw [if_neg hc] at g
  obtain ⟨s', hs', hI⟩ := hs.set hi (show t - l < mm by omega) (e i t)
  refine ⟨s', by simp only [g, usub_ok ht1, bind, Except.bind]; exact hs', hI.congr ?_⟩
  intro a b _ _
  ifs_omega

theorem shift_fill {au : Mat K} {n mm : Nat} {e : Nat → Nat → K} (h : Is au n mm e)
    {i lo : Nat} (hi : i < n) (hl : lo ≤ mm) :
    ∃ au', forM' lo mm au (fun au j => au.set i j 0) = .ok au' ∧
      Is au' n mm (fun a b => if a = i ∧ lo ≤ b then 0 else e a b) := by
  obtain ⟨au', h1, h2⟩ := forM'_inv
    (fun t (s : Mat K) => Is s n mm (fun a b => if a = i ∧ lo ≤ b ∧ b < t then 0 else e a b))
    lo mm au (fun au j => au.set i j 0) hl (h.congr (fun a b _ _ => by ifs_omega)) (by
    intro t s ht1 ht2 hs
    obtain ⟨s', hs', hI⟩ := hs.set hi ht2 (0 : K)
    exact ⟨s', hs', hI.congr (fun a b _ _ => by ifs_omega)⟩)
  exact ⟨au', h1, h2.congr (fun a b _ hb => by ifs_omega)⟩

/-- body of the first phase of `decompose` -/
def shiftBody (m1 m2 : Nat) (s : Mat K × Nat) (i : Nat) : Res (Mat K × Nat) := do
  let au ← forM' (m1 - i) (m1 + m2 + 1) s.1 (fun au j => do
    let x ← au.get i j
    let c ← usub j s.2
    au.set i c x)
  let l ← usub s.2 1
  let lo ← usub (m1 + m2 + 1 - l) 1
  let au ← forM' lo (m1 + m2 + 1) au (fun au j => au.set i j 0)
  pure (au, l)

theorem shiftRows_eq (m1 m2 : Nat) (au : Mat K) :
    shiftRows m1 m2 au = (do
      let st ← forM' 0 m1 (au, m1) (shiftBody m1 m2)
      pure st.1) := rfl

/-- one iteration of the first phase (row `i < m1`, `i < n`) -/
theorem shiftBody_step {n m1 m2 i : Nat} {c : Nat → Nat → K} {st : Mat K × Nat} (hi : i < m1)
    (hin : i < n)
    (hP : st.2 = m1 - i ∧
      Is st.1 n (m1 + m2 + 1) (fun a b => if a < i then shifted m1 m2 c a b else c a b)) :
    ∃ st', shiftBody m1 m2 st i = .ok st' ∧ st'.2 = m1 - (i + 1) ∧
      Is st'.1 n (m1 + m2 + 1) (fun a b => if a < i + 1 then shifted m1 m2 c a b else c a b) := by
  obtain ⟨au, l⟩ := st
  obtain ⟨hl, hI⟩ := hP
  simp only at hl hI
  subst hl
  obtain ⟨a1, g1, I1⟩ := shift_copy hI (i := i) (l := m1 - i) hin (by omega)
  have u1 : usub (m1 - i) 1 = .ok (m1 - i - 1) := usub_ok (by omega)
  have u2 : usub (m1 + m2 + 1 - (m1 - i - 1)) 1 = .ok (m1 + m2 + 1 - (m1 - i)) := by
    rw [usub_ok (by omega)]; congr 1; omega
  obtain ⟨a2, g2, I2⟩ := shift_fill I1 (i := i) (lo := m1 + m2 + 1 - (m1 - i)) hin (by omega)
  refine ⟨(a2, m1 - i - 1), ?_, by simp only; omega, ?_⟩
  · unfold shiftBody
    simp only [bind, Except.bind, pure, Except.pure] at g1 g2 ⊢
    simp only [g1, u1, u2, g2]
  · refine I2.congr ?_
    intro a b ha hb
    unfold shifted
    ifs_omega

/-- (S) **first phase of `decompose`** (`m1 ≤ n`): succeeds, keeps the shape, row `i < m1` is
    shifted left by `m1 - i` and zero-filled on the right, every other row is unchanged -/
theorem shiftRows_spec {au : Mat K} {n m1 m2 : Nat} {c : Nat → Nat → K}
    (h : Is au n (m1 + m2 + 1) c) (hm : m1 ≤ n) :
    ∃ au', shiftRows m1 m2 au = .ok au' ∧ Is au' n (m1 + m2 + 1) (shifted m1 m2 c) := by
  rw [shiftRows_eq]
  refine bind_ok_of (fun s => s.2 = m1 - m1 ∧
    Is s.1 n (m1 + m2 + 1) (fun a b => if a < m1 then shifted m1 m2 c a b else c a b)) ?_ ?_
  · exact forM'_inv (fun i (s : Mat K × Nat) => s.2 = m1 - i ∧
      Is s.1 n (m1 + m2 + 1) (fun a b => if a < i then shifted m1 m2 c a b else c a b))
      0 m1 _ _ (Nat.zero_le _) ⟨rfl, h.congr (fun a b _ _ => by simp)⟩
      (fun i s _ hi hs => shiftBody_step hi (by omega) hs)
  · intro s hs
    exact ⟨s.1, rfl, hs.2.congr (fun a b _ _ => by unfold shifted; ifs_omega)⟩

/-- (S) with more sub-diagonals than rows the first phase of `decompose` addresses row `n`: a
    range panic -/
theorem shiftRows_rejects {au : Mat K} {n m1 m2 : Nat} {c : Nat → Nat → K}
    (h : Is au n (m1 + m2 + 1) c) (hm : n < m1) : shiftRows m1 m2 au = .error .range := by
  rw [shiftRows_eq]
  apply bind_error
  apply Mat.forM'_error_at (fun i (s : Mat K × Nat) => s.2 = m1 - i ∧
      Is s.1 n (m1 + m2 + 1) (fun a b => if a < i then shifted m1 m2 c a b else c a b))
      0 n m1 _ _ _ (Nat.zero_le _) hm ⟨rfl, h.congr (fun a b _ _ => by simp)⟩
      (fun i s _ hi hs => shiftBody_step (by omega) hi hs)
  intro st ⟨hl, hI⟩
  unfold shiftBody
  apply bind_error
  apply Mat.forM'_first_error _ _ _ _ _ (by omega)
  apply bind_error
  rw [Mat.get]
  apply Mat.aget_err
  have := hI.wf
  rw [Mat.WF, hI.rows, hI.cols] at this
  rw [this, hI.cols]
  omega

/-- without sub-diagonals the first phase does nothing -/
theorem shiftRows_m1_zero (m2 : Nat) (au : Mat K) : shiftRows 0 m2 au = .ok au := by
  simp [shiftRows, Mat.forM', pure, Except.pure, bind, Except.bind]

/-- the shifted compact matrix in terms of the dense twin: after the first phase slot `(i, t)`
    holds the matrix entry `(i, (i - m1) + t)` (row `i` starts at its first in-matrix column) -/
theorem shifted_dense {b : Band K} (h : WFb b) {i t : Nat} (hi : i < b.n)
    (ht : t + (b.m1 - i) < b.m1 + b.m2 + 1) (hn : (i - b.m1) + t < b.n) :
    shifted b.m1 b.m2 (Mat.entryOf b.compact) i t = dense b i ((i - b.m1) + t) := by
  have hib : inBand b i ((i - b.m1) + t) := by unfold inBand; omega
  rw [dense_of_is h.is hib hi hn]
  unfold shifted
  by_cases him : i < b.m1
  · rw [if_pos him, if_pos ht]; congr 1; omega
  · rw [if_neg him]; congr 1; omega

end Shift

/-! ### upper-banded storage (`m1 = 0`): `decompose` does nothing, `det` is the product of the
    diagonal, `solve` is back substitution -/
section Upper
variable [Sub K] [Mul K] [Neg K] [Zero K] [One K] [BEq K] [ScalarExt K]

/-- `decompose` overwrites a pivot that tests equal to zero by the literal zero -/
def fixZero (x : K) : K := if x == 0 then 0 else x

/-- one pivot step of `decompose` when the search window is empty (`l = k`, as for `m1 = 0`) -/
theorem decStep_upper {n mm : Nat} {c : Nat → Nat → K} (s : Dec K) {k : Nat} (hk : k < n) (hmm : 0 < mm)
    (hau : Is s.au n mm c) (hidx : s.index.size = n) :
    ∃ au', decStep n mm (s, k) k = .ok (⟨au', s.al, s.index.setIfInBounds k (k + 1), s.d⟩, k + 1) ∧
      Is au' n mm (fun a b => if a = k ∧ b = 0 then fixZero (c k 0) else c a b) := by
  have g0 := hau.get hk hmm
  have hl : (if k < n then k + 1 else k) = k + 1 := by rw [if_pos hk]
  unfold decStep
  simp only [g0, hl, Mat.forM'_empty _ _ _ _ (Nat.le_refl _), aset_ok _ (show k < s.index.size by omega), bind, Except.bind, pure, Except.pure]
  have hkk : ¬ (k ≠ k) := by simp
  by_cases hz : (c k 0 == 0) = true
  · obtain ⟨v, hv, hI⟩ := hau.set hk hmm (0 : K)
    refine ⟨v, ?_, hI.congr (fun a b _ _ => by simp [fixZero, hz])⟩
    simp only [if_pos hz, hv, if_neg hkk]
  · refine ⟨s.au, ?_, hau.congr (fun a b _ _ => ?_)⟩
    · simp only [if_neg hz, if_neg hkk]
    · by_cases hab : a = k ∧ b = 0
      · obtain ⟨rfl, rfl⟩ := hab
        simp [fixZero, hz]
      · simp only [if_neg hab]

/-- (S) **`decompose` for `m1 = 0`**: no row is exchanged (`index[k] = k + 1`, sign `d = 1`), nothing
    is eliminated (`al` is the empty `n × 0` matrix), and the upper factor is the compact storage
    itself, except that a diagonal slot that tests `== 0` is overwritten by the literal `0`. -/
theorem decompose_upper {b : Band K} (h : WFb b) (hm : b.m1 = 0) :
    ∃ s, decompose b = .ok s ∧
      Is s.au b.n (b.m1 + b.m2 + 1) (fun i j => if j = 0 then fixZero (Mat.entryOf b.compact i 0)
        else Mat.entryOf b.compact i j) ∧
      s.al = Mat.new b.n 0 (0 : K) ∧ s.index.size = b.n ∧ (∀ i, i < b.n → s.index[i]? = some (i + 1)) ∧
      s.d = 1 := by
  have hI := h.is
  obtain ⟨n, m1, m2, cm⟩ := b
  simp only at hm hI ⊢
  subst hm
  unfold decompose
  simp only [shiftRows_m1_zero, bind, Except.bind]
  obtain ⟨sl, hsl, hl, hau, hal, hsz, hix, hd⟩ := forM'_inv
    (fun k (s : Dec K × Nat) => s.2 = k ∧
      Is s.1.au n (0 + m2 + 1) (fun a b => if a < k ∧ b = 0 then fixZero (cm.entryOf a 0)
        else cm.entryOf a b) ∧
      s.1.al = Mat.new n 0 (0 : K) ∧ s.1.index.size = n ∧
      (∀ i, i < k → s.1.index[i]? = some (i + 1)) ∧ s.1.d = 1)
    0 n ((⟨cm, Mat.new n 0 0, Array.replicate n 0, 1⟩ : Dec K), 0) (decStep n (0 + m2 + 1))
    (Nat.zero_le _)
    ⟨rfl, hI.congr (fun a b _ _ => by simp), rfl, by simp, fun i hi => by omega, rfl⟩ (by
      intro k s _ hk ⟨hl, hau, hal, hsz, hix, hd⟩
      obtain ⟨s, l⟩ := s
      simp only at hl hau hal hsz hix hd
      subst hl
      obtain ⟨au', hstep, hI'⟩ := decStep_upper s hk (by omega) hau hsz
      refine ⟨_, hstep, rfl, hI'.congr (fun a b _ _ => by ifs_omega), hal, by simpa using hsz, ?_, hd⟩
      intro i hi
      simp only [Array.getElem?_setIfInBounds]
      by_cases hik : l = i
      · subst hik; simp [hsz, hk]
      · rw [if_neg hik]; exact hix i (by omega))
  refine ⟨sl.1, by rw [hsl]; rfl, hau.congr (fun a b ha _ => by simp [ha]), hal, hsz, hix, hd⟩

/-- (S) for `m1 = 0`, `det` is the ordered product of the (zero-fixed) diagonal -/
theorem det_upper_ordered {b : Band K} (h : WFb b) (hm : b.m1 = 0) :
    det b = .ok ((List.range' 0 b.n).foldl (fun dd i => dd * fixZero (dense b i i)) 1) := by
  obtain ⟨s, hs, hau, _, _, _, hd⟩ := decompose_upper h hm
  unfold det
  simp only [hs, bind, Except.bind, hd]
  obtain ⟨r, hr, hP⟩ := forM'_inv
    (fun k (dd : K) => dd = (List.range' 0 k).foldl (fun dd i => dd * fixZero (dense b i i)) 1)
    0 b.n (1 : K) (fun dd i => do
      let x ← s.au.get i 0
      pure (dd * x)) (Nat.zero_le _) (by simp) (by
      intro k dd _ hk hdd
      have g := hau.get hk (show 0 < b.m1 + b.m2 + 1 by omega)
      have hib : inBand b k k := by unfold inBand; omega
      have hde : dense b k k = Mat.entryOf b.compact k 0 := by
        rw [dense_of_is h.is hib hk hk]; congr 1; omega
      refine ⟨dd * fixZero (dense b k k), ?_, ?_⟩
      · simp only [g, if_true, hde, bind, Except.bind, pure, Except.pure]
      · rw [range'_snoc, List.foldl_append, ← hdd]; simp)
  rw [← hP]; exact hr

/-- the forward-substitution loop of `solve` does nothing when there are no sub-diagonals -/
theorem solve_upper_fwd {b : Band K} (rhs : Array K) (s : Dec K) (hsz : s.index.size = b.n)
    (hix : ∀ i, i < b.n → s.index[i]? = some (i + 1)) (hm : b.m1 = 0) (hr : rhs.size = b.n) :
    forM' 0 b.n (rhs, b.m1) (fun (x, l) k => do
      let ik ← aget s.index k
      let j ← usub ik 1
      let x ← if j ≠ k then Vec.swap x k j else pure x
      let l := if l < b.n then l + 1 else l
      let x ← forM' (k + 1) l x (fun x j => do
        let xk ← aget x k
        let a ← s.al.get k (j - k - 1)
        let xj ← aget x j
        aset x j (xj - a * xk))
      pure (x, l)) = .ok (rhs, b.n) := by
  suffices key : ∃ st, forM' 0 b.n (rhs, b.m1) (fun (x, l) k => do
      let ik ← aget s.index k
      let j ← usub ik 1
      let x ← if j ≠ k then Vec.swap x k j else pure x
      let l := if l < b.n then l + 1 else l
      let x ← forM' (k + 1) l x (fun x j => do
        let xk ← aget x k
        let a ← s.al.get k (j - k - 1)
        let xj ← aget x j
        aset x j (xj - a * xk))
      pure (x, l)) = .ok st ∧ st.1 = rhs ∧ st.2 = b.n by
    obtain ⟨⟨x, l⟩, h1, h2, h3⟩ := key
    simp only at h2 h3
    rw [h1, h2, h3]
  refine forM'_inv (fun k (st : Array K × Nat) => st.1 = rhs ∧ st.2 = k) 0 b.n (rhs, b.m1) _
    (Nat.zero_le _) ⟨rfl, hm⟩ ?_
  intro k st _ hk ⟨e1, e2⟩
  obtain ⟨x, l⟩ := st
  simp only at e1 e2
  subst e1 e2
  have g1 : aget s.index l = .ok (l + 1) := aget_eq_ok.mpr (hix l hk)
  have hkk : ¬ (l ≠ l) := by simp
  refine ⟨(x, l + 1), ?_, rfl, rfl⟩
  simp only [g1, usub_ok (show 1 ≤ l + 1 by omega), Nat.add_sub_cancel, if_neg hkk, if_pos hk,
    Mat.forM'_empty _ _ _ _ (Nat.le_refl _), bind, Except.bind, pure, Except.pure]

/-- (S) more sub-diagonals than rows: `decompose` (hence `det` and `solve`) panics -/
theorem decompose_rejects {b : Band K} (h : WFb b) (hm : b.n < b.m1) :
    decompose b = .error .range := by
  unfold decompose
  exact bind_error (shiftRows_rejects h.is hm)

theorem det_rejects {b : Band K} (h : WFb b) (hm : b.n < b.m1) : det b = .error .range := by
  unfold det
  exact bind_error (decompose_rejects h hm)

theorem solve_rejects_m1 {b : Band K} (h : WFb b) (hm : b.n < b.m1) (rhs : Array K)
    (hr : rhs.size = b.n) : solve b rhs = .error .range := by
  unfold solve
  rw [if_neg (by omega)]
  exact bind_error (decompose_rejects h hm)

end Upper

section UpperLawful
variable [Zero K] [BEq K] [LawfulBEq K]

theorem fixZero_eq (x : K) : fixZero x = x := by
  unfold fixZero
  split
  · rename_i h; exact (beq_iff_eq.mp h).symm
  · rfl

end UpperLawful

/-- over a commutative semiring the dense row of an upper-banded matrix, written with the
    compact slots -/
theorem dense_row_upper {R : Type} [CommSemiring R] {b : Band R} (h : WFb b) (hm : b.m1 = 0)
    {i : Nat} (hi : i < b.n) (X : Nat → R) :
    ∑ j ∈ Finset.range b.n, dense b i j * X j =
      Mat.entryOf b.compact i 0 * X i +
        ∑ k ∈ Finset.Ico 1 (min (b.n - i) (b.m1 + b.m2 + 1)), Mat.entryOf b.compact i k * X (k + i) := by
  have hL : 0 < min (b.n - i) (b.m1 + b.m2 + 1) := by omega
  have e1 : ∑ j ∈ Finset.range b.n, dense b i j * X j =
      ∑ j ∈ Finset.Ico i (i + min (b.n - i) (b.m1 + b.m2 + 1)), dense b i j * X j := by
    symm
    apply Finset.sum_subset
    · intro j hj
      rw [Finset.mem_Ico] at hj
      rw [Finset.mem_range]; omega
    · intro j hj hnj
      rw [Finset.mem_range] at hj
      rw [Finset.mem_Ico] at hnj
      rw [dense_out, zero_mul]
      unfold inBand; omega
  have e2 : ∀ k, k < min (b.n - i) (b.m1 + b.m2 + 1) →
      dense b i (i + k) = Mat.entryOf b.compact i k := by
    intro k hk
    rw [dense_of_is h.is (by unfold inBand; omega) hi (by omega)]
    congr 1; omega
  rw [e1, Finset.sum_Ico_eq_sum_range, Nat.add_sub_cancel_left, Finset.range_eq_Ico,
    Finset.sum_eq_sum_Ico_succ_bot hL, Nat.add_zero]
  have e0 := e2 0 hL
  rw [Nat.add_zero] at e0
  rw [e0]
  congr 1
  apply Finset.sum_congr rfl
  intro k hk
  rw [Finset.mem_Ico] at hk
  rw [e2 k hk.2, Nat.add_comm i k]


section UpperDet
variable [CommRing K] [BEq K] [LawfulBEq K] [ScalarExt K]

theorem foldl_mul_eq_prod (f : Nat → K) : ∀ (n : Nat) (a : K),
    (List.range' 0 n).foldl (fun dd i => dd * f i) a = a * ∏ i ∈ Finset.range n, f i
  | 0, a => by simp
  | n + 1, a => by
    rw [range'_snoc, List.foldl_append, foldl_mul_eq_prod f n a, Finset.prod_range_succ]
    simp [mul_assoc]

/-- (E) for upper-banded storage the determinant is the product of the diagonal -/
theorem det_upper {b : Band K} (h : WFb b) (hm : b.m1 = 0) :
    det b = .ok (∏ i ∈ Finset.range b.n, dense b i i) := by
  rw [det_upper_ordered h hm]
  congr 1
  have : (fun (dd : K) i => dd * fixZero (dense b i i)) = (fun dd i => dd * dense b i i) := by
    funext dd i; rw [fixZero_eq]
  rw [this, foldl_mul_eq_prod, one_mul]

end UpperDet

section UpperE
variable {F : Type} [Field F] [DecidableEq F] [BEq F] [LawfulBEq F] [ScalarExt F] [Alg.DivLaw F]

/-- the inner loop of the back substitution -/
theorem back_dum {au : Mat F} {n mm : Nat} {e : Nat → Nat → F} (hau : Is au n mm e) (x : Array F)
    (hx : x.size = n) {i l : Nat} (hi : i < n) (hl1 : 1 ≤ l) (hl : l ≤ mm) (hli : i + l ≤ n) (xi : F) :
    forM' 1 l xi (fun dum k => do
        let a ← au.get i k
        let xk ← aget x (k + i)
        pure (dum - a * xk)) = .ok (xi - ∑ k ∈ Finset.Ico 1 l, e i k * x[k + i]?.getD 0) := by
  obtain ⟨r, h1, h2⟩ := forM'_inv
    (fun t (d : F) => d = xi - ∑ k ∈ Finset.Ico 1 t, e i k * x[k + i]?.getD 0)
    1 l xi (fun dum k => do
        let a ← au.get i k
        let xk ← aget x (k + i)
        pure (dum - a * xk)) hl1 (by simp) (by
      intro t d ht1 ht2 hd
      have hlt : t + i < x.size := by omega
      refine ⟨d - e i t * x[t + i], ?_, ?_⟩
      · simp only [hau.get hi (show t < mm by omega), aget_ok hlt, bind, Except.bind, pure,
          Except.pure]
      · rw [Finset.sum_Ico_succ_top ht1, hd]
        have : x[t + i]?.getD 0 = x[t + i] := by simp [hlt]
        rw [this]; ring)
  rw [h1, h2]

theorem solve_sound_upper {b : Band F} (h : WFb b) (hm : b.m1 = 0) {rhs x : Array F}
    (hs : solve b rhs = .ok x) :
    x.size = b.n ∧ ∀ i, i < b.n →
      ∑ j ∈ Finset.range b.n, dense b i j * x[j]?.getD 0 = rhs[i]?.getD 0 := by
  obtain ⟨s, hdec, hau, _, hsz, hix, _⟩ := decompose_upper h hm
  unfold solve at hs
  by_cases hn : b.n ≠ rhs.size
  · rw [if_pos hn] at hs; cases hs
  rw [if_neg hn] at hs
  have hr : rhs.size = b.n := by omega
  obtain ⟨s', hs1, hs⟩ := bind_eq_ok hs
  rw [hdec] at hs1
  injection hs1 with hs1
  subst hs1
  obtain ⟨st, hs2, hs⟩ := bind_eq_ok hs
  rw [solve_upper_fwd rhs s hsz hix hm hr] at hs2
  injection hs2 with hs2
  subst hs2
  simp only at hs
  obtain ⟨st, hs3, hs⟩ := bind_eq_ok hs
  injection hs with hs
  subst hs
  -- the entry function of the upper factor
  have he : ∀ a k, (if k = 0 then fixZero (b.compact.entryOf a 0) else b.compact.entryOf a k)
      = b.compact.entryOf a k := by
    intro a k; split
    · rename_i hk; rw [hk, fixZero_eq]
    · rfl
  have hau' : Is s.au b.n (b.m1 + b.m2 + 1) (Mat.entryOf b.compact) :=
    hau.congr (fun a k _ _ => he a k)
  have hQ := foldlM_rev_ok_inv
    (fun j (st : Array F × Nat) => st.1.size = b.n ∧ st.2 = min (b.n - j + 1) (b.m1 + b.m2 + 1) ∧
      (∀ a, a < j → st.1[a]? = rhs[a]?) ∧
      ∀ a, j ≤ a → a < b.n →
        Mat.entryOf b.compact a 0 * st.1[a]?.getD 0 +
          ∑ k ∈ Finset.Ico 1 (min (b.n - a) (b.m1 + b.m2 + 1)),
            Mat.entryOf b.compact a k * st.1[k + a]?.getD 0 = rhs[a]?.getD 0)
    _ b.n (rhs, 1) st ⟨hr, by simp, fun _ _ => rfl, fun a h1 h2 => by omega⟩ (by
      intro i st s1 hi ⟨q1, q2, q3, q4⟩ hf
      obtain ⟨x, l⟩ := st
      simp only at q1 q2 q3 q4 hf
      have hix : i < x.size := by omega
      have hl : l = min (b.n - i) (b.m1 + b.m2 + 1) := by omega
      have hdum := back_dum hau' x q1 hi (l := l) (by omega) (by omega) (by omega) x[i]
      have hp := hau'.get hi (show 0 < b.m1 + b.m2 + 1 by omega)
      simp only [bind, Except.bind, pure, Except.pure] at hdum hf
      simp only [aget_ok hix, hdum, hp, Alg.divM_law] at hf
      by_cases hp0 : Mat.entryOf b.compact i 0 = 0
      · simp [hp0] at hf
      · simp only [hp0, if_false, aset_ok _ hix] at hf
        injection hf with hf
        subst hf
        refine ⟨by simpa using q1, by simp only; split <;> omega, ?_, ?_⟩
        · intro a ha
          simp only [Array.getElem?_setIfInBounds]
          rw [if_neg (by omega)]
          exact q3 a (by omega)
        · intro a ha1 ha2
          simp only [Array.getElem?_setIfInBounds]
          by_cases hai : a = i
          · subst hai
            have hxa : x[a]? = rhs[a]? := q3 a (by omega)
            have e1 : x[a] = rhs[a]?.getD 0 := by
              rw [← hxa]; simp [hix]
            have e2 : ∀ k ∈ Finset.Ico 1 (min (b.n - a) (b.m1 + b.m2 + 1)),
                Mat.entryOf b.compact a k * (if a = k + a then
                  (if a < x.size then some ((x[a] - ∑ k ∈ Finset.Ico 1 l,
                    Mat.entryOf b.compact a k * x[k + a]?.getD 0) / Mat.entryOf b.compact a 0)
                  else none) else x[k + a]?).getD 0
                = Mat.entryOf b.compact a k * x[k + a]?.getD 0 := by
              intro k hk
              rw [Finset.mem_Ico] at hk
              rw [if_neg (by omega)]
            rw [Finset.sum_congr rfl e2, if_pos rfl, if_pos hix, Option.getD_some, hl, e1]
            field_simp
            ring
          · have e2 : ∀ k ∈ Finset.Ico 1 (min (b.n - a) (b.m1 + b.m2 + 1)),
                Mat.entryOf b.compact a k * (if i = k + a then
                  (if i < x.size then some ((x[i] - ∑ k ∈ Finset.Ico 1 l,
                    Mat.entryOf b.compact i k * x[k + i]?.getD 0) / Mat.entryOf b.compact i 0)
                  else none) else x[k + a]?).getD 0
                = Mat.entryOf b.compact a k * x[k + a]?.getD 0 := by
              intro k hk
              rw [if_neg (by omega)]
            rw [Finset.sum_congr rfl e2, if_neg (fun e => hai e.symm)]
            exact q4 a (by omega) ha2) hs3
  obtain ⟨q1, _, _, q4⟩ := hQ
  refine ⟨q1, ?_⟩
  intro i hi
  rw [← q4 i (Nat.zero_le _) hi]
  exact dense_row_upper h hm hi (fun j => st.1[j]?.getD 0)
/-- (E) for upper-banded storage with a nowhere-zero diagonal `solve` succeeds (so the hypothesis
    of `solve_sound_upper` is satisfiable for every such matrix and right-hand side) -/
theorem solve_upper_complete {b : Band F} (h : WFb b) (hm : b.m1 = 0) {rhs : Array F}
    (hr : rhs.size = b.n) (hd : ∀ i, i < b.n → dense b i i ≠ 0) :
    ∃ x, solve b rhs = .ok x ∧ x.size = b.n := by
  obtain ⟨s, hdec, hau, _, hsz, hix, _⟩ := decompose_upper h hm
  have he : ∀ a k, (if k = 0 then fixZero (b.compact.entryOf a 0) else b.compact.entryOf a k)
      = b.compact.entryOf a k := by
    intro a k; split
    · rename_i hk; rw [hk, fixZero_eq]
    · rfl
  have hau' : Is s.au b.n (b.m1 + b.m2 + 1) (Mat.entryOf b.compact) :=
    hau.congr (fun a k _ _ => he a k)
  have hn : ¬ b.n ≠ rhs.size := by omega
  unfold solve
  rw [if_neg hn]
  refine bind_ok_of (fun s' => s' = s) ⟨s, hdec, rfl⟩ ?_
  intro s' hs'
  subst hs'
  refine bind_ok_of (fun st => st = (rhs, b.n)) ⟨_, solve_upper_fwd rhs s' hsz hix hm hr, rfl⟩ ?_
  intro st hst
  subst hst
  simp only
  refine bind_ok_of (fun st => st.1.size = b.n ∧ st.2 = min (b.n - 0 + 1) (b.m1 + b.m2 + 1)) ?_
    (fun st hst => ⟨st.1, rfl, hst.1⟩)
  refine foldlM_rev_inv
    (fun j (st : Array F × Nat) => st.1.size = b.n ∧ st.2 = min (b.n - j + 1) (b.m1 + b.m2 + 1))
    _ b.n (rhs, 1) ⟨hr, by simp⟩ ?_
  intro i st hi ⟨q1, q2⟩
  obtain ⟨x, l⟩ := st
  simp only at q1 q2 ⊢
  have hix : i < x.size := by omega
  have hdum := back_dum hau' x q1 hi (l := l) (by omega) (by omega) (by omega) x[i]
  have hp := hau'.get hi (show 0 < b.m1 + b.m2 + 1 by omega)
  have hp0 : Mat.entryOf b.compact i 0 ≠ 0 := by
    have := hd i hi
    rwa [dense_of_is h.is (by unfold inBand; omega) hi hi, show b.m1 + i - i = 0 by omega] at this
  simp only [bind, Except.bind, pure, Except.pure] at hdum ⊢
  simp only [aget_ok hix, hdum, hp, Alg.divM_law, if_neg hp0, aset_ok _ hix]
  refine ⟨_, rfl, by simpa using q1, by simp only; split <;> omega⟩

end UpperE

/-! ### the compact LU with row exchanges (`bandec`) and the two substitution loops (`banbks`),
    over an exact field (`Alg.DivLaw`; any pivot comparison): `solve` is sound for every `m1 ≤ n` -/
section FullLU
variable {F : Type} [Field F] [DecidableEq F] [BEq F] [LawfulBEq F] [ScalarExt F] [Alg.DivLaw F]

/-- the multiplier of row `i` against pivot row `k` (zero when the pivot is zero) -/
def mult (e : Nat → Nat → F) (k i : Nat) : F := if e k 0 = 0 then 0 else e i 0 / e k 0

theorem elim_inner {au : Mat F} {n mm : Nat} {e : Nat → Nat → F} (hau : Is au n mm e) {k i : Nat}
    (hk : k < n) (hi : i < n) (hki : k ≠ i) (dum : F) :
    ∃ au', forM' 1 mm au (fun au j => do
        let x ← au.get i j
        let y ← au.get k j
        au.set i (j - 1) (x - dum * y)) = .ok au' ∧
      Is au' n mm (fun a b => if a = i ∧ b + 1 < mm then e i (b + 1) - dum * e k (b + 1) else e a b) := by
  by_cases hmm : 1 ≤ mm
  · refine forM'_inv (fun t (s : Mat F) => Is s n mm
      (fun a b => if a = i ∧ b + 1 < t then e i (b + 1) - dum * e k (b + 1) else e a b))
      1 mm au _ hmm (hau.congr (fun a b _ _ => by ifs_omega)) ?_
    intro t s ht1 ht2 hs
    have g1 := hs.get hi ht2
    have g2 := hs.get hk ht2
    rw [if_neg (by omega)] at g1 g2
    obtain ⟨s', hs', hI⟩ := hs.set hi (show t - 1 < mm by omega) (e i t - dum * e k t)
    refine ⟨s', by simp only [g1, g2, bind, Except.bind]; exact hs', hI.congr ?_⟩
    intro a b _ _
    by_cases hab : a = i ∧ b = t - 1
    · obtain ⟨rfl, rfl⟩ := hab
      have e1 : t - 1 + 1 = t := by omega
      simp [e1]
    · rw [if_neg hab]
      ifs_omega
  · have : mm = 0 := by omega
    subst this
    exact ⟨au, Mat.forM'_empty _ _ _ _ (by omega), hau.congr (fun a b _ hb => by omega)⟩

theorem decElim_spec {au al : Mat F} {n mm m1 : Nat} {e ea : Nat → Nat → F}
    (hau : Is au n mm e) (hal : Is al n m1 ea) {k i : Nat} (hk : k < n) (hi : i < n) (hki : k < i)
    (him : i - k - 1 < m1) (hmm : 0 < mm) :
    ∃ au' al', decElim mm k (au, al) i = .ok (au', al') ∧
      Is au' n mm (fun a b => if a = i then
        (if b + 1 < mm then e i (b + 1) - mult e k i * e k (b + 1) else 0) else e a b) ∧
      Is al' n m1 (fun a b => if a = k ∧ b = i - k - 1 then mult e k i else ea a b) := by
  have g1 := hau.get hi hmm
  have g2 := hau.get hk hmm
  have hb : ((e k 0 == 0) = true) = (e k 0 = 0) := propext beq_iff_eq
  obtain ⟨al', ha', hIa⟩ := hal.set hk him (mult e k i)
  obtain ⟨a1, h1, hI1⟩ := elim_inner hau hk hi (by omega) (mult e k i)
  obtain ⟨a2, h2, hI2⟩ := hI1.set hi (show mm - 1 < mm by omega) (0 : F)
  refine ⟨a2, al', ?_, hI2.congr ?_, hIa⟩
  · unfold decElim
    simp only [bind, Except.bind, pure, Except.pure] at h1 ⊢
    by_cases hp : e k 0 = 0
    · have hm : mult e k i = 0 := by simp [mult, hp]
      rw [hm] at ha' h1
      simp only [g1, g2, hp, beq_self_eq_true, if_true, ha', h1, h2]
    · have hm : mult e k i = e i 0 / e k 0 := by simp [mult, hp]
      rw [hm] at ha' h1
      simp only [g1, g2, hb, hp, if_false, Alg.divM_law, ha', h1, h2]
  · intro a b _ _
    ifs_omega

/-- compact entries after eliminating rows `k < a < l` against pivot row `k` -/
def elimE (mm : Nat) (e : Nat → Nat → F) (k l : Nat) : Nat → Nat → F := fun a b =>
  if k < a ∧ a < l then (if b + 1 < mm then e a (b + 1) - mult e k a * e k (b + 1) else 0)
  else e a b

/-- stored multipliers after step `k` -/
def elimA (e ea : Nat → Nat → F) (k l : Nat) : Nat → Nat → F := fun a b =>
  if a = k ∧ b + k + 1 < l then mult e k (b + k + 1) else ea a b

theorem elimLoop_spec {au al : Mat F} {n mm m1 : Nat} {e ea : Nat → Nat → F}
    (hau : Is au n mm e) (hal : Is al n m1 ea) {k l : Nat} (hk : k < n) (hkl : k + 1 ≤ l)
    (hln : l ≤ n) (hlm : l ≤ k + m1 + 1) (hmm : 0 < mm) :
    ∃ st, forM' (k + 1) l (au, al) (decElim mm k) = .ok st ∧
      Is st.1 n mm (elimE mm e k l) ∧ Is st.2 n m1 (elimA e ea k l) := by
  refine forM'_inv (fun t (st : Mat F × Mat F) => Is st.1 n mm (elimE mm e k t) ∧
      Is st.2 n m1 (elimA e ea k t)) (k + 1) l (au, al) _ hkl
    ⟨hau.congr (fun a b _ _ => by unfold elimE; ifs_omega),
     hal.congr (fun a b _ _ => by unfold elimA; ifs_omega)⟩ ?_
  intro t st ht1 ht2 ⟨h1, h2⟩
  obtain ⟨au1, al1⟩ := st
  simp only at h1 h2
  obtain ⟨au', al', hs, hI1, hI2⟩ := decElim_spec h1 h2 hk (show t < n by omega) (by omega)
    (by omega) hmm
  have r1 : ∀ b, elimE mm e k t t b = e t b := by
    intro b; unfold elimE; rw [if_neg (by omega)]
  have r2 : ∀ b, elimE mm e k t k b = e k b := by
    intro b; unfold elimE; rw [if_neg (by omega)]
  have r3 : mult (elimE mm e k t) k t = mult e k t := by
    unfold mult; rw [r1, r2]
  refine ⟨(au', al'), hs, hI1.congr ?_, hI2.congr ?_⟩
  · intro a b _ _
    simp only [r1, r2, r3]
    unfold elimE
    ifs_omega
  · intro a b _ _
    simp only [r3]
    unfold elimA
    by_cases hab : a = k ∧ b = t - k - 1
    · obtain ⟨rfl, rfl⟩ := hab
      have e1 : t - a - 1 + a + 1 = t := by omega
      simp [e1]
    · rw [if_neg hab]
      ifs_omega

/-- the pivot search returns some row of the window together with its first slot -/
theorem pivotLoop_spec {au : Mat F} {n mm : Nat} {e : Nat → Nat → F} (hau : Is au n mm e)
    {k l : Nat} (hkl : k + 1 ≤ l) (hln : l ≤ n) (hmm : 0 < mm) :
    ∃ ip, k ≤ ip ∧ ip < l ∧
      forM' (k + 1) l (e k 0, k) (fun (dum, i) j => do
        let x ← au.get j 0
        if ScalarExt.lt (ScalarExt.mag dum) (ScalarExt.mag x) then pure (x, j) else pure (dum, i))
        = .ok (e ip 0, ip) := by
  suffices key : ∃ st, forM' (k + 1) l (e k 0, k) (fun (dum, i) j => do
        let x ← au.get j 0
        if ScalarExt.lt (ScalarExt.mag dum) (ScalarExt.mag x) then pure (x, j) else pure (dum, i))
        = .ok st ∧ st.1 = e st.2 0 ∧ k ≤ st.2 ∧ st.2 < l by
    obtain ⟨⟨d, ip⟩, h1, h2, h3, h4⟩ := key
    simp only at h2 h3 h4
    exact ⟨ip, h3, h4, by rw [h1, h2]⟩
  refine forM'_inv (fun t (st : F × Nat) => st.1 = e st.2 0 ∧ k ≤ st.2 ∧ st.2 < t) (k + 1) l
    (e k 0, k) _ hkl ⟨rfl, Nat.le_refl _, by simp⟩ ?_
  intro t st ht1 ht2 ⟨h1, h2, h3⟩
  obtain ⟨d, ip⟩ := st
  simp only at h1 h2 h3
  have g := hau.get (show t < n by omega) hmm
  simp only [g, bind, Except.bind, pure, Except.pure]
  split
  · exact ⟨_, rfl, rfl, by simp only; omega, by simp only; omega⟩
  · exact ⟨_, rfl, h1, h2, by simp only; omega⟩

/-- the exchange loop of `decompose` is `swap_rows` -/
theorem swapLoop_spec {au : Mat F} {n mm : Nat} {e : Nat → Nat → F} (hau : Is au n mm e)
    {k ip : Nat} (hk : k < n) (hip : ip < n) :
    ∃ au', forM' 0 mm au (fun au j => Mat.swapElem au k j ip j) = .ok au' ∧
      Is au' n mm (fun a b => if a = k then e ip b else if a = ip then e k b else e a b) := by
  have := Mat.swapRows_spec hau hk hip
  have hg : ¬ (n ≤ k ∨ n ≤ ip) := by omega
  simp only [Mat.swapRows, hau.rows, hau.cols, hg, if_false] at this
  exact this

/-- a zero pivot is overwritten by the literal zero -/
def zeroFix (e : Nat → Nat → F) (k ip : Nat) : Nat → Nat → F := fun a b =>
  if e ip 0 = 0 ∧ a = k ∧ b = 0 then 0 else e a b

/-- exchange of rows `k` and `ip` -/
def swapR (e : Nat → Nat → F) (k ip : Nat) : Nat → Nat → F := fun a b =>
  if a = k then e ip b else if a = ip then e k b else e a b

theorem decStep_spec {s : Dec F} {n mm m1 l k : Nat} {e ea : Nat → Nat → F}
    (hau : Is s.au n mm e) (hal : Is s.al n m1 ea) (hidx : s.index.size = n) (hk : k < n)
    (hmm : 0 < mm) (hl : l = min (m1 + k) n) :
    ∃ ip au' al', k ≤ ip ∧ ip < min (m1 + k + 1) n ∧
      decStep n mm (s, l) k = .ok (⟨au', al', s.index.setIfInBounds k (ip + 1),
        if ip ≠ k then -s.d else s.d⟩, min (m1 + k + 1) n) ∧
      Is au' n mm (elimE mm (swapR (zeroFix e k ip) k ip) k (min (m1 + k + 1) n)) ∧
      Is al' n m1 (elimA (swapR (zeroFix e k ip) k ip) ea k (min (m1 + k + 1) n)) := by
  have hl' : (if l < n then l + 1 else l) = min (m1 + k + 1) n := by split <;> omega
  have g0 := hau.get hk hmm
  obtain ⟨ip, hip1, hip2, hpiv⟩ := pivotLoop_spec hau (k := k) (l := min (m1 + k + 1) n)
    (by omega) (by omega) hmm
  have hipn : ip < n := by omega
  have hb : ((e ip 0 == 0) = true) = (e ip 0 = 0) := propext beq_iff_eq
  -- zero fix
  obtain ⟨au0, h0, hI0⟩ : ∃ au0, (if (e ip 0 == 0) = true then s.au.set k 0 0 else pure s.au)
      = .ok au0 ∧ Is au0 n mm (zeroFix e k ip) := by
    by_cases hz : e ip 0 = 0
    · obtain ⟨v, hv, hI⟩ := hau.set hk hmm (0 : F)
      refine ⟨v, by rw [if_pos (by rw [hb]; exact hz), hv], hI.congr (fun a b _ _ => ?_)⟩
      unfold zeroFix; simp [hz]
    · refine ⟨s.au, by rw [if_neg (by rw [hb]; exact hz)]; rfl, hau.congr (fun a b _ _ => ?_)⟩
      unfold zeroFix; simp [hz]
  -- exchange
  obtain ⟨au1, h1, hI1⟩ := swapLoop_spec hI0 hk hipn
  have hI1' : ∃ au1', (if ip ≠ k then (do
        let au ← forM' 0 mm au0 (fun au j => Mat.swapElem au k j ip j)
        pure (au, -s.d)) else pure (au0, s.d)) = .ok (au1', if ip ≠ k then -s.d else s.d) ∧
      Is au1' n mm (swapR (zeroFix e k ip) k ip) := by
    by_cases hik : ip = k
    · refine ⟨au0, by simp [hik, pure, Except.pure], hI0.congr (fun a b _ _ => ?_)⟩
      unfold swapR; subst hik
      by_cases ha : a = ip
      · subst ha; simp
      · simp [ha]
    · refine ⟨au1, by simp [hik, h1, bind, Except.bind, pure, Except.pure], hI1⟩
  obtain ⟨au1', h1', hI1''⟩ := hI1'
  obtain ⟨st, h2, hI2, hI3⟩ := elimLoop_spec hI1'' hal hk (l := min (m1 + k + 1) n) (by omega)
    (by omega) (by omega) hmm
  obtain ⟨au2, al2⟩ := st
  refine ⟨ip, au2, al2, hip1, hip2, ?_, hI2, hI3⟩
  unfold decStep
  simp only [bind, Except.bind, pure, Except.pure] at hpiv h0 h1' ⊢
  simp only [g0, hl', hpiv, aset_ok _ (show k < s.index.size by omega)]
  by_cases hz : (e ip 0 == 0) = true
  · rw [if_pos hz] at h0
    by_cases hik : ip ≠ k
    · simp only [if_pos hik, h1] at h1'
      injection h1' with h1'; injection h1' with h1' _; subst h1'
      simp only [if_pos hz, if_pos hik, h0, h1, h2]
    · simp only [if_neg hik] at h1'
      injection h1' with h1'; injection h1' with h1' _; subst h1'
      simp only [if_pos hz, if_neg hik, h0, h2]
  · rw [if_neg hz] at h0
    injection h0 with h0; subst h0
    by_cases hik : ip ≠ k
    · simp only [if_pos hik, h1] at h1'
      injection h1' with h1'; injection h1' with h1' _; subst h1'
      simp only [if_neg hz, if_pos hik, h1, h2]
    · simp only [if_neg hik] at h1'
      injection h1' with h1'; injection h1' with h1' _; subst h1'
      simp only [if_neg hz, if_neg hik, h2]

/-! #### the dense twin of the compact working matrix -/

/-- first matrix column of compact row `i` before step `k`: finished rows start at their diagonal,
    the rows of the window `[k, l)` are aligned to column `k`, untouched rows start at `i - m1` -/
def off (m1 k l i : Nat) : Nat := if i < k then i else if i < l then k else i - m1

/-- dense twin of the compact working matrix before step `k` -/
def twin (m1 mm k l : Nat) (e : Nat → Nat → F) (i c : Nat) : F :=
  if off m1 k l i ≤ c ∧ c < off m1 k l i + mm then e i (c - off m1 k l i) else 0

/-- `z` solves the system with matrix `M` and right-hand side `y` -/
def SolF (n : Nat) (M : Nat → Nat → F) (y z : Nat → F) : Prop :=
  ∀ i, i < n → ∑ j ∈ Finset.range n, M i j * z j = y i

def swapV (y : Nat → F) (k ip : Nat) : Nat → F := fun a =>
  if a = k then y ip else if a = ip then y k else y a

theorem SolF.congr {n : Nat} {M M' : Nat → Nat → F} {y y' z : Nat → F}
    (hM : ∀ a c, a < n → c < n → M' a c = M a c) (hy : ∀ a, a < n → y' a = y a)
    (h : SolF n M y z) : SolF n M' y' z := by
  intro i hi
  rw [hy i hi, ← h i hi]
  exact Finset.sum_congr rfl (fun j hj => by rw [hM i j hi (Finset.mem_range.mp hj)])

/-- exchanging two equations does not change the solution set -/
theorem SolF.of_swap {n k ip : Nat} (hk : k < n) (hip : ip < n) {M : Nat → Nat → F}
    {y z : Nat → F} (h : SolF n (swapR M k ip) (swapV y k ip) z) : SolF n M y z := by
  intro i hi
  by_cases hik : i = k
  · subst hik
    have := h ip hip
    by_cases hpi : ip = i
    · subst hpi; simpa [swapR, swapV] using this
    · simpa [swapR, swapV, hpi] using this
  · by_cases hip' : i = ip
    · subst hip'
      have := h k hk
      simpa [swapR, swapV] using this
    · have := h i hi
      simpa [swapR, swapV, hik, hip'] using this

/-- subtracting multiples of equation `k` from the equations `k < a < l` does not change the
    solution set -/
theorem SolF.of_elim {n k l : Nat} (hk : k < n) (μ : Nat → F) {M : Nat → Nat → F}
    {y z : Nat → F}
    (h : SolF n (fun a c => if k < a ∧ a < l then M a c - μ a * M k c else M a c)
      (fun a => if k < a ∧ a < l then y a - μ a * y k else y a) z) : SolF n M y z := by
  have hrow : ∑ j ∈ Finset.range n, M k j * z j = y k := by
    have := h k hk
    simpa using this
  intro i hi
  by_cases hc : k < i ∧ i < l
  · have := h i hi
    simp only [hc, and_self, if_true] at this
    have e1 : ∑ j ∈ Finset.range n, (M i j - μ i * M k j) * z j =
        ∑ j ∈ Finset.range n, M i j * z j - μ i * ∑ j ∈ Finset.range n, M k j * z j := by
      rw [Finset.mul_sum, ← Finset.sum_sub_distrib]
      exact Finset.sum_congr rfl (fun j _ => by ring)
    rw [e1, hrow] at this
    linear_combination this
  · have := h i hi
    simpa [hc] using this

theorem twin_window {n m1 mm k : Nat} (e : Nat → Nat → F) {a : Nat} (ha : a < n) (c : Nat) :
    twin m1 mm k (min (m1 + k) n) e a c = twin m1 mm k (min (m1 + k + 1) n) e a c := by
  have : off m1 k (min (m1 + k) n) a = off m1 k (min (m1 + k + 1) n) a := by
    unfold off; ifs_omega
  unfold twin; rw [this]

theorem twin_swap {m1 mm k l ip : Nat} (e : Nat → Nat → F) (hk : k < l) (h1 : k ≤ ip) (h2 : ip < l)
    (a c : Nat) : twin m1 mm k l (swapR e k ip) a c = swapR (twin m1 mm k l e) k ip a c := by
  have o1 : off m1 k l k = k := by unfold off; ifs_omega
  have o2 : off m1 k l ip = k := by unfold off; ifs_omega
  unfold swapR
  by_cases hak : a = k
  · subst hak
    simp only [twin, if_true, o1, o2]
  · by_cases hai : a = ip
    · subst hai
      simp only [twin, hak, if_false, if_true, o1, o2]
    · simp only [twin, hak, hai, if_false]

theorem twin_elim {m1 mm k l : Nat} (e : Nat → Nat → F) (hk : k < l) (hp : e k 0 ≠ 0) (a c : Nat) :
    twin m1 mm (k + 1) l (elimE mm e k l) a c =
      if k < a ∧ a < l then twin m1 mm k l e a c - mult e k a * twin m1 mm k l e k c
      else twin m1 mm k l e a c := by
  have o1 : off m1 k l k = k := by unfold off; ifs_omega
  by_cases hw : k < a ∧ a < l
  · have o2 : off m1 (k + 1) l a = k + 1 := by unfold off; ifs_omega
    have o3 : off m1 k l a = k := by unfold off; ifs_omega
    rw [if_pos hw]
    simp only [twin, o1, o2, o3, elimE, hw, and_self, if_true]
    by_cases h1 : c < k
    · rw [if_neg (by omega), if_neg (by omega), if_neg (by omega)]; ring
    · by_cases h2 : c = k
      · subst h2
        rw [if_neg (by omega)]
        by_cases hmm : 0 < mm
        · rw [if_pos (by omega), if_pos (by omega), Nat.sub_self]
          unfold mult
          rw [if_neg hp]
          field_simp
          ring
        · rw [if_neg (by omega), if_neg (by omega)]; ring
      · by_cases h3 : c < k + mm
        · have e1 : c - (k + 1) + 1 = c - k := by omega
          rw [if_pos (by omega), if_pos (by omega), if_pos (by omega), if_pos (by omega), e1]
        · by_cases h4 : c = k + mm
          · rw [if_pos (by omega), if_neg (by omega), if_neg (by omega), if_neg (by omega)]; ring
          · rw [if_neg (by omega), if_neg (by omega), if_neg (by omega)]; ring
  · have o2 : off m1 (k + 1) l a = off m1 k l a := by unfold off; ifs_omega
    rw [if_neg hw]
    simp only [twin, o2, elimE, hw, if_false]

/-! #### replay of the recorded exchanges and multipliers on a right-hand side -/

/-- one forward step on a vector: exchange `k ↔ ip`, then subtract the stored multiples -/
def fwdStep (ea : Nat → Nat → F) (k l ip : Nat) (y : Nat → F) : Nat → F := fun a =>
  if k < a ∧ a < l then swapV y k ip a - ea k (a - k - 1) * swapV y k ip k else swapV y k ip a

/-- the first `k` forward steps -/
def fwd (n m1 : Nat) (ea : Nat → Nat → F) (idx : Nat → Nat) : Nat → (Nat → F) → (Nat → F)
  | 0, y => y
  | k + 1, y => fwdStep ea k (min (m1 + k + 1) n) (idx k - 1) (fwd n m1 ea idx k y)

theorem fwd_congr {n m1 : Nat} {ea ea' : Nat → Nat → F} {idx idx' : Nat → Nat} :
    ∀ (k : Nat), (∀ k', k' < k → (∀ b, b < m1 → ea' k' b = ea k' b) ∧ idx' k' = idx k') →
      ∀ y, fwd n m1 ea' idx' k y = fwd n m1 ea idx k y
  | 0, _, _ => rfl
  | k + 1, h, y => by
    simp only [fwd]
    rw [fwd_congr k (fun k' hk' => h k' (by omega)) y, (h k (by omega)).2]
    funext a
    unfold fwdStep
    by_cases hc : k < a ∧ a < min (m1 + k + 1) n
    · rw [if_pos hc, if_pos hc, (h k (by omega)).1 (a - k - 1) (by omega)]
    · rw [if_neg hc, if_neg hc]

theorem twin_congr {n m1 mm k l : Nat} {e e' : Nat → Nat → F}
    (h : ∀ a b, a < n → b < mm → e' a b = e a b) {a : Nat} (ha : a < n) (c : Nat) :
    twin m1 mm k l e' a c = twin m1 mm k l e a c := by
  unfold twin
  by_cases hc : off m1 k l a ≤ c ∧ c < off m1 k l a + mm
  · rw [if_pos hc, if_pos hc, h a _ ha (by omega)]
  · rw [if_neg hc, if_neg hc]

theorem zeroFix_eq {e : Nat → Nat → F} {k ip : Nat} (h : e ip 0 ≠ 0) : zeroFix e k ip = e := by
  funext a b; unfold zeroFix; rw [if_neg (fun hc => h hc.1)]

/-- canonical index function of the exchange record -/
def idxf (index : Array Nat) (k : Nat) : Nat := index[k]?.getD 0

/-- invariant of the pivot loop of `decompose` (before step `k`) -/
def DecInv (n m1 mm : Nat) (A : Nat → Nat → F) (k : Nat) (st : Dec F × Nat) : Prop :=
  st.2 = min (m1 + k) n ∧ Is st.1.au n mm (Mat.entryOf st.1.au) ∧
  Is st.1.al n m1 (Mat.entryOf st.1.al) ∧ st.1.index.size = n ∧
  (∀ k', k' < k → k' < idxf st.1.index k' ∧ idxf st.1.index k' ≤ min (m1 + k' + 1) n) ∧
  ((∃ k', k' < k ∧ Mat.entryOf st.1.au k' 0 = 0) ∨
   (∀ y z, SolF n (twin m1 mm k (min (m1 + k) n) (Mat.entryOf st.1.au))
      (fwd n m1 (Mat.entryOf st.1.al) (idxf st.1.index) k y) z → SolF n A y z))

theorem decStep_inv {n m1 mm k : Nat} {A : Nat → Nat → F} {st : Dec F × Nat} (hk : k < n)
    (hmm : 0 < mm) (h : DecInv n m1 mm A k st) :
    ∃ st', decStep n mm st k = .ok st' ∧ DecInv n m1 mm A (k + 1) st' := by
  obtain ⟨s, l⟩ := st
  obtain ⟨hl, hau, hal, hsz, hidx, hgb⟩ := h
  simp only at hl hau hal hsz hidx hgb
  obtain ⟨ip, au', al', hip1, hip2, hstep, hI1, hI2⟩ := decStep_spec hau hal hsz hk hmm hl
  refine ⟨_, hstep, rfl, hI1.canon, hI2.canon, by simpa using hsz, ?_, ?_⟩
  · -- exchange record
    intro k' hk'
    simp only [idxf, Array.getElem?_setIfInBounds]
    by_cases hkk : k = k'
    · subst hkk
      simp only [if_true, hsz, hk, Option.getD_some]
      omega
    · rw [if_neg hkk]
      exact hidx k' (by omega)
  · -- solution sets
    have hkl : k < min (m1 + k + 1) n := by omega
    have ent0 : ∀ a, a < n → Mat.entryOf au' a 0 =
        elimE mm (swapR (zeroFix (Mat.entryOf s.au) k ip) k ip) k (min (m1 + k + 1) n) a 0 :=
      fun a ha => hI1.entryOf_eq ha hmm
    rcases hgb with ⟨k', hk', hz⟩ | hgood
    · left
      refine ⟨k', by omega, ?_⟩
      simp only
      rw [ent0 k' (by omega)]
      have c1 : ¬ (k < k' ∧ k' < min (m1 + k + 1) n) := by omega
      have c2 : ¬ k' = k := by omega
      have c3 : ¬ k' = ip := by omega
      simp only [elimE, swapR, zeroFix, c1, c2, c3, if_false, false_and, and_false]
      exact hz
    · by_cases hp : Mat.entryOf s.au ip 0 = 0
      · left
        refine ⟨k, by omega, ?_⟩
        simp only
        rw [ent0 k hk]
        have c1 : ¬ (k < k ∧ k < min (m1 + k + 1) n) := by omega
        simp only [elimE, swapR, zeroFix, c1, if_false, if_true, hp, true_and]
        split <;> rfl
      · right
        intro y z hS
        simp only [← Nat.add_assoc] at hS
        apply hgood y z
        rw [zeroFix_eq hp] at hI1 hI2
        have hp1 : swapR (Mat.entryOf s.au) k ip k 0 ≠ 0 := by simpa [swapR] using hp
        refine SolF.congr (fun a c ha _ => twin_window (Mat.entryOf s.au) ha c) (fun _ _ => rfl) ?_
        apply SolF.of_swap hk (show ip < n by omega)
        apply SolF.of_elim hk (fun a => mult (swapR (Mat.entryOf s.au) k ip) k a)
          (l := min (m1 + k + 1) n)
        refine SolF.congr ?_ ?_ hS
        · intro a c ha hc
          symm
          rw [twin_congr (fun a b ha hb => hI1.entryOf_eq ha hb) ha c,
            twin_elim _ hkl hp1, twin_swap _ hkl hip1 hip2, twin_swap _ hkl hip1 hip2]
        · intro a ha
          simp only [fwd]
          have hfr : fwd n m1 (Mat.entryOf al') (idxf (s.index.setIfInBounds k (ip + 1))) k y =
              fwd n m1 (Mat.entryOf s.al) (idxf s.index) k y := by
            apply fwd_congr
            intro k' hk'
            refine ⟨fun b hb => ?_, ?_⟩
            · rw [hI2.entryOf_eq (show k' < n by omega) hb]
              unfold elimA
              rw [if_neg (by omega)]
            · simp only [idxf, Array.getElem?_setIfInBounds]
              rw [if_neg (by omega)]
          have hix : idxf (s.index.setIfInBounds k (ip + 1)) k - 1 = ip := by
            simp [idxf, Array.getElem?_setIfInBounds, hsz, hk]
          rw [hfr, hix]
          unfold fwdStep
          by_cases hc : k < a ∧ a < min (m1 + k + 1) n
          · rw [if_pos hc, if_pos hc, hI2.entryOf_eq hk (show a - k - 1 < m1 by omega)]
            unfold elimA
            have e1 : a - k - 1 + k + 1 = a := by omega
            rw [if_pos ⟨rfl, by omega⟩, e1]
          · rw [if_neg hc, if_neg hc]

/-- the dense twin of the compact matrix after the first phase is the dense twin of `b` -/
theorem twin_zero {b : Band F} (h : WFb b) {a c : Nat} (ha : a < b.n) (hc : c < b.n) :
    twin b.m1 (b.m1 + b.m2 + 1) 0 b.m1 (shifted b.m1 b.m2 (Mat.entryOf b.compact)) a c =
      dense b a c := by
  have o : off b.m1 0 b.m1 a = a - b.m1 := by
    unfold off
    rw [if_neg (by omega)]
    split
    · omega
    · rfl
  unfold twin
  rw [o]
  by_cases hw : a - b.m1 ≤ c ∧ c < a - b.m1 + (b.m1 + b.m2 + 1)
  · rw [if_pos hw]
    by_cases ht : (c - (a - b.m1)) + (b.m1 - a) < b.m1 + b.m2 + 1
    · rw [shifted_dense h ha ht (by omega)]
      congr 1; omega
    · rw [dense_out (by unfold inBand; omega)]
      unfold shifted
      rw [if_pos (by omega), if_neg ht]
  · rw [if_neg hw, dense_out (by unfold inBand; omega)]

/-- (E) `decompose` (for `m1 ≤ n`) always succeeds over a field, and its result satisfies the
    invariant `DecInv` at `k = n` with respect to the dense twin of `b` -/
theorem decompose_inv {b : Band F} (h : WFb b) (hm : b.m1 ≤ b.n) :
    ∃ s l, decompose b = .ok s ∧ DecInv b.n b.m1 (b.m1 + b.m2 + 1) (dense b) b.n (s, l) := by
  obtain ⟨au0, h0, hI0⟩ := shiftRows_spec h.is hm
  unfold decompose
  simp only [h0, bind, Except.bind]
  obtain ⟨st, hst, hinv⟩ := forM'_inv (DecInv b.n b.m1 (b.m1 + b.m2 + 1) (dense b)) 0 b.n
    ((⟨au0, Mat.new b.n b.m1 0, Array.replicate b.n 0, 1⟩ : Dec F), b.m1)
    (decStep b.n (b.m1 + b.m2 + 1)) (Nat.zero_le _)
    ⟨by simp only; omega, hI0.canon, (Mat.Is.of_new b.n b.m1 (0 : F)).canon, by simp,
      fun k' hk' => by omega, Or.inr (by
        intro y z hS
        refine SolF.congr ?_ (fun _ _ => rfl) hS
        intro a c ha hc
        simp only [Nat.add_zero, Nat.min_eq_left hm]
        rw [twin_congr (fun a b ha hb => hI0.entryOf_eq ha hb) ha c, twin_zero h ha hc])⟩
    (fun k st _ hk hinv => decStep_inv hk (by omega) hinv)
  obtain ⟨s, l⟩ := st
  exact ⟨s, l, by rw [hst]; rfl, hinv⟩

/-! #### the two substitution loops of `solve` -/

theorem getD_set {x : Array F} {i : Nat} (v : F) (h : i < x.size) (a : Nat) :
    (x.setIfInBounds i v)[a]?.getD 0 = if a = i then v else x[a]?.getD 0 := by
  rw [Array.getElem?_setIfInBounds]
  by_cases hai : a = i
  · subst hai; simp [h]
  · rw [if_neg (fun e => hai e.symm), if_neg hai]

theorem aget_getD {x : Array F} {i : Nat} (h : i < x.size) : aget x i = .ok (x[i]?.getD 0) := by
  rw [aget_ok h]; simp [h]

theorem vswap_spec {x : Array F} {k j : Nat} (hk : k < x.size) (hj : j < x.size) :
    ∃ x', Vec.swap x k j = .ok x' ∧ x'.size = x.size ∧
      ∀ a, x'[a]?.getD 0 = swapV (fun a => x[a]?.getD 0) k j a := by
  have hk' : k < (x.setIfInBounds k (x[j]?.getD 0)).size := by simpa using hk
  have hj' : j < (x.setIfInBounds k (x[j]?.getD 0)).size := by simpa using hj
  refine ⟨(x.setIfInBounds k (x[j]?.getD 0)).setIfInBounds j (x[k]?.getD 0), ?_, by simp, ?_⟩
  · simp only [Vec.swap, aget_getD hk, aget_getD hj, aset_ok _ hk, aset_ok _ hj', bind, Except.bind]
  · intro a
    rw [getD_set _ hj', getD_set _ hk]
    unfold swapV
    by_cases h1 : a = j
    · subst h1
      by_cases h2 : a = k
      · subst h2; simp
      · simp [h2]
    · simp [h1]

/-- inner loop of the forward substitution -/
theorem fwd_inner {al : Mat F} {n m1 : Nat} {ea : Nat → Nat → F} (hal : Is al n m1 ea)
    (x : Array F) (hx : x.size = n) {k l : Nat} (hk : k < n) (hkl : k + 1 ≤ l) (hln : l ≤ n)
    (hlm : l ≤ m1 + k + 1) :
    ∃ x', forM' (k + 1) l x (fun x j => do
        let xk ← aget x k
        let a ← al.get k (j - k - 1)
        let xj ← aget x j
        aset x j (xj - a * xk)) = .ok x' ∧ x'.size = n ∧
      ∀ a, x'[a]?.getD 0 = if k < a ∧ a < l then
        x[a]?.getD 0 - ea k (a - k - 1) * x[k]?.getD 0 else x[a]?.getD 0 := by
  refine forM'_inv (fun t (x' : Array F) => x'.size = n ∧
      ∀ a, x'[a]?.getD 0 = if k < a ∧ a < t then
        x[a]?.getD 0 - ea k (a - k - 1) * x[k]?.getD 0 else x[a]?.getD 0)
    (k + 1) l x _ hkl ⟨hx, fun a => by rw [if_neg (by omega)]⟩ ?_
  intro t x' ht1 ht2 ⟨hs, hv⟩
  have hk' : k < x'.size := by omega
  have ht' : t < x'.size := by omega
  have g := hal.get hk (show t - k - 1 < m1 by omega)
  refine ⟨x'.setIfInBounds t (x'[t]?.getD 0 - ea k (t - k - 1) * x'[k]?.getD 0),
    by simp only [aget_getD hk', aget_getD ht', g, aset_ok _ ht', bind, Except.bind],
    by simpa using hs, ?_⟩
  intro a
  have hvk : x'[k]?.getD 0 = x[k]?.getD 0 := by rw [hv k, if_neg (by omega)]
  have hvt : x'[t]?.getD 0 = x[t]?.getD 0 := by rw [hv t, if_neg (by omega)]
  rw [getD_set _ ht', hvk, hvt]
  by_cases hat : a = t
  · subst hat
    rw [if_pos rfl, if_pos (by omega)]
  · rw [if_neg hat, hv a]
    ifs_omega

/-- (E) the forward-substitution loop of `solve` replays the recorded exchanges and multipliers -/
theorem solve_fwd_spec {n m1 : Nat} {al : Mat F} {index : Array Nat} {ea : Nat → Nat → F}
    (hal : Is al n m1 ea) (hsz : index.size = n)
    (hidx : ∀ k, k < n → k < idxf index k ∧ idxf index k ≤ min (m1 + k + 1) n) (hm : m1 ≤ n)
    (rhs : Array F) (hr : rhs.size = n) :
    ∃ st, forM' 0 n (rhs, m1) (fun (x, l) k => do
      let ik ← aget index k
      let j ← usub ik 1
      let x ← if j ≠ k then Vec.swap x k j else pure x
      let l := if l < n then l + 1 else l
      let x ← forM' (k + 1) l x (fun x j => do
        let xk ← aget x k
        let a ← al.get k (j - k - 1)
        let xj ← aget x j
        aset x j (xj - a * xk))
      pure (x, l)) = .ok st ∧ st.1.size = n ∧
      ∀ a, st.1[a]?.getD 0 = fwd n m1 ea (idxf index) n (fun a => rhs[a]?.getD 0) a := by
  suffices key : ∃ st, forM' 0 n (rhs, m1) (fun (x, l) k => do
      let ik ← aget index k
      let j ← usub ik 1
      let x ← if j ≠ k then Vec.swap x k j else pure x
      let l := if l < n then l + 1 else l
      let x ← forM' (k + 1) l x (fun x j => do
        let xk ← aget x k
        let a ← al.get k (j - k - 1)
        let xj ← aget x j
        aset x j (xj - a * xk))
      pure (x, l)) = .ok st ∧ st.2 = min (m1 + n) n ∧ st.1.size = n ∧
      ∀ a, st.1[a]?.getD 0 = fwd n m1 ea (idxf index) n (fun a => rhs[a]?.getD 0) a by
    obtain ⟨st, h1, _, h3, h4⟩ := key
    exact ⟨st, h1, h3, h4⟩
  refine forM'_inv (fun k (st : Array F × Nat) => st.2 = min (m1 + k) n ∧ st.1.size = n ∧
      ∀ a, st.1[a]?.getD 0 = fwd n m1 ea (idxf index) k (fun a => rhs[a]?.getD 0) a)
    0 n (rhs, m1) _ (Nat.zero_le _) ⟨by simp only; omega, hr, fun a => rfl⟩ ?_
  intro k st _ hk ⟨h1, h2, h3⟩
  obtain ⟨x, l⟩ := st
  simp only at h1 h2 h3
  obtain ⟨hi1, hi2⟩ := hidx k hk
  have hki : k < index.size := by omega
  have g1 : aget index k = .ok (idxf index k) := by
    rw [aget_ok hki]; simp [idxf, hki]
  have g2 : usub (idxf index k) 1 = .ok (idxf index k - 1) := usub_ok (by omega)
  have hl' : (if l < n then l + 1 else l) = min (m1 + k + 1) n := by split <;> omega
  -- the exchange
  obtain ⟨x1, hx1, hs1, hv1⟩ : ∃ x1, (if idxf index k - 1 ≠ k then Vec.swap x k (idxf index k - 1)
      else pure x) = .ok x1 ∧ x1.size = n ∧
      ∀ a, x1[a]?.getD 0 = swapV (fun a => x[a]?.getD 0) k (idxf index k - 1) a := by
    by_cases hik : idxf index k - 1 ≠ k
    · obtain ⟨x1, e1, e2, e3⟩ := vswap_spec (x := x) (k := k) (j := idxf index k - 1)
        (by omega) (by omega)
      exact ⟨x1, by rw [if_pos hik, e1], by omega, e3⟩
    · refine ⟨x, by rw [if_neg hik]; rfl, h2, fun a => ?_⟩
      have : idxf index k - 1 = k := by omega
      rw [this]; unfold swapV
      by_cases hak : a = k
      · subst hak; simp
      · simp [hak]
  obtain ⟨x2, hx2, hs2, hv2⟩ := fwd_inner hal x1 hs1 hk (l := min (m1 + k + 1) n) (by omega)
    (by omega) (by omega)
  refine ⟨(x2, min (m1 + k + 1) n), ?_, rfl, hs2, ?_⟩
  · simp only [bind, Except.bind, pure, Except.pure] at hx1 hx2 ⊢
    simp only [g1, g2, hl']
    by_cases hik : idxf index k - 1 ≠ k
    · rw [if_pos hik] at hx1 ⊢
      simp only [hx1, hx2]
    · rw [if_neg hik] at hx1 ⊢
      injection hx1 with hx1; subst hx1
      simp only [hx2]
  · intro a
    simp only [fwd]
    rw [hv2 a, hv1 a, hv1 k]
    unfold fwdStep
    have hfun : (fun a => x[a]?.getD 0) = fwd n m1 ea (idxf index) k (fun a => rhs[a]?.getD 0) :=
      funext h3
    rw [hfun]

/-- (E) the back-substitution loop of `solve`: if it returns, every pivot is non-zero and the
    result solves the banded upper-triangular system stored in `au` -/
theorem back_spec {au : Mat F} {n mm : Nat} {e : Nat → Nat → F} (hau : Is au n mm e)
    (hmm : 0 < mm) (x0 : Array F) (hx : x0.size = n) {st : Array F × Nat}
    (h : (List.range n).reverse.foldlM (fun (xl : Array F × Nat) i => do
        let xi ← aget xl.1 i
        let dum ← forM' 1 xl.2 xi (fun dum k => do
          let a ← au.get i k
          let xk ← aget xl.1 (k + i)
          pure (dum - a * xk))
        let p ← au.get i 0
        let q ← divM dum p
        let x ← aset xl.1 i q
        pure (x, if xl.2 < mm then xl.2 + 1 else xl.2)) (x0, 1) = .ok st) :
    st.1.size = n ∧ ∀ a, a < n → e a 0 ≠ 0 ∧
      e a 0 * st.1[a]?.getD 0 + ∑ k ∈ Finset.Ico 1 (min (n - a) mm), e a k * st.1[k + a]?.getD 0
        = x0[a]?.getD 0 := by
  have hQ := foldlM_rev_ok_inv
    (fun j (st : Array F × Nat) => st.1.size = n ∧ st.2 = min (n - j + 1) mm ∧
      (∀ a, a < j → st.1[a]? = x0[a]?) ∧
      ∀ a, j ≤ a → a < n → e a 0 ≠ 0 ∧
        e a 0 * st.1[a]?.getD 0 + ∑ k ∈ Finset.Ico 1 (min (n - a) mm), e a k * st.1[k + a]?.getD 0
          = x0[a]?.getD 0)
    _ n (x0, 1) st ⟨hx, by simp only; omega, fun _ _ => rfl, fun a h1 h2 => by omega⟩ (by
      intro i st s1 hi ⟨q1, q2, q3, q4⟩ hf
      obtain ⟨x, l⟩ := st
      simp only at q1 q2 q3 q4 hf
      have hix : i < x.size := by omega
      have hl : l = min (n - i) mm := by omega
      have hdum := back_dum hau x q1 hi (l := l) (by omega) (by omega) (by omega) x[i]
      have hp := hau.get hi hmm
      simp only [bind, Except.bind, pure, Except.pure] at hdum hf
      simp only [aget_ok hix, hdum, hp, Alg.divM_law] at hf
      by_cases hp0 : e i 0 = 0
      · simp [hp0] at hf
      · simp only [hp0, if_false, aset_ok _ hix] at hf
        injection hf with hf
        subst hf
        refine ⟨by simpa using q1, by simp only; split <;> omega, ?_, ?_⟩
        · intro a ha
          simp only [Array.getElem?_setIfInBounds]
          rw [if_neg (by omega)]
          exact q3 a (by omega)
        · intro a ha1 ha2
          simp only [Array.getElem?_setIfInBounds]
          by_cases hai : a = i
          · subst hai
            refine ⟨hp0, ?_⟩
            have hxa : x[a]? = x0[a]? := q3 a (by omega)
            have e1 : x[a] = x0[a]?.getD 0 := by
              rw [← hxa]; simp [hix]
            have e2 : ∀ k ∈ Finset.Ico 1 (min (n - a) mm),
                e a k * (if a = k + a then
                  (if a < x.size then some ((x[a] - ∑ k ∈ Finset.Ico 1 l,
                    e a k * x[k + a]?.getD 0) / e a 0)
                  else none) else x[k + a]?).getD 0
                = e a k * x[k + a]?.getD 0 := by
              intro k hk
              rw [Finset.mem_Ico] at hk
              rw [if_neg (by omega)]
            rw [Finset.sum_congr rfl e2, if_pos rfl, if_pos hix, Option.getD_some, hl, e1]
            field_simp
            ring
          · have e2 : ∀ k ∈ Finset.Ico 1 (min (n - a) mm),
                e a k * (if i = k + a then
                  (if i < x.size then some ((x[i] - ∑ k ∈ Finset.Ico 1 l,
                    e i k * x[k + i]?.getD 0) / e i 0)
                  else none) else x[k + a]?).getD 0
                = e a k * x[k + a]?.getD 0 := by
              intro k hk
              rw [if_neg (by omega)]
            rw [Finset.sum_congr rfl e2, if_neg (fun e => hai e.symm)]
            exact q4 a (by omega) ha2) h
  obtain ⟨q1, _, _, q4⟩ := hQ
  exact ⟨q1, fun a ha => q4 a (Nat.zero_le _) ha⟩

/-- a row of the final upper factor, as a dense row sum -/
theorem twin_final_row {n m1 mm : Nat} (e : Nat → Nat → F) {i : Nat} (hi : i < n) (hmm : 0 < mm)
    (X : Nat → F) :
    ∑ c ∈ Finset.range n, twin m1 mm n n e i c * X c =
      e i 0 * X i + ∑ t ∈ Finset.Ico 1 (min (n - i) mm), e i t * X (t + i) := by
  have o : off m1 n n i = i := by unfold off; rw [if_pos hi]
  have hL : 0 < min (n - i) mm := by omega
  have e1 : ∑ c ∈ Finset.range n, twin m1 mm n n e i c * X c =
      ∑ c ∈ Finset.Ico i (i + min (n - i) mm), twin m1 mm n n e i c * X c := by
    symm
    apply Finset.sum_subset
    · intro j hj
      rw [Finset.mem_Ico] at hj
      rw [Finset.mem_range]; omega
    · intro j hj hnj
      rw [Finset.mem_range] at hj
      rw [Finset.mem_Ico] at hnj
      unfold twin
      rw [o, if_neg (by omega), zero_mul]
  have e2 : ∀ t, t < min (n - i) mm → twin m1 mm n n e i (i + t) = e i t := by
    intro t ht
    unfold twin
    rw [o, if_pos (by omega), Nat.add_sub_cancel_left]
  rw [e1, Finset.sum_Ico_eq_sum_range, Nat.add_sub_cancel_left, Finset.range_eq_Ico,
    Finset.sum_eq_sum_Ico_succ_bot hL, Nat.add_zero]
  have e0 := e2 0 hL
  rw [Nat.add_zero] at e0
  rw [e0]
  congr 1
  apply Finset.sum_congr rfl
  intro t ht
  rw [Finset.mem_Ico] at ht
  rw [e2 t ht.2, Nat.add_comm i t]

/-- (E) **soundness of the banded solver** (`bandec` + `banbks`, any `(n, m1, m2)`): every
    vector returned by `solve` solves the dense system `Σ_j dense b i j * x[j] = rhs[i]` -/
theorem solve_sound {b : Band F} (h : WFb b) {rhs x : Array F}
    (hs : solve b rhs = .ok x) :
    x.size = b.n ∧ ∀ i, i < b.n →
      ∑ j ∈ Finset.range b.n, dense b i j * x[j]?.getD 0 = rhs[i]?.getD 0 := by
  by_cases hm : b.m1 ≤ b.n
  swap
  · exfalso
    by_cases hr : rhs.size = b.n
    · rw [solve_rejects_m1 h (by omega) rhs hr] at hs; cases hs
    · unfold solve at hs
      rw [if_pos (fun e => hr e.symm)] at hs; cases hs
  obtain ⟨s, l, hdec, hl, hau, hal, hsz, hidx, hgb⟩ := decompose_inv h hm
  simp only at hl hau hal hsz hidx hgb
  unfold solve at hs
  by_cases hn : b.n ≠ rhs.size
  · rw [if_pos hn] at hs; cases hs
  rw [if_neg hn] at hs
  have hr : rhs.size = b.n := by omega
  obtain ⟨s', hs1, hs⟩ := bind_eq_ok hs
  rw [hdec] at hs1
  injection hs1 with hs1
  subst hs1
  obtain ⟨st, hs2, hs⟩ := bind_eq_ok hs
  obtain ⟨st0, hf1, hf2, hf3⟩ := solve_fwd_spec hal hsz hidx hm rhs hr
  rw [hf1] at hs2
  injection hs2 with hs2
  subst hs2
  obtain ⟨xf, lf⟩ := st0
  simp only at hs hf2 hf3
  obtain ⟨st, hs3, hs⟩ := bind_eq_ok hs
  injection hs with hs
  subst hs
  obtain ⟨hsize, hrows⟩ := back_spec hau (by omega) xf hf2 hs3
  refine ⟨hsize, ?_⟩
  rcases hgb with ⟨k', hk', hz⟩ | hgood
  · exact absurd hz (hrows k' hk').1
  · refine hgood (fun a => rhs[a]?.getD 0) (fun a => st.1[a]?.getD 0) ?_
    intro i hi
    have e1 : min (b.m1 + b.n) b.n = b.n := by omega
    rw [e1, twin_final_row _ hi (by omega), (hrows i hi).2, hf3 i]
/-- the determinant loop: sign times the product of the pivots -/
theorem det_loop {au : Mat F} {n mm : Nat} {e : Nat → Nat → F} (hau : Is au n mm e) (hmm : 0 < mm)
    (d : F) :
    forM' 0 n d (fun dd i => do
      let x ← au.get i 0
      pure (dd * x)) = .ok (d * ∏ i ∈ Finset.range n, e i 0) := by
  obtain ⟨r, hr, hP⟩ := forM'_inv
    (fun k (dd : F) => dd = d * ∏ i ∈ Finset.range k, e i 0)
    0 n d (fun dd i => do
      let x ← au.get i 0
      pure (dd * x)) (Nat.zero_le _) (by simp) (by
      intro k dd _ hk hdd
      refine ⟨dd * e k 0, ?_, ?_⟩
      · simp only [hau.get hk hmm, bind, Except.bind, pure, Except.pure]
      · rw [Finset.prod_range_succ, hdd, mul_assoc])
  rw [hr, hP]

/-- (E) the back-substitution loop succeeds when every pivot is non-zero -/
theorem back_total {au : Mat F} {n mm : Nat} {e : Nat → Nat → F} (hau : Is au n mm e)
    (hmm : 0 < mm) (x0 : Array F) (hx : x0.size = n) (hp : ∀ i, i < n → e i 0 ≠ 0) :
    ∃ st, (List.range n).reverse.foldlM (fun (xl : Array F × Nat) i => do
        let xi ← aget xl.1 i
        let dum ← forM' 1 xl.2 xi (fun dum k => do
          let a ← au.get i k
          let xk ← aget xl.1 (k + i)
          pure (dum - a * xk))
        let p ← au.get i 0
        let q ← divM dum p
        let x ← aset xl.1 i q
        pure (x, if xl.2 < mm then xl.2 + 1 else xl.2)) (x0, 1) = .ok st ∧ st.1.size = n := by
  refine Exists.imp (fun st h => ⟨h.1, h.2.1⟩) (foldlM_rev_inv
    (fun j (st : Array F × Nat) => st.1.size = n ∧ st.2 = min (n - j + 1) mm)
    _ n (x0, 1) ⟨hx, by simp only; omega⟩ ?_)
  intro i st hi ⟨q1, q2⟩
  obtain ⟨x, l⟩ := st
  simp only at q1 q2 ⊢
  have hix : i < x.size := by omega
  have hdum := back_dum hau x q1 hi (l := l) (by omega) (by omega) (by omega) x[i]
  have hpg := hau.get hi hmm
  simp only [bind, Except.bind, pure, Except.pure] at hdum ⊢
  simp only [aget_ok hix, hdum, hpg, Alg.divM_law, if_neg (hp i hi), aset_ok _ hix]
  exact ⟨_, rfl, by simpa using q1, by simp only; split <;> omega⟩

/-- (E) **a non-zero computed determinant guarantees that `solve` succeeds** (and then
    `solve_sound` applies) -/
theorem solve_complete {b : Band F} (h : WFb b) {rhs : Array F} (hr : rhs.size = b.n) {δ : F}
    (hd : det b = .ok δ) (hδ : δ ≠ 0) : ∃ x, solve b rhs = .ok x ∧ x.size = b.n := by
  by_cases hm : b.m1 ≤ b.n
  swap
  · rw [det_rejects h (by omega)] at hd; cases hd
  obtain ⟨s, l, hdec, hl, hau, hal, hsz, hidx, _⟩ := decompose_inv h hm
  simp only at hl hau hal hsz hidx
  have hmm : 0 < b.m1 + b.m2 + 1 := by omega
  -- the pivots are non-zero
  have hpiv : ∀ i, i < b.n → Mat.entryOf s.au i 0 ≠ 0 := by
    unfold det at hd
    rw [hdec] at hd
    have := det_loop hau hmm s.d
    simp only [bind, Except.bind, pure, Except.pure] at this hd
    rw [this] at hd
    injection hd with hd
    intro i hi hz
    apply hδ
    rw [← hd, Finset.prod_eq_zero (Finset.mem_range.mpr hi) hz, mul_zero]
  have hn : ¬ b.n ≠ rhs.size := by omega
  unfold solve
  rw [if_neg hn]
  refine bind_ok_of (fun s' => s' = s) ⟨s, hdec, rfl⟩ ?_
  intro s' hs'
  subst hs'
  obtain ⟨st0, hf1, hf2, _⟩ := solve_fwd_spec hal hsz hidx hm rhs hr
  refine bind_ok_of (fun st => st = st0) ⟨_, hf1, rfl⟩ ?_
  intro st hst
  subst hst
  obtain ⟨xf, lf⟩ := st
  simp only at hf2 ⊢
  obtain ⟨st, hb1, hb2⟩ := back_total hau hmm xf hf2 hpiv
  refine bind_ok_of (fun st' => st' = st) ⟨_, hb1, rfl⟩ ?_
  intro st' hst'
  subst hst'
  exact ⟨st'.1, rfl, hb2⟩

end FullLU

/-! ### padding slots are never read by `decompose` / `det` / `solve` (class (S)): two runs in
    lock-step -/
section Padding
variable [Add K] [Sub K] [Mul K] [Neg K] [Zero K] [One K] [BEq K] [ScalarExt K]
open Mat (forM'_rel)

/-- the two compact matrices are well formed and agree on every slot that lies inside the matrix
    (`o i` is the matrix column of slot 0 of row `i`) -/
def PadEq (n mm : Nat) (o : Nat → Nat) (ma mb : Mat K) : Prop :=
  ∃ ea eb, Is ma n mm ea ∧ Is mb n mm eb ∧
    ∀ i t, i < n → t < mm → o i + t < n → ea i t = eb i t

theorem PadEq.congr_off {n mm : Nat} {o o' : Nat → Nat} {ma mb : Mat K} (h : PadEq n mm o ma mb)
    (ho : ∀ i, i < n → o' i = o i) : PadEq n mm o' ma mb := by
  obtain ⟨ea, eb, h1, h2, h3⟩ := h
  exact ⟨ea, eb, h1, h2, fun i t hi ht hc => h3 i t hi ht (by rw [← ho i hi]; exact hc)⟩

theorem elim_innerS {au : Mat K} {n mm : Nat} {e : Nat → Nat → K} (hau : Is au n mm e) {k i : Nat}
    (hk : k < n) (hi : i < n) (hki : k ≠ i) (dum : K) :
    ∃ au', forM' 1 mm au (fun au j => do
        let x ← au.get i j
        let y ← au.get k j
        au.set i (j - 1) (x - dum * y)) = .ok au' ∧
      Is au' n mm (fun a b => if a = i ∧ b + 1 < mm then e i (b + 1) - dum * e k (b + 1) else e a b) := by
  by_cases hmm : 1 ≤ mm
  · refine forM'_inv (fun t (s : Mat K) => Is s n mm
      (fun a b => if a = i ∧ b + 1 < t then e i (b + 1) - dum * e k (b + 1) else e a b))
      1 mm au _ hmm (hau.congr (fun a b _ _ => by ifs_omega)) ?_
    intro t s ht1 ht2 hs
    have g1 := hs.get hi ht2
    have g2 := hs.get hk ht2
    rw [if_neg (by omega)] at g1 g2
    obtain ⟨s', hs', hI⟩ := hs.set hi (show t - 1 < mm by omega) (e i t - dum * e k t)
    refine ⟨s', by simp only [g1, g2, bind, Except.bind]; exact hs', hI.congr ?_⟩
    intro a b _ _
    by_cases hab : a = i ∧ b = t - 1
    · obtain ⟨rfl, rfl⟩ := hab
      have e1 : t - 1 + 1 = t := by omega
      simp [e1]
    · rw [if_neg hab]
      ifs_omega
  · have : mm = 0 := by omega
    subst this
    exact ⟨au, Mat.forM'_empty _ _ _ _ (by omega), hau.congr (fun a b _ hb => by omega)⟩

/-- multiplier as the code computes it: zero for a zero pivot, else the checked division -/
def dumR (a p : K) : Res K := if p == 0 then pure 0 else divM a p

/-- the tail of `decElim` once the multiplier is known -/
def elimTail (mm k i : Nat) (au al : Mat K) (dum : K) : Res (Mat K × Mat K) := do
  let al ← al.set k (i - k - 1) dum
  let au ← forM' 1 mm au (fun au j => do
    let x ← au.get i j
    let y ← au.get k j
    au.set i (j - 1) (x - dum * y))
  let au ← au.set i (mm - 1) 0
  pure (au, al)

theorem decElim_eq (mm k i : Nat) (au al : Mat K) :
    decElim mm k (au, al) i = (do
      let a ← au.get i 0
      let p ← au.get k 0
      let dum ← dumR a p
      elimTail mm k i au al dum) := by
  unfold decElim dumR
  simp only [bind, Except.bind]
  cases au.get i 0 with
  | error e => rfl
  | ok a =>
    cases au.get k 0 with
    | error e => rfl
    | ok p =>
      simp only
      split <;> rfl

theorem elimTail_spec {au al : Mat K} {n mm m1 : Nat} {e ea : Nat → Nat → K}
    (hau : Is au n mm e) (hal : Is al n m1 ea) {k i : Nat} (hk : k < n) (hi : i < n) (hki : k < i)
    (him : i - k - 1 < m1) (hmm : 0 < mm) (dum : K) :
    ∃ au' al', elimTail mm k i au al dum = .ok (au', al') ∧
      al.set k (i - k - 1) dum = .ok al' ∧
      Is au' n mm (fun a b => if a = i then
        (if b + 1 < mm then e i (b + 1) - dum * e k (b + 1) else 0) else e a b) ∧
      Is al' n m1 (fun a b => if a = k ∧ b = i - k - 1 then dum else ea a b) := by
  obtain ⟨al', ha', hIa⟩ := hal.set hk him dum
  obtain ⟨a1, h1, hI1⟩ := elim_innerS hau hk hi (by omega) dum
  obtain ⟨a2, h2, hI2⟩ := hI1.set hi (show mm - 1 < mm by omega) (0 : K)
  refine ⟨a2, al', ?_, ha', hI2.congr (fun a b _ _ => by ifs_omega), hIa⟩
  unfold elimTail
  simp only [bind, Except.bind, pure, Except.pure] at h1 ⊢
  simp only [ha', h1, h2]

theorem decElim_rel {aua aub al : Mat K} {n mm m1 : Nat} {o : Nat → Nat} {ea : Nat → Nat → K}
    (hp : PadEq n mm o aua aub) (hal : Is al n m1 ea) {k i : Nat} (hk : k < n) (hi : i < n)
    (hki : k < i) (him : i - k - 1 < m1) (hmm : 0 < mm) (hok : o k = k) (hoi : o i = k) :
    RelRes (fun sa sb => sa.2 = sb.2 ∧ (∃ ea', Is sa.2 n m1 ea') ∧
        PadEq n mm (fun a => if a = i then k + 1 else o a) sa.1 sb.1)
      (decElim mm k (aua, al) i) (decElim mm k (aub, al) i) := by
  obtain ⟨e1, e2, h1, h2, hag⟩ := hp
  have q1 : e1 i 0 = e2 i 0 := hag i 0 hi hmm (by omega)
  have q2 : e1 k 0 = e2 k 0 := hag k 0 hk hmm (by omega)
  rw [decElim_eq, decElim_eq, h1.get hi hmm, h1.get hk hmm, h2.get hi hmm, h2.get hk hmm, q1, q2]
  show RelRes _ (dumR (e2 i 0) (e2 k 0) >>= _) (dumR (e2 i 0) (e2 k 0) >>= _)
  refine RelRes.bind (RelRes.refl _) ?_
  intro dum dum' hd
  subst hd
  obtain ⟨a1, l1, t1, s1, I1, J1⟩ := elimTail_spec h1 hal hk hi hki him hmm dum
  obtain ⟨a2, l2, t2, s2, I2, J2⟩ := elimTail_spec h2 hal hk hi hki him hmm dum
  rw [t1, t2]
  have : l1 = l2 := by rw [s1] at s2; injection s2
  subst this
  refine ⟨rfl, ⟨_, J1⟩, _, _, I1, I2, ?_⟩
  intro a t ha ht hc
  by_cases hai : a = i
  · subst hai
    simp only [if_true] at hc ⊢
    by_cases hb : t + 1 < mm
    · rw [if_pos hb, if_pos hb, hag a (t + 1) ha hb (by omega), hag k (t + 1) hk hb (by omega)]
    · rw [if_neg hb, if_neg hb]
  · simp only [hai, if_false] at hc ⊢
    exact hag a t ha ht hc

theorem elimLoop_rel {aua aub al : Mat K} {n mm m1 : Nat} {o : Nat → Nat} {ea : Nat → Nat → K}
    (hp : PadEq n mm o aua aub) (hal : Is al n m1 ea) {k l : Nat} (hk : k < n) (hkl : k + 1 ≤ l)
    (hln : l ≤ n) (hlm : l ≤ k + m1 + 1) (hmm : 0 < mm) (ho : ∀ a, k ≤ a → a < l → o a = k) :
    RelRes (fun sa sb => sa.2 = sb.2 ∧ (∃ ea', Is sa.2 n m1 ea') ∧
        PadEq n mm (fun a => if k < a ∧ a < l then k + 1 else o a) sa.1 sb.1)
      (forM' (k + 1) l (aua, al) (decElim mm k)) (forM' (k + 1) l (aub, al) (decElim mm k)) := by
  refine forM'_rel (fun t (sa sb : Mat K × Mat K) => sa.2 = sb.2 ∧ (∃ ea', Is sa.2 n m1 ea') ∧
        PadEq n mm (fun a => if k < a ∧ a < t then k + 1 else o a) sa.1 sb.1)
    (k + 1) l _ _ _ _ hkl ⟨rfl, ⟨_, hal⟩, hp.congr_off (fun a _ => by rw [if_neg (by omega)])⟩ ?_
  intro t sa sb ht1 ht2 ⟨h1, ⟨ea', h2⟩, h3⟩
  obtain ⟨a1, l1⟩ := sa
  obtain ⟨a2, l2⟩ := sb
  simp only at h1 h2 h3
  subst h1
  refine (decElim_rel h3 h2 hk (show t < n by omega) (by omega) (by omega) hmm ?_ ?_).mono ?_
  · show (if k < k ∧ k < t then k + 1 else o k) = k
    rw [if_neg (by omega)]; exact ho k (Nat.le_refl _) (by omega)
  · show (if k < t ∧ t < t then k + 1 else o t) = k
    rw [if_neg (by omega)]; exact ho t (by omega) ht2
  · intro sa sb ⟨g1, g2, g3⟩
    refine ⟨g1, g2, g3.congr_off ?_⟩
    intro a _
    ifs_omega

/-- body of the pivot search -/
def pivBody (au : Mat K) (st : K × Nat) (j : Nat) : Res (K × Nat) := do
  let x ← au.get j 0
  if ScalarExt.lt (ScalarExt.mag st.1) (ScalarExt.mag x) then pure (x, j) else pure (st.1, st.2)

theorem decStep_eq (n mm : Nat) (s : Dec K) (l k : Nat) :
    decStep n mm (s, l) k = (do
      let dum0 ← s.au.get k 0
      let pr ← forM' (k + 1) (if l < n then l + 1 else l) (dum0, k) (pivBody s.au)
      let index ← aset s.index k (pr.2 + 1)
      let au ← (if pr.1 == 0 then s.au.set k 0 0 else pure s.au)
      let aud ← (if pr.2 ≠ k then (do
          let au ← forM' 0 mm au (fun au j => Mat.swapElem au k j pr.2 j)
          pure (au, -s.d)) else pure (au, s.d))
      let r ← forM' (k + 1) (if l < n then l + 1 else l) (aud.1, s.al) (decElim mm k)
      pure (⟨r.1, r.2, index, aud.2⟩, if l < n then l + 1 else l)) := by
  have hpiv : (fun (x : K × Nat) (j : Nat) => (match x with
      | (dum, i) => do
        let x ← s.au.get j 0
        if ScalarExt.lt (ScalarExt.mag dum) (ScalarExt.mag x) then pure (x, j) else pure (dum, i)
      : Res (K × Nat))) = pivBody s.au := by
    funext x j
    obtain ⟨d, i⟩ := x
    rfl
  unfold decStep
  simp only [hpiv]
  simp only [bind, Except.bind, pure, Except.pure]
  cases s.au.get k 0 with
  | error e => rfl
  | ok dum0 =>
    simp only
    cases forM' (k + 1) (if l < n then l + 1 else l) (dum0, k) (pivBody s.au) with
    | error e => rfl
    | ok pr =>
      obtain ⟨d, ip⟩ := pr
      simp only
      cases aset s.index k (ip + 1) with
      | error e => rfl
      | ok index =>
        simp only
        by_cases hz : (d == 0) = true <;> by_cases hik : ip ≠ k
        · simp only [if_pos hz, if_pos hik]
          cases s.au.set k 0 0 with
          | error e => rfl
          | ok v =>
            simp only
            cases forM' 0 mm v (fun au j => au.swapElem k j ip j) with
            | error e => rfl
            | ok v => rfl
        · simp only [if_pos hz, if_neg hik]
        · simp only [if_neg hz, if_pos hik]
          cases forM' 0 mm s.au (fun au j => au.swapElem k j ip j) with
          | error e => rfl
          | ok v => rfl
        · simp only [if_neg hz, if_neg hik]

theorem pivotLoop_rel {aua aub : Mat K} {n mm : Nat} {o : Nat → Nat} (hp : PadEq n mm o aua aub)
    {k l : Nat} (hkl : k + 1 ≤ l) (hln : l ≤ n) (hmm : 0 < mm)
    (ho : ∀ a, k ≤ a → a < l → o a = k) (d0 : K) :
    RelRes (fun ra rb => ra = rb ∧ k ≤ ra.2 ∧ ra.2 < l)
      (forM' (k + 1) l (d0, k) (pivBody aua)) (forM' (k + 1) l (d0, k) (pivBody aub)) := by
  obtain ⟨e1, e2, h1, h2, hag⟩ := hp
  refine forM'_rel (fun t (ra rb : K × Nat) => ra = rb ∧ k ≤ ra.2 ∧ ra.2 < t) (k + 1) l _ _ _ _ hkl
    ⟨rfl, Nat.le_refl _, by simp⟩ ?_
  intro t ra rb ht1 ht2 ⟨q1, q2, q3⟩
  subst q1
  have g1 := h1.get (show t < n by omega) hmm
  have g2 := h2.get (show t < n by omega) hmm
  have q : e1 t 0 = e2 t 0 := hag t 0 (by omega) hmm (by rw [ho t (by omega) ht2]; omega)
  unfold pivBody
  simp only [g1, g2, q, bind, Except.bind, pure, Except.pure]
  split
  · exact ⟨rfl, by simp only; omega, by simp only; omega⟩
  · exact ⟨rfl, q2, by simp only; omega⟩

theorem PadEq.set {n mm : Nat} {o : Nat → Nat} {ma mb : Mat K} (h : PadEq n mm o ma mb)
    {i j : Nat} (hi : i < n) (hj : j < mm) (v : K) :
    RelRes (PadEq n mm o) (ma.set i j v) (mb.set i j v) := by
  obtain ⟨e1, e2, h1, h2, hag⟩ := h
  obtain ⟨m1', g1, I1⟩ := h1.set hi hj v
  obtain ⟨m2', g2, I2⟩ := h2.set hi hj v
  rw [g1, g2]
  refine ⟨_, _, I1, I2, ?_⟩
  intro a t ha ht hc
  by_cases hc' : a = i ∧ t = j
  · simp only [hc', and_self, if_true]
  · simp only [hc', if_false]; exact hag a t ha ht hc

theorem PadEq.swap {n mm : Nat} {o : Nat → Nat} {ma mb : Mat K} (h : PadEq n mm o ma mb)
    {k ip : Nat} (hk : k < n) (hip : ip < n) (hoo : o k = o ip) :
    RelRes (PadEq n mm o) (forM' 0 mm ma (fun au j => Mat.swapElem au k j ip j))
      (forM' 0 mm mb (fun au j => Mat.swapElem au k j ip j)) := by
  obtain ⟨e1, e2, h1, h2, hag⟩ := h
  have hg : ¬ (n ≤ k ∨ n ≤ ip) := by omega
  have s1 := Mat.swapRows_spec h1 hk hip
  have s2 := Mat.swapRows_spec h2 hk hip
  simp only [Mat.swapRows, h1.rows, h1.cols, h2.rows, h2.cols, hg, if_false] at s1 s2
  obtain ⟨m1', g1, I1⟩ := s1
  obtain ⟨m2', g2, I2⟩ := s2
  rw [g1, g2]
  refine ⟨_, _, I1, I2, ?_⟩
  intro a t ha ht hc
  by_cases hak : a = k
  · subst hak
    simp only [if_true]
    exact hag ip t hip ht (by omega)
  · by_cases hai : a = ip
    · subst hai
      simp only [hak, if_false, if_true]
      exact hag k t hk ht (by omega)
    · simp only [hak, hai, if_false]
      exact hag a t ha ht hc

theorem off_window {n m1 k a : Nat} (h1 : k ≤ a) (h2 : a < min (m1 + k + 1) n) :
    off m1 k (min (m1 + k) n) a = k := by
  unfold off
  rw [if_neg (by omega)]
  split <;> omega

theorem off_step {n m1 k a : Nat} (hk : k < n) (ha : a < n) :
    off m1 (k + 1) (min (m1 + k + 1) n) a =
      if k < a ∧ a < min (m1 + k + 1) n then k + 1 else off m1 k (min (m1 + k) n) a := by
  unfold off
  ifs_omega

/-- the two pivot-loop states of `decompose` are in lock-step before step `k` -/
def RelDec (n m1 mm k : Nat) (sa sb : Dec K × Nat) : Prop :=
  sa.2 = sb.2 ∧ sa.2 = min (m1 + k) n ∧ sa.1.al = sb.1.al ∧ sa.1.index = sb.1.index ∧
  sa.1.d = sb.1.d ∧ (∃ ea, Is sa.1.al n m1 ea) ∧ sa.1.index.size = n ∧
  PadEq n mm (off m1 k sa.2) sa.1.au sb.1.au

theorem decStep_rel {n m1 mm k : Nat} (hk : k < n) (hmm : 0 < mm) {sa sb : Dec K × Nat}
    (h : RelDec n m1 mm k sa sb) :
    RelRes (RelDec n m1 mm (k + 1)) (decStep n mm sa k) (decStep n mm sb k) := by
  obtain ⟨sa, la⟩ := sa
  obtain ⟨sb, lb⟩ := sb
  obtain ⟨r1, r2, r3, r4, r5, ⟨ea, r6⟩, r7, r8⟩ := h
  simp only at r1 r2 r3 r4 r5 r6 r7 r8
  subst r1
  have hl' : (if la < n then la + 1 else la) = min (m1 + k + 1) n := by split <;> omega
  rw [decStep_eq, decStep_eq, hl', ← r3, ← r4, ← r5]
  rw [r2] at r8
  have how : ∀ a, k ≤ a → a < min (m1 + k + 1) n → off m1 k (min (m1 + k) n) a = k :=
    fun a h1 h2 => off_window h1 h2
  obtain ⟨e1, e2, h1, h2, hag⟩ := id r8
  have q0 : e1 k 0 = e2 k 0 := hag k 0 hk hmm (by rw [how k (Nat.le_refl _) (by omega)]; omega)
  rw [h1.get hk hmm, h2.get hk hmm, q0]
  show RelRes _ (forM' _ _ _ _ >>= _) (forM' _ _ _ _ >>= _)
  refine RelRes.bind (pivotLoop_rel r8 (by omega) (by omega) hmm how (e2 k 0)) ?_
  rintro ⟨d, ip⟩ rb ⟨rfl, hip1, hip2⟩
  simp only at hip1 hip2 ⊢
  refine RelRes.bind (R := fun a b => a = b ∧ a.size = n) ?_ ?_
  · rw [aset_ok _ (show k < sa.index.size by omega)]
    exact ⟨rfl, by simpa using r7⟩
  rintro index _ ⟨rfl, hisz⟩
  -- zero fix
  refine RelRes.bind (R := PadEq n mm (off m1 k (min (m1 + k) n))) ?_ ?_
  · split
    · exact r8.set hk hmm 0
    · exact r8
  intro au0a au0b hp0
  -- exchange
  refine RelRes.bind (R := fun pa pb => pa.2 = pb.2 ∧
      PadEq n mm (off m1 k (min (m1 + k) n)) pa.1 pb.1) ?_ ?_
  · split
    · refine RelRes.bind (hp0.swap hk (by omega) ?_) ?_
      · rw [how k (Nat.le_refl _) (by omega), how ip hip1 hip2]
      · intro a b hab; exact ⟨rfl, hab⟩
    · exact ⟨rfl, hp0⟩
  rintro ⟨au1a, da⟩ ⟨au1b, db⟩ ⟨hd, hp1⟩
  simp only at hd hp1 ⊢
  subst hd
  -- elimination
  refine RelRes.bind (elimLoop_rel hp1 r6 hk (by omega) (by omega) (by omega) hmm how) ?_
  rintro ⟨au2a, al2a⟩ ⟨au2b, al2b⟩ ⟨hal, hea, hp2⟩
  simp only at hal hea hp2 ⊢
  subst hal
  refine ⟨rfl, by simp only; omega, rfl, rfl, rfl, hea, hisz, ?_⟩
  exact hp2.congr_off (fun a ha => off_step hk ha)

/-- two banded matrices of the same shape agree on all in-band, in-matrix slots -/
def DenseEq (a b : Band K) : Prop :=
  SameShape a b ∧ ∀ i j, inBand a i j → i < a.n → j < a.n → dense a i j = dense b i j

/-- (S) **`decompose` in lock-step**: on two well-formed banded matrices that differ only in
    padding slots, `decompose` either panics identically or returns the same multipliers,
    exchange record and sign, and upper factors that agree on every in-matrix slot -/
theorem decompose_rel {a b : Band K} (ha : WFb a) (hb : WFb b) (h : DenseEq a b) :
    RelRes (fun sa sb => sa.al = sb.al ∧ sa.index = sb.index ∧ sa.d = sb.d ∧
        PadEq a.n (a.m1 + a.m2 + 1) (fun i => i) sa.au sb.au) (decompose a) (decompose b) := by
  obtain ⟨⟨s1, s2, s3⟩, hag⟩ := h
  by_cases hm : a.m1 ≤ a.n
  swap
  · rw [decompose_rejects ha (by omega), decompose_rejects hb (by omega)]
    rfl
  obtain ⟨au0a, g1, I1⟩ := shiftRows_spec ha.is hm
  obtain ⟨au0b, g2, I2⟩ := shiftRows_spec hb.is (by omega)
  unfold decompose
  rw [g1, g2, ← s1, ← s2, ← s3]
  rw [← s1, ← s2, ← s3] at I2
  show RelRes _ (forM' _ _ _ _ >>= _) (forM' _ _ _ _ >>= _)
  have hp0 : PadEq a.n (a.m1 + a.m2 + 1) (off a.m1 0 a.m1) au0a au0b := by
    refine ⟨_, _, I1, I2, ?_⟩
    intro i t hi ht hc
    have o : off a.m1 0 a.m1 i = i - a.m1 := by
      unfold off
      rw [if_neg (by omega)]
      split
      · omega
      · rfl
    rw [o] at hc
    by_cases hts : t + (a.m1 - i) < a.m1 + a.m2 + 1
    · have e1 := shifted_dense ha hi hts hc
      have e2 := shifted_dense hb (i := i) (t := t) (by omega) (by omega) (by omega)
      rw [← s2, ← s3] at e2
      rw [e1, e2]
      exact hag i _ (by unfold inBand; omega) hi hc
    · unfold shifted
      rw [if_pos (by omega), if_neg hts, if_pos (by omega), if_neg hts]
  refine RelRes.bind (forM'_rel (RelDec a.n a.m1 (a.m1 + a.m2 + 1)) 0 a.n _ _ _ _ (Nat.zero_le _)
    ⟨rfl, by simp only; omega, rfl, rfl, rfl, ⟨_, Mat.Is.of_new a.n a.m1 (0 : K)⟩, by simp, hp0⟩
    (fun k sa sb _ hk hr => decStep_rel hk (by omega) hr)) ?_
  rintro ⟨sa, la⟩ ⟨sb, lb⟩ ⟨r1, r2, r3, r4, r5, _, _, r8⟩
  simp only at r1 r2 r3 r4 r5 r8
  refine ⟨r3, r4, r5, r8.congr_off ?_⟩
  intro i hi
  unfold off
  rw [if_pos hi]

/-- (S) **`det` never reads padding**: same value or same panic on two banded matrices that
    differ only in padding slots -/
theorem det_padding {a b : Band K} (ha : WFb a) (hb : WFb b) (h : DenseEq a b) :
    det a = det b := by
  apply RelRes.eq
  unfold det
  refine RelRes.bind (decompose_rel ha hb h) ?_
  rintro sa sb ⟨_, _, r3, e1, e2, h1, h2, hag⟩
  rw [← h.1.1, r3]
  refine forM'_rel (fun _ (x y : K) => x = y) 0 a.n _ _ _ _ (Nat.zero_le _) rfl ?_
  intro i x y _ hi hxy
  subst hxy
  have hmm : 0 < a.m1 + a.m2 + 1 := by omega
  rw [h1.get hi hmm, h2.get hi hmm, hag i 0 hi hmm (by omega)]
  exact RelRes.refl _

/-- (S) **`solve` never reads padding**: same solution or same panic -/
theorem solve_padding {a b : Band K} (ha : WFb a) (hb : WFb b) (h : DenseEq a b)
    (rhs : Array K) : solve a rhs = solve b rhs := by
  apply RelRes.eq
  obtain ⟨s1, s2, s3⟩ := h.1
  unfold solve
  rw [← s1, ← s2, ← s3]
  split
  · rfl
  refine RelRes.bind (decompose_rel ha hb h) ?_
  rintro sa sb ⟨r1, r2, r3, e1, e2, h1, h2, hag⟩
  rw [← r1, ← r2]
  simp only
  refine RelRes.bind (RelRes.refl _) ?_
  rintro ⟨x, l⟩ _ rfl
  simp only
  have hmm : 0 < a.m1 + a.m2 + 1 := by omega
  refine RelRes.bind (R := fun p q => p = q) ?_ ?_
  swap
  · rintro p _ rfl; exact RelRes.refl _
  refine (foldlM_rev_rel (fun j (p q : Array K × Nat) => p = q ∧
      p.2 = min (a.n - j + 1) (a.m1 + a.m2 + 1)) _ _ a.n (x, 1) (x, 1) ⟨rfl, by simp only; omega⟩ ?_).mono
    (fun _ _ hpq => hpq.1)
  rintro i ⟨y, l⟩ _ hi ⟨rfl, hl⟩
  simp only at hl ⊢
  refine RelRes.bind (RelRes.refl _) ?_
  rintro xi _ rfl
  refine RelRes.bind (R := fun p q => p = q) ?_ ?_
  · refine forM'_rel (fun _ (p q : K) => p = q) 1 l _ _ _ _ (by omega) rfl ?_
    rintro k d _ hk1 hk2 rfl
    rw [h1.get hi (show k < a.m1 + a.m2 + 1 by omega), h2.get hi (show k < a.m1 + a.m2 + 1 by omega),
      hag i k hi (by omega) (by show i + k < a.n; omega)]
    exact RelRes.refl _
  rintro dum _ rfl
  rw [h1.get hi hmm, h2.get hi hmm, hag i 0 hi hmm (by omega)]
  refine RelRes.bind (RelRes.refl _) ?_
  rintro p _ rfl
  refine RelRes.bind (RelRes.refl _) ?_
  rintro q _ rfl
  refine RelRes.bind (RelRes.refl _) ?_
  rintro y' _ rfl
  exact ⟨rfl, by simp only; split <;> omega⟩

end Padding

end Band
end Ohsl
