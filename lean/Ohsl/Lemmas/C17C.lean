/-
  Ohsl.Lemmas.C17C — helpers for Ohsl/Props/C17C.lean and Ohsl/Props/C18J.lean.
  * `NewtonGen.loop`: the common shape of the two scalar Newton loops of the model
    (`Newton.solveScalar`, `Newton.solveCx`): a bounded loop with early exit, a step function, a
    stopping test and a list of evaluation points per iteration; `NewtonGen.loop_char` describes
    every run by the iterate sequence `x_{k+1} = step x_k`.
  * `Mat.forM'_split_nw`, `Mat.forM'_error_at_nw`: a bounded loop split at an intermediate index; a loop
    whose prefix returns and whose body fails at the split index fails with that error.
  Core Lean only.
-/
import Ohsl.Model.Newton
import Ohsl.Lemmas.Loop
set_option linter.unusedSectionVars false
namespace Ohsl

namespace NewtonGen
open Newton
variable {α : Type}

/-- bounded loop with early exit: `for _ in 0..n { if test cur { return Ok(step cur) }; cur = step cur }` -/
def loop (step : α → α) (test : α → Bool) (pts : α → List α) :
    Nat → α → List α → Out α × List α
  | 0, cur, tr => (⟨false, cur⟩, tr)
  | n + 1, cur, tr =>
    if test cur then (⟨true, step cur⟩, tr ++ pts cur)
    else loop step test pts n (step cur) (tr ++ pts cur)

/-- the iterate sequence `x_0 = x0`, `x_{k+1} = step x_k` -/
def iter (step : α → α) (x0 : α) : Nat → α
  | 0 => x0
  | k + 1 => step (iter step x0 k)

theorem iter_shift (step : α → α) (x0 : α) : ∀ k, iter step x0 (k + 1) = iter step (step x0) k
  | 0 => rfl
  | k + 1 => by
    show step (iter step x0 (k + 1)) = step (iter step (step x0) k)
    rw [iter_shift step x0 k]

theorem flatMap_range_succ {β : Type} (g : Nat → List β) (k : Nat) :
    (List.range (k + 1)).flatMap g = g 0 ++ (List.range k).flatMap (fun j => g (j + 1)) := by
  rw [List.range_succ_eq_map, List.flatMap_cons, List.flatMap_map]

/-- **every run of the loop, in terms of the iterate sequence**: a successful run stopped at the
    first index `k < n` whose iterate `x_k` passes the test and returns `x_{k+1}`; a failing run
    made all `n` steps, no iterate `x_0 … x_{n-1}` passed the test, and returns `x_n`; the trace
    is the concatenation of the evaluation points of the iterations made. -/
theorem loop_char (step : α → α) (test : α → Bool) (pts : α → List α) :
    ∀ (n : Nat) (x0 : α) (tr : List α),
      ((loop step test pts n x0 tr).1.ok = true → ∃ k, k < n ∧
        (loop step test pts n x0 tr).1.x = iter step x0 (k + 1) ∧
        test (iter step x0 k) = true ∧
        (∀ j, j < k → test (iter step x0 j) = false) ∧
        (loop step test pts n x0 tr).2
          = tr ++ (List.range (k + 1)).flatMap (fun j => pts (iter step x0 j))) ∧
      ((loop step test pts n x0 tr).1.ok = false →
        (loop step test pts n x0 tr).1.x = iter step x0 n ∧
        (∀ j, j < n → test (iter step x0 j) = false) ∧
        (loop step test pts n x0 tr).2
          = tr ++ (List.range n).flatMap (fun j => pts (iter step x0 j)))
  | 0, x0, tr => by
    refine ⟨fun h => by simp [loop] at h, fun _ => ⟨rfl, fun j hj => absurd hj (Nat.not_lt_zero j), ?_⟩⟩
    simp [loop]
  | n + 1, x0, tr => by
    cases ht : test x0 with
    | true =>
      have e : loop step test pts (n + 1) x0 tr = (⟨true, step x0⟩, tr ++ pts x0) := by
        rw [loop, if_pos ht]
      rw [e]
      refine ⟨fun _ => ⟨0, Nat.succ_pos n, rfl, ht, fun j hj => absurd hj (Nat.not_lt_zero j), ?_⟩,
        fun h => by simp at h⟩
      simp [iter]
    | false =>
      have e : loop step test pts (n + 1) x0 tr = loop step test pts n (step x0) (tr ++ pts x0) := by
        rw [loop, if_neg (by simp [ht])]
      rw [e]
      obtain ⟨ih1, ih2⟩ := loop_char step test pts n (step x0) (tr ++ pts x0)
      refine ⟨fun hok => ?_, fun hok => ?_⟩
      · obtain ⟨k, hk, e1, e2, e3, e4⟩ := ih1 hok
        refine ⟨k + 1, Nat.succ_lt_succ hk, ?_, ?_, ?_, ?_⟩
        · rw [e1, ← iter_shift]
        · rw [iter_shift]; exact e2
        · intro j hj
          cases j with
          | zero => exact ht
          | succ j => rw [iter_shift]; exact e3 j (Nat.lt_of_succ_lt_succ hj)
        · rw [e4, flatMap_range_succ (fun j => pts (iter step x0 j)) (k + 1), List.append_assoc]
          simp only [iter_shift]
          rfl
      · obtain ⟨e1, e3, e4⟩ := ih2 hok
        refine ⟨?_, ?_, ?_⟩
        · rw [e1, ← iter_shift]
        · intro j hj
          cases j with
          | zero => exact ht
          | succ j => rw [iter_shift]; exact e3 j (Nat.lt_of_succ_lt_succ hj)
        · rw [e4, flatMap_range_succ (fun j => pts (iter step x0 j)) n, List.append_assoc]
          simp only [iter_shift]
          rfl

/-- with a budget of one the loop returns `step cur` whatever the test says: the loop's own
    step function can be read off the model -/
theorem loop_one (step : α → α) (test : α → Bool) (pts : α → List α) (cur : α) (tr : List α) :
    (loop step test pts 1 cur tr).1.x = step cur := by
  rw [loop]
  split <;> rfl

end NewtonGen

namespace Mat

/-- a bounded loop split at an intermediate index -/
theorem forM'_split_nw {σ : Type} (lo mid hi : Nat) (s : σ) (f : σ → Nat → Res σ)
    (h1 : lo ≤ mid) (h2 : mid ≤ hi) :
    forM' lo hi s f = (forM' lo mid s f) >>= (fun s' => forM' mid hi s' f) := by
  unfold forM'
  have e : List.range' lo (hi - lo) = List.range' lo (mid - lo) ++ List.range' mid (hi - mid) := by
    have := List.range'_append (s := lo) (m := mid - lo) (n := hi - mid) (step := 1)
    rw [show lo + 1 * (mid - lo) = mid by omega] at this
    rw [this]
    congr 1
    omega
  rw [e, List.foldlM_append]

/-- if the loop over `lo..j` returns `s'` and the body fails on `(s', j)` (`j < hi`), the loop over
    `lo..hi` fails with the same error -/
theorem forM'_error_at_nw {σ : Type} (lo j hi : Nat) (s s' : σ) (f : σ → Nat → Res σ) (e : Err)
    (h1 : lo ≤ j) (h2 : j < hi) (hpre : forM' lo j s f = .ok s') (hbody : f s' j = .error e) :
    forM' lo hi s f = .error e := by
  rw [forM'_split_nw lo j hi s f h1 (Nat.le_of_lt h2), hpre]
  show forM' j hi s' f = .error e
  exact forM'_first_error j hi s' f e h2 hbody

/-- a failing loop fails at a definite index: the loop over the prefix returns and the body fails
    there -/
theorem forM'_error_split_nw {σ : Type} (f : σ → Nat → Res σ) (e : Err) :
    ∀ (cnt lo : Nat) (s : σ), forM' lo (lo + cnt) s f = .error e →
      ∃ j s', lo ≤ j ∧ j < lo + cnt ∧ forM' lo j s f = .ok s' ∧ f s' j = .error e
  | 0, lo, s, h => by
    rw [forM'_empty lo (lo + 0) s f (Nat.le_refl _)] at h
    cases h
  | cnt + 1, lo, s, h => by
    cases hb : f s lo with
    | error e' =>
      have := forM'_first_error lo (lo + (cnt + 1)) s f e' (by omega) hb
      rw [this] at h
      cases h
      exact ⟨lo, s, Nat.le_refl _, by omega, forM'_empty lo lo s f (Nat.le_refl _), hb⟩
    | ok s1 =>
      have hsp := forM'_split_nw lo (lo + 1) (lo + (cnt + 1)) s f (by omega) (by omega)
      have h1 : forM' lo (lo + 1) s f = .ok s1 := by
        unfold forM'
        rw [show lo + 1 - lo = 1 by omega]
        simp [List.range', hb, bind, Except.bind, pure, Except.pure]
      rw [h1] at hsp
      have h' : forM' (lo + 1) (lo + 1 + cnt) s1 f = .error e := by
        rw [show lo + 1 + cnt = lo + (cnt + 1) by omega, ← h, hsp]
        rfl
      obtain ⟨j, s', a, b, c, d⟩ := forM'_error_split_nw f e cnt (lo + 1) s1 h'
      refine ⟨j, s', by omega, by omega, ?_, d⟩
      rw [forM'_split_nw lo (lo + 1) j s f (by omega) a, h1]
      exact c

end Mat
end Ohsl
