/-
  Ohsl.Lemmas.Iterate — invariant rule and bounds for `iterate` (a `for i in start..=…` loop with
  early `return`).  Core Lean only.
-/
import Ohsl.Model.Krylov
namespace Ohsl

/-- elimination of an `if` equation without `split` (the discriminant is found by unification) -/
theorem ite_eq_cases {α : Type} {c : Prop} [Decidable c] {a b x : α} (h : (if c then a else b) = x) :
    (c ∧ a = x) ∨ (¬ c ∧ b = x) := by
  by_cases hc : c
  · left; exact ⟨hc, by simpa [hc] using h⟩
  · right; exact ⟨hc, by simpa [hc] using h⟩

/-- If `Inv` holds initially, every `cont` step preserves it, every `done` result satisfies `Post`
    and the fall-through result of an `Inv` state satisfies `Post`, then the loop's result does. -/
theorem iterate_rule {σ ρ : Type} (Inv : Nat → σ → Prop) (Post : ρ → Prop)
    (f : Nat → σ → Step σ ρ) (fin : σ → ρ)
    (hstep : ∀ i s, Inv i s → (∀ s', f i s = .cont s' → Inv (i + 1) s') ∧ (∀ r, f i s = .done r → Post r))
    (hfin : ∀ i s, Inv i s → Post (fin s)) :
    ∀ (rem i : Nat) (s : σ), Inv i s → Post (iterate f fin rem i s)
  | 0, i, s, h => by simpa [iterate] using hfin i s h
  | rem + 1, i, s, h => by
    unfold iterate
    cases hf : f i s with
    | done r => exact (hstep i s h).2 r hf
    | cont s' => exact iterate_rule Inv Post f fin hstep hfin rem (i + 1) s' ((hstep i s h).1 s' hf)

/-- the loop body runs at most `rem` times: a `done` at index `i` yields `Post (i+1)`, and every
    index seen is `< start + rem` -/
theorem iterate_index_bound {σ ρ : Type} (Post : Nat → ρ → Prop) (f : Nat → σ → Step σ ρ) (fin : σ → ρ)
    (hdone : ∀ i s r, f i s = .done r → Post (i + 1) r) (hmono : ∀ i j r, i ≤ j → Post i r → Post j r)
    (hfin : ∀ i s, Post i (fin s)) :
    ∀ (rem i : Nat) (s : σ), Post (i + rem) (iterate f fin rem i s)
  | 0, i, s => by simpa [iterate] using hfin i s
  | rem + 1, i, s => by
    unfold iterate
    cases hf : f i s with
    | done r => exact hmono (i + 1) _ r (by omega) (hdone i s r hf)
    | cont s' =>
      have := iterate_index_bound Post f fin hdone hmono hfin rem (i + 1) s'
      have e : i + 1 + rem = i + (rem + 1) := by omega
      rw [e] at this; exact this

end Ohsl
