/-
  Ohsl.Lemmas.Tridiag — helper lemmas for property C05 (tridiagonal matrices):
  * loop rules that also track *failing* iterations, and a rule for the descending loop of the
    back substitution;
  * `getD` views of checked array reads / writes;
  * `triEntry a b c` — the dense twin of three diagonals given as functions, and its row sums;
  * the Thomas recurrences (`thBeta`, `thGamma`, `thY`) and the algebraic core of the
    correctness proof (`thomas_row`);
  * the three-term recurrence of the determinant of `triMatrix`.
-/
import Ohsl.Lemmas.MatIdx
import Mathlib.Algebra.BigOperators.Group.Finset.Basic
import Mathlib.Algebra.BigOperators.Ring.Finset
import Mathlib.Algebra.Field.Basic
import Mathlib.Tactic.Ring
import Mathlib.Tactic.FieldSimp
import Mathlib.Tactic.LinearCombination
import Mathlib.Tactic.SplitIfs
import Mathlib.LinearAlgebra.Matrix.Determinant.Basic
set_option linter.unusedSectionVars false
set_option linter.unusedVariables false
set_option linter.unusedSimpArgs false
namespace Ohsl

/-! ### loop rules -/

/-- Loop rule with failing iterations: every iteration started in `P i` either succeeds and
    re-establishes `P (i+1)`, or fails with an error satisfying `E`. -/
theorem foldlM_range'_inv_err {σ : Type} (P : Nat → σ → Prop) (E : Err → Prop) (f : σ → Nat → Res σ) :
    ∀ (n lo : Nat) (s : σ), P lo s →
      (∀ i s, lo ≤ i → i < lo + n → P i s →
        (∃ s', f s i = .ok s' ∧ P (i + 1) s') ∨ (∃ e, f s i = .error e ∧ E e)) →
      (∃ s', (List.range' lo n).foldlM f s = .ok s' ∧ P (lo + n) s') ∨
      (∃ e, (List.range' lo n).foldlM f s = .error e ∧ E e)
  | 0, lo, s, h0, _ => Or.inl ⟨s, by simp [List.range', pure, Except.pure], by simpa using h0⟩
  | n + 1, lo, s, h0, hstep => by
    rcases hstep lo s (Nat.le_refl _) (by omega) h0 with ⟨s1, h1, p1⟩ | ⟨e, h1, he⟩
    · rcases foldlM_range'_inv_err P E f n (lo + 1) s1 p1
        (fun i s hi1 hi2 hp => hstep i s (by omega) (by omega) hp) with ⟨s', h2, p2⟩ | ⟨e, h2, he⟩
      · refine Or.inl ⟨s', ?_, ?_⟩
        · simp only [List.range', List.foldlM_cons, h1, bind, Except.bind]
          exact h2
        · have : lo + 1 + n = lo + (n + 1) := by omega
          rw [← this]; exact p2
      · refine Or.inr ⟨e, ?_, he⟩
        simp only [List.range', List.foldlM_cons, h1, bind, Except.bind]
        exact h2
    · refine Or.inr ⟨e, ?_, he⟩
      simp only [List.range', List.foldlM_cons, h1, bind, Except.bind]

theorem Mat.forM'_inv_err {σ : Type} (P : Nat → σ → Prop) (E : Err → Prop) (lo hi : Nat) (s : σ)
    (f : σ → Nat → Res σ) (hle : lo ≤ hi) (h0 : P lo s)
    (hstep : ∀ i s, lo ≤ i → i < hi → P i s →
      (∃ s', f s i = .ok s' ∧ P (i + 1) s') ∨ (∃ e, f s i = .error e ∧ E e)) :
    (∃ s', Mat.forM' lo hi s f = .ok s' ∧ P hi s') ∨ (∃ e, Mat.forM' lo hi s f = .error e ∧ E e) := by
  have := foldlM_range'_inv_err P E f (hi - lo) lo s h0
    (fun i s h1 h2 hp => hstep i s h1 (by omega) hp)
  have e : lo + (hi - lo) = hi := by omega
  rw [e] at this
  exact this

/-- Rule for the descending loop `for j in (0..m).rev()`. -/
theorem foldlM_range_reverse_inv {σ : Type} (Q : Nat → σ → Prop) (f : σ → Nat → Res σ) :
    ∀ (m : Nat) (s : σ), Q m s →
      (∀ j s, j < m → Q (j + 1) s → ∃ s', f s j = .ok s' ∧ Q j s') →
      ∃ s', (List.range m).reverse.foldlM f s = .ok s' ∧ Q 0 s'
  | 0, s, h0, _ => ⟨s, by simp [pure, Except.pure], h0⟩
  | m + 1, s, h0, hstep => by
    obtain ⟨s1, h1, q1⟩ := hstep m s (by omega) h0
    obtain ⟨s', h2, q2⟩ := foldlM_range_reverse_inv Q f m s1 q1
      (fun j s hj hq => hstep j s (by omega) hq)
    refine ⟨s', ?_, q2⟩
    rw [List.range_succ, List.reverse_append]
    simp only [List.reverse_cons, List.reverse_nil, List.nil_append, List.cons_append,
      List.foldlM_cons, h1, bind, Except.bind]
    exact h2

/-! ### `getD` views of checked reads and writes -/

theorem aget_getD {α} [Zero α] {a : Array α} {i : Nat} (h : i < a.size) :
    aget a i = .ok (a[i]?.getD 0) := by
  simp [aget, h]

theorem getD_setIfInBounds {α} [Zero α] (u : Array α) (j i : Nat) (v : α) (hj : j < u.size) :
    (u.setIfInBounds j v)[i]?.getD 0 = if i = j then v else u[i]?.getD 0 := by
  by_cases h : i = j
  · subst h; simp [hj]
  · have h' : ¬ j = i := fun e => h e.symm
    simp [Array.getElem?_setIfInBounds, h, h']

theorem aget_push_lt {α} [Zero α] (a : Array α) (x : α) {j : Nat} (h : j < a.size) :
    aget (a.push x) j = .ok (a[j]?.getD 0) := by
  have h' : j < (a.push x).size := by simp; omega
  rw [aget_getD h']
  simp [Array.getElem?_push, h, Nat.ne_of_lt h]

theorem aget_singleton_append_succ {α} [Zero α] (a : Array α) (x : α) {j : Nat} (h : j < a.size) :
    aget (#[x] ++ a) (j + 1) = .ok (a[j]?.getD 0) := by
  have h' : j + 1 < (#[x] ++ a).size := by simp; omega
  rw [aget_getD h']
  simp [Array.getElem?_append, h]

/-! ### dense twin of three diagonals -/

/-- entry (i,j) of the tridiagonal matrix with sub-diagonal `a` (`a j` in row `j+1`, column `j`),
    main diagonal `b`, super-diagonal `c` (`c i` in row `i`, column `i+1`) -/
def triEntry {K : Type} [Zero K] (a b c : Nat → K) (i j : Nat) : K :=
  if i = j then b i else if i = j + 1 then a j else if i + 1 = j then c i else 0

section RowSum
variable {K : Type} [Semiring K]
open Finset

theorem triEntry_mul (a b c x : Nat → K) (i j : Nat) :
    triEntry a b c i j * x j =
      (if i = j then b j * x j else 0) + (if i = j + 1 then a j * x j else 0)
        + (if i + 1 = j then c i * x j else 0) := by
  unfold triEntry
  by_cases h1 : i = j
  · subst h1; simp
  · by_cases h2 : i = j + 1
    · subst h2
      have : ¬ j + 1 + 1 = j := by omega
      simp [this]
    · by_cases h3 : i + 1 = j
      · subst h3; simp [h1, h2]
      · simp [h1, h2, h3]

/-- a row of the dense twin times a vector is the three-term band sum -/
theorem triEntry_row_sum (a b c x : Nat → K) (n i : Nat) (hi : i < n) :
    ∑ j ∈ range n, triEntry a b c i j * x j =
      (if 0 < i then a (i - 1) * x (i - 1) else 0) + b i * x i
        + (if i + 1 < n then c i * x (i + 1) else 0) := by
  simp only [triEntry_mul, sum_add_distrib]
  rw [sum_ite_eq (range n) i (fun j => b j * x j), sum_ite_eq (range n) (i + 1) (fun j => c i * x j)]
  have hsub : (∑ j ∈ range n, if i = j + 1 then a j * x j else 0)
      = if 0 < i then a (i - 1) * x (i - 1) else 0 := by
    cases i with
    | zero => simp
    | succ k =>
      have : ∀ j, (k + 1 = j + 1) = (k = j) := fun j => by apply propext; omega
      simp only [this]
      rw [sum_ite_eq (range n) k (fun j => a j * x j)]
      have hk : k ∈ range n := by simp; omega
      simp [hk]
  rw [hsub]
  have h1 : i ∈ range n := by simpa using hi
  simp only [h1, if_true, mem_range]
  rw [add_comm (b i * x i)]
end RowSum

/-! ### Thomas recurrences -/
section Thomas
variable {K : Type} [Field K]

/-- pivots: `β₀ = b₀`, `βⱼ₊₁ = bⱼ₊₁ − aⱼ · (cⱼ / βⱼ)` -/
def thBeta (a b c : Nat → K) : Nat → K
  | 0 => b 0
  | j + 1 => b (j + 1) - a j * (c j / thBeta a b c j)

/-- multipliers: `γⱼ₊₁ = cⱼ / βⱼ` (`γ₀` is never used; the code leaves it 0) -/
def thGamma (a b c : Nat → K) : Nat → K
  | 0 => 0
  | j + 1 => c j / thBeta a b c j

/-- forward-substituted right-hand side -/
def thY (a b c r : Nat → K) : Nat → K
  | 0 => r 0 / thBeta a b c 0
  | j + 1 => (r (j + 1) - a j * thY a b c r j) / thBeta a b c (j + 1)

theorem thBeta_succ (a b c : Nat → K) (j : Nat) :
    thBeta a b c (j + 1) = b (j + 1) - a j * thGamma a b c (j + 1) := rfl

/-- Algebraic core of the Thomas algorithm: if all pivots are non-zero and `x` satisfies the
    upper bidiagonal system `xⱼ = yⱼ − γⱼ₊₁ xⱼ₊₁`, `xₙ₋₁ = yₙ₋₁`, then row `i` of `T x = r` holds. -/
theorem thomas_row (a b c r x : Nat → K) (n : Nat)
    (hβ : ∀ j, j < n → thBeta a b c j ≠ 0)
    (hlast : x (n - 1) = thY a b c r (n - 1))
    (hrec : ∀ j, j + 1 < n → x j = thY a b c r j - thGamma a b c (j + 1) * x (j + 1))
    (i : Nat) (hi : i < n) :
    (if 0 < i then a (i - 1) * x (i - 1) else 0) + b i * x i
        + (if i + 1 < n then c i * x (i + 1) else 0) = r i := by
  -- the relation between x i and y i
  have hβi := hβ i hi
  cases i with
  | zero =>
    have hy : thY a b c r 0 * thBeta a b c 0 = r 0 := by
      simp only [thY]; field_simp
    have hb : thBeta a b c 0 = b 0 := rfl
    by_cases hn : 0 + 1 < n
    · have hx := hrec 0 hn
      have hg : thGamma a b c (0 + 1) * thBeta a b c 0 = c 0 := by
        simp only [thGamma]; field_simp
      simp only [Nat.lt_irrefl, if_false, hn, if_true, zero_add] at *
      linear_combination hy - (x 0) * hb + (thBeta a b c 0) * hx - (x 1) * hg
    · have hn1 : n - 1 = 0 := by omega
      rw [hn1] at hlast
      simp only [Nat.lt_irrefl, if_false, hn, zero_add, add_zero]
      linear_combination hy - (x 0) * hb + (thBeta a b c 0) * hlast
  | succ k =>
    have hβk := hβ k (by omega)
    have hy : thY a b c r (k + 1) * thBeta a b c (k + 1) = r (k + 1) - a k * thY a b c r k := by
      simp only [thY]; field_simp
    have hb := thBeta_succ a b c k
    have hxk := hrec k hi
    by_cases hn : k + 1 + 1 < n
    · have hx := hrec (k + 1) hn
      have hg : thGamma a b c (k + 1 + 1) * thBeta a b c (k + 1) = c (k + 1) := by
        simp only [thGamma]; field_simp
      simp only [Nat.succ_pos, if_true, hn, Nat.add_sub_cancel]
      linear_combination (a k) * hxk + hy - (x (k + 1)) * hb + (thBeta a b c (k + 1)) * hx
        - (x (k + 1 + 1)) * hg
    · have hn1 : n - 1 = k + 1 := by omega
      rw [hn1] at hlast
      simp only [Nat.succ_pos, if_true, hn, if_false, Nat.add_sub_cancel, add_zero]
      linear_combination (a k) * hxk + hy - (x (k + 1)) * hb + (thBeta a b c (k + 1)) * hlast
end Thomas

/-! ### determinant of the dense twin -/
section Det
variable {K : Type} [CommRing K]

/-- the dense twin as a Mathlib matrix -/
def triMatrix (a b c : Nat → K) (n : Nat) : Matrix (Fin n) (Fin n) K :=
  Matrix.of fun i j => triEntry a b c i.val j.val

/-- the three-term recurrence `f₀ = 1, f₁ = b₀, fₖ₊₂ = bₖ₊₁ fₖ₊₁ − aₖ cₖ fₖ` -/
def triDet (a b c : Nat → K) : Nat → K
  | 0 => 1
  | 1 => b 0
  | k + 2 => b (k + 1) * triDet a b c (k + 1) - a k * c k * triDet a b c k

/-- Laplace expansion along the last row, then along the last column of the off-diagonal minor -/
theorem triMatrix_det_succ_succ (a b c : Nat → K) (k : Nat) :
    (triMatrix a b c (k + 2)).det =
      b (k + 1) * (triMatrix a b c (k + 1)).det - a k * c k * (triMatrix a b c k).det := by
  -- entries of the last row
  have h0 : ∀ i : Fin k, triMatrix a b c (k + 2) (Fin.last (k + 1)) i.castSucc.castSucc = 0 := by
    intro i
    have := i.isLt
    have e1 : ¬ k + 1 = i.val := by omega
    have e2 : ¬ k = i.val := by omega
    have e3 : ¬ k + 1 + 1 = i.val := by omega
    simp [triMatrix, triEntry, e1, e2, e3]
  have h1 : triMatrix a b c (k + 2) (Fin.last (k + 1)) (Fin.last k).castSucc = a k := by
    simp [triMatrix, triEntry]
  have h2 : triMatrix a b c (k + 2) (Fin.last (k + 1)) (Fin.last (k + 1)) = b (k + 1) := by
    simp [triMatrix, triEntry]
  have hA : (triMatrix a b c (k + 2)).submatrix (Fin.last (k + 1)).succAbove
      (Fin.last (k + 1)).succAbove = triMatrix a b c (k + 1) := by
    ext i j
    simp [triMatrix, Fin.succAbove_last]
  -- the other minor: expand along its last column
  have hN : ((triMatrix a b c (k + 2)).submatrix (Fin.last (k + 1)).succAbove
      (Fin.last k).castSucc.succAbove).det = c k * (triMatrix a b c k).det := by
    rw [Matrix.det_succ_column _ (Fin.last k), Fin.sum_univ_castSucc]
    have g0 : ∀ i : Fin k, (triMatrix a b c (k + 2)).submatrix (Fin.last (k + 1)).succAbove
        (Fin.last k).castSucc.succAbove i.castSucc (Fin.last k) = 0 := by
      intro i
      have := i.isLt
      have e1 : ¬ i.val = k + 1 := by omega
      have e2 : ¬ i.val = k + 1 + 1 := by omega
      have e3 : ¬ i.val + 1 = k + 1 := by omega
      simp [triMatrix, triEntry, Fin.succAbove_last, e1, e2]
      intro h; omega
    have g1 : (triMatrix a b c (k + 2)).submatrix (Fin.last (k + 1)).succAbove
        (Fin.last k).castSucc.succAbove (Fin.last k) (Fin.last k) = c k := by
      simp [triMatrix, triEntry, Fin.succAbove_last]
      intro h; omega
    have gA : ((triMatrix a b c (k + 2)).submatrix (Fin.last (k + 1)).succAbove
        (Fin.last k).castSucc.succAbove).submatrix (Fin.last k).succAbove (Fin.last k).succAbove
        = triMatrix a b c k := by
      ext i j
      simp [triMatrix, Fin.succAbove_last]
    rw [Finset.sum_eq_zero (fun i _ => by rw [g0 i]; simp), g1, gA]
    have : (-1 : K) ^ ((Fin.last k : Fin (k + 1)).val + (Fin.last k : Fin (k + 1)).val) = 1 :=
      Even.neg_one_pow ⟨_, rfl⟩
    rw [this]; ring
  rw [Matrix.det_succ_row _ (Fin.last (k + 1))]
  rw [Fin.sum_univ_castSucc, Fin.sum_univ_castSucc]
  rw [Finset.sum_eq_zero (fun i _ => by rw [h0 i]; simp), h1, h2, hA, hN]
  have s1 : (-1 : K) ^ ((Fin.last (k + 1) : Fin (k + 2)).val + (Fin.last (k + 1) : Fin (k + 2)).val) = 1 :=
    Even.neg_one_pow ⟨_, rfl⟩
  have s2 : (-1 : K) ^ ((Fin.last (k + 1) : Fin (k + 2)).val + ((Fin.last k).castSucc : Fin (k + 2)).val) = -1 := by
    apply Odd.neg_one_pow
    exact ⟨k, by simp; omega⟩
  rw [s1, s2]; ring

theorem triMatrix_det (a b c : Nat → K) : ∀ n, (triMatrix a b c n).det = triDet a b c n
  | 0 => by simp [triDet]
  | 1 => by simp [triDet, triMatrix, triEntry]
  | k + 2 => by
    rw [triMatrix_det_succ_succ, triMatrix_det a b c (k + 1), triMatrix_det a b c k]
    rfl
end Det

end Ohsl
