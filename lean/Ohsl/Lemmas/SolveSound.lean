/-
  Ohsl.Lemmas.SolveSound — soundness of the dense direct solver `Mat.solveBasic`
  (Gaussian elimination with partial pivoting + back substitution) over an exact field.

  Class (E): `K` a field whose `divM` fails exactly on a zero divisor (`Alg.DivLaw`); for the LU
  part the pivot comparison `lt (mag a) (mag b)` compares a size in a linear order
  (`Alg.PivotLaws`).  A linearly ordered field with `Alg.scalarExt` is an instance, and so is the
  model's complex type `Cx ℝ` (`Ohsl/Lemmas/CxField.lean`).

  Contents
  * `forM'_ok_inv`          partial-correctness loop rule (success is a hypothesis)
  * `ent`, `vf`, `WFn`      canonical entry functions of a matrix / vector
  * `swapRows_spec_ss`, `vswap_spec`, `maxAbsInColumn_range`, `partialPivot_spec`
  * `elimRow_spec`          pointwise description of one row elimination
  * `Sol`                   solution-set predicate; preserved by swaps and eliminations
  * `gauss_inv`             outer invariant of `gaussWithPivot`
  * `backsolve_spec`        back substitution on an upper-triangular matrix
  * `solveBasic_sound_ent`  the combination

  A remark on the pivot search: `maxAbsInColumn` starts from `max_index = 0` (as the source
  does), so when the whole remaining column is zero it returns row 0 and `partialPivot` swaps
  row `k` with row **0**, destroying the echelon shape.  The soundness theorem survives: after
  such a swap entry (0,0) is zero and stays zero (state `Bad` below), so the last division of
  `backsolve` fails and no value is returned.
-/
import Ohsl.Model.Solve
import Ohsl.Lemmas.MatSpec
import Ohsl.Lemmas.Alg
import Mathlib.Algebra.BigOperators.Group.Finset.Basic
import Mathlib.Algebra.BigOperators.Ring.Finset
import Mathlib.Algebra.BigOperators.Intervals
import Mathlib.Tactic.Ring
import Mathlib.Tactic.FieldSimp
import Mathlib.Tactic.LinearCombination
set_option linter.unusedSectionVars false
set_option linter.unusedVariables false
set_option linter.unusedSimpArgs false
namespace Ohsl

/-! ### partial-correctness loop rule -/

theorem foldlM_range'_ok_inv {σ : Type} (P : Nat → σ → Prop) (f : σ → Nat → Res σ) :
    ∀ (n lo : Nat) (s s' : σ), P lo s →
      (∀ i s s1, lo ≤ i → i < lo + n → P i s → f s i = .ok s1 → P (i + 1) s1) →
      (List.range' lo n).foldlM f s = .ok s' → P (lo + n) s'
  | 0, lo, s, s', h0, _, h => by
    simp [List.range', pure, Except.pure] at h
    subst h; simpa using h0
  | n + 1, lo, s, s', h0, hstep, h => by
    simp only [List.range', List.foldlM_cons, bind, Except.bind] at h
    cases h1 : f s lo with
    | error e => rw [h1] at h; simp at h
    | ok s1 =>
      rw [h1] at h
      have p1 := hstep lo s s1 (Nat.le_refl _) (by omega) h0 h1
      have := foldlM_range'_ok_inv P f n (lo + 1) s1 s' p1
        (fun i s s2 hi1 hi2 hp hf => hstep i s s2 (by omega) (by omega) hp hf) h
      have e : lo + 1 + n = lo + (n + 1) := by omega
      rw [← e]; exact this

/-- Partial-correctness loop rule: if the loop returns `.ok s'` and every *successful* iteration
    preserves the invariant, the invariant holds at the end. -/
theorem Mat.forM'_ok_inv {σ : Type} (P : Nat → σ → Prop) (lo hi : Nat) (s s' : σ)
    (f : σ → Nat → Res σ) (hle : lo ≤ hi) (h0 : P lo s)
    (hstep : ∀ i s s1, lo ≤ i → i < hi → P i s → f s i = .ok s1 → P (i + 1) s1)
    (h : Mat.forM' lo hi s f = .ok s') : P hi s' := by
  have := foldlM_range'_ok_inv P f (hi - lo) lo s s' h0
    (fun i s s1 h1 h2 hp hf => hstep i s s1 h1 (by omega) hp hf) h
  have e : lo + (hi - lo) = hi := by omega
  rw [e] at this
  exact this

namespace Mat
variable {K : Type}

/-! ### canonical entry functions -/

/-- entry (i,j) of the buffer (0 outside) -/
def ent [Zero K] (m : Mat K) (i j : Nat) : K := (m.data[i * m.cols + j]?).getD 0
/-- component `j` of a vector (0 outside) -/
def vf [Zero K] (x : Array K) (j : Nat) : K := (x[j]?).getD 0

/-- well-formed square matrix of order `n` -/
def WFn (m : Mat K) (n : Nat) : Prop := m.WF ∧ m.rows = n ∧ m.cols = n

section Basic
variable [Zero K]

theorem Is.ent_eq {m : Mat K} {r c : Nat} {e : Nat → Nat → K} (h : Is m r c e) {i j : Nat}
    (hi : i < r) (hj : j < c) : ent m i j = e i j := by
  have := h.entry i j hi hj
  rw [Mat.get, aget_eq_ok] at this
  simp [ent, this]

theorem Is.wfn {m : Mat K} {n : Nat} {e : Nat → Nat → K} (h : Is m n n e) : WFn m n :=
  ⟨h.wf, h.rows, h.cols⟩

theorem WFn.is {m : Mat K} {n : Nat} (h : WFn m n) : Is m n n (ent m) := by
  obtain ⟨hw, hr, hc⟩ := h
  refine ⟨hw, hr, hc, ?_⟩
  intro i j hi hj
  have hlt : i * m.cols + j < m.data.size := by
    rw [hw, hr, hc]; exact idx_lt hi hj
  simp [Mat.get, aget, ent, hlt]

theorem WFn.get {m : Mat K} {n : Nat} (h : WFn m n) {i j : Nat} (hi : i < n) (hj : j < n) :
    m.get i j = .ok (ent m i j) := h.is.entry i j hi hj

theorem aget_vf {x : Array K} {j : Nat} (h : j < x.size) : aget x j = .ok (vf x j) := by
  simp [aget, vf, h]

theorem vf_set {x : Array K} {i : Nat} (v : K) (h : i < x.size) (a : Nat) :
    vf (x.setIfInBounds i v) a = if a = i then v else vf x a := by
  unfold vf
  by_cases hai : a = i
  · subst hai; simp [h]
  · have : i ≠ a := fun e => hai e.symm
    simp [Array.getElem?_setIfInBounds, this, hai]

end Basic

/-! ### structural specifications (any scalar type) -/
section Generic
variable [Add K] [Sub K] [Mul K] [Neg K] [Zero K] [One K] [BEq K] [ScalarExt K]

/-- `swap_elem` on in-range positions of two rows, same column -/
theorem swapElem_spec_ss {m : Mat K} {r c : Nat} {e : Nat → Nat → K} (h : Is m r c e) {r1 r2 j : Nat}
    (h1 : r1 < r) (h2 : r2 < r) (hj : j < c) :
    ∃ m', swapElem m r1 j r2 j = .ok m' ∧
      Is m' r c (fun a b => if b = j then (if a = r1 then e r2 j else if a = r2 then e r1 j else e a b)
        else e a b) := by
  obtain ⟨m1, hm1, hI1⟩ := h.set h2 hj (e r1 j)
  obtain ⟨m2, hm2, hI2⟩ := hI1.set h1 hj (e r2 j)
  refine ⟨m2, ?_, ⟨hI2.wf, hI2.rows, hI2.cols, ?_⟩⟩
  · simp only [swapElem, h.entry r1 j h1 hj, h.entry r2 j h2 hj, bind, Except.bind, hm1]
    exact hm2
  · intro a b ha hb
    rw [hI2.entry a b ha hb]
    congr 1
    by_cases hbj : b = j
    · subst hbj
      by_cases ha1 : a = r1
      · simp [ha1]
      · by_cases ha2 : a = r2
        · simp [ha1, ha2]
        · simp [ha1, ha2]
    · simp [hbj]

/-- `swap_rows`: rows `r1` and `r2` are exchanged, nothing else changes -/
theorem swapRows_spec_ss {m : Mat K} {r c : Nat} {e : Nat → Nat → K} (h : Is m r c e) {r1 r2 : Nat}
    (h1 : r1 < r) (h2 : r2 < r) :
    ∃ m', swapRows m r1 r2 = .ok m' ∧
      Is m' r c (fun a b => if a = r1 then e r2 b else if a = r2 then e r1 b else e a b) := by
  have hn : ¬ (m.rows ≤ r1 ∨ m.rows ≤ r2) := by rw [h.rows]; omega
  simp only [swapRows, hn, if_false, h.cols]
  obtain ⟨m', hm', hP⟩ := forM'_inv
    (fun k (s : Mat K) => Is s r c (fun a b => if b < k then
      (if a = r1 then e r2 b else if a = r2 then e r1 b else e a b) else e a b))
    0 c m (fun m j => swapElem m r1 j r2 j) (Nat.zero_le _) (by simpa using h) (by
      intro k s _ hk hs
      obtain ⟨s', hs', hI⟩ := swapElem_spec_ss hs h1 h2 hk
      refine ⟨s', hs', ⟨hI.wf, hI.rows, hI.cols, ?_⟩⟩
      intro a b ha hb
      rw [hI.entry a b ha hb]
      congr 1
      by_cases hbk : b = k
      · subst hbk
        by_cases ha1 : a = r1
        · subst ha1; simp
        · by_cases ha2 : a = r2
          · subst ha2; simp [ha1, Ne.symm ha1]
          · simp [ha1, ha2]
      · have e1 : (b < k + 1) = (b < k) := by apply propext; omega
        simp [hbk, e1])
  refine ⟨m', hm', ⟨hP.wf, hP.rows, hP.cols, ?_⟩⟩
  intro a b ha hb
  rw [hP.entry a b ha hb]; simp [hb]

/-- `Vector::swap` -/
theorem vswap_spec {x : Array K} {p k : Nat} (hp : p < x.size) (hk : k < x.size) :
    ∃ x', Vec.swap x p k = .ok x' ∧ x'.size = x.size ∧
      ∀ a, vf x' a = if a = k then vf x p else if a = p then vf x k else vf x a := by
  have hk' : k < (x.setIfInBounds p (vf x k)).size := by simpa using hk
  refine ⟨(x.setIfInBounds p (vf x k)).setIfInBounds k (vf x p), ?_, by simp, ?_⟩
  · simp only [Vec.swap, aget_vf hp, aget_vf hk, bind, Except.bind, aset_ok _ hp]
    exact aset_ok _ hk'
  · intro a
    rw [vf_set _ hk', vf_set _ hp]

/-- the pivot search returns a row at or below `start` (statement kept in the weaker historical form
    `p = 0 ∨ start ≤ p`, which the original search with `max_index = 0` satisfied as well) -/
theorem maxAbsInColumn_range {m : Mat K} {col start p : Nat}
    (h : maxAbsInColumn m col start = .ok p) : p = 0 ∨ start ≤ p := by
  unfold maxAbsInColumn at h
  simp only [bind, Except.bind] at h
  split at h
  · simp at h
  · rename_i s hs
    simp only [pure, Except.pure] at h
    by_cases hle : start ≤ m.rows
    · have := forM'_ok_inv (fun (i : Nat) (s : Nat × K) => s.1 = 0 ∨ start ≤ s.1) start m.rows
        ((start : Nat), (0 : K)) s _ hle (Or.inr (Nat.le_refl _)) (by
          intro i s s1 hi1 hi2 hP hf
          obtain ⟨idx, mx⟩ := s
          simp only [bind, Except.bind] at hf
          cases hg : m.get i col with
          | error e => rw [hg] at hf; simp at hf
          | ok v =>
            rw [hg] at hf
            simp only [pure, Except.pure] at hf
            split at hf
            · injection hf with hf; subst hf; exact Or.inr hi1
            · injection hf with hf; subst hf; exact hP) hs
      injection h with h
      subst h
      obtain ⟨a, b⟩ := s
      exact this
    · rw [forM'_empty _ _ _ _ (by omega)] at hs
      injection hs with hs
      subst hs
      injection h with h
      exact Or.inr (Nat.le_of_eq h)

end Generic

/-! ### exact-field part -/
section Exact
variable [Field K]

theorem elimRow_spec [BEq K] [ScalarExt K] [DecidableEq K] [Alg.DivLaw K]
    {m : Mat K} {x : Array K} {n k i : Nat} (hm : WFn m n) (hx : x.size = n)
    (hk : k < n) (hi : i < n) (hki : k ≠ i) {m' : Mat K} {x' : Array K}
    (h : elimRow k (m, x) i = .ok (m', x')) :
    ent m k k ≠ 0 ∧ WFn m' n ∧ x'.size = n ∧
    (∀ a b, a < n → b < n → ent m' a b =
        if a = i ∧ k ≤ b then ent m i b - (ent m i k / ent m k k) * ent m k b else ent m a b) ∧
    (∀ a, vf x' a = if a = i then vf x i - (ent m i k / ent m k k) * vf x k else vf x a) := by
  unfold elimRow at h
  simp only [hm.get hi hk, hm.get hk hk, bind, Except.bind, Alg.divM_law] at h
  by_cases hz : ent m k k = 0
  · simp [hz] at h
  refine ⟨hz, ?_⟩
  simp only [hz, if_false] at h
  -- the column loop
  obtain ⟨m1, hm1, hP⟩ := forM'_inv
    (fun t (s : Mat K) => Is s n n (fun a b => if a = i ∧ k ≤ b ∧ b < t then
      ent m i b - (ent m i k / ent m k k) * ent m k b else ent m a b))
    k m.rows m (fun s j => do
      let kj ← s.get k j
      let ij ← s.get i j
      s.set i j (ij - (ent m i k / ent m k k) * kj)) (by rw [hm.2.1]; omega)
    (by
      have := hm.is
      refine ⟨this.wf, this.rows, this.cols, ?_⟩
      intro a b ha hb
      rw [this.entry a b ha hb]
      congr 1
      have : ¬ (a = i ∧ k ≤ b ∧ b < k) := by omega
      simp [this]) (by
      intro t s ht1 ht2 hs
      rw [hm.2.1] at ht2
      obtain ⟨s', hs', hI⟩ := hs.set hi ht2
        (ent m i t - (ent m i k / ent m k k) * ent m k t)
      refine ⟨s', ?_, ⟨hI.wf, hI.rows, hI.cols, ?_⟩⟩
      · have e1 := hs.entry k t hk ht2
        have e2 := hs.entry i t hi ht2
        simp only [hki, Nat.lt_irrefl, and_false, false_and, if_false] at e1 e2
        simp only [e1, e2, bind, Except.bind]
        exact hs'
      · intro a b ha hb
        rw [hI.entry a b ha hb]
        congr 1
        by_cases hab : a = i ∧ b = t
        · obtain ⟨rfl, rfl⟩ := hab
          have : k ≤ b ∧ b < b + 1 := by omega
          simp [this]
        · have e1 : (a = i ∧ k ≤ b ∧ b < t + 1) = (a = i ∧ k ≤ b ∧ b < t) := by
            apply propext; omega
          simp only [hab, if_false, e1])
  simp only [bind, Except.bind] at hm1
  rw [hm1] at h
  have hxk : k < x.size := by omega
  have hxi : i < x.size := by omega
  simp only [aget_vf hxk, aget_vf hxi, aset_ok _ hxi, pure, Except.pure] at h
  injection h with h
  injection h with h1 h2
  subst h1; subst h2
  refine ⟨hP.wfn, by simpa using hx, ?_, ?_⟩
  · intro a b ha hb
    rw [hP.ent_eq ha hb]
    have e1 : (a = i ∧ k ≤ b ∧ b < m.rows) = (a = i ∧ k ≤ b) := by
      apply propext; rw [hm.2.1]; omega
    simp only [e1]
  · intro a
    rw [vf_set _ hxi]

theorem partialPivot_spec [BEq K] [ScalarExt K]
    {m : Mat K} {x : Array K} {n k : Nat} (hm : WFn m n) (hx : x.size = n)
    (hk : k < n) {m' : Mat K} {x' : Array K} (h : partialPivot m x k = .ok (m', x')) :
    ∃ p, p < n ∧ (p = 0 ∨ k ≤ p) ∧ WFn m' n ∧ x'.size = n ∧
      (∀ a b, a < n → b < n →
        ent m' a b = if a = p then ent m k b else if a = k then ent m p b else ent m a b) ∧
      (∀ a, vf x' a = if a = k then vf x p else if a = p then vf x k else vf x a) := by
  unfold partialPivot at h
  cases hp : maxAbsInColumn m k k with
  | error e => simp [hp, bind, Except.bind] at h
  | ok p =>
    have hr := maxAbsInColumn_range hp
    simp only [hp, bind, Except.bind] at h
    by_cases hpn : p < n
    · obtain ⟨m1, hm1, hI⟩ := swapRows_spec_ss hm.is hpn hk
      obtain ⟨x1, hx1, hs1, hv1⟩ := vswap_spec (x := x) (p := p) (k := k) (by omega) (by omega)
      simp only [hm1, hx1, pure, Except.pure] at h
      injection h with h
      injection h with h1 h2
      subst h1; subst h2
      refine ⟨p, hpn, hr, hI.wfn, by omega, ?_, hv1⟩
      intro a b ha hb
      rw [hI.ent_eq ha hb]
    · have : m.rows ≤ p := by rw [hm.2.1]; omega
      simp [swapRows, this] at h

/-! ### back substitution -/

/-- row `i` of the back substitution is finished: the pivot is non-zero and the row equation of
    the upper triangle holds -/
def BS (m : Mat K) (n : Nat) (x s : Array K) (i : Nat) : Prop :=
  ent m i i ≠ 0 ∧
    ent m i i * vf s i + ∑ j ∈ Finset.Ico (i + 1) n, ent m i j * vf s j = vf x i

theorem BS.congr {m : Mat K} {n : Nat} {x s s' : Array K} {i : Nat}
    (hc : ∀ j, i ≤ j → vf s' j = vf s j) (h : BS m n x s i) : BS m n x s' i := by
  refine ⟨h.1, ?_⟩
  rw [← h.2, hc i (Nat.le_refl _)]
  congr 1
  apply Finset.sum_congr rfl
  intro j hj
  rw [hc j (by have := (Finset.mem_Ico.1 hj).1; omega)]

/-- the inner accumulation loop of `backsolve` for row `k` -/
theorem backsolve_inner {m : Mat K} {n k : Nat} (hm : WFn m n) (hk : k < n) (s : Array K)
    (hs : s.size = n) :
    ∃ s2, forM' (k + 1) n s (fun x j => do
        let xj ← aget x j
        let xk ← aget x k
        let kj ← m.get k j
        aset x k (xk - kj * xj)) = .ok s2 ∧ s2.size = n ∧
      ∀ a, vf s2 a = if a = k then vf s k - ∑ j ∈ Finset.Ico (k + 1) n, ent m k j * vf s j
        else vf s a := by
  obtain ⟨s2, h2, hP⟩ := forM'_inv
    (fun t (u : Array K) => u.size = n ∧ ∀ a, vf u a =
      if a = k then vf s k - ∑ j ∈ Finset.Ico (k + 1) t, ent m k j * vf s j else vf s a)
    (k + 1) n s (fun x j => do
        let xj ← aget x j
        let xk ← aget x k
        let kj ← m.get k j
        aset x k (xk - kj * xj)) (by omega)
    ⟨hs, by intro a; by_cases h : a = k <;> simp [h]⟩ (by
      intro t u ht1 ht2 ⟨hu, hv⟩
      have htu : t < u.size := by omega
      have hku : k < u.size := by omega
      refine ⟨u.setIfInBounds k (vf u k - ent m k t * vf u t), ?_, by simpa using hu, ?_⟩
      · simp only [aget_vf htu, aget_vf hku, hm.get hk ht2, bind, Except.bind]
        exact aset_ok _ hku
      · intro a
        rw [vf_set _ hku]
        by_cases hak : a = k
        · subst hak
          have htk : t ≠ a := by omega
          simp only [if_true]
          rw [hv a, hv t, Finset.sum_Ico_succ_top ht1]
          simp only [if_true, htk, if_false]
          ring
        · simp only [hak, if_false]
          rw [hv a]; simp [hak])
  exact ⟨s2, h2, hP.1, hP.2⟩

theorem backsolve_spec [BEq K] [ScalarExt K] [DecidableEq K] [Alg.DivLaw K]
    {m : Mat K} {n : Nat} {x x' : Array K} (hm : WFn m n) (hx : x.size = n)
    (hn : 1 ≤ n) (h : backsolve m x = .ok x') :
    x'.size = n ∧ ∀ i, i < n → BS m n x x' i := by
  unfold backsolve at h
  rw [hm.2.1] at h
  have hl : n - 1 < n := by omega
  have hu : usub n 1 = .ok (n - 1) := by simp [usub, hn]
  have hlx : n - 1 < x.size := by omega
  simp only [hu, aget_vf hlx, hm.get hl hl, bind, Except.bind, Alg.divM_law] at h
  by_cases hz : ent m (n - 1) (n - 1) = 0
  · simp [hz] at h
  simp only [hz, if_false, aset_ok _ hlx] at h
  have key := forM'_ok_inv
    (fun nn (s : Array K) => s.size = n ∧ (∀ i, i < n + 1 - nn → vf s i = vf x i) ∧
      (∀ i, n + 1 - nn ≤ i → i < n → BS m n x s i))
    2 (n + 1) _ x' _ (by omega) ?init ?step h
  case init =>
    refine ⟨by simpa using hx, ?_, ?_⟩
    · intro i hi
      rw [vf_set _ hlx]
      have : i ≠ n - 1 := by omega
      simp [this]
    · intro i hi1 hi2
      have : i = n - 1 := by omega
      subst this
      refine ⟨hz, ?_⟩
      have e : n - 1 + 1 = n := by omega
      rw [vf_set _ hlx, e]
      simp only [if_true, Finset.Ico_self, Finset.sum_empty, add_zero]
      field_simp
  case step =>
    intro nn s s1 h1 h2 ⟨hs, hun, hdone⟩ hf
    have hus : usub n nn = .ok (n - nn) := by
      have : nn ≤ n := by omega
      simp [usub, this]
    have hk : n - nn < n := by omega
    simp only [hus] at hf
    obtain ⟨s2, hs2, hsz, hv⟩ := backsolve_inner hm hk s hs
    simp only [bind, Except.bind] at hs2
    rw [hs2] at hf
    have hk2 : n - nn < s2.size := by omega
    simp only [aget_vf hk2, hm.get hk hk] at hf
    by_cases hz' : ent m (n - nn) (n - nn) = 0
    · simp [hz'] at hf
    simp only [hz', if_false, aset_ok _ hk2] at hf
    injection hf with hf
    subst hf
    refine ⟨by simpa using hsz, ?_, ?_⟩
    · intro i hi
      rw [vf_set _ hk2, hv i]
      have : i ≠ n - nn := by omega
      simp only [this, if_false]
      exact hun i (by omega)
    · intro i hi1 hi2
      by_cases hik : i = n - nn
      · subst hik
        refine ⟨hz', ?_⟩
        rw [vf_set _ hk2]
        simp only [if_true]
        rw [hv (n - nn)]
        simp only [if_true]
        have e1 : ∑ j ∈ Finset.Ico (n - nn + 1) n,
            ent m (n - nn) j * vf (s2.setIfInBounds (n - nn)
              ((vf s (n - nn) - ∑ j ∈ Finset.Ico (n - nn + 1) n, ent m (n - nn) j * vf s j) /
                ent m (n - nn) (n - nn))) j
            = ∑ j ∈ Finset.Ico (n - nn + 1) n, ent m (n - nn) j * vf s j := by
          apply Finset.sum_congr rfl
          intro j hj
          have hj1 := (Finset.mem_Ico.1 hj).1
          have : j ≠ n - nn := by omega
          rw [vf_set _ hk2, hv j]
          simp only [this, if_false]
        rw [e1, ← hun (n - nn) (by omega)]
        field_simp
        ring
      · refine (hdone i (by omega) hi2).congr ?_
        intro j hj
        have : j ≠ n - nn := by omega
        rw [vf_set _ hk2, hv j]
        simp only [this, if_false]
  obtain ⟨k1, k2, k3⟩ := key
  exact ⟨k1, fun i hi => k3 i (by omega) hi⟩

/-! ### solution sets -/

/-- `z` solves the `n × n` system with entry function `e` and right-hand side `y` -/
def Sol (n : Nat) (e : Nat → Nat → K) (y z : Nat → K) : Prop :=
  ∀ i, i < n → ∑ j ∈ Finset.range n, e i j * z j = y i

/-- exchanging two equations does not change the solution set -/
theorem Sol.of_swap {n p k : Nat} (hp : p < n) (hk : k < n) {e e' : Nat → Nat → K}
    {y y' z : Nat → K}
    (he : ∀ a b, a < n → b < n →
      e' a b = if a = p then e k b else if a = k then e p b else e a b)
    (hy : ∀ a, a < n → y' a = if a = k then y p else if a = p then y k else y a)
    (h : Sol n e' y' z) : Sol n e y z := by
  intro i hi
  by_cases hip : i = p
  · subst hip
    have := h k hk
    rw [hy k hk] at this
    simp only [if_true] at this
    rw [← this]
    apply Finset.sum_congr rfl
    intro j hj
    rw [he k j hk (Finset.mem_range.1 hj)]
    by_cases hki : k = i <;> simp [hki]
  · by_cases hik : i = k
    · subst hik
      have := h p hp
      rw [hy p hp] at this
      have hpi : p ≠ i := fun e => hip e.symm
      simp only [hpi, if_false, if_true] at this
      rw [← this]
      apply Finset.sum_congr rfl
      intro j hj
      rw [he p j hp (Finset.mem_range.1 hj)]
      simp
    · have := h i hi
      rw [hy i hi] at this
      simp only [hip, hik, if_false] at this
      rw [← this]
      apply Finset.sum_congr rfl
      intro j hj
      rw [he i j hi (Finset.mem_range.1 hj)]
      simp [hip, hik]

/-- subtracting a multiple of equation `k` from equation `i ≠ k` does not change the
    solution set -/
theorem Sol.of_elim {n i k : Nat} (hi : i < n) (hk : k < n) (hki : k ≠ i) (c : K)
    {e e' : Nat → Nat → K} {y y' z : Nat → K}
    (he : ∀ a b, a < n → b < n → e' a b = if a = i then e i b - c * e k b else e a b)
    (hy : ∀ a, a < n → y' a = if a = i then y i - c * y k else y a)
    (h : Sol n e' y' z) : Sol n e y z := by
  have hrow : ∀ a, a < n → a ≠ i → ∑ j ∈ Finset.range n, e a j * z j = y a := by
    intro a ha hai
    have := h a ha
    rw [hy a ha] at this
    simp only [hai, if_false] at this
    rw [← this]
    apply Finset.sum_congr rfl
    intro j hj
    rw [he a j ha (Finset.mem_range.1 hj)]
    simp [hai]
  intro a ha
  by_cases hai : a = i
  · subst hai
    have h1 := h a ha
    rw [hy a ha] at h1
    simp only [if_true] at h1
    have h2 := hrow k hk hki
    have h3 : ∑ j ∈ Finset.range n, e' a j * z j =
        ∑ j ∈ Finset.range n, e a j * z j - c * ∑ j ∈ Finset.range n, e k j * z j := by
      rw [Finset.mul_sum, ← Finset.sum_sub_distrib]
      apply Finset.sum_congr rfl
      intro j hj
      rw [he a j ha (Finset.mem_range.1 hj)]
      simp only [if_true]
      ring
    rw [h3, h2] at h1
    linear_combination h1
  · exact hrow a ha hai

/-- converse of `Sol.of_swap` -/
theorem Sol.to_swap {n p k : Nat} (hp : p < n) (hk : k < n) {e e' : Nat → Nat → K}
    {y y' z : Nat → K}
    (he : ∀ a b, a < n → b < n →
      e' a b = if a = p then e k b else if a = k then e p b else e a b)
    (hy : ∀ a, a < n → y' a = if a = k then y p else if a = p then y k else y a)
    (h : Sol n e y z) : Sol n e' y' z := by
  intro i hi
  rw [hy i hi]
  by_cases hip : i = p
  · subst hip
    have : (if i = k then y i else y k) = y k := by
      by_cases hik : i = k <;> simp [hik]
    simp only [if_true, this]
    rw [← h k hk]
    apply Finset.sum_congr rfl
    intro j hj
    rw [he i j hi (Finset.mem_range.1 hj)]
    simp
  · by_cases hik : i = k
    · subst hik
      simp only [if_true]
      rw [← h p hp]
      apply Finset.sum_congr rfl
      intro j hj
      rw [he i j hi (Finset.mem_range.1 hj)]
      simp [hip]
    · simp only [hip, hik, if_false]
      rw [← h i hi]
      apply Finset.sum_congr rfl
      intro j hj
      rw [he i j hi (Finset.mem_range.1 hj)]
      simp [hip, hik]

/-- converse of `Sol.of_elim` -/
theorem Sol.to_elim {n i k : Nat} (hi : i < n) (hk : k < n) (hki : k ≠ i) (c : K)
    {e e' : Nat → Nat → K} {y y' z : Nat → K}
    (he : ∀ a b, a < n → b < n → e' a b = if a = i then e i b - c * e k b else e a b)
    (hy : ∀ a, a < n → y' a = if a = i then y i - c * y k else y a)
    (h : Sol n e y z) : Sol n e' y' z := by
  intro a ha
  rw [hy a ha]
  by_cases hai : a = i
  · subst hai
    simp only [if_true]
    rw [← h a ha, ← h k hk, Finset.mul_sum, ← Finset.sum_sub_distrib]
    apply Finset.sum_congr rfl
    intro j hj
    rw [he a j ha (Finset.mem_range.1 hj)]
    simp only [if_true]
    ring
  · simp only [hai, if_false]
    rw [← h a ha]
    apply Finset.sum_congr rfl
    intro j hj
    rw [he a j ha (Finset.mem_range.1 hj)]
    simp [hai]

/-- in an upper-triangular row the full row sum is the diagonal term plus the tail -/
theorem sum_range_upper (f : Nat → K) {i n : Nat} (hi : i < n) (hz : ∀ j, j < i → f j = 0) :
    ∑ j ∈ Finset.range n, f j = f i + ∑ j ∈ Finset.Ico (i + 1) n, f j := by
  rw [Finset.range_eq_Ico, ← Finset.sum_Ico_consecutive f (Nat.zero_le i) (Nat.le_of_lt hi),
    Finset.sum_eq_sum_Ico_succ_bot hi]
  have : ∑ j ∈ Finset.Ico 0 i, f j = 0 := by
    apply Finset.sum_eq_zero
    intro j hj
    exact hz j (Finset.mem_Ico.1 hj).2
  rw [this, zero_add]

/-! ### the elimination invariant -/

/-- echelon shape after `k` steps: zeros below the diagonal in the first `k` columns -/
def Good (n k : Nat) (e : Nat → Nat → K) : Prop :=
  ∀ i j, i < n → j < k → j < i → e i j = 0

/-- the state reached after the pivot search fell back to row 0 (all-zero pivot column):
    entry (0,0) is zero and so is column 0 in every row that can still be swapped into row 0 -/
def BadP (n k : Nat) (e : Nat → Nat → K) : Prop :=
  e 0 0 = 0 ∧ ∀ i, k < i → i < n → e i 0 = 0

/-- the row loop of one elimination step (pivot row `k`) -/
theorem elimLoop_spec [BEq K] [ScalarExt K] [DecidableEq K] [Alg.DivLaw K]
    {n k : Nat} (hk : k < n) (a : Nat → Nat → K) (b : Nat → K)
    {m m' : Mat K} {x x' : Array K} (hm : WFn m n) (hx : x.size = n)
    (h : forM' (k + 1) m.rows (m, x) (elimRow k) = .ok (m', x')) :
    WFn m' n ∧ x'.size = n ∧
      (1 ≤ k → BadP n k (ent m) → BadP n k (ent m')) ∧
      (Good n k (ent m) → (∀ z, Sol n (ent m) (vf x) z ↔ Sol n a b z) →
        Good n (k + 1) (ent m') ∧ (∀ z, Sol n (ent m') (vf x') z ↔ Sol n a b z)) := by
  rw [hm.2.1] at h
  have key := forM'_ok_inv
    (fun t (s : Mat K × Array K) => WFn s.1 n ∧ s.2.size = n ∧
      (1 ≤ k → BadP n k (ent m) → BadP n k (ent s.1)) ∧
      (Good n k (ent m) → (∀ z, Sol n (ent m) (vf x) z ↔ Sol n a b z) →
        Good n k (ent s.1) ∧ (∀ i, k < i → i < t → ent s.1 i k = 0) ∧
        (∀ z, Sol n (ent s.1) (vf s.2) z ↔ Sol n a b z)))
    (k + 1) n (m, x) (m', x') (elimRow k) (by omega) ?init ?step h
  case init =>
    refine ⟨hm, hx, fun _ hb => hb, fun hg hs => ⟨hg, ?_, hs⟩⟩
    intro i h1 h2; omega
  case step =>
    intro i s s1 hi1 hi2 ⟨hw, hsz, hbad, hgood⟩ hf
    obtain ⟨ms, xs⟩ := s
    obtain ⟨m1, x1⟩ := s1
    have hki : k ≠ i := by omega
    obtain ⟨hz, hw1, hsz1, he1, hv1⟩ := elimRow_spec hw hsz hk hi2 hki hf
    refine ⟨hw1, hsz1, ?_, ?_⟩
    · intro h1k hb
      obtain ⟨b1, b2⟩ := hbad h1k hb
      have hn0 : 0 < n := by omega
      have c : ∀ r, ¬ (r = i ∧ k ≤ 0) := by intro r; omega
      refine ⟨?_, ?_⟩
      · show ent m1 0 0 = 0
        rw [he1 0 0 hn0 hn0]; simp only [c, if_false]; exact b1
      · intro r hr1 hr2
        show ent m1 r 0 = 0
        rw [he1 r 0 hr2 hn0]; simp only [c, if_false]; exact b2 r hr1 hr2
    · intro hg hs
      obtain ⟨g1, g2, g3⟩ := hgood hg hs
      refine ⟨?_, ?_, ?_⟩
      · intro r j hr hj hjr
        show ent m1 r j = 0
        have c : ¬ (r = i ∧ k ≤ j) := by omega
        rw [he1 r j hr (by omega)]; simp only [c, if_false]
        exact g1 r j hr hj hjr
      · intro r hr1 hr2
        show ent m1 r k = 0
        rw [he1 r k (by omega) hk]
        by_cases hri : r = i
        · subst hri
          simp only [true_and, Nat.le_refl, if_true]
          field_simp
          ring
        · have c : ¬ (r = i ∧ k ≤ k) := by omega
          simp only [c, if_false]
          exact g2 r hr1 (by omega)
      · intro z
        rw [← g3 z]
        have he : ∀ r j, r < n → j < n → ent m1 r j =
            if r = i then ent ms i j - (ent ms i k / ent ms k k) * ent ms k j
            else ent ms r j := by
          intro r j hr hj
          rw [he1 r j hr hj]
          by_cases hri : r = i
          · subst hri
            by_cases hkj : k ≤ j
            · simp [hkj]
            · have : ent ms k j = 0 := g1 k j hk (by omega) (by omega)
              simp [hkj, this]
          · simp [hri]
        have hy : ∀ r, r < n → vf x1 r =
            if r = i then vf xs i - (ent ms i k / ent ms k k) * vf xs k else vf xs r :=
          fun r _ => hv1 r
        exact ⟨Sol.of_elim hi2 hk hki _ he hy, Sol.to_elim hi2 hk hki _ he hy⟩
  obtain ⟨k1, k2, k3, k4⟩ := key
  refine ⟨k1, k2, k3, ?_⟩
  intro hg hs
  obtain ⟨g1, g2, g3⟩ := k4 hg hs
  refine ⟨?_, g3⟩
  intro r j hr hj hjr
  by_cases hjk : j = k
  · subst hjk; exact g2 r hjr hr
  · exact g1 r j hr (by omega) hjr

/-- `BadP` seen from the next step -/
def Bad (n k : Nat) (e : Nat → Nat → K) : Prop :=
  1 ≤ k ∧ e 0 0 = 0 ∧ ∀ i, k ≤ i → i < n → e i 0 = 0

/-- outer invariant of `gauss_with_pivot`, at its exit: either the fallback swap with row 0
    happened (`Bad`, the back substitution will then fail), or the matrix is in echelon form and
    the reduced system has the same solutions as the original one -/
theorem gauss_spec [BEq K] [ScalarExt K] [DecidableEq K] [Alg.DivLaw K]
    {n : Nat} (hn : 1 ≤ n) {A m' : Mat K} {b x' : Array K} (hA : WFn A n)
    (hb : b.size = n) (h : gaussWithPivot A b = .ok (m', x')) :
    WFn m' n ∧ x'.size = n ∧
      (Bad n (n - 1) (ent m') ∨
        (Good n (n - 1) (ent m') ∧ ∀ z, Sol n (ent m') (vf x') z ↔ Sol n (ent A) (vf b) z)) := by
  unfold gaussWithPivot at h
  rw [hA.2.1] at h
  have hu : usub n 1 = .ok (n - 1) := by simp [usub, hn]
  simp only [hu, bind, Except.bind] at h
  have key := forM'_ok_inv
    (fun k (s : Mat K × Array K) => WFn s.1 n ∧ s.2.size = n ∧
      (Bad n k (ent s.1) ∨
        (Good n k (ent s.1) ∧ ∀ z, Sol n (ent s.1) (vf s.2) z ↔ Sol n (ent A) (vf b) z)))
    0 (n - 1) (A, b) (m', x') _ (Nat.zero_le _) ?init ?step h
  case init =>
    refine ⟨hA, hb, Or.inr ⟨?_, fun z => Iff.rfl⟩⟩
    intro i j _ hj; omega
  case step =>
    intro k s s1 _ hk ⟨hw, hsz, hinv⟩ hf
    obtain ⟨ms, xs⟩ := s
    obtain ⟨m2, x2⟩ := s1
    have hkn : k < n := by omega
    simp only at hf
    cases hp : partialPivot ms xs k with
    | error e => rw [hp] at hf; simp at hf
    | ok s1 =>
      obtain ⟨m1, x1⟩ := s1
      rw [hp] at hf
      simp only at hf
      obtain ⟨p, hpn, hpr, hw1, hsz1, he1, hv1⟩ := partialPivot_spec hw hsz hkn hp
      obtain ⟨hw2, hsz2, hbad, hgood⟩ := elimLoop_spec hkn (ent A) (vf b) hw1 hsz1 hf
      refine ⟨hw2, hsz2, ?_⟩
      have hn0 : 0 < n := by omega
      -- `BadP` at step `k` gives `Bad` at step `k+1`
      have toBad : BadP n k (ent m2) → Bad n (k + 1) (ent m2) := by
        intro ⟨b1, b2⟩
        exact ⟨by omega, b1, fun i hi1 hi2 => b2 i (by omega) hi2⟩
      rcases hinv with ⟨h1k, b1, b2⟩ | ⟨hg, hs⟩
      · -- already bad: stays bad
        left
        apply toBad
        apply hbad h1k
        refine ⟨?_, ?_⟩
        · show ent m1 0 0 = 0
          rw [he1 0 0 hn0 hn0]
          by_cases h0p : 0 = p
          · simp only [h0p, if_true]; rw [← h0p]; exact b2 k (Nat.le_refl _) hkn
          · have h0k : ¬ (0 = k) := by omega
            simp only [h0p, h0k, if_false]; exact b1
        · intro i hi1 hi2
          show ent m1 i 0 = 0
          rw [he1 i 0 hi2 hn0]
          by_cases hip : i = p
          · simp only [hip, if_true]; exact b2 k (Nat.le_refl _) hkn
          · have hik : ¬ (i = k) := by omega
            simp only [hip, hik, if_false]; exact b2 i (by omega) hi2
      · by_cases hkp : k ≤ p
        · -- regular pivot row: echelon form and solution set preserved
          right
          apply hgood
          · intro i j hi hj hji
            show ent m1 i j = 0
            rw [he1 i j hi (by omega)]
            by_cases hip : i = p
            · simp only [hip, if_true]; exact hg k j hkn hj hj
            · by_cases hik : i = k
              · subst hik
                simp only [hip, if_false, if_true]; exact hg p j hpn hj (by omega)
              · simp only [hip, hik, if_false]; exact hg i j hi hj hji
          · intro z
            rw [← hs z]
            exact ⟨Sol.of_swap hpn hkn he1 (fun r _ => hv1 r),
              Sol.to_swap hpn hkn he1 (fun r _ => hv1 r)⟩
        · -- fallback to row 0 with k ≥ 1
          left
          have hp0 : p = 0 := by omega
          have h1k : 1 ≤ k := by omega
          subst hp0
          apply toBad
          apply hbad h1k
          refine ⟨?_, ?_⟩
          · show ent m1 0 0 = 0
            rw [he1 0 0 hn0 hn0]
            simp only [if_true]
            exact hg k 0 hkn (by omega) (by omega)
          · intro i hi1 hi2
            show ent m1 i 0 = 0
            rw [he1 i 0 hi2 hn0]
            have hi0 : ¬ (i = 0) := by omega
            have hik : ¬ (i = k) := by omega
            simp only [hi0, hik, if_false]
            exact hg i 0 hi2 (by omega) (by omega)
  exact key

/-- an upper-triangular system with non-zero diagonal has at most one solution -/
theorem tri_unique {n : Nat} {e : Nat → Nat → K} {y z z' : Nat → K}
    (hg : ∀ i j, i < n → j < i → e i j = 0) (hd : ∀ i, i < n → e i i ≠ 0)
    (h : Sol n e y z) (h' : Sol n e y z') : ∀ i, i < n → z i = z' i := by
  have key : ∀ d i, i < n → n - i = d → z i = z' i := by
    intro d
    induction d using Nat.strong_induction_on with
    | _ d ih =>
      intro i hi hd'
      have e1 := h i hi
      have e2 := h' i hi
      rw [sum_range_upper (fun j => e i j * z j) hi
        (by intro j hj; simp only [hg i j hi hj, zero_mul])] at e1
      rw [sum_range_upper (fun j => e i j * z' j) hi
        (by intro j hj; simp only [hg i j hi hj, zero_mul])] at e2
      have e3 : ∑ j ∈ Finset.Ico (i + 1) n, e i j * z j =
          ∑ j ∈ Finset.Ico (i + 1) n, e i j * z' j := by
        apply Finset.sum_congr rfl
        intro j hj
        obtain ⟨hj1, hj2⟩ := Finset.mem_Ico.1 hj
        rw [ih (n - j) (by omega) j hj2 rfl]
      have e4 : e i i * z i = e i i * z' i := by
        rw [e3] at e1
        exact add_right_cancel (e1.trans e2.symm)
      exact mul_left_cancel₀ (hd i hi) e4
  intro i hi
  exact key (n - i) i hi rfl

/-- what a successful `solve_basic` has established: a triangular system with non-zero
    diagonal, equivalent to the original one, which the returned vector solves row by row -/
theorem solveBasic_char [BEq K] [ScalarExt K] [DecidableEq K] [Alg.DivLaw K]
    {n : Nat} (hn : 1 ≤ n) {A : Mat K} {b x : Array K} (hA : WFn A n)
    (hb : b.size = n) (h : solveBasic A b = .ok x) :
    ∃ (m' : Mat K) (x' : Array K), x.size = n ∧
      (∀ i j, i < n → j < i → ent m' i j = 0) ∧ (∀ i, i < n → ent m' i i ≠ 0) ∧
      (∀ z, Sol n (ent m') (vf x') z ↔ Sol n (ent A) (vf b) z) ∧
      Sol n (ent m') (vf x') (vf x) := by
  unfold solveBasic at h
  have h1 : ¬ A.rows ≠ b.size := by rw [hA.2.1, hb]; simp
  have h2 : ¬ A.rows ≠ A.cols := by rw [hA.2.1, hA.2.2]; simp
  simp only [h1, h2, if_false, bind, Except.bind] at h
  cases hg : gaussWithPivot A b with
  | error e => rw [hg] at h; simp at h
  | ok s =>
    obtain ⟨m', x'⟩ := s
    rw [hg] at h
    simp only at h
    obtain ⟨hw, hsz, hinv⟩ := gauss_spec hn hA hb hg
    obtain ⟨hxs, hbs⟩ := backsolve_spec hw hsz hn h
    rcases hinv with ⟨_, b1, _⟩ | ⟨hg', hs⟩
    · exact absurd b1 (hbs 0 (by omega)).1
    · refine ⟨m', x', hxs, fun i j hi hj => hg' i j hi (by omega) hj,
        fun i hi => (hbs i hi).1, hs, ?_⟩
      intro i hi
      obtain ⟨_, hrow⟩ := hbs i hi
      rw [sum_range_upper (fun j => ent m' i j * vf x j) hi]
      · exact hrow
      · intro j hj
        have : ent m' i j = 0 := hg' i j hi (by omega) hj
        simp [this]

/-- **Soundness of `solve_basic`** in terms of the canonical entry functions: whenever a value
    is returned it has length `n` and solves the system. No pivot hypothesis: a vanishing pivot
    makes a division fail, which is the error branch. -/
theorem solveBasic_sound_ent [BEq K] [ScalarExt K] [DecidableEq K] [Alg.DivLaw K]
    {n : Nat} (hn : 1 ≤ n) {A : Mat K} {b x : Array K} (hA : WFn A n)
    (hb : b.size = n) (h : solveBasic A b = .ok x) :
    x.size = n ∧ Sol n (ent A) (vf b) (vf x) := by
  obtain ⟨m', x', hxs, _, _, hs, hsol⟩ := solveBasic_char hn hA hb h
  exact ⟨hxs, (hs _).1 hsol⟩

/-- a successful `solve_basic` certifies that the system has no other solution -/
theorem solveBasic_unique_ent [BEq K] [ScalarExt K] [DecidableEq K] [Alg.DivLaw K]
    {n : Nat} (hn : 1 ≤ n) {A : Mat K} {b x : Array K} (hA : WFn A n)
    (hb : b.size = n) (h : solveBasic A b = .ok x) (z : Nat → K)
    (hz : Sol n (ent A) (vf b) z) : ∀ j, j < n → z j = vf x j := by
  obtain ⟨m', x', _, hg, hd, hs, hsol⟩ := solveBasic_char hn hA hb h
  exact tri_unique hg hd ((hs z).2 hz) hsol

/-! ### in-place LU: the row invariant

`LURow n pa lu r ρ`: row `r` of the (permuted) original matrix `pa` is reproduced by the first
`ρ` elimination steps stored in `lu`:
`pa r c = Σ_{t<ρ, t≤c} lu r t · lu t c + (if c < ρ then 0 else lu r c)`.
With `ρ = min r i` for every row this is `P·A = L_i · U_i` after `i` column steps. -/

def LURow (n : Nat) (pa lu : Nat → Nat → K) (r ρ : Nat) : Prop :=
  ∀ c, c < n → pa r c =
    (∑ t ∈ Finset.range ρ, if t ≤ c then lu r t * lu t c else 0) + (if c < ρ then 0 else lu r c)

theorem LURow.transfer {n : Nat} {pa pa' lu lu' : Nat → Nat → K} {r r0 ρ : Nat} (hρ : ρ ≤ n)
    (hpa : ∀ c, c < n → pa' r c = pa r0 c) (hrow : ∀ c, c < n → lu' r c = lu r0 c)
    (hup : ∀ t c, t < ρ → c < n → lu' t c = lu t c) (h : LURow n pa lu r0 ρ) :
    LURow n pa' lu' r ρ := by
  intro c hc
  rw [hpa c hc, h c hc, hrow c hc]
  congr 1
  apply Finset.sum_congr rfl
  intro t ht
  have ht' := Finset.mem_range.1 ht
  rw [hrow t (by omega), hup t c ht' hc]

theorem LURow.elim {n : Nat} {pa lu lu' : Nat → Nat → K} {j i : Nat} (hi : i < n) (hij : i < j)
    (q : K)
    (hrow : ∀ c, c < n → lu' j c =
      if c = i then q else if i < c then lu j c - q * lu i c else lu j c)
    (hoth : ∀ t c, t ≤ i → c < n → lu' t c = lu t c) (hq : q * lu i i = lu j i)
    (h : LURow n pa lu j i) : LURow n pa lu' j (i + 1) := by
  intro c hc
  rw [h c hc, Finset.sum_range_succ]
  have e1 : ∑ t ∈ Finset.range i, (if t ≤ c then lu' j t * lu' t c else 0) =
      ∑ t ∈ Finset.range i, (if t ≤ c then lu j t * lu t c else 0) := by
    apply Finset.sum_congr rfl
    intro t ht
    have ht' := Finset.mem_range.1 ht
    rw [hrow t (by omega), hoth t c (by omega) hc]
    have c1 : ¬ t = i := by omega
    have c2 : ¬ i < t := by omega
    simp only [c1, c2, if_false]
  rw [e1, hrow c hc, hrow i hi, hoth i c (Nat.le_refl _) hc]
  simp only [if_true]
  by_cases hci : c = i
  · subst hci
    have c1 : ¬ c < c := by omega
    have c2 : c < c + 1 := by omega
    simp only [c1, c2, if_true, if_false, Nat.le_refl, hq]
    ring
  · by_cases hlt : c < i
    · have c1 : ¬ i ≤ c := by omega
      have c2 : c < i + 1 := by omega
      simp only [hlt, c1, c2, if_true, if_false]
      ring
    · have c1 : i ≤ c := by omega
      have c2 : ¬ c < i + 1 := by omega
      have c3 : i < c := by omega
      simp only [hlt, c1, c2, c3, hci, if_true, if_false]
      ring

/-! ### in-place LU: the operations -/

/-- pivot search of the LU: the returned row is at or below the diagonal, and a zero maximum
    means the column is zero on and below the diagonal -/
theorem luPivot_spec [BEq K] [ScalarExt K] [DecidableEq K] [Alg.PivotLaws K]
    {m : Mat K} {n i : Nat} (hm : WFn m n) (hi : i < n)
    {maxA : K} {imax : Nat} (h : luPivot m i = .ok (maxA, imax)) :
    i ≤ imax ∧ (maxA = 0 → ∀ k, i ≤ k → k < n → ent m k i = 0) := by
  unfold luPivot at h
  rw [hm.2.1] at h
  have key := forM'_ok_inv
    (fun t (s : K × Nat) => i ≤ s.2 ∧ ∃ v : K, s.1 = ScalarExt.mag v ∧
      ∀ k, i ≤ k → k < t → Alg.PivotLaws.size (ent m k i) ≤ Alg.PivotLaws.size v)
    i n ((0 : K), i) (maxA, imax) _ (by omega) ?init ?step h
  case init =>
    exact ⟨Nat.le_refl _, 0, Alg.PivotLaws.mag_zero.symm, by intro k h1 h2; omega⟩
  case step =>
    intro t s s1 ht1 ht2 ⟨h1, v, hv, h2⟩ hf
    obtain ⟨mx, im⟩ := s
    simp only at hv
    subst hv
    simp only [hm.get ht2 hi, bind, Except.bind, pure, Except.pure, Alg.PivotLaws.lt_mag] at hf
    by_cases hlt : Alg.PivotLaws.size v < Alg.PivotLaws.size (ent m t i)
    · simp only [hlt, decide_true, if_true] at hf
      injection hf with hf
      subst hf
      refine ⟨ht1, ent m t i, rfl, ?_⟩
      intro k hk1 hk2
      by_cases hkt : k = t
      · subst hkt; exact le_refl _
      · exact le_trans (h2 k hk1 (by omega)) (le_of_lt hlt)
    · simp only [hlt, decide_false] at hf
      injection hf with hf
      subst hf
      refine ⟨h1, v, rfl, ?_⟩
      intro k hk1 hk2
      by_cases hkt : k = t
      · subst hkt; exact not_lt.1 hlt
      · exact h2 k hk1 (by omega)
  obtain ⟨k1, v, hv, k3⟩ := key
  refine ⟨k1, ?_⟩
  intro hz k hk1 hk2
  have hv0 : v = 0 := (Alg.mag_eq_zero_iff v).1 (hv.symm.trans hz)
  have := k3 k hk1 hk2
  rw [hv0] at this
  exact (Alg.size_le_zero_iff _).1 this

/-- elimination of row `j` below pivot `i` in place: the multiplier replaces entry `(j,i)`,
    the entries to the right are updated, nothing else changes -/
theorem luElimRow_spec [BEq K] [ScalarExt K] [DecidableEq K] [Alg.DivLaw K]
    {m m' : Mat K} {n i j : Nat} (hm : WFn m n) (hi : i < n) (hj : j < n)
    (hij : i < j) (h : luElimRow i m j = .ok m') :
    ent m i i ≠ 0 ∧ WFn m' n ∧
    ∀ a c, a < n → c < n → ent m' a c =
      if a = j then
        (if c = i then ent m j i / ent m i i
         else if i < c then ent m j c - (ent m j i / ent m i i) * ent m i c else ent m j c)
      else ent m a c := by
  unfold luElimRow at h
  simp only [hm.get hi hi, hm.get hj hi, bind, Except.bind, Alg.divM_law] at h
  by_cases hz : ent m i i = 0
  · simp [hz] at h
  refine ⟨hz, ?_⟩
  simp only [hz, if_false] at h
  obtain ⟨m1, hm1, hI1⟩ := hm.is.set hj hi (ent m j i / ent m i i)
  rw [hm1] at h
  simp only [hI1.rows] at h
  obtain ⟨m2, hm2, hP⟩ := forM'_inv
    (fun t (s : Mat K) => Is s n n (fun a c => if a = j then
        (if c = i then ent m j i / ent m i i
         else if i < c ∧ c < t then ent m j c - (ent m j i / ent m i i) * ent m i c
         else ent m j c)
      else ent m a c))
    (i + 1) n m1 (fun s k => do
      let ji ← s.get j i
      let ik ← s.get i k
      let jk ← s.get j k
      s.set j k (jk - ji * ik)) (by omega)
    (by
      refine ⟨hI1.wf, hI1.rows, hI1.cols, ?_⟩
      intro a c ha hc
      rw [hI1.entry a c ha hc]
      congr 1
      by_cases haj : a = j
      · subst haj
        by_cases hci : c = i
        · simp [hci]
        · have : ¬ (i < c ∧ c < i + 1) := by omega
          simp [hci, this]
      · simp [haj]) (by
      intro t s ht1 ht2 hs
      obtain ⟨s', hs', hI⟩ := hs.set hj ht2
        (ent m j t - (ent m j i / ent m i i) * ent m i t)
      have hne : ¬ (i = j) := by omega
      have hti : ¬ (t = i) := by omega
      refine ⟨s', ?_, ⟨hI.wf, hI.rows, hI.cols, ?_⟩⟩
      · have e1 := hs.entry j i hj hi
        have e2 := hs.entry i t hi ht2
        have e3 := hs.entry j t hj ht2
        simp only [hne, hti, Nat.lt_irrefl, and_false, if_true, if_false] at e1 e2 e3
        simp only [e1, e2, e3, bind, Except.bind]
        exact hs'
      · intro a c ha hc
        rw [hI.entry a c ha hc]
        congr 1
        by_cases hac : a = j ∧ c = t
        · obtain ⟨rfl, rfl⟩ := hac
          have : i < c ∧ c < c + 1 := by omega
          simp [this, hti]
        · by_cases haj : a = j
          · subst haj
            have hct : ¬ c = t := fun e => hac ⟨rfl, e⟩
            have e1 : (i < c ∧ c < t + 1) = (i < c ∧ c < t) := by apply propext; omega
            simp only [hct, and_false, if_false, if_true, e1]
          · simp only [haj, false_and, if_false])
  simp only [bind, Except.bind] at hm2
  rw [hm2] at h
  injection h with h
  subst h
  refine ⟨hP.wfn, ?_⟩
  intro a c ha hc
  rw [hP.ent_eq ha hc]
  by_cases haj : a = j
  · have e1 : (i < c ∧ c < n) = (i < c) := by apply propext; omega
    simp only [haj, if_true, e1]
  · simp only [haj, if_false]

/-- the row loop of one LU column step -/
theorem luElimLoop_spec [BEq K] [ScalarExt K] [DecidableEq K] [Alg.DivLaw K]
    {l l' : Mat K} {n i : Nat} (pa : Nat → Nat → K) (hl : WFn l n)
    (hi : i < n) (hrow : ∀ r, r < n → LURow n pa (ent l) r (min r i))
    (h : forM' (i + 1) l.rows l (luElimRow i) = .ok l') :
    WFn l' n ∧ ∀ r, r < n → LURow n pa (ent l') r (min r (i + 1)) := by
  rw [hl.2.1] at h
  have key := forM'_ok_inv
    (fun t (s : Mat K) => WFn s n ∧
      ∀ r, r < n → LURow n pa (ent s) r (if i < r ∧ r < t then i + 1 else min r i))
    (i + 1) n l l' (luElimRow i) (by omega) ?init ?step h
  case init =>
    refine ⟨hl, ?_⟩
    intro r hr
    have : ¬ (i < r ∧ r < i + 1) := by omega
    simp only [this, if_false]
    exact hrow r hr
  case step =>
    intro j s s1 hj1 hj2 ⟨hw, hr⟩ hf
    obtain ⟨hz, hw1, he⟩ := luElimRow_spec hw hi hj2 (by omega) hf
    refine ⟨hw1, ?_⟩
    intro r hrn
    by_cases hrj : r = j
    · subst hrj
      have c1 : i < r ∧ r < r + 1 := by omega
      simp only [c1, and_self, if_true]
      have h0 := hr r hrn
      have c2 : ¬ (i < r ∧ r < r) := by omega
      have c3 : min r i = i := by omega
      simp only [c2, if_false, c3] at h0
      refine LURow.elim hi (by omega) (ent s r i / ent s i i) ?_ ?_ ?_ h0
      · intro c hc
        rw [he r c hrn hc]; simp only [if_true]
      · intro t c ht hc
        rw [he t c (by omega) hc]
        have : ¬ t = r := by omega
        simp only [this, if_false]
      · field_simp
    · have e1 : (i < r ∧ r < j + 1) = (i < r ∧ r < j) := by apply propext; omega
      simp only [e1]
      refine LURow.transfer ?_ (fun c _ => rfl) ?_ ?_ (hr r hrn)
      · split <;> omega
      · intro c hc
        rw [he r c hrn hc]; simp only [hrj, if_false]
      · intro t c ht hc
        have htj : ¬ t = j := by
          split at ht <;> omega
        have htn : t < n := by
          split at ht <;> omega
        rw [he t c htn hc]; simp only [htj, if_false]
  obtain ⟨k1, k2⟩ := key
  refine ⟨k1, ?_⟩
  intro r hr
  have := k2 r hr
  by_cases hir : i < r
  · have c1 : i < r ∧ r < n := ⟨hir, hr⟩
    have c2 : min r (i + 1) = i + 1 := by omega
    simp only [c1, and_self, if_true] at this
    rw [c2]; exact this
  · have c1 : ¬ (i < r ∧ r < n) := by omega
    have c2 : min r (i + 1) = min r i := by omega
    simp only [c1, if_false] at this
    rw [c2]; exact this

/-- row `r` of `P·A`, `P` the recorded permutation matrix -/
def PA (n : Nat) (perm : Mat K) (a : Nat → Nat → K) (r c : Nat) : K :=
  ∑ t ∈ Finset.range n, ent perm r t * a t c
/-- component `r` of `P·b` -/
def Pb (n : Nat) (perm : Mat K) (y : Nat → K) (r : Nat) : K :=
  ∑ t ∈ Finset.range n, ent perm r t * y t

/-- invariant of `lu_decomp_in_place` after `i` column steps -/
structure LUInv (n : Nat) (a : Nat → Nat → K) (y : Nat → K) (i : Nat) (s : LU K) : Prop where
  lu : WFn s.lu n
  perm : WFn s.perm n
  sol : ∀ z, Sol n (PA n s.perm a) (Pb n s.perm y) z → Sol n a y z
  row : ∀ r, r < n → LURow n (PA n s.perm a) (ent s.lu) r (min r i)

/-- exchanging rows `i ≤ imax` of both the working matrix and the permutation keeps the
    invariant -/
theorem LUInv.swap [BEq K] [ScalarExt K] {n i imax : Nat} {a : Nat → Nat → K} {y : Nat → K} {s : LU K} {p l : Mat K}
    (hi : i < n) (hge : i ≤ imax) (hs : LUInv n a y i s)
    (hp : swapRows s.perm i imax = .ok p) (hl : swapRows s.lu i imax = .ok l) (pv : Nat) :
    LUInv n a y i { lu := l, perm := p, pivots := pv } := by
  have himax : imax < n := by
    by_contra hcon
    have : s.lu.rows ≤ imax := by rw [hs.lu.2.1]; omega
    simp [swapRows, this] at hl
  obtain ⟨p', hp', hIp⟩ := swapRows_spec_ss hs.perm.is hi himax
  obtain ⟨l', hl', hIl⟩ := swapRows_spec_ss hs.lu.is hi himax
  rw [hp] at hp'; rw [hl] at hl'
  injection hp' with hp'; injection hl' with hl'
  subst hp'; subst hl'
  have hPA : ∀ r c, r < n → PA n p a r c =
      if r = i then PA n s.perm a imax c else if r = imax then PA n s.perm a i c
      else PA n s.perm a r c := by
    intro r c hr
    unfold PA
    by_cases h1 : r = i
    · simp only [h1, if_true]
      apply Finset.sum_congr rfl
      intro t ht
      rw [hIp.ent_eq hi (Finset.mem_range.1 ht)]; simp
    · by_cases h2 : r = imax
      · subst h2
        simp only [h1, if_true, if_false]
        apply Finset.sum_congr rfl
        intro t ht
        rw [hIp.ent_eq himax (Finset.mem_range.1 ht)]
        simp [h1]
      · simp only [h1, h2, if_false]
        apply Finset.sum_congr rfl
        intro t ht
        rw [hIp.ent_eq hr (Finset.mem_range.1 ht)]
        simp [h1, h2]
  have hPb : ∀ r, r < n → Pb n p y r =
      if r = imax then Pb n s.perm y i else if r = i then Pb n s.perm y imax
      else Pb n s.perm y r := by
    intro r hr
    unfold Pb
    by_cases h1 : r = i
    · subst h1
      by_cases h2 : r = imax
      · subst h2
        simp only [if_true]
        apply Finset.sum_congr rfl
        intro t ht
        rw [hIp.ent_eq hi (Finset.mem_range.1 ht)]; simp
      · simp only [h2, if_true, if_false]
        apply Finset.sum_congr rfl
        intro t ht
        rw [hIp.ent_eq hi (Finset.mem_range.1 ht)]; simp
    · by_cases h2 : r = imax
      · simp only [h2, if_true]
        apply Finset.sum_congr rfl
        intro t ht
        rw [hIp.ent_eq himax (Finset.mem_range.1 ht)]
        have : ¬ imax = i := by omega
        simp [this]
      · simp only [h1, h2, if_false]
        apply Finset.sum_congr rfl
        intro t ht
        rw [hIp.ent_eq hr (Finset.mem_range.1 ht)]
        simp [h1, h2]
  refine ⟨hIl.wfn, hIp.wfn, ?_, ?_⟩
  · intro z hz
    apply hs.sol z
    exact Sol.of_swap hi himax (fun r c hr _ => hPA r c hr) hPb hz
  · intro r hr
    show LURow n (PA n p a) (ent l) r (min r i)
    have hup : ∀ t c, t < min r i → c < n → ent l t c = ent s.lu t c := by
      intro t c ht hc
      rw [hIl.ent_eq (by omega) hc]
      have c1 : ¬ t = i := by omega
      have c2 : ¬ t = imax := by omega
      simp only [c1, c2, if_false]
    by_cases h1 : r = i
    · subst h1
      have := hs.row imax himax
      have e1 : min imax r = min r r := by omega
      rw [e1] at this
      refine LURow.transfer (by omega) ?_ ?_ hup this
      · intro c hc; rw [hPA r c hr]; simp
      · intro c hc; rw [hIl.ent_eq hr hc]; simp
    · by_cases h2 : r = imax
      · subst h2
        have := hs.row i hi
        have e1 : min i i = min r i := by omega
        rw [e1] at this
        refine LURow.transfer (by omega) ?_ ?_ hup this
        · intro c hc; rw [hPA r c hr]; simp [h1]
        · intro c hc; rw [hIl.ent_eq hr hc]; simp [h1]
      · refine LURow.transfer (by omega) ?_ ?_ hup (hs.row r hr)
        · intro c hc; rw [hPA r c hr]; simp [h1, h2]
        · intro c hc; rw [hIl.ent_eq hr hc]; simp [h1, h2]

/-- the elimination rows of a column step re-establish the invariant one column further -/
theorem LUInv.elim [BEq K] [ScalarExt K] [DecidableEq K] [Alg.DivLaw K]
    {n i : Nat} {a : Nat → Nat → K} {y : Nat → K} {s : LU K} {l' : Mat K}
    (hi : i < n) (hs : LUInv n a y i s)
    (h : forM' (i + 1) s.lu.rows s.lu (luElimRow i) = .ok l') :
    LUInv n a y (i + 1) { lu := l', perm := s.perm, pivots := s.pivots } := by
  obtain ⟨hw, hr⟩ := luElimLoop_spec (PA n s.perm a) hs.lu hi hs.row h
  exact ⟨hw, hs.perm, hs.sol, hr⟩

/-- a skipped column (all candidates zero) -/
theorem LUInv.skip {n i : Nat} {a : Nat → Nat → K} {y : Nat → K} {s : LU K}
    (hi : i < n) (hs : LUInv n a y i s) (hz : ∀ k, i ≤ k → k < n → ent s.lu k i = 0) :
    LUInv n a y (i + 1) s := by
  refine ⟨hs.lu, hs.perm, hs.sol, ?_⟩
  intro r hr
  by_cases hir : i < r
  · have c1 : min r (i + 1) = i + 1 := by omega
    have c2 : min r i = i := by omega
    have := hs.row r hr
    rw [c2] at this
    rw [c1]
    refine LURow.elim hi hir 0 ?_ (fun _ _ _ _ => rfl) ?_ this
    · intro c hc
      by_cases hci : c = i
      · subst hci; simp only [if_true]; exact hz r (by omega) hr
      · simp [hci]
    · rw [hz r (by omega) hr]; ring
  · have c2 : min r (i + 1) = min r i := by omega
    rw [c2]; exact hs.row r hr

theorem luStep_spec [BEq K] [LawfulBEq K] [ScalarExt K] [DecidableEq K] [Alg.PivotLaws K]
    {n i : Nat} {a : Nat → Nat → K} {y : Nat → K}
    {s s' : LU K} (hi : i < n) (hs : LUInv n a y i s) (h : luStep s i = .ok s') :
    LUInv n a y (i + 1) s' := by
  unfold luStep at h
  cases hp : luPivot s.lu i with
  | error e => simp [hp, bind, Except.bind] at h
  | ok r =>
    obtain ⟨maxA, imax⟩ := r
    obtain ⟨hge, hzero⟩ := luPivot_spec hs.lu hi hp
    simp only [hp, bind, Except.bind] at h
    by_cases hmax : maxA = 0
    · have : (maxA == 0) = true := by simp [hmax]
      simp only [this, if_true, pure, Except.pure] at h
      injection h with h
      subst h
      exact hs.skip hi (hzero hmax)
    · have : ¬ (maxA == 0) = true := by simp [hmax]
      simp only [this, if_false] at h
      by_cases him : imax = i
      · have c : ¬ (imax ≠ i) := by simp [him]
        simp only [c, if_false, pure, Except.pure] at h
        cases hl : forM' (i + 1) s.lu.rows s.lu (luElimRow i) with
        | error e => rw [hl] at h; simp at h
        | ok l' =>
          rw [hl] at h
          injection h with h
          subst h
          exact hs.elim hi hl
      · have c : imax ≠ i := him
        simp only [c, if_true, ne_eq, not_false_eq_true, pure, Except.pure] at h
        cases hpp : swapRows s.perm i imax with
        | error e => rw [hpp] at h; simp at h
        | ok p =>
          cases hll : swapRows s.lu i imax with
          | error e => rw [hpp, hll] at h; simp at h
          | ok l =>
            rw [hpp, hll] at h
            simp only at h
            have hs1 := hs.swap hi hge hpp hll (s.pivots + 1)
            cases hl : forM' (i + 1) l.rows l (luElimRow i) with
            | error e => rw [hl] at h; simp at h
            | ok l' =>
              rw [hl] at h
              injection h with h
              subst h
              exact hs1.elim hi hl

/-- `Matrix::eye(n)` -/
theorem eye_spec_ss (n : Nat) :
    ∃ p : Mat K, eye n = .ok p ∧ Is p n n (fun i j => if i = j then 1 else 0) := by
  unfold eye
  obtain ⟨p, hp, hP⟩ := forM'_inv
    (fun k (s : Mat K) => Is s n n (fun i j => if i = j ∧ i < k then (1 : K) else 0))
    0 n (Mat.new n n (0 : K)) (fun m i => m.set i i 1) (Nat.zero_le _)
    (by simpa using Is.of_new n n (0 : K)) (by
      intro k s _ hk hs
      obtain ⟨s', hs', hI⟩ := hs.set hk hk (1 : K)
      refine ⟨s', hs', ⟨hI.wf, hI.rows, hI.cols, ?_⟩⟩
      intro a b ha hb
      rw [hI.entry a b ha hb]
      congr 1
      by_cases hab : a = k ∧ b = k
      · obtain ⟨rfl, rfl⟩ := hab; simp
      · by_cases hab' : a = b
        · subst hab'
          have : ¬ a = k := fun e => hab ⟨e, e⟩
          have e1 : (a < k + 1) = (a < k) := by apply propext; omega
          simp only [this, and_self, if_false, true_and, e1]
        · simp [hab, hab'])
  refine ⟨p, hp, ⟨hP.wf, hP.rows, hP.cols, ?_⟩⟩
  intro a b ha hb
  rw [hP.entry a b ha hb]
  congr 1
  by_cases hab : a = b
  · simp [hab, hb]
  · simp [hab]

/-- **`lu_decomp_in_place`**: whenever it returns, `P·A = L·U` row by row (`LURow … r r`), and
    the permuted system `P·A z = P·b` has no more solutions than `A z = b`. -/
theorem luDecomp_spec [BEq K] [LawfulBEq K] [ScalarExt K] [DecidableEq K] [Alg.PivotLaws K]
    {n : Nat} {A : Mat K} (y : Nat → K) {s : LU K}
    (hA : WFn A n) (h : luDecomp A = .ok s) : LUInv n (ent A) y n s := by
  unfold luDecomp at h
  have h2 : ¬ A.rows ≠ A.cols := by rw [hA.2.1, hA.2.2]; simp
  obtain ⟨p, hp, hIp⟩ := eye_spec_ss (K := K) n
  simp only [h2, if_false] at h
  simp only [hA.2.1, hp, bind, Except.bind] at h
  have hPA : ∀ r c, r < n → PA n p (ent A) r c = ent A r c := by
    intro r c hr
    unfold PA
    have : ∀ t ∈ Finset.range n, ent p r t * ent A t c = if r = t then ent A t c else 0 := by
      intro t ht
      rw [hIp.ent_eq hr (Finset.mem_range.1 ht)]
      by_cases hrt : r = t <;> simp [hrt]
    rw [Finset.sum_congr rfl this, Finset.sum_ite_eq]
    simp [hr]
  have hPb : ∀ r, r < n → Pb n p y r = y r := by
    intro r hr
    unfold Pb
    have : ∀ t ∈ Finset.range n, ent p r t * y t = if r = t then y t else 0 := by
      intro t ht
      rw [hIp.ent_eq hr (Finset.mem_range.1 ht)]
      by_cases hrt : r = t <;> simp [hrt]
    rw [Finset.sum_congr rfl this, Finset.sum_ite_eq]
    simp [hr]
  have key := forM'_ok_inv (fun i (s : LU K) => LUInv n (ent A) y i s)
    0 n { lu := A, perm := p, pivots := 0 } s luStep (Nat.zero_le _) ?init ?step h
  case init =>
    refine ⟨hA, hIp.wfn, ?_, ?_⟩
    · intro z hz i hi
      have := hz i hi
      rw [hPb i hi] at this
      rw [← this]
      apply Finset.sum_congr rfl
      intro j hj
      rw [hPA i j hi]
    · intro r hr c hc
      show PA n p (ent A) r c = _
      rw [hPA r c hr]
      simp
  case step =>
    intro i s s1 _ hi hs hf
    exact luStep_spec hi hs hf
  exact key

/-! ### `P·b`, forward substitution, and the LU solver -/

theorem foldl_map_range (g : Nat → K) : ∀ c : Nat,
    ((List.range c).map g).foldl (· + ·) 0 = ∑ t ∈ Finset.range c, g t
  | 0 => by simp
  | c + 1 => by
    rw [List.range_succ, List.map_append, List.foldl_append, foldl_map_range g c,
      Finset.sum_range_succ]
    simp

theorem dot_lists (f g : Nat → K) (c : Nat) :
    (Array.zipWith (· * ·) ((List.range c).map f).toArray ((List.range c).map g).toArray).foldl
      (· + ·) 0 = ∑ t ∈ Finset.range c, f t * g t := by
  rw [← foldl_map_range]
  simp [List.zipWith_map]

theorem array_eq_map_vf (v : Array K) : v = ((List.range v.size).map (vf v)).toArray := by
  apply Array.ext
  · simp
  · intro i h1 h2
    simp [vf, h1]

/-- `multiply` (matrix · vector) as a finite sum -/
theorem mulVec_sum [BEq K] [ScalarExt K] {m : Mat K} {n : Nat} (hm : WFn m n) {v : Array K} (hv : v.size = n) :
    ∃ w, mulVec m v = .ok w ∧ w.size = n ∧
      ∀ r, r < n → vf w r = ∑ t ∈ Finset.range n, ent m r t * vf v t := by
  refine ⟨_, mulVec_spec hm.is v hv, by simp, ?_⟩
  intro r hr
  have e : v = ((List.range n).map (vf v)).toArray := by
    have := array_eq_map_vf v
    rw [hv] at this
    exact this
  simp only [vf, List.getElem?_toArray, List.getElem?_map, List.getElem?_range hr, Option.map_some,
    Option.getD_some]
  rw [e, dot_lists, ← e]
  rfl

/-- unit-lower forward substitution: total, `y_r = x_r − Σ_{t<r} l_{rt} y_t` -/
theorem forwardSub_spec {m : Mat K} {n : Nat} (hm : WFn m n) {x : Array K} (hx : x.size = n) :
    ∃ y, forwardSub m x = .ok y ∧ y.size = n ∧
      ∀ r, r < n → vf y r = vf x r - ∑ t ∈ Finset.range r, ent m r t * vf y t := by
  unfold forwardSub
  rw [hm.2.1]
  obtain ⟨y, hy, hP⟩ := forM'_inv
    (fun i (u : Array K) => u.size = n ∧
      (∀ r, r < i → r < n → vf u r = vf x r - ∑ t ∈ Finset.range r, ent m r t * vf u t) ∧
      (∀ r, i ≤ r → vf u r = vf x r))
    0 n x (fun x i =>
      forM' 0 i x (fun x k => do
        let xk ← aget x k
        let xi ← aget x i
        let ik ← m.get i k
        aset x i (xi - ik * xk))) (Nat.zero_le _)
    ⟨hx, by intro r h; omega, fun _ _ => rfl⟩ (by
      intro i u _ hi ⟨hu, hdone, hrest⟩
      obtain ⟨w, hw, hQ⟩ := forM'_inv
        (fun k (w : Array K) => w.size = n ∧ ∀ a, vf w a =
          if a = i then vf u i - ∑ t ∈ Finset.range k, ent m i t * vf u t else vf u a)
        0 i u (fun x k => do
          let xk ← aget x k
          let xi ← aget x i
          let ik ← m.get i k
          aset x i (xi - ik * xk)) (Nat.zero_le _)
        ⟨hu, by intro a; by_cases h : a = i <;> simp [h]⟩ (by
          intro k w _ hk ⟨hw, hv⟩
          have hkw : k < w.size := by omega
          have hiw : i < w.size := by omega
          refine ⟨w.setIfInBounds i (vf w i - ent m i k * vf w k), ?_, by simpa using hw, ?_⟩
          · simp only [aget_vf hkw, aget_vf hiw, hm.get hi (show k < n by omega), bind, Except.bind]
            exact aset_ok _ hiw
          · intro a
            rw [vf_set _ hiw]
            by_cases hai : a = i
            · subst hai
              have hka : ¬ k = a := by omega
              simp only [if_true]
              rw [hv a, hv k, Finset.sum_range_succ]
              simp only [if_true, hka, if_false]
              ring
            · simp only [hai, if_false]
              rw [hv a]; simp [hai])
      obtain ⟨hw1, hw2⟩ := hQ
      refine ⟨w, hw, hw1, ?_, ?_⟩
      · intro r hr1 hr2
        have hsum : ∀ q, q ≤ i → ∑ t ∈ Finset.range q, ent m q t * vf w t =
            ∑ t ∈ Finset.range q, ent m q t * vf u t := by
          intro q hq
          apply Finset.sum_congr rfl
          intro t ht
          have : ¬ t = i := by have := Finset.mem_range.1 ht; omega
          rw [hw2 t]; simp only [this, if_false]
        by_cases hri : r = i
        · subst hri
          rw [hw2 r, hsum r (Nat.le_refl _), hrest r (Nat.le_refl _)]
          simp
        · rw [hw2 r, hsum r (by omega)]
          simp only [hri, if_false]
          exact hdone r (by omega) hr2
      · intro r hr
        have : ¬ r = i := by omega
        rw [hw2 r]; simp only [this, if_false]
        exact hrest r (by omega))
  exact ⟨y, hy, hP.1, fun r hr => hP.2.1 r hr hr⟩

/-- the upper-triangular row sum written with an indicator -/
theorem sum_upper_ind (f : Nat → K) {t n : Nat} (ht : t < n) :
    ∑ c ∈ Finset.range n, (if t ≤ c then f c else 0) =
      f t + ∑ c ∈ Finset.Ico (t + 1) n, f c := by
  rw [sum_range_upper (fun c => if t ≤ c then f c else 0) ht]
  · simp only [Nat.le_refl, if_true]
    congr 1
    apply Finset.sum_congr rfl
    intro c hc
    have : t ≤ c := by have := (Finset.mem_Ico.1 hc).1; omega
    simp only [this, if_true]
  · intro j hj
    have : ¬ t ≤ j := by omega
    simp only [this, if_false]

/-- **Soundness of `solve_lu`** in terms of the canonical entry functions. -/
theorem solveLU_sound_ent [BEq K] [LawfulBEq K] [ScalarExt K] [DecidableEq K] [Alg.PivotLaws K]
    {n : Nat} (hn : 1 ≤ n) {A : Mat K}
    {b x : Array K} (hA : WFn A n) (hb : b.size = n) (h : solveLU A b = .ok x) :
    x.size = n ∧ Sol n (ent A) (vf b) (vf x) := by
  unfold solveLU at h
  have h1 : ¬ A.rows ≠ b.size := by rw [hA.2.1, hb]; simp
  have h2 : ¬ A.rows ≠ A.cols := by rw [hA.2.1, hA.2.2]; simp
  simp only [h1, h2, if_false] at h
  cases hd : luDecomp A with
  | error e => simp [hd, bind, Except.bind] at h
  | ok s =>
    have hs := luDecomp_spec (vf b) hA hd
    obtain ⟨w, hw, hwn, hwv⟩ := mulVec_sum hs.perm hb
    obtain ⟨y, hy, hyn, hyv⟩ := forwardSub_spec hs.lu hwn
    simp only [hd, hw, hy, bind, Except.bind] at h
    obtain ⟨hxs, hbs⟩ := backsolve_spec hs.lu hyn hn h
    refine ⟨hxs, ?_⟩
    apply hs.sol
    intro r hr
    have hU : ∀ t, t < n →
        ∑ c ∈ Finset.range n, (if t ≤ c then ent s.lu t c * vf x c else 0) = vf y t := by
      intro t ht
      rw [sum_upper_ind (fun c => ent s.lu t c * vf x c) ht]
      exact (hbs t ht).2
    have hrow := hs.row r hr
    have hmin : min r n = r := by omega
    rw [hmin] at hrow
    have e1 : ∀ c ∈ Finset.range n, PA n s.perm (ent A) r c * vf x c =
        (∑ t ∈ Finset.range r, ent s.lu r t *
            (if t ≤ c then ent s.lu t c * vf x c else 0)) +
          (if r ≤ c then ent s.lu r c * vf x c else 0) := by
      intro c hc
      rw [hrow c (Finset.mem_range.1 hc), add_mul, Finset.sum_mul]
      congr 1
      · apply Finset.sum_congr rfl
        intro t _
        by_cases htc : t ≤ c
        · simp only [htc, if_true]; ring
        · simp only [htc, if_false]; ring
      · by_cases hrc : r ≤ c
        · have : ¬ c < r := by omega
          simp only [hrc, this, if_true, if_false]
        · have : c < r := by omega
          simp only [hrc, this, if_true, if_false]; ring
    rw [Finset.sum_congr rfl e1, Finset.sum_add_distrib, Finset.sum_comm, hU r hr]
    have e2 : ∀ t ∈ Finset.range r,
        ∑ c ∈ Finset.range n, ent s.lu r t * (if t ≤ c then ent s.lu t c * vf x c else 0) =
          ent s.lu r t * vf y t := by
      intro t ht
      rw [← Finset.mul_sum, hU t (by have := Finset.mem_range.1 ht; omega)]
    rw [Finset.sum_congr rfl e2, hyv r hr, hwv r hr]
    unfold Pb
    ring

end Exact
end Mat
end Ohsl
