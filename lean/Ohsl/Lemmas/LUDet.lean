/-
  Ohsl.Lemmas.LUDet — the in-place LU factorisation with partial pivoting
  (`Mat.luPivot`, `Mat.luElimRow`, `Mat.luStep`, `Mat.luDecomp`) over an exact field, and its
  relation to `Matrix.det`.

  Class (E): `divM` fails exactly on a zero divisor (`Alg.DivLaw`) and the pivot comparison
  `lt (mag a) (mag b)` compares a size in a linear order (`Alg.PivotLaws`): a linearly ordered
  field with `Alg.scalarExt` (`mag = |·|`, `lt = <`), or the model's `Cx ℝ` (modulus).

  Contents
  * `luPivot_spec_det`      pivot search: index in range, non-zero pivot, or the column is zero
  * `luElimRow_spec_det`    pointwise description of one row elimination (multiplier stored in place)
  * `luElimCol_spec`    … of the whole column loop
  * `luStep_spec_det`       … of one step of the factorisation (skip / swap + eliminate)
  * `Umat`              the current matrix with the stored multipliers masked
  * `Umat_skip`, `det_Umat_swap`, `det_Umat_elim`, `det_Umat_full`   row operations and `det`
  * `LUrel`, `LUrel_skip`, `LUrel_swap`, `LUrel_elim`   the entrywise relation `P·A = L⁽ⁱ⁾·U⁽ⁱ⁾`
  * `luDecomp_spec_det`     `luDecomp` never fails on a square matrix; `det U = (-1)^p · det A`,
                        `det P = (-1)^p`, `P·A = L·U` (`LU_eq_PA`)
  * `invAcc_spec`, `invFwd_spec`, `invBack_spec`, `inverseLoop_spec`   substitution loops
  * `inverse_spec`      `det A ≠ 0 → inverse A = .ok B ∧ A·B = 1`
  * `inverse_singular`  `det A = 0 → inverse A = .error .arith`
-/
import Ohsl.Model.Solve
import Ohsl.Lemmas.MatSpec2
import Ohsl.Lemmas.Alg
import Mathlib.Algebra.BigOperators.Group.Finset.Basic
import Mathlib.Algebra.BigOperators.Ring.Finset
import Mathlib.Algebra.BigOperators.Intervals
import Mathlib.Algebra.Order.Ring.Abs
import Mathlib.Data.Fintype.BigOperators
import Mathlib.LinearAlgebra.Matrix.Determinant.Basic
import Mathlib.LinearAlgebra.Matrix.Block
import Mathlib.LinearAlgebra.Matrix.NonsingularInverse
import Mathlib.Tactic.NormNum
import Mathlib.Tactic.Ring
import Mathlib.Tactic.FieldSimp
import Mathlib.Tactic.Linarith
import Mathlib.Tactic.SplitIfs
set_option linter.unusedSectionVars false
set_option linter.unusedVariables false
set_option linter.unusedSimpArgs false
namespace Ohsl
namespace Mat

section Exact
variable {K : Type} [Field K]

/-! ### pivot search -/

/-- `luPivot` on column `i` of a described `n × n` matrix: the call succeeds, the returned row
    index lies in `[i, n)`, a non-zero returned magnitude means the entry found is non-zero, and a
    zero magnitude means the column is zero on and below the diagonal. -/
theorem luPivot_spec_det [BEq K] [ScalarExt K] [DecidableEq K] [Alg.PivotLaws K]
    {m : Mat K} {n : Nat} {w : Nat → Nat → K} (h : Is m n n w) {i : Nat}
    (hi : i < n) :
    ∃ mx imax, luPivot m i = .ok (mx, imax) ∧ i ≤ imax ∧ imax < n ∧
      (mx = 0 → ∀ k, i ≤ k → k < n → w k i = 0) ∧ (mx ≠ 0 → w imax i ≠ 0) := by
  unfold luPivot
  rw [h.rows]
  obtain ⟨⟨mx, imax⟩, hs, h1, h2, v, hv, h4, h5⟩ := forM'_inv
    (fun k (s : K × Nat) => i ≤ s.2 ∧ s.2 < n ∧ ∃ v : K, s.1 = ScalarExt.mag v ∧
      (∀ k', i ≤ k' → k' < k → Alg.PivotLaws.size (w k' i) ≤ Alg.PivotLaws.size v) ∧
      (s.1 ≠ 0 → s.1 = ScalarExt.mag (w s.2 i)))
    i n ((0 : K), i)
    (fun (mx, imax) k => do
      let x ← m.get k i
      let ax := ScalarExt.mag x
      if ScalarExt.lt mx ax then pure (ax, k) else pure (mx, imax))
    (by omega)
    ⟨le_refl _, hi, 0, Alg.PivotLaws.mag_zero.symm, fun k' h1 h2 => by omega,
      fun h => absurd rfl h⟩
    (by
      rintro k ⟨mx, imax⟩ hk1 hk2 ⟨h1, h2, v, hv, h4, h5⟩
      simp only at h1 h2 hv h4 h5
      subst hv
      simp only [h.get hk2 hi, bind, Except.bind, Alg.PivotLaws.lt_mag]
      by_cases hlt : Alg.PivotLaws.size v < Alg.PivotLaws.size (w k i)
      · refine ⟨(ScalarExt.mag (w k i), k), by simp [hlt, pure, Except.pure], hk1, hk2,
          w k i, rfl, ?_, fun _ => rfl⟩
        intro k' hk' hk''
        by_cases e : k' = k
        · subst e; exact le_refl _
        · exact le_of_lt (lt_of_le_of_lt (h4 k' hk' (by omega)) hlt)
      · refine ⟨(ScalarExt.mag v, imax), by simp [hlt, pure, Except.pure], h1, h2, v, rfl, ?_, h5⟩
        intro k' hk' hk''
        by_cases e : k' = k
        · subst e; exact not_lt.mp hlt
        · exact h4 k' hk' (by omega))
  simp only at h1 h2 hv h4 h5
  refine ⟨mx, imax, hs, h1, h2, ?_, ?_⟩
  · intro h0 k hk1 hk2
    have hv0 : v = 0 := (Alg.mag_eq_zero_iff v).1 (hv.symm.trans h0)
    have := h4 k hk1 hk2
    rw [hv0] at this
    exact (Alg.size_le_zero_iff _).1 this
  · intro hne hz
    have := h5 hne
    rw [hz, Alg.PivotLaws.mag_zero] at this
    exact hne this

/-! ### one row elimination -/

/-- entries after eliminating row `j` against pivot row `i`: the multiplier is stored at `(j,i)`,
    the columns to the right of `i` are updated, everything else is unchanged -/
def elimRowFn (w : Nat → Nat → K) (i j : Nat) : Nat → Nat → K := fun a b =>
  if a = j then
    (if b = i then w j i / w i i
     else if i < b then w j b - w j i / w i i * w i b else w j b)
  else w a b

theorem luElimRow_spec_det [BEq K] [ScalarExt K] [DecidableEq K] [Alg.DivLaw K]
    {m : Mat K} {n : Nat} {w : Nat → Nat → K} (h : Is m n n w) {i j : Nat}
    (hi : i < n) (hj : j < n) (hij : i ≠ j) (hp : w i i ≠ 0) :
    ∃ m', luElimRow i m j = .ok m' ∧ Is m' n n (elimRowFn w i j) := by
  unfold luElimRow
  obtain ⟨m1, hm1, hI1⟩ := h.set hj hi (w j i / w i i)
  simp only [h.get hi hi, h.get hj hi, Alg.divM_law_ne hp, hm1, bind, Except.bind, hI1.rows]
  obtain ⟨m', hm', hP⟩ := forM'_inv
    (fun k (s : Mat K) => Is s n n (fun a b =>
      if a = j then
        (if b = i then w j i / w i i
         else if i < b ∧ b < k then w j b - w j i / w i i * w i b else w j b)
      else w a b))
    (i + 1) n m1
    (fun m k => do
      let ji ← m.get j i
      let ik ← m.get i k
      let jk ← m.get j k
      m.set j k (jk - ji * ik))
    (by omega)
    (hI1.congr (fun a b _ _ => by
      by_cases haj : a = j
      · by_cases hbi : b = i
        · simp [haj, hbi]
        · have : ¬ (i < b ∧ b < i + 1) := by omega
          simp [haj, hbi, this]
      · simp [haj]))
    (by
      intro k s hk1 hk2 hs
      have g1 := hs.get hj hi
      have g2 := hs.get hi hk2
      have g3 := hs.get hj hk2
      have e1 : ¬ i = j := hij
      have e2 : ¬ k = i := by omega
      have e3 : ¬ (i < k ∧ k < k) := by omega
      simp only [if_true, e1, if_false, e2, e3] at g1 g2 g3
      obtain ⟨s', hs', hI⟩ := hs.set hj hk2 (w j k - w j i / w i i * w i k)
      refine ⟨s', by simp only [g1, g2, g3, bind, Except.bind]; exact hs', hI.congr ?_⟩
      intro a b _ _
      by_cases hab : a = j ∧ b = k
      · obtain ⟨rfl, rfl⟩ := hab
        have : i < b ∧ b < b + 1 := by omega
        simp [e2, this]
      · rw [if_neg hab]
        by_cases haj : a = j
        · subst haj
          have hbk : b ≠ k := fun e => hab ⟨rfl, e⟩
          have : (i < b ∧ b ≤ k) = (i < b ∧ b < k) := by apply propext; omega
          simp [this]
        · simp [haj])
  refine ⟨m', hm', hP.congr ?_⟩
  intro a b _ hb
  unfold elimRowFn
  have : ∀ b, b < n → (i < b ∧ b < n) = (i < b) := fun b hb => by apply propext; omega
  simp [this b hb]

/-! ### the column loop -/

/-- entries after eliminating rows `i+1 … J-1` against pivot row `i` -/
def elimColFn (w : Nat → Nat → K) (i J : Nat) : Nat → Nat → K := fun a b =>
  if i < a ∧ a < J then
    (if b = i then w a i / w i i
     else if i < b then w a b - w a i / w i i * w i b else w a b)
  else w a b

theorem luElimCol_spec [BEq K] [ScalarExt K] [DecidableEq K] [Alg.DivLaw K]
    {m : Mat K} {n : Nat} {w : Nat → Nat → K} (h : Is m n n w) {i : Nat}
    (hi : i < n) (hp : w i i ≠ 0) :
    ∃ m', forM' (i + 1) n m (luElimRow i) = .ok m' ∧ Is m' n n (elimColFn w i n) := by
  refine forM'_inv (fun J (s : Mat K) => Is s n n (elimColFn w i J)) (i + 1) n m (luElimRow i)
    (by omega) (h.congr (fun a b _ _ => by
      have : ¬ (i < a ∧ a < i + 1) := by omega
      simp [elimColFn, this])) ?_
  intro j s hj1 hj2 hs
  have hpiv : elimColFn w i j i i = w i i := by
    have : ¬ (i < i ∧ i < j) := by omega
    simp [elimColFn, this]
  obtain ⟨s', hs', hI⟩ := luElimRow_spec_det hs hi hj2 (by omega) (by rw [hpiv]; exact hp)
  refine ⟨s', hs', hI.congr ?_⟩
  intro a b _ _
  have e1 : ¬ (i < i ∧ i < j) := by omega
  have e2 : ¬ (i < j ∧ j < j) := by omega
  by_cases haj : a = j
  · subst haj
    have e3 : i < a ∧ a < a + 1 := by omega
    simp [elimRowFn, elimColFn, e1, e2, e3]
  · have e3 : (i < a ∧ a ≤ j) = (i < a ∧ a < j) := by apply propext; omega
    simp [elimRowFn, elimColFn, haj, e3]

/-! ### one step of the factorisation -/

/-- entries after exchanging rows `r1` and `r2` -/
def swapFn (w : Nat → Nat → K) (r1 r2 : Nat) : Nat → Nat → K := fun a b =>
  if a = r1 then w r2 b else if a = r2 then w r1 b else w a b

theorem swapFn_self (w : Nat → Nat → K) (r : Nat) : swapFn w r r = w := by
  funext a b
  unfold swapFn
  by_cases h : a = r
  · subst h; simp
  · simp [h]

/-- One step of `lu_decomp_in_place` on column `i`: the call never fails; either the column is
    zero on and below the diagonal and the state is returned unchanged, or a row `imax ∈ [i, n)`
    with a non-zero entry is exchanged with row `i` (in the matrix and in the recorded
    permutation, counting one exchange when `imax ≠ i`) and the column is eliminated. -/
theorem luStep_spec_det [BEq K] [LawfulBEq K] [ScalarExt K] [DecidableEq K] [Alg.PivotLaws K]
    {s : LU K} {n : Nat} {w pe : Nat → Nat → K} (hw : Is s.lu n n w)
    (hpe : Is s.perm n n pe) {i : Nat} (hi : i < n) :
    ∃ s', luStep s i = .ok s' ∧
      (((∀ k, i ≤ k → k < n → w k i = 0) ∧ s' = s) ∨
       (∃ imax, i ≤ imax ∧ imax < n ∧ w imax i ≠ 0 ∧
          Is s'.lu n n (elimColFn (swapFn w i imax) i n) ∧ Is s'.perm n n (swapFn pe i imax) ∧
          s'.pivots = s.pivots + (if imax = i then 0 else 1))) := by
  obtain ⟨mx, imax, hpv, h1, h2, h3, h4⟩ := luPivot_spec_det hw hi
  unfold luStep
  simp only [hpv, bind, Except.bind]
  by_cases h0 : mx = 0
  · have hb : (mx == 0) = true := by simpa using h0
    simp only [hb, if_true]
    exact ⟨s, rfl, Or.inl ⟨h3 h0, rfl⟩⟩
  · have hb : (mx == 0) = false := by simpa using h0
    simp only [hb, Bool.false_eq_true, if_false]
    have hne := h4 h0
    by_cases himax : imax = i
    · subst himax
      simp only [ne_eq, not_true_eq_false, if_false, pure, Except.pure, hw.rows]
      obtain ⟨l, hl, hI⟩ := luElimCol_spec hw hi hne
      refine ⟨{ s with lu := l }, by rw [hl], Or.inr ⟨imax, le_refl _, hi, hne, ?_, ?_, by simp⟩⟩
      · rw [swapFn_self]; exact hI
      · rw [swapFn_self]; exact hpe
    · obtain ⟨p', hp', hIp⟩ := swapRows_spec hpe hi h2
      obtain ⟨l', hl', hIl⟩ := swapRows_spec hw hi h2
      have hpiv : swapFn w i imax i i ≠ 0 := by simpa [swapFn] using hne
      obtain ⟨l, hl, hI⟩ := luElimCol_spec (w := swapFn w i imax) hIl hi hpiv
      simp only [ne_eq, himax, not_false_eq_true, if_true, hp', hl', pure, Except.pure, hIl.rows]
      refine ⟨{ lu := l, perm := p', pivots := s.pivots + 1 }, by rw [hl],
        Or.inr ⟨imax, h1, h2, hne, hI, hIp, by simp [himax]⟩⟩

/-! ### the masked matrix and the determinant -/

/-- the current matrix with the stored multipliers (the strictly-lower entries of the columns
    `< i`) replaced by zero -/
def Umat (n i : Nat) (w : Nat → Nat → K) : Matrix (Fin n) (Fin n) K :=
  Matrix.of fun r c => if c.val < i ∧ c.val < r.val then 0 else w r.val c.val

theorem Umat_zero (n : Nat) (w : Nat → Nat → K) :
    Umat n 0 w = Matrix.of fun (r c : Fin n) => w r.val c.val := by
  ext r c; simp [Umat]

/-- a column that is already zero on and below the diagonal needs no elimination -/
theorem Umat_skip {n i : Nat} {w : Nat → Nat → K} (hz : ∀ k, i ≤ k → k < n → w k i = 0) :
    Umat n (i + 1) w = Umat n i w := by
  ext ⟨r, hr⟩ ⟨c, hc⟩
  simp only [Umat, Matrix.of_apply]
  by_cases h1 : c < i ∧ c < r
  · have : c < i + 1 ∧ c < r := by omega
    rw [if_pos h1, if_pos this]
  · rw [if_neg h1]
    by_cases h2 : c < i + 1 ∧ c < r
    · rw [if_pos h2]
      have : c = i := by omega
      subst this
      exact (hz r (by omega) hr).symm
    · rw [if_neg h2]

/-- exchanging row `i` with a row below it negates the determinant of the masked matrix -/
theorem det_Umat_swap {n i imax : Nat} (w : Nat → Nat → K) (h1 : i ≤ imax) (h2 : imax < n)
    (hne : imax ≠ i) : (Umat n i (swapFn w i imax)).det = - (Umat n i w).det := by
  have hi : i < n := by omega
  have e : Umat n i (swapFn w i imax)
      = (Umat n i w).submatrix (Equiv.swap (⟨i, hi⟩ : Fin n) ⟨imax, h2⟩) id := by
    ext ⟨r, hr⟩ ⟨c, hc⟩
    simp only [Umat, Matrix.of_apply, Matrix.submatrix_apply, id, swapFn, Equiv.swap_apply_def,
      Fin.mk.injEq]
    by_cases e1 : r = i
    · subst e1
      have : (c < r ∧ c < imax) = (c < r ∧ c < r) := by apply propext; omega
      simp [this]
    · by_cases e2 : r = imax
      · subst e2
        have : (c < i ∧ c < r) = (c < i ∧ c < i) := by apply propext; omega
        simp [e1, this]
      · simp [e1, e2]
  have hne' : (⟨i, hi⟩ : Fin n) ≠ ⟨imax, h2⟩ := by
    intro h; exact hne (Fin.mk.injEq _ _ _ _ ▸ h).symm
  rw [e, Matrix.det_permute, Equiv.Perm.sign_swap hne']
  simp

/-- eliminating column `i` below a non-zero pivot keeps the determinant of the masked matrix -/
theorem det_Umat_elim {n i : Nat} (w : Nat → Nat → K) (hi : i < n) (hp : w i i ≠ 0) :
    (Umat n (i + 1) (elimColFn w i n)).det = (Umat n i w).det := by
  refine Matrix.det_eq_of_forall_row_eq_smul_add_const
    (fun r : Fin n => if i < r.val then - (w r.val i / w i i) else 0) ⟨i, hi⟩ (by simp) ?_
  rintro ⟨r, hr⟩ ⟨c, hc⟩
  simp only [Umat, Matrix.of_apply, elimColFn]
  by_cases hri : i < r
  · have e0 : i < r ∧ r < n := ⟨hri, hr⟩
    simp only [hri, e0, and_self, if_true, lt_self_iff_false, and_false, if_false]
    by_cases hc1 : c < i
    · have a1 : c < i + 1 ∧ c < r := by omega
      have a2 : c < i ∧ c < r := by omega
      have a3 : c < i ∧ c < i := by omega
      simp [a1, a2, a3, hc1]
    · by_cases hc2 : c = i
      · subst hc2
        have a1 : c < c + 1 ∧ c < r := by omega
        simp only [a1, and_self, if_true, lt_self_iff_false, false_and, if_false]
        field_simp
        ring
      · have a1 : ¬ (c < i + 1 ∧ c < r) := by omega
        have a2 : ¬ (c < i ∧ c < r) := by omega
        have a3 : i < c := by omega
        simp only [a1, a2, hc2, a3, hc1, if_true, if_false, false_and]
        ring
  · have e0 : ¬ (i < r ∧ r < n) := by omega
    have : (c < i + 1 ∧ c < r) = (c < i ∧ c < r) := by apply propext; omega
    simp only [hri, e0, if_false, zero_mul, add_zero, this, false_and]


/-! ### `P·A = L·U` : the relation kept by the factorisation

  `B` stands for the row-permuted input `P·A`.  After the columns `< i` have been processed,
  row `r` of `B` is row `r` of the masked matrix plus the stored multipliers of row `r` times the
  finished rows. -/

/-- Nat-level entries of the masked matrix `Umat` -/
def Ufn (i : Nat) (w : Nat → Nat → K) : Nat → Nat → K := fun r c =>
  if c < i ∧ c < r then 0 else w r c

/-- an entry function as a Mathlib matrix -/
def toMat (n : Nat) (a : Nat → Nat → K) : Matrix (Fin n) (Fin n) K :=
  Matrix.of fun r c => a r.val c.val

theorem Umat_eq (n i : Nat) (w : Nat → Nat → K) : Umat n i w = toMat n (Ufn i w) := rfl

/-- `B = L⁽ⁱ⁾ · U⁽ⁱ⁾` entry by entry -/
def LUrel (n i : Nat) (w B : Nat → Nat → K) : Prop :=
  ∀ r c, r < n → c < n →
    B r c = Ufn i w r c
      + ∑ k ∈ Finset.range i, (if k < r then w r k * (if c < k then 0 else w k c) else 0)

theorem LUrel_zero (n : Nat) (w B : Nat → Nat → K) (h : ∀ r c, r < n → c < n → B r c = w r c) :
    LUrel n 0 w B := by
  intro r c hr hc
  simp [Ufn, h r c hr hc]

theorem LUrel_skip {n i : Nat} {w B : Nat → Nat → K} (hz : ∀ k, i ≤ k → k < n → w k i = 0)
    (h : LUrel n i w B) : LUrel n (i + 1) w B := by
  intro r c hr hc
  rw [h r c hr hc, Finset.sum_range_succ]
  have e1 : (if i < r then w r i * (if c < i then 0 else w i c) else 0) = 0 := by
    by_cases hir : i < r
    · rw [if_pos hir, hz r (by omega) hr, zero_mul]
    · rw [if_neg hir]
  have e2 : Ufn (i + 1) w r c = Ufn i w r c := by
    unfold Ufn
    by_cases h1 : c < i ∧ c < r
    · have : c < i + 1 ∧ c < r := by omega
      rw [if_pos h1, if_pos this]
    · rw [if_neg h1]
      by_cases h2 : c < i + 1 ∧ c < r
      · rw [if_pos h2]
        have : c = i := by omega
        subst this
        exact (hz r (by omega) hr).symm
      · rw [if_neg h2]
  rw [e1, e2, add_zero]

theorem LUrel_swap {n i imax : Nat} {w B : Nat → Nat → K} (h1 : i ≤ imax) (h2 : imax < n)
    (h : LUrel n i w B) : LUrel n i (swapFn w i imax) (swapFn B i imax) := by
  intro r c hr hc
  have hi : i < n := by omega
  have hsum : ∀ r' : Nat, i ≤ r' →
      ∑ k ∈ Finset.range i, (if k < r' then w r' k * (if c < k then 0 else w k c) else 0)
        = ∑ k ∈ Finset.range i, (w r' k * (if c < k then 0 else w k c)) := by
    intro r' hr'
    apply Finset.sum_congr rfl
    intro k hk
    have : k < r' := by have := Finset.mem_range.mp hk; omega
    rw [if_pos this]
  have hk : ∀ k, k ∈ Finset.range i → swapFn w i imax k c = w k c := by
    intro k hk
    have := Finset.mem_range.mp hk
    have e1 : ¬ k = i := by omega
    have e2 : ¬ k = imax := by omega
    simp [swapFn, e1, e2]
  by_cases e1 : r = i
  · subst e1
    have hB : swapFn B r imax r c = B imax c := by simp [swapFn]
    have hU : Ufn r (swapFn w r imax) r c = Ufn r w imax c := by
      have : (c < r ∧ c < imax) = (c < r ∧ c < r) := by apply propext; omega
      simp [Ufn, swapFn, this]
    rw [hB, hU, h imax c h2 hc, hsum imax h1]
    congr 1
    apply Finset.sum_congr rfl
    intro k hk'
    have hlt : k < r := Finset.mem_range.mp hk'
    rw [if_pos hlt, hk k hk']
    simp [swapFn]
  · by_cases e2 : r = imax
    · subst e2
      have hB : swapFn B i r r c = B i c := by simp [swapFn, e1]
      have hU : Ufn i (swapFn w i r) r c = Ufn i w i c := by
        have : (c < i ∧ c < r) = (c < i ∧ c < i) := by apply propext; omega
        simp [Ufn, swapFn, e1, this]
      rw [hB, hU, h i c hi hc, hsum i (le_refl _)]
      congr 1
      apply Finset.sum_congr rfl
      intro k hk'
      have hlt : k < r := by have := Finset.mem_range.mp hk'; omega
      rw [if_pos hlt, hk k hk']
      simp [swapFn, e1]
    · have hB : swapFn B i imax r c = B r c := by simp [swapFn, e1, e2]
      have hU : Ufn i (swapFn w i imax) r c = Ufn i w r c := by simp [Ufn, swapFn, e1, e2]
      rw [hB, hU, h r c hr hc]
      congr 1
      apply Finset.sum_congr rfl
      intro k hk'
      rw [hk k hk']
      simp [swapFn, e1, e2]

theorem LUrel_elim {n i : Nat} {w B : Nat → Nat → K} (hi : i < n) (hp : w i i ≠ 0)
    (h : LUrel n i w B) : LUrel n (i + 1) (elimColFn w i n) B := by
  intro r c hr hc
  rw [h r c hr hc, Finset.sum_range_succ]
  have hsum : ∑ k ∈ Finset.range i, (if k < r then elimColFn w i n r k *
        (if c < k then 0 else elimColFn w i n k c) else 0)
      = ∑ k ∈ Finset.range i, (if k < r then w r k * (if c < k then 0 else w k c) else 0) := by
    apply Finset.sum_congr rfl
    intro k hk
    have hki : k < i := Finset.mem_range.mp hk
    have a1 : ¬ k = i := by omega
    have a2 : ¬ i < k := by omega
    have a3 : ¬ (i < k ∧ k < n) := by omega
    have g1 : elimColFn w i n r k = w r k := by simp [elimColFn, a1, a2]
    have g2 : elimColFn w i n k c = w k c := by simp [elimColFn, a3]
    rw [g1, g2]
  have hrow : elimColFn w i n i c = w i c := by simp [elimColFn]
  have key : Ufn i w r c = Ufn (i + 1) (elimColFn w i n) r c
      + (if i < r then elimColFn w i n r i * (if c < i then 0 else elimColFn w i n i c) else 0) := by
    rw [hrow]
    by_cases hri : i < r
    · have e0 : i < r ∧ r < n := ⟨hri, hr⟩
      simp only [Ufn, elimColFn, hri, hr, and_self, if_true]
      by_cases hc1 : c < i
      · have a1 : c < i + 1 ∧ c < r := by omega
        have a2 : c < i ∧ c < r := by omega
        simp [a1, a2, hc1]
      · by_cases hc2 : c = i
        · subst hc2
          have a1 : c < c + 1 ∧ c < r := by omega
          simp only [a1, and_self, if_true, lt_self_iff_false, false_and, if_false]
          field_simp
          ring
        · have a1 : ¬ (c < i + 1 ∧ c < r) := by omega
          have a2 : ¬ (c < i ∧ c < r) := by omega
          have a3 : i < c := by omega
          simp only [a1, a2, hc2, a3, hc1, if_true, if_false, false_and]
          ring
    · have e0 : ¬ (i < r ∧ r < n) := by omega
      have : (c < i + 1 ∧ c < r) = (c < i ∧ c < r) := by apply propext; omega
      simp only [Ufn, elimColFn, hri, e0, if_false, add_zero, this, false_and]
  rw [hsum, key]
  ring

/-- the row-permuted input: entry `(r,c)` of `P·A` -/
def PAfn (n : Nat) (pe a : Nat → Nat → K) : Nat → Nat → K := fun r c =>
  ∑ k ∈ Finset.range n, pe r k * a k c

theorem PAfn_swap (n : Nat) (pe a : Nat → Nat → K) (r1 r2 : Nat) :
    PAfn n (swapFn pe r1 r2) a = swapFn (PAfn n pe a) r1 r2 := by
  funext r c
  unfold PAfn swapFn
  split_ifs <;> rfl

theorem PAfn_eye (n : Nat) (a : Nat → Nat → K) {r : Nat} (hr : r < n) (c : Nat) :
    PAfn n (fun i j => if i = j then 1 else 0) a r c = a r c := by
  unfold PAfn
  simp only [ite_mul, one_mul, zero_mul]
  rw [Finset.sum_ite_eq]
  simp [hr]

/-- exchanging two different rows negates the determinant -/
theorem det_toMat_swap {n r1 r2 : Nat} (w : Nat → Nat → K) (h1 : r1 < n) (h2 : r2 < n)
    (hne : r1 ≠ r2) : (toMat n (swapFn w r1 r2)).det = - (toMat n w).det := by
  have e : toMat n (swapFn w r1 r2)
      = (toMat n w).submatrix (Equiv.swap (⟨r1, h1⟩ : Fin n) ⟨r2, h2⟩) id := by
    ext ⟨r, hr⟩ ⟨c, hc⟩
    simp only [toMat, Matrix.of_apply, Matrix.submatrix_apply, id, swapFn, Equiv.swap_apply_def,
      Fin.mk.injEq]
    by_cases e1 : r = r1
    · simp [e1]
    · by_cases e2 : r = r2
      · subst e2
        have : ¬ r = r1 := e1
        simp [this]
      · simp [e1, e2]
  have hne' : (⟨r1, h1⟩ : Fin n) ≠ ⟨r2, h2⟩ := by
    intro h; exact hne (Fin.mk.injEq _ _ _ _ ▸ h)
  rw [e, Matrix.det_permute, Equiv.Perm.sign_swap hne']
  simp

/-- with every column processed the masked matrix is upper triangular -/
theorem det_Umat_full (n : Nat) (w : Nat → Nat → K) :
    (Umat n n w).det = ∏ k ∈ Finset.range n, w k k := by
  rw [Matrix.det_of_isUpperTriangular, ← Fin.prod_univ_eq_prod_range (fun k => w k k) n]
  · apply Finset.prod_congr rfl
    intro r _
    simp [Umat]
  · intro r c hrc
    have h1 : c.val < r.val := hrc
    have h2 : c.val < n := c.isLt
    simp only [Umat, Matrix.of_apply, h1, h2, and_self, if_true]

/-! ### the factorisation -/

/-- **`lu_decomp_in_place` is total on square matrices** (singular ones included).  With `w` the
    final in-place matrix, `pe` the recorded permutation matrix and `p` the number of recorded
    exchanges: `det (upper triangle of w) = (-1)^p · det A`, `det P = (-1)^p`, and
    `P·A = L·U` (`LUrel`). -/
theorem luDecomp_spec_det [BEq K] [LawfulBEq K] [ScalarExt K] [DecidableEq K] [Alg.PivotLaws K]
    {A : Mat K} {n : Nat} {a : Nat → Nat → K} (h : Is A n n a) :
    ∃ s w pe, luDecomp A = .ok s ∧ Is s.lu n n w ∧ Is s.perm n n pe ∧
      (Umat n n w).det = (-1) ^ s.pivots * (toMat n a).det ∧
      (toMat n pe).det = (-1) ^ s.pivots ∧
      LUrel n n w (PAfn n pe a) := by
  unfold luDecomp
  have hsq : ¬ n ≠ n := by simp
  obtain ⟨p0, hp0, hI0⟩ := eye_spec (K := K) n
  simp only [h.rows, h.cols, hsq, if_false, hp0, bind, Except.bind]
  obtain ⟨s, hs, w, pe, hw, hpe, hdet, hdp, hLU⟩ := forM'_inv
    (fun i (s : LU K) => ∃ w pe, Is s.lu n n w ∧ Is s.perm n n pe ∧
      (Umat n i w).det = (-1) ^ s.pivots * (toMat n a).det ∧
      (toMat n pe).det = (-1) ^ s.pivots ∧
      LUrel n i w (PAfn n pe a))
    0 n { lu := A, perm := p0, pivots := 0 } luStep (Nat.zero_le _)
    ⟨a, _, h, hI0, by rw [Umat_zero]; simp [toMat], by
        have : toMat n (fun i j => if i = j then (1 : K) else 0) = 1 := by
          ext r c
          simp [toMat, Matrix.one_apply, Fin.ext_iff]
        rw [this]; simp,
      LUrel_zero n a _ (fun r c hr _ => PAfn_eye n a hr c)⟩
    (by
      rintro i s _ hi ⟨w, pe, hw, hpe, hdet, hdp, hLU⟩
      obtain ⟨s', hs', hcase⟩ := luStep_spec_det hw hpe hi
      refine ⟨s', hs', ?_⟩
      rcases hcase with ⟨hz, rfl⟩ | ⟨imax, h1, h2, hne, hl, hp, hpiv⟩
      · exact ⟨w, pe, hw, hpe, by rw [Umat_skip hz]; exact hdet, hdp, LUrel_skip hz hLU⟩
      · have hpv : swapFn w i imax i i ≠ 0 := by simpa [swapFn] using hne
        refine ⟨_, _, hl, hp, ?_, ?_, ?_⟩
        · rw [det_Umat_elim _ hi hpv, hpiv]
          by_cases him : imax = i
          · subst him
            rw [swapFn_self]
            simpa using hdet
          · rw [det_Umat_swap w h1 h2 him, hdet]
            simp only [him, if_false, pow_succ]
            ring
        · rw [hpiv]
          by_cases him : imax = i
          · subst him
            rw [swapFn_self]
            simpa using hdp
          · rw [det_toMat_swap pe hi h2 (fun e => him e.symm), hdp]
            simp only [him, if_false, pow_succ]
            ring
        · rw [PAfn_swap]
          exact LUrel_elim hi hpv (LUrel_swap h1 h2 hLU))
  exact ⟨s, w, pe, hs, hw, hpe, hdet, hdp, hLU⟩

theorem luDecomp_det [BEq K] [LawfulBEq K] [ScalarExt K] [DecidableEq K] [Alg.PivotLaws K]
    {A : Mat K} {n : Nat} {a : Nat → Nat → K} (h : Is A n n a) :
    ∃ s w pe, luDecomp A = .ok s ∧ Is s.lu n n w ∧ Is s.perm n n pe ∧
      (Umat n n w).det = (-1) ^ s.pivots * (Matrix.of fun (r c : Fin n) => a r.val c.val).det := by
  obtain ⟨s, w, pe, hs, hw, hpe, hdet, _, _⟩ := luDecomp_spec_det h
  exact ⟨s, w, pe, hs, hw, hpe, hdet⟩

/-! ### the substitution loops of `inverse` -/

/-- rule for the descending loop `for i in (0..m).rev()` -/
theorem foldlM_range_rev_inv {σ : Type} (Q : Nat → σ → Prop) (f : σ → Nat → Res σ) :
    ∀ (m : Nat) (s : σ), Q m s →
      (∀ j s, j < m → Q (j + 1) s → ∃ s', f s j = .ok s' ∧ Q j s') →
      ∃ s', (List.range m).reverse.foldlM f s = .ok s' ∧ Q 0 s'
  | 0, s, h0, _ => ⟨s, by simp [pure, Except.pure], h0⟩
  | m + 1, s, h0, hstep => by
    obtain ⟨s1, h1, q1⟩ := hstep m s (by omega) h0
    obtain ⟨s', h2, q2⟩ := foldlM_range_rev_inv Q f m s1 q1
      (fun j s hj hq => hstep j s (by omega) hq)
    refine ⟨s', ?_, q2⟩
    rw [List.range_succ, List.reverse_append]
    simp only [List.reverse_cons, List.reverse_nil, List.nil_append, List.cons_append,
      List.foldlM_cons, h1, bind, Except.bind]
    exact h2

theorem sum_range_split (f : Nat → K) {r n : Nat} (hr : r < n) :
    ∑ k ∈ Finset.range n, f k
      = ∑ k ∈ Finset.range r, f k + f r + ∑ k ∈ Finset.Ico (r + 1) n, f k := by
  rw [← Finset.sum_range_add_sum_Ico f (le_of_lt hr), Finset.sum_eq_sum_Ico_succ_bot hr]
  ring

/-- the accumulation `inv[i,j] -= lu[i,k] * inv[k,j]` for `k ∈ [lo, hi)` (row `i` outside the
    range): only entry `(i,j)` changes -/
theorem invAcc_spec {lu s : Mat K} {n : Nat} {w e : Nat → Nat → K} (hw : Is lu n n w)
    (hs : Is s n n e) {i j lo hi : Nat} (hi' : i < n) (hj : j < n) (hlo : lo ≤ hi) (hhi : hi ≤ n)
    (hne : ∀ k, lo ≤ k → k < hi → k ≠ i) :
    ∃ s', forM' lo hi s (fun inv k => do
        let kj ← inv.get k j
        let ij ← inv.get i j
        let ik ← lu.get i k
        inv.set i j (ij - ik * kj)) = .ok s' ∧
      Is s' n n (fun a b => if a = i ∧ b = j
        then e i j - ∑ k ∈ Finset.Ico lo hi, w i k * e k j else e a b) := by
  refine forM'_inv (fun k (s : Mat K) => Is s n n (fun a b => if a = i ∧ b = j
        then e i j - ∑ k' ∈ Finset.Ico lo k, w i k' * e k' j else e a b)) lo hi s
    (fun inv k => do
        let kj ← inv.get k j
        let ij ← inv.get i j
        let ik ← lu.get i k
        inv.set i j (ij - ik * kj)) hlo (hs.congr (fun a b _ _ => by
      by_cases hab : a = i ∧ b = j
      · obtain ⟨rfl, rfl⟩ := hab; simp
      · simp [hab])) ?_
  intro k t hk1 hk2 ht
  have hkn : k < n := by omega
  have g1 := ht.get hkn hj
  have g2 := ht.get hi' hj
  have e1 : ¬ k = i := hne k hk1 hk2
  simp only [e1, false_and, if_false] at g1
  simp only [and_self, if_true] at g2
  obtain ⟨t', ht', hI⟩ := ht.set hi' hj
    (e i j - ∑ k' ∈ Finset.Ico lo k, w i k' * e k' j - w i k * e k j)
  refine ⟨t', by simp only [g1, g2, hw.get hi' hkn, bind, Except.bind]; exact ht', hI.congr ?_⟩
  intro a b _ _
  by_cases hab : a = i ∧ b = j
  · simp only [hab, and_self, if_true]
    rw [Finset.sum_Ico_succ_top hk1]
    ring
  · simp only [hab, if_false]

/-- unit-lower forward substitution on column `j` -/
theorem invFwd_spec {lu inv : Mat K} {n : Nat} {w v : Nat → Nat → K} (hw : Is lu n n w)
    (hv : Is inv n n v) {j : Nat} (hj : j < n) :
    ∃ (inv' : Mat K) (y : Nat → K), forM' 0 n inv (fun inv i =>
        forM' 0 i inv (fun inv k => do
          let kj ← inv.get k j
          let ij ← inv.get i j
          let ik ← lu.get i k
          inv.set i j (ij - ik * kj))) = .ok inv' ∧
      Is inv' n n (fun a b => if b = j then y a else v a b) ∧
      ∀ r, r < n → y r + ∑ k ∈ Finset.range r, w r k * y k = v r j := by
  obtain ⟨inv', hinv, y, hI, hy⟩ := forM'_inv
    (fun i (s : Mat K) => ∃ y : Nat → K,
      Is s n n (fun a b => if b = j ∧ a < i then y a else v a b) ∧
      ∀ r, r < i → y r + ∑ k ∈ Finset.range r, w r k * y k = v r j)
    0 n inv (fun inv i =>
        forM' 0 i inv (fun inv k => do
          let kj ← inv.get k j
          let ij ← inv.get i j
          let ik ← lu.get i k
          inv.set i j (ij - ik * kj))) (Nat.zero_le _)
    ⟨fun _ => 0, hv.congr (fun a b _ _ => by simp), fun r hr => by omega⟩
    (by
      rintro i s _ hi ⟨y, hs, hy⟩
      obtain ⟨s', hs', hI⟩ := invAcc_spec hw hs (i := i) (j := j) (lo := 0) (hi := i) hi hj
        (Nat.zero_le _) (le_of_lt hi) (fun k _ hk => by omega)
      refine ⟨s', hs', fun a => if a = i then v i j - ∑ k ∈ Finset.range i, w i k * y k else y a,
        hI.congr ?_, ?_⟩
      · intro a b _ _
        by_cases hab : a = i ∧ b = j
        · obtain ⟨rfl, rfl⟩ := hab
          have e1 : ¬ a < a := by omega
          have e2 : a < a + 1 := by omega
          simp only [true_and, and_self, if_true, e1, if_false, e2]
          rw [← Finset.range_eq_Ico]
          congr 1
          apply Finset.sum_congr rfl
          intro k hk
          have : k < a := Finset.mem_range.mp hk
          simp [this]
        · rw [if_neg hab]
          by_cases hb : b = j
          · subst hb
            have hai : ¬ a = i := fun e => hab ⟨e, rfl⟩
            have : (a < i + 1) = (a < i) := by apply propext; omega
            simp only [true_and, this, hai, if_false]
          · simp only [hb, false_and, if_false]
      · intro r hr
        by_cases hri : r = i
        · subst hri
          simp only [if_true]
          have : ∑ k ∈ Finset.range r, w r k * (if k = r then
              v r j - ∑ k ∈ Finset.range r, w r k * y k else y k)
              = ∑ k ∈ Finset.range r, w r k * y k := by
            apply Finset.sum_congr rfl
            intro k hk
            have : ¬ k = r := by have := Finset.mem_range.mp hk; omega
            simp [this]
          rw [this]; ring
        · have hlt : r < i := by omega
          simp only [hri, if_false]
          have : ∑ k ∈ Finset.range r, w r k * (if k = i then
              v i j - ∑ k ∈ Finset.range i, w i k * y k else y k)
              = ∑ k ∈ Finset.range r, w r k * y k := by
            apply Finset.sum_congr rfl
            intro k hk
            have : ¬ k = i := by have := Finset.mem_range.mp hk; omega
            simp [this]
          rw [this]
          exact hy r hlt)
  exact ⟨inv', y, hinv, hI.congr (fun a b ha _ => by simp [ha]), hy⟩

/-- upper-triangular back substitution on column `j` (non-zero diagonal) -/
theorem invBack_spec [BEq K] [ScalarExt K] [DecidableEq K] [Alg.DivLaw K]
    {lu inv : Mat K} {n : Nat} {w v : Nat → Nat → K} (hw : Is lu n n w)
    (hv : Is inv n n v) {j : Nat} (hj : j < n) (hd : ∀ k, k < n → w k k ≠ 0) :
    ∃ (inv' : Mat K) (x : Nat → K), (List.range n).reverse.foldlM (fun inv i => do
        let inv ← forM' (i + 1) n inv (fun inv k => do
          let kj ← inv.get k j
          let ij ← inv.get i j
          let ik ← lu.get i k
          inv.set i j (ij - ik * kj))
        let ij ← inv.get i j
        let ii ← lu.get i i
        let q ← divM ij ii
        inv.set i j q) inv = .ok inv' ∧
      Is inv' n n (fun a b => if b = j then x a else v a b) ∧
      ∀ r, r < n → w r r * x r + ∑ k ∈ Finset.Ico (r + 1) n, w r k * x k = v r j := by
  obtain ⟨inv', hinv, x, hI, hx⟩ := foldlM_range_rev_inv
    (fun m (s : Mat K) => ∃ x : Nat → K,
      Is s n n (fun a b => if b = j ∧ m ≤ a then x a else v a b) ∧
      ∀ r, m ≤ r → r < n → w r r * x r + ∑ k ∈ Finset.Ico (r + 1) n, w r k * x k = v r j)
    (fun inv i => do
        let inv ← forM' (i + 1) n inv (fun inv k => do
          let kj ← inv.get k j
          let ij ← inv.get i j
          let ik ← lu.get i k
          inv.set i j (ij - ik * kj))
        let ij ← inv.get i j
        let ii ← lu.get i i
        let q ← divM ij ii
        inv.set i j q) n inv
    ⟨fun _ => 0, hv.congr (fun a b ha _ => by
      have : ¬ n ≤ a := by omega
      simp [this]), fun r h1 h2 => by omega⟩
    (by
      rintro i s hi ⟨x, hs, hx⟩
      obtain ⟨s1, hs1, hI1⟩ := invAcc_spec hw hs (i := i) (j := j) (lo := i + 1) (hi := n) hi hj
        (by omega) (le_refl _) (fun k hk _ => by omega)
      have hpi := hd i hi
      have g1 : s1.get i j = .ok (v i j - ∑ k ∈ Finset.Ico (i + 1) n, w i k * x k) := by
        rw [hI1.get hi hj]
        have e0 : ¬ i + 1 ≤ i := by omega
        simp only [and_self, if_true, true_and, e0, if_false]
        congr 2
        apply Finset.sum_congr rfl
        intro k hk
        have : i + 1 ≤ k := (Finset.mem_Ico.mp hk).1
        simp [this]
      obtain ⟨s2, hs2, hI2⟩ := hI1.set hi hj
        ((v i j - ∑ k ∈ Finset.Ico (i + 1) n, w i k * x k) / w i i)
      refine ⟨s2, ?_, fun a => if a = i then
          (v i j - ∑ k ∈ Finset.Ico (i + 1) n, w i k * x k) / w i i else x a, hI2.congr ?_, ?_⟩
      · have hs1' := hs1
        simp only [bind, Except.bind] at hs1' ⊢
        rw [hs1']
        simp only [g1, hw.get hi hi, Alg.divM_law_ne hpi]
        exact hs2
      · intro a b _ _
        by_cases hab : a = i ∧ b = j
        · obtain ⟨rfl, rfl⟩ := hab
          simp
        · simp only [hab, if_false]
          by_cases hb : b = j
          · subst hb
            have hai : ¬ a = i := fun e => hab ⟨e, rfl⟩
            have : (i ≤ a) = (i + 1 ≤ a) := by apply propext; omega
            simp only [true_and, this, hai, if_false]
          · simp only [hb, false_and, if_false]
      · intro r hr1 hr2
        have hs' : ∀ r', i ≤ r' → ∑ k ∈ Finset.Ico (r' + 1) n, w r' k * (if k = i then
              (v i j - ∑ k ∈ Finset.Ico (i + 1) n, w i k * x k) / w i i else x k)
              = ∑ k ∈ Finset.Ico (r' + 1) n, w r' k * x k := by
          intro r' hr'
          apply Finset.sum_congr rfl
          intro k hk
          have : ¬ k = i := by have := (Finset.mem_Ico.mp hk).1; omega
          simp [this]
        rw [hs' r hr1]
        by_cases hri : r = i
        · subst hri
          simp only [if_true]
          field_simp
          ring
        · simp only [hri, if_false]
          exact hx r (by omega) hr2)
  exact ⟨inv', x, hinv, hI.congr (fun a b _ _ => by simp), fun r hr => hx r (Nat.zero_le _) hr⟩

/-! ### `inverse` -/

/-- the unit lower factor: stored multipliers below the diagonal, 1 on it -/
def Lfn (w : Nat → Nat → K) : Nat → Nat → K := fun r k =>
  if k < r then w r k else if k = r then 1 else 0

theorem sum_range_ite_lt (F : Nat → K) {r n : Nat} (hr : r ≤ n) :
    ∑ k ∈ Finset.range n, (if k < r then F k else 0) = ∑ k ∈ Finset.range r, F k := by
  rw [← Finset.sum_range_add_sum_Ico _ hr]
  have h1 : ∑ k ∈ Finset.range r, (if k < r then F k else 0) = ∑ k ∈ Finset.range r, F k := by
    apply Finset.sum_congr rfl
    intro k hk
    rw [if_pos (Finset.mem_range.mp hk)]
  have h2 : ∑ k ∈ Finset.Ico r n, (if k < r then F k else 0) = 0 := by
    apply Finset.sum_eq_zero
    intro k hk
    have : ¬ k < r := by have := (Finset.mem_Ico.mp hk).1; omega
    rw [if_neg this]
  rw [h1, h2, add_zero]

/-- a row of the unit lower factor times a vector -/
theorem Lsum (w : Nat → Nat → K) (y : Nat → K) {r n : Nat} (hr : r < n) :
    ∑ k ∈ Finset.range n, Lfn w r k * y k = y r + ∑ k ∈ Finset.range r, w r k * y k := by
  rw [sum_range_split _ hr]
  have h1 : ∑ k ∈ Finset.range r, Lfn w r k * y k = ∑ k ∈ Finset.range r, w r k * y k := by
    apply Finset.sum_congr rfl
    intro k hk
    have : k < r := Finset.mem_range.mp hk
    simp [Lfn, this]
  have h2 : ∑ k ∈ Finset.Ico (r + 1) n, Lfn w r k * y k = 0 := by
    apply Finset.sum_eq_zero
    intro k hk
    have := (Finset.mem_Ico.mp hk).1
    have a1 : ¬ k < r := by omega
    have a2 : ¬ k = r := by omega
    simp [Lfn, a1, a2]
  have h3 : Lfn w r r = 1 := by simp [Lfn]
  rw [h1, h2, h3]
  ring

/-- a row of the upper factor times a vector -/
theorem Usum (w : Nat → Nat → K) (x : Nat → K) {r n : Nat} (hr : r < n) :
    ∑ k ∈ Finset.range n, Ufn n w r k * x k
      = w r r * x r + ∑ k ∈ Finset.Ico (r + 1) n, w r k * x k := by
  rw [sum_range_split _ hr]
  have h1 : ∑ k ∈ Finset.range r, Ufn n w r k * x k = 0 := by
    apply Finset.sum_eq_zero
    intro k hk
    have : k < r := Finset.mem_range.mp hk
    have : k < n ∧ k < r := by omega
    simp [Ufn, this]
  have h2 : ∑ k ∈ Finset.Ico (r + 1) n, Ufn n w r k * x k
      = ∑ k ∈ Finset.Ico (r + 1) n, w r k * x k := by
    apply Finset.sum_congr rfl
    intro k hk
    have := (Finset.mem_Ico.mp hk).1
    have a1 : ¬ (k < n ∧ k < r) := by omega
    simp [Ufn, a1]
  have h3 : Ufn n w r r = w r r := by simp [Ufn]
  rw [h1, h2, h3]
  ring

/-- at the end of the factorisation `LUrel` is the matrix identity `L·U = P·A` -/
theorem LU_eq_PA {n : Nat} {w pe a : Nat → Nat → K} (hLU : LUrel n n w (PAfn n pe a)) :
    toMat n (Lfn w) * Umat n n w = toMat n pe * toMat n a := by
  ext r c
  show ∑ k : Fin n, Lfn w r.val k.val * Ufn n w k.val c.val = ∑ k : Fin n, pe r.val k.val * a k.val c.val
  rw [Fin.sum_univ_eq_sum_range (fun k => Lfn w r.val k * Ufn n w k c.val) n,
    Fin.sum_univ_eq_sum_range (fun k => pe r.val k * a k c.val) n]
  have h := hLU r.val c.val r.isLt c.isLt
  unfold PAfn at h
  rw [h, Lsum w (fun k => Ufn n w k c.val) r.isLt, sum_range_ite_lt _ (le_of_lt r.isLt)]
  congr 1
  apply Finset.sum_congr rfl
  intro k hk
  have hc : c.val < n := c.isLt
  simp [Ufn, hc]

/-- the column loop of `inverse`: for factors with a non-zero diagonal it succeeds and solves
    `L·(U·X) = P` -/
theorem inverseLoop_spec [BEq K] [ScalarExt K] [DecidableEq K] [Alg.DivLaw K]
    {lu p : Mat K} {n : Nat} {w pe : Nat → Nat → K} (hw : Is lu n n w)
    (hp : Is p n n pe) (hd : ∀ k, k < n → w k k ≠ 0) :
    ∃ (B : Mat K) (b : Nat → Nat → K), forM' 0 n p (fun inv j => do
        let inv ← forM' 0 n inv (fun inv i =>
          forM' 0 i inv (fun inv k => do
            let kj ← inv.get k j
            let ij ← inv.get i j
            let ik ← lu.get i k
            inv.set i j (ij - ik * kj)))
        (List.range n).reverse.foldlM (fun inv i => do
          let inv ← forM' (i + 1) n inv (fun inv k => do
            let kj ← inv.get k j
            let ij ← inv.get i j
            let ik ← lu.get i k
            inv.set i j (ij - ik * kj))
          let ij ← inv.get i j
          let ii ← lu.get i i
          let q ← divM ij ii
          inv.set i j q) inv) = .ok B ∧ Is B n n b ∧
      toMat n (Lfn w) * (Umat n n w * toMat n b) = toMat n pe := by
  obtain ⟨B, hB, b, hb, _, hcols⟩ := forM'_inv
    (fun j (s : Mat K) => ∃ b : Nat → Nat → K, Is s n n b ∧
      (∀ r c, j ≤ c → b r c = pe r c) ∧
      ∀ c, c < j → ∃ y : Nat → K,
        (∀ r, r < n → y r + ∑ k ∈ Finset.range r, w r k * y k = pe r c) ∧
        (∀ r, r < n → w r r * b r c + ∑ k ∈ Finset.Ico (r + 1) n, w r k * b k c = y r))
    0 n p (fun inv j => do
        let inv ← forM' 0 n inv (fun inv i =>
          forM' 0 i inv (fun inv k => do
            let kj ← inv.get k j
            let ij ← inv.get i j
            let ik ← lu.get i k
            inv.set i j (ij - ik * kj)))
        (List.range n).reverse.foldlM (fun inv i => do
          let inv ← forM' (i + 1) n inv (fun inv k => do
            let kj ← inv.get k j
            let ij ← inv.get i j
            let ik ← lu.get i k
            inv.set i j (ij - ik * kj))
          let ij ← inv.get i j
          let ii ← lu.get i i
          let q ← divM ij ii
          inv.set i j q) inv) (Nat.zero_le _)
    ⟨pe, hp, fun _ _ _ => rfl, fun c hc => by omega⟩
    (by
      rintro j s _ hj ⟨b, hb, hrest, hcols⟩
      obtain ⟨s1, y, hs1, hI1, hy⟩ := invFwd_spec hw hb hj
      obtain ⟨s2, x, hs2, hI2, hx⟩ := invBack_spec hw hI1 hj hd
      refine ⟨s2, ?_, fun a c => if c = j then x a else b a c, hI2.congr ?_, ?_, ?_⟩
      · have hs1' := hs1
        have hs2' := hs2
        simp only [bind, Except.bind] at hs1' hs2' ⊢
        rw [hs1']
        exact hs2'
      · intro a c _ _
        by_cases hc : c = j
        · simp [hc]
        · simp [hc]
      · intro r c hc
        have : ¬ c = j := by omega
        simp only [this, if_false]
        exact hrest r c (by omega)
      · intro c hc
        by_cases hcj : c = j
        · subst hcj
          refine ⟨y, fun r hr => ?_, fun r hr => ?_⟩
          · rw [hy r hr, hrest r c (le_refl _)]
          · have := hx r hr
            simp only [if_true] at this ⊢
            exact this
        · obtain ⟨y', hy1, hy2⟩ := hcols c (by omega)
          refine ⟨y', hy1, fun r hr => ?_⟩
          simp only [hcj, if_false]
          exact hy2 r hr)
  refine ⟨B, b, hB, hb, ?_⟩
  ext r c
  obtain ⟨y, hy1, hy2⟩ := hcols c.val c.isLt
  have hU : ∀ k : Fin n, (Umat n n w * toMat n b) k c = y k.val := by
    intro k
    show ∑ k' : Fin n, Ufn n w k.val k'.val * b k'.val c.val = y k.val
    rw [Fin.sum_univ_eq_sum_range (fun k' => Ufn n w k.val k' * b k' c.val) n,
      Usum w (fun k' => b k' c.val) k.isLt]
    exact hy2 k.val k.isLt
  show ∑ k : Fin n, toMat n (Lfn w) r k * (Umat n n w * toMat n b) k c = pe r.val c.val
  simp only [hU]
  show ∑ k : Fin n, Lfn w r.val k.val * y k.val = pe r.val c.val
  rw [Fin.sum_univ_eq_sum_range (fun k => Lfn w r.val k * y k) n, Lsum w y r.isLt]
  exact hy1 r.val r.isLt

/-- **`inverse()` on a non-singular matrix** succeeds and returns a right inverse -/
theorem inverse_spec [BEq K] [LawfulBEq K] [ScalarExt K] [DecidableEq K] [Alg.PivotLaws K]
    {A : Mat K} {n : Nat} {a : Nat → Nat → K} (h : Is A n n a)
    (hdet : (toMat n a).det ≠ 0) :
    ∃ (B : Mat K) (b : Nat → Nat → K), inverse A = .ok B ∧ Is B n n b ∧
      toMat n a * toMat n b = 1 := by
  obtain ⟨s, w, pe, hs, hw, hpe, hdU, hdP, hLU⟩ := luDecomp_spec_det h
  have hd : ∀ k, k < n → w k k ≠ 0 := by
    have hne : (Umat n n w).det ≠ 0 := by
      rw [hdU]
      exact mul_ne_zero (pow_ne_zero _ (by norm_num)) hdet
    rw [det_Umat_full, Finset.prod_ne_zero_iff] at hne
    intro k hk
    exact hne k (Finset.mem_range.mpr hk)
  obtain ⟨B, b, hB, hb, hsolve⟩ := inverseLoop_spec hw hpe hd
  refine ⟨B, b, ?_, hb, ?_⟩
  · unfold inverse
    have hsq : ¬ n ≠ n := by simp
    have hB' := hB
    simp only [h.rows, h.cols, hsq, if_false, hs, bind, Except.bind] at hB' ⊢
    exact hB'
  · have hPunit : IsUnit (toMat n pe) := by
      rw [Matrix.isUnit_iff_isUnit_det, hdP]
      exact isUnit_iff_ne_zero.mpr (pow_ne_zero _ (by norm_num))
    apply hPunit.mul_left_cancel
    rw [mul_one, ← Matrix.mul_assoc, ← LU_eq_PA hLU, Matrix.mul_assoc]
    exact hsolve

/-! ### `inverse` on a singular matrix: the back substitution divides by an exact zero -/

/-- descending loop in which every iteration keeps `Q` or fails with the error `e`, and some
    iteration is bound to fail: the loop fails with `e` -/
theorem foldlM_range_rev_err {σ : Type} (Q : Nat → σ → Prop) (f : σ → Nat → Res σ) (e : Err) :
    ∀ (m : Nat) (s : σ), Q m s →
      (∀ j s, j < m → Q (j + 1) s → (∃ s', f s j = .ok s' ∧ Q j s') ∨ f s j = .error e) →
      (∃ i0, i0 < m ∧ ∀ s, Q (i0 + 1) s → f s i0 = .error e) →
      (List.range m).reverse.foldlM f s = .error e
  | 0, s, _, _, ⟨i0, h, _⟩ => by omega
  | m + 1, s, h0, hstep, ⟨i0, hi0, hfail⟩ => by
    rw [List.range_succ, List.reverse_append]
    simp only [List.reverse_cons, List.reverse_nil, List.nil_append, List.cons_append,
      List.foldlM_cons, bind, Except.bind]
    rcases hstep m s (by omega) h0 with ⟨s1, h1, q1⟩ | herr
    · rw [h1]
      have hne : i0 ≠ m := by
        intro e0
        subst e0
        rw [hfail s h0] at h1
        cases h1
      exact foldlM_range_rev_err Q f e m s1 q1 (fun j s hj hq => hstep j s (by omega) hq)
        ⟨i0, by omega, hfail⟩
    · rw [herr]

theorem invBack_fails [BEq K] [ScalarExt K] [DecidableEq K] [Alg.DivLaw K]
    {lu inv : Mat K} {n : Nat} {w v : Nat → Nat → K} (hw : Is lu n n w)
    (hv : Is inv n n v) {j : Nat} (hj : j < n) (hz : ∃ k, k < n ∧ w k k = 0) :
    (List.range n).reverse.foldlM (fun inv i => do
        let inv ← forM' (i + 1) n inv (fun inv k => do
          let kj ← inv.get k j
          let ij ← inv.get i j
          let ik ← lu.get i k
          inv.set i j (ij - ik * kj))
        let ij ← inv.get i j
        let ii ← lu.get i i
        let q ← divM ij ii
        inv.set i j q) inv = .error .arith := by
  obtain ⟨i0, hi0, hzero⟩ := hz
  refine foldlM_range_rev_err (fun _ (s : Mat K) => ∃ e : Nat → Nat → K, Is s n n e) _ .arith n inv
    ⟨v, hv⟩ ?_ ⟨i0, hi0, ?_⟩
  · rintro i s hi ⟨e, hs⟩
    obtain ⟨s1, hs1, hI1⟩ := invAcc_spec hw hs (i := i) (j := j) (lo := i + 1) (hi := n) hi hj
      (by omega) (le_refl _) (fun k hk _ => by omega)
    have hs1' := hs1
    simp only [bind, Except.bind] at hs1' ⊢
    rw [hs1']
    obtain ⟨val, hval⟩ : ∃ val, s1.get i j = .ok val := ⟨_, hI1.get hi hj⟩
    simp only [hval, hw.get hi hi, Alg.divM_law]
    by_cases hp : w i i = 0
    · right
      simp [hp]
    · left
      simp only [hp, if_false]
      obtain ⟨s2, hs2, hI2⟩ := hI1.set hi hj (val / w i i)
      exact ⟨s2, hs2, _, hI2⟩
  · rintro s ⟨e, hs⟩
    obtain ⟨s1, hs1, hI1⟩ := invAcc_spec hw hs (i := i0) (j := j) (lo := i0 + 1) (hi := n) hi0 hj
      (by omega) (le_refl _) (fun k hk _ => by omega)
    have hs1' := hs1
    simp only [bind, Except.bind] at hs1' ⊢
    rw [hs1']
    obtain ⟨val, hval⟩ : ∃ val, s1.get i0 j = .ok val := ⟨_, hI1.get hi0 hj⟩
    simp only [hval, hw.get hi0 hi0, Alg.divM_law]
    simp [hzero]

/-- **`inverse()` on a singular matrix** panics with a division by an exact zero (class `arith`):
    the skipped column left a zero on the diagonal of `U` -/
theorem inverse_singular [BEq K] [LawfulBEq K] [ScalarExt K] [DecidableEq K] [Alg.PivotLaws K]
    {A : Mat K} {n : Nat} {a : Nat → Nat → K} (h : Is A n n a)
    (hdet : (toMat n a).det = 0) : inverse A = .error .arith := by
  obtain ⟨s, w, pe, hs, hw, hpe, hdU, hdP, hLU⟩ := luDecomp_spec_det h
  have hz : ∃ k, k < n ∧ w k k = 0 := by
    have h0 : (Umat n n w).det = 0 := by rw [hdU, hdet, mul_zero]
    rw [det_Umat_full, Finset.prod_eq_zero_iff] at h0
    obtain ⟨k, hk, hk0⟩ := h0
    exact ⟨k, Finset.mem_range.mp hk, hk0⟩
  have hn : 0 < n := by obtain ⟨k, hk, _⟩ := hz; omega
  obtain ⟨s1, y, hs1, hI1, _⟩ := invFwd_spec hw hpe hn
  have hfail := invBack_fails hw hI1 hn hz
  unfold inverse
  have hsq : ¬ n ≠ n := by simp
  simp only [h.rows, h.cols, hsq, if_false, hs]
  apply forM'_first_error _ _ _ _ _ hn
  have hs1' := hs1
  have hfail' := hfail
  simp only [bind, Except.bind] at hs1' hfail' ⊢
  rw [hs1']
  exact hfail'

end Exact
end Mat
end Ohsl
