/-
  Ohsl.Lemmas.BandRounding — backward error analysis of the banded solver (`Band.decompose` =
  `bandec`, `Band.solve` = `banbks`) in the "rounded reals" interpretation `Fl M`
  (Ohsl/Lemmas/Rounding.lean).  Helper file of Ohsl/Props/C04F.lean (read its header first).

  Contents
  * (S) generic copies of the structural pieces of BandSpec.lean that are stated there for a
        field only: `twinK` (dense twin of the compact working storage), `fwdK` (replay of the
        recorded exchanges and multipliers on a vector), `solve_fwd_specK`, `back_sdot`.
  * (F) `mulF`, `elimEF`, `elimAF`, `decStep_specF`: functional description of one pivot step of
        `decompose` in `Fl M`, with the maximality of the pivot.
  * `TRel` : the relation `β = Σ_{t<ρ} l_t v_t θ_t + v_r θ₀` with perturbation factors, and its
        three moves `TRel.upd` (a rounded multiply–subtract), `TRel.kill` (the eliminated entry),
        `TRel.skip`.
  * `pik`, `sig`, `Lt`, `age` : the row permutation, the unit lower factor in `P·B = L̂·Û` form and
        the number of elimination steps a row went through, all replayed from `(al, index)`.
  * `DecInvF`, `decStep_invF`, `decompose_invF` : the invariant of the pivot loop.
  * `VInv`, `fwd_invF` : the same for the right-hand side (forward substitution).
  * `back_backwardF` : back substitution on the compact upper factor.
  * `lu_compose_row` : the composition (pure real algebra, row-dependent constants).
-/
import Ohsl.Lemmas.BandSpec
import Ohsl.Lemmas.LURounding
import Mathlib.Algebra.BigOperators.Group.Finset.Basic
import Mathlib.Algebra.BigOperators.Ring.Finset
import Mathlib.Algebra.BigOperators.Intervals
import Mathlib.Algebra.Order.BigOperators.Group.Finset
import Mathlib.Tactic.Ring
import Mathlib.Tactic.Linarith
import Mathlib.Tactic.Positivity
import Mathlib.Tactic.FieldSimp
set_option linter.unusedSectionVars false
set_option linter.unusedVariables false
set_option linter.unusedSimpArgs false
namespace Ohsl
namespace Band
open Mat (forM' Is forM'_inv aget_ok aset_ok aget_eq_ok swapIdx PermOK)

/-! ### structural pieces, any scalar type -/

section StructuralK
variable {K : Type} [Add K] [Sub K] [Mul K] [Neg K] [Zero K] [One K] [BEq K] [ScalarExt K]

/-- dense twin of the compact working matrix before step `k` (`twin` of BandSpec, any scalar) -/
def twinK (m1 mm k l : Nat) (e : Nat → Nat → K) (i c : Nat) : K :=
  if off m1 k l i ≤ c ∧ c < off m1 k l i + mm then e i (c - off m1 k l i) else 0

theorem twinK_window {n m1 mm k : Nat} (e : Nat → Nat → K) {a : Nat} (ha : a < n) (c : Nat) :
    twinK m1 mm k (min (m1 + k) n) e a c = twinK m1 mm k (min (m1 + k + 1) n) e a c := by
  have : off m1 k (min (m1 + k) n) a = off m1 k (min (m1 + k + 1) n) a := by
    unfold off; ifs_omega
  unfold twinK; rw [this]

theorem twinK_swap {m1 mm k l ip : Nat} (e : Nat → Nat → K) (hk : k < l) (h1 : k ≤ ip)
    (h2 : ip < l) (a c : Nat) :
    twinK m1 mm k l (swapR e k ip) a c = swapR (twinK m1 mm k l e) k ip a c := by
  have o1 : off m1 k l k = k := by unfold off; ifs_omega
  have o2 : off m1 k l ip = k := by unfold off; ifs_omega
  unfold swapR
  by_cases hak : a = k
  · subst hak
    simp only [twinK, if_true, o1, o2]
  · by_cases hai : a = ip
    · subst hai
      simp only [twinK, hak, if_false, if_true, o1, o2]
    · simp only [twinK, hak, hai, if_false]

theorem twinK_congr {n m1 mm k l : Nat} {e e' : Nat → Nat → K}
    (h : ∀ a b, a < n → b < mm → e' a b = e a b) {a : Nat} (ha : a < n) (c : Nat) :
    twinK m1 mm k l e' a c = twinK m1 mm k l e a c := by
  unfold twinK
  by_cases hc : off m1 k l a ≤ c ∧ c < off m1 k l a + mm
  · rw [if_pos hc, if_pos hc, h a _ ha (by omega)]
  · rw [if_neg hc, if_neg hc]

/-- the dense twin of the compact matrix after the first phase is the dense twin of `b` -/
theorem twinK_zero {b : Band K} (h : WFb b) {a c : Nat} (ha : a < b.n) (hc : c < b.n) :
    twinK b.m1 (b.m1 + b.m2 + 1) 0 b.m1 (shifted b.m1 b.m2 (Mat.entryOf b.compact)) a c =
      dense b a c := by
  have o : off b.m1 0 b.m1 a = a - b.m1 := by
    unfold off
    rw [if_neg (by omega)]
    split
    · omega
    · rfl
  unfold twinK
  rw [o]
  by_cases hw : a - b.m1 ≤ c ∧ c < a - b.m1 + (b.m1 + b.m2 + 1)
  · rw [if_pos hw]
    by_cases ht : (c - (a - b.m1)) + (b.m1 - a) < b.m1 + b.m2 + 1
    · rw [shifted_dense h ha ht (by omega)]
      congr 1; omega
    · rw [dense_out (by unfold inBand; omega)]
      unfold shifted
      rw [if_pos (by omega), if_neg ht]
  · rw [if_neg hw, dense_out (by unfold inBand; omega)]

/-- one forward step on a vector: exchange `k ↔ ip`, then subtract the stored multiples -/
def fwdStepK (ea : Nat → Nat → K) (k l ip : Nat) (y : Nat → K) : Nat → K := fun a =>
  if k < a ∧ a < l then swapV y k ip a - ea k (a - k - 1) * swapV y k ip k else swapV y k ip a

/-- the first `k` forward steps (`fwd` of BandSpec, any scalar) -/
def fwdK (n m1 : Nat) (ea : Nat → Nat → K) (idx : Nat → Nat) : Nat → (Nat → K) → (Nat → K)
  | 0, y => y
  | k + 1, y => fwdStepK ea k (min (m1 + k + 1) n) (idx k - 1) (fwdK n m1 ea idx k y)

theorem getD_setK {x : Array K} {i : Nat} (v : K) (h : i < x.size) (a : Nat) :
    (x.setIfInBounds i v)[a]?.getD 0 = if a = i then v else x[a]?.getD 0 := by
  rw [Array.getElem?_setIfInBounds]
  by_cases hai : a = i
  · subst hai; simp [h]
  · rw [if_neg (fun e => hai e.symm), if_neg hai]

theorem aget_getDK {x : Array K} {i : Nat} (h : i < x.size) : aget x i = .ok (x[i]?.getD 0) := by
  rw [aget_ok h]; simp [h]

theorem vswap_specK {x : Array K} {k j : Nat} (hk : k < x.size) (hj : j < x.size) :
    ∃ x', Vec.swap x k j = .ok x' ∧ x'.size = x.size ∧
      ∀ a, x'[a]?.getD 0 = swapV (fun a => x[a]?.getD 0) k j a := by
  have hk' : k < (x.setIfInBounds k (x[j]?.getD 0)).size := by simpa using hk
  have hj' : j < (x.setIfInBounds k (x[j]?.getD 0)).size := by simpa using hj
  refine ⟨(x.setIfInBounds k (x[j]?.getD 0)).setIfInBounds j (x[k]?.getD 0), ?_, by simp, ?_⟩
  · simp only [Vec.swap, aget_getDK hk, aget_getDK hj, aset_ok _ hk, aset_ok _ hj', bind,
      Except.bind]
  · intro a
    rw [getD_setK _ hj', getD_setK _ hk]
    unfold swapV
    by_cases h1 : a = j
    · subst h1
      by_cases h2 : a = k
      · subst h2; simp
      · simp [h2]
    · simp [h1]

/-- inner loop of the forward substitution -/
theorem fwd_innerK {al : Mat K} {n m1 : Nat} {ea : Nat → Nat → K} (hal : Is al n m1 ea)
    (x : Array K) (hx : x.size = n) {k l : Nat} (hk : k < n) (hkl : k + 1 ≤ l) (hln : l ≤ n)
    (hlm : l ≤ m1 + k + 1) :
    ∃ x', forM' (k + 1) l x (fun x j => do
        let xk ← aget x k
        let a ← al.get k (j - k - 1)
        let xj ← aget x j
        aset x j (xj - a * xk)) = .ok x' ∧ x'.size = n ∧
      ∀ a, x'[a]?.getD 0 = if k < a ∧ a < l then
        x[a]?.getD 0 - ea k (a - k - 1) * x[k]?.getD 0 else x[a]?.getD 0 := by
  refine forM'_inv (fun t (x' : Array K) => x'.size = n ∧
      ∀ a, x'[a]?.getD 0 = if k < a ∧ a < t then
        x[a]?.getD 0 - ea k (a - k - 1) * x[k]?.getD 0 else x[a]?.getD 0)
    (k + 1) l x _ hkl ⟨hx, fun a => by rw [if_neg (by omega)]⟩ ?_
  intro t x' ht1 ht2 ⟨hs, hv⟩
  have hk' : k < x'.size := by omega
  have ht' : t < x'.size := by omega
  have g := hal.get hk (show t - k - 1 < m1 by omega)
  refine ⟨x'.setIfInBounds t (x'[t]?.getD 0 - ea k (t - k - 1) * x'[k]?.getD 0),
    by simp only [aget_getDK hk', aget_getDK ht', g, aset_ok _ ht', bind, Except.bind],
    by simpa using hs, ?_⟩
  intro a
  have hvk : x'[k]?.getD 0 = x[k]?.getD 0 := by rw [hv k, if_neg (by omega)]
  have hvt : x'[t]?.getD 0 = x[t]?.getD 0 := by rw [hv t, if_neg (by omega)]
  rw [getD_setK _ ht', hvk, hvt]
  by_cases hat : a = t
  · subst hat
    rw [if_pos rfl, if_pos (by omega)]
  · rw [if_neg hat, hv a]
    ifs_omega

/-- (S) the forward-substitution loop of `solve` replays the recorded exchanges and multipliers -/
theorem solve_fwd_specK {n m1 : Nat} {al : Mat K} {index : Array Nat} {ea : Nat → Nat → K}
    (hal : Is al n m1 ea) (hsz : index.size = n)
    (hidx : ∀ k, k < n → k < idxf index k ∧ idxf index k ≤ min (m1 + k + 1) n) (hm : m1 ≤ n)
    (rhs : Array K) (hr : rhs.size = n) :
    ∃ st, forM' 0 n (rhs, m1) (fun (x, l) k => do
      let ik ← aget index k
      let j ← usub ik 1
      let x ← if j ≠ k then Vec.swap x k j else pure x
      let l := if l < n then l + 1 else l
      let x ← forM' (k + 1) l x (fun x j => do
        let xk ← aget x k
        let a ← al.get k (j - k - 1)
        let xj ← aget x j
        aset x j (xj - a * xk))
      pure (x, l)) = .ok st ∧ st.1.size = n ∧
      ∀ a, st.1[a]?.getD 0 = fwdK n m1 ea (idxf index) n (fun a => rhs[a]?.getD 0) a := by
  suffices key : ∃ st, forM' 0 n (rhs, m1) (fun (x, l) k => do
      let ik ← aget index k
      let j ← usub ik 1
      let x ← if j ≠ k then Vec.swap x k j else pure x
      let l := if l < n then l + 1 else l
      let x ← forM' (k + 1) l x (fun x j => do
        let xk ← aget x k
        let a ← al.get k (j - k - 1)
        let xj ← aget x j
        aset x j (xj - a * xk))
      pure (x, l)) = .ok st ∧ st.2 = min (m1 + n) n ∧ st.1.size = n ∧
      ∀ a, st.1[a]?.getD 0 = fwdK n m1 ea (idxf index) n (fun a => rhs[a]?.getD 0) a by
    obtain ⟨st, h1, _, h3, h4⟩ := key
    exact ⟨st, h1, h3, h4⟩
  refine forM'_inv (fun k (st : Array K × Nat) => st.2 = min (m1 + k) n ∧ st.1.size = n ∧
      ∀ a, st.1[a]?.getD 0 = fwdK n m1 ea (idxf index) k (fun a => rhs[a]?.getD 0) a)
    0 n (rhs, m1) _ (Nat.zero_le _) ⟨by simp only; omega, hr, fun a => rfl⟩ ?_
  intro k st _ hk ⟨h1, h2, h3⟩
  obtain ⟨x, l⟩ := st
  simp only at h1 h2 h3
  obtain ⟨hi1, hi2⟩ := hidx k hk
  have hki : k < index.size := by omega
  have g1 : aget index k = .ok (idxf index k) := by
    rw [aget_ok hki]; simp [idxf, hki]
  have g2 : usub (idxf index k) 1 = .ok (idxf index k - 1) := usub_ok (by omega)
  have hl' : (if l < n then l + 1 else l) = min (m1 + k + 1) n := by split <;> omega
  -- the exchange
  obtain ⟨x1, hx1, hs1, hv1⟩ : ∃ x1, (if idxf index k - 1 ≠ k then Vec.swap x k (idxf index k - 1)
      else pure x) = .ok x1 ∧ x1.size = n ∧
      ∀ a, x1[a]?.getD 0 = swapV (fun a => x[a]?.getD 0) k (idxf index k - 1) a := by
    by_cases hik : idxf index k - 1 ≠ k
    · obtain ⟨x1, e1, e2, e3⟩ := vswap_specK (x := x) (k := k) (j := idxf index k - 1)
        (by omega) (by omega)
      exact ⟨x1, by rw [if_pos hik, e1], by omega, e3⟩
    · refine ⟨x, by rw [if_neg hik]; rfl, h2, fun a => ?_⟩
      have : idxf index k - 1 = k := by omega
      rw [this]; unfold swapV
      by_cases hak : a = k
      · subst hak; simp
      · simp [hak]
  obtain ⟨x2, hx2, hs2, hv2⟩ := fwd_innerK hal x1 hs1 hk (l := min (m1 + k + 1) n) (by omega)
    (by omega) (by omega)
  refine ⟨(x2, min (m1 + k + 1) n), ?_, rfl, hs2, ?_⟩
  · simp only [bind, Except.bind, pure, Except.pure] at hx1 hx2 ⊢
    simp only [g1, g2, hl']
    by_cases hik : idxf index k - 1 ≠ k
    · rw [if_pos hik] at hx1 ⊢
      simp only [hx1, hx2]
    · rw [if_neg hik] at hx1 ⊢
      injection hx1 with hx1; subst hx1
      simp only [hx2]
  · intro a
    simp only [fwdK]
    rw [hv2 a, hv1 a, hv1 k]
    unfold fwdStepK
    have hfun : (fun a => x[a]?.getD 0) = fwdK n m1 ea (idxf index) k (fun a => rhs[a]?.getD 0) :=
      funext h3
    rw [hfun]

/-- the inner loop of the back substitution is the subtractive recurrence `Mat.sdot` -/
theorem back_dumK {au : Mat K} {n mm : Nat} {e : Nat → Nat → K} (hau : Is au n mm e) (x : Array K)
    (hx : x.size = n) {i l : Nat} (hi : i < n) (hl1 : 1 ≤ l) (hl : l ≤ mm) (hli : i + l ≤ n)
    (xi : K) :
    forM' 1 l xi (fun dum k => do
        let a ← au.get i k
        let xk ← aget x (k + i)
        pure (dum - a * xk))
      = .ok (Mat.sdot (fun k => e i k) (fun k => x[k + i]?.getD 0) xi 1 l) := by
  obtain ⟨r, h1, h2⟩ := forM'_inv
    (fun t (d : K) => d = Mat.sdot (fun k => e i k) (fun k => x[k + i]?.getD 0) xi 1 t)
    1 l xi (fun dum k => do
        let a ← au.get i k
        let xk ← aget x (k + i)
        pure (dum - a * xk)) hl1 (by rw [Mat.sdot_empty _ _ _ (Nat.le_refl _)]) (by
      intro t d ht1 ht2 hd
      have hlt : t + i < x.size := by omega
      refine ⟨d - e i t * x[t + i]?.getD 0, ?_, ?_⟩
      · simp only [hau.get hi (show t < mm by omega), aget_getDK hlt, bind, Except.bind, pure,
          Except.pure]
      · rw [Mat.sdot_succ _ _ _ ht1, hd])
  rw [h1, h2]

/-- (S) the back-substitution loop of `solve`, whenever it returns: every division succeeded and
component `a` of the result is the recurrence over the compact row followed by one division -/
theorem back_specK {au : Mat K} {n mm : Nat} {e : Nat → Nat → K} (hau : Is au n mm e)
    (hmm : 0 < mm) (x0 : Array K) (hx : x0.size = n) {st : Array K × Nat}
    (h : (List.range n).reverse.foldlM (fun (xl : Array K × Nat) i => do
        let xi ← aget xl.1 i
        let dum ← forM' 1 xl.2 xi (fun dum k => do
          let a ← au.get i k
          let xk ← aget xl.1 (k + i)
          pure (dum - a * xk))
        let p ← au.get i 0
        let q ← divM dum p
        let x ← aset xl.1 i q
        pure (x, if xl.2 < mm then xl.2 + 1 else xl.2)) (x0, 1) = .ok st) :
    st.1.size = n ∧ ∀ a, a < n →
      divM (Mat.sdot (fun k => e a k) (fun k => st.1[k + a]?.getD 0) (x0[a]?.getD 0) 1
        (min (n - a) mm)) (e a 0) = .ok (st.1[a]?.getD 0) := by
  have hQ := foldlM_rev_ok_inv
    (fun j (st : Array K × Nat) => st.1.size = n ∧ st.2 = min (n - j + 1) mm ∧
      (∀ a, a < j → st.1[a]? = x0[a]?) ∧
      ∀ a, j ≤ a → a < n →
        divM (Mat.sdot (fun k => e a k) (fun k => st.1[k + a]?.getD 0) (x0[a]?.getD 0) 1
          (min (n - a) mm)) (e a 0) = .ok (st.1[a]?.getD 0))
    _ n (x0, 1) st ⟨hx, by simp only; omega, fun _ _ => rfl, fun a h1 h2 => by omega⟩ (by
      intro i st s1 hi ⟨q1, q2, q3, q4⟩ hf
      obtain ⟨x, l⟩ := st
      simp only at q1 q2 q3 q4 hf
      have hix : i < x.size := by omega
      have hl : l = min (n - i) mm := by omega
      have hdum := back_dumK hau x q1 hi (l := l) (by omega) (by omega) (by omega)
        (x[i]?.getD 0)
      have hp := hau.get hi hmm
      simp only [bind, Except.bind, pure, Except.pure] at hdum hf
      simp only [aget_getDK hix, hdum, hp] at hf
      cases hq : divM (Mat.sdot (fun k => e i k) (fun k => x[k + i]?.getD 0) (x[i]?.getD 0) 1 l)
          (e i 0) with
      | error er => rw [hq] at hf; simp at hf
      | ok q =>
      rw [hq] at hf
      simp only [aset_ok _ hix] at hf
      injection hf with hf
      subst hf
      refine ⟨by simpa using q1, by simp only; split <;> omega, ?_, ?_⟩
      · intro a ha
        simp only [Array.getElem?_setIfInBounds]
        rw [if_neg (by omega)]
        exact q3 a (by omega)
      · intro a ha1 ha2
        simp only
        by_cases hai : a = i
        · subst hai
          rw [getD_setK _ hix, if_pos rfl, ← hq, ← hl]
          have hxa : x[a]?.getD 0 = x0[a]?.getD 0 := by rw [q3 a (by omega)]
          rw [← hxa]
          congr 1
          apply Mat.sdot_congr
          intro t ht1 ht2
          refine ⟨rfl, ?_⟩
          rw [getD_setK _ hix, if_neg (by omega)]
        · have := q4 a (by omega) ha2
          rw [getD_setK _ hix, if_neg hai, ← this]
          congr 1
          apply Mat.sdot_congr
          intro t ht1 ht2
          refine ⟨rfl, ?_⟩
          rw [getD_setK _ hix, if_neg (by omega)]) h
  obtain ⟨q1, _, _, q4⟩ := hQ
  exact ⟨q1, fun a ha => q4 a (Nat.zero_le _) ha⟩

end StructuralK

/-! ### one pivot step of `decompose` in `Fl M` -/

section DecF
variable {M : FlModel}

theorem Fl.divM_of_ne {a b : Fl M} (h : b.val ≠ 0) : divM a b = .ok (a / b) := by
  simp only [divM, ScalarExt.divM, h, if_false]

open Classical in
/-- the multiplier of row `i` against pivot row `k` as the code computes it in `Fl M`: the literal
zero for a zero pivot, the ROUNDED quotient otherwise -/
noncomputable def mulF (e : Nat → Nat → Fl M) (k i : Nat) : Fl M :=
  if (e k 0).val = 0 then 0 else e i 0 / e k 0

theorem dumR_F (e : Nat → Nat → Fl M) (k i : Nat) :
    dumR (e i 0) (e k 0) = .ok (mulF e k i) := by
  unfold dumR mulF
  by_cases hp : (e k 0).val = 0
  · have : (e k 0 == 0) = true := (Mat.Fl.beq_zero_iff _).mpr hp
    rw [if_pos this, if_pos hp]; rfl
  · have : ¬ (e k 0 == 0) = true := fun hc => hp ((Mat.Fl.beq_zero_iff _).mp hc)
    rw [if_neg this, if_neg hp, Fl.divM_of_ne hp]

theorem decElim_specF {au al : Mat (Fl M)} {n mm m1 : Nat} {e ea : Nat → Nat → Fl M}
    (hau : Is au n mm e) (hal : Is al n m1 ea) {k i : Nat} (hk : k < n) (hi : i < n) (hki : k < i)
    (him : i - k - 1 < m1) (hmm : 0 < mm) :
    ∃ au' al', decElim mm k (au, al) i = .ok (au', al') ∧
      Is au' n mm (fun a b => if a = i then
        (if b + 1 < mm then e i (b + 1) - mulF e k i * e k (b + 1) else 0) else e a b) ∧
      Is al' n m1 (fun a b => if a = k ∧ b = i - k - 1 then mulF e k i else ea a b) := by
  obtain ⟨au', al', h1, _, h3, h4⟩ := elimTail_spec hau hal hk hi hki him hmm (mulF e k i)
  refine ⟨au', al', ?_, h3, h4⟩
  rw [decElim_eq, hau.get hi hmm, hau.get hk hmm]
  simp only [bind, Except.bind, dumR_F]
  exact h1

/-- compact entries after eliminating rows `k < a < l` against pivot row `k` -/
noncomputable def elimEF (mm : Nat) (e : Nat → Nat → Fl M) (k l : Nat) : Nat → Nat → Fl M :=
  fun a b =>
    if k < a ∧ a < l then (if b + 1 < mm then e a (b + 1) - mulF e k a * e k (b + 1) else 0)
    else e a b

/-- stored multipliers after step `k` -/
noncomputable def elimAF (e ea : Nat → Nat → Fl M) (k l : Nat) : Nat → Nat → Fl M := fun a b =>
  if a = k ∧ b + k + 1 < l then mulF e k (b + k + 1) else ea a b

theorem elimLoop_specF {au al : Mat (Fl M)} {n mm m1 : Nat} {e ea : Nat → Nat → Fl M}
    (hau : Is au n mm e) (hal : Is al n m1 ea) {k l : Nat} (hk : k < n) (hkl : k + 1 ≤ l)
    (hln : l ≤ n) (hlm : l ≤ k + m1 + 1) (hmm : 0 < mm) :
    ∃ st, forM' (k + 1) l (au, al) (decElim mm k) = .ok st ∧
      Is st.1 n mm (elimEF mm e k l) ∧ Is st.2 n m1 (elimAF e ea k l) := by
  refine forM'_inv (fun t (st : Mat (Fl M) × Mat (Fl M)) => Is st.1 n mm (elimEF mm e k t) ∧
      Is st.2 n m1 (elimAF e ea k t)) (k + 1) l (au, al) _ hkl
    ⟨hau.congr (fun a b _ _ => by unfold elimEF; ifs_omega),
     hal.congr (fun a b _ _ => by unfold elimAF; ifs_omega)⟩ ?_
  intro t st ht1 ht2 ⟨h1, h2⟩
  obtain ⟨au1, al1⟩ := st
  simp only at h1 h2
  obtain ⟨au', al', hs, hI1, hI2⟩ := decElim_specF h1 h2 hk (show t < n by omega) (by omega)
    (by omega) hmm
  have r1 : ∀ b, elimEF mm e k t t b = e t b := by
    intro b; unfold elimEF; rw [if_neg (by omega)]
  have r2 : ∀ b, elimEF mm e k t k b = e k b := by
    intro b; unfold elimEF; rw [if_neg (by omega)]
  have r3 : mulF (elimEF mm e k t) k t = mulF e k t := by
    unfold mulF; rw [r1, r2]
  refine ⟨(au', al'), hs, hI1.congr ?_, hI2.congr ?_⟩
  · intro a b _ _
    simp only [r1, r2, r3]
    unfold elimEF
    ifs_omega
  · intro a b _ _
    simp only [r3]
    unfold elimAF
    by_cases hab : a = k ∧ b = t - k - 1
    · obtain ⟨rfl, rfl⟩ := hab
      have e1 : t - a - 1 + a + 1 = t := by omega
      simp [e1]
    · rw [if_neg hab]
      ifs_omega

/-- the pivot search in `Fl M` (comparisons and `mag` are exact) returns a row `ip` of the window
`[k, l)` of maximal magnitude together with its first slot -/
theorem pivotLoop_maxF {au : Mat (Fl M)} {n mm : Nat} {e : Nat → Nat → Fl M} (hau : Is au n mm e)
    {k l : Nat} (hkl : k + 1 ≤ l) (hln : l ≤ n) (hmm : 0 < mm) :
    ∃ ip, k ≤ ip ∧ ip < l ∧ (∀ j, k ≤ j → j < l → |(e j 0).val| ≤ |(e ip 0).val|) ∧
      forM' (k + 1) l (e k 0, k) (pivBody au) = .ok (e ip 0, ip) := by
  suffices key : ∃ st, forM' (k + 1) l (e k 0, k) (pivBody au) = .ok st ∧ st.1 = e st.2 0 ∧
      k ≤ st.2 ∧ st.2 < l ∧ ∀ j, k ≤ j → j < l → |(e j 0).val| ≤ |st.1.val| by
    obtain ⟨⟨d, ip⟩, h1, h2, h3, h4, h5⟩ := key
    simp only at h2 h3 h4 h5
    subst h2
    exact ⟨ip, h3, h4, h5, h1⟩
  refine forM'_inv (fun t (st : Fl M × Nat) => st.1 = e st.2 0 ∧ k ≤ st.2 ∧ st.2 < t ∧
      ∀ j, k ≤ j → j < t → |(e j 0).val| ≤ |st.1.val|) (k + 1) l
    (e k 0, k) _ hkl ⟨rfl, Nat.le_refl _, by simp, ?_⟩ ?_
  · intro j hj1 hj2
    have : j = k := by omega
    subst this; exact le_refl _
  intro t st ht1 ht2 ⟨h1, h2, h3, h4⟩
  obtain ⟨d, ip⟩ := st
  simp only at h1 h2 h3 h4
  have g := hau.get (show t < n by omega) hmm
  unfold pivBody
  simp only [g, bind, Except.bind]
  by_cases hlt : |d.val| < |(e t 0).val|
  · have hl : ScalarExt.lt (ScalarExt.mag d) (ScalarExt.mag (e t 0)) = true := by
      rw [Mat.Fl.lt_iff, Fl.mag_val, Fl.mag_val]; exact hlt
    refine ⟨(e t 0, t), by simp only [hl, if_true, pure, Except.pure], rfl, by simp only; omega,
      by simp only; omega, ?_⟩
    intro j hj1 hj2
    simp only
    by_cases hjt : j = t
    · subst hjt; exact le_refl _
    · exact le_of_lt (lt_of_le_of_lt (h4 j hj1 (by omega)) hlt)
  · have hl : ¬ ScalarExt.lt (ScalarExt.mag d) (ScalarExt.mag (e t 0)) = true := by
      rw [Mat.Fl.lt_iff, Fl.mag_val, Fl.mag_val]; exact hlt
    refine ⟨(d, ip), by simp [hl, pure, Except.pure], h1, h2, by simp only; omega,
      ?_⟩
    intro j hj1 hj2
    simp only
    by_cases hjt : j = t
    · subst hjt; exact not_lt.mp hlt
    · exact h4 j hj1 (by omega)

theorem swapR_self' {K : Type} (e : Nat → Nat → K) (k a b : Nat) : swapR e k k a b = e a b := by
  unfold swapR
  by_cases ha : a = k
  · subst ha; simp
  · simp [ha]

/-- **one pivot step of `decompose` in `Fl M`**: it never fails; `ip` is the chosen pivot row (of
maximal magnitude in the window), the rows `k` and `ip` are exchanged, the rows of the window are
eliminated with the rounded multipliers `mulF`, which are stored in row `k` of `al` -/
theorem decStep_specF {s : Dec (Fl M)} {n mm m1 l k : Nat} {e ea : Nat → Nat → Fl M}
    (hau : Is s.au n mm e) (hal : Is s.al n m1 ea) (hidx : s.index.size = n) (hk : k < n)
    (hmm : 0 < mm) (hl : l = min (m1 + k) n) :
    ∃ ip au' al', k ≤ ip ∧ ip < min (m1 + k + 1) n ∧
      (∀ j, k ≤ j → j < min (m1 + k + 1) n → |(e j 0).val| ≤ |(e ip 0).val|) ∧
      decStep n mm (s, l) k = .ok (⟨au', al', s.index.setIfInBounds k (ip + 1),
        if ip ≠ k then -s.d else s.d⟩, min (m1 + k + 1) n) ∧
      Is au' n mm (elimEF mm (swapR e k ip) k (min (m1 + k + 1) n)) ∧
      Is al' n m1 (elimAF (swapR e k ip) ea k (min (m1 + k + 1) n)) := by
  have hl' : (if l < n then l + 1 else l) = min (m1 + k + 1) n := by split <;> omega
  have g0 := hau.get hk hmm
  obtain ⟨ip, hip1, hip2, hmax, hpiv⟩ := pivotLoop_maxF hau (k := k) (l := min (m1 + k + 1) n)
    (by omega) (by omega) hmm
  have hipn : ip < n := by omega
  -- zero fix: a zero pivot of maximal magnitude means that slot `(k, 0)` is zero already
  obtain ⟨au0, h0, hI0⟩ : ∃ au0, (if (e ip 0 == 0) = true then s.au.set k 0 0 else pure s.au)
      = .ok au0 ∧ Is au0 n mm e := by
    by_cases hz : (e ip 0 == 0) = true
    · obtain ⟨v, hv, hI⟩ := hau.set hk hmm (0 : Fl M)
      refine ⟨v, by rw [if_pos hz, hv], hI.congr (fun a b _ _ => ?_)⟩
      by_cases hab : a = k ∧ b = 0
      · obtain ⟨rfl, rfl⟩ := hab
        rw [if_pos ⟨rfl, rfl⟩]
        have h1 := hmax a (Nat.le_refl _) (by omega)
        rw [(Mat.Fl.beq_zero_iff _).mp hz, abs_zero] at h1
        exact (Fl.ext (abs_nonpos_iff.mp h1)).symm
      · rw [if_neg hab]
    · exact ⟨s.au, by rw [if_neg hz]; rfl, hau⟩
  -- exchange
  obtain ⟨au1, h1, hI1⟩ : ∃ au1, (if ip ≠ k then (do
        let au ← forM' 0 mm au0 (fun au j => Mat.swapElem au k j ip j)
        pure (au, -s.d)) else pure (au0, s.d)) = .ok (au1, if ip ≠ k then -s.d else s.d) ∧
      Is au1 n mm (swapR e k ip) := by
    by_cases hik : ip = k
    · refine ⟨au0, by simp [hik, pure, Except.pure], hI0.congr (fun a b _ _ => ?_)⟩
      subst hik; exact (swapR_self' e ip a b).symm
    · have := Mat.swapRows_spec hI0 hk hipn
      have hg : ¬ (n ≤ k ∨ n ≤ ip) := by omega
      simp only [Mat.swapRows, hI0.rows, hI0.cols, hg, if_false] at this
      obtain ⟨au1, g1, I1⟩ := this
      exact ⟨au1, by simp [hik, g1, bind, Except.bind, pure, Except.pure], I1⟩
  obtain ⟨st, h2, hI2, hI3⟩ := elimLoop_specF hI1 hal hk (l := min (m1 + k + 1) n) (by omega)
    (by omega) (by omega) hmm
  obtain ⟨au2, al2⟩ := st
  refine ⟨ip, au2, al2, hip1, hip2, hmax, ?_, hI2, hI3⟩
  rw [decStep_eq, hl', g0]
  simp only [bind, Except.bind, pure, Except.pure] at hpiv h0 h1 h2 ⊢
  simp only [hpiv, aset_ok _ (show k < s.index.size by omega), h0, h1, h2]

end DecF

end Band
end Ohsl
