/-
  Ohsl.Lemmas.BandRounding — backward error analysis of the banded solver (`Band.decompose` =
  `bandec`, `Band.solve` = `banbks`) in the "rounded reals" interpretation `Fl M`
  (Ohsl/Lemmas/Rounding.lean).  Helper file of Ohsl/Props/C04F.lean (read its header first).

  Contents
  * (S) generic copies of the structural pieces of BandSpec.lean that are stated there for a
        field only: `twinK` (dense twin of the compact working storage), `fwdK` (replay of the
        recorded exchanges and multipliers on a vector), `solve_fwd_specK`, `back_sdot`.
  * (F) `mulF`, `elimEF`, `elimAF`, `decStep_specF`: functional description of one pivot step of
        `decompose` in `Fl M`, with the maximality of the pivot.
  * `TRel` : the relation `β = Σ_{t<ρ} l_t v_t θ_t + v_r θ₀` with perturbation factors, and its
        three moves `TRel.upd` (a rounded multiply–subtract), `TRel.kill` (the eliminated entry),
        `TRel.skip`.
  * `pik`, `sig`, `Lt`, `age` : the row permutation, the unit lower factor in `P·B = L̂·Û` form and
        the number of elimination steps a row went through, all replayed from `(al, index)`.
  * `DecInvF`, `decStep_invF`, `decompose_invF` : the invariant of the pivot loop.
  * `VInv`, `fwd_invF` : the same for the right-hand side (forward substitution).
  * `back_backwardF` : back substitution on the compact upper factor.
  * `lu_compose_row` : the composition (pure real algebra, row-dependent constants).
-/
import Ohsl.Lemmas.BandSpec
import Ohsl.Lemmas.LURounding
import Mathlib.Algebra.BigOperators.Group.Finset.Basic
import Mathlib.Algebra.BigOperators.Ring.Finset
import Mathlib.Algebra.BigOperators.Intervals
import Mathlib.Algebra.Order.BigOperators.Group.Finset
import Mathlib.Tactic.Ring
import Mathlib.Tactic.Linarith
import Mathlib.Tactic.Positivity
import Mathlib.Tactic.FieldSimp
set_option linter.unusedSectionVars false
set_option linter.unusedVariables false
set_option linter.unusedSimpArgs false
namespace Ohsl
namespace Band
open Mat (forM' Is forM'_inv aget_ok aset_ok aget_eq_ok swapIdx PermOK)

/-! ### structural pieces, any scalar type -/

section TwinK
variable {K : Type} [Zero K]

/-- dense twin of the compact working matrix before step `k` (`twin` of BandSpec, any scalar) -/
def twinK (m1 mm k l : Nat) (e : Nat → Nat → K) (i c : Nat) : K :=
  if off m1 k l i ≤ c ∧ c < off m1 k l i + mm then e i (c - off m1 k l i) else 0

theorem twinK_window {n m1 mm k : Nat} (e : Nat → Nat → K) {a : Nat} (ha : a < n) (c : Nat) :
    twinK m1 mm k (min (m1 + k) n) e a c = twinK m1 mm k (min (m1 + k + 1) n) e a c := by
  have : off m1 k (min (m1 + k) n) a = off m1 k (min (m1 + k + 1) n) a := by
    unfold off; ifs_omega
  unfold twinK; rw [this]

theorem twinK_swap {m1 mm k l ip : Nat} (e : Nat → Nat → K) (hk : k < l) (h1 : k ≤ ip)
    (h2 : ip < l) (a c : Nat) :
    twinK m1 mm k l (swapR e k ip) a c = swapR (twinK m1 mm k l e) k ip a c := by
  have o1 : off m1 k l k = k := by unfold off; ifs_omega
  have o2 : off m1 k l ip = k := by unfold off; ifs_omega
  unfold swapR
  by_cases hak : a = k
  · subst hak
    simp only [twinK, if_true, o1, o2]
  · by_cases hai : a = ip
    · subst hai
      simp only [twinK, hak, if_false, if_true, o1, o2]
    · simp only [twinK, hak, hai, if_false]

theorem twinK_congr {n m1 mm k l : Nat} {e e' : Nat → Nat → K}
    (h : ∀ a b, a < n → b < mm → e' a b = e a b) {a : Nat} (ha : a < n) (c : Nat) :
    twinK m1 mm k l e' a c = twinK m1 mm k l e a c := by
  unfold twinK
  by_cases hc : off m1 k l a ≤ c ∧ c < off m1 k l a + mm
  · rw [if_pos hc, if_pos hc, h a _ ha (by omega)]
  · rw [if_neg hc, if_neg hc]

/-- the dense twin of the compact matrix after the first phase is the dense twin of `b` -/
theorem twinK_zero {b : Band K} (h : WFb b) {a c : Nat} (ha : a < b.n) (hc : c < b.n) :
    twinK b.m1 (b.m1 + b.m2 + 1) 0 b.m1 (shifted b.m1 b.m2 (Mat.entryOf b.compact)) a c =
      dense b a c := by
  have o : off b.m1 0 b.m1 a = a - b.m1 := by
    unfold off
    rw [if_neg (by omega)]
    split
    · omega
    · rfl
  unfold twinK
  rw [o]
  by_cases hw : a - b.m1 ≤ c ∧ c < a - b.m1 + (b.m1 + b.m2 + 1)
  · rw [if_pos hw]
    by_cases ht : (c - (a - b.m1)) + (b.m1 - a) < b.m1 + b.m2 + 1
    · rw [shifted_dense h ha ht (by omega)]
      congr 1; omega
    · rw [dense_out (by unfold inBand; omega)]
      unfold shifted
      rw [if_pos (by omega), if_neg ht]
  · rw [if_neg hw, dense_out (by unfold inBand; omega)]

end TwinK

section StructuralK
variable {K : Type} [Add K] [Sub K] [Mul K] [Neg K] [Zero K] [One K] [BEq K] [ScalarExt K]

/-- one forward step on a vector: exchange `k ↔ ip`, then subtract the stored multiples -/
def fwdStepK (ea : Nat → Nat → K) (k l ip : Nat) (y : Nat → K) : Nat → K := fun a =>
  if k < a ∧ a < l then swapV y k ip a - ea k (a - k - 1) * swapV y k ip k else swapV y k ip a

/-- the first `k` forward steps (`fwd` of BandSpec, any scalar) -/
def fwdK (n m1 : Nat) (ea : Nat → Nat → K) (idx : Nat → Nat) : Nat → (Nat → K) → (Nat → K)
  | 0, y => y
  | k + 1, y => fwdStepK ea k (min (m1 + k + 1) n) (idx k - 1) (fwdK n m1 ea idx k y)

theorem getD_setK {x : Array K} {i : Nat} (v : K) (h : i < x.size) (a : Nat) :
    (x.setIfInBounds i v)[a]?.getD 0 = if a = i then v else x[a]?.getD 0 := by
  rw [Array.getElem?_setIfInBounds]
  by_cases hai : a = i
  · subst hai; simp [h]
  · rw [if_neg (fun e => hai e.symm), if_neg hai]

theorem aget_getDK {x : Array K} {i : Nat} (h : i < x.size) : aget x i = .ok (x[i]?.getD 0) := by
  rw [aget_ok h]; simp [h]

theorem vswap_specK {x : Array K} {k j : Nat} (hk : k < x.size) (hj : j < x.size) :
    ∃ x', Vec.swap x k j = .ok x' ∧ x'.size = x.size ∧
      ∀ a, x'[a]?.getD 0 = swapV (fun a => x[a]?.getD 0) k j a := by
  have hk' : k < (x.setIfInBounds k (x[j]?.getD 0)).size := by simpa using hk
  have hj' : j < (x.setIfInBounds k (x[j]?.getD 0)).size := by simpa using hj
  refine ⟨(x.setIfInBounds k (x[j]?.getD 0)).setIfInBounds j (x[k]?.getD 0), ?_, by simp, ?_⟩
  · simp only [Vec.swap, aget_getDK hk, aget_getDK hj, aset_ok _ hk, aset_ok _ hj', bind,
      Except.bind]
  · intro a
    rw [getD_setK _ hj', getD_setK _ hk]
    unfold swapV
    by_cases h1 : a = j
    · subst h1
      by_cases h2 : a = k
      · subst h2; simp
      · simp [h2]
    · simp [h1]

/-- inner loop of the forward substitution -/
theorem fwd_innerK {al : Mat K} {n m1 : Nat} {ea : Nat → Nat → K} (hal : Is al n m1 ea)
    (x : Array K) (hx : x.size = n) {k l : Nat} (hk : k < n) (hkl : k + 1 ≤ l) (hln : l ≤ n)
    (hlm : l ≤ m1 + k + 1) :
    ∃ x', forM' (k + 1) l x (fun x j => do
        let xk ← aget x k
        let a ← al.get k (j - k - 1)
        let xj ← aget x j
        aset x j (xj - a * xk)) = .ok x' ∧ x'.size = n ∧
      ∀ a, x'[a]?.getD 0 = if k < a ∧ a < l then
        x[a]?.getD 0 - ea k (a - k - 1) * x[k]?.getD 0 else x[a]?.getD 0 := by
  refine forM'_inv (fun t (x' : Array K) => x'.size = n ∧
      ∀ a, x'[a]?.getD 0 = if k < a ∧ a < t then
        x[a]?.getD 0 - ea k (a - k - 1) * x[k]?.getD 0 else x[a]?.getD 0)
    (k + 1) l x _ hkl ⟨hx, fun a => by rw [if_neg (by omega)]⟩ ?_
  intro t x' ht1 ht2 ⟨hs, hv⟩
  have hk' : k < x'.size := by omega
  have ht' : t < x'.size := by omega
  have g := hal.get hk (show t - k - 1 < m1 by omega)
  refine ⟨x'.setIfInBounds t (x'[t]?.getD 0 - ea k (t - k - 1) * x'[k]?.getD 0),
    by simp only [aget_getDK hk', aget_getDK ht', g, aset_ok _ ht', bind, Except.bind],
    by simpa using hs, ?_⟩
  intro a
  have hvk : x'[k]?.getD 0 = x[k]?.getD 0 := by rw [hv k, if_neg (by omega)]
  have hvt : x'[t]?.getD 0 = x[t]?.getD 0 := by rw [hv t, if_neg (by omega)]
  rw [getD_setK _ ht', hvk, hvt]
  by_cases hat : a = t
  · subst hat
    rw [if_pos rfl, if_pos (by omega)]
  · rw [if_neg hat, hv a]
    ifs_omega

/-- (S) the forward-substitution loop of `solve` replays the recorded exchanges and multipliers -/
theorem solve_fwd_specK {n m1 : Nat} {al : Mat K} {index : Array Nat} {ea : Nat → Nat → K}
    (hal : Is al n m1 ea) (hsz : index.size = n)
    (hidx : ∀ k, k < n → k < idxf index k ∧ idxf index k ≤ min (m1 + k + 1) n) (hm : m1 ≤ n)
    (rhs : Array K) (hr : rhs.size = n) :
    ∃ st, forM' 0 n (rhs, m1) (fun (x, l) k => do
      let ik ← aget index k
      let j ← usub ik 1
      let x ← if j ≠ k then Vec.swap x k j else pure x
      let l := if l < n then l + 1 else l
      let x ← forM' (k + 1) l x (fun x j => do
        let xk ← aget x k
        let a ← al.get k (j - k - 1)
        let xj ← aget x j
        aset x j (xj - a * xk))
      pure (x, l)) = .ok st ∧ st.1.size = n ∧
      ∀ a, st.1[a]?.getD 0 = fwdK n m1 ea (idxf index) n (fun a => rhs[a]?.getD 0) a := by
  suffices key : ∃ st, forM' 0 n (rhs, m1) (fun (x, l) k => do
      let ik ← aget index k
      let j ← usub ik 1
      let x ← if j ≠ k then Vec.swap x k j else pure x
      let l := if l < n then l + 1 else l
      let x ← forM' (k + 1) l x (fun x j => do
        let xk ← aget x k
        let a ← al.get k (j - k - 1)
        let xj ← aget x j
        aset x j (xj - a * xk))
      pure (x, l)) = .ok st ∧ st.2 = min (m1 + n) n ∧ st.1.size = n ∧
      ∀ a, st.1[a]?.getD 0 = fwdK n m1 ea (idxf index) n (fun a => rhs[a]?.getD 0) a by
    obtain ⟨st, h1, _, h3, h4⟩ := key
    exact ⟨st, h1, h3, h4⟩
  refine forM'_inv (fun k (st : Array K × Nat) => st.2 = min (m1 + k) n ∧ st.1.size = n ∧
      ∀ a, st.1[a]?.getD 0 = fwdK n m1 ea (idxf index) k (fun a => rhs[a]?.getD 0) a)
    0 n (rhs, m1) _ (Nat.zero_le _) ⟨by simp only; omega, hr, fun a => rfl⟩ ?_
  intro k st _ hk ⟨h1, h2, h3⟩
  obtain ⟨x, l⟩ := st
  simp only at h1 h2 h3
  obtain ⟨hi1, hi2⟩ := hidx k hk
  have hki : k < index.size := by omega
  have g1 : aget index k = .ok (idxf index k) := by
    rw [aget_ok hki]; simp [idxf, hki]
  have g2 : usub (idxf index k) 1 = .ok (idxf index k - 1) := usub_ok (by omega)
  have hl' : (if l < n then l + 1 else l) = min (m1 + k + 1) n := by split <;> omega
  -- the exchange
  obtain ⟨x1, hx1, hs1, hv1⟩ : ∃ x1, (if idxf index k - 1 ≠ k then Vec.swap x k (idxf index k - 1)
      else pure x) = .ok x1 ∧ x1.size = n ∧
      ∀ a, x1[a]?.getD 0 = swapV (fun a => x[a]?.getD 0) k (idxf index k - 1) a := by
    by_cases hik : idxf index k - 1 ≠ k
    · obtain ⟨x1, e1, e2, e3⟩ := vswap_specK (x := x) (k := k) (j := idxf index k - 1)
        (by omega) (by omega)
      exact ⟨x1, by rw [if_pos hik, e1], by omega, e3⟩
    · refine ⟨x, by rw [if_neg hik]; rfl, h2, fun a => ?_⟩
      have : idxf index k - 1 = k := by omega
      rw [this]; unfold swapV
      by_cases hak : a = k
      · subst hak; simp
      · simp [hak]
  obtain ⟨x2, hx2, hs2, hv2⟩ := fwd_innerK hal x1 hs1 hk (l := min (m1 + k + 1) n) (by omega)
    (by omega) (by omega)
  refine ⟨(x2, min (m1 + k + 1) n), ?_, rfl, hs2, ?_⟩
  · simp only [bind, Except.bind, pure, Except.pure] at hx1 hx2 ⊢
    simp only [g1, g2, hl']
    by_cases hik : idxf index k - 1 ≠ k
    · rw [if_pos hik] at hx1 ⊢
      simp only [hx1, hx2]
    · rw [if_neg hik] at hx1 ⊢
      injection hx1 with hx1; subst hx1
      simp only [hx2]
  · intro a
    simp only [fwdK]
    rw [hv2 a, hv1 a, hv1 k]
    unfold fwdStepK
    have hfun : (fun a => x[a]?.getD 0) = fwdK n m1 ea (idxf index) k (fun a => rhs[a]?.getD 0) :=
      funext h3
    rw [hfun]

/-- the inner loop of the back substitution is the subtractive recurrence `Mat.sdot` -/
theorem back_dumK {au : Mat K} {n mm : Nat} {e : Nat → Nat → K} (hau : Is au n mm e) (x : Array K)
    (hx : x.size = n) {i l : Nat} (hi : i < n) (hl1 : 1 ≤ l) (hl : l ≤ mm) (hli : i + l ≤ n)
    (xi : K) :
    forM' 1 l xi (fun dum k => do
        let a ← au.get i k
        let xk ← aget x (k + i)
        pure (dum - a * xk))
      = .ok (Mat.sdot (fun k => e i k) (fun k => x[k + i]?.getD 0) xi 1 l) := by
  obtain ⟨r, h1, h2⟩ := forM'_inv
    (fun t (d : K) => d = Mat.sdot (fun k => e i k) (fun k => x[k + i]?.getD 0) xi 1 t)
    1 l xi (fun dum k => do
        let a ← au.get i k
        let xk ← aget x (k + i)
        pure (dum - a * xk)) hl1 (by rw [Mat.sdot_empty _ _ _ (Nat.le_refl _)]) (by
      intro t d ht1 ht2 hd
      have hlt : t + i < x.size := by omega
      refine ⟨d - e i t * x[t + i]?.getD 0, ?_, ?_⟩
      · simp only [hau.get hi (show t < mm by omega), aget_getDK hlt, bind, Except.bind, pure,
          Except.pure]
      · rw [Mat.sdot_succ _ _ _ ht1, hd])
  rw [h1, h2]

/-- (S) the back-substitution loop of `solve`, whenever it returns: every division succeeded and
component `a` of the result is the recurrence over the compact row followed by one division -/
theorem back_specK {au : Mat K} {n mm : Nat} {e : Nat → Nat → K} (hau : Is au n mm e)
    (hmm : 0 < mm) (x0 : Array K) (hx : x0.size = n) {st : Array K × Nat}
    (h : (List.range n).reverse.foldlM (fun (xl : Array K × Nat) i => do
        let xi ← aget xl.1 i
        let dum ← forM' 1 xl.2 xi (fun dum k => do
          let a ← au.get i k
          let xk ← aget xl.1 (k + i)
          pure (dum - a * xk))
        let p ← au.get i 0
        let q ← divM dum p
        let x ← aset xl.1 i q
        pure (x, if xl.2 < mm then xl.2 + 1 else xl.2)) (x0, 1) = .ok st) :
    st.1.size = n ∧ ∀ a, a < n →
      divM (Mat.sdot (fun k => e a k) (fun k => st.1[k + a]?.getD 0) (x0[a]?.getD 0) 1
        (min (n - a) mm)) (e a 0) = .ok (st.1[a]?.getD 0) := by
  have hQ := foldlM_rev_ok_inv
    (fun j (st : Array K × Nat) => st.1.size = n ∧ st.2 = min (n - j + 1) mm ∧
      (∀ a, a < j → st.1[a]? = x0[a]?) ∧
      ∀ a, j ≤ a → a < n →
        divM (Mat.sdot (fun k => e a k) (fun k => st.1[k + a]?.getD 0) (x0[a]?.getD 0) 1
          (min (n - a) mm)) (e a 0) = .ok (st.1[a]?.getD 0))
    _ n (x0, 1) st ⟨hx, by simp only; omega, fun _ _ => rfl, fun a h1 h2 => by omega⟩ (by
      intro i st s1 hi ⟨q1, q2, q3, q4⟩ hf
      obtain ⟨x, l⟩ := st
      simp only at q1 q2 q3 q4 hf
      have hix : i < x.size := by omega
      have hl : l = min (n - i) mm := by omega
      have hdum := back_dumK hau x q1 hi (l := l) (by omega) (by omega) (by omega)
        (x[i]?.getD 0)
      have hp := hau.get hi hmm
      simp only [bind, Except.bind, pure, Except.pure] at hdum hf
      simp only [aget_getDK hix, hdum, hp] at hf
      cases hq : divM (Mat.sdot (fun k => e i k) (fun k => x[k + i]?.getD 0) (x[i]?.getD 0) 1 l)
          (e i 0) with
      | error er => rw [hq] at hf; simp at hf
      | ok q =>
      rw [hq] at hf
      simp only [aset_ok _ hix] at hf
      injection hf with hf
      subst hf
      refine ⟨by simpa using q1, by simp only; split <;> omega, ?_, ?_⟩
      · intro a ha
        simp only [Array.getElem?_setIfInBounds]
        rw [if_neg (by omega)]
        exact q3 a (by omega)
      · intro a ha1 ha2
        simp only
        by_cases hai : a = i
        · subst hai
          rw [getD_setK _ hix, if_pos rfl, ← hq, ← hl]
          have hxa : x[a]?.getD 0 = x0[a]?.getD 0 := by rw [q3 a (by omega)]
          rw [← hxa]
          congr 1
          apply Mat.sdot_congr
          intro t ht1 ht2
          refine ⟨rfl, ?_⟩
          rw [getD_setK _ hix, if_neg (by omega)]
        · have := q4 a (by omega) ha2
          rw [getD_setK _ hix, if_neg hai, ← this]
          congr 1
          apply Mat.sdot_congr
          intro t ht1 ht2
          refine ⟨rfl, ?_⟩
          rw [getD_setK _ hix, if_neg (by omega)]) h
  obtain ⟨q1, _, _, q4⟩ := hQ
  exact ⟨q1, fun a ha => q4 a (Nat.zero_le _) ha⟩

end StructuralK

/-! ### one pivot step of `decompose` in `Fl M` -/

section DecF
variable {M : FlModel}

theorem Fl.divM_of_ne {a b : Fl M} (h : b.val ≠ 0) : divM a b = .ok (a / b) := by
  simp only [divM, ScalarExt.divM, h, if_false]

open Classical in
/-- the multiplier of row `i` against pivot row `k` as the code computes it in `Fl M`: the literal
zero for a zero pivot, the ROUNDED quotient otherwise -/
noncomputable def mulF (e : Nat → Nat → Fl M) (k i : Nat) : Fl M :=
  if (e k 0).val = 0 then 0 else e i 0 / e k 0

theorem dumR_F (e : Nat → Nat → Fl M) (k i : Nat) :
    dumR (e i 0) (e k 0) = .ok (mulF e k i) := by
  unfold dumR mulF
  by_cases hp : (e k 0).val = 0
  · have : (e k 0 == 0) = true := (Mat.Fl.beq_zero_iff _).mpr hp
    rw [if_pos this, if_pos hp]; rfl
  · have : ¬ (e k 0 == 0) = true := fun hc => hp ((Mat.Fl.beq_zero_iff _).mp hc)
    rw [if_neg this, if_neg hp, Fl.divM_of_ne hp]

theorem decElim_specF {au al : Mat (Fl M)} {n mm m1 : Nat} {e ea : Nat → Nat → Fl M}
    (hau : Is au n mm e) (hal : Is al n m1 ea) {k i : Nat} (hk : k < n) (hi : i < n) (hki : k < i)
    (him : i - k - 1 < m1) (hmm : 0 < mm) :
    ∃ au' al', decElim mm k (au, al) i = .ok (au', al') ∧
      Is au' n mm (fun a b => if a = i then
        (if b + 1 < mm then e i (b + 1) - mulF e k i * e k (b + 1) else 0) else e a b) ∧
      Is al' n m1 (fun a b => if a = k ∧ b = i - k - 1 then mulF e k i else ea a b) := by
  obtain ⟨au', al', h1, _, h3, h4⟩ := elimTail_spec hau hal hk hi hki him hmm (mulF e k i)
  refine ⟨au', al', ?_, h3, h4⟩
  rw [decElim_eq, hau.get hi hmm, hau.get hk hmm]
  simp only [bind, Except.bind, dumR_F]
  exact h1

/-- compact entries after eliminating rows `k < a < l` against pivot row `k` -/
noncomputable def elimEF (mm : Nat) (e : Nat → Nat → Fl M) (k l : Nat) : Nat → Nat → Fl M :=
  fun a b =>
    if k < a ∧ a < l then (if b + 1 < mm then e a (b + 1) - mulF e k a * e k (b + 1) else 0)
    else e a b

/-- stored multipliers after step `k` -/
noncomputable def elimAF (e ea : Nat → Nat → Fl M) (k l : Nat) : Nat → Nat → Fl M := fun a b =>
  if a = k ∧ b + k + 1 < l then mulF e k (b + k + 1) else ea a b

theorem elimLoop_specF {au al : Mat (Fl M)} {n mm m1 : Nat} {e ea : Nat → Nat → Fl M}
    (hau : Is au n mm e) (hal : Is al n m1 ea) {k l : Nat} (hk : k < n) (hkl : k + 1 ≤ l)
    (hln : l ≤ n) (hlm : l ≤ k + m1 + 1) (hmm : 0 < mm) :
    ∃ st, forM' (k + 1) l (au, al) (decElim mm k) = .ok st ∧
      Is st.1 n mm (elimEF mm e k l) ∧ Is st.2 n m1 (elimAF e ea k l) := by
  refine forM'_inv (fun t (st : Mat (Fl M) × Mat (Fl M)) => Is st.1 n mm (elimEF mm e k t) ∧
      Is st.2 n m1 (elimAF e ea k t)) (k + 1) l (au, al) _ hkl
    ⟨hau.congr (fun a b _ _ => by unfold elimEF; ifs_omega),
     hal.congr (fun a b _ _ => by unfold elimAF; ifs_omega)⟩ ?_
  intro t st ht1 ht2 ⟨h1, h2⟩
  obtain ⟨au1, al1⟩ := st
  simp only at h1 h2
  obtain ⟨au', al', hs, hI1, hI2⟩ := decElim_specF h1 h2 hk (show t < n by omega) (by omega)
    (by omega) hmm
  have r1 : ∀ b, elimEF mm e k t t b = e t b := by
    intro b; unfold elimEF; rw [if_neg (by omega)]
  have r2 : ∀ b, elimEF mm e k t k b = e k b := by
    intro b; unfold elimEF; rw [if_neg (by omega)]
  have r3 : mulF (elimEF mm e k t) k t = mulF e k t := by
    unfold mulF; rw [r1, r2]
  refine ⟨(au', al'), hs, hI1.congr ?_, hI2.congr ?_⟩
  · intro a b _ _
    simp only [r1, r2, r3]
    unfold elimEF
    ifs_omega
  · intro a b _ _
    simp only [r3]
    unfold elimAF
    by_cases hab : a = k ∧ b = t - k - 1
    · obtain ⟨rfl, rfl⟩ := hab
      have e1 : t - a - 1 + a + 1 = t := by omega
      simp [e1]
    · rw [if_neg hab]
      ifs_omega

/-- the pivot search in `Fl M` (comparisons and `mag` are exact) returns a row `ip` of the window
`[k, l)` of maximal magnitude together with its first slot -/
theorem pivotLoop_maxF {au : Mat (Fl M)} {n mm : Nat} {e : Nat → Nat → Fl M} (hau : Is au n mm e)
    {k l : Nat} (hkl : k + 1 ≤ l) (hln : l ≤ n) (hmm : 0 < mm) :
    ∃ ip, k ≤ ip ∧ ip < l ∧ (∀ j, k ≤ j → j < l → |(e j 0).val| ≤ |(e ip 0).val|) ∧
      forM' (k + 1) l (e k 0, k) (pivBody au) = .ok (e ip 0, ip) := by
  suffices key : ∃ st, forM' (k + 1) l (e k 0, k) (pivBody au) = .ok st ∧ st.1 = e st.2 0 ∧
      k ≤ st.2 ∧ st.2 < l ∧ ∀ j, k ≤ j → j < l → |(e j 0).val| ≤ |st.1.val| by
    obtain ⟨⟨d, ip⟩, h1, h2, h3, h4, h5⟩ := key
    simp only at h2 h3 h4 h5
    subst h2
    exact ⟨ip, h3, h4, h5, h1⟩
  refine forM'_inv (fun t (st : Fl M × Nat) => st.1 = e st.2 0 ∧ k ≤ st.2 ∧ st.2 < t ∧
      ∀ j, k ≤ j → j < t → |(e j 0).val| ≤ |st.1.val|) (k + 1) l
    (e k 0, k) _ hkl ⟨rfl, Nat.le_refl _, by simp, ?_⟩ ?_
  · intro j hj1 hj2
    have : j = k := by omega
    subst this; exact le_refl _
  intro t st ht1 ht2 ⟨h1, h2, h3, h4⟩
  obtain ⟨d, ip⟩ := st
  simp only at h1 h2 h3 h4
  have g := hau.get (show t < n by omega) hmm
  unfold pivBody
  simp only [g, bind, Except.bind]
  by_cases hlt : |d.val| < |(e t 0).val|
  · have hl : ScalarExt.lt (ScalarExt.mag d) (ScalarExt.mag (e t 0)) = true := by
      rw [Mat.Fl.lt_iff, Fl.mag_val, Fl.mag_val]; exact hlt
    refine ⟨(e t 0, t), by simp only [hl, if_true, pure, Except.pure], rfl, by simp only; omega,
      by simp only; omega, ?_⟩
    intro j hj1 hj2
    simp only
    by_cases hjt : j = t
    · subst hjt; exact le_refl _
    · exact le_of_lt (lt_of_le_of_lt (h4 j hj1 (by omega)) hlt)
  · have hl : ¬ ScalarExt.lt (ScalarExt.mag d) (ScalarExt.mag (e t 0)) = true := by
      rw [Mat.Fl.lt_iff, Fl.mag_val, Fl.mag_val]; exact hlt
    refine ⟨(d, ip), by simp [hl, pure, Except.pure], h1, h2, by simp only; omega,
      ?_⟩
    intro j hj1 hj2
    simp only
    by_cases hjt : j = t
    · subst hjt; exact not_lt.mp hlt
    · exact h4 j hj1 (by omega)

theorem swapR_self' {K : Type} (e : Nat → Nat → K) (k a b : Nat) : swapR e k k a b = e a b := by
  unfold swapR
  by_cases ha : a = k
  · subst ha; simp
  · simp [ha]

/-- **one pivot step of `decompose` in `Fl M`**: it never fails; `ip` is the chosen pivot row (of
maximal magnitude in the window), the rows `k` and `ip` are exchanged, the rows of the window are
eliminated with the rounded multipliers `mulF`, which are stored in row `k` of `al` -/
theorem decStep_specF {s : Dec (Fl M)} {n mm m1 l k : Nat} {e ea : Nat → Nat → Fl M}
    (hau : Is s.au n mm e) (hal : Is s.al n m1 ea) (hidx : s.index.size = n) (hk : k < n)
    (hmm : 0 < mm) (hl : l = min (m1 + k) n) :
    ∃ ip au' al', k ≤ ip ∧ ip < min (m1 + k + 1) n ∧
      (∀ j, k ≤ j → j < min (m1 + k + 1) n → |(e j 0).val| ≤ |(e ip 0).val|) ∧
      decStep n mm (s, l) k = .ok (⟨au', al', s.index.setIfInBounds k (ip + 1),
        if ip ≠ k then -s.d else s.d⟩, min (m1 + k + 1) n) ∧
      Is au' n mm (elimEF mm (swapR e k ip) k (min (m1 + k + 1) n)) ∧
      Is al' n m1 (elimAF (swapR e k ip) ea k (min (m1 + k + 1) n)) := by
  have hl' : (if l < n then l + 1 else l) = min (m1 + k + 1) n := by split <;> omega
  have g0 := hau.get hk hmm
  obtain ⟨ip, hip1, hip2, hmax, hpiv⟩ := pivotLoop_maxF hau (k := k) (l := min (m1 + k + 1) n)
    (by omega) (by omega) hmm
  have hipn : ip < n := by omega
  -- zero fix: a zero pivot of maximal magnitude means that slot `(k, 0)` is zero already
  obtain ⟨au0, h0, hI0⟩ : ∃ au0, (if (e ip 0 == 0) = true then s.au.set k 0 0 else pure s.au)
      = .ok au0 ∧ Is au0 n mm e := by
    by_cases hz : (e ip 0 == 0) = true
    · obtain ⟨v, hv, hI⟩ := hau.set hk hmm (0 : Fl M)
      refine ⟨v, by rw [if_pos hz, hv], hI.congr (fun a b _ _ => ?_)⟩
      by_cases hab : a = k ∧ b = 0
      · obtain ⟨rfl, rfl⟩ := hab
        rw [if_pos ⟨rfl, rfl⟩]
        have h1 := hmax a (Nat.le_refl _) (by omega)
        rw [(Mat.Fl.beq_zero_iff _).mp hz, abs_zero] at h1
        exact (Fl.ext (abs_nonpos_iff.mp h1)).symm
      · rw [if_neg hab]
    · exact ⟨s.au, by rw [if_neg hz]; rfl, hau⟩
  -- exchange
  obtain ⟨au1, h1, hI1⟩ : ∃ au1, (if ip ≠ k then (do
        let au ← forM' 0 mm au0 (fun au j => Mat.swapElem au k j ip j)
        pure (au, -s.d)) else pure (au0, s.d)) = .ok (au1, if ip ≠ k then -s.d else s.d) ∧
      Is au1 n mm (swapR e k ip) := by
    by_cases hik : ip = k
    · refine ⟨au0, by simp [hik, pure, Except.pure], hI0.congr (fun a b _ _ => ?_)⟩
      subst hik; exact (swapR_self' e ip a b).symm
    · have := Mat.swapRows_spec hI0 hk hipn
      have hg : ¬ (n ≤ k ∨ n ≤ ip) := by omega
      simp only [Mat.swapRows, hI0.rows, hI0.cols, hg, if_false] at this
      obtain ⟨au1, g1, I1⟩ := this
      exact ⟨au1, by simp [hik, g1, bind, Except.bind, pure, Except.pure], I1⟩
  obtain ⟨st, h2, hI2, hI3⟩ := elimLoop_specF hI1 hal hk (l := min (m1 + k + 1) n) (by omega)
    (by omega) (by omega) hmm
  obtain ⟨au2, al2⟩ := st
  refine ⟨ip, au2, al2, hip1, hip2, hmax, ?_, hI2, hI3⟩
  rw [decStep_eq, hl', g0]
  simp only [bind, Except.bind, pure, Except.pure] at hpiv h0 h1 h2 ⊢
  simp only [hpiv, aset_ok _ (show k < s.index.size by omega), h0, h1, h2]

end DecF

/-! ### the dense twin after one elimination step, in `Fl M` -/

section TwinF
variable {M : FlModel}

theorem swapR_apply {K : Type} (f : Nat → Nat → K) (k ip a b : Nat) :
    swapR f k ip a b = f (swapIdx k ip a) b := by
  unfold swapR swapIdx
  split_ifs <;> rfl

theorem swapV_apply {K : Type} (f : Nat → K) (k ip a : Nat) :
    swapV f k ip a = f (swapIdx k ip a) := by
  unfold swapV swapIdx
  split_ifs <;> rfl

theorem swapIdx_lt_of {k ip r : Nat} (hr : r < k) : swapIdx k ip r = r ∨ ip < k := by
  unfold swapIdx
  split_ifs <;> omega

theorem swapIdx_of_ne {k ip r : Nat} (h1 : r ≠ k) (h2 : r ≠ ip) : swapIdx k ip r = r := by
  unfold swapIdx; rw [if_neg h1, if_neg h2]

theorem swapIdx_min {k ip r : Nat} (h : k ≤ ip) : min (swapIdx k ip r) k = min r k := by
  unfold swapIdx; split_ifs <;> omega

theorem swapIdx_window {k ip l r : Nat} (h : k ≤ ip) (h2 : ip < l) (hr1 : k ≤ r) (hr2 : r < l) :
    k ≤ swapIdx k ip r ∧ swapIdx k ip r < l := by
  unfold swapIdx; split_ifs <;> omega

/-- the dense twin after the elimination of the window rows against pivot row `k`: inside the
compact storage the ROUNDED update `fl(w_ac − fl(l_a w_kc))`, the eliminated column `k` drops out
of the storage, the fresh last slot is the literal zero -/
theorem twinK_elimF {m1 mm k l : Nat} (e : Nat → Nat → Fl M) (hk : k < l) (a c : Nat) :
    twinK m1 mm (k + 1) l (elimEF mm e k l) a c =
      if k < a ∧ a < l then
        (if k + 1 ≤ c ∧ c < k + mm then
          twinK m1 mm k l e a c - mulF e k a * twinK m1 mm k l e k c else 0)
      else twinK m1 mm k l e a c := by
  have o1 : off m1 k l k = k := by unfold off; ifs_omega
  by_cases hw : k < a ∧ a < l
  · have o2 : off m1 (k + 1) l a = k + 1 := by unfold off; ifs_omega
    have o3 : off m1 k l a = k := by unfold off; ifs_omega
    rw [if_pos hw]
    simp only [twinK, o1, o2, o3, elimEF, hw, and_self, if_true]
    by_cases h1 : k + 1 ≤ c ∧ c < k + mm
    · have e1 : c - (k + 1) + 1 = c - k := by omega
      rw [if_pos h1, if_pos (by omega), if_pos (by omega), if_pos (by omega), if_pos (by omega), e1]
    · rw [if_neg h1]
      by_cases h2 : k + 1 ≤ c ∧ c < k + 1 + mm
      · rw [if_pos h2, if_neg (by omega)]
      · rw [if_neg h2]
  · have o2 : off m1 (k + 1) l a = off m1 k l a := by unfold off; ifs_omega
    rw [if_neg hw]
    simp only [twinK, o2, elimEF, hw, if_false]

/-- inside the window the twin is the compact row placed at column `k` -/
theorem twinK_in_window {m1 mm k l : Nat} (e : Nat → Nat → Fl M) {a : Nat} (h1 : k ≤ a)
    (h2 : a < l) (c : Nat) :
    twinK m1 mm k l e a c = if k ≤ c ∧ c < k + mm then e a (c - k) else 0 := by
  have o : off m1 k l a = k := by unfold off; ifs_omega
  unfold twinK; rw [o]

end TwinF

/-! ### the term relation with perturbation factors -/

section TRelS
variable {M : FlModel}

/-- `β = Σ_{t<ρ} l_t v_t θ_t + v_r θ₀`, `θ₀` a product of at most `a` factors `(1+δ)^{±1}`, every
`θ_t` of at most `b`.  (`β`: an entry of the row-permuted input / right-hand side; `l_t`: the
multipliers of the row; `v_t`: the finished entries of the column; `v_r`: the current entry.) -/
def TRel (M : FlModel) (ρ : Nat) (β : ℝ) (Lr v : Nat → ℝ) (vr : ℝ) (a b : Nat) : Prop :=
  ∃ (θ0 : ℝ) (θ : Nat → ℝ), M.Th a θ0 ∧ (∀ t, M.Th b (θ t)) ∧
    β = (∑ t ∈ Finset.range ρ, Lr t * v t * θ t) + vr * θ0

theorem TRel.init (hu : M.u < 1) {β vr : ℝ} (Lr v : Nat → ℝ) (a b : Nat) (h : β = vr) :
    TRel M 0 β Lr v vr a b :=
  ⟨1, fun _ => 1, FlModel.Th.one.mono hu (Nat.zero_le _),
    fun _ => FlModel.Th.one.mono hu (Nat.zero_le _), by simp [h]⟩

theorem TRel.congr {ρ : Nat} {β vr vr' : ℝ} {Lr v Lr' v' : Nat → ℝ} {a b : Nat}
    (h : TRel M ρ β Lr v vr a b) (hL : ∀ t, t < ρ → Lr' t * v' t = Lr t * v t) (hv : vr' = vr) :
    TRel M ρ β Lr' v' vr' a b := by
  obtain ⟨θ0, θ, h0, hθ, e⟩ := h
  refine ⟨θ0, θ, h0, hθ, ?_⟩
  rw [e, hv]
  congr 1
  apply Finset.sum_congr rfl
  intro t ht
  rw [hL t (Finset.mem_range.mp ht)]

theorem TRel.mono (hu : M.u < 1) {ρ : Nat} {β vr : ℝ} {Lr v : Nat → ℝ} {a b a' b' : Nat}
    (h : TRel M ρ β Lr v vr a b) (ha : a ≤ a') (hb : b ≤ b') : TRel M ρ β Lr v vr a' b' := by
  obtain ⟨θ0, θ, h0, hθ, e⟩ := h
  exact ⟨θ0, θ, h0.mono hu ha, fun t => (hθ t).mono hu hb, e⟩

/-- a vanishing current entry carries no factor -/
theorem TRel.vr_zero (hu : M.u < 1) {ρ : Nat} {β : ℝ} {Lr v : Nat → ℝ} {a b : Nat}
    (h : TRel M ρ β Lr v 0 a b) (a' : Nat) : TRel M ρ β Lr v 0 a' b := by
  obtain ⟨θ0, θ, h0, hθ, e⟩ := h
  exact ⟨1, θ, FlModel.Th.one.mono hu (Nat.zero_le _), hθ, by rw [e]; ring⟩

/-- a step that does not touch the row (its multiplier, or the pivot entry, is an exact zero) -/
theorem TRel.skip {ρ : Nat} {β vr : ℝ} {Lr v : Nat → ℝ} {a b : Nat}
    (h : TRel M ρ β Lr v vr a b) (hz : Lr ρ * v ρ = 0) : TRel M (ρ + 1) β Lr v vr a b := by
  obtain ⟨θ0, θ, h0, hθ, e⟩ := h
  refine ⟨θ0, θ, h0, hθ, ?_⟩
  rw [Finset.sum_range_succ, hz, e]; ring

/-- one rounded multiply–subtract `x = fl(y − fl(q·p))` on the current entry -/
theorem TRel.upd (hu : M.u < 1) {ρ : Nat} {β vr : ℝ} {Lr v : Nat → ℝ} {a b : Nat}
    (h : TRel M ρ β Lr v vr a b) (hab : a + 1 ≤ b) {x y p q : Fl M} (hx : x = y - q * p)
    (hy : vr = y.val) (hq : Lr ρ = q.val) (hp : v ρ = p.val) :
    TRel M (ρ + 1) β Lr v x.val (a + 1) b := by
  obtain ⟨θ0, θ, h0, hθ, e⟩ := h
  obtain ⟨τ1, hτ1, e1⟩ := FlModel.exists_th hu (q.val * p.val)
  obtain ⟨τ2, hτ2, e2⟩ := FlModel.exists_th hu (y.val - (q * p).val)
  have hτ2pos := hτ2.pos hu
  have hxv : x.val = (y.val - q.val * p.val * τ1) * τ2 := by
    rw [hx, Fl.sub_val, e2, Fl.mul_val, e1]
  refine ⟨θ0 / τ2, fun t => if t = ρ then τ1 * θ0 else θ t, h0.div hu hτ2, ?_, ?_⟩
  · intro t
    beta_reduce
    by_cases ht : t = ρ
    · rw [if_pos ht]
      have := hτ1.mul hu h0
      rw [Nat.add_comm] at this
      exact this.mono hu hab
    · rw [if_neg ht]; exact hθ t
  · beta_reduce
    rw [Finset.sum_range_succ, if_pos rfl, e, hy, hq, hp, hxv]
    have : ∑ t ∈ Finset.range ρ, Lr t * v t * (if t = ρ then τ1 * θ0 else θ t)
        = ∑ t ∈ Finset.range ρ, Lr t * v t * θ t := by
      apply Finset.sum_congr rfl
      intro t ht
      have : ¬ t = ρ := by have := Finset.mem_range.mp ht; omega
      rw [if_neg this]
    rw [this]
    field_simp
    ring

/-- the eliminated entry: `q = fl(y / p)`, the current entry becomes (and is no longer stored as)
zero -/
theorem TRel.kill (hu : M.u < 1) {ρ : Nat} {β vr : ℝ} {Lr v : Nat → ℝ} {a b : Nat}
    (h : TRel M ρ β Lr v vr a b) (hab : a + 1 ≤ b) {y p q : Fl M} (hp0 : p.val ≠ 0)
    (hqe : q = y / p) (hy : vr = y.val) (hq : Lr ρ = q.val) (hp : v ρ = p.val) (a' : Nat) :
    TRel M (ρ + 1) β Lr v 0 a' b := by
  obtain ⟨θ0, θ, h0, hθ, e⟩ := h
  obtain ⟨τ, hτ, eτ⟩ := FlModel.exists_th hu (y.val / p.val)
  have hτpos := hτ.pos hu
  have hqv : q.val = y.val / p.val * τ := by rw [hqe, Fl.div_val, eτ]
  refine ⟨1, fun t => if t = ρ then θ0 / τ else θ t, FlModel.Th.one.mono hu (Nat.zero_le _),
    ?_, ?_⟩
  · intro t
    beta_reduce
    by_cases ht : t = ρ
    · rw [if_pos ht]; exact (h0.div hu hτ).mono hu hab
    · rw [if_neg ht]; exact hθ t
  · beta_reduce
    rw [Finset.sum_range_succ, if_pos rfl, e, hy, hq, hp, hqv]
    have : ∑ t ∈ Finset.range ρ, Lr t * v t * (if t = ρ then θ0 / τ else θ t)
        = ∑ t ∈ Finset.range ρ, Lr t * v t * θ t := by
      apply Finset.sum_congr rfl
      intro t ht
      have : ¬ t = ρ := by have := Finset.mem_range.mp ht; omega
      rw [if_neg this]
    rw [this]
    field_simp
    ring

theorem sum_lower {n r : Nat} (f : Nat → ℝ) (hr : r < n) (hz : ∀ t, r < t → t < n → f t = 0) :
    ∑ t ∈ Finset.range n, f t = (∑ t ∈ Finset.range r, f t) + f r := by
  rw [← Finset.sum_range_succ]
  symm
  apply Finset.sum_subset
  · intro t ht
    rw [Finset.mem_range] at ht ⊢; omega
  · intro t ht hnt
    rw [Finset.mem_range] at ht hnt
    exact hz t (by omega) ht

/-- the relation of a finished row, written with the full sum over the unit lower factor -/
theorem TRel.full (hu : M.u < 1) {n r : Nat} {β vr : ℝ} {Lr v : Nat → ℝ} {a b : Nat}
    (h : TRel M r β Lr v vr a b) (hr : r < n) (hL : ∀ t, r ≤ t → Lr t = 0) (hv : v r = vr)
    (hab : vr ≠ 0 → a ≤ b) :
    ∃ Θ : Nat → ℝ, (∀ t, M.Th b (Θ t)) ∧
      β = ∑ t ∈ Finset.range n, (if t = r then 1 else Lr t) * (v t * Θ t) := by
  obtain ⟨θ0, θ, h0, hθ, e⟩ := h
  by_cases hvr : vr = 0
  · refine ⟨fun t => if t = r then 1 else θ t, ?_, ?_⟩
    · intro t
      beta_reduce
      by_cases ht : t = r
      · rw [if_pos ht]; exact FlModel.Th.one.mono hu (Nat.zero_le _)
      · rw [if_neg ht]; exact hθ t
    · rw [sum_lower _ hr, e, hvr, if_pos rfl, hv, hvr]
      · simp only [zero_mul, mul_zero, add_zero]
        apply Finset.sum_congr rfl
        intro t ht
        have : ¬ t = r := by have := Finset.mem_range.mp ht; omega
        rw [if_neg this, if_neg this]; ring
      · intro t ht1 ht2
        have : ¬ t = r := by omega
        rw [if_neg this, hL t (by omega)]; ring
  · refine ⟨fun t => if t = r then θ0 else θ t, ?_, ?_⟩
    · intro t
      beta_reduce
      by_cases ht : t = r
      · rw [if_pos ht]; exact h0.mono hu (hab hvr)
      · rw [if_neg ht]; exact hθ t
    · rw [sum_lower _ hr, e]
      · beta_reduce
        rw [if_pos rfl, if_pos rfl, hv]
        congr 1
        · apply Finset.sum_congr rfl
          intro t ht
          have : ¬ t = r := by have := Finset.mem_range.mp ht; omega
          rw [if_neg this, if_neg this]; ring
        · ring
      · intro t ht1 ht2
        have : ¬ t = r := by omega
        rw [if_neg this, hL t (by omega)]; ring

end TRelS

/-! ### the permutation, the unit lower factor and the ages, replayed from `(al, index)` -/

section Replay

/-- the row permutation after `k` steps: position `r` holds the original row `pik idx k r` -/
def pik (idx : Nat → Nat) : Nat → Nat → Nat
  | 0, r => r
  | k + 1, r => pik idx k (swapIdx k (idx k - 1) r)

/-- its inverse: the original row `j` sits at position `sig idx k j` -/
def sig (idx : Nat → Nat) : Nat → Nat → Nat
  | 0, j => j
  | k + 1, j => swapIdx k (idx k - 1) (sig idx k j)

/-- the strictly lower part of the factor `L̂` of `P·B = L̂·Û` after `k` steps: entry `(r, t)` is the
multiplier that step `t` applied to the row which now sits at position `r` (the stored multipliers
of `al`, carried along with the later row exchanges — `bandec` itself does not permute them) -/
def Lt (n m1 : Nat) (ea : Nat → Nat → ℝ) (idx : Nat → Nat) : Nat → Nat → Nat → ℝ
  | 0, _, _ => 0
  | k + 1, r, t =>
    if t = k then (if k < r ∧ r < min (m1 + k + 1) n then ea k (r - k - 1) else 0)
    else Lt n m1 ea idx k (swapIdx k (idx k - 1) r) t

/-- the number of elimination steps the row now at position `r` went through -/
def age (n m1 : Nat) (idx : Nat → Nat) : Nat → Nat → Nat
  | 0, _ => 0
  | k + 1, r =>
    age n m1 idx k (swapIdx k (idx k - 1) r) + (if k < r ∧ r < min (m1 + k + 1) n then 1 else 0)

theorem pik_congr {idx idx' : Nat → Nat} :
    ∀ k, (∀ k', k' < k → idx' k' = idx k') → ∀ r, pik idx' k r = pik idx k r
  | 0, _, _ => rfl
  | k + 1, h, r => by
    simp only [pik]
    rw [h k (by omega), pik_congr k (fun k' hk' => h k' (by omega))]

theorem Lt_congr {n m1 : Nat} {ea ea' : Nat → Nat → ℝ} {idx idx' : Nat → Nat} :
    ∀ k, (∀ k', k' < k → (∀ b, b < m1 → ea' k' b = ea k' b) ∧ idx' k' = idx k') →
      ∀ r t, Lt n m1 ea' idx' k r t = Lt n m1 ea idx k r t
  | 0, _, _, _ => rfl
  | k + 1, h, r, t => by
    simp only [Lt]
    rw [(h k (by omega)).2, Lt_congr k (fun k' hk' => h k' (by omega))]
    by_cases hc : k < r ∧ r < min (m1 + k + 1) n
    · rw [if_pos hc, if_pos hc, (h k (by omega)).1 (r - k - 1) (by omega)]
    · rw [if_neg hc, if_neg hc]

theorem age_congr {n m1 : Nat} {idx idx' : Nat → Nat} :
    ∀ k, (∀ k', k' < k → idx' k' = idx k') → ∀ r, age n m1 idx' k r = age n m1 idx k r
  | 0, _, _ => rfl
  | k + 1, h, r => by
    simp only [age]
    rw [h k (by omega), age_congr k (fun k' hk' => h k' (by omega))]

theorem permOK_pik {n : Nat} {idx : Nat → Nat} :
    ∀ k, k ≤ n → (∀ k', k' < k → idx k' - 1 < n) → PermOK n (pik idx k) (sig idx k)
  | 0, _, _ => PermOK.id n
  | k + 1, hk, h => by
    have ih := permOK_pik k (by omega) (fun k' hk' => h k' (by omega))
    exact ih.swap (show k < n by omega) (h k (by omega))

theorem Lt_zero_of_ge {n m1 : Nat} {ea : Nat → Nat → ℝ} {idx : Nat → Nat} :
    ∀ k r t, k ≤ t → Lt n m1 ea idx k r t = 0
  | 0, _, _, _ => rfl
  | k + 1, r, t, h => by
    simp only [Lt]
    rw [if_neg (by omega)]
    exact Lt_zero_of_ge k _ t (by omega)

theorem Lt_zero_of_row {n m1 : Nat} {ea : Nat → Nat → ℝ} {idx : Nat → Nat} :
    ∀ k, (∀ k', k' < k → k' ≤ idx k' - 1) → ∀ r t, r ≤ t → Lt n m1 ea idx k r t = 0
  | 0, _, _, _, _ => rfl
  | k + 1, h, r, t, hrt => by
    simp only [Lt]
    by_cases htk : t = k
    · rw [if_pos htk, if_neg (by omega)]
    · rw [if_neg htk]
      by_cases hkt : k ≤ t
      · exact Lt_zero_of_ge k _ t hkt
      · apply Lt_zero_of_row k (fun k' hk' => h k' (by omega))
        have := h k (by omega)
        unfold swapIdx
        split_ifs <;> omega

theorem age_le {n m1 : Nat} {idx : Nat → Nat} :
    ∀ k, (∀ k', k' < k → k' ≤ idx k' - 1) → ∀ r, age n m1 idx k r ≤ min r k
  | 0, _, _ => by simp [age]
  | k + 1, h, r => by
    simp only [age]
    have ih := age_le (n := n) (m1 := m1) k (fun k' hk' => h k' (by omega))
      (swapIdx k (idx k - 1) r)
    rw [swapIdx_min (h k (by omega))] at ih
    split_ifs <;> omega

/-- without row exchanges a row is eliminated at most `m1` times -/
theorem age_le_m1 {n m1 : Nat} {idx : Nat → Nat} :
    ∀ k, (∀ k', k' < k → idx k' - 1 = k') → ∀ r, age n m1 idx k r ≤ min k r - (r - m1)
  | 0, _, _ => by simp [age]
  | k + 1, h, r => by
    simp only [age]
    have ih := age_le_m1 (n := n) (m1 := m1) k (fun k' hk' => h k' (by omega)) r
    have e : swapIdx k (idx k - 1) r = r := by
      rw [h k (by omega)]; unfold swapIdx; split_ifs <;> omega
    rw [e]
    split_ifs <;> omega

/-- the exchanges stay inside the window: rows that have not entered it are in place, and the
rows in front of its end are a permutation of themselves -/
theorem pik_window {n m1 : Nat} {idx : Nat → Nat} :
    ∀ k, (∀ k', k' < k → k' ≤ idx k' - 1 ∧ idx k' - 1 < min (m1 + k' + 1) n) →
      (∀ r, min (m1 + k) n ≤ r → pik idx k r = r) ∧
      (∀ r, r < min (m1 + k) n → pik idx k r < min (m1 + k) n)
  | 0, _ => ⟨fun _ _ => rfl, fun _ hr => hr⟩
  | k + 1, h => by
    obtain ⟨ih1, ih2⟩ := pik_window (n := n) (m1 := m1) k (fun k' hk' => h k' (by omega))
    have hip := h k (by omega)
    constructor
    · intro r hr
      simp only [pik]
      have e : swapIdx k (idx k - 1) r = r := by
        unfold swapIdx; split_ifs <;> omega
      rw [e]
      exact ih1 r (by omega)
    · intro r hr
      simp only [pik]
      have hs : swapIdx k (idx k - 1) r < min (m1 + (k + 1)) n := by
        unfold swapIdx; split_ifs <;> omega
      by_cases hlt : swapIdx k (idx k - 1) r < min (m1 + k) n
      · have := ih2 _ hlt; omega
      · rw [ih1 _ (by omega)]; exact hs

/-- a row that started as row `i` and sits at position `r` was eliminated at most
`min r k + m1 - i` times: it entered the window at step `i - m1` -/
theorem age_le_disp {n m1 : Nat} {idx : Nat → Nat} :
    ∀ k, (∀ k', k' < k → k' ≤ idx k' - 1 ∧ idx k' - 1 < min (m1 + k' + 1) n) →
      ∀ r, age n m1 idx k r ≤ min r k + m1 - pik idx k r
  | 0, _, _ => by simp [age]
  | k + 1, h, r => by
    have ih := age_le_disp (n := n) (m1 := m1) k (fun k' hk' => h k' (by omega))
      (swapIdx k (idx k - 1) r)
    rw [swapIdx_min (h k (by omega)).1] at ih
    have hw := (pik_window (n := n) (m1 := m1) (idx := idx) (k + 1) h).2 r
    simp only [age]
    simp only [pik] at hw ⊢
    split_ifs with hc
    · have := hw (by omega)
      omega
    · omega

theorem pik_id {idx : Nat → Nat} :
    ∀ k, (∀ k', k' < k → idx k' - 1 = k') → ∀ r, pik idx k r = r
  | 0, _, _ => rfl
  | k + 1, h, r => by
    simp only [pik]
    have e : swapIdx k (idx k - 1) r = r := by
      rw [h k (by omega)]; unfold swapIdx; split_ifs <;> omega
    rw [e]
    exact pik_id k (fun k' hk' => h k' (by omega)) r

end Replay

/-! ### the invariant of the pivot loop of `decompose` in `Fl M` -/

section DecInvS
variable {M : FlModel}

/-- number of rounded updates an entry of column `c` can have received in a row that went through
`ρ` elimination steps: the entry enters the compact storage (as the literal zero) at step
`c - (mm-1)` -/
def NN (mm ρ c : Nat) : Nat := min ρ (ρ + (mm - 1) - c)

/-- the matrix part of the invariant (before step `k`): every entry of the row-permuted input is
reproduced by the multipliers of the row, the finished rows and the current row of the dense twin
of the working storage, up to perturbation factors whose number depends on the bandwidth only -/
def MInv (M : FlModel) (n m1 mm : Nat) (B : Nat → Nat → ℝ) (k : Nat) (e ea : Nat → Nat → Fl M)
    (idx : Nat → Nat) : Prop :=
  ∀ r c, r < n → c < n →
    TRel M (min r k) (B (pik idx k r) c) (Lt n m1 (fun a b => (ea a b).val) idx k r)
      (fun t => (twinK m1 mm k (min (m1 + k) n) e t c).val)
      (twinK m1 mm k (min (m1 + k) n) e r c).val (NN mm (min r k) c) mm

theorem MInv.step (hu : M.u < 1) {n m1 mm k ip : Nat} {B : Nat → Nat → ℝ}
    {e ea e' ea' : Nat → Nat → Fl M} {idx idx' : Nat → Nat}
    (hk : k < n) (hmm : 0 < mm) (hip1 : k ≤ ip) (hip2 : ip < min (m1 + k + 1) n)
    (hmax : ∀ j, k ≤ j → j < min (m1 + k + 1) n → |(e j 0).val| ≤ |(e ip 0).val|)
    (he' : ∀ a b, a < n → b < mm →
      e' a b = elimEF mm (swapR e k ip) k (min (m1 + k + 1) n) a b)
    (hea' : ∀ a b, a < n → b < m1 →
      ea' a b = elimAF (swapR e k ip) ea k (min (m1 + k + 1) n) a b)
    (hidx' : idx' k = ip + 1) (hidxo : ∀ k', k' < k → idx' k' = idx k')
    (h : MInv M n m1 mm B k e ea idx)
    (hmult : ∀ r t, |Lt n m1 (fun a b => (ea a b).val) idx k r t| ≤ 1 + M.u) :
    MInv M n m1 mm B (k + 1) e' ea' idx' ∧
      ∀ r t, |Lt n m1 (fun a b => (ea' a b).val) idx' (k + 1) r t| ≤ 1 + M.u := by
  have hkl : k < min (m1 + k + 1) n := by omega
  have hipn : ip < n := by omega
  have hs_lt : ∀ r, r < n → swapIdx k ip r < n := fun r hr => Mat.swapIdx_lt hk hipn hr
  have hs_small : ∀ t, t < k → swapIdx k ip t = t :=
    fun t ht => swapIdx_of_ne (by omega) (by omega)
  have hsk : swapIdx k ip k = ip := by unfold swapIdx; rw [if_pos rfl]
  -- the permutation, the multipliers and the twin after the step
  have F1 : ∀ r, pik idx' (k + 1) r = pik idx k (swapIdx k ip r) := by
    intro r; simp only [pik]; rw [hidx', Nat.add_sub_cancel, pik_congr k hidxo]
  have hq : ∀ r, k < r → r < min (m1 + k + 1) n →
      ea' k (r - k - 1) = mulF (swapR e k ip) k r := by
    intro r h1 h2
    rw [hea' k (r - k - 1) hk (by omega)]
    unfold elimAF
    have e1 : r - k - 1 + k + 1 = r := by omega
    rw [if_pos ⟨rfl, by omega⟩, e1]
  have F2 : ∀ r t, Lt n m1 (fun a b => (ea' a b).val) idx' (k + 1) r t =
      if t = k then (if k < r ∧ r < min (m1 + k + 1) n then (mulF (swapR e k ip) k r).val else 0)
      else Lt n m1 (fun a b => (ea a b).val) idx k (swapIdx k ip r) t := by
    intro r t
    simp only [Lt]
    rw [hidx', Nat.add_sub_cancel]
    by_cases htk : t = k
    · rw [if_pos htk, if_pos htk]
      by_cases hc : k < r ∧ r < min (m1 + k + 1) n
      · rw [if_pos hc, if_pos hc, hq r hc.1 hc.2]
      · rw [if_neg hc, if_neg hc]
    · rw [if_neg htk, if_neg htk]
      apply Lt_congr
      intro k' hk'
      refine ⟨fun b hb => ?_, hidxo k' hk'⟩
      show (ea' k' b).val = (ea k' b).val
      rw [hea' k' b (by omega) hb]
      unfold elimAF
      rw [if_neg (by omega)]
  have F3 : ∀ a c, a < n → twinK m1 mm (k + 1) (min (m1 + (k + 1)) n) e' a c =
      if k < a ∧ a < min (m1 + k + 1) n then
        (if k + 1 ≤ c ∧ c < k + mm then
          twinK m1 mm k (min (m1 + k + 1) n) (swapR e k ip) a c
            - mulF (swapR e k ip) k a * twinK m1 mm k (min (m1 + k + 1) n) (swapR e k ip) k c
          else 0)
      else twinK m1 mm k (min (m1 + k + 1) n) (swapR e k ip) a c := by
    intro a c ha
    have e1 : m1 + (k + 1) = m1 + k + 1 := by omega
    rw [e1, twinK_congr he' ha c, twinK_elimF (swapR e k ip) hkl]
  have F4 : ∀ a c, a < n → twinK m1 mm k (min (m1 + k + 1) n) (swapR e k ip) a c =
      twinK m1 mm k (min (m1 + k) n) e (swapIdx k ip a) c := by
    intro a c ha
    rw [twinK_swap e hkl hip1 hip2, swapR_apply, ← twinK_window e (hs_lt a ha) c]
  have W2w : ∀ a, k ≤ a → a < min (m1 + k + 1) n → ∀ c,
      twinK m1 mm k (min (m1 + k + 1) n) (swapR e k ip) a c =
        if k ≤ c ∧ c < k + mm then swapR e k ip a (c - k) else 0 :=
    fun a h1 h2 c => twinK_in_window (swapR e k ip) h1 h2 c
  have hmax2 : ∀ r, k ≤ r → r < min (m1 + k + 1) n →
      |(swapR e k ip r 0).val| ≤ |(swapR e k ip k 0).val| := by
    intro r h1 h2
    rw [swapR_apply, swapR_apply, hsk]
    obtain ⟨g1, g2⟩ := swapIdx_window hip1 hip2 h1 h2
    exact hmax _ g1 g2
  have hmulF : ∀ r, k ≤ r → r < min (m1 + k + 1) n →
      |(mulF (swapR e k ip) k r).val| ≤ 1 + M.u := by
    intro r h1 h2
    unfold mulF
    split
    · rw [Fl.zero_val, abs_zero]; have := M.u_nonneg; linarith
    · rename_i hne
      exact Mat.Fl.abs_div_le _ _ hne (hmax2 r h1 h2)
  -- the invariant after the exchange
  have PInv : ∀ r c, r < n → c < n →
      TRel M (min r k) (B (pik idx k (swapIdx k ip r)) c)
        (Lt n m1 (fun a b => (ea a b).val) idx k (swapIdx k ip r))
        (fun t => (twinK m1 mm k (min (m1 + k + 1) n) (swapR e k ip) t c).val)
        (twinK m1 mm k (min (m1 + k + 1) n) (swapR e k ip) r c).val (NN mm (min r k) c) mm := by
    intro r c hr hc
    have := h (swapIdx k ip r) c (hs_lt r hr) hc
    rw [swapIdx_min hip1] at this
    refine this.congr ?_ ?_
    · intro t ht
      have htk : t < k := by omega
      rw [F4 t c (by omega), hs_small t htk]
    · rw [F4 r c hr]
  refine ⟨?_, ?_⟩
  · intro r c hr hc
    rw [F1]
    have P := PInv r c hr hc
    -- a step that leaves the row alone
    have skipCase : k < r →
        Lt n m1 (fun a b => (ea' a b).val) idx' (k + 1) r k
          * (twinK m1 mm k (min (m1 + k + 1) n) (swapR e k ip) k c).val = 0 →
        twinK m1 mm (k + 1) (min (m1 + (k + 1)) n) e' r c
          = twinK m1 mm k (min (m1 + k + 1) n) (swapR e k ip) r c →
        TRel M (min r (k + 1)) (B (pik idx k (swapIdx k ip r)) c)
          (Lt n m1 (fun a b => (ea' a b).val) idx' (k + 1) r)
          (fun t => (twinK m1 mm (k + 1) (min (m1 + (k + 1)) n) e' t c).val)
          (twinK m1 mm (k + 1) (min (m1 + (k + 1)) n) e' r c).val (NN mm (min r (k + 1)) c) mm := by
      intro hkr hz hvr
      have e0 : min r k = k := by omega
      have e1 : min r (k + 1) = k + 1 := by omega
      rw [e0] at P
      rw [e1, hvr]
      have P1 : TRel M k (B (pik idx k (swapIdx k ip r)) c)
          (Lt n m1 (fun a b => (ea' a b).val) idx' (k + 1) r)
          (fun t => (twinK m1 mm k (min (m1 + k + 1) n) (swapR e k ip) t c).val)
          (twinK m1 mm k (min (m1 + k + 1) n) (swapR e k ip) r c).val (NN mm k c) mm := by
        refine P.congr ?_ rfl
        intro t ht
        rw [F2 r t, if_neg (by omega)]
      have P2 := (P1.skip hz).mono hu (show NN mm k c ≤ NN mm (k + 1) c by unfold NN; omega)
        (Nat.le_refl _)
      refine P2.congr ?_ rfl
      intro t ht
      rw [F3 t c (by omega), if_neg (by omega)]
    by_cases hrk : r ≤ k
    · -- finished rows and the pivot row
      have e1 : min r (k + 1) = min r k := by omega
      rw [e1]
      refine P.congr ?_ ?_
      · intro t ht
        rw [F2 r t, if_neg (by omega), F3 t c (by omega), if_neg (by omega)]
      · rw [F3 r c hr, if_neg (by omega)]
    · by_cases hrl : r < min (m1 + k + 1) n
      · -- the rows of the window
        have hw : k < r ∧ r < min (m1 + k + 1) n := ⟨by omega, hrl⟩
        have hLk : Lt n m1 (fun a b => (ea' a b).val) idx' (k + 1) r k
            = (mulF (swapR e k ip) k r).val := by
          rw [F2 r k, if_pos rfl, if_pos hw]
        by_cases hc1 : k + 1 ≤ c ∧ c < k + mm
        · -- a rounded update
          have e0 : min r k = k := by omega
          have e1 : min r (k + 1) = k + 1 := by omega
          rw [e0] at P
          rw [e1]
          have P1 : TRel M k (B (pik idx k (swapIdx k ip r)) c)
              (Lt n m1 (fun a b => (ea' a b).val) idx' (k + 1) r)
              (fun t => (twinK m1 mm k (min (m1 + k + 1) n) (swapR e k ip) t c).val)
              (twinK m1 mm k (min (m1 + k + 1) n) (swapR e k ip) r c).val (NN mm k c) mm := by
            refine P.congr ?_ rfl
            intro t ht
            rw [F2 r t, if_neg (by omega)]
          have hvr : twinK m1 mm (k + 1) (min (m1 + (k + 1)) n) e' r c
              = twinK m1 mm k (min (m1 + k + 1) n) (swapR e k ip) r c
                - mulF (swapR e k ip) k r
                  * twinK m1 mm k (min (m1 + k + 1) n) (swapR e k ip) k c := by
            rw [F3 r c hr, if_pos hw, if_pos hc1]
          have P2 := (P1.upd hu (show NN mm k c + 1 ≤ mm by unfold NN; omega) hvr rfl hLk
            rfl).mono hu (show NN mm k c + 1 ≤ NN mm (k + 1) c by unfold NN; omega)
            (Nat.le_refl _)
          refine P2.congr ?_ rfl
          intro t ht
          rw [F3 t c (by omega), if_neg (by omega)]
        · by_cases hck : c = k
          · -- the eliminated entry
            subst hck
            have hvr0 : twinK m1 mm (c + 1) (min (m1 + (c + 1)) n) e' r c = 0 := by
              rw [F3 r c hr, if_pos hw, if_neg hc1]
            have hWr : twinK m1 mm c (min (m1 + c + 1) n) (swapR e c ip) r c
                = swapR e c ip r 0 := by
              rw [W2w r (by omega) hrl c, if_pos (by omega), Nat.sub_self]
            have hWk : twinK m1 mm c (min (m1 + c + 1) n) (swapR e c ip) c c
                = swapR e c ip c 0 := by
              rw [W2w c (Nat.le_refl _) hkl c, if_pos (by omega), Nat.sub_self]
            by_cases hp0 : (swapR e c ip c 0).val = 0
            · -- zero pivot: the whole window column is zero, nothing happens
              have hr0 : (swapR e c ip r 0).val = 0 := by
                have := hmax2 r (by omega) hrl
                rw [hp0, abs_zero] at this
                exact abs_nonpos_iff.mp this
              refine skipCase (by omega) ?_ ?_
              · rw [hWk, hp0, mul_zero]
              · rw [hvr0, hWr]
                exact (Fl.ext hr0).symm
            · have e0 : min r c = c := by omega
              have e1 : min r (c + 1) = c + 1 := by omega
              rw [e0] at P
              rw [e1, hvr0]
              have P1 : TRel M c (B (pik idx c (swapIdx c ip r)) c)
                  (Lt n m1 (fun a b => (ea' a b).val) idx' (c + 1) r)
                  (fun t => (twinK m1 mm c (min (m1 + c + 1) n) (swapR e c ip) t c).val)
                  (swapR e c ip r 0).val (NN mm c c) mm := by
                refine P.congr ?_ (by rw [hWr])
                intro t ht
                rw [F2 r t, if_neg (by omega)]
              have hqe : mulF (swapR e c ip) c r = swapR e c ip r 0 / swapR e c ip c 0 := by
                unfold mulF; rw [if_neg hp0]
              have P2 := P1.kill hu (show NN mm c c + 1 ≤ mm by unfold NN; omega) hp0 hqe rfl hLk
                (by rw [hWk]) (NN mm (c + 1) c)
              refine P2.congr ?_ rfl
              intro t ht
              rw [F3 t c (by omega), if_neg (by omega)]
          · -- columns outside the compact storage of the window
            have hz1 : twinK m1 mm k (min (m1 + k + 1) n) (swapR e k ip) k c = 0 := by
              rw [W2w k (Nat.le_refl _) hkl c, if_neg (by omega)]
            have hz2 : twinK m1 mm k (min (m1 + k + 1) n) (swapR e k ip) r c = 0 := by
              rw [W2w r (by omega) hrl c, if_neg (by omega)]
            refine skipCase (by omega) ?_ ?_
            · rw [hz1, Fl.zero_val, mul_zero]
            · rw [F3 r c hr, if_pos hw, if_neg hc1, hz2]
      · -- rows that have not entered the window yet
        refine skipCase (by omega) ?_ ?_
        · rw [F2 r k, if_pos rfl, if_neg (by omega), zero_mul]
        · rw [F3 r c hr, if_neg (by omega)]
  · intro r t
    rw [F2]
    split_ifs with h1 h2
    · exact hmulF r (by omega) h2.2
    · rw [abs_zero]; have := M.u_nonneg; linarith
    · exact hmult _ t

/-- invariant of the pivot loop of `decompose` in `Fl M` (before step `k`): shapes, the exchange
record, the matrix relation `MInv` and the multiplier bound -/
def DecInvF (M : FlModel) (n m1 mm : Nat) (B : Nat → Nat → ℝ) (k : Nat)
    (st : Dec (Fl M) × Nat) : Prop :=
  st.2 = min (m1 + k) n ∧ Is st.1.au n mm (Mat.entryOf st.1.au) ∧
  Is st.1.al n m1 (Mat.entryOf st.1.al) ∧ st.1.index.size = n ∧
  (∀ k', k' < k → k' < idxf st.1.index k' ∧ idxf st.1.index k' ≤ min (m1 + k' + 1) n) ∧
  MInv M n m1 mm B k (Mat.entryOf st.1.au) (Mat.entryOf st.1.al) (idxf st.1.index) ∧
  (∀ r t, |Lt n m1 (fun a b => (Mat.entryOf st.1.al a b).val) (idxf st.1.index) k r t|
    ≤ 1 + M.u)

theorem decStep_invF (hu : M.u < 1) {n m1 mm k : Nat} {B : Nat → Nat → ℝ}
    {st : Dec (Fl M) × Nat} (hk : k < n) (hmm : 0 < mm) (h : DecInvF M n m1 mm B k st) :
    ∃ st', decStep n mm st k = .ok st' ∧ DecInvF M n m1 mm B (k + 1) st' := by
  obtain ⟨s, l⟩ := st
  obtain ⟨hl, hau, hal, hsz, hidx, hM, hmult⟩ := h
  simp only at hl hau hal hsz hidx hM hmult
  obtain ⟨ip, au', al', hip1, hip2, hmax, hstep, hI1, hI2⟩ :=
    decStep_specF hau hal hsz hk hmm hl
  have hix : idxf (s.index.setIfInBounds k (ip + 1)) k = ip + 1 := by
    simp [idxf, Array.getElem?_setIfInBounds, hsz, hk]
  have hio : ∀ k', k' < k → idxf (s.index.setIfInBounds k (ip + 1)) k' = idxf s.index k' := by
    intro k' hk'
    simp only [idxf, Array.getElem?_setIfInBounds]
    rw [if_neg (by omega)]
  obtain ⟨hM', hmult'⟩ := MInv.step hu hk hmm hip1 hip2 hmax
    (fun a b ha hb => hI1.entryOf_eq ha hb) (fun a b ha hb => hI2.entryOf_eq ha hb) hix hio hM
    hmult
  refine ⟨_, hstep, rfl, hI1.canon, hI2.canon, by simpa using hsz, ?_, hM', hmult'⟩
  intro k' hk'
  by_cases hkk : k' = k
  · subst hkk
    simp only
    rw [hix]
    omega
  · simp only
    rw [hio k' (by omega)]
    exact hidx k' (by omega)

/-- **`decompose` in `Fl M`** (for `m1 ≤ n`) never fails, and its result satisfies the invariant
at `k = n` with respect to the dense twin of `b` -/
theorem decompose_invF (hu : M.u < 1) {b : Band (Fl M)} (h : WFb b) (hm : b.m1 ≤ b.n) :
    ∃ s l, decompose b = .ok s ∧
      DecInvF M b.n b.m1 (b.m1 + b.m2 + 1) (fun i j => (dense b i j).val) b.n (s, l) := by
  obtain ⟨au0, h0, hI0⟩ := shiftRows_spec h.is hm
  unfold decompose
  simp only [h0, bind, Except.bind]
  obtain ⟨st, hst, hinv⟩ := forM'_inv
    (DecInvF M b.n b.m1 (b.m1 + b.m2 + 1) (fun i j => (dense b i j).val)) 0 b.n
    ((⟨au0, Mat.new b.n b.m1 0, Array.replicate b.n 0, 1⟩ : Dec (Fl M)), b.m1)
    (decStep b.n (b.m1 + b.m2 + 1)) (Nat.zero_le _)
    ⟨by simp only; omega, hI0.canon, (Mat.Is.of_new b.n b.m1 (0 : Fl M)).canon, by simp,
      fun k' hk' => by omega, by
        intro r c hr hc
        have e0 : min r 0 = 0 := by omega
        rw [e0]
        apply TRel.init hu
        simp only [pik, Nat.add_zero, Nat.min_eq_left hm]
        rw [twinK_congr (fun a b ha hb => hI0.entryOf_eq ha hb) hr c, twinK_zero h hr hc],
      fun r t => by
        simp only [Lt, abs_zero]
        have := M.u_nonneg
        linarith⟩
    (fun k st _ hk hinv => decStep_invF hu hk (by omega) hinv)
  obtain ⟨s, l⟩ := st
  exact ⟨s, l, by rw [hst]; rfl, hinv⟩

end DecInvS

/-! ### the forward substitution: the same relation for the right-hand side -/

section FwdS
variable {M : FlModel}

/-- the vector part: after `k` forward steps every component of the permuted right-hand side is
reproduced by the multipliers of its row and the current vector, with as many perturbation factors
as the row went through elimination steps (`age`) -/
def VInv (M : FlModel) (n m1 : Nat) (β : Nat → ℝ) (ea : Nat → Nat → Fl M) (idx : Nat → Nat)
    (k : Nat) (y : Nat → Fl M) : Prop :=
  ∀ r, r < n →
    TRel M (min r k) (β (pik idx k r)) (Lt n m1 (fun a b => (ea a b).val) idx k r)
      (fun t => (y t).val) (y r).val (age n m1 idx k r) (age n m1 idx k r)

theorem fwd_invF (hu : M.u < 1) {n m1 : Nat} (ea : Nat → Nat → Fl M) (idx : Nat → Nat)
    (rhs : Nat → Fl M) (hidx : ∀ k, k < n → k ≤ idx k - 1 ∧ idx k - 1 < n) :
    ∀ k, k ≤ n → VInv M n m1 (fun i => (rhs i).val) ea idx k (fwdK n m1 ea idx k rhs)
  | 0, _ => by
    intro r hr
    have e0 : min r 0 = 0 := by omega
    rw [e0]
    exact TRel.init hu _ _ _ _ rfl
  | k + 1, hk => by
    have ih := fwd_invF (m1 := m1) hu ea idx rhs hidx k (by omega)
    obtain ⟨hip1, hipn⟩ := hidx k (by omega)
    have hkn : k < n := by omega
    have hs_lt : ∀ r, r < n → swapIdx k (idx k - 1) r < n :=
      fun r hr => Mat.swapIdx_lt hkn hipn hr
    have hs_small : ∀ t, t < k → swapIdx k (idx k - 1) t = t :=
      fun t ht => swapIdx_of_ne (by omega) (by omega)
    -- the new vector
    have Y : ∀ a, fwdK n m1 ea idx (k + 1) rhs a =
        if k < a ∧ a < min (m1 + k + 1) n then
          fwdK n m1 ea idx k rhs (swapIdx k (idx k - 1) a)
            - ea k (a - k - 1) * fwdK n m1 ea idx k rhs (swapIdx k (idx k - 1) k)
        else fwdK n m1 ea idx k rhs (swapIdx k (idx k - 1) a) := by
      intro a
      simp only [fwdK, fwdStepK, swapV_apply]
    have Ysmall : ∀ t, t < k → fwdK n m1 ea idx (k + 1) rhs t = fwdK n m1 ea idx k rhs t := by
      intro t ht
      rw [Y t, if_neg (by omega), hs_small t ht]
    have L2 : ∀ r t, Lt n m1 (fun a b => (ea a b).val) idx (k + 1) r t =
        if t = k then (if k < r ∧ r < min (m1 + k + 1) n then (ea k (r - k - 1)).val else 0)
        else Lt n m1 (fun a b => (ea a b).val) idx k (swapIdx k (idx k - 1) r) t := by
      intro r t; simp only [Lt]
    have A2 : ∀ r, age n m1 idx (k + 1) r = age n m1 idx k (swapIdx k (idx k - 1) r)
        + (if k < r ∧ r < min (m1 + k + 1) n then 1 else 0) := by
      intro r; simp only [age]
    intro r hr
    have P := ih (swapIdx k (idx k - 1) r) (hs_lt r hr)
    rw [swapIdx_min hip1] at P
    have hpik : pik idx (k + 1) r = pik idx k (swapIdx k (idx k - 1) r) := by simp only [pik]
    rw [hpik]
    by_cases hrk : r ≤ k
    · have e1 : min r (k + 1) = min r k := by omega
      rw [e1, A2 r, if_neg (by omega), Nat.add_zero]
      refine P.congr ?_ ?_
      · intro t ht
        rw [L2 r t, if_neg (by omega), Ysmall t (by omega)]
      · rw [Y r, if_neg (by omega)]
    · have e0 : min r k = k := by omega
      have e1 : min r (k + 1) = k + 1 := by omega
      rw [e0] at P
      rw [e1]
      have P1 : TRel M k ((rhs (pik idx k (swapIdx k (idx k - 1) r))).val)
          (Lt n m1 (fun a b => (ea a b).val) idx (k + 1) r)
          (fun t => (fwdK n m1 ea idx (k + 1) rhs t).val)
          (fwdK n m1 ea idx k rhs (swapIdx k (idx k - 1) r)).val
          (age n m1 idx k (swapIdx k (idx k - 1) r)) (age n m1 idx k (swapIdx k (idx k - 1) r)) := by
        refine P.congr ?_ rfl
        intro t ht
        rw [L2 r t, if_neg (by omega), Ysmall t ht]
      by_cases hrl : r < min (m1 + k + 1) n
      · have hw : k < r ∧ r < min (m1 + k + 1) n := ⟨by omega, hrl⟩
        rw [A2 r, if_pos hw]
        have P2 := P1.mono hu (Nat.le_refl _)
          (Nat.le_succ (age n m1 idx k (swapIdx k (idx k - 1) r)))
        refine P2.upd hu (Nat.le_refl _) (q := ea k (r - k - 1))
          (p := fwdK n m1 ea idx k rhs (swapIdx k (idx k - 1) k)) ?_ rfl ?_ ?_
        · rw [Y r, if_pos hw]
        · rw [L2 r k, if_pos rfl, if_pos hw]
        · rw [Y k, if_neg (by omega)]
      · rw [A2 r, if_neg (by omega), Nat.add_zero]
        have P2 := P1.skip (by rw [L2 r k, if_pos rfl, if_neg (by omega), zero_mul])
        refine P2.congr (fun _ _ => rfl) ?_
        rw [Y r, if_neg (by omega)]

end FwdS

/-! ### the back substitution on the compact upper factor -/

section BackS
variable {M : FlModel}

/-- the computed upper factor `Û` (real values): compact row `i` of the final `au` placed at its
diagonal — upper triangular with bandwidth `mm - 1 = m1 + m2` -/
def UhatF (mm : Nat) (e : Nat → Nat → Fl M) (i c : Nat) : ℝ :=
  if i ≤ c ∧ c < i + mm then (e i (c - i)).val else 0

theorem twinK_final {n m1 mm : Nat} (e : Nat → Nat → Fl M) {i : Nat} (hi : i < n) (c : Nat) :
    (twinK m1 mm n (min (m1 + n) n) e i c).val = UhatF mm e i c := by
  have o : off m1 n (min (m1 + n) n) i = i := by unfold off; rw [if_pos hi]
  unfold twinK UhatF
  rw [o]
  split <;> rfl

/-- a row of the final upper factor, as a dense row sum -/
theorem Uhat_row {n mm : Nat} (e : Nat → Nat → Fl M) {i : Nat} (hi : i < n) (hmm : 0 < mm)
    (X : Nat → ℝ) :
    ∑ c ∈ Finset.range n, UhatF mm e i c * X c =
      (e i 0).val * X i + ∑ t ∈ Finset.Ico 1 (min (n - i) mm), (e i t).val * X (t + i) := by
  have hL : 0 < min (n - i) mm := by omega
  have e1 : ∑ c ∈ Finset.range n, UhatF mm e i c * X c =
      ∑ c ∈ Finset.Ico i (i + min (n - i) mm), UhatF mm e i c * X c := by
    symm
    apply Finset.sum_subset
    · intro j hj
      rw [Finset.mem_Ico] at hj
      rw [Finset.mem_range]; omega
    · intro j hj hnj
      rw [Finset.mem_range] at hj
      rw [Finset.mem_Ico] at hnj
      unfold UhatF
      rw [if_neg (by omega), zero_mul]
  have e2 : ∀ t, t < min (n - i) mm → UhatF mm e i (i + t) = (e i t).val := by
    intro t ht
    unfold UhatF
    rw [if_pos (by omega), Nat.add_sub_cancel_left]
  rw [e1, Finset.sum_Ico_eq_sum_range, Nat.add_sub_cancel_left, Finset.range_eq_Ico,
    Finset.sum_eq_sum_Ico_succ_bot hL, Nat.add_zero]
  have e0 := e2 0 hL
  rw [Nat.add_zero] at e0
  rw [e0]
  congr 1
  apply Finset.sum_congr rfl
  intro t ht
  rw [Finset.mem_Ico] at ht
  rw [e2 t ht.2, Nat.add_comm i t]

/-- **back substitution on the compact upper factor, backward error**: whenever the second loop of
`solve` returns `x̂`, all pivots are non-zero and `Σ_c û_ic μ_ic x̂_c = ŷ_i` EXACTLY, every `μ_ic` a
product of at most `min (n-i) mm ≤ mm` factors `(1+δ)^{±1}` (the right-hand side is not perturbed) -/
theorem back_backwardF (hu : M.u < 1) {au : Mat (Fl M)} {n mm : Nat} {e : Nat → Nat → Fl M}
    (hau : Is au n mm e) (hmm : 0 < mm) (x0 : Array (Fl M)) (hx : x0.size = n)
    {st : Array (Fl M) × Nat}
    (h : (List.range n).reverse.foldlM (fun (xl : Array (Fl M) × Nat) i => do
        let xi ← aget xl.1 i
        let dum ← forM' 1 xl.2 xi (fun dum k => do
          let a ← au.get i k
          let xk ← aget xl.1 (k + i)
          pure (dum - a * xk))
        let p ← au.get i 0
        let q ← divM dum p
        let x ← aset xl.1 i q
        pure (x, if xl.2 < mm then xl.2 + 1 else xl.2)) (x0, 1) = .ok st) :
    st.1.size = n ∧ ∃ mu : Nat → Nat → ℝ, (∀ i c, M.Th mm (mu i c)) ∧
      ∀ i, i < n → (e i 0).val ≠ 0 ∧
        ∑ c ∈ Finset.range n, UhatF mm e i c * (mu i c * (st.1[c]?.getD 0).val)
          = (x0[i]?.getD 0).val := by
  obtain ⟨hsz, hrows⟩ := back_specK hau hmm x0 hx h
  refine ⟨hsz, ?_⟩
  have hrow : ∀ i, ∃ μ : Nat → ℝ, (∀ t, M.Th mm (μ t)) ∧ (i < n → (e i 0).val ≠ 0 ∧
      (x0[i]?.getD 0).val = (e i 0).val * (μ 0 * (st.1[i]?.getD 0).val)
        + ∑ t ∈ Finset.Ico 1 (min (n - i) mm), (e i t).val * (μ t * (st.1[t + i]?.getD 0).val)) := by
    intro i
    by_cases hi : i < n
    · obtain ⟨hne, hq⟩ := Mat.Fl.divM_ok (hrows i hi)
      obtain ⟨θ0, θ, h0, hθ, eq⟩ := Mat.sdot_backward hu (fun k => e i k)
        (fun k => st.1[k + i]?.getD 0) (x0[i]?.getD 0) 1 (min (n - i) mm)
      obtain ⟨τ, hτ, eτ⟩ := FlModel.exists_th hu
        ((Mat.sdot (fun k => e i k) (fun k => st.1[k + i]?.getD 0) (x0[i]?.getD 0) 1
          (min (n - i) mm)).val / (e i 0).val)
      have hτpos := hτ.pos hu
      have hxi : (st.1[i]?.getD 0).val
          = (Mat.sdot (fun k => e i k) (fun k => st.1[k + i]?.getD 0) (x0[i]?.getD 0) 1
            (min (n - i) mm)).val / (e i 0).val * τ := by
        rw [hq, Fl.div_val, eτ]
      have hd : min (n - i) mm - 1 + 1 ≤ mm := by omega
      refine ⟨fun t => if t = 0 then θ0 / τ else θ t, ?_, fun _ => ⟨hne, ?_⟩⟩
      · intro t
        beta_reduce
        by_cases ht : t = 0
        · rw [if_pos ht]; exact (h0.div hu hτ).mono hu hd
        · rw [if_neg ht]; exact (hθ t).mono hu (by omega)
      · rw [eq]
        beta_reduce
        have : ∑ t ∈ Finset.Ico 1 (min (n - i) mm),
              (e i t).val * ((if t = 0 then θ0 / τ else θ t) * (st.1[t + i]?.getD 0).val)
            = ∑ t ∈ Finset.Ico 1 (min (n - i) mm),
              (e i t).val * (st.1[t + i]?.getD 0).val * θ t := by
          apply Finset.sum_congr rfl
          intro t ht
          have : ¬ t = 0 := by have := (Finset.mem_Ico.mp ht).1; omega
          rw [if_neg this]; ring
        rw [this, if_pos rfl, hxi]
        field_simp
    · exact ⟨fun _ => 1, fun _ => FlModel.Th.one.mono hu (Nat.zero_le _), fun h => absurd h hi⟩
  choose μ hμ1 hμ2 using hrow
  refine ⟨fun i c => μ i (c - i), fun i c => hμ1 i (c - i), ?_⟩
  intro i hi
  refine ⟨(hμ2 i hi).1, ?_⟩
  rw [Uhat_row e hi hmm (fun c => μ i (c - i) * (st.1[c]?.getD 0).val), (hμ2 i hi).2]
  rw [Nat.sub_self]
  congr 1
  apply Finset.sum_congr rfl
  intro t _
  rw [Nat.add_sub_cancel]

end BackS

/-! ### composition (pure real algebra, row-dependent constants) -/

section ComposeRow

/-- `lu_compose` of LURounding with constants that may depend on the row -/
theorem lu_compose_row {n : Nat} (L U B : Nat → Nat → ℝ) (β y x : Nat → ℝ)
    (Θ : Nat → Nat → Nat → ℝ) (lam mu : Nat → Nat → ℝ) (e1 e2 : Nat → ℝ)
    (hB : ∀ r c, r < n → c < n → B r c = ∑ k ∈ Finset.range n, L r k * (U k c * Θ r c k))
    (hL : ∀ r, r < n → ∑ k ∈ Finset.range n, L r k * (lam r k * y k) = β r)
    (hU : ∀ k, k < n → ∑ c ∈ Finset.range n, U k c * (mu k c * x c) = y k)
    (hΘ : ∀ r c k, r < n → c < n → k < n → |Θ r c k - 1| ≤ e1 r)
    (hlm : ∀ r k c, r < n → k < n → c < n → |lam r k * mu k c - 1| ≤ e2 r) :
    ∃ ΔA : Nat → Nat → ℝ,
      (∀ r, r < n → ∑ c ∈ Finset.range n, (B r c + ΔA r c) * x c = β r) ∧
      ∀ r c, r < n → c < n →
        |ΔA r c| ≤ (e1 r + e2 r) * ∑ k ∈ Finset.range n, |L r k| * |U k c| := by
  refine ⟨fun r c => ∑ k ∈ Finset.range n, L r k * U k c * (lam r k * mu k c - Θ r c k), ?_, ?_⟩
  · intro r hr
    rw [← hL r hr]
    have e : ∀ c ∈ Finset.range n,
        (B r c + ∑ k ∈ Finset.range n, L r k * U k c * (lam r k * mu k c - Θ r c k)) * x c
          = ∑ k ∈ Finset.range n, L r k * (lam r k * (U k c * (mu k c * x c))) := by
      intro c hc
      rw [hB r c hr (Finset.mem_range.mp hc), ← Finset.sum_add_distrib, Finset.sum_mul]
      apply Finset.sum_congr rfl
      intro k _
      ring
    rw [Finset.sum_congr rfl e, Finset.sum_comm]
    apply Finset.sum_congr rfl
    intro k hk
    rw [← hU k (Finset.mem_range.mp hk), Finset.mul_sum, Finset.mul_sum]
  · intro r c hr hc
    beta_reduce
    rw [Finset.mul_sum]
    refine (Finset.abs_sum_le_sum_abs _ _).trans (Finset.sum_le_sum ?_)
    intro k hk
    have hk' := Finset.mem_range.mp hk
    have h1 := hΘ r c k hr hc hk'
    have h2 := hlm r k c hr hk' hc
    have h3 : |lam r k * mu k c - Θ r c k| ≤ e1 r + e2 r := by
      have : lam r k * mu k c - Θ r c k = (lam r k * mu k c - 1) - (Θ r c k - 1) := by ring
      rw [this]
      exact (abs_sub _ _).trans (by linarith)
    rw [abs_mul, abs_mul]
    have h4 : 0 ≤ |L r k| * |U k c| := by positivity
    nlinarith

end ComposeRow

/-! ### assembly: the factors of a run, and the backward error of `solve` -/

section Assemble
variable {M : FlModel}

/-- the computed unit lower factor `L̂` of `P·B = L̂·Û` (real values) of a returned state -/
def LhatF (n m1 : Nat) (s : Dec (Fl M)) (r t : Nat) : ℝ :=
  if t = r then 1
  else Lt n m1 (fun a b => (Mat.entryOf s.al a b).val) (idxf s.index) n r t

/-- the computed upper factor `Û` of a returned state -/
def UhatS (mm : Nat) (s : Dec (Fl M)) : Nat → Nat → ℝ := UhatF mm (Mat.entryOf s.au)

/-- `(|L̂||Û|)_{rc}` -/
def absLUF (n m1 mm : Nat) (s : Dec (Fl M)) (r c : Nat) : ℝ :=
  ∑ t ∈ Finset.range n, |LhatF n m1 s r t| * |UhatS mm s t c|

/-- the row permutation of a returned state: position `r` of `L̂Û` is row `permF n s r` of `B` -/
def permF (n : Nat) (s : Dec (Fl M)) : Nat → Nat := pik (idxf s.index) n
def permInvF (n : Nat) (s : Dec (Fl M)) : Nat → Nat := sig (idxf s.index) n

/-- the number of elimination steps the row that ends at position `r` went through
(`≤ r`; `≤ m1` without row exchanges) -/
def stayF (n m1 : Nat) (s : Dec (Fl M)) (r : Nat) : Nat := age n m1 (idxf s.index) n r

theorem absLUF_nonneg (n m1 mm : Nat) (s : Dec (Fl M)) (r c : Nat) : 0 ≤ absLUF n m1 mm s r c :=
  Finset.sum_nonneg (fun _ _ => mul_nonneg (abs_nonneg _) (abs_nonneg _))

/-- at the end of `decompose` every entry of the permuted input is `Σ_t l̂_rt û_tc Θ_t` with at
most `mm = m1 + m2 + 1` rounding factors in each `Θ_t` — independently of `n` -/
theorem DecInvF.rowrel (hu : M.u < 1) {n m1 mm : Nat} {B : Nat → Nat → ℝ} {s : Dec (Fl M)}
    {l : Nat} (hmm : 0 < mm) (h : DecInvF M n m1 mm B n (s, l)) :
    ∀ r c, r < n → c < n → ∃ Θ : Nat → ℝ, (∀ t, M.Th mm (Θ t)) ∧
      B (permF n s r) c = ∑ t ∈ Finset.range n, LhatF n m1 s r t * (UhatS mm s t c * Θ t) := by
  obtain ⟨_, _, _, _, hidx, hM, _⟩ := h
  simp only at hidx hM
  intro r c hr hc
  have P := hM r c hr hc
  have e0 : min r n = r := by omega
  rw [e0] at P
  obtain ⟨Θ, hΘ, e⟩ := P.full hu hr
    (fun t ht => Lt_zero_of_row n (fun k' hk' => by have := hidx k' hk'; omega) r t ht) rfl
    (by
      intro hne
      rw [twinK_final _ hr] at hne
      have hcr : r ≤ c := by
        by_contra hcon
        apply hne
        unfold UhatF
        rw [if_neg (by omega)]
      unfold NN; omega)
  refine ⟨Θ, hΘ, ?_⟩
  show B (pik (idxf s.index) n r) c = _
  rw [e]
  apply Finset.sum_congr rfl
  intro t ht
  rw [twinK_final _ (Finset.mem_range.mp ht)]
  rfl

/-- **the factorisation, backward error**: `|L̂Û − P·B| ≤ gq (m1+m2+1) · |L̂||Û|` componentwise -/
theorem DecInvF.backward (hu : M.u < 1) {n m1 mm : Nat} {B : Nat → Nat → ℝ} {s : Dec (Fl M)}
    {l : Nat} (hmm : 0 < mm) (h : DecInvF M n m1 mm B n (s, l)) :
    ∀ r c, r < n → c < n →
      |∑ t ∈ Finset.range n, LhatF n m1 s r t * UhatS mm s t c - B (permF n s r) c|
        ≤ M.gq mm * absLUF n m1 mm s r c := by
  intro r c hr hc
  obtain ⟨Θ, hΘ, e⟩ := h.rowrel hu hmm r c hr hc
  rw [e, ← Finset.sum_sub_distrib]
  unfold absLUF
  rw [Finset.mul_sum]
  refine (Finset.abs_sum_le_sum_abs _ _).trans (Finset.sum_le_sum ?_)
  intro t _
  have h1 := (hΘ t).abs_sub_one_le hu
  have e2 : LhatF n m1 s r t * UhatS mm s t c - LhatF n m1 s r t * (UhatS mm s t c * Θ t)
      = LhatF n m1 s r t * UhatS mm s t c * (1 - Θ t) := by ring
  rw [e2, abs_mul, abs_mul, abs_sub_comm]
  have h4 : 0 ≤ |LhatF n m1 s r t| * |UhatS mm s t c| := by positivity
  nlinarith

/-- **`Band.solve` in `Fl M`, backward error, core statement** (see `Ohsl/Props/C04F.lean`):
`ΔB'` is the perturbation of the row-permuted dense twin. -/
theorem solve_backward_coreF (hu : M.u < 1) {b : Band (Fl M)} (h : WFb b) {rhs x : Array (Fl M)}
    (hs : solve b rhs = .ok x) :
    ∃ s l, decompose b = .ok s ∧ b.m1 ≤ b.n ∧ rhs.size = b.n ∧ x.size = b.n ∧
      DecInvF M b.n b.m1 (b.m1 + b.m2 + 1) (fun i j => (dense b i j).val) b.n (s, l) ∧
      (∀ i, i < b.n → (Mat.entryOf s.au i 0).val ≠ 0) ∧
      ∃ ΔB : Nat → Nat → ℝ,
        (∀ r, r < b.n → ∑ c ∈ Finset.range b.n,
          ((dense b (permF b.n s r) c).val + ΔB r c) * (x[c]?.getD 0).val
            = (rhs[permF b.n s r]?.getD 0).val) ∧
        ∀ r c, r < b.n → c < b.n → |ΔB r c| ≤
          (M.gq (b.m1 + b.m2 + 1) + M.gq (stayF b.n b.m1 s r + (b.m1 + b.m2 + 1)))
            * absLUF b.n b.m1 (b.m1 + b.m2 + 1) s r c := by
  by_cases hm : b.m1 ≤ b.n
  swap
  · exfalso
    by_cases hr : rhs.size = b.n
    · rw [solve_rejects_m1 h (by omega) rhs hr] at hs; cases hs
    · unfold solve at hs
      rw [if_pos (fun e => hr e.symm)] at hs; cases hs
  obtain ⟨s, l, hdec, hinv⟩ := decompose_invF hu h hm
  have hinv' := hinv
  obtain ⟨hl, hau, hal, hsz, hidx, hM, hmult⟩ := hinv'
  simp only at hl hau hal hsz hidx hM hmult
  have hmm : 0 < b.m1 + b.m2 + 1 := by omega
  unfold solve at hs
  by_cases hn : b.n ≠ rhs.size
  · rw [if_pos hn] at hs; cases hs
  rw [if_neg hn] at hs
  have hr : rhs.size = b.n := by omega
  obtain ⟨s', hs1, hs⟩ := bind_eq_ok hs
  rw [hdec] at hs1
  injection hs1 with hs1
  subst hs1
  obtain ⟨st, hs2, hs⟩ := bind_eq_ok hs
  obtain ⟨st0, hf1, hf2, hf3⟩ := solve_fwd_specK hal hsz hidx hm rhs hr
  rw [hf1] at hs2
  injection hs2 with hs2
  subst hs2
  obtain ⟨xf, lf⟩ := st0
  simp only at hs hf2 hf3
  obtain ⟨st, hs3, hs⟩ := bind_eq_ok hs
  injection hs with hs
  subst hs
  obtain ⟨hsize, mu, hmu, hrows⟩ := back_backwardF hu hau hmm xf hf2 hs3
  refine ⟨s, l, hdec, hm, hr, hsize, hinv, fun i hi => (hrows i hi).1, ?_⟩
  -- the forward substitution
  have hidx2 : ∀ k, k < b.n → k ≤ idxf s.index k - 1 ∧ idxf s.index k - 1 < b.n := by
    intro k hk
    have := hidx k hk
    omega
  have hV := fwd_invF (m1 := b.m1) hu (Mat.entryOf s.al) (idxf s.index)
    (fun a => rhs[a]?.getD 0) hidx2 b.n (Nat.le_refl _)
  have hlam : ∀ r, ∃ lam : Nat → ℝ, r < b.n →
      (∀ t, M.Th (stayF b.n b.m1 s r) (lam t)) ∧
      (rhs[permF b.n s r]?.getD 0).val = ∑ t ∈ Finset.range b.n,
        LhatF b.n b.m1 s r t * (lam t * (xf[t]?.getD 0).val) := by
    intro r
    by_cases hrn : r < b.n
    · have P := hV r hrn
      have e0 : min r b.n = r := by omega
      rw [e0] at P
      obtain ⟨Θ, hΘ, e⟩ := P.full hu hrn
        (fun t ht => Lt_zero_of_row b.n (fun k' hk' => (hidx2 k' hk').1) r t ht) rfl
        (fun _ => Nat.le_refl _)
      refine ⟨Θ, fun _ => ⟨hΘ, ?_⟩⟩
      show (rhs[pik (idxf s.index) b.n r]?.getD 0).val = _
      beta_reduce at e
      rw [e]
      apply Finset.sum_congr rfl
      intro t _
      rw [hf3 t]
      unfold LhatF
      ring
    · exact ⟨fun _ => 1, fun h => absurd h hrn⟩
  choose lam hlam using hlam
  -- the factorisation
  have hΘ' : ∀ r c, ∃ Θ : Nat → ℝ, r < b.n → c < b.n → (∀ t, M.Th (b.m1 + b.m2 + 1) (Θ t)) ∧
      (dense b (permF b.n s r) c).val = ∑ t ∈ Finset.range b.n,
        LhatF b.n b.m1 s r t * (UhatS (b.m1 + b.m2 + 1) s t c * Θ t) := by
    intro r c
    by_cases hrc : r < b.n ∧ c < b.n
    · obtain ⟨Θ, h1, h2⟩ := hinv.rowrel hu hmm r c hrc.1 hrc.2
      exact ⟨Θ, fun _ _ => ⟨h1, h2⟩⟩
    · exact ⟨fun _ => 1, fun h1 h2 => absurd ⟨h1, h2⟩ hrc⟩
  choose Θ hΘ using hΘ'
  exact lu_compose_row (LhatF b.n b.m1 s) (UhatS (b.m1 + b.m2 + 1) s)
    (fun r c => (dense b (permF b.n s r) c).val) (fun r => (rhs[permF b.n s r]?.getD 0).val)
    (fun k => (xf[k]?.getD 0).val) (fun c => (st.1[c]?.getD 0).val) Θ lam mu
    (fun _ => M.gq (b.m1 + b.m2 + 1))
    (fun r => M.gq (stayF b.n b.m1 s r + (b.m1 + b.m2 + 1)))
    (fun r c hr hc => (hΘ r c hr hc).2)
    (fun r hr => ((hlam r hr).2).symm)
    (fun k hk => (hrows k hk).2)
    (fun r c k hr hc _ => ((hΘ r c hr hc).1 k).abs_sub_one_le hu)
    (fun r k c hr _ _ => (((hlam r hr).1 k).mul hu (hmu k c)).abs_sub_one_le hu)

end Assemble

end Band
end Ohsl
