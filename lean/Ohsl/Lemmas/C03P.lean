/-
  Ohsl.Lemmas.C03P — real-analysis and list helpers for `Ohsl/Props/C03P.lean` (rounding of the
  entrywise matrix `p`-norm): the row-major index list of an `r × c` matrix, and the effect of a
  perturbed EXPONENT on a real power (`S ^ q'` against `S ^ q` for `S` in a range `[R⁻¹, R]`).
-/
import Mathlib.Analysis.SpecialFunctions.Pow.Real
import Mathlib.Algebra.BigOperators.Intervals
import Mathlib.Algebra.Order.BigOperators.Group.Finset
import Mathlib.Tactic.Ring
import Mathlib.Tactic.Linarith
import Mathlib.Tactic.Positivity
set_option linter.unusedSectionVars false
set_option linter.unusedVariables false

namespace Ohsl.C03P

/-! ### the row-major index list -/

/-- the index pairs `(0,0), (0,1), …, (0,c-1), (1,0), …, (r-1,c-1)` in row-major order -/
def idx (r c : Nat) : List (Nat × Nat) :=
  (List.range r).flatMap (fun i => (List.range c).map (fun j => (i, j)))

theorem idx_succ (r c : Nat) :
    idx (r + 1) c = idx r c ++ (List.range c).map (fun j => (r, j)) := by
  simp [idx, List.range_succ, List.flatMap_append]

theorem idx_zero (c : Nat) : idx 0 c = [] := rfl

theorem length_idx (r c : Nat) : (idx r c).length = r * c := by
  induction r with
  | zero => simp [idx_zero]
  | succ r ih => rw [idx_succ, List.length_append, ih, List.length_map, List.length_range,
      Nat.succ_mul]

theorem mem_idx {r c : Nat} {ij : Nat × Nat} : ij ∈ idx r c ↔ ij.1 < r ∧ ij.2 < c := by
  obtain ⟨i, j⟩ := ij
  simp only [idx, List.mem_flatMap, List.mem_range, List.mem_map, Prod.mk.injEq]
  constructor
  · rintro ⟨a, ha, b, hb, rfl, rfl⟩; exact ⟨ha, hb⟩
  · rintro ⟨hi, hj⟩; exact ⟨i, hi, j, hj, rfl, rfl⟩

/-- a fold over the index list is the nested fold (outer loop over rows, inner loop over columns,
one running state) -/
theorem foldl_idx {σ : Type} (r c : Nat) (h : σ → Nat → Nat → σ) (init : σ) :
    (idx r c).foldl (fun s ij => h s ij.1 ij.2) init
      = (List.range r).foldl (fun s i => (List.range c).foldl (fun s j => h s i j) s) init := by
  induction r with
  | zero => simp [idx_zero]
  | succ r ih =>
    rw [idx_succ, List.foldl_append, ih, List.range_succ, List.foldl_append, List.foldl_map]
    simp

theorem sum_map_range_row (c : Nat) (f : Nat → ℝ) :
    ((List.range c).map f).sum = ∑ j ∈ Finset.range c, f j := by
  induction c with
  | zero => simp
  | succ c ihc =>
    rw [List.range_succ, List.map_append, List.sum_append, ihc, Finset.sum_range_succ]
    simp

/-- a sum over the index list is the double sum -/
theorem sum_idx (r c : Nat) (g : Nat × Nat → ℝ) :
    ((idx r c).map g).sum = ∑ i ∈ Finset.range r, ∑ j ∈ Finset.range c, g (i, j) := by
  induction r with
  | zero => simp [idx_zero]
  | succ r ih =>
    rw [idx_succ, List.map_append, List.sum_append, ih, Finset.sum_range_succ, List.map_map,
      sum_map_range_row]
    rfl

/-! ### a perturbed exponent -/

/-- for `S ∈ [R⁻¹, R]` (`R ≥ 1`) and `|t| ≤ d`: `S ^ t ≤ R ^ d` -/
theorem rpow_le_of_range {S R t d : ℝ} (hR : 1 ≤ R) (hlo : R⁻¹ ≤ S) (hhi : S ≤ R)
    (ht : |t| ≤ d) : S ^ t ≤ R ^ d := by
  have hRpos : 0 < R := by linarith
  have hS : 0 < S := lt_of_lt_of_le (inv_pos.mpr hRpos) hlo
  obtain ⟨ht1, ht2⟩ := abs_le.mp ht
  by_cases h0 : 0 ≤ t
  · exact (Real.rpow_le_rpow hS.le hhi h0).trans (Real.rpow_le_rpow_of_exponent_le hR ht2)
  · have h0 := not_le.mp h0
    have hinv : S⁻¹ ≤ R := inv_le_of_inv_le₀ hRpos hlo
    have e : S ^ t = S⁻¹ ^ (-t) := by
      rw [Real.inv_rpow hS.le, ← Real.rpow_neg hS.le, neg_neg]
    rw [e]
    exact (Real.rpow_le_rpow (inv_nonneg.mpr hS.le) hinv (by linarith)).trans
      (Real.rpow_le_rpow_of_exponent_le hR (by linarith))

/-- **perturbed exponent**: for `S ∈ [R⁻¹, R]` (`R ≥ 1`) and `|q' − q| ≤ d`
`R ^ (−d) · S ^ q ≤ S ^ q' ≤ R ^ d · S ^ q`.  (Without a range for `S` no such bound exists:
`S ^ (q' − q) = exp ((q' − q) log S)` is unbounded in `S`.) -/
theorem rpow_exponent_perturb {S R q q' d : ℝ} (hR : 1 ≤ R) (hlo : R⁻¹ ≤ S) (hhi : S ≤ R)
    (hq : |q' - q| ≤ d) :
    R ^ (-d) * S ^ q ≤ S ^ q' ∧ S ^ q' ≤ R ^ d * S ^ q := by
  have hRpos : 0 < R := by linarith
  have hS : 0 < S := lt_of_lt_of_le (inv_pos.mpr hRpos) hlo
  have hSq : 0 < S ^ q := Real.rpow_pos_of_pos hS q
  have e : S ^ q' = S ^ (q' - q) * S ^ q := by
    rw [← Real.rpow_add hS]; congr 1; ring
  have h1 : S ^ (q' - q) ≤ R ^ d := rpow_le_of_range hR hlo hhi hq
  have h2 : S ^ (-(q' - q)) ≤ R ^ d := rpow_le_of_range hR hlo hhi (by rwa [abs_neg])
  have hRd : 0 < R ^ d := Real.rpow_pos_of_pos hRpos d
  have hpos : 0 < S ^ (q' - q) := Real.rpow_pos_of_pos hS _
  have h3 : R ^ (-d) ≤ S ^ (q' - q) := by
    rw [Real.rpow_neg hRpos.le, Real.rpow_neg hS.le] at *
    exact inv_le_of_inv_le₀ hpos h2
  rw [e]
  exact ⟨mul_le_mul_of_nonneg_right h3 hSq.le, mul_le_mul_of_nonneg_right h1 hSq.le⟩

/-- `(1 + γ) ^ q ≤ 1 + γ` and `1 − γ ≤ (1 − γ) ^ q` for `0 ≤ γ ≤ 1`, `0 ≤ q ≤ 1` -/
theorem one_add_rpow_le {g q : ℝ} (hg : 0 ≤ g) (hq1 : q ≤ 1) : (1 + g) ^ q ≤ 1 + g := by
  have := Real.rpow_le_rpow_of_exponent_le (by linarith : (1 : ℝ) ≤ 1 + g) hq1
  rwa [Real.rpow_one] at this

theorem one_sub_le_rpow {g q : ℝ} (hg1 : g ≤ 1) (hg : 0 ≤ g) (hq0 : 0 ≤ q) (hq1 : q ≤ 1) :
    1 - g ≤ (1 - g) ^ q := by
  have := Real.rpow_le_rpow_of_exponent_ge' (by linarith : (0 : ℝ) ≤ 1 - g) (by linarith) hq0 hq1
  rwa [Real.rpow_one] at this

end Ohsl.C03P
