/-
  Ohsl.Lemmas.CxField — the model's complex numbers over ℝ, `Cx ℝ`, satisfy the laws the class-(E)
  development of the dense direct solvers rests on (`Alg.DivLaw`, `Alg.PivotLaws`), WITH THE MODEL'S
  OWN INSTANCES: `+ - * neg 0 1` are `Cx.add`, …, `==` is `Cx.beq`, and the scalar extension is
  `Cx.instScalarExt` (`divM = Cx.div`, `lt` = the lexicographic `Cx.lt`, `mag z = |z| + 0i`).

  * `field`       a `Field (Cx ℝ)` whose `0 1 + * - neg` are definitionally the model's instances
                  (`Function.Injective.field` along `toC : Cx ℝ → ℂ`); `⁻¹`, `/`, the scalar
                  actions, powers and casts are transported from ℂ (the solver code uses none of
                  them: it divides with `divM`)
  * `lawfulBEq`   the model's `==` on `Cx ℝ` is lawful
  * `divLaw`      `Cx.div a b = if b = 0 then error else ok (a / b)`
  * `pivotLaws`   `lt (mag a) (mag b) = decide (‖toC a‖ < ‖toC b‖)`: partial pivoting on complex
                  scalars compares moduli
  * `toCHom`, `det_toC`   `toC` as a ring homomorphism out of that field, and
                  `Matrix.det` over ℂ of the `toC`-image of a matrix
-/
import Ohsl.Props.C13R
import Ohsl.Props.C14
import Ohsl.Lemmas.LUDet
import Mathlib.Algebra.Field.Basic
import Mathlib.Analysis.Complex.Norm
import Mathlib.LinearAlgebra.Matrix.Determinant.Basic
set_option linter.unusedSectionVars false
set_option linter.unusedVariables false
set_option linter.unusedSimpArgs false
namespace Ohsl.CxField
open Ohsl Ohsl.Cx Ohsl.RealI Ohsl.Props.C13 Ohsl.Props.C14

/-- the inverse of `toC` -/
def ofC (c : ℂ) : Cx ℝ := ⟨c.re, c.im⟩

@[simp] theorem toC_ofC (c : ℂ) : toC (ofC c) = c := rfl
@[simp] theorem ofC_toC (z : Cx ℝ) : ofC (toC z) = z := rfl

/-- **`Cx ℝ` as a field.**  `0 1 + * - neg` are the model's instances (`Cx.instZero`, …), reused
    as they are; the remaining operations of the `Field` structure are transported from ℂ. -/
@[instance_reducible] noncomputable def field : Field (Cx ℝ) :=
  letI : Inv (Cx ℝ) := ⟨fun z => ofC (toC z)⁻¹⟩
  letI : Div (Cx ℝ) := ⟨fun a b => ofC (toC a / toC b)⟩
  letI : SMul ℕ (Cx ℝ) := ⟨fun n z => ofC (n • toC z)⟩
  letI : SMul ℤ (Cx ℝ) := ⟨fun n z => ofC (n • toC z)⟩
  letI : SMul ℚ≥0 (Cx ℝ) := ⟨fun q z => ofC (q • toC z)⟩
  letI : SMul ℚ (Cx ℝ) := ⟨fun q z => ofC (q • toC z)⟩
  letI : Pow (Cx ℝ) ℕ := ⟨fun z n => ofC (toC z ^ n)⟩
  letI : Pow (Cx ℝ) ℤ := ⟨fun z n => ofC (toC z ^ n)⟩
  letI : NatCast (Cx ℝ) := ⟨fun n => ofC n⟩
  letI : IntCast (Cx ℝ) := ⟨fun n => ofC n⟩
  letI : NNRatCast (Cx ℝ) := ⟨fun q => ofC q⟩
  letI : RatCast (Cx ℝ) := ⟨fun q => ofC q⟩
  Function.Injective.field toC toC_injective toC_zero toC_one toC_add toC_mul toC_neg toC_sub
    (fun _ => rfl) (fun _ _ => rfl) (fun _ _ => rfl) (fun _ _ => rfl) (fun _ _ => rfl)
    (fun _ _ => rfl) (fun _ _ => rfl) (fun _ _ => rfl) (fun _ => rfl) (fun _ => rfl)
    (fun _ => rfl) (fun _ => rfl)

/-- the ring operations of `field` are the model's operations, by definition -/
theorem field_ops (a b : Cx ℝ) :
    field.add a b = Cx.add a b ∧ field.mul a b = Cx.mul a b ∧ field.neg a = Cx.neg a ∧
    field.sub a b = Cx.sub a b ∧ field.zero = Cx.zero ∧ field.one = Cx.one :=
  ⟨rfl, rfl, rfl, rfl, rfl, rfl⟩

theorem toC_div_field (a b : Cx ℝ) : toC (field.div a b) = toC a / toC b := rfl

/-- the model's `PartialEq` on `Cx ℝ` is lawful -/
instance lawfulBEq : LawfulBEq (Cx ℝ) where
  rfl := by
    intro a
    show Cx.beq a a = true
    simp [Cx.beq]
  eq_of_beq := by
    intro a b h
    have h' : Cx.beq a b = true := h
    simp only [Cx.beq, Bool.and_eq_true, beq_iff_eq] at h'
    cases a; cases b
    simp only at h'
    rw [h'.1, h'.2]

section Laws
attribute [local instance] field

/-- the model's complex division is the field division guarded by an exact zero test -/
instance divLaw : Alg.DivLaw (Cx ℝ) where
  divM_zero a := (toC_div_error a 0).2 toC_zero
  divM_ne a b hb := by
    have hb' : toC b ≠ 0 := fun h => hb (toC_eq_zero.mp h)
    obtain ⟨q, hq, e⟩ := toC_div_ok a b hb'
    show Cx.div a b = .ok (a / b)
    rw [hq]
    congr 1
    exact toC_injective e

theorem abs_zero : Cx.abs (0 : Cx ℝ) = 0 := by
  rw [abs_eq, toC_zero, norm_zero]

/-- the comparison of two magnitudes by the model's lexicographic `<` on `Cx ℝ` is the
    comparison of the moduli -/
theorem lt_mag (a b : Cx ℝ) :
    ScalarExt.lt (ScalarExt.mag a) (ScalarExt.mag b) = decide (‖toC a‖ < ‖toC b‖) := by
  show Cx.lt ⟨Cx.abs a, 0⟩ ⟨Cx.abs b, 0⟩ = _
  rw [← abs_eq, ← abs_eq]
  unfold Cx.lt
  by_cases h : Cx.abs a = Cx.abs b
  · simp [h]
  · have : (Cx.abs a != Cx.abs b) = true := by simpa using h
    simp only [this, if_true]
    rfl

/-- **partial pivoting on complex scalars compares moduli** -/
noncomputable instance pivotLaws : Alg.PivotLaws (Cx ℝ) where
  S := ℝ
  size z := ‖toC z‖
  lt_mag := lt_mag
  mag_zero := by
    show (⟨Cx.abs (0 : Cx ℝ), 0⟩ : Cx ℝ) = 0
    rw [abs_zero]; rfl
  size_zero_le a := by rw [toC_zero, norm_zero]; exact norm_nonneg _
  eq_zero_of_size a h := by
    rw [toC_zero, norm_zero, norm_eq_zero] at h
    exact toC_eq_zero.mp h

/-- `toC` as a ring homomorphism out of `field` -/
noncomputable def toCHom : Cx ℝ →+* ℂ where
  toFun := toC
  map_one' := toC_one
  map_mul' := toC_mul
  map_zero' := toC_zero
  map_add' := toC_add

/-- the complex matrix described by an entry function over `Cx ℝ` -/
noncomputable def toCMat (n : Nat) (e : Nat → Nat → Cx ℝ) : Matrix (Fin n) (Fin n) ℂ :=
  Matrix.of fun i j => toC (e i.val j.val)

theorem toCMat_eq (n : Nat) (e : Nat → Nat → Cx ℝ) :
    toCMat n e = toCHom.mapMatrix (Mat.toMat n e) := rfl

/-- `Matrix.det` over ℂ of the image is the image of `Matrix.det` over the field `Cx ℝ` -/
theorem det_toC (n : Nat) (e : Nat → Nat → Cx ℝ) :
    (toCMat n e).det = toC (Mat.toMat n e).det := by
  rw [toCMat_eq, ← RingHom.map_det]
  rfl

theorem det_ne_zero_iff (n : Nat) (e : Nat → Nat → Cx ℝ) :
    (Mat.toMat n e).det ≠ 0 ↔ (toCMat n e).det ≠ 0 := by
  rw [det_toC]
  exact not_congr toC_eq_zero.symm

theorem toCMat_mul (n : Nat) (e f : Nat → Nat → Cx ℝ) :
    toCHom.mapMatrix (Mat.toMat n e * Mat.toMat n f) = toCMat n e * toCMat n f := by
  rw [map_mul]; rfl

end Laws
end Ohsl.CxField
