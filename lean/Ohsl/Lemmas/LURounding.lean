/-
  Ohsl.Lemmas.LURounding — backward error analysis of the dense LU solver (`Mat.luDecomp`,
  `Mat.forwardSub`, `Mat.backsolve`, `Mat.solveLU`) in the "rounded reals" interpretation `Fl M`
  (Ohsl/Lemmas/Rounding.lean).  Helper file of Ohsl/Props/C01F.lean (read its header first).

  Contents
  * `FlModel.gq`, `FlModel.Th`  the constants `(1-u)^{-n} - 1` and the calculus of relative
        perturbation factors: `Th k t ↔ (1-u)^k ≤ t ≤ (1-u)^{-k}`; `Th.one/mono/mul/inv/div/of_delta`,
        `Th.abs_sub_one_le : Th k t → |t - 1| ≤ gq k`, `gq_add`, `gam_le_gq`, `gq_le_gamma`, `gq_exact`
        (Higham, Lemma 3.1).  Needs only `u < 1`.
  * `Mat.sdot f g c lo hi`      the recurrence `s ← s - f t * g t`, `t = lo … hi-1`, from `c`;
    `Mat.sdot_backward`         (F) `c = ŝ θ₀ + Σ f_t g_t θ_t` exactly, `θ ∈ Th (hi - lo)`
                                (Higham, Lemma 8.4, for this order of evaluation).
  * (S) `forwardSub_sdot`, `backsolve_sdot`, `luElimRow_struct`: what the loops compute, for every
        scalar type (no algebraic law): the structural part of the invariants of SolveSound.lean.
  * (F) `backsolve_backward_ent`, `forwardSub_backward_ent`: layer A with the canonical entry
        functions and full sums `Σ_{c<n} Ufn … `, `Σ_{k<n} Lfn …` (`Lfn`, `Ufn` of LUDet.lean at `ℝ`).
  * (F) `luPivot_fl`, `LURowF` (+ `init/transfer/skip/elim/full`), `luElimLoop_fl`, `PermOK`,
        `swapIdx`, `LUInvF` (+ `swap/elim/skip/backward`), `luStep_fl`, `luDecomp_fl`: layer B — the
        invariant of `lu_decomp_in_place` with partial pivoting: recorded permutation, row relation
        with perturbation factors, multipliers `≤ 1 + u` (`Fl.abs_div_le`).
  * (F) `foldl_single`, `mulVec_perm_fl` (`P·b` costs up to `n+1` roundings in the abstract model),
        `foldl_single_rep`, `mulVec_perm_rep` (none for a representable `b`).
  * `lu_compose` (pure real algebra), `solveLU_backward_core`: layer C.
  * `maxRow`, `rowNorm`: the maximum absolute row sum.
-/
import Ohsl.Model.Solve
import Ohsl.Lemmas.SolveSound
import Ohsl.Lemmas.LUDet
import Ohsl.Lemmas.Rounding
import Mathlib.Algebra.BigOperators.Group.Finset.Basic
import Mathlib.Algebra.BigOperators.Ring.Finset
import Mathlib.Algebra.BigOperators.Intervals
import Mathlib.Algebra.Order.BigOperators.Group.Finset
import Mathlib.Tactic.Ring
import Mathlib.Tactic.Linarith
import Mathlib.Tactic.Positivity
import Mathlib.Tactic.FieldSimp
set_option linter.unusedSectionVars false
set_option linter.unusedVariables false
set_option linter.unusedSimpArgs false
namespace Ohsl

/-! ### the constants `(1-u)^{-n} - 1` and the calculus of relative perturbation factors -/

namespace FlModel
variable (M : FlModel)

/-- `(1-u)^{-n} - 1`: the bound for `|∏ (1+δᵢ)^{±1} - 1|`, `|δᵢ| ≤ u < 1`, `n` factors (Higham,
Lemma 3.1; it is `≤ γ_n = n u / (1 - n u)`, see `gq_le_gamma`, and `≥ gam n`, see `gam_le_gq`).
Backward error statements need quotients of `(1+δ)`s, which `gam` does not bound. -/
noncomputable def gq (n : ℕ) : ℝ := ((1 - M.u)⁻¹) ^ n - 1

/-- `t` is a relative perturbation factor made of at most `k` factors `(1+δ)^{±1}`, `|δ| ≤ u`:
`(1-u)^k ≤ t ≤ (1-u)^{-k}` -/
def Th (k : ℕ) (t : ℝ) : Prop := (1 - M.u) ^ k ≤ t ∧ t ≤ ((1 - M.u)⁻¹) ^ k

variable {M}

theorem one_sub_u_pos (hu : M.u < 1) : 0 < 1 - M.u := by linarith
theorem one_sub_u_le_one : 1 - M.u ≤ 1 := by have := M.u_nonneg; linarith
theorem one_le_inv_one_sub_u (hu : M.u < 1) : 1 ≤ (1 - M.u)⁻¹ :=
  (one_le_inv₀ (one_sub_u_pos hu)).mpr one_sub_u_le_one

theorem gq_zero : M.gq 0 = 0 := by simp [gq]
theorem gq_nonneg (hu : M.u < 1) (n : ℕ) : 0 ≤ M.gq n := by
  have := one_le_pow₀ (n := n) (one_le_inv_one_sub_u hu)
  simp only [gq]; linarith
theorem gq_mono (hu : M.u < 1) {m n : ℕ} (h : m ≤ n) : M.gq m ≤ M.gq n := by
  have := pow_le_pow_right₀ (one_le_inv_one_sub_u hu) h
  simp only [gq]; linarith
/-- `(1 + gq a)(1 + gq b) = 1 + gq (a+b)` -/
theorem gq_add (a b : ℕ) : M.gq (a + b) = M.gq a + M.gq b + M.gq a * M.gq b := by
  simp only [gq, pow_add]; ring
/-- `gam n ≤ gq n` -/
theorem gam_le_gq (hu : M.u < 1) (n : ℕ) : M.gam n ≤ M.gq n := by
  have hpos := one_sub_u_pos hu
  have h1 : 1 + M.u ≤ (1 - M.u)⁻¹ := by
    rw [le_inv_comm₀ M.one_add_u_pos hpos, inv_eq_one_div, le_div_iff₀ M.one_add_u_pos]
    nlinarith [M.u_nonneg]
  have := pow_le_pow_left₀ M.one_add_u_pos.le h1 n
  simp only [gq, gam]; linarith
/-- the classical constant: `(1-u)^{-n} - 1 ≤ γ_n = n u / (1 - n u)` when `n u < 1` -/
theorem gq_le_gamma (n : ℕ) (h : n * M.u < 1) : M.gq n ≤ n * M.u / (1 - n * M.u) := by
  have hu0 := M.u_nonneg
  rcases Nat.eq_zero_or_pos n with rfl | hn
  · simp [gq]
  have hu1 : M.u < 1 := by
    have : (1 : ℝ) ≤ n := by exact_mod_cast hn
    nlinarith
  have hpos : 0 < 1 - n * M.u := by linarith
  have hb : 1 - n * M.u ≤ (1 - M.u) ^ n := by
    have := one_add_mul_le_pow (a := -M.u) (by linarith) n
    have e : 1 + (n : ℝ) * -M.u = 1 - n * M.u := by ring
    have e2 : 1 + -M.u = 1 - M.u := by ring
    rw [e, e2] at this
    exact this
  have hinv : ((1 - M.u) ^ n)⁻¹ ≤ (1 - n * M.u)⁻¹ := inv_anti₀ hpos hb
  have e : n * M.u / (1 - n * M.u) = (1 - n * M.u)⁻¹ - 1 := by
    field_simp
    ring
  rw [e]
  simp only [gq, inv_pow]
  linarith
/-- in exact arithmetic all the constants vanish -/
theorem gq_exact (n : ℕ) : FlModel.exact.gq n = 0 := by
  simp [gq, FlModel.exact]

namespace Th

theorem one : M.Th 0 1 := by simp [Th]

theorem pos (hu : M.u < 1) {k : ℕ} {t : ℝ} (h : M.Th k t) : 0 < t :=
  lt_of_lt_of_le (pow_pos (one_sub_u_pos hu) k) h.1

theorem mono (hu : M.u < 1) {k m : ℕ} {t : ℝ} (hkm : k ≤ m) (h : M.Th k t) : M.Th m t :=
  ⟨(pow_le_pow_of_le_one (one_sub_u_pos hu).le one_sub_u_le_one hkm).trans h.1,
   h.2.trans (pow_le_pow_right₀ (one_le_inv_one_sub_u hu) hkm)⟩

theorem mul (hu : M.u < 1) {a b : ℕ} {s t : ℝ} (hs : M.Th a s) (ht : M.Th b t) :
    M.Th (a + b) (s * t) := by
  have hp := one_sub_u_pos hu
  refine ⟨?_, ?_⟩
  · rw [pow_add]
    exact mul_le_mul hs.1 ht.1 (pow_pos hp b).le (hs.pos hu).le
  · rw [pow_add]
    exact mul_le_mul hs.2 ht.2 (ht.pos hu).le (pow_nonneg (inv_pos.mpr hp).le a)

theorem inv (hu : M.u < 1) {a : ℕ} {t : ℝ} (ht : M.Th a t) : M.Th a t⁻¹ := by
  have hp := one_sub_u_pos hu
  refine ⟨?_, ?_⟩
  · have := inv_anti₀ (ht.pos hu) ht.2
    rwa [inv_pow, inv_inv] at this
  · have := inv_anti₀ (pow_pos hp a) ht.1
    rwa [← inv_pow] at this

theorem div (hu : M.u < 1) {a b : ℕ} {s t : ℝ} (hs : M.Th a s) (ht : M.Th b t) :
    M.Th (a + b) (s / t) := by
  rw [div_eq_mul_inv]; exact hs.mul hu (ht.inv hu)

theorem of_delta (hu : M.u < 1) {d : ℝ} (h : |d| ≤ M.u) : M.Th 1 (1 + d) := by
  have hp := one_sub_u_pos hu
  have := abs_le.mp h
  refine ⟨by rw [pow_one]; linarith, ?_⟩
  rw [pow_one]
  have h1 : 1 + M.u ≤ (1 - M.u)⁻¹ := by
    rw [le_inv_comm₀ M.one_add_u_pos hp, inv_eq_one_div, le_div_iff₀ M.one_add_u_pos]
    nlinarith [M.u_nonneg]
  linarith

/-- `|t - 1| ≤ (1-u)^{-k} - 1` -/
theorem abs_sub_one_le (hu : M.u < 1) {k : ℕ} {t : ℝ} (h : M.Th k t) : |t - 1| ≤ M.gq k := by
  have hp : 0 < (1 - M.u) ^ k := pow_pos (one_sub_u_pos hu) k
  have e : ((1 - M.u)⁻¹) ^ k = ((1 - M.u) ^ k)⁻¹ := inv_pow _ _
  have h2 : 2 ≤ (1 - M.u) ^ k + ((1 - M.u) ^ k)⁻¹ := by
    have : ((1 - M.u) ^ k) * ((1 - M.u) ^ k)⁻¹ = 1 := mul_inv_cancel₀ hp.ne'
    have hi : 0 < ((1 - M.u) ^ k)⁻¹ := inv_pos.mpr hp
    nlinarith [sq_nonneg ((1 - M.u) ^ k - 1), sq_nonneg (((1 - M.u) ^ k)⁻¹ - 1)]
  rw [abs_le]
  simp only [gq]
  have h1 := h.1
  have h3 := h.2
  rw [e] at h3 ⊢
  constructor <;> linarith

end Th

/-- the `(1+δ)` form of the standard model with the factor in `Th 1` -/
theorem exists_th (hu : M.u < 1) (x : ℝ) : ∃ t, M.Th 1 t ∧ M.fl x = x * t := by
  obtain ⟨d, hd, e⟩ := M.exists_delta x
  exact ⟨1 + d, Th.of_delta hu hd, e⟩

end FlModel

namespace Mat

/-! ### the subtractive inner-product recurrence -/

section SDot
variable {K : Type} [Sub K] [Mul K]

/-- the recurrence `s ← s - f t * g t` for `t = lo, …, hi-1`, started at `c` (the inner loops of
`forwardSub`, `backsolve`, and — entry by entry — of `luDecomp`) -/
def sdot (f g : Nat → K) (c : K) (lo hi : Nat) : K :=
  (List.range' lo (hi - lo)).foldl (fun acc t => acc - f t * g t) c

theorem sdot_empty (f g : Nat → K) (c : K) {lo hi : Nat} (h : hi ≤ lo) : sdot f g c lo hi = c := by
  have : hi - lo = 0 := by omega
  simp [sdot, this]

theorem sdot_succ (f g : Nat → K) (c : K) {lo hi : Nat} (h : lo ≤ hi) :
    sdot f g c lo (hi + 1) = sdot f g c lo hi - f hi * g hi := by
  unfold sdot
  have e : hi + 1 - lo = (hi - lo) + 1 := by omega
  have e2 : lo + (hi - lo) = hi := by omega
  rw [e, List.range'_concat, List.foldl_append]
  simp [e2]

theorem sdot_congr {f g f' g' : Nat → K} (c : K) (lo hi : Nat)
    (h : ∀ t, lo ≤ t → t < hi → f t = f' t ∧ g t = g' t) :
    sdot f g c lo hi = sdot f' g' c lo hi := by
  induction hi with
  | zero => rw [sdot_empty _ _ _ (Nat.zero_le _), sdot_empty _ _ _ (Nat.zero_le _)]
  | succ k ih =>
    by_cases hk : lo ≤ k
    · rw [sdot_succ _ _ _ hk, sdot_succ _ _ _ hk, ih (fun t h1 h2 => h t h1 (by omega)),
        (h k hk (by omega)).1, (h k hk (by omega)).2]
    · rw [sdot_empty _ _ _ (by omega), sdot_empty _ _ _ (by omega)]

end SDot

section SDotRounding
variable {M : FlModel}

/-- **backward error of the recurrence** (Higham, Lemma 8.4, for the order of evaluation of the
code): with `ŝ = sdot f g c lo hi` computed in `Fl M` (one rounding per product and per
subtraction) `c = ŝ·θ₀ + Σ_{lo ≤ t < hi} f_t g_t θ_t` EXACTLY, every `θ` a product of at most
`hi - lo` factors `(1+δ)^{±1}`. -/
theorem sdot_backward (hu : M.u < 1) (f g : Nat → Fl M) (c : Fl M) (lo hi : Nat) :
    ∃ (θ0 : ℝ) (θ : Nat → ℝ), M.Th (hi - lo) θ0 ∧ (∀ t, M.Th (hi - lo) (θ t)) ∧
      c.val = (sdot f g c lo hi).val * θ0
        + ∑ t ∈ Finset.Ico lo hi, (f t).val * (g t).val * θ t := by
  induction hi with
  | zero =>
    refine ⟨1, fun _ => 1, ?_, fun _ => ?_, ?_⟩
    · simpa using FlModel.Th.one
    · simpa using FlModel.Th.one
    · rw [sdot_empty _ _ _ (Nat.zero_le _)]; simp
  | succ k ih =>
    by_cases hk : lo ≤ k
    · obtain ⟨θ0, θ, h0, hθ, e⟩ := ih
      obtain ⟨τ1, hτ1, e1⟩ := FlModel.exists_th hu ((f k).val * (g k).val)
      obtain ⟨τ2, hτ2, e2⟩ := FlModel.exists_th hu
        ((sdot f g c lo k).val - (f k * g k).val)
      have hs : (sdot f g c lo (k + 1)).val
          = ((sdot f g c lo k).val - (f k).val * (g k).val * τ1) * τ2 := by
        rw [sdot_succ _ _ _ hk, Fl.sub_val, e2, Fl.mul_val, e1]
      have hd : k + 1 - lo = (k - lo) + 1 := by omega
      have hτ2pos := hτ2.pos hu
      refine ⟨θ0 / τ2, fun t => if t = k then τ1 * θ0 else θ t, ?_, ?_, ?_⟩
      · rw [hd]; exact h0.div hu hτ2
      · intro t
        rw [hd]
        beta_reduce
        by_cases htk : t = k
        · rw [if_pos htk, Nat.add_comm]; exact hτ1.mul hu h0
        · rw [if_neg htk]; exact (hθ t).mono hu (by omega)
      · beta_reduce
        rw [Finset.sum_Ico_succ_top hk, hs, e]
        have : ∑ t ∈ Finset.Ico lo k, (f t).val * (g t).val * (if t = k then τ1 * θ0 else θ t)
            = ∑ t ∈ Finset.Ico lo k, (f t).val * (g t).val * θ t := by
          apply Finset.sum_congr rfl
          intro t ht
          have : ¬ t = k := by have := (Finset.mem_Ico.mp ht).2; omega
          rw [if_neg this]
        rw [this, if_pos rfl]
        field_simp
        ring
    · have hz : k + 1 - lo = 0 := by omega
      refine ⟨1, fun _ => 1, ?_, fun _ => ?_, ?_⟩
      · rw [hz]; exact FlModel.Th.one
      · rw [hz]; exact FlModel.Th.one
      · rw [sdot_empty _ _ _ (by omega), Finset.Ico_eq_empty (by omega)]; simp

end SDotRounding

/-! ### structural characterisations (any scalar type): what the loops compute, as recurrences -/

section Structural
variable {K : Type} [Add K] [Sub K] [Mul K] [Neg K] [Zero K] [One K] [BEq K] [ScalarExt K]

/-- (S) unit-lower forward substitution never fails on conformable data and component `r` of the
result is the recurrence `x_r - l_{r0} y_0 - … - l_{r,r-1} y_{r-1}` in this order -/
theorem forwardSub_sdot {m : Mat K} {n : Nat} (hm : WFn m n) {x : Array K} (hx : x.size = n) :
    ∃ y, forwardSub m x = .ok y ∧ y.size = n ∧
      ∀ r, r < n → vf y r = sdot (ent m r) (vf y) (vf x r) 0 r := by
  unfold forwardSub
  rw [hm.2.1]
  obtain ⟨y, hy, hP⟩ := forM'_inv
    (fun i (u : Array K) => u.size = n ∧
      (∀ r, r < i → r < n → vf u r = sdot (ent m r) (vf u) (vf x r) 0 r) ∧
      (∀ r, i ≤ r → vf u r = vf x r))
    0 n x (fun x i =>
      forM' 0 i x (fun x k => do
        let xk ← aget x k
        let xi ← aget x i
        let ik ← m.get i k
        aset x i (xi - ik * xk))) (Nat.zero_le _)
    ⟨hx, by intro r h; omega, fun _ _ => rfl⟩ (by
      intro i u _ hi ⟨hu, hdone, hrest⟩
      obtain ⟨w, hw, hQ⟩ := forM'_inv
        (fun k (w : Array K) => w.size = n ∧ ∀ a, vf w a =
          if a = i then sdot (ent m i) (vf u) (vf u i) 0 k else vf u a)
        0 i u (fun x k => do
          let xk ← aget x k
          let xi ← aget x i
          let ik ← m.get i k
          aset x i (xi - ik * xk)) (Nat.zero_le _)
        ⟨hu, by
          intro a
          by_cases h : a = i
          · subst h; simp [sdot_empty]
          · simp [h]⟩ (by
          intro k w _ hk ⟨hw, hv⟩
          have hkw : k < w.size := by omega
          have hiw : i < w.size := by omega
          refine ⟨w.setIfInBounds i (vf w i - ent m i k * vf w k), ?_, by simpa using hw, ?_⟩
          · simp only [aget_vf hkw, aget_vf hiw, hm.get hi (show k < n by omega), bind, Except.bind]
            exact aset_ok _ hiw
          · intro a
            rw [vf_set _ hiw]
            by_cases hai : a = i
            · subst hai
              have hka : ¬ k = a := by omega
              simp only [if_true]
              rw [hv a, hv k, sdot_succ _ _ _ (Nat.zero_le _)]
              simp only [if_true, hka, if_false]
            · simp only [hai, if_false]
              rw [hv a]; simp [hai])
      obtain ⟨hw1, hw2⟩ := hQ
      refine ⟨w, hw, hw1, ?_, ?_⟩
      · intro r hr1 hr2
        have hcg : ∀ q, q ≤ i → ∀ c : K, sdot (ent m q) (vf w) c 0 q = sdot (ent m q) (vf u) c 0 q := by
          intro q hq c
          apply sdot_congr
          intro t _ ht
          have : ¬ t = i := by omega
          refine ⟨rfl, ?_⟩
          rw [hw2 t]; simp only [this, if_false]
        by_cases hri : r = i
        · subst hri
          rw [hw2 r, hcg r (Nat.le_refl _), hrest r (Nat.le_refl _)]
          simp
        · rw [hw2 r, hcg r (by omega)]
          simp only [hri, if_false]
          exact hdone r (by omega) hr2
      · intro r hr
        have : ¬ r = i := by omega
        rw [hw2 r]; simp only [this, if_false]
        exact hrest r (by omega))
  exact ⟨y, hy, hP.1, fun r hr => hP.2.1 r hr hr⟩

/-- row `i` of the back substitution is finished: the division succeeded and
`x'_i = (x_i - u_{i,i+1} x'_{i+1} - … - u_{i,n-1} x'_{n-1}) / u_ii`, in this order -/
def BSg (m : Mat K) (n : Nat) (x s : Array K) (i : Nat) : Prop :=
  divM (sdot (ent m i) (vf s) (vf x i) (i + 1) n) (ent m i i) = .ok (vf s i)

theorem BSg.congr {m : Mat K} {n : Nat} {x s s' : Array K} {i : Nat}
    (hc : ∀ j, i ≤ j → vf s' j = vf s j) (h : BSg m n x s i) : BSg m n x s' i := by
  unfold BSg at h ⊢
  rw [hc i (Nat.le_refl _), ← h]
  congr 1
  apply sdot_congr
  intro t ht _
  exact ⟨rfl, hc t (by omega)⟩

/-- the inner accumulation loop of `backsolve` for row `k` -/
theorem backsolve_inner_sdot {m : Mat K} {n k : Nat} (hm : WFn m n) (hk : k < n) (s : Array K)
    (hs : s.size = n) :
    ∃ s2, forM' (k + 1) n s (fun x j => do
        let xj ← aget x j
        let xk ← aget x k
        let kj ← m.get k j
        aset x k (xk - kj * xj)) = .ok s2 ∧ s2.size = n ∧
      ∀ a, vf s2 a = if a = k then sdot (ent m k) (vf s) (vf s k) (k + 1) n else vf s a := by
  obtain ⟨s2, h2, hP⟩ := forM'_inv
    (fun t (u : Array K) => u.size = n ∧ ∀ a, vf u a =
      if a = k then sdot (ent m k) (vf s) (vf s k) (k + 1) t else vf s a)
    (k + 1) n s (fun x j => do
        let xj ← aget x j
        let xk ← aget x k
        let kj ← m.get k j
        aset x k (xk - kj * xj)) (by omega)
    ⟨hs, by
      intro a
      by_cases h : a = k
      · subst h; simp [sdot_empty]
      · simp [h]⟩ (by
      intro t u ht1 ht2 ⟨hu, hv⟩
      have htu : t < u.size := by omega
      have hku : k < u.size := by omega
      refine ⟨u.setIfInBounds k (vf u k - ent m k t * vf u t), ?_, by simpa using hu, ?_⟩
      · simp only [aget_vf htu, aget_vf hku, hm.get hk ht2, bind, Except.bind]
        exact aset_ok _ hku
      · intro a
        rw [vf_set _ hku]
        by_cases hak : a = k
        · subst hak
          have htk : t ≠ a := by omega
          simp only [if_true]
          rw [hv a, hv t, sdot_succ _ _ _ ht1]
          simp only [if_true, htk, if_false]
        · simp only [hak, if_false]
          rw [hv a]; simp [hak])
  exact ⟨s2, h2, hP.1, hP.2⟩

/-- (S) whenever `backsolve` returns, every row equation was solved by the recurrence followed by
one division (all divisions succeeded) -/
theorem backsolve_sdot {m : Mat K} {n : Nat} {x x' : Array K} (hm : WFn m n) (hx : x.size = n)
    (hn : 1 ≤ n) (h : backsolve m x = .ok x') :
    x'.size = n ∧ ∀ i, i < n → BSg m n x x' i := by
  unfold backsolve at h
  rw [hm.2.1] at h
  have hl : n - 1 < n := by omega
  have hu : usub n 1 = .ok (n - 1) := by simp [usub, hn]
  have hlx : n - 1 < x.size := by omega
  simp only [hu, aget_vf hlx, hm.get hl hl, bind, Except.bind] at h
  cases hq : divM (vf x (n - 1)) (ent m (n - 1) (n - 1)) with
  | error e => rw [hq] at h; simp at h
  | ok q =>
  rw [hq] at h
  simp only [aset_ok _ hlx] at h
  have key := forM'_ok_inv
    (fun nn (s : Array K) => s.size = n ∧ (∀ i, i < n + 1 - nn → vf s i = vf x i) ∧
      (∀ i, n + 1 - nn ≤ i → i < n → BSg m n x s i))
    2 (n + 1) _ x' _ (by omega) ?init ?step h
  case init =>
    refine ⟨by simpa using hx, ?_, ?_⟩
    · intro i hi
      rw [vf_set _ hlx]
      have : i ≠ n - 1 := by omega
      simp [this]
    · intro i hi1 hi2
      have : i = n - 1 := by omega
      subst this
      unfold BSg
      have e : n - 1 + 1 = n := by omega
      rw [vf_set _ hlx, e, sdot_empty _ _ _ (Nat.le_refl _)]
      simpa using hq
  case step =>
    intro nn s s1 h1 h2 ⟨hs, hun, hdone⟩ hf
    have hus : usub n nn = .ok (n - nn) := by
      have : nn ≤ n := by omega
      simp [usub, this]
    have hk : n - nn < n := by omega
    simp only [hus] at hf
    obtain ⟨s2, hs2, hsz, hv⟩ := backsolve_inner_sdot hm hk s hs
    simp only [bind, Except.bind] at hs2
    rw [hs2] at hf
    have hk2 : n - nn < s2.size := by omega
    simp only [aget_vf hk2, hm.get hk hk] at hf
    cases hq' : divM (vf s2 (n - nn)) (ent m (n - nn) (n - nn)) with
    | error e => rw [hq'] at hf; simp at hf
    | ok q' =>
    rw [hq'] at hf
    simp only [aset_ok _ hk2] at hf
    injection hf with hf
    subst hf
    refine ⟨by simpa using hsz, ?_, ?_⟩
    · intro i hi
      rw [vf_set _ hk2, hv i]
      have : i ≠ n - nn := by omega
      simp only [this, if_false]
      exact hun i (by omega)
    · intro i hi1 hi2
      by_cases hik : i = n - nn
      · subst hik
        unfold BSg
        rw [vf_set _ hk2]
        simp only [if_true]
        rw [← hq', hv (n - nn)]
        simp only [if_true]
        rw [hun (n - nn) (by omega)]
        congr 1
        apply sdot_congr
        intro t ht _
        have : t ≠ n - nn := by omega
        refine ⟨rfl, ?_⟩
        rw [vf_set _ hk2, hv t]
        simp only [this, if_false]
      · refine (hdone i (by omega) hi2).congr ?_
        intro j hj
        have : j ≠ n - nn := by omega
        rw [vf_set _ hk2, hv j]
        simp only [this, if_false]
  obtain ⟨k1, k2, k3⟩ := key
  exact ⟨k1, fun i hi => k3 i (by omega) hi⟩

end Structural

/-! ### layer A: the triangular solves in `Fl M` -/

section Triangular
variable {M : FlModel}

/-- the real values of the entries of a matrix over `Fl M` -/
def valEnt (m : Mat (Fl M)) : Nat → Nat → ℝ := fun r c => (ent m r c).val

theorem Fl.divM_ok {a b q : Fl M} (h : divM a b = .ok q) : b.val ≠ 0 ∧ q = a / b := by
  simp only [divM, ScalarExt.divM] at h
  by_cases hb : b.val = 0
  · simp [hb] at h
  · simp only [hb, if_false] at h
    injection h with h
    exact ⟨hb, h.symm⟩

/-- **back substitution, backward error** (Higham, Thm 8.5): whenever `backsolve U b` returns `x̂`
in `Fl M`, all pivots are non-zero and `x̂` solves EXACTLY a system with perturbed coefficients:
`Σ_{c} u_ic μ_ic x̂_c = b_i` (sum over the upper triangle), every `μ_ic` a product of at most `n - i`
factors `(1+δ)^{±1}` (`n - i - 1` steps of the recurrence and one division).  The right-hand side
is NOT perturbed; the diagonal is. -/
theorem backsolve_backward_ent (hu : M.u < 1) {m : Mat (Fl M)} {n : Nat} {x x' : Array (Fl M)}
    (hm : WFn m n) (hx : x.size = n) (hn : 1 ≤ n) (h : backsolve m x = .ok x') :
    x'.size = n ∧ ∃ μ : Nat → Nat → ℝ, (∀ i c, i < n → M.Th (n - i) (μ i c)) ∧
      ∀ i, i < n → (ent m i i).val ≠ 0 ∧
        ∑ c ∈ Finset.range n, Ufn n (valEnt m) i c * (μ i c * (vf x' c).val) = (vf x i).val := by
  obtain ⟨hsz, hrows⟩ := backsolve_sdot hm hx hn h
  refine ⟨hsz, ?_⟩
  have hrow : ∀ i, ∃ μr : Nat → ℝ, i < n → (∀ c, M.Th (n - i) (μr c)) ∧ (ent m i i).val ≠ 0 ∧
      ∑ c ∈ Finset.range n, Ufn n (valEnt m) i c * (μr c * (vf x' c).val) = (vf x i).val := by
    intro i
    by_cases hi : i < n
    · obtain ⟨hne, hq⟩ := Fl.divM_ok (hrows i hi)
      obtain ⟨θ0, θ, h0, hθ, e⟩ := sdot_backward hu (ent m i) (vf x') (vf x i) (i + 1) n
      obtain ⟨τ, hτ, eτ⟩ := FlModel.exists_th hu
        ((sdot (ent m i) (vf x') (vf x i) (i + 1) n).val / (ent m i i).val)
      have hτpos := hτ.pos hu
      have hxi : (vf x' i).val
          = (sdot (ent m i) (vf x') (vf x i) (i + 1) n).val / (ent m i i).val * τ := by
        rw [hq, Fl.div_val, eτ]
      have hd : n - i = (n - (i + 1)) + 1 := by omega
      refine ⟨fun c => if c = i then θ0 / τ else θ c, fun _ => ⟨?_, hne, ?_⟩⟩
      · intro c
        beta_reduce
        rw [hd]
        by_cases hc : c = i
        · rw [if_pos hc]; exact h0.div hu hτ
        · rw [if_neg hc]; exact (hθ c).mono hu (by omega)
      · rw [Usum (valEnt m) _ hi, e]
        beta_reduce
        have : ∑ k ∈ Finset.Ico (i + 1) n, valEnt m i k * ((if k = i then θ0 / τ else θ k) * (vf x' k).val)
            = ∑ t ∈ Finset.Ico (i + 1) n, (ent m i t).val * (vf x' t).val * θ t := by
          apply Finset.sum_congr rfl
          intro k hk
          have : ¬ k = i := by have := (Finset.mem_Ico.mp hk).1; omega
          rw [if_neg this]
          unfold valEnt
          ring
        rw [this, if_pos rfl, hxi]
        unfold valEnt
        field_simp
    · exact ⟨fun _ => 1, fun h => absurd h hi⟩
  choose μ hμ using hrow
  exact ⟨μ, fun i c hi => (hμ i hi).1 c, fun i hi => (hμ i hi).2⟩

/-- **forward substitution with the unit lower triangle, backward error**: `forwardSub L c` never
fails on conformable data and the result `ŷ` satisfies EXACTLY `Σ_k l_rk λ_rk ŷ_k = c_r` (sum over
the lower triangle with the unit diagonal), every `λ_rk` a product of at most `r` factors
`(1+δ)^{±1}` (no division).  The right-hand side is NOT perturbed; the (unit) diagonal is: it
becomes `λ_rr`. -/
theorem forwardSub_backward_ent (hu : M.u < 1) {m : Mat (Fl M)} {n : Nat} {x : Array (Fl M)}
    (hm : WFn m n) (hx : x.size = n) :
    ∃ y, forwardSub m x = .ok y ∧ y.size = n ∧ ∃ lam : Nat → Nat → ℝ,
      (∀ r k, M.Th r (lam r k)) ∧
      ∀ r, r < n →
        ∑ k ∈ Finset.range n, Lfn (valEnt m) r k * (lam r k * (vf y k).val) = (vf x r).val := by
  obtain ⟨y, hy, hsz, hrows⟩ := forwardSub_sdot hm hx
  refine ⟨y, hy, hsz, ?_⟩
  have hrow : ∀ r, ∃ lr : Nat → ℝ, (∀ k, M.Th r (lr k)) ∧ (r < n →
      ∑ k ∈ Finset.range n, Lfn (valEnt m) r k * (lr k * (vf y k).val) = (vf x r).val) := by
    intro r
    obtain ⟨θ0, θ, h0, hθ, e⟩ := sdot_backward hu (ent m r) (vf y) (vf x r) 0 r
    rw [Nat.sub_zero] at h0 hθ
    refine ⟨fun k => if k = r then θ0 else θ k, ?_, fun hr => ?_⟩
    · intro k
      beta_reduce
      by_cases hk : k = r
      · rw [if_pos hk]; exact h0
      · rw [if_neg hk]; exact hθ k
    · rw [Lsum (valEnt m) _ hr, e, ← hrows r hr, ← Finset.range_eq_Ico]
      beta_reduce
      have : ∑ k ∈ Finset.range r, valEnt m r k * ((if k = r then θ0 else θ k) * (vf y k).val)
          = ∑ t ∈ Finset.range r, (ent m r t).val * (vf y t).val * θ t := by
        apply Finset.sum_congr rfl
        intro k hk
        have : ¬ k = r := by have := Finset.mem_range.mp hk; omega
        rw [if_neg this]
        unfold valEnt
        ring
      rw [this, if_pos rfl]
      ring
  choose lam hlam using hrow
  exact ⟨lam, fun r k => (hlam r).1 k, fun r hr => (hlam r).2 hr⟩

end Triangular

/-! ### layer B: the factorisation — structural part -/

section LUStructural
variable {K : Type} [Add K] [Sub K] [Mul K] [Neg K] [Zero K] [One K] [BEq K] [ScalarExt K]

/-- (S) elimination of row `j` below pivot `i` in place, whenever it returns: the division
succeeded with quotient `q`, `q` replaces entry `(j,i)`, the entries to the right are updated with
`a_jc - q·a_ic`, nothing else changes -/
theorem luElimRow_struct {m m' : Mat K} {n i j : Nat} (hm : WFn m n) (hi : i < n) (hj : j < n)
    (hij : i < j) (h : luElimRow i m j = .ok m') :
    ∃ q, divM (ent m j i) (ent m i i) = .ok q ∧ WFn m' n ∧
    ∀ a c, a < n → c < n → ent m' a c =
      if a = j then
        (if c = i then q else if i < c then ent m j c - q * ent m i c else ent m j c)
      else ent m a c := by
  unfold luElimRow at h
  simp only [hm.get hi hi, hm.get hj hi, bind, Except.bind] at h
  cases hq : divM (ent m j i) (ent m i i) with
  | error e => rw [hq] at h; simp at h
  | ok q =>
  refine ⟨q, rfl, ?_⟩
  rw [hq] at h
  simp only at h
  obtain ⟨m1, hm1, hI1⟩ := hm.is.set hj hi q
  rw [hm1] at h
  simp only [hI1.rows] at h
  obtain ⟨m2, hm2, hP⟩ := forM'_inv
    (fun t (s : Mat K) => Is s n n (fun a c => if a = j then
        (if c = i then q
         else if i < c ∧ c < t then ent m j c - q * ent m i c
         else ent m j c)
      else ent m a c))
    (i + 1) n m1 (fun s k => do
      let ji ← s.get j i
      let ik ← s.get i k
      let jk ← s.get j k
      s.set j k (jk - ji * ik)) (by omega)
    (by
      refine ⟨hI1.wf, hI1.rows, hI1.cols, ?_⟩
      intro a c ha hc
      rw [hI1.entry a c ha hc]
      congr 1
      by_cases haj : a = j
      · subst haj
        by_cases hci : c = i
        · simp [hci]
        · have : ¬ (i < c ∧ c < i + 1) := by omega
          simp [hci, this]
      · simp [haj]) (by
      intro t s ht1 ht2 hs
      obtain ⟨s', hs', hI⟩ := hs.set hj ht2 (ent m j t - q * ent m i t)
      have hne : ¬ (i = j) := by omega
      have hti : ¬ (t = i) := by omega
      refine ⟨s', ?_, ⟨hI.wf, hI.rows, hI.cols, ?_⟩⟩
      · have e1 := hs.entry j i hj hi
        have e2 := hs.entry i t hi ht2
        have e3 := hs.entry j t hj ht2
        simp only [hne, hti, Nat.lt_irrefl, and_false, if_true, if_false] at e1 e2 e3
        simp only [e1, e2, e3, bind, Except.bind]
        exact hs'
      · intro a c ha hc
        rw [hI.entry a c ha hc]
        congr 1
        by_cases hac : a = j ∧ c = t
        · obtain ⟨rfl, rfl⟩ := hac
          have : i < c ∧ c < c + 1 := by omega
          simp [this, hti]
        · by_cases haj : a = j
          · subst haj
            have hct : ¬ c = t := fun e => hac ⟨rfl, e⟩
            have e1 : (i < c ∧ c < t + 1) = (i < c ∧ c < t) := by apply propext; omega
            simp only [hct, and_false, if_false, if_true, e1]
          · simp only [haj, false_and, if_false])
  simp only [bind, Except.bind] at hm2
  rw [hm2] at h
  injection h with h
  subst h
  refine ⟨hP.wfn, ?_⟩
  intro a c ha hc
  rw [hP.ent_eq ha hc]
  by_cases haj : a = j
  · have e1 : (i < c ∧ c < n) = (i < c) := by apply propext; omega
    simp only [haj, if_true, e1]
  · simp only [haj, if_false]

end LUStructural

section LUFl
variable {M : FlModel}

theorem Fl.lt_iff (a b : Fl M) : ScalarExt.lt a b = true ↔ a.val < b.val := by
  simp [ScalarExt.lt]

theorem Fl.beq_zero_iff (a : Fl M) : (a == 0) = true ↔ a.val = 0 := by
  rw [beq_iff_eq]
  constructor
  · intro h; rw [h]; rfl
  · intro h; ext; exact h

/-- pivot search of the LU in `Fl M` (comparisons and `mag` are exact): the returned row lies in
`[i, n)`, the returned magnitude dominates the column on and below the diagonal, and it is the
magnitude of the entry found unless it is zero -/
theorem luPivot_fl {m : Mat (Fl M)} {n i : Nat} (hm : WFn m n) (hi : i < n)
    {maxA : Fl M} {imax : Nat} (h : luPivot m i = .ok (maxA, imax)) :
    i ≤ imax ∧ imax < n ∧ (∀ k, i ≤ k → k < n → |(ent m k i).val| ≤ maxA.val) ∧
      (maxA.val ≠ 0 → maxA.val = |(ent m imax i).val|) := by
  unfold luPivot at h
  rw [hm.2.1] at h
  have key := forM'_ok_inv
    (fun t (s : Fl M × Nat) => i ≤ s.2 ∧ s.2 < n ∧
      (∀ k, i ≤ k → k < t → |(ent m k i).val| ≤ s.1.val) ∧
      (s.1.val ≠ 0 → s.1.val = |(ent m s.2 i).val|))
    i n ((0 : Fl M), i) (maxA, imax) _ (by omega) ?init ?step h
  case init =>
    exact ⟨Nat.le_refl _, hi, by intro k h1 h2; omega, fun h => absurd rfl h⟩
  case step =>
    intro t s s1 ht1 ht2 ⟨h1, h1', h2, h3⟩ hf
    obtain ⟨mx, im⟩ := s
    simp only [hm.get ht2 hi, bind, Except.bind, pure, Except.pure] at hf
    by_cases hlt : mx.val < |(ent m t i).val|
    · have hl : ScalarExt.lt mx (ScalarExt.mag (ent m t i)) = true := by
        rw [Fl.lt_iff, Fl.mag_val]; exact hlt
      simp only [hl, if_true] at hf
      injection hf with hf
      subst hf
      refine ⟨ht1, ht2, ?_, fun _ => Fl.mag_val _⟩
      intro k hk1 hk2
      rw [Fl.mag_val]
      by_cases hkt : k = t
      · subst hkt; exact le_refl _
      · exact le_trans (h2 k hk1 (by omega)) (le_of_lt hlt)
    · have hl : ¬ ScalarExt.lt mx (ScalarExt.mag (ent m t i)) = true := by
        rw [Fl.lt_iff, Fl.mag_val]; exact hlt
      simp only [hl, if_false] at hf
      injection hf with hf
      subst hf
      refine ⟨h1, h1', ?_, h3⟩
      intro k hk1 hk2
      by_cases hkt : k = t
      · subst hkt; exact not_lt.1 hlt
      · exact h2 k hk1 (by omega)
  exact key

/-! ### layer B: the row invariant with perturbation factors

`LURowF n B w r ρ`: row `r` of the (row-permuted) input, `B`, is reproduced by the first `ρ`
elimination steps stored in `w` up to relative perturbations of the individual terms:
`B c = Σ_{t<ρ, t≤c} w_rt · w_tc · θ_t + (if c < ρ then 0 else w_rc · θ₀)`, every `θ` a product of
at most `ρ` factors `(1+δ)^{±1}`.  (The exact-arithmetic invariant `LURow` of SolveSound.lean is
the case `θ = 1`.) -/

def LURowF (n : Nat) (B : Nat → ℝ) (w : Nat → Nat → Fl M) (r ρ : Nat) : Prop :=
  ∀ c, c < n → ∃ (θ0 : ℝ) (θ : Nat → ℝ), M.Th ρ θ0 ∧ (∀ t, M.Th ρ (θ t)) ∧
    B c = (∑ t ∈ Finset.range ρ, if t ≤ c then (w r t).val * (w t c).val * θ t else 0)
      + (if c < ρ then 0 else (w r c).val * θ0)

theorem LURowF.init {n : Nat} {B : Nat → ℝ} {w : Nat → Nat → Fl M} {r : Nat}
    (h : ∀ c, c < n → B c = (w r c).val) : LURowF n B w r 0 := by
  intro c hc
  exact ⟨1, fun _ => 1, FlModel.Th.one, fun _ => FlModel.Th.one, by simp [h c hc]⟩

theorem LURowF.transfer {n : Nat} {B : Nat → ℝ} {w w' : Nat → Nat → Fl M} {r r0 ρ : Nat}
    (hρ : ρ ≤ n) (hrow : ∀ c, c < n → w' r c = w r0 c)
    (hup : ∀ t c, t < ρ → c < n → w' t c = w t c) (h : LURowF n B w r0 ρ) :
    LURowF n B w' r ρ := by
  intro c hc
  obtain ⟨θ0, θ, h0, hθ, e⟩ := h c hc
  refine ⟨θ0, θ, h0, hθ, ?_⟩
  rw [e, hrow c hc]
  congr 1
  apply Finset.sum_congr rfl
  intro t ht
  have ht' := Finset.mem_range.1 ht
  rw [hrow t (by omega), hup t c ht' hc]

/-- a column whose entry in row `r` is an exact zero costs nothing -/
theorem LURowF.skip (hu : M.u < 1) {n : Nat} {B : Nat → ℝ} {w : Nat → Nat → Fl M} {r i : Nat}
    (hz : (w r i).val = 0) (h : LURowF n B w r i) : LURowF n B w r (i + 1) := by
  intro c hc
  obtain ⟨θ0, θ, h0, hθ, e⟩ := h c hc
  refine ⟨θ0, θ, h0.mono hu (by omega), fun t => (hθ t).mono hu (by omega), ?_⟩
  rw [e, Finset.sum_range_succ, hz]
  by_cases hci : c = i
  · subst hci
    have c1 : ¬ c < c := by omega
    have c2 : c < c + 1 := by omega
    simp only [c1, c2, if_true, if_false, hz]
    split_ifs <;> ring
  · by_cases hlt : c < i
    · have c2 : c < i + 1 := by omega
      simp only [hlt, c2, if_true]
      split_ifs <;> ring
    · have c2 : ¬ c < i + 1 := by omega
      simp only [hlt, c2, if_false]
      split_ifs <;> ring

/-- one elimination step on row `j` below the pivot row `i`: the rounded multiplier
`q = fl(w_ji / w_ii)` and the rounded updates `fl(w_jc - fl(q·w_ic))` keep the relation with one more
level of perturbation factors -/
theorem LURowF.elim (hu : M.u < 1) {n : Nat} {B : Nat → ℝ} {w w' : Nat → Nat → Fl M} {j i : Nat}
    (hi : i < n) (hij : i < j) (q : Fl M)
    (hrow : ∀ c, c < n → w' j c =
      if c = i then q else if i < c then w j c - q * w i c else w j c)
    (hoth : ∀ t c, t ≤ i → c < n → w' t c = w t c)
    (hpiv : (w i i).val ≠ 0) (hq : q = w j i / w i i)
    (h : LURowF n B w j i) : LURowF n B w' j (i + 1) := by
  intro c hc
  obtain ⟨θ0, θ, h0, hθ, e⟩ := h c hc
  have hmono0 : M.Th (i + 1) θ0 := h0.mono hu (by omega)
  have hmono : ∀ t, M.Th (i + 1) (θ t) := fun t => (hθ t).mono hu (by omega)
  -- the finished part of the sum does not change
  have e1 : ∀ X : ℝ, ∑ t ∈ Finset.range i,
        (if t ≤ c then (w' j t).val * (w' t c).val * (if t = i then X else θ t) else 0)
      = ∑ t ∈ Finset.range i, (if t ≤ c then (w j t).val * (w t c).val * θ t else 0) := by
    intro X
    apply Finset.sum_congr rfl
    intro t ht
    have ht' := Finset.mem_range.1 ht
    rw [hrow t (by omega), hoth t c (by omega) hc]
    have c1 : ¬ t = i := by omega
    have c2 : ¬ i < t := by omega
    simp only [c1, c2, if_false]
  have hth : ∀ X : ℝ, M.Th (i + 1) X → ∀ t, M.Th (i + 1) (if t = i then X else θ t) := by
    intro X hX t
    by_cases ht : t = i
    · rw [if_pos ht]; exact hX
    · rw [if_neg ht]; exact hmono t
  by_cases hci : c = i
  · subst hci
    obtain ⟨τ, hτ, eτ⟩ := FlModel.exists_th hu ((w j c).val / (w c c).val)
    have hτpos := hτ.pos hu
    have hqv : q.val = (w j c).val / (w c c).val * τ := by rw [hq, Fl.div_val, eτ]
    have hX : M.Th (c + 1) (θ0 / τ) := h0.div hu hτ
    refine ⟨θ0, fun t => if t = c then θ0 / τ else θ t, hmono0, hth _ hX, ?_⟩
    rw [Finset.sum_range_succ, e1, e, hrow c hc, hoth c c (Nat.le_refl _) hc]
    have c1 : ¬ c < c := by omega
    have c2 : c < c + 1 := by omega
    simp only [c1, c2, if_true, if_false, Nat.le_refl, hqv]
    field_simp
    ring
  · by_cases hlt : c < i
    · refine ⟨θ0, fun t => if t = i then 1 else θ t, hmono0,
        hth 1 (FlModel.Th.one.mono hu (by omega)), ?_⟩
      rw [Finset.sum_range_succ, e1, e]
      have c1 : ¬ i ≤ c := by omega
      have c2 : c < i + 1 := by omega
      simp only [hlt, c1, c2, if_true, if_false]
      ring
    · have hic : i < c := by omega
      obtain ⟨τ1, hτ1, eτ1⟩ := FlModel.exists_th hu (q.val * (w i c).val)
      obtain ⟨τ2, hτ2, eτ2⟩ := FlModel.exists_th hu ((w j c).val - (q * w i c).val)
      have hτ2pos := hτ2.pos hu
      have hv : (w' j c).val = ((w j c).val - q.val * (w i c).val * τ1) * τ2 := by
        rw [hrow c hc]
        simp only [hci, hic, if_true, if_false]
        rw [Fl.sub_val, eτ2, Fl.mul_val, eτ1]
      have hX : M.Th (i + 1) (τ1 * θ0) := by
        have := hτ1.mul hu h0
        rwa [Nat.add_comm] at this
      refine ⟨θ0 / τ2, fun t => if t = i then τ1 * θ0 else θ t, h0.div hu hτ2, hth _ hX, ?_⟩
      rw [Finset.sum_range_succ, e1, e, hrow i hi, hoth i c (Nat.le_refl _) hc, hv]
      have c1 : i ≤ c := by omega
      have c2 : ¬ c < i + 1 := by omega
      simp only [hlt, c1, c2, if_true, if_false]
      field_simp
      ring

/-- a rounded quotient of magnitudes `|x| ≤ |y|` is at most `1 + u` in magnitude (NOT `1`: the
standard model does not exclude rounding a quotient `≤ 1` upwards past `1`) -/
theorem Fl.abs_div_le (x y : Fl M) (hy : y.val ≠ 0) (hxy : |x.val| ≤ |y.val|) :
    |(x / y).val| ≤ 1 + M.u := by
  have h1 := M.abs_fl_le (x.val / y.val)
  have h2 : |x.val / y.val| ≤ 1 := by
    rw [abs_div]
    exact div_le_one_of_le₀ hxy (abs_nonneg _)
  rw [Fl.div_val]
  calc |M.fl (x.val / y.val)| ≤ (1 + M.u) * |x.val / y.val| := h1
    _ ≤ (1 + M.u) * 1 := mul_le_mul_of_nonneg_left h2 M.one_add_u_pos.le
    _ = 1 + M.u := mul_one _

/-- the row loop of one LU column step in `Fl M` -/
theorem luElimLoop_fl (hu : M.u < 1) {l l' : Mat (Fl M)} {n i : Nat} (B : Nat → Nat → ℝ)
    (hl : WFn l n) (hi : i < n)
    (hrow : ∀ r, r < n → LURowF n (B r) (ent l) r (min r i))
    (hmax : ∀ k, i ≤ k → k < n → |(ent l k i).val| ≤ |(ent l i i).val|)
    (hmult : ∀ r c, r < n → c < min r i → |(ent l r c).val| ≤ 1 + M.u)
    (h : forM' (i + 1) l.rows l (luElimRow i) = .ok l') :
    WFn l' n ∧ (∀ r, r < n → LURowF n (B r) (ent l') r (min r (i + 1))) ∧
      (∀ r c, r < n → c < min r (i + 1) → |(ent l' r c).val| ≤ 1 + M.u) := by
  rw [hl.2.1] at h
  have key := forM'_ok_inv
    (fun t (s : Mat (Fl M)) => WFn s n ∧
      (∀ r, r < n → LURowF n (B r) (ent s) r (if i < r ∧ r < t then i + 1 else min r i)) ∧
      (∀ r c, r < n → c < n → (r ≤ i ∨ t ≤ r) → ent s r c = ent l r c) ∧
      (∀ r c, r < n → c < (if i < r ∧ r < t then i + 1 else min r i) →
        |(ent s r c).val| ≤ 1 + M.u))
    (i + 1) n l l' (luElimRow i) (by omega) ?init ?step h
  case init =>
    refine ⟨hl, ?_, fun _ _ _ _ _ => rfl, ?_⟩
    · intro r hr
      have : ¬ (i < r ∧ r < i + 1) := by omega
      simp only [this, if_false]
      exact hrow r hr
    · intro r c hr hc
      have : ¬ (i < r ∧ r < i + 1) := by omega
      simp only [this, if_false] at hc
      exact hmult r c hr hc
  case step =>
    intro j s s1 hj1 hj2 ⟨hw, hr, hun, hmu⟩ hf
    obtain ⟨q, hq, hw1, he⟩ := luElimRow_struct hw hi hj2 (by omega) hf
    obtain ⟨hpiv, hqe⟩ := Fl.divM_ok hq
    refine ⟨hw1, ?_, ?_, ?_⟩
    · intro r hrn
      by_cases hrj : r = j
      · subst hrj
        have c1 : i < r ∧ r < r + 1 := by omega
        simp only [c1, and_self, if_true]
        have h0 := hr r hrn
        have c2 : ¬ (i < r ∧ r < r) := by omega
        have c3 : min r i = i := by omega
        simp only [c2, if_false, c3] at h0
        refine LURowF.elim hu hi (by omega) q ?_ ?_ hpiv hqe h0
        · intro c hc
          rw [he r c hrn hc]; simp only [if_true]
        · intro t c ht hc
          rw [he t c (by omega) hc]
          have : ¬ t = r := by omega
          simp only [this, if_false]
      · have e1 : (i < r ∧ r < j + 1) = (i < r ∧ r < j) := by apply propext; omega
        simp only [e1]
        refine LURowF.transfer ?_ ?_ ?_ (hr r hrn)
        · split <;> omega
        · intro c hc
          rw [he r c hrn hc]; simp only [hrj, if_false]
        · intro t c ht hc
          have htj : ¬ t = j := by
            split at ht <;> omega
          have htn : t < n := by
            split at ht <;> omega
          rw [he t c htn hc]; simp only [htj, if_false]
    · intro r c hrn hc hcase
      have hrj : ¬ r = j := by omega
      rw [he r c hrn hc]
      simp only [hrj, if_false]
      exact hun r c hrn hc (by omega)
    · intro r c hrn hc
      by_cases hrj : r = j
      · subst hrj
        have c1 : i < r ∧ r < r + 1 := by omega
        simp only [c1, and_self, if_true] at hc
        rw [he r c hrn (by omega)]
        simp only [if_true]
        by_cases hci : c = i
        · subst hci
          simp only [if_true]
          rw [hqe]
          have e1 := hun r c hrn (by omega) (Or.inr (Nat.le_refl _))
          have e2 := hun c c (by omega) (by omega) (Or.inl (Nat.le_refl _))
          refine Fl.abs_div_le _ _ hpiv ?_
          rw [e1, e2]
          exact hmax r (by omega) hrn
        · have c3 : ¬ i < c := by omega
          simp only [hci, c3, if_false]
          have c2 : ¬ (i < r ∧ r < r) := by omega
          have := hmu r c hrn
          simp only [c2, if_false] at this
          exact this (by omega)
      · have e1 : (i < r ∧ r < j + 1) = (i < r ∧ r < j) := by apply propext; omega
        simp only [e1] at hc
        have hcn : c < n := by
          split at hc <;> omega
        rw [he r c hrn hcn]
        simp only [hrj, if_false]
        exact hmu r c hrn hc
  obtain ⟨k1, k2, _, k4⟩ := key
  refine ⟨k1, ?_, ?_⟩
  · intro r hr
    have := k2 r hr
    by_cases hir : i < r
    · have c1 : i < r ∧ r < n := ⟨hir, hr⟩
      have c2 : min r (i + 1) = i + 1 := by omega
      simp only [c1, and_self, if_true] at this
      rw [c2]; exact this
    · have c1 : ¬ (i < r ∧ r < n) := by omega
      have c2 : min r (i + 1) = min r i := by omega
      simp only [c1, if_false] at this
      rw [c2]; exact this
  · intro r c hr hc
    have := k4 r c hr
    by_cases hir : i < r
    · have c1 : i < r ∧ r < n := ⟨hir, hr⟩
      have c2 : min r (i + 1) = i + 1 := by omega
      simp only [c1, and_self, if_true] at this
      rw [c2] at hc; exact this hc
    · have c1 : ¬ (i < r ∧ r < n) := by omega
      have c2 : min r (i + 1) = min r i := by omega
      simp only [c1, if_false] at this
      rw [c2] at hc; exact this hc

/-! ### layer B: the recorded permutation and the invariant of `luDecomp` -/

/-- `π`, `σ` are mutually inverse bijections of `{0, …, n-1}` -/
def PermOK (n : Nat) (π σ : Nat → Nat) : Prop :=
  (∀ r, r < n → π r < n ∧ σ (π r) = r) ∧ (∀ j, j < n → σ j < n ∧ π (σ j) = j)

/-- the transposition of `i` and `k` -/
def swapIdx (i k r : Nat) : Nat := if r = i then k else if r = k then i else r

theorem swapIdx_lt {n i k r : Nat} (hi : i < n) (hk : k < n) (hr : r < n) : swapIdx i k r < n := by
  unfold swapIdx; split_ifs <;> omega

theorem swapIdx_invol (i k r : Nat) : swapIdx i k (swapIdx i k r) = r := by
  unfold swapIdx; split_ifs <;> omega

theorem PermOK.id (n : Nat) : PermOK n (fun r => r) (fun r => r) :=
  ⟨fun r hr => ⟨hr, rfl⟩, fun r hr => ⟨hr, rfl⟩⟩

theorem PermOK.swap {n i k : Nat} {π σ : Nat → Nat} (h : PermOK n π σ) (hi : i < n) (hk : k < n) :
    PermOK n (fun r => π (swapIdx i k r)) (fun j => swapIdx i k (σ j)) := by
  refine ⟨fun r hr => ⟨(h.1 _ (swapIdx_lt hi hk hr)).1, ?_⟩,
    fun j hj => ⟨swapIdx_lt hi hk (h.2 j hj).1, ?_⟩⟩
  · show swapIdx i k (σ (π (swapIdx i k r))) = r
    rw [(h.1 _ (swapIdx_lt hi hk hr)).2, swapIdx_invol]
  · show π (swapIdx i k (swapIdx i k (σ j))) = j
    rw [swapIdx_invol, (h.2 j hj).2]

/-- invariant of `lu_decomp_in_place` in `Fl M` after `i` column steps: `π` is the recorded row
permutation (`s.perm` is its 0/1 matrix), every row of the permuted input satisfies the perturbed
row relation, and the stored multipliers are bounded by `1 + u` -/
structure LUInvF (n : Nat) (a : Nat → Nat → Fl M) (i : Nat) (s : LU (Fl M)) (π σ : Nat → Nat) :
    Prop where
  lu : WFn s.lu n
  permok : PermOK n π σ
  perm : Is s.perm n n (fun r c => if c = π r then (1 : Fl M) else 0)
  row : ∀ r, r < n → LURowF n (fun c => (a (π r) c).val) (ent s.lu) r (min r i)
  mult : ∀ r c, r < n → c < min r i → |(ent s.lu r c).val| ≤ 1 + M.u

/-- exchanging rows `i ≤ imax` of both the working matrix and the permutation keeps the
invariant (with `π ∘ (i imax)`) -/
theorem LUInvF.swap {n i imax : Nat} {a : Nat → Nat → Fl M} {s : LU (Fl M)} {π σ : Nat → Nat}
    {p l : Mat (Fl M)} (hi : i < n) (hge : i ≤ imax) (himax : imax < n) (hs : LUInvF n a i s π σ)
    (hp : swapRows s.perm i imax = .ok p) (hl : swapRows s.lu i imax = .ok l) (pv : Nat) :
    LUInvF n a i { lu := l, perm := p, pivots := pv }
      (fun r => π (swapIdx i imax r)) (fun j => swapIdx i imax (σ j)) ∧
    ∀ r c, r < n → c < n → ent l r c = ent s.lu (swapIdx i imax r) c := by
  obtain ⟨p', hp', hIp⟩ := swapRows_spec hs.perm hi himax
  obtain ⟨l', hl', hIl⟩ := swapRows_spec hs.lu.is hi himax
  rw [hp] at hp'; rw [hl] at hl'
  injection hp' with hp'; injection hl' with hl'
  subst hp'; subst hl'
  have hent : ∀ r c, r < n → c < n → ent l r c = ent s.lu (swapIdx i imax r) c := by
    intro r c hr hc
    rw [hIl.ent_eq hr hc]
    unfold swapIdx
    split_ifs <;> rfl
  refine ⟨⟨hIl.wfn, hs.permok.swap hi himax, ?_, ?_, ?_⟩, hent⟩
  · refine hIp.congr ?_
    intro r c _ _
    unfold swapIdx
    split_ifs <;> rfl
  · intro r hr
    show LURowF n (fun c => (a (π (swapIdx i imax r)) c).val) (ent l) r (min r i)
    have hr0 : swapIdx i imax r < n := swapIdx_lt hi himax hr
    have hmin : min (swapIdx i imax r) i = min r i := by
      unfold swapIdx; split_ifs <;> omega
    have := hs.row _ hr0
    rw [hmin] at this
    refine LURowF.transfer (by omega) (fun c hc => hent r c hr hc) ?_ this
    intro t c ht hc
    rw [hent t c (by omega) hc]
    have : swapIdx i imax t = t := by unfold swapIdx; split_ifs <;> omega
    rw [this]
  · intro r c hr hc
    show |(ent l r c).val| ≤ 1 + M.u
    have hr0 : swapIdx i imax r < n := swapIdx_lt hi himax hr
    have hmin : min (swapIdx i imax r) i = min r i := by
      unfold swapIdx; split_ifs <;> omega
    rw [hent r c hr (by omega)]
    exact hs.mult _ c hr0 (by rw [hmin]; exact hc)

/-- the elimination rows of a column step re-establish the invariant one column further -/
theorem LUInvF.elim (hu : M.u < 1) {n i : Nat} {a : Nat → Nat → Fl M} {s : LU (Fl M)}
    {π σ : Nat → Nat} {l' : Mat (Fl M)} (hi : i < n) (hs : LUInvF n a i s π σ)
    (hmax : ∀ k, i ≤ k → k < n → |(ent s.lu k i).val| ≤ |(ent s.lu i i).val|)
    (h : forM' (i + 1) s.lu.rows s.lu (luElimRow i) = .ok l') :
    LUInvF n a (i + 1) { lu := l', perm := s.perm, pivots := s.pivots } π σ := by
  obtain ⟨hw, hr, hm⟩ := luElimLoop_fl hu (fun r c => (a (π r) c).val) hs.lu hi hs.row hmax
    hs.mult h
  exact ⟨hw, hs.permok, hs.perm, hr, hm⟩

/-- a skipped column (all candidates are exact zeros) -/
theorem LUInvF.skip (hu : M.u < 1) {n i : Nat} {a : Nat → Nat → Fl M} {s : LU (Fl M)}
    {π σ : Nat → Nat} (hi : i < n) (hs : LUInvF n a i s π σ)
    (hz : ∀ k, i ≤ k → k < n → (ent s.lu k i).val = 0) : LUInvF n a (i + 1) s π σ := by
  refine ⟨hs.lu, hs.permok, hs.perm, ?_, ?_⟩
  · intro r hr
    by_cases hir : i < r
    · have c1 : min r (i + 1) = i + 1 := by omega
      have c2 : min r i = i := by omega
      have := hs.row r hr
      rw [c2] at this
      rw [c1]
      exact this.skip hu (hz r (by omega) hr)
    · have c2 : min r (i + 1) = min r i := by omega
      rw [c2]; exact hs.row r hr
  · intro r c hr hc
    by_cases hci : c = i
    · subst hci
      rw [hz r (by omega) hr]
      simp only [abs_zero]
      have := M.u_nonneg
      linarith
    · exact hs.mult r c hr (by omega)

theorem luStep_fl (hu : M.u < 1) {n i : Nat} {a : Nat → Nat → Fl M} {s s' : LU (Fl M)}
    {π σ : Nat → Nat} (hi : i < n) (hs : LUInvF n a i s π σ) (h : luStep s i = .ok s') :
    ∃ π' σ', LUInvF n a (i + 1) s' π' σ' := by
  unfold luStep at h
  cases hp : luPivot s.lu i with
  | error e => simp [hp, bind, Except.bind] at h
  | ok r =>
    obtain ⟨maxA, imax⟩ := r
    obtain ⟨hge, hlt, hdom, hatt⟩ := luPivot_fl hs.lu hi hp
    simp only [hp, bind, Except.bind] at h
    by_cases hmax : maxA.val = 0
    · have : (maxA == 0) = true := (Fl.beq_zero_iff maxA).mpr hmax
      simp only [this, if_true, pure, Except.pure] at h
      injection h with h
      subst h
      refine ⟨π, σ, hs.skip hu hi ?_⟩
      intro k hk1 hk2
      have := hdom k hk1 hk2
      rw [hmax] at this
      exact abs_nonpos_iff.mp this
    · have : ¬ (maxA == 0) = true := fun hc => hmax ((Fl.beq_zero_iff maxA).mp hc)
      simp only [this, if_false] at h
      have hatt' := hatt hmax
      by_cases him : imax = i
      · have c : ¬ (imax ≠ i) := by simp [him]
        simp only [c, if_false, pure, Except.pure] at h
        cases hl : forM' (i + 1) s.lu.rows s.lu (luElimRow i) with
        | error e => rw [hl] at h; simp at h
        | ok l' =>
          rw [hl] at h
          injection h with h
          subst h
          refine ⟨π, σ, hs.elim hu hi ?_ hl⟩
          intro k hk1 hk2
          have := hdom k hk1 hk2
          rw [hatt', him] at this
          exact this
      · have c : imax ≠ i := him
        simp only [c, if_true, ne_eq, not_false_eq_true, pure, Except.pure] at h
        cases hpp : swapRows s.perm i imax with
        | error e => rw [hpp] at h; simp at h
        | ok p =>
          cases hll : swapRows s.lu i imax with
          | error e => rw [hpp, hll] at h; simp at h
          | ok l =>
            rw [hpp, hll] at h
            simp only at h
            obtain ⟨hs1, hent⟩ := hs.swap hi hge hlt hpp hll (s.pivots + 1)
            cases hl : forM' (i + 1) l.rows l (luElimRow i) with
            | error e => rw [hl] at h; simp at h
            | ok l' =>
              rw [hl] at h
              injection h with h
              subst h
              refine ⟨_, _, hs1.elim hu hi ?_ hl⟩
              intro k hk1 hk2
              show |(ent l k i).val| ≤ |(ent l i i).val|
              rw [hent k i hk2 hi, hent i i hi hi]
              have e1 : swapIdx i imax i = imax := by simp [swapIdx]
              rw [e1, ← hatt']
              refine hdom _ ?_ (swapIdx_lt hi hlt hk2)
              unfold swapIdx; split_ifs <;> omega

/-- **`lu_decomp_in_place` in `Fl M`**: whenever it returns, the invariant holds with `i = n` -/
theorem luDecomp_fl (hu : M.u < 1) {n : Nat} {A : Mat (Fl M)} {s : LU (Fl M)} (hA : WFn A n)
    (h : luDecomp A = .ok s) : ∃ π σ, LUInvF n (ent A) n s π σ := by
  unfold luDecomp at h
  have h2 : ¬ A.rows ≠ A.cols := by rw [hA.2.1, hA.2.2]; simp
  obtain ⟨p, hp, hIp⟩ := eye_spec (K := Fl M) n
  simp only [h2, if_false] at h
  simp only [hA.2.1, hp, bind, Except.bind] at h
  refine forM'_ok_inv (fun i (s : LU (Fl M)) => ∃ π σ, LUInvF n (ent A) i s π σ)
    0 n { lu := A, perm := p, pivots := 0 } s luStep (Nat.zero_le _) ?init ?step h
  case init =>
    refine ⟨fun r => r, fun r => r, hA, PermOK.id n, ?_, ?_, ?_⟩
    · refine hIp.congr ?_
      intro r c _ _
      by_cases hrc : r = c
      · simp [hrc]
      · have : ¬ c = r := fun e => hrc e.symm
        simp [hrc, this]
    · intro r hr
      have : min r 0 = 0 := by omega
      rw [this]
      exact LURowF.init (fun c _ => rfl)
    · intro r c _ hc
      omega
  case step =>
    intro i s s1 _ hi ⟨π, σ, hs⟩ hf
    exact luStep_fl hu hi hs hf

/-- at the end of the factorisation the row relation is `P·A = L̂·Û` with every product
`l̂_rk û_kc` perturbed by a factor `Θ_k`, written with the full sums over `k < n` -/
theorem LURowF.full {n : Nat} {B : Nat → ℝ} {m : Mat (Fl M)} {r : Nat} (hr : r < n)
    (h : LURowF n B (ent m) r r) :
    ∀ c, c < n → ∃ Θ : Nat → ℝ, (∀ k, M.Th r (Θ k)) ∧
      B c = ∑ k ∈ Finset.range n, Lfn (valEnt m) r k * (Ufn n (valEnt m) k c * Θ k) := by
  intro c hc
  obtain ⟨θ0, θ, h0, hθ, e⟩ := h c hc
  refine ⟨fun k => if k = r then θ0 else θ k, ?_, ?_⟩
  · intro k
    beta_reduce
    by_cases hk : k = r
    · rw [if_pos hk]; exact h0
    · rw [if_neg hk]; exact hθ k
  · rw [Lsum (valEnt m) _ hr, e]
    beta_reduce
    have e1 : ∑ k ∈ Finset.range r, valEnt m r k * (Ufn n (valEnt m) k c * (if k = r then θ0 else θ k))
        = ∑ t ∈ Finset.range r, (if t ≤ c then (ent m r t).val * (ent m t c).val * θ t else 0) := by
      apply Finset.sum_congr rfl
      intro k hk
      have hkr : ¬ k = r := by have := Finset.mem_range.mp hk; omega
      rw [if_neg hkr]
      unfold Ufn valEnt
      by_cases hkc : k ≤ c
      · have : ¬ (c < n ∧ c < k) := by omega
        rw [if_pos hkc, if_neg this]; ring
      · have : c < n ∧ c < k := by omega
        rw [if_neg hkc, if_pos this]; ring
    rw [e1, if_pos rfl]
    unfold Ufn valEnt
    by_cases hcr : c < r
    · have : c < n ∧ c < r := ⟨hc, hcr⟩
      rw [if_pos hcr, if_pos this]; ring
    · have : ¬ (c < n ∧ c < r) := by omega
      rw [if_neg hcr, if_neg this]; ring

/-! ### `P·b` in `Fl M`

`P` is a 0/1 matrix with one `1` per row, so `(P b)_r = b_{π r}` in every floating-point
arithmetic in which `1·x`, `0·x`, `0 + x` and `x + 0` are exact (IEEE is one).  The abstract
standard model does not know this: it rounds `fl(1·x)`, `fl(0 + x)`, `fl(x + 0)`, so all that
can be proved from it is `(P b)_r = b_{π r}·τ_r`, `τ_r` a product of at most `n + 1` factors. -/

section PermVec

theorem zipWith_foldl_lists {K : Type} [Add K] [Mul K] [Zero K] (f g : Nat → K) (n : Nat) :
    (Array.zipWith (· * ·) ((List.range n).map f).toArray ((List.range n).map g).toArray).foldl
      (· + ·) 0 = ((List.range n).map (fun t => f t * g t)).foldl (· + ·) 0 := by
  simp [List.zipWith_map]

theorem zipWith_foldl_range {K : Type} [Add K] [Mul K] [Zero K] (f : Nat → K) (v : Array K)
    (n : Nat) (hv : v.size = n) :
    (Array.zipWith (· * ·) ((List.range n).map f).toArray v).foldl (· + ·) 0
      = ((List.range n).map (fun t => f t * vf v t)).foldl (· + ·) 0 := by
  have e : v = ((List.range n).map (vf v)).toArray := by
    apply Array.ext
    · simp [hv]
    · intro i h1 h2
      simp [vf, h1]
  calc (Array.zipWith (· * ·) ((List.range n).map f).toArray v).foldl (· + ·) 0
      = (Array.zipWith (· * ·) ((List.range n).map f).toArray
          ((List.range n).map (vf v)).toArray).foldl (· + ·) 0 := by rw [← e]
    _ = _ := zipWith_foldl_lists f (vf v) n

/-- a sum, accumulated from `0`, of terms all but one of which are exact zeros -/
theorem foldl_single (hu : M.u < 1) (T : Nat → Fl M) (j0 : Nat)
    (hz : ∀ t, t ≠ j0 → (T t).val = 0) (n : Nat) :
    (j0 < n → ∃ τ, M.Th n τ ∧
      (((List.range n).map T).foldl (· + ·) 0).val = (T j0).val * τ) ∧
    (n ≤ j0 → (((List.range n).map T).foldl (· + ·) 0).val = 0) := by
  induction n with
  | zero => exact ⟨fun h => by omega, fun _ => rfl⟩
  | succ k ih =>
    have hstep : (((List.range (k + 1)).map T).foldl (· + ·) 0)
        = ((List.range k).map T).foldl (· + ·) 0 + T k := by
      rw [List.range_succ, List.map_append, List.foldl_append]; rfl
    obtain ⟨τ', hτ', eτ'⟩ := FlModel.exists_th hu
      ((((List.range k).map T).foldl (· + ·) 0).val + (T k).val)
    constructor
    · intro hj
      rw [hstep, Fl.add_val, eτ']
      by_cases hjk : j0 < k
      · obtain ⟨τ, hτ, eτ⟩ := ih.1 hjk
        refine ⟨τ * τ', hτ.mul hu hτ', ?_⟩
        rw [eτ, hz k (by omega)]; ring
      · have : j0 = k := by omega
        subst this
        refine ⟨τ', hτ'.mono hu (by omega), ?_⟩
        rw [ih.2 (Nat.le_refl _)]; ring
    · intro hj
      rw [hstep, Fl.add_val, eτ', ih.2 (by omega), hz k (by omega)]; ring

/-- **`P·b` in the standard model**: component `r` is `b_{π r}` times a product of at most `n+1`
factors `(1+δ)` -/
theorem mulVec_perm_fl (hu : M.u < 1) {p : Mat (Fl M)} {n : Nat} {π : Nat → Nat}
    (hp : Is p n n (fun r c => if c = π r then (1 : Fl M) else 0)) (hπ : ∀ r, r < n → π r < n)
    {v : Array (Fl M)} (hv : v.size = n) :
    ∃ w, mulVec p v = .ok w ∧ w.size = n ∧
      ∀ r, r < n → ∃ τ, M.Th (n + 1) τ ∧ (vf w r).val = (vf v (π r)).val * τ := by
  refine ⟨_, mulVec_spec hp v hv, by simp, ?_⟩
  intro r hr
  simp only [vf, List.getElem?_toArray, List.getElem?_map, List.getElem?_range hr, Option.map_some,
    Option.getD_some]
  rw [zipWith_foldl_range _ v n hv]
  have hz : ∀ t, t ≠ π r → ((if t = π r then (1 : Fl M) else 0) * vf v t).val = 0 := by
    intro t ht
    rw [if_neg ht, Fl.mul_val, Fl.zero_val, zero_mul, M.fl_zero]
  obtain ⟨τ, hτ, eτ⟩ := (foldl_single hu (fun t => (if t = π r then (1 : Fl M) else 0) * vf v t)
    (π r) hz n).1 (hπ r hr)
  obtain ⟨τ1, hτ1, eτ1⟩ := FlModel.exists_th hu ((1 : ℝ) * (vf v (π r)).val)
  refine ⟨τ1 * τ, ?_, ?_⟩
  · rw [Nat.add_comm]; exact hτ1.mul hu hτ
  · show (((List.range n).map (fun t => (if t = π r then (1 : Fl M) else 0) * vf v t)).foldl
      (· + ·) 0).val = _
    rw [eτ]
    rw [if_pos rfl, Fl.mul_val, Fl.one_val, eτ1]
    unfold vf
    ring

/-- the same when the non-zero term is representable: no rounding error at all -/
theorem foldl_single_rep (T : Nat → Fl M) (j0 : Nat) (hrep : M.Rep (T j0).val)
    (hz : ∀ t, t ≠ j0 → (T t).val = 0) (n : Nat) :
    (j0 < n → (((List.range n).map T).foldl (· + ·) 0).val = (T j0).val) ∧
    (n ≤ j0 → (((List.range n).map T).foldl (· + ·) 0).val = 0) := by
  induction n with
  | zero => exact ⟨fun h => by omega, fun _ => rfl⟩
  | succ k ih =>
    have hstep : (((List.range (k + 1)).map T).foldl (· + ·) 0)
        = ((List.range k).map T).foldl (· + ·) 0 + T k := by
      rw [List.range_succ, List.map_append, List.foldl_append]; rfl
    constructor
    · intro hj
      rw [hstep, Fl.add_val]
      by_cases hjk : j0 < k
      · rw [ih.1 hjk, hz k (by omega), add_zero]; exact hrep
      · have : j0 = k := by omega
        subst this
        rw [ih.2 (Nat.le_refl _), zero_add]; exact hrep
    · intro hj
      rw [hstep, Fl.add_val, ih.2 (by omega), hz k (by omega), add_zero, M.fl_zero]

/-- **`P·b` for a representable right-hand side** (`fl b_j = b_j`, as for every `f64` input):
the product is the exact permutation of `b` -/
theorem mulVec_perm_rep {p : Mat (Fl M)} {n : Nat} {π : Nat → Nat}
    (hp : Is p n n (fun r c => if c = π r then (1 : Fl M) else 0)) (hπ : ∀ r, r < n → π r < n)
    {v : Array (Fl M)} (hv : v.size = n) (hrep : ∀ j, j < n → M.Rep (vf v j).val) :
    ∃ w, mulVec p v = .ok w ∧ w.size = n ∧ ∀ r, r < n → (vf w r).val = (vf v (π r)).val := by
  refine ⟨_, mulVec_spec hp v hv, by simp, ?_⟩
  intro r hr
  simp only [vf, List.getElem?_toArray, List.getElem?_map, List.getElem?_range hr, Option.map_some,
    Option.getD_some]
  rw [zipWith_foldl_range _ v n hv]
  have hz : ∀ t, t ≠ π r → ((if t = π r then (1 : Fl M) else 0) * vf v t).val = 0 := by
    intro t ht
    rw [if_neg ht, Fl.mul_val, Fl.zero_val, zero_mul, M.fl_zero]
  have h1 : ((if π r = π r then (1 : Fl M) else 0) * vf v (π r)).val = (vf v (π r)).val := by
    rw [if_pos rfl, Fl.mul_val, Fl.one_val, one_mul]
    exact hrep _ (hπ r hr)
  have := (foldl_single_rep (fun t => (if t = π r then (1 : Fl M) else 0) * vf v t) (π r)
    (by show M.Rep ((if π r = π r then (1 : Fl M) else 0) * vf v (π r)).val
        rw [h1]; exact hrep _ (hπ r hr)) hz n).1 (hπ r hr)
  show (((List.range n).map (fun t => (if t = π r then (1 : Fl M) else 0) * vf v t)).foldl
      (· + ·) 0).val = _
  rw [this]
  exact h1

end PermVec

end LUFl

/-! ### layer C: composition (pure real algebra) -/

section Compose

/-- if `B = L̂Û` up to factors `Θ`, `(L̂ ∘ λ) ŷ = β` and `(Û ∘ μ) x̂ = ŷ`, then
`(B + ΔA) x̂ = β` with `ΔA = L̂Û ∘ (λμ - Θ)` -/
theorem lu_compose {n : Nat} (L U B : Nat → Nat → ℝ) (β y x : Nat → ℝ)
    (Θ : Nat → Nat → Nat → ℝ) (lam mu : Nat → Nat → ℝ) (e1 e2 : ℝ)
    (hB : ∀ r c, r < n → c < n → B r c = ∑ k ∈ Finset.range n, L r k * (U k c * Θ r c k))
    (hL : ∀ r, r < n → ∑ k ∈ Finset.range n, L r k * (lam r k * y k) = β r)
    (hU : ∀ k, k < n → ∑ c ∈ Finset.range n, U k c * (mu k c * x c) = y k)
    (hΘ : ∀ r c k, r < n → c < n → k < n → |Θ r c k - 1| ≤ e1)
    (hlm : ∀ r k c, r < n → k < n → c < n → |lam r k * mu k c - 1| ≤ e2) :
    ∃ ΔA : Nat → Nat → ℝ,
      (∀ r, r < n → ∑ c ∈ Finset.range n, (B r c + ΔA r c) * x c = β r) ∧
      ∀ r c, r < n → c < n →
        |ΔA r c| ≤ (e1 + e2) * ∑ k ∈ Finset.range n, |L r k| * |U k c| := by
  refine ⟨fun r c => ∑ k ∈ Finset.range n, L r k * U k c * (lam r k * mu k c - Θ r c k), ?_, ?_⟩
  · intro r hr
    rw [← hL r hr]
    have e : ∀ c ∈ Finset.range n,
        (B r c + ∑ k ∈ Finset.range n, L r k * U k c * (lam r k * mu k c - Θ r c k)) * x c
          = ∑ k ∈ Finset.range n, L r k * (lam r k * (U k c * (mu k c * x c))) := by
      intro c hc
      rw [hB r c hr (Finset.mem_range.mp hc), ← Finset.sum_add_distrib, Finset.sum_mul]
      apply Finset.sum_congr rfl
      intro k _
      ring
    rw [Finset.sum_congr rfl e, Finset.sum_comm]
    apply Finset.sum_congr rfl
    intro k hk
    rw [← hU k (Finset.mem_range.mp hk), Finset.mul_sum, Finset.mul_sum]
  · intro r c hr hc
    beta_reduce
    rw [Finset.mul_sum]
    refine (Finset.abs_sum_le_sum_abs _ _).trans (Finset.sum_le_sum ?_)
    intro k hk
    have hk' := Finset.mem_range.mp hk
    have h1 := hΘ r c k hr hc hk'
    have h2 := hlm r k c hr hk' hc
    have h3 : |lam r k * mu k c - Θ r c k| ≤ e1 + e2 := by
      have : lam r k * mu k c - Θ r c k = (lam r k * mu k c - 1) - (Θ r c k - 1) := by ring
      rw [this]
      exact (abs_sub _ _).trans (by linarith)
    rw [abs_mul, abs_mul]
    have h4 : 0 ≤ |L r k| * |U k c| := by positivity
    nlinarith

end Compose

/-! ### layers B and C in `Fl M`: the theorems in terms of the canonical entry functions -/

section Assemble
variable {M : FlModel}

/-- **Higham, Thm 9.3, for the in-place factorisation with partial pivoting of the model**:
`|(L̂Û)_{rc} - (PA)_{rc}| ≤ gq (n-1) · (|L̂||Û|)_{rc}` -/
theorem LUInvF.backward (hu : M.u < 1) {n : Nat} {a : Nat → Nat → Fl M} {s : LU (Fl M)}
    {π σ : Nat → Nat} (hs : LUInvF n a n s π σ) :
    ∀ r c, r < n → c < n →
      |∑ k ∈ Finset.range n, Lfn (valEnt s.lu) r k * Ufn n (valEnt s.lu) k c - (a (π r) c).val|
        ≤ M.gq (n - 1) * ∑ k ∈ Finset.range n, |Lfn (valEnt s.lu) r k| * |Ufn n (valEnt s.lu) k c| := by
  intro r c hr hc
  have hrow := hs.row r hr
  have hmin : min r n = r := by omega
  rw [hmin] at hrow
  obtain ⟨Θ, hΘ, e⟩ := hrow.full hr c hc
  rw [e, ← Finset.sum_sub_distrib, Finset.mul_sum]
  refine (Finset.abs_sum_le_sum_abs _ _).trans (Finset.sum_le_sum ?_)
  intro k _
  have h1 := ((hΘ k).mono hu (show r ≤ n - 1 by omega)).abs_sub_one_le hu
  have e2 : Lfn (valEnt s.lu) r k * Ufn n (valEnt s.lu) k c
      - Lfn (valEnt s.lu) r k * (Ufn n (valEnt s.lu) k c * Θ k)
      = Lfn (valEnt s.lu) r k * Ufn n (valEnt s.lu) k c * (1 - Θ k) := by ring
  rw [e2, abs_mul, abs_mul, abs_sub_comm]
  have h4 : 0 ≤ |Lfn (valEnt s.lu) r k| * |Ufn n (valEnt s.lu) k c| := by positivity
  nlinarith

/-- **Higham, Thm 9.4, core**: `solveLU` with the computed `P·b` related to the exact one by factors
of at most `mτ` roundings.  `ΔA'` is the perturbation of the row-permuted matrix. -/
theorem solveLU_backward_core (hu : M.u < 1) {n : Nat} (hn : 1 ≤ n) {A : Mat (Fl M)}
    {b x : Array (Fl M)} (hA : WFn A n) (hb : b.size = n) (mτ : Nat)
    (hPb : ∀ (p : Mat (Fl M)) (π : Nat → Nat),
      Is p n n (fun r c => if c = π r then (1 : Fl M) else 0) → (∀ r, r < n → π r < n) →
      ∃ w, mulVec p b = .ok w ∧ w.size = n ∧
        ∀ r, r < n → ∃ τ, M.Th mτ τ ∧ (vf w r).val = (vf b (π r)).val * τ)
    (h : solveLU A b = .ok x) :
    ∃ s π σ, luDecomp A = .ok s ∧ LUInvF n (ent A) n s π σ ∧ x.size = n ∧
      ∃ ΔA : Nat → Nat → ℝ,
        (∀ r, r < n → ∑ c ∈ Finset.range n,
          ((ent A (π r) c).val + ΔA r c) * (vf x c).val = (vf b (π r)).val) ∧
        ∀ r c, r < n → c < n → |ΔA r c| ≤ (M.gq n + M.gq (2 * n + mτ - 1)) *
          ∑ k ∈ Finset.range n, |Lfn (valEnt s.lu) r k| * |Ufn n (valEnt s.lu) k c| := by
  unfold solveLU at h
  have h1 : ¬ A.rows ≠ b.size := by rw [hA.2.1, hb]; simp
  have h2 : ¬ A.rows ≠ A.cols := by rw [hA.2.1, hA.2.2]; simp
  simp only [h1, h2, if_false] at h
  cases hd : luDecomp A with
  | error e => simp [hd, bind, Except.bind] at h
  | ok s =>
    obtain ⟨π, σ, hs⟩ := luDecomp_fl hu hA hd
    obtain ⟨w, hw, hwn, hwτ⟩ := hPb s.perm π hs.perm (fun r hr => (hs.permok.1 r hr).1)
    obtain ⟨y, hy, hyn, lam, hlam, hL⟩ := forwardSub_backward_ent hu hs.lu hwn
    simp only [hd, hw, hy, bind, Except.bind] at h
    obtain ⟨hxs, mu, hmu, hU⟩ := backsolve_backward_ent hu hs.lu hyn hn h
    refine ⟨s, π, σ, rfl, hs, hxs, ?_⟩
    have hτ' : ∀ r, ∃ τ : ℝ, r < n → M.Th mτ τ ∧ (vf w r).val = (vf b (π r)).val * τ := by
      intro r
      by_cases hr : r < n
      · obtain ⟨τ, h1, h2⟩ := hwτ r hr
        exact ⟨τ, fun _ => ⟨h1, h2⟩⟩
      · exact ⟨1, fun h => absurd h hr⟩
    choose τ hτ using hτ'
    have hΘ' : ∀ r c, ∃ Θ : Nat → ℝ, r < n → c < n → (∀ k, M.Th r (Θ k)) ∧
        (ent A (π r) c).val = ∑ k ∈ Finset.range n,
          Lfn (valEnt s.lu) r k * (Ufn n (valEnt s.lu) k c * Θ k) := by
      intro r c
      by_cases hrc : r < n ∧ c < n
      · have hrow := hs.row r hrc.1
        have hmin : min r n = r := by omega
        rw [hmin] at hrow
        obtain ⟨Θ, h1, h2⟩ := hrow.full hrc.1 c hrc.2
        exact ⟨Θ, fun _ _ => ⟨h1, h2⟩⟩
      · exact ⟨fun _ => 1, fun h1 h2 => absurd ⟨h1, h2⟩ hrc⟩
    choose Θ hΘ using hΘ'
    have hgq3 : ∀ r k c, r < n → k < n → c < n →
        M.Th (2 * n + mτ - 1) (lam r k / τ r * mu k c) := by
      intro r k c hr hk hc
      have t1 := ((hlam r k).div hu (hτ r hr).1).mul hu (hmu k c hk)
      exact t1.mono hu (by omega)
    exact lu_compose (Lfn (valEnt s.lu)) (Ufn n (valEnt s.lu)) (fun r c => (ent A (π r) c).val)
      (fun r => (vf b (π r)).val) (fun k => (vf y k).val) (fun c => (vf x c).val)
      Θ (fun r k => lam r k / τ r) mu (M.gq n) (M.gq (2 * n + mτ - 1))
      (fun r c hr hc => (hΘ r c hr hc).2)
      (by
        intro r hr
        have hτpos := (hτ r hr).1.pos hu
        have e : ∑ k ∈ Finset.range n, Lfn (valEnt s.lu) r k * (lam r k / τ r * (vf y k).val)
            = (∑ k ∈ Finset.range n, Lfn (valEnt s.lu) r k * (lam r k * (vf y k).val)) / τ r := by
          rw [div_eq_mul_inv, Finset.sum_mul]
          apply Finset.sum_congr rfl
          intro k _
          ring
        rw [e, hL r hr, (hτ r hr).2]
        field_simp)
      (fun k hk => (hU k hk).2)
      (fun r c k hr hc hk =>
        (((hΘ r c hr hc).1 k).mono hu (show r ≤ n by omega)).abs_sub_one_le hu)
      (fun r k c hr hk hc => (hgq3 r k c hr hk hc).abs_sub_one_le hu)

end Assemble

/-! ### the maximum row sum -/

section NormInf

/-- `max (0, g 0, …, g (n-1))` -/
def maxRow : Nat → (Nat → ℝ) → ℝ
  | 0, _ => 0
  | n + 1, g => max (maxRow n g) (g n)

theorem maxRow_nonneg (n : Nat) (g : Nat → ℝ) : 0 ≤ maxRow n g := by
  induction n with
  | zero => exact le_refl _
  | succ n ih => exact ih.trans (le_max_left _ _)

theorem le_maxRow {n : Nat} (g : Nat → ℝ) {j : Nat} (hj : j < n) : g j ≤ maxRow n g := by
  induction n with
  | zero => omega
  | succ n ih =>
    rcases Nat.lt_succ_iff_lt_or_eq.mp hj with h | rfl
    · exact (ih h).trans (le_max_left _ _)
    · exact le_max_right _ _

theorem maxRow_le {n : Nat} (g : Nat → ℝ) {b : ℝ} (hb : 0 ≤ b) (h : ∀ j, j < n → g j ≤ b) :
    maxRow n g ≤ b := by
  induction n with
  | zero => exact hb
  | succ n ih => exact max_le (ih (fun j hj => h j (by omega))) (h n (by omega))

/-- `‖F‖_∞` of the `n × n` array `F`: the largest absolute row sum -/
def rowNorm (n : Nat) (F : Nat → Nat → ℝ) : ℝ :=
  maxRow n (fun r => ∑ c ∈ Finset.range n, |F r c|)

theorem rowNorm_nonneg (n : Nat) (F : Nat → Nat → ℝ) : 0 ≤ rowNorm n F := maxRow_nonneg _ _

theorem row_le_rowNorm {n : Nat} (F : Nat → Nat → ℝ) {r : Nat} (hr : r < n) :
    ∑ c ∈ Finset.range n, |F r c| ≤ rowNorm n F :=
  le_maxRow (fun r => ∑ c ∈ Finset.range n, |F r c|) hr

theorem rowNorm_le {n : Nat} (F : Nat → Nat → ℝ) {b : ℝ} (hb : 0 ≤ b)
    (h : ∀ r, r < n → ∑ c ∈ Finset.range n, |F r c| ≤ b) : rowNorm n F ≤ b :=
  maxRow_le _ hb h

end NormInf

end Mat

end Ohsl
