/-
  Ohsl.Lemmas.SparseWF — well-formedness of the compressed-sparse-column storage is preserved by
  the constructors / views of `Ohsl.Sp` (model: Ohsl/Model/Sparse.lean), and the views agree.
  Class (S): any scalar type.
-/
import Ohsl.Model.Sparse
import Ohsl.Lemmas.SparseSpec
import Mathlib.Data.List.Perm.Basic
import Mathlib.Data.List.Perm.Subperm
import Mathlib.Data.List.Sort
set_option linter.unusedSectionVars false
set_option linter.unusedVariables false
set_option linter.unusedSimpArgs false
namespace Ohsl
open Mat (forM' forM'_inv aget_ok aset_ok)

/-! ### counting -/

/-- number of `k < n` with `p k` -/
def cnt (p : Nat → Bool) : Nat → Nat
  | 0 => 0
  | n + 1 => cnt p n + (if p n then 1 else 0)

theorem cnt_le (p : Nat → Bool) : ∀ n, cnt p n ≤ n
  | 0 => Nat.le_refl _
  | n + 1 => by
    have := cnt_le p n
    simp only [cnt]; split <;> omega

theorem cnt_congr {p q : Nat → Bool} : ∀ n, (∀ k, k < n → p k = q k) → cnt p n = cnt q n
  | 0, _ => rfl
  | n + 1, h => by
    simp only [cnt, cnt_congr n (fun k hk => h k (by omega)), h n (by omega)]

theorem cnt_false {p : Nat → Bool} : ∀ n, (∀ k, k < n → p k = false) → cnt p n = 0
  | 0, _ => rfl
  | n + 1, h => by
    simp [cnt, cnt_false n (fun k hk => h k (by omega)), h n (by omega)]

theorem cnt_true {p : Nat → Bool} : ∀ n, (∀ k, k < n → p k = true) → cnt p n = n
  | 0, _ => rfl
  | n + 1, h => by
    simp [cnt, cnt_true n (fun k hk => h k (by omega)), h n (by omega)]

theorem cnt_mono_pred {p q : Nat → Bool} : ∀ n, (∀ k, k < n → p k = true → q k = true) →
    cnt p n ≤ cnt q n
  | 0, _ => Nat.le_refl _
  | n + 1, h => by
    have ih := cnt_mono_pred n (fun k hk => h k (by omega))
    have := h n (by omega)
    simp only [cnt]
    cases hp : p n <;> cases hq : q n <;> simp_all; omega

theorem cnt_mono (p : Nat → Bool) {m n : Nat} (h : m ≤ n) : cnt p m ≤ cnt p n := by
  induction n with
  | zero => have : m = 0 := by omega
            subst this; exact Nat.le_refl _
  | succ n ih =>
    by_cases hm : m = n + 1
    · subst hm; exact Nat.le_refl _
    · have := ih (by omega)
      simp only [cnt]; omega

theorem cnt_lt_of_mem (p : Nat → Bool) {m n : Nat} (h : m < n) (hp : p m = true) :
    cnt p m < cnt p n := by
  have h1 : cnt p (m + 1) = cnt p m + 1 := by simp [cnt, hp]
  have h2 := cnt_mono p (show m + 1 ≤ n by omega)
  omega

/-- all hits are below `m` -/
theorem cnt_le_of_bound {p : Nat → Bool} {m : Nat} : ∀ n, (∀ k, k < n → p k = true → k < m) →
    cnt p n ≤ m
  | 0, _ => Nat.zero_le _
  | n + 1, h => by
    have ih := cnt_le_of_bound n (fun k hk => h k (by omega))
    have hn := cnt_le p n
    simp only [cnt]
    cases hp : p n
    · simp; exact ih
    · have := h n (by omega) hp
      simp; omega

/-- everything below `m` is a hit -/
theorem cnt_ge_of_prefix {p : Nat → Bool} {m n : Nat} (hmn : m ≤ n) (h : ∀ k, k < m → p k = true) :
    m ≤ cnt p n := by
  have := cnt_true m h
  have := cnt_mono p hmn
  omega

/-- a predicate that is true exactly below `j` -/
theorem cnt_threshold {p : Nat → Bool} {j : Nat} : ∀ n, j ≤ n → (∀ i, i < j → p i = true) →
    (∀ i, j ≤ i → i < n → p i = false) → cnt p n = j
  | 0, h, _, _ => by simp [cnt]; omega
  | n + 1, h, h1, h2 => by
    by_cases hj : j = n + 1
    · subst hj; exact cnt_true _ h1
    · have ih := cnt_threshold n (by omega) h1 (fun i a b => h2 i a (by omega))
      simp [cnt, ih, h2 n (by omega) (by omega)]

theorem cnt_lt_succ (f : Nat → Nat) (j : Nat) : ∀ n,
    cnt (fun k => decide (f k < j + 1)) n =
      cnt (fun k => decide (f k < j)) n + cnt (fun k => f k == j) n
  | 0 => rfl
  | n + 1 => by
    simp only [cnt, cnt_lt_succ f j n]
    by_cases h1 : f n < j
    · have h2 : f n < j + 1 := by omega
      have h3 : ¬ f n = j := by omega
      simp [h1, h2, h3]; omega
    · by_cases h3 : f n = j
      · have h2 : f n < j + 1 := by omega
        simp [h1, h2, h3]; omega
      · have h2 : ¬ f n < j + 1 := by omega
        simp [h1, h2, h3]

/-! ### loops -/

theorem ok_bind {α β : Type} (a : α) (f : α → Res β) : ((Except.ok a : Res α) >>= f) = f a := rfl

theorem foldlM_congr {σ : Type} {f g : σ → Nat → Res σ} : ∀ (l : List Nat) (s : σ),
    (∀ k, k ∈ l → ∀ s, f s k = g s k) → l.foldlM f s = l.foldlM g s
  | [], _, _ => rfl
  | a :: l, s, h => by
    simp only [List.foldlM_cons, h a (by simp)]
    cases g s a with
    | error e => rfl
    | ok s' => exact foldlM_congr l s' (fun k hk => h k (by simp [hk]))

theorem Mat.forM'_congr {σ : Type} (lo hi : Nat) (s : σ) (f g : σ → Nat → Res σ)
    (h : ∀ k s, lo ≤ k → k < hi → f s k = g s k) : forM' lo hi s f = forM' lo hi s g := by
  unfold Mat.forM'
  apply foldlM_congr
  intro k hk s
  have := List.mem_range'_1.mp hk
  exact h k s this.1 (by omega)

theorem Mat.forM'_split {σ : Type} (lo mid hi : Nat) (s : σ) (f : σ → Nat → Res σ)
    (h1 : lo ≤ mid) (h2 : mid ≤ hi) :
    forM' lo hi s f = (forM' lo mid s f >>= fun s' => forM' mid hi s' f) := by
  unfold Mat.forM'
  have e : List.range' lo (hi - lo) = List.range' lo (mid - lo) ++ List.range' mid (hi - mid) := by
    have := List.range'_append (s := lo) (m := mid - lo) (n := hi - mid) (step := 1)
    have e1 : lo + 1 * (mid - lo) = mid := by omega
    have e2 : (mid - lo) + (hi - mid) = hi - lo := by omega
    rw [e1, e2] at this
    exact this.symm
  rw [e, List.foldlM_append]

theorem Mat.forM'_succ {σ : Type} (lo hi : Nat) (s : σ) (f : σ → Nat → Res σ) (h : lo ≤ hi) :
    forM' lo (hi + 1) s f = (forM' lo hi s f >>= fun s' => f s' hi) := by
  rw [Mat.forM'_split lo hi (hi + 1) s f h (by omega)]
  congr 1
  funext s'
  unfold Mat.forM'
  have : hi + 1 - hi = 1 := by omega
  rw [this]
  simp only [List.range', List.foldlM_cons, List.foldlM_nil]
  cases f s' hi <;> rfl

namespace Sp
variable {K : Type}

/-! ### the column of a slot -/

/-- the column that slot `k` belongs to: the number of columns that end at or before `k` -/
def colOf (s : Sp K) (k : Nat) : Nat := cnt (fun j => decide (s.cs (j + 1) ≤ k)) s.cols

theorem WF.cs_le_cs {s : Sp K} (h : WF s) {a b : Nat} (hab : a ≤ b) (hb : b ≤ s.cols) :
    s.cs a ≤ s.cs b := by
  have := h.cs_mono (b - a) a (by omega)
  have e : a + (b - a) = b := by omega
  rwa [e] at this

/-- a slot that lies in the range of column `j` has column `j` -/
theorem WF.colOf_eq {s : Sp K} (h : WF s) {j k : Nat} (hj : j < s.cols) (h1 : s.cs j ≤ k)
    (h2 : k < s.cs (j + 1)) : s.colOf k = j := by
  unfold colOf
  apply cnt_threshold _ (by omega)
  · intro i hi
    have := h.cs_le_cs (show i + 1 ≤ j by omega) (by omega)
    simp; omega
  · intro i hi1 hi2
    have := h.cs_le_cs (show j + 1 ≤ i + 1 by omega) (by omega)
    simp; omega

theorem exists_bucket (f : Nat → Nat) (k : Nat) : ∀ n, f 0 ≤ k → k < f n →
    ∃ j, j < n ∧ f j ≤ k ∧ k < f (j + 1)
  | 0, h1, h2 => by omega
  | n + 1, h1, h2 => by
    by_cases hc : k < f n
    · obtain ⟨j, a, b, c⟩ := exists_bucket f k n h1 hc
      exact ⟨j, by omega, b, c⟩
    · exact ⟨n, by omega, by omega, h2⟩

/-- every slot lies in the range of its column -/
theorem WF.colOf_spec {s : Sp K} (h : WF s) {k : Nat} (hk : k < s.nonzero) :
    s.colOf k < s.cols ∧ s.cs (s.colOf k) ≤ k ∧ k < s.cs (s.colOf k + 1) := by
  obtain ⟨j, a, b, c⟩ := exists_bucket s.cs k s.cols (by rw [h.cs_zero]; omega) (by rw [h.cs_last]; exact hk)
  rw [h.colOf_eq a b c]
  exact ⟨a, b, c⟩

theorem WF.colOf_lt {s : Sp K} (h : WF s) {k : Nat} (hk : k < s.nonzero) : s.colOf k < s.cols :=
  (h.colOf_spec hk).1

/-- the column of a slot is unique -/
theorem WF.colOf_iff {s : Sp K} (h : WF s) {j k : Nat} (hj : j < s.cols) (hk : k < s.nonzero) :
    s.colOf k = j ↔ s.cs j ≤ k ∧ k < s.cs (j + 1) := by
  constructor
  · intro e; subst e; exact (h.colOf_spec hk).2
  · intro ⟨a, b⟩; exact h.colOf_eq hj a b

/-- the nested loop "for every column, for every slot of the column" is the loop over all slots -/
theorem WF.forM'_cols_flat {σ : Type} {s : Sp K} (h : WF s) (g : Nat → σ → Nat → Res σ) (st : σ) :
    forM' 0 s.cols st (fun st i => do
      let lo ← aget s.colStart i
      let hi ← aget s.colStart (i + 1)
      forM' lo hi st (g i)) =
    forM' 0 s.nonzero st (fun st k => g (s.colOf k) st k) := by
  have key : ∀ m, m ≤ s.cols → forM' 0 m st (fun st i => do
      let lo ← aget s.colStart i
      let hi ← aget s.colStart (i + 1)
      forM' lo hi st (g i)) = forM' 0 (s.cs m) st (fun st k => g (s.colOf k) st k) := by
    intro m
    induction m with
    | zero =>
      intro _
      rw [h.cs_zero, Mat.forM'_empty _ _ _ _ (Nat.le_refl _), Mat.forM'_empty _ _ _ _ (Nat.le_refl _)]
    | succ m ih =>
      intro hm
      rw [Mat.forM'_succ _ _ _ _ (Nat.zero_le _), ih (by omega),
        Mat.forM'_split 0 (s.cs m) (s.cs (m + 1)) st _ (Nat.zero_le _) (h.mono m (by omega))]
      congr 1
      funext st'
      rw [h.aget_cs (by omega), h.aget_cs (by omega)]
      show forM' (s.cs m) (s.cs (m + 1)) st' (g m) = _
      apply Mat.forM'_congr
      intro k st'' hk1 hk2
      rw [h.colOf_eq (by omega) hk1 hk2]
  have := key s.cols (Nat.le_refl _)
  rw [h.cs_last] at this
  exact this

/-! ### `col_start_from_index` -/

/-- `col_start_from_index`: for a column-index array whose first `nz` entries are `< cols`, the
    result has `cols + 1` entries and entry `j` is the number of slots whose column is `< j`. -/
theorem colStartFromIndex_count (cols nz : Nat) (ci : Array Nat) (hsz : nz ≤ ci.size)
    (hlt : ∀ k, k < nz → ci[k]?.getD 0 < cols) :
    ∃ cs, colStartFromIndex cols nz ci = .ok cs ∧ cs.size = cols + 1 ∧
      ∀ j, j ≤ cols → cs[j]? = some (cnt (fun k => decide (ci[k]?.getD 0 < j)) nz) := by
  -- first loop: histogram
  obtain ⟨c1, h1, h1s, h1v⟩ := forM'_inv
    (fun m (c : Array Nat) => c.size = cols + 1 ∧
      ∀ j, c[j]?.getD 0 = if j ≤ cols then cnt (fun k => ci[k]?.getD 0 == j) m else 0)
    0 nz (Array.replicate (cols + 1) 0) (fun cs n => do
      let c ← aget ci n
      let x ← aget cs c
      aset cs c (x + 1)) (Nat.zero_le _)
    ⟨by simp, by
      intro j
      by_cases hj : j ≤ cols
      · have : j < cols + 1 := by omega
        simp [hj, this, cnt]
      · have : ¬ j < cols + 1 := by omega
        simp [hj, this]⟩ (by
      intro m c _ hm ⟨hs, hv⟩
      have a1 : m < ci.size := by omega
      have a2 := hlt m hm
      have e1 : ci[m]?.getD 0 = ci[m] := by simp [a1]
      rw [e1] at a2
      have a3 : ci[m] < c.size := by omega
      refine ⟨c.setIfInBounds ci[m] (c[ci[m]] + 1), by
        simp [aget_ok a1, aget_ok a3, aset_ok _ a3, bind, Except.bind], by simpa using hs, ?_⟩
      intro j
      rw [Array.getElem?_setIfInBounds]
      by_cases hc : ci[m] = j
      · subst hc
        have := hv ci[m]
        have hle : ci[m] ≤ cols := by omega
        simp only [hle, if_true, a3, Array.getElem?_eq_getElem, Option.getD_some] at this
        simp [a3, hle, cnt, e1, this]
      · have := hv j
        by_cases hj : j ≤ cols
        · simp only [hj, if_true] at this
          simp [hc, hj, cnt, e1, this]
        · simp only [hj, if_false] at this
          simp [hc, hj, this])
  -- second loop: exclusive prefix sums
  obtain ⟨⟨c2, sum⟩, h2, h2s, h2sum, h2v⟩ := forM'_inv
    (fun m (st : Array Nat × Nat) => st.1.size = cols + 1 ∧
      st.2 = cnt (fun k => decide (ci[k]?.getD 0 < m)) nz ∧
      ∀ j, j ≤ cols → st.1[j]?.getD 0 =
        if j < m then cnt (fun k => decide (ci[k]?.getD 0 < j)) nz
        else cnt (fun k => ci[k]?.getD 0 == j) nz)
    0 cols (c1, 0) (fun (cs, sum) k => do
      let ck ← aget cs k
      let cs ← aset cs k sum
      pure (cs, sum + ck)) (Nat.zero_le _)
    ⟨h1s, by simp [cnt_false], by
      intro j hj
      simp [h1v j, hj]⟩ (by
      intro m ⟨c, sm⟩ _ hm ⟨hs, hsum, hv⟩
      simp only at hs hsum hv
      have a1 : m < c.size := by omega
      refine ⟨(c.setIfInBounds m sm, sm + c[m]), by
        simp [aget_ok a1, aset_ok _ a1, bind, Except.bind, pure, Except.pure], by simpa using hs, ?_, ?_⟩
      · have := hv m (by omega)
        simp only [Nat.lt_irrefl, if_false, a1, Array.getElem?_eq_getElem, Option.getD_some] at this
        simp only [this, hsum]
        exact (cnt_lt_succ _ m nz).symm
      · intro j hj
        simp only [Array.getElem?_setIfInBounds]
        by_cases hc : m = j
        · subst hc
          simp [a1, hsum]
        · have := hv j hj
          by_cases hjm : j < m
          · have h' : j < m + 1 := by omega
            simp only [hjm, if_true] at this
            simp only [hc, if_false, h', if_true, this]
          · have h' : ¬ j < m + 1 := by omega
            simp only [hjm, if_false] at this
            simp only [hc, if_false, h', this])
  simp only at h2s h2sum h2v
  have a1 : cols < c2.size := by omega
  refine ⟨c2.setIfInBounds cols sum, ?_, by simpa using h2s, ?_⟩
  · simp only [colStartFromIndex]
    rw [h1, ok_bind, h2, ok_bind]
    exact aset_ok _ a1
  · intro j hj
    rw [Array.getElem?_setIfInBounds]
    by_cases hc : cols = j
    · subst hc
      simp [a1, h2sum]
    · have hjc : j < cols := by omega
      have := h2v j hj
      have hj2 : j < c2.size := by omega
      simp only [hjc, if_true, hj2, Array.getElem?_eq_getElem, Option.getD_some] at this
      simp [hc, hj2, this]

/-- for a non-decreasing column index, slot `k` lies in the counted range of its column -/
theorem cnt_sorted_slot (f : Nat → Nat) (nz k : Nat) (hk : k < nz)
    (hs : ∀ a b, a ≤ b → b < nz → f a ≤ f b) :
    cnt (fun i => decide (f i < f k)) nz ≤ k ∧ k < cnt (fun i => decide (f i < f k + 1)) nz := by
  constructor
  · apply cnt_le_of_bound
    intro i hi hp
    have hp' : f i < f k := by simpa using hp
    by_cases hik : i < k
    · exact hik
    · have := hs k i (by omega) hi
      omega
  · have : k + 1 ≤ cnt (fun i => decide (f i < f k + 1)) nz := by
      apply cnt_ge_of_prefix (by omega)
      intro i hi
      have := hs i k (by omega) hk
      simp; omega
    omega

/-! ### `col_index` -/

/-- `col_index()` of a well-formed storage lists the column of every slot -/
theorem WF.colIndex_spec {s : Sp K} (h : WF s) :
    ∃ ci, colIndex s = .ok ci ∧ ci.size = s.nonzero ∧ ∀ k, k < s.nonzero → ci[k]? = some (s.colOf k) := by
  unfold colIndex
  by_cases hz : s.nonzero = 0
  · simp [hz]
  · have h0 : ¬ s.colStart.size < s.cols + 1 := by rw [h.csSize]; omega
    simp only [hz, h0, if_false]
    have e : s.colStart.size - 1 = s.cols := by rw [h.csSize]; omega
    rw [e]
    obtain ⟨ci, h1, h2, h3⟩ := forM'_inv
      (fun m (acc : Array Nat) => acc.size = s.cs m ∧ ∀ k, k < s.cs m → acc[k]? = some (s.colOf k))
      0 s.cols (#[] : Array Nat) (fun acc k => do
        let a ← aget s.colStart (k + 1)
        let b ← aget s.colStart k
        let gap ← usub a b
        pure (acc ++ Array.replicate gap k)) (Nat.zero_le _)
      ⟨by simp [h.cs_zero], by intro k hk; rw [h.cs_zero] at hk; omega⟩ (by
        intro m acc _ hm ⟨hs, hv⟩
        have hmono := h.mono m hm
        refine ⟨acc ++ Array.replicate (s.cs (m + 1) - s.cs m) m, by
          simp [h.aget_cs (show m + 1 ≤ s.cols by omega), h.aget_cs (show m ≤ s.cols by omega),
            usub, hmono, bind, Except.bind, pure, Except.pure], by simp [hs]; omega, ?_⟩
        intro k hk
        by_cases hc : k < s.cs m
        · rw [Array.getElem?_append_left (by omega)]
          exact hv k hc
        · rw [Array.getElem?_append_right (by omega)]
          have : k - acc.size < s.cs (m + 1) - s.cs m := by omega
          rw [Array.getElem?_replicate]
          simp only [this, if_true]
          rw [h.colOf_eq hm (by omega) hk])
    rw [h.cs_last] at h2 h3
    exact ⟨ci, h1, h2, h3⟩

/-! ### `to_triplets` -/

section Trip
variable [Zero K]

/-- the triplet held in slot `k` -/
def trip (s : Sp K) (k : Nat) : Nat × Nat × K := (s.ri k, s.colOf k, s.vl k)

/-- the stored triplets in storage order -/
def trips (s : Sp K) : List (Nat × Nat × K) := (List.range s.nonzero).map (trip s)

@[simp] theorem length_trips (s : Sp K) : (trips s).length = s.nonzero := by simp [trips]

theorem getElem?_trips (s : Sp K) {k : Nat} (hk : k < s.nonzero) : (trips s)[k]? = some (trip s k) := by
  simp [trips, hk]

theorem mem_trips {s : Sp K} {t : Nat × Nat × K} :
    t ∈ trips s ↔ ∃ k, k < s.nonzero ∧ trip s k = t := by
  simp [trips]

theorem WF.ri_eq {s : Sp K} (h : WF s) {k : Nat} (hk : k < s.nonzero) :
    ∃ hk' : k < s.rowIndex.size, s.ri k = s.rowIndex[k] := by
  have : k < s.rowIndex.size := by rw [h.riSize]; exact hk
  exact ⟨this, by simp [ri, this]⟩

theorem WF.vl_eq {s : Sp K} (h : WF s) {k : Nat} (hk : k < s.nonzero) :
    ∃ hk' : k < s.val.size, s.vl k = s.val[k] := by
  have : k < s.val.size := by rw [h.valSize]; exact hk
  exact ⟨this, by simp [vl, this]⟩

theorem WF.aget_ri {s : Sp K} (h : WF s) {k : Nat} (hk : k < s.nonzero) :
    aget s.rowIndex k = .ok (s.ri k) := by
  obtain ⟨a, b⟩ := h.ri_eq hk
  rw [aget_ok a, b]

theorem WF.aget_vl {s : Sp K} (h : WF s) {k : Nat} (hk : k < s.nonzero) :
    aget s.val k = .ok (s.vl k) := by
  obtain ⟨a, b⟩ := h.vl_eq hk
  rw [aget_ok a, b]

/-- `to_triplets()` of a well-formed storage lists the slots in storage order -/
theorem WF.toTriplets_spec {s : Sp K} (h : WF s) : toTriplets s = .ok (trips s) := by
  unfold toTriplets
  rw [h.forM'_cols_flat (σ := Array (Nat × Nat × K)) (fun j acc k => do
      let r ← aget s.rowIndex k
      let v ← aget s.val k
      pure (acc.push (r, j, v)))]
  obtain ⟨a, h1, h2⟩ := forM'_inv
    (fun m (acc : Array (Nat × Nat × K)) => acc.toList = (List.range m).map (trip s))
    0 s.nonzero (#[] : Array (Nat × Nat × K)) (fun acc k => do
      let r ← aget s.rowIndex k
      let v ← aget s.val k
      pure (acc.push (r, s.colOf k, v))) (Nat.zero_le _) (by simp) (by
      intro m acc _ hm hacc
      refine ⟨acc.push (trip s m), by
        simp [h.aget_ri hm, h.aget_vl hm, bind, Except.bind, trip, pure, Except.pure], ?_⟩
      simp [List.range_succ, hacc])
  rw [h1, ok_bind]
  simp [pure, Except.pure, h2, trips]

/-- every stored triplet is in range -/
theorem WF.trips_inRange {s : Sp K} (h : WF s) :
    ∀ t, t ∈ trips s → t.1 < s.rows ∧ t.2.1 < s.cols := by
  intro t ht
  obtain ⟨k, hk, rfl⟩ := mem_trips.mp ht
  exact ⟨h.riLt k hk, h.colOf_lt hk⟩

end Trip

/-! ### `get` and the search loop of `insert` -/

/-- the least `k < n` with `p k` -/
def firstHit (p : Nat → Bool) : Nat → Option Nat
  | 0 => none
  | n + 1 => match firstHit p n with
    | some k => some k
    | none => if p n then some n else none

theorem firstHit_eq_none {p : Nat → Bool} : ∀ {n : Nat},
    firstHit p n = none ↔ ∀ k, k < n → p k = false
  | 0 => by simp [firstHit]
  | n + 1 => by
    have ih := @firstHit_eq_none p n
    simp only [firstHit]
    cases hf : firstHit p n with
    | some k0 =>
      simp only [reduceCtorEq, false_iff]
      intro hall
      have := ih.mpr (fun k hk => hall k (by omega))
      rw [hf] at this
      cases this
    | none =>
      have hn := ih.mp hf
      by_cases hp : p n = true
      · simp only [hp, if_true, reduceCtorEq, false_iff]
        intro hall
        have := hall n (by omega)
        rw [hp] at this
        cases this
      · have hp' : p n = false := by simpa using hp
        simp only [hp', Bool.false_eq_true, if_false, true_iff]
        intro k hk
        by_cases hkn : k = n
        · subst hkn; exact hp'
        · exact hn k (by omega)

theorem firstHit_eq_some {p : Nat → Bool} : ∀ {n k : Nat},
    firstHit p n = some k ↔ k < n ∧ p k = true ∧ ∀ k', k' < k → p k' = false
  | 0, k => by simp [firstHit]
  | n + 1, k => by
    have ih := @firstHit_eq_some p n
    simp only [firstHit]
    cases hf : firstHit p n with
    | some k0 =>
      obtain ⟨a, b, c⟩ := ih.mp hf
      simp only [Option.some.injEq]
      constructor
      · intro e; subst e; exact ⟨by omega, b, c⟩
      · intro ⟨a', b', c'⟩
        by_cases h1 : k < k0
        · have := c k h1; rw [b'] at this; cases this
        · by_cases h2 : k0 < k
          · have := c' k0 h2; rw [b] at this; cases this
          · omega
    | none =>
      have hn := firstHit_eq_none.mp hf
      by_cases hp : p n = true
      · simp only [hp, if_true, Option.some.injEq]
        constructor
        · intro e; subst e; exact ⟨by omega, hp, hn⟩
        · intro ⟨a', b', c'⟩
          by_cases h1 : k < n
          · have := hn k h1; rw [b'] at this; cases this
          · omega
      · have hp' : p n = false := by simpa using hp
        simp only [hp', Bool.false_eq_true, if_false, reduceCtorEq, false_iff]
        intro ⟨a', b', c'⟩
        by_cases h1 : k < n
        · have := hn k h1; rw [b'] at this; cases this
        · have : k = n := by omega
          subst this
          exact hp b'

section Get
variable [Zero K]

/-- the first slot (in storage order) holding position `(row, col)` -/
def firstSlot (s : Sp K) (row col : Nat) : Option Nat :=
  firstHit (fun k => s.ri k == row && s.colOf k == col) s.nonzero

theorem firstSlot_eq_some {s : Sp K} {row col k : Nat} :
    firstSlot s row col = some k ↔ k < s.nonzero ∧ (s.ri k = row ∧ s.colOf k = col) ∧
      ∀ k', k' < k → ¬ (s.ri k' = row ∧ s.colOf k' = col) := by
  unfold firstSlot
  rw [firstHit_eq_some]
  simp

theorem firstSlot_eq_none {s : Sp K} {row col : Nat} :
    firstSlot s row col = none ↔ ∀ k, k < s.nonzero → ¬ (s.ri k = row ∧ s.colOf k = col) := by
  unfold firstSlot
  rw [firstHit_eq_none]
  simp

/-- the search loop shared by `get` and `insert` finds the first slot of the position -/
theorem WF.search_loop {s : Sp K} (h : WF s) (ci : Array Nat)
    (hci : ∀ k, k < s.nonzero → ci[k]? = some (s.colOf k)) (row col : Nat) :
    forM' 0 s.nonzero (none : Option Nat) (fun found k =>
      match found with
      | some i => pure (some i)
      | none => do
        let ri ← aget s.rowIndex k
        if ri == row then do
          let c ← aget ci k
          if c == col then pure (some k) else pure none
        else pure none) = .ok (firstSlot s row col) := by
  obtain ⟨r, h1, h2⟩ := forM'_inv
    (fun m (found : Option Nat) =>
      found = firstHit (fun k => s.ri k == row && s.colOf k == col) m)
    0 s.nonzero (none : Option Nat) (fun found k =>
      match found with
      | some i => pure (some i)
      | none => do
        let ri ← aget s.rowIndex k
        if ri == row then do
          let c ← aget ci k
          if c == col then pure (some k) else pure none
        else pure none) (Nat.zero_le _) rfl (by
      intro m found _ hm hf
      have hc := Mat.aget_eq_ok.mpr (hci m hm)
      cases found with
      | some i =>
        exact ⟨some i, rfl, by simp only [firstHit, ← hf]⟩
      | none =>
        simp only [h.aget_ri hm, bind, Except.bind, firstHit, ← hf]
        by_cases hr : (s.ri m == row) = true
        · simp only [hr, if_true, hc, Bool.true_and]
          split <;> exact ⟨_, rfl, rfl⟩
        · simp only [hr, Bool.false_and]
          exact ⟨_, rfl, rfl⟩)
  rw [h1, h2]; rfl

/-- `get(row, col)` of a well-formed storage returns the value of the FIRST slot holding that
    position, `None` if there is none -/
theorem WF.get_spec {s : Sp K} (h : WF s) {row col : Nat} (hr : row < s.rows) (hc : col < s.cols) :
    get s row col = .ok ((firstSlot s row col).map s.vl) := by
  obtain ⟨ci, c1, c2, c3⟩ := h.colIndex_spec
  have e1 : ¬ s.rows ≤ row := by omega
  have e2 : ¬ s.cols ≤ col := by omega
  have e3 : ¬ s.colStart.size ≤ col := by rw [h.csSize]; omega
  simp only [get, e1, e2, e3, if_false]
  rw [c1, ok_bind]
  obtain ⟨r, h1, h2⟩ := forM'_inv
    (fun m (found : Option K) =>
      found = (firstHit (fun k => s.ri k == row && s.colOf k == col) m).map s.vl)
    0 s.nonzero (none : Option K) (fun found k =>
      match found with
      | some v => pure (some v)
      | none => do
        let ri ← aget s.rowIndex k
        if ri == row then do
          let c ← aget ci k
          if c == col then do
            let v ← aget s.val k
            pure (some v)
          else pure none
        else pure none) (Nat.zero_le _) rfl (by
      intro m found _ hm hf
      have hc := Mat.aget_eq_ok.mpr (c3 m hm)
      cases found with
      | some v =>
        refine ⟨some v, rfl, ?_⟩
        simp only [firstHit]
        cases hh : firstHit (fun k => s.ri k == row && s.colOf k == col) m with
        | none => rw [hh] at hf; cases hf
        | some i => rw [hh] at hf; exact hf
      | none =>
        have hh : firstHit (fun k => s.ri k == row && s.colOf k == col) m = none := by
          cases hh : firstHit (fun k => s.ri k == row && s.colOf k == col) m with
          | none => rfl
          | some i => rw [hh] at hf; cases hf
        simp only [h.aget_ri hm, bind, Except.bind, firstHit, hh]
        by_cases hr : (s.ri m == row) = true
        · simp only [hr, if_true, hc, Bool.true_and]
          split
          · exact ⟨_, by rw [h.aget_vl hm]; rfl, rfl⟩
          · exact ⟨_, rfl, rfl⟩
        · simp only [hr, Bool.false_and]
          exact ⟨_, rfl, rfl⟩)
  exact h1.trans (by rw [h2]; rfl)

end Get

/-! ### `from_triplets` -/

/-- `col_start_from_index` applied to a sorted, in-range column index yields a well-formed storage
    whose slot `k` lies in column `ci[k]` -/
theorem wf_of_colIndex (rows cols nz : Nat) (ri ci : Array Nat) (vs : Array K)
    (hri : ri.size = nz) (hci : ci.size = nz) (hvs : vs.size = nz)
    (hr : ∀ k, k < nz → ri[k]?.getD 0 < rows) (hc : ∀ k, k < nz → ci[k]?.getD 0 < cols)
    (hs : ∀ a b, a ≤ b → b < nz → ci[a]?.getD 0 ≤ ci[b]?.getD 0) :
    ∃ cs, colStartFromIndex cols nz ci = .ok cs ∧ WF (⟨rows, cols, nz, vs, ri, cs⟩ : Sp K) ∧
      ∀ k, k < nz → colOf (⟨rows, cols, nz, vs, ri, cs⟩ : Sp K) k = ci[k]?.getD 0 := by
  obtain ⟨cs, h1, h2, h3⟩ := colStartFromIndex_count cols nz ci (by omega) hc
  have hcs : ∀ j, j ≤ cols → Sp.cs (⟨rows, cols, nz, vs, ri, cs⟩ : Sp K) j =
      cnt (fun k => decide (ci[k]?.getD 0 < j)) nz := by
    intro j hj
    simp [Sp.cs, h3 j hj]
  have hwf : WF (⟨rows, cols, nz, vs, ri, cs⟩ : Sp K) := by
    refine ⟨h2, ?_, ?_, ?_, hvs, hri, hr⟩
    · show cs[0]? = some 0
      rw [h3 0 (Nat.zero_le _), cnt_false]
      intro k _; simp
    · intro j hj
      rw [hcs j (Nat.le_of_lt hj), hcs (j + 1) hj]
      apply cnt_mono_pred
      intro k _ hk
      have : ci[k]?.getD 0 < j := by simpa using hk
      simp; omega
    · show cs[cols]? = some nz
      rw [h3 cols (Nat.le_refl _), cnt_true]
      intro k hk
      simpa using hc k hk
  refine ⟨cs, h1, hwf, ?_⟩
  intro k hk
  have hck := hc k hk
  obtain ⟨a, b⟩ := cnt_sorted_slot (fun i => ci[i]?.getD 0) nz k hk hs
  apply hwf.colOf_eq hck
  · rw [hcs _ (Nat.le_of_lt hck)]; exact a
  · rw [hcs _ hck]; exact b

/-- one step of the fold in `from_triplets` -/
def ftStep (rows cols : Nat) (acc : Array Nat × Array Nat × Array K) (t : Nat × Nat × K) :
    Res (Array Nat × Array Nat × Array K) :=
  if t.1 ≥ rows then .error .range
  else if t.2.1 ≥ cols then .error .range
  else .ok (acc.1.push t.1, acc.2.1.push t.2.1, acc.2.2.push t.2.2)

theorem fromTriplets_eq (rows cols : Nat) (ts : List (Nat × Nat × K)) :
    fromTriplets rows cols ts = ((sortByCol ts).foldlM (ftStep rows cols) (#[], #[], #[]) >>= fun x =>
      colStartFromIndex cols x.1.size x.2.1 >>= fun cs =>
      pure ⟨rows, cols, x.1.size, x.2.2, x.1, cs⟩) := rfl

theorem ftStep_fold_ok (rows cols : Nat) : ∀ (l : List (Nat × Nat × K))
    (acc : Array Nat × Array Nat × Array K), (∀ t, t ∈ l → t.1 < rows ∧ t.2.1 < cols) →
    l.foldlM (ftStep rows cols) acc = .ok (acc.1 ++ (l.map (·.1)).toArray,
      acc.2.1 ++ (l.map (·.2.1)).toArray, acc.2.2 ++ (l.map (·.2.2)).toArray)
  | [], acc, _ => by simp [pure, Except.pure]
  | t :: l, acc, h => by
    obtain ⟨a, b⟩ := h t (by simp)
    have e : ftStep rows cols acc t = .ok (acc.1.push t.1, acc.2.1.push t.2.1, acc.2.2.push t.2.2) := by
      have a' : ¬ t.1 ≥ rows := by omega
      have b' : ¬ t.2.1 ≥ cols := by omega
      simp only [ftStep, a', b', if_false]
    rw [List.foldlM_cons, e, ok_bind, ftStep_fold_ok rows cols l _ (fun u hu => h u (by simp [hu]))]
    congr 1
    refine Prod.ext ?_ (Prod.ext ?_ ?_) <;> (apply Array.ext'; simp)

theorem ftStep_fold_err (rows cols : Nat) : ∀ (l : List (Nat × Nat × K))
    (acc : Array Nat × Array Nat × Array K), (∃ t, t ∈ l ∧ ¬ (t.1 < rows ∧ t.2.1 < cols)) →
    l.foldlM (ftStep rows cols) acc = .error .range
  | [], _, h => by obtain ⟨t, ht, _⟩ := h; cases ht
  | t :: l, acc, h => by
    rw [List.foldlM_cons]
    by_cases ht : t.1 < rows ∧ t.2.1 < cols
    · have e : ftStep rows cols acc t = .ok (acc.1.push t.1, acc.2.1.push t.2.1, acc.2.2.push t.2.2) := by
        have a' : ¬ t.1 ≥ rows := by omega
        have b' : ¬ t.2.1 ≥ cols := by omega
        simp only [ftStep, a', b', if_false]
      rw [e, ok_bind]
      apply ftStep_fold_err
      obtain ⟨u, hu, hbad⟩ := h
      rcases List.mem_cons.mp hu with rfl | hu'
      · exact absurd ht hbad
      · exact ⟨u, hu', hbad⟩
    · have e : ftStep rows cols acc t = .error .range := by
        unfold ftStep
        by_cases a : t.1 ≥ rows
        · simp only [a, if_true]
        · have b : t.2.1 ≥ cols := by omega
          simp only [a, b, if_false, if_true]
      rw [e]; rfl

/-- `from_triplets` on in-range triplets: the arrays of the result (no `Zero K` needed) -/
theorem fromTriplets_ok' (rows cols : Nat) (ts : List (Nat × Nat × K))
    (hlen : (sortByCol ts).length = ts.length)
    (hsorted : (sortByCol ts).Pairwise (fun a b => a.2.1 ≤ b.2.1))
    (hr : ∀ t, t ∈ sortByCol ts → t.1 < rows ∧ t.2.1 < cols) :
    ∃ s, fromTriplets rows cols ts = .ok s ∧ WF s ∧ s.rows = rows ∧ s.cols = cols ∧
      s.nonzero = ts.length ∧ s.rowIndex = ((sortByCol ts).map (·.1)).toArray ∧
      s.val = ((sortByCol ts).map (·.2.2)).toArray ∧
      ∀ k (hk : k < (sortByCol ts).length), colOf s k = (sortByCol ts)[k].2.1 := by
  rw [fromTriplets_eq, ftStep_fold_ok rows cols _ _ hr, ok_bind]
  generalize sortByCol ts = L at hlen hsorted hr ⊢
  have hget : ∀ (k : Nat) (hk : k < L.length),
      (L.map (·.1)).toArray[k]?.getD 0 = L[k].1 ∧ (L.map (·.2.1)).toArray[k]?.getD 0 = L[k].2.1 := by
    intro k hk; simp [hk]
  obtain ⟨cs, h1, h2, h3⟩ := wf_of_colIndex rows cols L.length (L.map (·.1)).toArray
    (L.map (·.2.1)).toArray (L.map (·.2.2)).toArray (by simp) (by simp) (by simp)
    (by intro k hk; rw [(hget k hk).1]; exact (hr _ (List.getElem_mem hk)).1)
    (by intro k hk; rw [(hget k hk).2]; exact (hr _ (List.getElem_mem hk)).2)
    (by
      intro a b hab hb
      rw [(hget a (by omega)).2, (hget b hb).2]
      by_cases e : a = b
      · subst e; exact Nat.le_refl _
      · exact List.pairwise_iff_getElem.mp hsorted a b (by omega) hb (by omega))
  have e1 : (#[] ++ (L.map (·.1)).toArray : Array Nat) = (L.map (·.1)).toArray := by simp
  have e2 : (#[] ++ (L.map (·.2.1)).toArray : Array Nat) = (L.map (·.2.1)).toArray := by simp
  have e3 : (#[] ++ (L.map (·.2.2)).toArray : Array K) = (L.map (·.2.2)).toArray := by simp
  have e4 : (L.map (·.1)).toArray.size = L.length := by simp
  simp only [e1, e2, e3, e4]
  rw [h1, ok_bind]
  refine ⟨_, rfl, h2, rfl, rfl, hlen, rfl, rfl, ?_⟩
  intro k hk
  rw [h3 k hk, (hget k hk).2]

section FT
variable [Zero K]

/-- `from_triplets` on in-range triplets stores exactly the stably sorted list -/
theorem fromTriplets_ok (rows cols : Nat) (ts : List (Nat × Nat × K))
    (hlen : (sortByCol ts).length = ts.length)
    (hsorted : (sortByCol ts).Pairwise (fun a b => a.2.1 ≤ b.2.1))
    (hr : ∀ t, t ∈ sortByCol ts → t.1 < rows ∧ t.2.1 < cols) :
    ∃ s, fromTriplets rows cols ts = .ok s ∧ WF s ∧ s.rows = rows ∧ s.cols = cols ∧
      s.nonzero = ts.length ∧ trips s = sortByCol ts := by
  obtain ⟨s, h1, h2, h3, h4, h5, h6, h7, h8⟩ := fromTriplets_ok' rows cols ts hlen hsorted hr
  refine ⟨s, h1, h2, h3, h4, h5, ?_⟩
  apply List.ext_getElem (by simp [h5, hlen])
  intro k hk1 hk2
  have hk : k < s.nonzero := by simpa using hk1
  have := getElem?_trips s hk
  rw [List.getElem?_eq_getElem hk1] at this
  rw [Option.some.inj this]
  simp only [trip, h8 k hk2, Sp.ri, Sp.vl, h6, h7]
  simp [hk2]

end FT

/-- `from_triplets` rejects a list that contains an out-of-range triplet -/
theorem fromTriplets_err (rows cols : Nat) (ts : List (Nat × Nat × K))
    (hbad : ∃ t, t ∈ sortByCol ts ∧ ¬ (t.1 < rows ∧ t.2.1 < cols)) :
    fromTriplets rows cols ts = .error .range := by
  rw [fromTriplets_eq, ftStep_fold_err rows cols _ _ hbad]; rfl

/-! ### `insert` -/

theorem bind_eq_of_ok {α β : Type} {x : Res α} {a : α} (f : α → Res β) (hx : x = .ok a) :
    (x >>= f) = f a := by rw [hx]; rfl

section Insert
variable [Zero K]

/-- `insert` on a position that is already stored overwrites the value of its FIRST slot -/
theorem WF.insert_hit {s : Sp K} (h : WF s) {row col k : Nat} (hr : row < s.rows) (hc : col < s.cols)
    (v : K) (hk : firstSlot s row col = some k) :
    insert s row col v = .ok { s with val := s.val.setIfInBounds k v } := by
  obtain ⟨ci, c1, c2, c3⟩ := h.colIndex_spec
  have e1 : ¬ s.rows ≤ row := by omega
  have e2 : ¬ s.cols ≤ col := by omega
  have e3 : ¬ s.colStart.size ≤ col := by rw [h.csSize]; omega
  have hk' : k < s.val.size := by rw [h.valSize]; exact (firstSlot_eq_some.mp hk).1
  simp only [insert, e1, e2, e3, if_false]
  rw [c1, ok_bind]
  refine (bind_eq_of_ok _ (h.search_loop ci c3 row col)).trans ?_
  rw [hk]
  show (aset s.val k v >>= fun vs => pure { s with val := vs }) = _
  rw [aset_ok _ hk']; rfl

/-- `insert` on a position that is not stored rebuilds the matrix from the extended triplet list -/
theorem WF.insert_miss {s : Sp K} (h : WF s) {row col : Nat} (hr : row < s.rows) (hc : col < s.cols)
    (v : K) (hk : firstSlot s row col = none) :
    insert s row col v = fromTriplets s.rows s.cols (trips s ++ [(row, col, v)]) := by
  obtain ⟨ci, c1, c2, c3⟩ := h.colIndex_spec
  have e1 : ¬ s.rows ≤ row := by omega
  have e2 : ¬ s.cols ≤ col := by omega
  have e3 : ¬ s.colStart.size ≤ col := by rw [h.csSize]; omega
  simp only [insert, e1, e2, e3, if_false]
  rw [c1, ok_bind]
  refine (bind_eq_of_ok _ (h.search_loop ci c3 row col)).trans ?_
  rw [hk]
  show (toTriplets s >>= fun ts => fromTriplets s.rows s.cols (ts ++ [(row, col, v)])) = _
  rw [h.toTriplets_spec]; rfl

end Insert

/-! ### `transpose` : a stable counting sort by row -/

/-- target slot of the `j`-th element in a stable counting sort by the key `f` -/
def pos (f : Nat → Nat) (n j : Nat) : Nat :=
  cnt (fun i => decide (f i < f j)) n + cnt (fun i => f i == f j) j

theorem pos_ge (f : Nat → Nat) (n j : Nat) : cnt (fun i => decide (f i < f j)) n ≤ pos f n j :=
  Nat.le_add_right _ _

theorem pos_lt_succ (f : Nat → Nat) {n j : Nat} (hj : j < n) :
    pos f n j < cnt (fun i => decide (f i < f j + 1)) n := by
  rw [cnt_lt_succ]
  have := cnt_lt_of_mem (fun i => f i == f j) hj (by simp)
  unfold pos; omega

theorem pos_lt (f : Nat → Nat) {n j : Nat} (hj : j < n) : pos f n j < n := by
  have := pos_lt_succ f hj
  have := cnt_le (fun i => decide (f i < f j + 1)) n
  omega

theorem pos_ne (f : Nat → Nat) {n j1 j2 : Nat} (h1 : j1 < j2) (h2 : j2 < n) :
    pos f n j1 ≠ pos f n j2 := by
  have key : ∀ a b, a < n → b < n → f a < f b → pos f n a < pos f n b := by
    intro a b ha hb hab
    have l1 := pos_lt_succ f ha
    have l2 : cnt (fun i => decide (f i < f a + 1)) n ≤ cnt (fun i => decide (f i < f b)) n := by
      apply cnt_mono_pred
      intro k _ hk
      have : f k < f a + 1 := by simpa using hk
      simp; omega
    have l3 := pos_ge f n b
    omega
  by_cases e : f j1 = f j2
  · have := cnt_lt_of_mem (fun i => f i == f j2) h1 (by simp [e])
    unfold pos; rw [e]; omega
  · by_cases lt : f j1 < f j2
    · have := key j1 j2 (by omega) h2 lt; omega
    · have := key j2 j1 h2 (by omega) (by omega); omega

section Transpose
variable [Zero K]

def tCountStep (s : Sp K) (count : Array Nat) (j : Nat) : Res (Array Nat) := do
  let r ← aget s.rowIndex j
  let c ← aget count r
  aset count r (c + 1)

def tCsStep (count cs : Array Nat) (j : Nat) : Res (Array Nat) := do
  let a ← aget cs j
  let c ← aget count j
  aset cs (j + 1) (a + c)

def tScatterStep (s : Sp K) (cs : Array Nat) (i : Nat) (st : Array Nat × Array K × Array Nat) (j : Nat) :
    Res (Array Nat × Array K × Array Nat) := do
  let k ← aget s.rowIndex j
  let base ← aget cs k
  let c ← aget st.2.2 k
  let ri ← aset st.1 (base + c) i
  let v ← aget s.val j
  let vs ← aset st.2.1 (base + c) v
  let count ← aset st.2.2 k (c + 1)
  pure (ri, vs, count)

theorem transpose_eq (s : Sp K) : transpose s =
    (forM' 0 s.cols (Array.replicate s.rows 0) (fun count i => do
        let lo ← aget s.colStart i
        let hi ← aget s.colStart (i + 1)
        forM' lo hi count (tCountStep s)) >>= fun count =>
      forM' 0 s.rows (Array.replicate (s.rows + 1) 0) (tCsStep count) >>= fun cs =>
      forM' 0 s.cols (Array.replicate s.nonzero 0, Array.replicate s.nonzero (0 : K),
          Array.replicate s.rows 0) (fun st i => do
        let lo ← aget s.colStart i
        let hi ← aget s.colStart (i + 1)
        forM' lo hi st (tScatterStep s cs i)) >>= fun x =>
      pure ⟨s.cols, s.rows, s.nonzero, x.2.1, x.1, cs⟩) := rfl

/-- swap row and column of a triplet -/
def swapT (t : Nat × Nat × K) : Nat × Nat × K := (t.2.1, t.1, t.2.2)

/-- `transpose()` of a well-formed storage: the result is well formed, its column pointer counts
    the rows of `s`, and slot `j` of `s` lands (swapped) in slot `pos ri nonzero j` -/
theorem WF.transpose_ok {s : Sp K} (h : WF s) :
    ∃ t, transpose s = .ok t ∧ WF t ∧ t.rows = s.cols ∧ t.cols = s.rows ∧ t.nonzero = s.nonzero ∧
      (∀ j, j ≤ s.rows → t.cs j = cnt (fun i => decide (s.ri i < j)) s.nonzero) ∧
      ∀ j, j < s.nonzero → trip t (pos s.ri s.nonzero j) = swapT (trip s j) := by
  rw [transpose_eq, h.forM'_cols_flat (fun _ => tCountStep s)]
  -- loop 1: row histogram
  obtain ⟨count, h1, h1s, h1v⟩ := forM'_inv
    (fun m (c : Array Nat) => c.size = s.rows ∧
      ∀ r, r < s.rows → c[r]? = some (cnt (fun j => s.ri j == r) m))
    0 s.nonzero (Array.replicate s.rows 0) (fun st k => tCountStep s st k) (Nat.zero_le _)
    ⟨by simp, by intro r hr; simp [hr, cnt]⟩ (by
      intro m c _ hm ⟨hs, hv⟩
      have hr := h.riLt m hm
      have a3 : s.ri m < c.size := by omega
      refine ⟨c.setIfInBounds (s.ri m) (cnt (fun j => s.ri j == s.ri m) m + 1), by
        simp only [tCountStep, h.aget_ri hm, Mat.aget_eq_ok.mpr (hv _ hr), bind, Except.bind]
        exact aset_ok _ a3, by simpa using hs, ?_⟩
      intro r hr'
      rw [Array.getElem?_setIfInBounds]
      by_cases hc : s.ri m = r
      · subst hc; simp [a3, cnt]
      · simp [hc, cnt, hv r hr'])
  rw [h1, ok_bind]
  -- loop 2: prefix sums
  obtain ⟨cs, h2, h2s, h2v⟩ := forM'_inv
    (fun m (c : Array Nat) => c.size = s.rows + 1 ∧
      ∀ j, j ≤ m → c[j]? = some (cnt (fun i => decide (s.ri i < j)) s.nonzero))
    0 s.rows (Array.replicate (s.rows + 1) 0) (tCsStep count) (Nat.zero_le _)
    ⟨by simp, by
      intro j hj
      have : j = 0 := by omega
      subst this
      rw [cnt_false _ (by intro k _; simp)]; simp⟩ (by
      intro m c _ hm ⟨hs, hv⟩
      have a3 : m + 1 < c.size := by omega
      refine ⟨c.setIfInBounds (m + 1) (cnt (fun i => decide (s.ri i < m)) s.nonzero +
          cnt (fun j => s.ri j == m) s.nonzero), by
        simp only [tCsStep, Mat.aget_eq_ok.mpr (hv m (Nat.le_refl _)),
          Mat.aget_eq_ok.mpr (h1v m hm), bind, Except.bind]
        exact aset_ok _ a3, by simpa using hs, ?_⟩
      intro j hj
      rw [Array.getElem?_setIfInBounds]
      by_cases hc : m + 1 = j
      · subst hc
        simp only [if_true, a3]
        rw [cnt_lt_succ]
      · simp only [hc, if_false]
        exact hv j (by omega))
  rw [h2, ok_bind, h.forM'_cols_flat (tScatterStep s cs)]
  -- loop 3: scatter
  obtain ⟨⟨ri', vs', cnt'⟩, h3, h3a, h3b, h3c, h3d, h3e, h3f⟩ := forM'_inv
    (fun m (st : Array Nat × Array K × Array Nat) =>
      st.1.size = s.nonzero ∧ st.2.1.size = s.nonzero ∧ st.2.2.size = s.rows ∧
      (∀ r, r < s.rows → st.2.2[r]? = some (cnt (fun j => s.ri j == r) m)) ∧
      (∀ p, p < s.nonzero → st.1[p]?.getD 0 < s.cols) ∧
      (∀ j, j < m → st.1[pos s.ri s.nonzero j]?.getD 0 = s.colOf j ∧
        st.2.1[pos s.ri s.nonzero j]?.getD 0 = s.vl j))
    0 s.nonzero (Array.replicate s.nonzero 0, Array.replicate s.nonzero (0 : K),
      Array.replicate s.rows 0) (fun st k => tScatterStep s cs (s.colOf k) st k) (Nat.zero_le _)
    ⟨by simp, by simp, by simp, by intro r hr; simp [hr, cnt], by
      intro p hp
      have := h.colOf_lt (show 0 < s.nonzero by omega)
      simp [hp]; omega, by intro j hj; omega⟩ (by
      intro m ⟨a, b, c⟩ _ hm ⟨sa, sb, sc, hcnt, hlt, hpos⟩
      simp only at sa sb sc hcnt hlt hpos
      have hr := h.riLt m hm
      have hp := pos_lt s.ri hm
      have a1 : pos s.ri s.nonzero m < a.size := by omega
      have a2 : pos s.ri s.nonzero m < b.size := by omega
      have a3 : s.ri m < c.size := by omega
      refine ⟨(a.setIfInBounds (pos s.ri s.nonzero m) (s.colOf m),
          b.setIfInBounds (pos s.ri s.nonzero m) (s.vl m),
          c.setIfInBounds (s.ri m) (cnt (fun j => s.ri j == s.ri m) m + 1)), ?_,
        by simpa using sa, by simpa using sb, by simpa using sc, ?_, ?_, ?_⟩
      · simp only [tScatterStep, h.aget_ri hm, Mat.aget_eq_ok.mpr (h2v _ (Nat.le_of_lt hr)),
          Mat.aget_eq_ok.mpr (hcnt _ hr), h.aget_vl hm, bind, Except.bind]
        have e : cnt (fun i => decide (s.ri i < s.ri m)) s.nonzero + cnt (fun j => s.ri j == s.ri m) m =
          pos s.ri s.nonzero m := rfl
        rw [e]
        simp only [aset_ok _ a1, aset_ok _ a2, aset_ok _ a3]
        rfl
      · intro r hr'
        simp only [Array.getElem?_setIfInBounds]
        by_cases hc : s.ri m = r
        · subst hc; simp [a3, cnt]
        · simp [hc, cnt, hcnt r hr']
      · intro p hp'
        simp only [Array.getElem?_setIfInBounds]
        by_cases hc : pos s.ri s.nonzero m = p
        · subst hc; simp [a1]; exact h.colOf_lt hm
        · simp only [hc, if_false]; exact hlt p hp'
      · intro j hj
        simp only [Array.getElem?_setIfInBounds]
        by_cases hc : j = m
        · subst hc; simp [a1, a2]
        · have hne : pos s.ri s.nonzero m ≠ pos s.ri s.nonzero j :=
            fun e => pos_ne s.ri (show j < m by omega) hm e.symm
          simp only [hne, if_false]
          exact hpos j (by omega))
  simp only at h3a h3b h3c h3d h3e h3f
  rw [h3, ok_bind]
  have hcs : ∀ j, j ≤ s.rows → Sp.cs (⟨s.cols, s.rows, s.nonzero, vs', ri', cs⟩ : Sp K) j =
      cnt (fun i => decide (s.ri i < j)) s.nonzero := by
    intro j hj
    simp [Sp.cs, h2v j hj]
  have hwf : WF (⟨s.cols, s.rows, s.nonzero, vs', ri', cs⟩ : Sp K) := by
    refine ⟨h2s, ?_, ?_, ?_, h3b, h3a, h3e⟩
    · show cs[0]? = some 0
      rw [h2v 0 (Nat.zero_le _), cnt_false]
      intro k _; simp
    · intro j hj
      rw [hcs j (Nat.le_of_lt hj), hcs (j + 1) hj]
      apply cnt_mono_pred
      intro k _ hk
      have : s.ri k < j := by simpa using hk
      simp; omega
    · show cs[s.rows]? = some s.nonzero
      rw [h2v _ (Nat.le_refl _), cnt_true]
      intro k hk
      simpa using h.riLt k hk
  refine ⟨_, rfl, hwf, rfl, rfl, rfl, hcs, ?_⟩
  intro j hj
  have hr := h.riLt j hj
  have hcol : colOf (⟨s.cols, s.rows, s.nonzero, vs', ri', cs⟩ : Sp K) (pos s.ri s.nonzero j) = s.ri j := by
    apply hwf.colOf_eq hr
    · rw [hcs _ (Nat.le_of_lt hr)]; exact pos_ge _ _ _
    · rw [hcs _ hr]; exact pos_lt_succ _ hj
  obtain ⟨p1, p2⟩ := h3f j hj
  simp only [trip, swapT, hcol]
  exact Prod.ext p1 (Prod.ext rfl p2)

end Transpose

/-! ### the stable sort by column as a bucket sort -/

theorem insByCol_append (t : Nat × Nat × K) (R : List (Nat × Nat × K))
    (hR : ∀ r, r ∈ R → t.2.1 ≤ r.2.1) : ∀ (A : List (Nat × Nat × K)),
    (∀ a, a ∈ A → a.2.1 < t.2.1) → insByCol t (A ++ R) = A ++ t :: R
  | [], _ => by
    cases R with
    | nil => rfl
    | cons u us =>
      have := hR u (by simp)
      simp [insByCol, this]
  | a :: A, hA => by
    have h1 : ¬ t.2.1 ≤ a.2.1 := by have := hA a (by simp); omega
    have ih := insByCol_append t R hR A (fun b hb => hA b (by simp [hb]))
    simp only [List.cons_append, insByCol, h1, if_false, ih]

theorem range_split {c n : Nat} (hc : c < n) :
    List.range n = List.range c ++ c :: List.range' (c + 1) (n - c - 1) := by
  have e1 : n = c + ((n - c - 1) + 1) := by omega
  have := List.range'_append (s := 0) (m := c) (n := (n - c - 1) + 1) (step := 1)
  rw [← e1, List.range'_succ] at this
  simp only [Nat.one_mul, Nat.zero_add] at this
  rw [List.range_eq_range', List.range_eq_range', ← this]

/-- the stable sort by column lists, column after column, the triplets of that column in their
    original order -/
theorem sortByCol_eq_buckets (n : Nat) : ∀ (L : List (Nat × Nat × K)), (∀ t, t ∈ L → t.2.1 < n) →
    sortByCol L = (List.range n).flatMap (fun c => L.filter (fun t => t.2.1 == c))
  | [], _ => by simp [sortByCol]
  | t :: L, h => by
    have ih := sortByCol_eq_buckets n L (fun u hu => h u (by simp [hu]))
    have hc : t.2.1 < n := h t (by simp)
    have e : sortByCol (t :: L) = insByCol t (sortByCol L) := rfl
    rw [e, ih, range_split hc]
    simp only [List.flatMap_append, List.flatMap_cons]
    have eA : (List.range t.2.1).flatMap (fun c => (t :: L).filter (fun u => u.2.1 == c)) =
        (List.range t.2.1).flatMap (fun c => L.filter (fun u => u.2.1 == c)) := by
      apply List.flatMap_congr
      intro c hc'
      have : c < t.2.1 := List.mem_range.mp hc'
      have : ¬ t.2.1 = c := by omega
      simp [List.filter_cons, this]
    have eB : (t :: L).filter (fun u => u.2.1 == t.2.1) = t :: L.filter (fun u => u.2.1 == t.2.1) := by
      simp [List.filter_cons]
    have eC : (List.range' (t.2.1 + 1) (n - t.2.1 - 1)).flatMap (fun c => (t :: L).filter (fun u => u.2.1 == c)) =
        (List.range' (t.2.1 + 1) (n - t.2.1 - 1)).flatMap (fun c => L.filter (fun u => u.2.1 == c)) := by
      apply List.flatMap_congr
      intro c hc'
      have := (List.mem_range'_1.mp hc').1
      have : ¬ t.2.1 = c := by omega
      simp [List.filter_cons, this]
    rw [eA, eB, eC, List.cons_append]
    apply insByCol_append
    · intro r hr
      rcases List.mem_append.mp hr with hr | hr
      · have := (List.mem_filter.mp hr).2
        have : r.2.1 = t.2.1 := by simpa using this
        omega
      · obtain ⟨c, hc1, hc2⟩ := List.mem_flatMap.mp hr
        have := (List.mem_range'_1.mp hc1).1
        have := (List.mem_filter.mp hc2).2
        have : r.2.1 = c := by simpa using this
        omega
    · intro a ha
      obtain ⟨c, hc1, hc2⟩ := List.mem_flatMap.mp ha
      have := List.mem_range.mp hc1
      have := (List.mem_filter.mp hc2).2
      have : a.2.1 = c := by simpa using this
      omega

theorem filter_map_cnt (p : Nat → Bool) : ∀ n,
    ((List.range n).filter p).map (fun j => cnt p j) = List.range (cnt p n)
  | 0 => rfl
  | n + 1 => by
    rw [List.range_succ, List.filter_append, List.map_append, filter_map_cnt p n]
    cases hp : p n
    · simp [cnt, hp]
    · simp [cnt, hp, List.range_succ]

section Buckets
variable [Zero K]

/-- the slots of a well-formed storage, column after column -/
theorem WF.range_eq_buckets {s : Sp K} (h : WF s) :
    List.range s.nonzero =
      (List.range s.cols).flatMap (fun j => List.range' (s.cs j) (s.cs (j + 1) - s.cs j)) := by
  have key : ∀ m, m ≤ s.cols → List.range (s.cs m) =
      (List.range m).flatMap (fun j => List.range' (s.cs j) (s.cs (j + 1) - s.cs j)) := by
    intro m
    induction m with
    | zero => intro _; simp [h.cs_zero]
    | succ m ih =>
      intro hm
      rw [List.range_succ, List.flatMap_append, List.flatMap_singleton, ← ih (by omega)]
      have hmono := h.mono m (by omega)
      have := List.range'_append (s := 0) (m := s.cs m) (n := s.cs (m + 1) - s.cs m) (step := 1)
      have e1 : s.cs m + (s.cs (m + 1) - s.cs m) = s.cs (m + 1) := by omega
      simp only [Nat.one_mul, Nat.zero_add, e1] at this
      rw [List.range_eq_range', List.range_eq_range', this]
  have := key s.cols (Nat.le_refl _)
  rwa [h.cs_last] at this

/-- the stored triplets of the transpose are exactly the swapped triplets, stably sorted by their
    new column -/
theorem WF.transpose_trips {s : Sp K} (h : WF s) :
    ∃ t, transpose s = .ok t ∧ WF t ∧ t.rows = s.cols ∧ t.cols = s.rows ∧ t.nonzero = s.nonzero ∧
      trips t = sortByCol ((trips s).map swapT) := by
  obtain ⟨t, h1, hwf, hr, hc, hn, hcs, hpos⟩ := h.transpose_ok
  refine ⟨t, h1, hwf, hr, hc, hn, ?_⟩
  rw [sortByCol_eq_buckets s.rows]
  · unfold trips
    rw [hwf.range_eq_buckets, List.map_flatMap, hc]
    apply List.flatMap_congr
    intro k hk
    have hk' : k < s.rows := List.mem_range.mp hk
    -- the slots of column `k` of `t` are the images of the slots of `s` with row `k`
    have e1 : t.cs (k + 1) - t.cs k = cnt (fun j => s.ri j == k) s.nonzero := by
      rw [hcs _ hk', hcs _ (Nat.le_of_lt hk'), cnt_lt_succ]; omega
    have e2 : List.range' (t.cs k) (t.cs (k + 1) - t.cs k) =
        ((List.range s.nonzero).filter (fun j => s.ri j == k)).map (pos s.ri s.nonzero) := by
      rw [e1, List.range'_eq_map_range, ← filter_map_cnt, List.map_map]
      apply List.map_congr_left
      intro j hj
      have hj2 : s.ri j = k := by simpa using (List.mem_filter.mp hj).2
      simp only [Function.comp, pos, hj2, hcs _ (Nat.le_of_lt hk')]
    rw [e2, List.map_map, List.map_map, List.filter_map]
    have e3 : ((fun u : Nat × Nat × K => u.2.1 == k) ∘ (swapT ∘ trip s)) = (fun j => s.ri j == k) := by
      funext j; rfl
    rw [e3]
    apply List.map_congr_left
    intro j hj
    have hj1 : j < s.nonzero := List.mem_range.mp (List.mem_filter.mp hj).1
    exact hpos j hj1
  · intro u hu
    obtain ⟨v, hv, rfl⟩ := List.mem_map.mp hu
    exact (h.trips_inRange v hv).1

end Buckets

/-! ### the denoted entry as a sum over the stored triplets -/

section Entry
variable [CommSemiring K]

theorem sum_range_eq_list_sum (g : Nat → K) : ∀ n,
    ∑ k ∈ Finset.range n, g k = ((List.range n).map g).sum
  | 0 => by simp
  | n + 1 => by
    rw [Finset.sum_range_succ, sum_range_eq_list_sum g n, List.range_succ]
    simp

/-- the entry `(i, j)` denoted by a well-formed storage (duplicates summed) is the sum of the
    values of the stored triplets at that position -/
theorem WF.entry_eq_sum_trips {s : Sp K} (h : WF s) (i : Nat) {j : Nat} (hj : j < s.cols) :
    s.entry i j = ((trips s).map (fun t => if t.1 = i ∧ t.2.1 = j then t.2.2 else 0)).sum := by
  have hsub : Finset.Ico (s.cs j) (s.cs (j + 1)) ⊆ Finset.range s.nonzero := by
    intro k hk
    have := h.slot_lt hj (Finset.mem_Ico.mp hk).2
    exact Finset.mem_range.mpr this
  have e1 : s.entry i j = ∑ k ∈ Finset.Ico (s.cs j) (s.cs (j + 1)),
      if s.ri k = i ∧ s.colOf k = j then s.vl k else 0 := by
    unfold entry
    refine Finset.sum_congr rfl (fun k hk => ?_)
    obtain ⟨a, b⟩ := Finset.mem_Ico.mp hk
    simp [h.colOf_eq hj a b]
  rw [e1, Finset.sum_subset hsub, sum_range_eq_list_sum]
  · simp only [trips, List.map_map]
    rfl
  · intro k hk hnk
    have hk' := Finset.mem_range.mp hk
    have : ¬ s.colOf k = j := by
      intro e
      exact hnk (Finset.mem_Ico.mpr ((h.colOf_iff hj hk').mp e))
    simp [this]

end Entry

theorem cnt_eq_card (p : Nat → Bool) : ∀ n,
    cnt p n = ((Finset.range n).filter (fun k => p k = true)).card
  | 0 => by simp [cnt]
  | n + 1 => by
    rw [Finset.range_add_one, Finset.filter_insert]
    cases hp : p n
    · simp [cnt, hp, cnt_eq_card p n]
    · simp [cnt, hp, cnt_eq_card p n]

end Sp
end Ohsl
